/-
  D128/Proofs/ComposeSqlEval.lean — executable evidence for property C14: the generated
  `Gen.Decimal.Compose` / `Gen.Decimal.Decompose` are run (`#guard`, compiled evaluation) on the corner
  inputs named in the task and compared with `Spec.composeExpect` / `Spec.decomposeExpect`.  Every
  case agrees; the general statements are proved in ComposeSqlSpec.lean (`CS.Compose_agrees`, …), this
  file only records that the evaluation was done before proving (and exercises the executable code).

  Cases: coefficients around 2^64, 2^113, Cmax = 5·2^111−1, 2^128, 2^192, 2^256, more than 32 bytes with
  and without trailing decimal zeros (non-zero remainder at the big.Int, div1e19, div10000 and div10
  stages), leading zero bytes, exponents MinInt32 / MaxInt32, −6176−35, −6176−36, 6111+1, 6111+34,
  6111+35, and the unguarded `exp++` of the ≤ 16-byte path with exp = MaxInt32 (the int32 WRAPS to
  MinInt32 there; the result is still the range error the specification demands, see `CS.T1`).
-/
import D128.Gen.ComposeBig
import D128.Gen.ComposeText
import D128.Spec.Conv
set_option autoImplicit false

namespace CS.Eval
open Gen

def be (n : Nat) : Array UInt8 := Go.BigInt.Bytes n
def lead (k : Nat) (b : Array UInt8) : Array UInt8 := Array.replicate k 0 ++ b
def d0 : Decimal := ⟨12345, 678⟩
def Cmax : Nat := 5 * 2 ^ 111 - 1

/-- generated code and specification agree on this input -/
def agree (form : UInt8) (neg : Bool) (b : Array UInt8) (exp : Int32) : Bool :=
  match Decimal.Compose d0 form neg b exp, Spec.composeExpect form.toNat neg b exp.toInt with
  | .ok (d, .nil), .ok v => (Spec.interp d.lo d.hi).same v
  | .ok (d, .composeRangeError), .error "composeRange" => d == d0
  | .ok (d, .composeFormError), .error "composeForm" => d == d0
  | _, _ => false

/-- the outcome is the range error -/
def rangeErr (neg : Bool) (b : Array UInt8) (exp : Int32) : Bool :=
  match Decimal.Compose d0 0 neg b exp with
  | .ok (d, .composeRangeError) => d == d0
  | _ => false

-- around 2^64, 2^113, Cmax
#guard agree 0 false (be (2 ^ 64)) 0
#guard agree 0 false (be (2 ^ 64 - 1)) 0
#guard agree 0 true (be (2 ^ 113)) 5
#guard agree 0 true (be Cmax) 6111
#guard agree 0 true (be (Cmax + 1)) 6111 && rangeErr true (be (Cmax + 1)) 6111
#guard agree 0 true (be (Cmax + 1)) 6110
#guard agree 0 true (be Cmax) 6112 && rangeErr true (be Cmax) 6112
-- 2^128, 2^192, 2^256 and multiples with decimal zeros
#guard agree 0 false (be (2 ^ 128)) 0 && rangeErr false (be (2 ^ 128)) 0
#guard agree 0 false (be (2 ^ 128 * 5 ^ 20)) (-20)
#guard agree 0 false (be (2 ^ 192)) 0
#guard agree 0 false (be (2 ^ 192 * 5 ^ 70)) (-20)
#guard agree 0 false (be (2 ^ 256)) 0
#guard agree 0 false (be (2 ^ 256 * 5 ^ 150)) (-20)
-- more than 32 bytes: remainder non-zero at each stage
#guard agree 0 false (be (10 ^ 100)) (-20)
#guard agree 0 false (be (10 ^ 100 + 1)) (-20) && rangeErr false (be (10 ^ 100 + 1)) (-20)
#guard agree 0 false (be (10 ^ 100 + 10 ^ 19)) (-20) && rangeErr false (be (10 ^ 100 + 10 ^ 19)) (-20)
#guard agree 0 false (be (10 ^ 100 + 10 ^ 38)) (-20) && rangeErr false (be (10 ^ 100 + 10 ^ 38)) (-20)
#guard agree 0 false (be (10 ^ 100 + 10 ^ 57)) (-20) && rangeErr false (be (10 ^ 100 + 10 ^ 57)) (-20)
#guard agree 0 false (be (10 ^ 100 + 10 ^ 65)) (-20) && rangeErr false (be (10 ^ 100 + 10 ^ 65)) (-20)
#guard agree 0 false (be (10 ^ 100 + 10 ^ 66)) (-20)
#guard agree 0 false (be (10 ^ 100 + 10 ^ 70)) (-20)
#guard agree 0 false (be (12345 * 10 ^ 200)) (-20)
#guard agree 0 false (be (Cmax * 10 ^ 300)) (6111 - 300)
#guard agree 0 false (be (Cmax * 10 ^ 300)) (6111 - 299)
#guard agree 0 false (be ((Cmax + 1) * 10 ^ 300)) (6111 - 300)
#guard agree 0 false (be ((Cmax + 1) * 10 ^ 300)) (6111 - 301)
#guard agree 0 false (be (Cmax * 10 ^ 300)) (-6176 - 300)
#guard agree 0 false (be ((Cmax + 1) * 10 ^ 300)) (-6176 - 301)
-- leading zero bytes, zero
#guard agree 0 false (lead 7 (be (12345 * 10 ^ 200))) (-200)
#guard agree 0 false (lead 40 (be 12345)) (-200)
#guard agree 0 false (lead 40 #[]) (-200)
#guard agree 0 false #[] 2147483647
#guard agree 0 true #[0] (-2147483648)
-- extreme exponents
#guard agree 0 false (be 1) 2147483647 && agree 0 false (be 1) (-2147483648)
#guard agree 0 false (be 1) 6111 && agree 0 false (be 1) 6112
#guard agree 0 false (be 1) (6111 + 34) && agree 0 false (be 1) (6111 + 35)
#guard agree 0 false (be 12) (6111 + 33) && agree 0 false (be 13) (6111 + 33)
#guard agree 0 false (be (10 ^ 34)) (-6176 - 34) && agree 0 false (be (10 ^ 34)) (-6176 - 35)
#guard agree 0 false (be (10 ^ 35)) (-6176 - 35) && agree 0 false (be (10 ^ 35)) (-6176 - 36)
#guard agree 0 false (be (10 ^ 38)) (-6176 - 38) && agree 0 false (be (10 ^ 38)) (-6176 - 39)
#guard agree 0 false (be (10 ^ 60)) (-6176 - 60) && agree 0 false (be (10 ^ 60)) (-6176 - 61)
#guard agree 0 false (be (10 ^ 300)) (-6176 - 300) && agree 0 false (be (10 ^ 300)) (-2147483648)
#guard agree 0 false (be (10 ^ 100)) 6045 && agree 0 false (be (10 ^ 100)) 6046
#guard agree 0 false (be (10 ^ 100)) 2147483647 && agree 0 false (be (10 ^ 70)) 2147483647
-- the unguarded `exp++` (≤ 16 bytes, sig128[1] > 0x27fff…, exp = MaxInt32): int32 wraps, still an error
#guard agree 0 false (be (2 ^ 128 - 1)) 2147483647 && rangeErr false (be (2 ^ 128 - 1)) 2147483647
#guard agree 0 false (be (10 ^ 38)) 2147483647 && rangeErr false (be (10 ^ 38)) 2147483647
#guard agree 0 false (be (3 * 10 ^ 38)) 2147483647 && rangeErr false (be (3 * 10 ^ 38)) 2147483647
#guard agree 0 false (be (10 ^ 38)) 2147483646 && agree 0 false (be (10 ^ 38)) 6112
-- other forms
#guard agree 1 true #[1, 2, 3] 55 && agree 2 true #[1, 2, 3] 55 && agree 3 true #[1, 2, 3] 55
#guard agree 255 false #[] 0

/-! Decompose (with an empty, a short and a reusable dirty buffer) and the round trip -/

def decAgree (d : Decimal) (buf : Array UInt8) : Bool :=
  match Decimal.Decompose d buf with
  | .ok (f, s, b, e) => (f.toNat, s, b.toList, e.toInt) == Spec.decomposeExpect (Spec.interp d.lo d.hi)
  | _ => false

def roundTrip (d : Decimal) (buf : Array UInt8) : Bool :=
  match Decimal.Decompose d buf with
  | .ok (f, s, b, e) =>
    (match Decimal.Compose d0 f s b e with
     | .ok (d', .nil) =>
        (Spec.interp d.lo d.hi).isNaN && (Spec.interp d'.lo d'.hi).isNaN ||
        Spec.equal (Spec.interp d'.lo d'.hi) (Spec.interp d.lo d.hi) && Decimal.Signbit d' == Decimal.Signbit d
     | _ => false)
  | _ => false

def samples : List Decimal :=
  [zero false, zero true, one false, one true, inf false, inf true, nan 1 0 0,
   compose false (U128.ofNat Cmax) 12287, compose true (U128.ofNat Cmax) 0,
   compose false (U128.ofNat (2 ^ 64)) 6176, compose true (U128.ofNat (2 ^ 64 - 1)) 1,
   compose false (U128.ofNat (2 ^ 113 - 1)) 6000, compose false (U128.ofNat (10 ^ 33)) 12287,
   ⟨0xffffffffffffffff, 0x7bffffffffffffff⟩, ⟨5, 0xfc00000000000000⟩, ⟨0, 0x6000000000000000⟩]

#guard samples.all fun d => decAgree d #[] && decAgree d (Array.replicate 5 9) && decAgree d (Array.replicate 40 0xff)
#guard samples.all fun d => roundTrip d #[] && roundTrip d (Array.replicate 40 0xff)

end CS.Eval
