/-
  D128/Proofs/PowAccMain.lean — property C18: the general path of `Pow` (`PowPf.general`: `log → mul → range tests →
  epow → (rcp) → reduce192 → compose`) against the real power, relative to the accuracy of the logarithm.

  Provided (namespace `PowAcc`):
  * `general_good`  : nearest mode; stripped operands `dSig·10^(dExp−6176)` (the base, `X`), `oSig·10^(oExp−6176)` (`|y|`);
                      if the logarithm of the base is accurate to `κ'·|ln X| + 4.5·10^-56` and
                      `(κ' + 4·10^-57)(1 + 10^-7) ≤ κ/2`, then every result `r` of `general` is
                      `PowGood neg (|y|·(κ·|ln X| + 10^-55)) (e^(ln X · y)) 𝔳[r]`
-/
import D128.Proofs.PowAccStage
set_option autoImplicit false
set_option maxRecDepth 8192

namespace PowAcc
open Gen D192 Spec SpecRound EnclPf ExpAcc LogAcc PowPf RK
local notation "𝔳[" d "]" => Spec.interp (Gen.Decimal.lo d) (Gen.Decimal.hi d)

theorem cmax_lt35 {n : Nat} (h : n ≤ Spec.Cmax) : n < 10 ^ 35 := by
  have := Cmax_val; omega

theorem side_log (e : Int) (h0 : 0 ≤ e) (h1 : e ≤ 12400) : -16000 ≤ e - 6176 ∧ e - 6176 ≤ 16000 := by omega

theorem side_mul (le oe : Int) (h0 : -5930 ≤ le) (h1 : le ≤ 5500) (ho0 : 0 ≤ oe) (hs : ¬ le + oe > 12322) :
    -32768 ≤ le + (oe - 6176) ∧ le + (oe - 6176) + 58 ≤ 32767 ∧ -15900 ≤ le + (oe - 6176) := by omega

theorem side_sum (le oe : Int) (hs : le + oe > 12322) : (5 : Int) ≤ le + (oe - 6176) := by omega

/-- the first range test taken: the true exponent is at least 40000 -/
theorem far_of_sum {Lv Lx Ya : ℝ} {sL sO : Nat} {le oe : Int} (hsL : 1 ≤ sL) (hsO : 1 ≤ sO)
    (hLv : Lv = (sL : ℝ) * (10 : ℝ) ^ le) (hYa : Ya = (sO : ℝ) * (10 : ℝ) ^ oe) (h5 : (5 : Int) ≤ le + oe)
    (hLv2 : Lv ≤ 2 * Lx) (hY : 0 < Ya) : 40000 ≤ Lx * Ya := by
  have h1 : (10 : ℝ) ^ le ≤ Lv := by
    rw [hLv]
    have h1' : (1 : ℝ) ≤ (sL : ℝ) := by exact_mod_cast hsL
    have hp : (0 : ℝ) < (10 : ℝ) ^ le := zpow_pos (by norm_num) _
    nlinarith
  have h2 : (10 : ℝ) ^ oe ≤ Ya := by
    rw [hYa]
    have h1' : (1 : ℝ) ≤ (sO : ℝ) := by exact_mod_cast hsO
    have hp : (0 : ℝ) < (10 : ℝ) ^ oe := zpow_pos (by norm_num) _
    nlinarith
  have h3 : (10 : ℝ) ^ (5 : Int) ≤ (10 : ℝ) ^ le * (10 : ℝ) ^ oe := by
    rw [← zpow_add₀ (by norm_num)]
    exact zpow_le_zpow_right₀ (by norm_num) h5
  have hLvpos : 0 ≤ Lv := le_trans (zpow_pos (by norm_num) _).le h1
  have h4 : (10 : ℝ) ^ le * (10 : ℝ) ^ oe ≤ Lv * Ya :=
    mul_le_mul h1 h2 (zpow_pos (by norm_num) _).le hLvpos
  have h5' : Lv * Ya ≤ 2 * Lx * Ya := mul_le_mul_of_nonneg_right hLv2 hY.le
  have h6 : (10 : ℝ) ^ (5 : Int) = 100000 := by norm_num
  rw [h6] at h3
  nlinarith

/-! ## the general path -/

/-- **The general path of `Pow` against the real power**, relative to the accuracy `κ'·|ln X| + 4.5·10^-56` of the
logarithm of the base `X = dSig·10^(dExp−6176)`; `|y| = oSig·10^(oExp−6176)`, `oNeg` the sign of `y`, `neg` the sign of
the result.  Nearest mode.  Every result is `PowGood` for `e^(ln X·y)` with the tolerance `|y|·(κ·|ln X| + 10^-55)`. -/
theorem general_good (rm : UInt8) (m : Spec.Mode) (hm : Spec.Mode.ofNat? rm.toNat = some m)
    (hn : isNearest m = true) (oNeg neg : Bool) (oSig dSig : U128) (oExp dExp : Int16)
    (hd1 : 1 ≤ dSig.toNat) (hdC : dSig.toNat ≤ Spec.Cmax) (hde0 : 0 ≤ dExp.toInt) (hde1 : dExp.toInt ≤ 12400)
    (ho1 : 1 ≤ oSig.toNat) (hoe0 : 0 ≤ oExp.toInt) (hoe1 : oExp.toInt ≤ 12400)
    (κ' κ : ℝ) (hκ0 : 0 ≤ κ') (hκ1 : κ' ≤ 1 / 10 ^ 30)
    (hκ : (κ' + 4 / 10 ^ 57) * (1 + 1 / 10 ^ 7) ≤ κ / 2) (hκ2 : κ ≤ 1 / 10 ^ 29)
    (hlogacc : ∀ inv x t, Gen.decomposed192.log (wf dSig dExp) = .ok (inv, x, t) →
      |((val x : ℚ) : ℝ) - (|Real.log ((val (wf dSig dExp) : ℚ) : ℝ)|)|
        ≤ κ' * |Real.log ((val (wf dSig dExp) : ℚ) : ℝ)| + 45 / 10 ^ 57) :
    ∀ r : Decimal, general rm oNeg neg oSig oExp dSig dExp = .ok r →
    PowGood neg
      (((val (wf oSig oExp) : ℚ) : ℝ) * (κ * |Real.log ((val (wf dSig dExp) : ℚ) : ℝ)| + 1 / 10 ^ 55))
      (Real.exp (Real.log ((val (wf dSig dExp) : ℚ) : ℝ) *
        (if oNeg = true then -((val (wf oSig oExp) : ℚ) : ℝ) else ((val (wf oSig oExp) : ℚ) : ℝ))))
      𝔳[r] := by
  -- the operands
  obtain ⟨a, ha⟩ : ∃ a, wf dSig dExp = a := ⟨_, rfl⟩
  obtain ⟨yv, hyv⟩ : ∃ yv, wf oSig oExp = yv := ⟨_, rfl⟩
  have hasig : a.sig.toNat = dSig.toNat := by rw [← ha]; exact wf_sig dSig dExp
  have haexp : a.exp.toInt = dExp.toInt - 6176 := by rw [← ha]; exact wf_exp dSig dExp hde0 hde1
  have hysig : yv.sig.toNat = oSig.toNat := by rw [← hyv]; exact wf_sig oSig oExp
  have hyexp : yv.exp.toInt = oExp.toInt - 6176 := by rw [← hyv]; exact wf_exp oSig oExp hoe0 hoe1
  rw [ha] at hlogacc
  rw [ha, hyv]
  set Xa : ℝ := ((val a : ℚ) : ℝ) with hXa
  set Ya : ℝ := ((val yv : ℚ) : ℝ) with hYa
  have hXaeq : Xa = (dSig.toNat : ℝ) * (10 : ℝ) ^ (dExp.toInt - 6176) := by
    rw [hXa, val_cast, hasig, haexp]
  have hYaeq : Ya = (oSig.toNat : ℝ) * (10 : ℝ) ^ (oExp.toInt - 6176) := by
    rw [hYa, val_cast, hysig, hyexp]
  have hXpos : 0 < Xa := by
    rw [hXaeq]
    have : (0 : ℝ) < (dSig.toNat : ℝ) := by exact_mod_cast hd1
    positivity
  have hYpos : 0 < Ya := by
    rw [hYaeq]
    have : (0 : ℝ) < (oSig.toNat : ℝ) := by exact_mod_cast ho1
    positivity
  have hκ3 : 0 ≤ κ := by
    have : 0 ≤ (κ' + 4 / 10 ^ 57) * (1 + 1 / 10 ^ 7) := by positivity
    linarith
  set Lx : ℝ := |Real.log Xa| with hLx
  have hLx0 : 0 ≤ Lx := abs_nonneg _
  have htol0 : 0 ≤ Ya * (κ * Lx + 1 / 10 ^ 55) := by positivity
  -- the logarithm
  have hsa : a.sig.toNat ≠ 0 := by rw [hasig]; exact Nat.one_le_iff_ne_zero.1 hd1
  have hea : -16000 ≤ a.exp.toInt ∧ a.exp.toInt ≤ 16000 := by rw [haexp]; exact side_log _ hde0 hde1
  obtain ⟨inv, L, tL, hlogeq, hfl, hLe0, hLe1, hinv, -⟩ := log_fine a hsa hea
  have hLacc := hlogacc inv L tL hlogeq
  have hG0 : general rm oNeg neg oSig oExp dSig dExp = genAfterLog rm oNeg neg oSig oExp (inv, L, tL) :=
    gS_log (by rw [ha]; exact hlogeq)
  rw [hG0]
  by_cases hone : Xa = 1
  · -- |x| = 1: the logarithm is exactly 0, the result is ±1
    have hvq : val a = 1 := by
      have : ((val a : ℚ) : ℝ) = ((1 : ℚ) : ℝ) := by rw [← hXa, hone]; norm_num
      exact_mod_cast this
    have hL0 := log_at_one a hsa hea hvq inv L tL hlogeq
    rw [gAL_one hL0]
    intro r h
    have hr : Gen.one neg = r := by injection h
    rw [← hr, Enc.interp_one, hone, Real.log_one, zero_mul, Real.exp_zero]
    have e0 : Lx = 0 := by rw [hLx, hone, Real.log_one, abs_zero]
    rw [e0]; rw [e0] at htol0
    exact good_one neg htol0
  -- |x| ≠ 1
  have hgap := gap_one dSig.toNat (dExp.toInt - 6176) hd1 (cmax_lt35 hdC) (by rw [← hXaeq]; exact hone)
  rw [← hXaeq] at hgap
  have hLx36 : 1 / 10 ^ 36 ≤ Lx := log_gap Xa hXpos hgap
  have hLxpos : 0 < Lx := lt_of_lt_of_le (by norm_num) hLx36
  set Lv : ℝ := ((val L : ℚ) : ℝ) with hLv
  obtain ⟨hLv34, hLv2, hLvpos⟩ := lv_bounds hκ1 hLx36 hLacc
  have hLsig : L.sig.toNat ≠ 0 := by
    intro h0
    have : val L = 0 := by unfold val; rw [h0]; simp
    rw [hLv, this] at hLvpos; simp at hLvpos
  -- the exponent of the power by the orientation flags
  have hsplit := arg_split (Ya := Ya) hXpos inv oNeg hinv
  rw [hsplit, exp_sgn]
  have hp0 : 0 ≤ Lx * Ya := by positivity
  -- the first range test
  by_cases hsum : L.exp.toInt + oExp.toInt > 12322
  · rw [gAL_out hLsig hsum]
    have hQ : (10 : ℝ) ^ (6200 : ℕ) ≤ Real.exp (Lx * Ya) :=
      e40000 (far_of_sum (Nat.one_le_iff_ne_zero.2 hLsig) ho1 (by rw [hLv, val_cast]) hYaeq
        (side_sum _ _ hsum) hLv2 hYpos)
    exact outV_good neg _ htol0 hQ
  -- the product
  obtain ⟨hsm1, hsm2, hsm3⟩ := side_mul L.exp.toInt oExp.toInt hLe0 hLe1 hoe0 hsum
  obtain ⟨res, t1, hmul, hm1, hm2, hmt, hme0, hme1⟩ := mul_rel L yv tL (by rw [hyexp]; exact hsm1) (by rw [hyexp]; exact hsm2)
  rw [gAL_mul hLsig hsum (by rw [hyv]; exact hmul)]
  set pv : ℝ := ((val res : ℚ) : ℝ) with hpv
  have hm1r : Lv * Ya * (1 - 2 / 10 ^ 57) ≤ pv := by
    have : (((val L * val yv * (1 - 2 / 10 ^ 57) : ℚ)) : ℝ) ≤ ((val res : ℚ) : ℝ) := by exact_mod_cast hm1
    push_cast at this; exact this
  have hm2r : pv ≤ Lv * Ya := by
    have : ((val res : ℚ) : ℝ) ≤ ((val L * val yv : ℚ) : ℝ) := by exact_mod_cast hm2
    push_cast at this; exact this
  obtain ⟨hpv2, hppv⟩ := p_from_pv hLxpos hYpos hLv34 hLv2 hm1r hm2r
  have hpvpos : 0 < pv := by
    have : 0 < Lv * Ya * (1 - 2 / 10 ^ 57) := by positivity
    linarith
  have hrsig : res.sig.toNat ≠ 0 := by
    intro h0
    have : val res = 0 := by unfold val; rw [h0]; simp
    rw [hpv, this] at hpvpos; simp at hpvpos
  have hft1 : flag3 t1 := flag3_of_or hfl hmt
  have hre0 : -15900 ≤ res.exp.toInt := by rw [hyexp] at hme0; exact le_trans hsm3 hme0
  refine stage_mul rm m hm hn neg (oNeg != inv) res t1 (Lx * Ya) (Bk κ' Lx Ya) _ hrsig hft1 hre0 hp0
    (Bk_nonneg hκ0 hLx0 hYpos.le) htol0 hpv2 ?_
  intro hpv6
  have hp6 : Lx * Ya ≤ 2 * 10 ^ 6 := by linarith
  obtain ⟨hBk9, htol1⟩ := small_bounds (κ := κ) hκ1 hκ2 hLx36 hYpos hp6
  exact ⟨prod_close (by linarith [show (1:ℝ)/10^30 ≤ 1 by norm_num]) hLxpos hYpos hLacc hm1r hm2r, hBk9, htol1,
    budget (κ := κ) hκ0 hLx0 hYpos.le hκ hBk9⟩

end PowAcc
