/-
  D128/Proofs/PowAccMain.lean — property C18: the general path of `Pow` (`PowPf.general`: `log → mul → range tests →
  epow → (rcp) → reduce192 → compose`) against the real power, relative to the accuracy of the logarithm.

  Provided (namespace `PowAcc`):
  * `good_out`      : an early `Inf` / zero is right when `e^(|y·ln|x||) ≥ 10^6200`
  * `arg_split`     : `ln x · y = ±|ln x|·|y|` by the orientation flags of the code
  * `general_good`  : nearest mode; stripped operands `dSig·10^(dExp−6176)` (the base, `X`), `oSig·10^(oExp−6176)` (`|y|`);
                      if the logarithm of the base is accurate to `κ'·|ln X| + 4.5·10^-56` and
                      `(κ' + 4·10^-57)(1 + 10^-7) ≤ κ/2`, then every result `r` of `general` is
                      `PowGood neg (|y|·(κ·|ln X| + 10^-55)) (e^(ln X · y)) 𝔳[r]`
-/
import D128.Proofs.PowAccChain
set_option autoImplicit false
set_option maxRecDepth 8192

namespace PowAcc
open Gen D192 Spec SpecRound EnclPf ExpAcc LogAcc PowPf RK
local notation "𝔳[" d "]" => Spec.interp (Gen.Decimal.lo d) (Gen.Decimal.hi d)

theorem good_out (neg sgn : Bool) {tol Q : ℝ} (ht0 : 0 ≤ tol) (hQ : (10 : ℝ) ^ (6200 : ℕ) ≤ Q) :
    PowGood neg tol (if sgn = true then 1 / Q else Q) 𝔳[if sgn = true then Gen.zero neg else Gen.inf neg] := by
  have hQ0 : 0 < Q := lt_of_lt_of_le (by positivity) hQ
  cases sgn
  · simp only [Bool.false_eq_true, if_false]
    rw [Enc.interp_inf]
    exact good_inf neg ht0 (le_trans (pow_le_pow_right₀ (by norm_num) (by norm_num)) hQ)
  · simp only [if_true]
    rw [Enc.interp_zero]
    exact good_zero neg ht0 (by positivity) (one_div_le_one_div_of_le (by positivity) hQ) _

theorem ret_out {neg c : Bool} {r : Decimal}
    (h : ((if c = true then pure (Gen.zero neg) else pure (Gen.inf neg)) : Go.GoM Decimal) = .ok r) :
    r = if c = true then Gen.zero neg else Gen.inf neg := by
  cases c
  · have : Gen.inf neg = r := by injection h
    rw [← this]; rfl
  · have : Gen.zero neg = r := by injection h
    rw [← this]; rfl

/-- the exponent `ln x · y` by the orientation flags -/
theorem arg_split {X Ya : ℝ} (hX : 0 < X) (inv oNeg : Bool) (hinv : inv = true ↔ X < 1) :
    Real.log X * (if oNeg = true then -Ya else Ya)
      = if (oNeg != inv) = true then -(|Real.log X| * Ya) else |Real.log X| * Ya := by
  cases inv
  · have h1 : 1 ≤ X := by
      by_contra hc
      have := hinv.2 (not_le.1 hc); cases this
    rw [abs_of_nonneg (Real.log_nonneg h1)]
    cases oNeg <;> simp
  · have h1 : X < 1 := hinv.1 rfl
    rw [abs_of_neg (Real.log_neg hX h1)]
    cases oNeg <;> simp

theorem exp_sgn (sgn : Bool) (p : ℝ) :
    Real.exp (if sgn = true then -p else p) = if sgn = true then 1 / Real.exp p else Real.exp p := by
  cases sgn
  · simp
  · simp [Real.exp_neg]

theorem e40000 {p : ℝ} (h : 40000 ≤ p) : (10 : ℝ) ^ (6200 : ℕ) ≤ Real.exp p :=
  le_trans (pow_le_pow_right₀ (by norm_num) (by norm_num)) (exp_gt_of_ge h).le

/-! ## real-number bounds used along the path -/

theorem lv_bounds {κ' Lx Lv : ℝ} (hκ1 : κ' ≤ 1 / 10 ^ 30) (hL : 1 / 10 ^ 36 ≤ Lx)
    (hLv : |Lv - Lx| ≤ κ' * Lx + 45 / 10 ^ 57) : 3 / 4 * Lx ≤ Lv ∧ Lv ≤ 2 * Lx ∧ 0 < Lv := by
  obtain ⟨h1, h2⟩ := abs_le.1 hLv
  have hLpos : 0 < Lx := lt_of_lt_of_le (by norm_num) hL
  have h3 : κ' * Lx ≤ 1 / 10 ^ 30 * Lx := mul_le_mul_of_nonneg_right hκ1 hLpos.le
  have h4 : (45 : ℝ) / 10 ^ 57 ≤ 1 / 10 ^ 19 * Lx := by
    have : (45 : ℝ) / 10 ^ 57 ≤ 1 / 10 ^ 19 * (1 / 10 ^ 36) := by norm_num
    have : 1 / 10 ^ 19 * (1 / 10 ^ 36 : ℝ) ≤ 1 / 10 ^ 19 * Lx := mul_le_mul_of_nonneg_left hL (by norm_num)
    linarith
  have h5 : (1 : ℝ) / 10 ^ 30 * Lx + 1 / 10 ^ 19 * Lx ≤ 1 / 4 * Lx := by
    have : ((1 : ℝ) / 10 ^ 30 + 1 / 10 ^ 19) * Lx ≤ 1 / 4 * Lx := mul_le_mul_of_nonneg_right (by norm_num) hLpos.le
    linarith
  refine ⟨by linarith, by linarith, by linarith⟩

theorem p_from_pv {Lx Lv Ya pv : ℝ} (hL : 0 < Lx) (hY : 0 < Ya) (h34 : 3 / 4 * Lx ≤ Lv) (h2 : Lv ≤ 2 * Lx)
    (hp1 : Lv * Ya * (1 - 2 / 10 ^ 57) ≤ pv) (hp2 : pv ≤ Lv * Ya) :
    pv ≤ 2 * (Lx * Ya) ∧ Lx * Ya ≤ 2 * pv := by
  have h3 : Lv * Ya ≤ 2 * Lx * Ya := mul_le_mul_of_nonneg_right h2 hY.le
  have h4 : 3 / 4 * Lx * Ya ≤ Lv * Ya := mul_le_mul_of_nonneg_right h34 hY.le
  have h5 : 0 ≤ Lv * Ya := by
    have : 0 ≤ 3 / 4 * Lx * Ya := by positivity
    linarith
  have h6 : Lv * Ya * (3 / 4) ≤ Lv * Ya * (1 - 2 / 10 ^ 57) := mul_le_mul_of_nonneg_left (by norm_num) h5
  constructor
  · nlinarith
  · nlinarith

theorem small_bounds {κ' κ Lx Ya : ℝ} (hκ1 : κ' ≤ 1 / 10 ^ 30) (hκ2 : κ ≤ 1 / 10 ^ 29)
    (hL : 1 / 10 ^ 36 ≤ Lx) (hY : 0 < Ya) (hp : Lx * Ya ≤ 2 * 10 ^ 6) :
    Bk κ' Lx Ya ≤ 1 / 10 ^ 9 ∧ Ya * (κ * Lx + 1 / 10 ^ 55) ≤ 1 / 1000 := by
  have hLpos : 0 < Lx := lt_of_lt_of_le (by norm_num) hL
  have hYa : Ya ≤ 2 * 10 ^ 42 := by
    have h1 : 1 / 10 ^ 36 * Ya ≤ Lx * Ya := mul_le_mul_of_nonneg_right hL hY.le
    have h2 : 1 / 10 ^ 36 * Ya ≤ 2 * 10 ^ 6 := le_trans h1 hp
    have e : Ya = 10 ^ 36 * (1 / 10 ^ 36 * Ya) := by field_simp
    rw [e]
    have : (10 : ℝ) ^ 36 * (1 / 10 ^ 36 * Ya) ≤ 10 ^ 36 * (2 * 10 ^ 6) := mul_le_mul_of_nonneg_left h2 (by norm_num)
    have e2 : (10 : ℝ) ^ 36 * (2 * 10 ^ 6) = 2 * 10 ^ 42 := by norm_num
    linarith
  constructor
  · unfold Bk
    have e : Ya * ((κ' + 4 / 10 ^ 57) * Lx + 46 / 10 ^ 57) = (κ' + 4 / 10 ^ 57) * (Lx * Ya) + 46 / 10 ^ 57 * Ya := by ring
    rw [e]
    have h1 : (κ' + 4 / 10 ^ 57) * (Lx * Ya) ≤ (1 / 10 ^ 30 + 4 / 10 ^ 57) * (2 * 10 ^ 6) :=
      mul_le_mul (by linarith) hp (by positivity) (by norm_num)
    have h2 : 46 / 10 ^ 57 * Ya ≤ 46 / 10 ^ 57 * (2 * 10 ^ 42) := mul_le_mul_of_nonneg_left hYa (by norm_num)
    have h3 : ((1 : ℝ) / 10 ^ 30 + 4 / 10 ^ 57) * (2 * 10 ^ 6) + 46 / 10 ^ 57 * (2 * 10 ^ 42) ≤ 1 / 10 ^ 9 := by norm_num
    linarith
  · have e : Ya * (κ * Lx + 1 / 10 ^ 55) = κ * (Lx * Ya) + 1 / 10 ^ 55 * Ya := by ring
    rw [e]
    have h1 : κ * (Lx * Ya) ≤ 1 / 10 ^ 29 * (2 * 10 ^ 6) := mul_le_mul hκ2 hp (by positivity) (by norm_num)
    have h2 : 1 / 10 ^ 55 * Ya ≤ 1 / 10 ^ 55 * (2 * 10 ^ 42) := mul_le_mul_of_nonneg_left hYa (by norm_num)
    have h3 : (1 : ℝ) / 10 ^ 29 * (2 * 10 ^ 6) + 1 / 10 ^ 55 * (2 * 10 ^ 42) ≤ 1 / 1000 := by norm_num
    linarith

/-- a working-format value is at least `10^exp` when its significand is non-zero, and below `10^(exp + ⌊log10 sig⌋ + 1)` -/
theorem val_log_bounds (x : decomposed192) (hs : x.sig.toNat ≠ 0) :
    ((10 : ℝ) ^ (x.exp.toInt + (Nat.log 10 x.sig.toNat : Int)) ≤ ((val x : ℚ) : ℝ)) ∧
    ((val x : ℚ) : ℝ) < (10 : ℝ) ^ (x.exp.toInt + (Nat.log 10 x.sig.toNat : Int) + 1) := by
  obtain ⟨hb1, hb2⟩ := log_bounds x.sig.toNat (Nat.pos_of_ne_zero hs)
  have hb1r : (10 : ℝ) ^ (Nat.log 10 x.sig.toNat : Int) ≤ (x.sig.toNat : ℝ) := by
    have : (((10 : ℚ) ^ (Nat.log 10 x.sig.toNat : Int) : ℚ) : ℝ) ≤ ((x.sig.toNat : ℚ) : ℝ) := by exact_mod_cast hb1
    push_cast at this; exact this
  have hb2r : (x.sig.toNat : ℝ) < (10 : ℝ) ^ ((Nat.log 10 x.sig.toNat : Int) + 1) := by
    have : ((x.sig.toNat : ℚ) : ℝ) < (((10 : ℚ) ^ ((Nat.log 10 x.sig.toNat : Int) + 1) : ℚ) : ℝ) := by exact_mod_cast hb2
    push_cast at this; exact this
  have hp : (0 : ℝ) < (10 : ℝ) ^ x.exp.toInt := zpow_pos (by norm_num) _
  rw [val_cast]
  constructor
  · rw [add_comm, zpow_add₀ (by norm_num)]
    exact mul_le_mul_of_nonneg_right hb1r hp.le
  · rw [show x.exp.toInt + (Nat.log 10 x.sig.toNat : Int) + 1 = ((Nat.log 10 x.sig.toNat : Int) + 1) + x.exp.toInt by ring,
      zpow_add₀ (by norm_num)]
    exact mul_lt_mul_of_pos_right hb2r hp

/-! ## the general path -/

/-- **The general path of `Pow` against the real power**, relative to the accuracy `κ'·|ln X| + 4.5·10^-56` of the
logarithm of the base `X = dSig·10^(dExp−6176)`; `|y| = oSig·10^(oExp−6176)`, `oNeg` the sign of `y`, `neg` the sign of
the result.  Nearest mode.  Every result is `PowGood` for `e^(ln X·y)` with the tolerance `|y|·(κ·|ln X| + 10^-55)`. -/
theorem general_good (rm : UInt8) (m : Spec.Mode) (hm : Spec.Mode.ofNat? rm.toNat = some m)
    (hn : isNearest m = true) (oNeg neg : Bool) (oSig dSig : U128) (oExp dExp : Int16)
    (hd1 : 1 ≤ dSig.toNat) (hdC : dSig.toNat ≤ Spec.Cmax) (hde0 : 0 ≤ dExp.toInt) (hde1 : dExp.toInt ≤ 12400)
    (ho1 : 1 ≤ oSig.toNat) (hoe0 : 0 ≤ oExp.toInt) (hoe1 : oExp.toInt ≤ 12400)
    (κ' κ : ℝ) (hκ0 : 0 ≤ κ') (hκ1 : κ' ≤ 1 / 10 ^ 30)
    (hκ : (κ' + 4 / 10 ^ 57) * (1 + 1 / 10 ^ 7) ≤ κ / 2) (hκ2 : κ ≤ 1 / 10 ^ 29)
    (hlogacc : ∀ inv x t, Gen.decomposed192.log (wf dSig dExp) = .ok (inv, x, t) →
      |((val x : ℚ) : ℝ) - (|Real.log ((val (wf dSig dExp) : ℚ) : ℝ)|)|
        ≤ κ' * |Real.log ((val (wf dSig dExp) : ℚ) : ℝ)| + 45 / 10 ^ 57)
    (r : Decimal) (h : general rm oNeg neg oSig oExp dSig dExp = .ok r) :
    PowGood neg
      (((val (wf oSig oExp) : ℚ) : ℝ) * (κ * |Real.log ((val (wf dSig dExp) : ℚ) : ℝ)| + 1 / 10 ^ 55))
      (Real.exp (Real.log ((val (wf dSig dExp) : ℚ) : ℝ) *
        (if oNeg = true then -((val (wf oSig oExp) : ℚ) : ℝ) else ((val (wf oSig oExp) : ℚ) : ℝ))))
      𝔳[r] := by
  -- the operands
  set a := wf dSig dExp with ha
  set yv := wf oSig oExp with hyv
  have hasig : a.sig.toNat = dSig.toNat := wf_sig dSig dExp
  have haexp : a.exp.toInt = dExp.toInt - 6176 := wf_exp dSig dExp hde0 hde1
  have hysig : yv.sig.toNat = oSig.toNat := wf_sig oSig oExp
  have hyexp : yv.exp.toInt = oExp.toInt - 6176 := wf_exp oSig oExp hoe0 hoe1
  have hCm := Cmax_val
  set Xa : ℝ := ((val a : ℚ) : ℝ) with hXa
  set Ya : ℝ := ((val yv : ℚ) : ℝ) with hYa
  have hXaeq : Xa = (dSig.toNat : ℝ) * (10 : ℝ) ^ (dExp.toInt - 6176) := by
    rw [hXa, val_cast, hasig, haexp]
  have hXpos : 0 < Xa := by
    rw [hXaeq]
    have : (0 : ℝ) < (dSig.toNat : ℝ) := by exact_mod_cast hd1
    positivity
  have hYpos : 0 < Ya := by
    rw [hYa, val_cast, hysig]
    have : (0 : ℝ) < (oSig.toNat : ℝ) := by exact_mod_cast ho1
    positivity
  have hκ3 : 0 ≤ κ := by
    have : 0 ≤ (κ' + 4 / 10 ^ 57) * (1 + 1 / 10 ^ 7) := by positivity
    linarith
  set Lx : ℝ := |Real.log Xa| with hLx
  have hLx0 : 0 ≤ Lx := abs_nonneg _
  have htol0 : 0 ≤ Ya * (κ * Lx + 1 / 10 ^ 55) := by positivity
  -- the logarithm
  obtain ⟨inv, L, tL, hlogeq, hfl, hLe0, hLe1, hinv, -, -⟩ := log_fine a (by rw [hasig]; omega) (by rw [haexp]; omega)
  have hLacc := hlogacc inv L tL hlogeq
  unfold general at h
  dsimp only at h
  obtain ⟨x0, hx0, h⟩ := bind_ok h
  have hx0' : x0 = (inv, L, tL) := by
    have : Gen.decomposed192.log a = .ok x0 := hx0
    rw [hlogeq] at this; injection this with this; exact this.symm
  subst hx0'
  dsimp only at h
  rw [sig_zero_test L.sig] at h
  by_cases hone : Xa = 1
  · -- |x| = 1: the logarithm is exactly 0, the result is ±1
    have hvq : val a = 1 := by
      have : ((val a : ℚ) : ℝ) = ((1 : ℚ) : ℝ) := by rw [← hXa, hone]; norm_num
      exact_mod_cast this
    have hL0 := log_at_one a (by rw [hasig]; omega) (by rw [haexp]; omega) hvq inv L tL hlogeq
    rw [if_pos (by simpa using hL0)] at h
    have hr : Gen.one neg = r := by injection h
    rw [← hr, Enc.interp_one, hone, Real.log_one, zero_mul, Real.exp_zero]
    exact good_one neg (by rw [hLx, hone, Real.log_one, abs_zero] at htol0 ⊢; simpa using htol0)
  -- |x| ≠ 1
  have hgap := gap_one dSig.toNat (dExp.toInt - 6176) hd1 (by rw [hCm] at hdC; omega) (by rw [← hXaeq]; exact hone)
  rw [← hXaeq] at hgap
  have hLx36 : 1 / 10 ^ 36 ≤ Lx := log_gap Xa hXpos hgap
  have hLxpos : 0 < Lx := lt_of_lt_of_le (by norm_num) hLx36
  set Lv : ℝ := ((val L : ℚ) : ℝ) with hLv
  obtain ⟨hLv34, hLv2, hLvpos⟩ := lv_bounds hκ1 hLx36 hLacc
  have hLsig : L.sig.toNat ≠ 0 := by
    intro h0
    have : val L = 0 := by unfold val; rw [h0]; simp
    rw [hLv, this] at hLvpos; simp at hLvpos
  rw [if_neg (by simpa using hLsig)] at h
  -- the exponent of the power by the orientation flags
  have hsplit := arg_split (Ya := Ya) hXpos inv oNeg hinv
  rw [hsplit, exp_sgn]
  have hp0 : 0 ≤ Lx * Ya := by positivity
  -- the first range test
  by_cases c2 : decide ((Go.conv L.exp : Int64) + (Go.conv oExp : Int64) > 12322) = true
  · rw [if_pos c2] at h
    rw [ret_out h]
    apply good_out neg _ htol0
    apply e40000
    have hsum := (guard_sum L.exp oExp).1 c2
    -- Lv·Ya ≥ 10^(L.exp + oExp − 6176) ≥ 10^6147
    have h1 : (10 : ℝ) ^ L.exp.toInt ≤ Lv := by
      rw [hLv, val_cast]
      have : (1 : ℝ) ≤ (L.sig.toNat : ℝ) := by exact_mod_cast Nat.pos_of_ne_zero hLsig
      have hp : (0 : ℝ) < (10 : ℝ) ^ L.exp.toInt := zpow_pos (by norm_num) _
      nlinarith
    have h2 : (10 : ℝ) ^ (oExp.toInt - 6176) ≤ Ya := by
      rw [hYa, val_cast, hysig, hyexp]
      have : (1 : ℝ) ≤ (oSig.toNat : ℝ) := by exact_mod_cast ho1
      have hp : (0 : ℝ) < (10 : ℝ) ^ (oExp.toInt - 6176) := zpow_pos (by norm_num) _
      nlinarith
    have h3 : (10 : ℝ) ^ (5 : Int) ≤ (10 : ℝ) ^ L.exp.toInt * (10 : ℝ) ^ (oExp.toInt - 6176) := by
      rw [← zpow_add₀ (by norm_num)]
      exact zpow_le_zpow_right₀ (by norm_num) (by omega)
    have h4 : (10 : ℝ) ^ L.exp.toInt * (10 : ℝ) ^ (oExp.toInt - 6176) ≤ Lv * Ya :=
      mul_le_mul h1 h2 (zpow_pos (by norm_num) _).le hLvpos.le
    have h5 : Lv * Ya ≤ 2 * Lx * Ya := mul_le_mul_of_nonneg_right hLv2 hYpos.le
    have h6 : (10 : ℝ) ^ (5 : Int) = 100000 := by norm_num
    rw [h6] at h3
    nlinarith
  rw [if_neg c2] at h
  have hsum : ¬ (L.exp.toInt + oExp.toInt > 12322) := fun hc => c2 ((guard_sum L.exp oExp).2 hc)
  -- the product
  obtain ⟨res, t1, hmul, hm1, hm2, hmt, hme0, hme1⟩ := mul_rel L yv tL (by rw [hyexp]; omega) (by rw [hyexp]; omega)
  obtain ⟨x1, hx1, h⟩ := bind_ok h
  have hx1' : x1 = (res, t1) := by
    have : Gen.decomposed192.mul L yv tL = .ok x1 := hx1
    rw [hmul] at this; injection this with this; exact this.symm
  subst hx1'
  dsimp only at h
  set pv : ℝ := ((val res : ℚ) : ℝ) with hpv
  have hm1r : Lv * Ya * (1 - 2 / 10 ^ 57) ≤ pv := by
    have : (((val L * val yv * (1 - 2 / 10 ^ 57) : ℚ)) : ℝ) ≤ ((val res : ℚ) : ℝ) := by exact_mod_cast hm1
    push_cast at this; exact this
  have hm2r : pv ≤ Lv * Ya := by
    have : ((val res : ℚ) : ℝ) ≤ ((val L * val yv : ℚ) : ℝ) := by exact_mod_cast hm2
    push_cast at this; exact this
  obtain ⟨hpv2, hppv⟩ := p_from_pv hLxpos hYpos hLv34 hLv2 hm1r hm2r
  have hpvpos : 0 < pv := by
    have : 0 < Lv * Ya * (1 - 2 / 10 ^ 57) := by positivity
    linarith
  have hrsig : res.sig.toNat ≠ 0 := by
    intro h0
    have : val res = 0 := by unfold val; rw [h0]; simp
    rw [hpv, this] at hpvpos; simp at hpvpos
  rw [sig_zero_test res.sig, if_neg (by simpa using hrsig)] at h
  have hft1 : flag3 t1 := flag3_of_or hfl hmt
  -- the digit count
  obtain ⟨t28, ht28, h⟩ := bind_ok h
  have ht28' : t28 = Int64.ofNat (Nat.log 10 res.sig.toNat) := by
    rw [D128.Proofs.WordsWide.U192_log10_eq] at ht28; injection ht28 with this; exact this.symm
  subst ht28'
  have hk58 := log192_lt res.sig
  obtain ⟨hvl1, hvl2⟩ := val_log_bounds res hrsig
  -- the second range test
  by_cases c4 : decide ((Go.conv res.exp : Int64) > 5 - Int64.ofNat (Nat.log 10 res.sig.toNat)) = true
  · rw [if_pos c4] at h
    rw [ret_out h]
    apply good_out neg _ htol0
    apply e40000
    have hg := (guard_log res.exp _ (by omega)).1 c4
    have h3 : (10 : ℝ) ^ (6 : Int) ≤ (10 : ℝ) ^ (res.exp.toInt + (Nat.log 10 res.sig.toNat : Int)) :=
      zpow_le_zpow_right₀ (by norm_num) (by omega)
    have h6 : (10 : ℝ) ^ (6 : Int) = 1000000 := by norm_num
    rw [h6] at h3
    linarith
  rw [if_neg c4, if_neg (by simpa using hrsig)] at h
  have hg : ¬ (res.exp.toInt > 5 - (Nat.log 10 res.sig.toNat : Int)) :=
    fun hc => c4 ((guard_log res.exp _ (by omega)).2 hc)
  -- pv < 10^6, so p ≤ 2·10^6
  have hpv6 : pv < 10 ^ 6 := by
    have h3 : (10 : ℝ) ^ (res.exp.toInt + (Nat.log 10 res.sig.toNat : Int) + 1) ≤ (10 : ℝ) ^ (6 : Int) :=
      zpow_le_zpow_right₀ (by norm_num) (by omega)
    have h6 : (10 : ℝ) ^ (6 : Int) = 10 ^ 6 := by norm_num
    rw [h6] at h3
    linarith
  have hp6 : Lx * Ya ≤ 2 * 10 ^ 6 := by linarith
  obtain ⟨hBk9, htol1⟩ := small_bounds (κ := κ) hκ1 hκ2 hLx36 hYpos hp6
  have hBk0 : 0 ≤ Bk κ' Lx Ya := Bk_nonneg hκ0 hLx0 hYpos.le
  have hprod := prod_close (by linarith [show (1:ℝ)/10^30 ≤ 1 by norm_num]) hLxpos hYpos hLacc hm1r hm2r
  -- epow
  have hl10 := conv_log192 (Nat.log 10 res.sig.toNat) (by omega)
  have hpre : EpowPre res (Go.conv (Int64.ofNat (Nat.log 10 res.sig.toNat)) : Int16) :=
    epowPre_of_log res _ hrsig (by omega) (by omega) hl10 (by rw [hl10]; omega)
  obtain ⟨z, hz, hfacts⟩ := epow_any res _ t1 hpre hl10 hft1
  obtain ⟨x2, hx2, h⟩ := bind_ok h
  have hx2' : x2 = z := by
    rw [hz] at hx2; injection hx2 with this; exact this.symm
  subst hx2'
  dsimp only at h
  have h69 : (decide (x2.1.exp > (6169 : Int16)) = true) ↔ x2.1.exp.toInt > 6169 := by
    rw [decide_eq_true_eq, gt_iff_lt, Int16.lt_iff_toInt_lt]; simp
  have hexp_p : Real.exp pv ≤ Real.exp (Lx * Ya) * 3 := by
    have h1 := (abs_le.1 hprod).2
    have h2 : pv ≤ Lx * Ya + 1 := by linarith [show (1:ℝ)/10^9 ≤ 1 by norm_num]
    calc Real.exp pv ≤ Real.exp (Lx * Ya + 1) := Real.exp_le_exp.2 h2
      _ = Real.exp (Lx * Ya) * Real.exp 1 := Real.exp_add _ _
      _ ≤ Real.exp (Lx * Ya) * 3 := by
        apply mul_le_mul_of_nonneg_left _ (Real.exp_pos _).le
        exact (Real.exp_one_lt_d9.le.trans (by norm_num))
  by_cases c5 : decide (x2.1.exp > (6169 : Int16)) = true
  · -- the working exponent is beyond the range
    rw [if_pos c5] at h
    rw [ret_out h]
    apply good_out neg _ htol0
    have hbig := h69.1 c5
    have hpv_big : (10 : ℝ) ^ (6201 : ℕ) ≤ Real.exp pv := by
      rcases hfacts with ⟨-, hh⟩ | ⟨-, -, hv2, -, hsz, -⟩
      · exact le_trans (pow_le_pow_right₀ (by norm_num) (by norm_num)) hh
      · have hsz' : 10 ^ 55 ≤ x2.1.sig.toNat := hsz.resolve_left (one_ne_big x2.1 hbig)
        have hval : (10 : ℝ) ^ (6201 : ℕ) ≤ ((val x2.1 : ℚ) : ℝ) := by
          rw [val_cast]
          have hs : ((10 : ℝ) ^ (55 : ℕ)) ≤ (x2.1.sig.toNat : ℝ) := by exact_mod_cast hsz'
          have hp : (10 : ℝ) ^ (6170 : Int) ≤ (10 : ℝ) ^ x2.1.exp.toInt :=
            zpow_le_zpow_right₀ (by norm_num) (by omega)
          have e : (10 : ℝ) ^ (6201 : ℕ) ≤ (10 : ℝ) ^ (55 : ℕ) * (10 : ℝ) ^ (6170 : Int) := by
            rw [← zpow_natCast, ← zpow_natCast, ← zpow_add₀ (by norm_num)]
            exact zpow_le_zpow_right₀ (by norm_num) (by norm_num)
          exact le_trans e (mul_le_mul hs hp (zpow_pos (by norm_num) _).le (Nat.cast_nonneg _))
        exact le_trans hval hv2
    have e1 : (10 : ℝ) ^ (6201 : ℕ) = (10 : ℝ) ^ (6200 : ℕ) * 10 := by rw [pow_succ]
    rw [e1] at hpv_big
    have hq : (0 : ℝ) < (10 : ℝ) ^ (6200 : ℕ) := by positivity
    generalize (10 : ℝ) ^ (6200 : ℕ) = Q at *
    nlinarith
  rw [if_neg c5] at h
  have hsmall : ¬ (x2.1.exp.toInt > 6169) := fun hc => c5 (h69.2 hc)
  rcases hfacts with ⟨hd, -⟩ | ⟨hflag, hv1, hv2, -, -, -⟩
  · rw [hd, ExpAcc.dinf_exp] at hsmall; omega
  -- the working value against the true power
  obtain ⟨hw1, hw2⟩ := work_close hBk0 (by linarith [show (1:ℝ)/10^9 ≤ 1/2 by norm_num]) hprod hv1 hv2
  set η : ℝ := Bk κ' Lx Ya + 2 * Bk κ' Lx Ya ^ 2 + 1 / 10 ^ 38 with hη
  have hη0 : 0 ≤ η := by positivity
  have hη1 : η ≤ 1 / 10 ^ 8 := by
    have : Bk κ' Lx Ya ^ 2 ≤ 1 / 10 ^ 9 * 1 := by
      rw [pow_two]
      exact mul_le_mul hBk9 (by linarith [show (1:ℝ)/10^9 ≤ 1 by norm_num]) hBk0 (by norm_num)
    rw [hη]
    have : (1 : ℝ) / 10 ^ 9 + 2 * (1 / 10 ^ 9 * 1) + 1 / 10 ^ 38 ≤ 1 / 10 ^ 8 := by norm_num
    linarith
  have hT0 : 1 ≤ Real.exp (Lx * Ya) := Real.one_le_exp hp0
  have hz1 : Real.exp (Lx * Ya) * (1 - η) ≤ ((val x2.1 : ℚ) : ℝ) := by
    have : Real.exp (Lx * Ya) * (1 - η) ≤ Real.exp (Lx * Ya) * (1 - Bk κ' Lx Ya - 1 / 10 ^ 38) := by
      apply mul_le_mul_of_nonneg_left _ (Real.exp_pos _).le
      rw [hη]; nlinarith [sq_nonneg (Bk κ' Lx Ya)]
    linarith
  have hz2 : ((val x2.1 : ℚ) : ℝ) ≤ Real.exp (Lx * Ya) * (1 + η) := by
    have : Real.exp (Lx * Ya) * (1 + Bk κ' Lx Ya + 2 * Bk κ' Lx Ya ^ 2) ≤ Real.exp (Lx * Ya) * (1 + η) := by
      apply mul_le_mul_of_nonneg_left _ (Real.exp_pos _).le
      rw [hη]; linarith [show (0:ℝ) ≤ 1 / 10 ^ 38 by norm_num]
    linarith
  have hbud := budget (κ := κ) hκ0 hLx0 hYpos.le hκ hBk9
  exact tail_good rm m hm hn neg (oNeg != inv) x2.1 x2.2 (Real.exp (Lx * Ya)) η _ hT0 hη0 hη1 htol0 htol1
    hbud hz1 hz2 hflag (by omega) r h

end PowAcc
