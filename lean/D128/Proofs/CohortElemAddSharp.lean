/-
  D128/Proofs/CohortElemAddSharp.lean — property C19 for the elementary functions: the SHARP machine-level result
  equation of `decomposed192.add` (Go: /repo/decomposed.go), all inputs.

  `D192.add_spec`/`AddPost` (D192AddContract.lean) describe `add` up to two slacks that leave the result undetermined:
  the operand with the larger exponent is scaled by `10^j` with only `k = 0 ∨ LIM ≤ sig·10^j` recorded, and the final
  normalisation of the 256-bit sum is `D192.Tr` (`k = 0 ∨ 2^192/10 ≤ cur`).  Here the Hoare triples of the staged
  programs of D192AddCode.lean (`addTail`, `addNegDiv`, `addPosDiv`, `addNegBranch`, `addPosBranch`; tied to the
  generated function by `D192.add_eq : … := rfl`) are re-proved with strengthened invariants:
  * the scaling loops do not overshoot: `j = 0 ∨ sig·10^j < 10·LIM` (`LIM = scaleLim = 25·2^184`), so `j` is the LEAST
    number with `j = gap ∨ LIM ≤ sig·10^j`;
  * the final truncation is minimal (`Tr'` of CohortElemMulCongr.lean): a digit is dropped only if the sum is `≥ 2^192`.

  Provided (namespace `CohortElem`):
  * `addTail_triple'`, `addNegDiv_triple'`, `addPosDiv_triple'` : the stages with `Tr'`
  * `noOver_j`, `noOver_step`                                   : the no-overshoot clause as a loop invariant
  * `AddNegPost'`, `AddPosPost'`, `AddPost'`                     : sharp post-conditions (cf. `D192.AddNegPost` …)
  * `addNegBranch_triple'`, `addPosBranch_triple'`, `add_triple'`
  * `add_sharp` : `∃ r t', Gen.decomposed192.add d o t = .ok (r, t') ∧ AddPost' d o t r t'`  (all inputs; no panic)
-/
import D128.Proofs.D192AddContract
import D128.Proofs.CohortElemMulCongr
set_option autoImplicit false
set_option maxRecDepth 4096
set_option exponentiation.threshold 512
set_option linter.unusedVariables false
open Std.Do D128.Proofs.WordsWide
set_option mvcgen.warning false

namespace CohortElem
open Gen D192

/-! ### the final normalisation drops a digit only if it must -/

theorem addTail_triple' (d o : Gen.decomposed192) (t : Int8) (e : Int16) :
    ⦃⌜True⌝⦄ addTail d o t e
    ⦃⇓ x => ⌜Tr' (d.sig.toNat + o.sig.toNat) t d.exp x.2 x.1.sig.toNat x.1.exp⌝⦄ := by
  mvcgen [addTail]
  case inv1 | inv3 => exact fun st => ⟨st.2.2.toNat⟩
  case inv2 => exact ⇓ x => match x with
    | .inl st => ⌜Tr' (d.sig.toNat + o.sig.toNat) t d.exp st.1 st.2.2.toNat st.2.1⌝
    | .inr st => ⌜Tr' (d.sig.toNat + o.sig.toNat) t d.exp st.1 st.2.2.toNat st.2.1⌝
  case inv4 => exact ⇓ x => match x with
    | .inl st => ⌜Tr' (d.sig.toNat + o.sig.toNat) t d.exp st.1 st.2.2.toNat st.2.1⌝
    | .inr st => ⌜Tr' (d.sig.toNat + o.sig.toNat) t d.exp st.1 st.2.2.toNat st.2.1 ∧ st.2.2.w3 = 0⌝
  all_goals (simp +zetaDelta at *)
  case vc1 => rename_i hdiv hg hinv hnz; exact vc_nz' 4 (by norm_num) _ _ _ hdiv (U256.ge_of_w3_1e4 _ hg) hinv hnz
  case vc2 => rename_i hdiv hg hinv hz; exact vc_z' 4 (by norm_num) _ _ _ hdiv (U256.ge_of_w3_1e4 _ hg) hinv hz
  case vc3 => rename_i hinv; exact hinv.2
  case vc4 => rw [U192_add_toNat]; exact Tr'.refl _ _ _
  case vc5 => rename_i hdiv hg hinv hnz; exact vc_nz' 1 (by norm_num) _ _ _ hdiv (U256.ge_of_w3 _ hg) hinv hnz
  case vc6 => rename_i hdiv hg hinv hz; exact vc_z' 1 (by norm_num) _ _ _ hdiv (U256.ge_of_w3 _ hg) hinv hz
  case vc7 => rename_i hz hinv; exact ⟨hinv.2, hz⟩
  case vc8 => rename_i h; exact h
  case vc9 => rename_i h; rw [U256.toNat_low3 _ h.2]; exact h.1

theorem addNegDiv_triple' (d o : Gen.decomposed192) (t : Int8) (e : Int16) :
    ⦃⌜e.toInt ≤ 0 ∧ d.exp = o.exp + e⌝⦄ addNegDiv d o t e
    ⦃⇓ x => ⌜Tr' (d.sig.toNat / 10 ^ negNat e + o.sig.toNat)
      (if d.sig.toNat % 10 ^ negNat e = 0 then t else 1) o.exp x.2 x.1.sig.toNat x.1.exp⌝⦄ := by
  mvcgen [addNegDiv, addTail_triple']
  case inv1 | inv3 => exact fun st => ⟨negNat st.2.2⟩
  case inv2 => exact ⇓ x => match x with
    | .inl st => ⌜DvN d o t e st.1 st.2.1 st.2.2⌝
    | .inr st => ⌜DvN d o t e st.1 st.2.1 st.2.2⌝
  case inv4 => exact ⇓ x => match x with
    | .inl st => ⌜DvN d o t e st.1 st.2.1 st.2.2⌝
    | .inr st => ⌜DvN d o t e st.1 st.2.1 st.2.2 ∧ 0 ≤ st.2.2.toInt⌝
  all_goals (simp +zetaDelta at *)
  case vc1 => rename_i hdiv hg hinv hnz hz; exact dvN_zero 4 (by norm_num) (by norm_num) _ _ _ _ _ _ _ hdiv ((i16_le_lit _ _).mp hg) hinv (by rw [if_neg hnz]) hz
  case vc2 => rename_i hdiv hg hinv hnz hz; exact dvN_step 4 (by norm_num) (by norm_num) _ _ _ _ _ _ _ hdiv ((i16_le_lit _ _).mp hg) hinv (by rw [if_neg hnz])
  case vc3 => rename_i hdiv hg hinv hr hz; exact dvN_zero 4 (by norm_num) (by norm_num) _ _ _ _ _ _ _ hdiv ((i16_le_lit _ _).mp hg) hinv (by rw [if_pos hr]) hz
  case vc4 => rename_i hdiv hg hinv hr hz; exact dvN_step 4 (by norm_num) (by norm_num) _ _ _ _ _ _ _ hdiv ((i16_le_lit _ _).mp hg) hinv (by rw [if_pos hr])
  case vc5 => rename_i hinv; exact hinv.2
  case vc6 => rename_i h; exact dvN_init _ _ _ _ h
  case vc7 => rename_i hdiv hg hinv hnz; exact dvN_step 1 (by norm_num) (by norm_num) _ _ _ _ _ _ _ hdiv (by have := (i16_lt_lit _ _).mp hg; simp at this; omega) hinv (by rw [if_neg hnz])
  case vc8 => rename_i hdiv hg hinv hr; exact dvN_step 1 (by norm_num) (by norm_num) _ _ _ _ _ _ _ hdiv (by have := (i16_lt_lit _ _).mp hg; simp at this; omega) hinv (by rw [if_pos hr])
  case vc9 => rename_i hg hinv; exact ⟨hinv.2, by have := (i16_le_lit _ _).mp hg; simpa using this⟩
  case vc10 => rename_i h; exact h
  case vc11 =>
    rename_i h _
    obtain ⟨h1, h2, h3⟩ := dvN_final h.1 h.2
    rw [h1, h2, h3]; exact id

theorem addPosDiv_triple' (d o : Gen.decomposed192) (t : Int8) (e : Int16) :
    ⦃⌜0 ≤ e.toInt⌝⦄ addPosDiv d o t e
    ⦃⇓ x => ⌜Tr' (d.sig.toNat + o.sig.toNat / 10 ^ posNat e)
      (flagDiv (posNat e) o.sig.toNat t) d.exp x.2 x.1.sig.toNat x.1.exp⌝⦄ := by
  mvcgen [addPosDiv, addTail_triple']
  case inv1 | inv3 => exact fun st => ⟨posNat st.2.2⟩
  case inv2 => exact ⇓ x => match x with
    | .inl st => ⌜DvP1 o t e st.1 st.2.1 st.2.2⌝
    | .inr st => ⌜DvP1 o t e st.1 st.2.1 st.2.2 ∧ st.2.2.toInt < 4⌝
  case inv4 => exact ⇓ x => match x with
    | .inl st => ⌜DvP2 o t e st.1 st.2.1 st.2.2⌝
    | .inr st => ⌜DvP2 o t e st.1 st.2.1 st.2.2 ∧ st.2.2.toInt ≤ 0⌝
  all_goals (simp +zetaDelta at *)
  case vc1 => rename_i hdiv hg hinv hnz hz; exact dvP1_zero _ _ _ _ _ _ _ hdiv ((i16_le_lit _ _).mp hg) hinv (by rw [if_neg hnz]) hz
  case vc2 => rename_i hdiv hg hinv hnz hz; exact dvP1_step _ _ _ _ _ _ _ hdiv ((i16_le_lit _ _).mp hg) hinv (by rw [if_neg hnz])
  case vc3 => rename_i hdiv hg hinv hr hz; exact dvP1_zero _ _ _ _ _ _ _ hdiv ((i16_le_lit _ _).mp hg) hinv (by rw [if_pos hr]) hz
  case vc4 => rename_i hdiv hg hinv hr hz; exact dvP1_step _ _ _ _ _ _ _ hdiv ((i16_le_lit _ _).mp hg) hinv (by rw [if_pos hr])
  case vc5 => rename_i hg hinv; exact ⟨hinv.2, by have := (i16_lt_lit _ _).mp hg; simpa using this⟩
  case vc6 => rename_i h; exact dvP1_init _ _ _ h
  case vc7 => rename_i hdiv hg hinv hnz; exact dvP2_step _ _ _ _ _ _ _ hdiv (by have := (i16_lt_lit _ _).mp hg; simpa using this) hinv (by rw [if_neg hnz])
  case vc8 => rename_i hdiv hg hinv hr; exact dvP2_step _ _ _ _ _ _ _ hdiv (by have := (i16_lt_lit _ _).mp hg; simpa using this) hinv (by rw [if_pos hr])
  case vc9 => rename_i hg hinv; exact ⟨hinv.2, by have := (i16_le_lit _ _).mp hg; simpa using this⟩
  case vc10 => rename_i h; exact dvP2_init h.1 h.2
  case vc11 =>
    rename_i h _
    obtain ⟨h1, h2⟩ := dvP2_final h.1 h.2
    rw [h1, h2]; exact id


/-! ### the scaling loops do not overshoot -/

/-- no-overshoot clause of the scaling loops, in the form of a loop invariant -/
theorem noOver_j {X j Y : Nat} (hY : Y = X * 10 ^ j) (h : Y = X ∨ Y < 10 * LIM) :
    j = 0 ∨ X * 10 ^ j < 10 * LIM := by
  rcases h with h | h
  · rcases Nat.eq_zero_or_pos X with h0 | h0
    · right; rw [h0, Nat.zero_mul]; unfold LIM; norm_num
    · left
      by_contra hj
      have : 10 ^ 1 ≤ 10 ^ j := Nat.pow_le_pow_right (by norm_num) (by omega)
      have : X * 10 ≤ X * 10 ^ j := Nat.mul_le_mul_left _ (by simpa using this)
      omega
  · right; rw [← hY]; exact h

/-- result of the branch `exp < 0` of `add`, sharp form -/
def AddNegPost' (d o : Gen.decomposed192) (t : Int8) (e : Int16) (r : Gen.decomposed192)
    (t' : Int8) : Prop :=
  ∃ j k : Nat, j + k = negNat e ∧ o.sig.toNat * 10 ^ j < 2 ^ 192 ∧
    (k = 0 ∨ LIM ≤ o.sig.toNat * 10 ^ j) ∧ (j = 0 ∨ o.sig.toNat * 10 ^ j < 10 * LIM) ∧
    Tr' (d.sig.toNat / 10 ^ k + o.sig.toNat * 10 ^ j) (if d.sig.toNat % 10 ^ k = 0 then t else 1)
      (o.exp - Int16.ofNat j) t' r.sig.toNat r.exp

theorem addNeg_post' {d o : Gen.decomposed192} {t : Int8} {e : Int16} {o' : Gen.decomposed192}
    {exp' : Int16} {r : Gen.decomposed192} {t' : Int8} (X : Nat) (T : Int8)
    (hsc : ScN o e o' exp') (hbig : 0 ≤ exp'.toInt ∨ scaleLim ≤ o'.sig.toNat)
    (hno : o'.sig.toNat = o.sig.toNat ∨ o'.sig.toNat < 10 * LIM)
    (hX : X = d.sig.toNat / 10 ^ negNat exp')
    (hT : T = if d.sig.toNat % 10 ^ negNat exp' = 0 then t else 1)
    (h : Tr' (X + o'.sig.toNat) T o'.exp t' r.sig.toNat r.exp) : AddNegPost' d o t e r t' := by
  obtain ⟨h0, j, hj, hexp, hsig, hoexp⟩ := hsc
  refine ⟨j, negNat exp', hj, ?_, ?_, noOver_j hsig hno, ?_⟩
  · rw [← hsig]; exact U192.toNat_lt _
  · rcases hbig with h | h
    · left; unfold negNat; omega
    · right; rw [← hsig]; exact h
  · rw [← hsig, ← hoexp, ← hX, ← hT]; exact h

theorem addNeg_postA' {d o : Gen.decomposed192} {t : Int8} {e : Int16} {o' : Gen.decomposed192}
    {exp' : Int16} {r : Gen.decomposed192} {t' : Int8}
    (hinv : ScN o e o' exp' ∧ (0 ≤ exp'.toInt ∨ scaleLim ≤ o'.sig.toNat))
    (hno : o'.sig.toNat = o.sig.toNat ∨ o'.sig.toNat < 10 * LIM) (hg : exp' < -57)
    (hnz : d.sig.w0 = 0 → d.sig.w1 = 0 → ¬ d.sig.w2 = 0)
    (h : Tr' ((default : U192).toNat / 10 ^ negNat 0 + o'.sig.toNat) 1 o'.exp t' r.sig.toNat r.exp) :
    AddNegPost' d o t e r t' := by
  have hk : 58 ≤ negNat exp' := by
    have := (i16_lt_lit _ _).mp hg; simp at this; unfold negNat; omega
  obtain ⟨h1, h2⟩ := drop_all d.sig.toNat _ (U192.toNat_lt _) hk
  exact addNeg_post' _ _ hinv.1 hinv.2 hno (by rw [h1, U192.default_toNat]; simp)
    (by rw [h2, if_neg (U192.toNat_pos_of _ hnz)]) h

theorem addNeg_postB' {d o : Gen.decomposed192} {t : Int8} {e : Int16} {o' : Gen.decomposed192}
    {exp' : Int16} {r : Gen.decomposed192} {t' : Int8}
    (hinv : ScN o e o' exp' ∧ (0 ≤ exp'.toInt ∨ scaleLim ≤ o'.sig.toNat))
    (hno : o'.sig.toNat = o.sig.toNat ∨ o'.sig.toNat < 10 * LIM)
    (hz : d.sig.w0 = 0 ∧ d.sig.w1 = 0 ∧ d.sig.w2 = 0)
    (h : Tr' (d.sig.toNat / 10 ^ negNat 0 + o'.sig.toNat)
      (if d.sig.toNat % 10 ^ negNat 0 = 0 then t else 1) o'.exp t' r.sig.toNat r.exp) :
    AddNegPost' d o t e r t' := by
  have h0 : d.sig.toNat = 0 := U192.toNat_eq_zero _ ⟨⟨hz.1, hz.2.1⟩, hz.2.2⟩
  exact addNeg_post' _ _ hinv.1 hinv.2 hno (by rw [h0]; simp) (by rw [h0]; simp) h

/-- one scaling step keeps the no-overshoot clause -/
theorem noOver_step (cur : U192) (X : Nat) (m : UInt64) (c : Nat) (hm : m.toNat = 10 ^ c)
    (hfit : cur.toNat * 10 ^ c < 10 * LIM) :
    (Gen.U192.mul64 cur m).toNat = X ∨ (Gen.U192.mul64 cur m).toNat < 10 * LIM := by
  right
  have hL : 10 * LIM < 2 ^ 192 := by unfold LIM; norm_num
  rw [U192_mul64_toNat_of_lt _ _ (by rw [hm]; omega), hm]
  exact hfit

theorem addNegBranch_triple' (d o : Gen.decomposed192) (t : Int8) (e : Int16) :
    ⦃⌜e.toInt < 0 ∧ e = d.exp - o.exp⌝⦄ addNegBranch d o t e
    ⦃⇓ x => ⌜AddNegPost' d o t e x.1 x.2⌝⦄ := by
  mvcgen [addNegBranch, addNegDiv_triple']
  case inv1 | inv3 | inv5 => exact fun st => ⟨negNat st.2⟩
  case inv2 | inv4 => exact ⇓ x => match x with
    | .inl st => ⌜ScN o e st.1 st.2 ∧ (st.1.sig.toNat = o.sig.toNat ∨ st.1.sig.toNat < 10 * LIM)⌝
    | .inr st => ⌜ScN o e st.1 st.2 ∧ (st.1.sig.toNat = o.sig.toNat ∨ st.1.sig.toNat < 10 * LIM)⌝
  case inv6 => exact ⇓ x => match x with
    | .inl st => ⌜ScN o e st.1 st.2 ∧ (st.1.sig.toNat = o.sig.toNat ∨ st.1.sig.toNat < 10 * LIM)⌝
    | .inr st => ⌜(ScN o e st.1 st.2 ∧ (0 ≤ st.2.toInt ∨ scaleLim ≤ st.1.sig.toNat)) ∧
        (st.1.sig.toNat = o.sig.toNat ∨ st.1.sig.toNat < 10 * LIM)⌝
  all_goals (simp +zetaDelta at *)
  case vc1 =>
    rename_i hg hinv
    obtain ⟨a, b⟩ := scN_step 19 (by norm_num) (by norm_num) 10000000000000000000 (by decide) _ _ _ ((i16_le_lit _ _).mp hg.1) (U192.scale19 _ hg.2) ⟨hinv.1, hinv.2.1⟩
    exact ⟨a, b, noOver_step _ _ _ 19 (by decide) (lt19 _ hg.2)⟩
  case vc4 =>
    rename_i hg hinv
    obtain ⟨a, b⟩ := scN_step 4 (by norm_num) (by norm_num) 10000 (by decide) _ _ _ ((i16_le_lit _ _).mp hg.1) (U192.scale4 _ hg.2) ⟨hinv.1, hinv.2.1⟩
    exact ⟨a, b, noOver_step _ _ _ 4 (by decide) (lt4 _ hg.2)⟩
  case vc7 =>
    rename_i hg hinv
    obtain ⟨a, b⟩ := scN_step 1 (by norm_num) (by norm_num) 10 (by decide) _ _ _ (by have := (i16_lt_lit _ _).mp hg.1; simp at this; omega) (U192.scale1 _ hg.2) ⟨hinv.1, hinv.2.1⟩
    exact ⟨a, b, noOver_step _ _ _ 1 (by decide) (lt1 _ hg.2)⟩
  case vc2 | vc5 => rename_i hinv; exact hinv.2
  case vc3 => rename_i h; exact scN_init _ _ (by omega)
  case vc6 | vc9 => rename_i h; exact h
  case vc8 => rename_i hg hinv; exact ⟨⟨hinv.2.1, scaleN_exit _ _ hg⟩, hinv.2.2⟩
  case vc11 => rename_i hinv _ hg hnz; exact addNeg_postA' hinv.1 hinv.2 hg hnz
  case vc13 => rename_i hinv _ hg hz; exact addNeg_postB' hinv.1 hinv.2 hz
  case vc14 => rename_i hinv _; exact scN_pre (‹e.toInt < 0 ∧ e = d.exp - o.exp›).2 hinv.1.1
  case vc15 => rename_i hinv _ _; exact addNeg_post' _ _ hinv.1.1 hinv.1.2 hinv.2 rfl rfl

/-- result of the branch `exp > 0` of `add`, sharp form -/
def AddPosPost' (d o : Gen.decomposed192) (t : Int8) (e : Int16) (r : Gen.decomposed192)
    (t' : Int8) : Prop :=
  ∃ j k : Nat, j + k = posNat e ∧ d.sig.toNat * 10 ^ j < 2 ^ 192 ∧
    (k = 0 ∨ LIM ≤ d.sig.toNat * 10 ^ j) ∧ (j = 0 ∨ d.sig.toNat * 10 ^ j < 10 * LIM) ∧
    Tr' (d.sig.toNat * 10 ^ j + o.sig.toNat / 10 ^ k) (addFlagPos k o.sig.toNat t)
      (d.exp - Int16.ofNat j) t' r.sig.toNat r.exp

theorem addPos_post' {d o : Gen.decomposed192} {t : Int8} {e : Int16} {d' : Gen.decomposed192}
    {exp' : Int16} {r : Gen.decomposed192} {t' : Int8} (X : Nat) (T : Int8)
    (hsc : ScP d e d' exp') (hbig : exp'.toInt ≤ 0 ∨ scaleLim ≤ d'.sig.toNat)
    (hno : d'.sig.toNat = d.sig.toNat ∨ d'.sig.toNat < 10 * LIM)
    (hX : X = o.sig.toNat / 10 ^ posNat exp')
    (hT : T = addFlagPos (posNat exp') o.sig.toNat t)
    (h : Tr' (d'.sig.toNat + X) T d'.exp t' r.sig.toNat r.exp) : AddPosPost' d o t e r t' := by
  obtain ⟨h0, j, hj, hexp, hsig, hoexp⟩ := hsc
  refine ⟨j, posNat exp', hj, ?_, ?_, noOver_j hsig hno, ?_⟩
  · rw [← hsig]; exact U192.toNat_lt _
  · rcases hbig with h | h
    · left; unfold posNat; omega
    · right; rw [← hsig]; exact h
  · rw [← hsig, ← hoexp, ← hX, ← hT]; exact h

theorem addPos_postA' {d o : Gen.decomposed192} {t : Int8} {e : Int16} {d' : Gen.decomposed192}
    {exp' : Int16} {r : Gen.decomposed192} {t' : Int8}
    (hinv : ScP d e d' exp' ∧ (exp'.toInt ≤ 0 ∨ scaleLim ≤ d'.sig.toNat))
    (hno : d'.sig.toNat = d.sig.toNat ∨ d'.sig.toNat < 10 * LIM) (hg : 57 < exp')
    (hnz : o.sig.w0 = 0 → o.sig.w1 = 0 → ¬ o.sig.w2 = 0)
    (h : Tr' (d'.sig.toNat + (default : U192).toNat / 10 ^ posNat 0)
      (flagDiv (posNat 0) (default : U192).toNat (-1)) d'.exp t' r.sig.toNat r.exp) :
    AddPosPost' d o t e r t' := by
  have hk : 58 ≤ posNat exp' := by
    have := (i16_lt_lit _ _).mp hg; simp at this; unfold posNat; omega
  obtain ⟨h1, h2⟩ := drop_all o.sig.toNat _ (U192.toNat_lt _) hk
  refine addPos_post' _ _ hinv.1 hinv.2 hno ?_ ?_ h
  · rw [h1, U192.default_toNat]; simp
  · rw [posNat_zero, flagDiv_zero]; unfold addFlagPos
    rw [if_pos (by omega), if_neg (U192.toNat_pos_of _ hnz)]

theorem addPos_postB' {d o : Gen.decomposed192} {t : Int8} {e : Int16} {d' : Gen.decomposed192}
    {exp' : Int16} {r : Gen.decomposed192} {t' : Int8}
    (hinv : ScP d e d' exp' ∧ (exp'.toInt ≤ 0 ∨ scaleLim ≤ d'.sig.toNat))
    (hno : d'.sig.toNat = d.sig.toNat ∨ d'.sig.toNat < 10 * LIM) (hg : 57 < exp')
    (hz : o.sig.w0 = 0 ∧ o.sig.w1 = 0 ∧ o.sig.w2 = 0)
    (h : Tr' (d'.sig.toNat + o.sig.toNat / 10 ^ posNat 0)
      (flagDiv (posNat 0) o.sig.toNat t) d'.exp t' r.sig.toNat r.exp) :
    AddPosPost' d o t e r t' := by
  have hk : 58 ≤ posNat exp' := by
    have := (i16_lt_lit _ _).mp hg; simp at this; unfold posNat; omega
  have h0 : o.sig.toNat = 0 := U192.toNat_eq_zero _ ⟨⟨hz.1, hz.2.1⟩, hz.2.2⟩
  refine addPos_post' _ _ hinv.1 hinv.2 hno ?_ ?_ h
  · rw [h0]; simp
  · rw [posNat_zero, flagDiv_zero]; unfold addFlagPos
    rw [if_pos (by omega), if_pos h0]

theorem addPos_postC' {d o : Gen.decomposed192} {t : Int8} {e : Int16} {d' : Gen.decomposed192}
    {exp' : Int16} {r : Gen.decomposed192} {t' : Int8}
    (hinv : ScP d e d' exp' ∧ (exp'.toInt ≤ 0 ∨ scaleLim ≤ d'.sig.toNat))
    (hno : d'.sig.toNat = d.sig.toNat ∨ d'.sig.toNat < 10 * LIM) (hg : exp' ≤ 57)
    (h : Tr' (d'.sig.toNat + o.sig.toNat / 10 ^ posNat exp')
      (flagDiv (posNat exp') o.sig.toNat t) d'.exp t' r.sig.toNat r.exp) :
    AddPosPost' d o t e r t' := by
  have hk : posNat exp' ≤ 57 := by
    have := (i16_le_lit _ _).mp hg; simp at this; unfold posNat; omega
  refine addPos_post' _ _ hinv.1 hinv.2 hno rfl ?_ h
  unfold addFlagPos; rw [if_neg (by omega)]

theorem addPosBranch_triple' (d o : Gen.decomposed192) (t : Int8) (e : Int16) :
    ⦃⌜0 < e.toInt⌝⦄ addPosBranch d o t e
    ⦃⇓ x => ⌜AddPosPost' d o t e x.1 x.2⌝⦄ := by
  mvcgen [addPosBranch, addPosDiv_triple']
  case inv1 | inv3 | inv5 => exact fun st => ⟨posNat st.2⟩
  case inv2 | inv4 => exact ⇓ x => match x with
    | .inl st => ⌜ScP d e st.1 st.2 ∧ (st.1.sig.toNat = d.sig.toNat ∨ st.1.sig.toNat < 10 * LIM)⌝
    | .inr st => ⌜ScP d e st.1 st.2 ∧ (st.1.sig.toNat = d.sig.toNat ∨ st.1.sig.toNat < 10 * LIM)⌝
  case inv6 => exact ⇓ x => match x with
    | .inl st => ⌜ScP d e st.1 st.2 ∧ (st.1.sig.toNat = d.sig.toNat ∨ st.1.sig.toNat < 10 * LIM)⌝
    | .inr st => ⌜(ScP d e st.1 st.2 ∧ (st.2.toInt ≤ 0 ∨ scaleLim ≤ st.1.sig.toNat)) ∧
        (st.1.sig.toNat = d.sig.toNat ∨ st.1.sig.toNat < 10 * LIM)⌝
  all_goals (simp +zetaDelta at *)
  case vc1 =>
    rename_i hg hinv
    obtain ⟨a, b⟩ := scP_step 19 (by norm_num) (by norm_num) 10000000000000000000 (by decide) _ _ _ ((i16_le_lit _ _).mp hg.1) (U192.scale19 _ hg.2) ⟨hinv.1, hinv.2.1⟩
    exact ⟨a, b, noOver_step _ _ _ 19 (by decide) (lt19 _ hg.2)⟩
  case vc4 =>
    rename_i hg hinv
    obtain ⟨a, b⟩ := scP_step 4 (by norm_num) (by norm_num) 10000 (by decide) _ _ _ ((i16_le_lit _ _).mp hg.1) (U192.scale4 _ hg.2) ⟨hinv.1, hinv.2.1⟩
    exact ⟨a, b, noOver_step _ _ _ 4 (by decide) (lt4 _ hg.2)⟩
  case vc7 =>
    rename_i hg hinv
    obtain ⟨a, b⟩ := scP_step 1 (by norm_num) (by norm_num) 10 (by decide) _ _ _ (by have := (i16_lt_lit _ _).mp hg.1; simp at this; omega) (U192.scale1 _ hg.2) ⟨hinv.1, hinv.2.1⟩
    exact ⟨a, b, noOver_step _ _ _ 1 (by decide) (lt1 _ hg.2)⟩
  case vc2 | vc5 => rename_i hinv; exact hinv.2
  case vc3 => rename_i h; exact scP_init _ _ (by omega)
  case vc6 | vc9 => rename_i h; exact h
  case vc8 => rename_i hg hinv; exact ⟨⟨hinv.2.1, scaleP_exit _ _ hg⟩, hinv.2.2⟩
  case vc11 => rename_i hinv _ hg hnz; exact addPos_postA' hinv.1 hinv.2 hg hnz
  case vc13 => rename_i hinv _ hg hz; exact addPos_postB' hinv.1 hinv.2 hg hz
  case vc14 => rename_i hinv _; exact hinv.1.1.1
  case vc15 => rename_i hinv _ hg; exact addPos_postC' hinv.1 hinv.2 hg

/-- result of `add`, sharp form: by the sign of the (wrapping) exponent difference `e = d.exp - o.exp` -/
def AddPost' (d o : Gen.decomposed192) (t : Int8) (r : Gen.decomposed192) (t' : Int8) : Prop :=
  ((d.exp - o.exp).toInt < 0 ∧ AddNegPost' d o t (d.exp - o.exp) r t') ∨
  (0 < (d.exp - o.exp).toInt ∧ AddPosPost' d o t (d.exp - o.exp) r t') ∨
  ((d.exp - o.exp).toInt = 0 ∧ Tr' (d.sig.toNat + o.sig.toNat) t d.exp t' r.sig.toNat r.exp)

theorem add_triple' (d o : Gen.decomposed192) (t : Int8) :
    ⦃⌜True⌝⦄ Gen.decomposed192.add d o t ⦃⇓ x => ⌜AddPost' d o t x.1 x.2⌝⦄ := by
  rw [add_eq]
  mvcgen [addNegBranch_triple', addPosBranch_triple', addTail_triple']
  case vc1 => rename_i h; exact i16_dec_lt0 h
  case vc2 => rename_i h _; exact fun hp => Or.inl ⟨i16_dec_lt0 h, hp⟩
  case vc3 => rename_i h; exact i16_dec_gt0 h
  case vc4 => rename_i h _; exact fun hp => Or.inr (Or.inl ⟨i16_dec_gt0 h, hp⟩)
  case vc5 => rename_i h1 h2 _; exact fun hp => Or.inr (Or.inr ⟨i16_dec_eq0 h1 h2, hp⟩)

/-- **`decomposed192.add`, all inputs, sharp machine-level result equation** -/
theorem add_sharp (d o : Gen.decomposed192) (t : Int8) :
    ∃ r t', Gen.decomposed192.add d o t = .ok (r, t') ∧ AddPost' d o t r t' := by
  obtain ⟨⟨r, t'⟩, hr, h⟩ := ok_of_triple (add_triple' d o t)
  exact ⟨r, t', hr, h⟩

end CohortElem
