/-
  D128/Proofs/MulQuoQuo.lean — the finite, non-zero path of `Gen.Decimal.QuoWithMode`
  (Go: /repo/arith.go, `func (d Decimal) QuoWithMode`) against `Spec.quo` (property C02).

  Provided (namespace `MQ`):
  * `MI_final`        : what the final state of the digit-accumulation loop means: with the final sticky
                        flag (`1` if the remainder is non-zero) there is `0 ≤ τ < 1` with
                        `(sig + τ)·10^(exp-6176) = D/O·10^(E0-6176)`, `τ = 0` iff the flag is `0`, and a
                        set flag comes with `sig > Cmax` (hypothesis `hT1` of `reduce128_correct`)
  * `quoTail_correct` : main loop + `reduce128` + overflow test/compose from a state satisfying `QI`
  * `quo_exp`         : the biased exponent difference does not wrap in `Int16`
  * `quoFast_correct`, `quoWide_correct`, `quoGen_correct` : the 64-bit and the 128-bit path
  * `quo_finite`      : both operands finite and non-zero: `QuoWithMode d o rm` does not panic and its
                        result denotes `Spec.quo m 𝔳[d] 𝔳[o]`
-/
import D128.Proofs.MulQuoQuoInv
import D128.Proofs.MulQuoMul
import D128.Proofs.SpecRoundScale
import Mathlib.Tactic.FieldSimp
import Mathlib.Tactic.Positivity

set_option autoImplicit false
set_option maxRecDepth 8192
set_option linter.unusedVariables false

namespace MQ
open Gen Spec
local notation "𝔳[" d "]" => Spec.interp (Gen.Decimal.lo d) (Gen.Decimal.hi d)

theorem pow_lt_pow_imp {a b : Nat} (h : 10 ^ a < 10 ^ b) : a < b :=
  (Nat.pow_lt_pow_iff_right (by norm_num : 1 < 10)).1 h

/-- the exponent stays within 80 below and 40 above the starting exponent -/
theorem MI_e_range (D O : Nat) (E0 e : Int) (sig rem : Nat) (t : Int8) (hD : 0 < D)
    (hDlt : D < 2 ^ 114) (hO : 0 < O) (hOlt : O < 2 ^ 114) (hs : sig < 2 ^ 128)
    (h : MI D O E0 e sig rem t) : E0 - 80 ≤ e ∧ e ≤ E0 + 40 := by
  obtain ⟨k, j, S, he, hq, hr, hsig, ht, hJ⟩ := h
  have hPn : 0 < 10 ^ j := Nat.pow_pos (by norm_num)
  have hKn : 0 < 10 ^ k := Nat.pow_pos (by norm_num)
  constructor
  · -- k < j + 80
    have h1 : S < 10 ^ j * (S / 10 ^ j + 1) := Nat.lt_mul_div_succ S hPn
    rw [← hsig] at h1
    have h2 : 10 ^ j * (sig + 1) ≤ 10 ^ j * 2 ^ 128 := Nat.mul_le_mul_left _ (by omega)
    have h3 : S + 1 ≤ 10 ^ j * 2 ^ 128 := by omega
    have h4 : (S + 1) * O ≤ 10 ^ j * 2 ^ 128 * 2 ^ 114 := Nat.mul_le_mul h3 hOlt.le
    have h5 : D * 10 ^ k < (S + 1) * O := by rw [hq]; rw [Nat.add_mul]; omega
    have h6 : 10 ^ k ≤ D * 10 ^ k := Nat.le_mul_of_pos_left _ hD
    have h7 : 10 ^ j * 2 ^ 128 * 2 ^ 114 < 10 ^ j * 10 ^ 80 := by
      rw [Nat.mul_assoc]
      exact Nat.mul_lt_mul_of_pos_left (by norm_num) hPn
    have h8 : 10 ^ k < 10 ^ (j + 80) := by rw [Nat.pow_add]; omega
    have := pow_lt_pow_imp h8
    omega
  · -- j ≤ k + 40
    rcases hJ with hJ | hJ
    · omega
    · have hs1 : 1 ≤ sig := by omega
      have h1 : sig * 10 ^ j ≤ S := by rw [hsig]; exact Nat.div_mul_le_self S (10 ^ j)
      have h2 : 10 ^ j ≤ sig * 10 ^ j := Nat.le_mul_of_pos_left _ hs1
      have h3 : S ≤ S * O := Nat.le_mul_of_pos_right _ hO
      have h4 : D * 10 ^ k < 2 ^ 114 * 10 ^ k := Nat.mul_lt_mul_of_pos_right hDlt hKn
      have h5 : 2 ^ 114 * 10 ^ k < 10 ^ 40 * 10 ^ k := Nat.mul_lt_mul_of_pos_right (by norm_num) hKn
      have h6 : 10 ^ j < 10 ^ (40 + k) := by rw [Nat.pow_add]; omega
      have := pow_lt_pow_imp h6
      omega

theorem MI_final (D O : Nat) (E0 e : Int) (sig rem : Nat) (t : Int8) (hD : 0 < D) (hO : 0 < O)
    (h : MI D O E0 e sig rem t)
    (hx : rem = 0 ∨ 12980742146337069071326240823050239 < sig) :
    ∃ τ : ℚ, RK.TruncRel (if rem ≠ 0 then (1 : Int8) else t).toInt τ ∧ 0 < (sig : ℚ) + τ ∧
      ((if rem ≠ 0 then (1 : Int8) else t) = 1 → 12980742146337069071326240823050239 < sig) ∧
      ((sig : ℚ) + τ) * (10 : ℚ) ^ (e - 6176) = (D : ℚ) / (O : ℚ) * (10 : ℚ) ^ (E0 - 6176) := by
  obtain ⟨k, j, S, he, hq, hr, hsig, ht, hJ⟩ := h
  have hOq : (0 : ℚ) < (O : ℚ) := by exact_mod_cast hO
  have hDq : (0 : ℚ) < (D : ℚ) := by exact_mod_cast hD
  have hPn : 0 < 10 ^ j := Nat.pow_pos (by norm_num)
  have hP : (0 : ℚ) < (10 : ℚ) ^ j := by positivity
  have hK : (0 : ℚ) < (10 : ℚ) ^ k := by positivity
  -- the dropped digits
  have hmodlt : S % 10 ^ j < 10 ^ j := Nat.mod_lt _ hPn
  have hSdecomp : (S : ℚ) = (sig : ℚ) * (10 : ℚ) ^ j + ((S % 10 ^ j : Nat) : ℚ) := by
    have := Nat.div_add_mod S (10 ^ j)
    rw [← hsig] at this
    have h2 : ((10 ^ j * sig + S % 10 ^ j : Nat) : ℚ) = (S : ℚ) := by rw [this]
    push_cast at h2
    linarith
  have hmodq : ((S % 10 ^ j : Nat) : ℚ) + 1 ≤ (10 : ℚ) ^ j := by
    have : S % 10 ^ j + 1 ≤ 10 ^ j := hmodlt
    exact_mod_cast this
  have hmod0 : (0 : ℚ) ≤ ((S % 10 ^ j : Nat) : ℚ) := Nat.cast_nonneg _
  -- the fraction of the remainder
  have ha0 : (0 : ℚ) ≤ (rem : ℚ) / (O : ℚ) := div_nonneg (Nat.cast_nonneg _) hOq.le
  have ha1 : (rem : ℚ) / (O : ℚ) < 1 := by
    rw [div_lt_one hOq]; exact_mod_cast hr
  have heq : (D : ℚ) * (10 : ℚ) ^ k = (S : ℚ) * (O : ℚ) + (rem : ℚ) := by exact_mod_cast hq
  refine ⟨(((S % 10 ^ j : Nat) : ℚ) + (rem : ℚ) / (O : ℚ)) / (10 : ℚ) ^ j, ?_, ?_, ?_, ?_⟩
  · -- the sticky flag
    by_cases hr0 : rem = 0
    · subst hr0
      simp only [ne_eq, not_true_eq_false, if_false, Nat.cast_zero, zero_div, add_zero]
      by_cases hm : S % 10 ^ j = 0
      · rw [ht, hm]
        left
        simp
      · rw [ht]
        simp only [ne_eq, hm, not_false_eq_true, if_true]
        right; left
        refine ⟨by decide, ?_, ?_⟩
        · apply div_pos _ hP
          have : 0 < S % 10 ^ j := Nat.pos_of_ne_zero hm
          exact_mod_cast this
        · rw [div_lt_one hP]; linarith
    · simp only [ne_eq, hr0, not_false_eq_true, if_true]
      right; left
      have hrpos : (0 : ℚ) < (rem : ℚ) / (O : ℚ) := by
        apply div_pos _ hOq
        have : 0 < rem := Nat.pos_of_ne_zero hr0
        exact_mod_cast this
      refine ⟨by decide, ?_, ?_⟩
      · apply div_pos _ hP; linarith
      · rw [div_lt_one hP]; linarith
  · have : (0 : ℚ) ≤ (((S % 10 ^ j : Nat) : ℚ) + (rem : ℚ) / (O : ℚ)) / (10 : ℚ) ^ j :=
      div_nonneg (by linarith) hP.le
    by_cases hs0 : sig = 0
    · -- then the quotient itself is positive through τ
      have hsum : (sig : ℚ) + (((S % 10 ^ j : Nat) : ℚ) + (rem : ℚ) / (O : ℚ)) / (10 : ℚ) ^ j
          = (D : ℚ) * (10 : ℚ) ^ k / ((O : ℚ) * (10 : ℚ) ^ j) := by
        rw [heq, hSdecomp]; field_simp; ring
      rw [hsum]; positivity
    · have : (0 : ℚ) < (sig : ℚ) := by
        have := Nat.pos_of_ne_zero hs0
        exact_mod_cast this
      linarith
  · intro h1
    by_cases hr0 : rem = 0
    · simp only [ne_eq, hr0, not_true_eq_false, if_false] at h1
      rw [ht] at h1
      have hm : S % 10 ^ j ≠ 0 := by
        intro hm
        rw [hm] at h1
        simp at h1
      have hj : j ≠ 0 := by
        intro hj; rw [hj] at hm; simp [Nat.mod_one] at hm
      rcases hJ with hJ | hJ
      · exact absurd hJ hj
      · omega
    · rcases hx with hx | hx
      · exact absurd hx hr0
      · exact hx
  · have hsum : (sig : ℚ) + (((S % 10 ^ j : Nat) : ℚ) + (rem : ℚ) / (O : ℚ)) / (10 : ℚ) ^ j
        = (D : ℚ) * (10 : ℚ) ^ k / ((O : ℚ) * (10 : ℚ) ^ j) := by
      rw [heq, hSdecomp]; field_simp; ring
    rw [hsum, he]
    have e1 : E0 - (k : Int) + (j : Int) - 6176 = (E0 - 6176) + (j : Int) - (k : Int) := by ring
    rw [e1, zpow_sub₀ (by norm_num : (10 : ℚ) ≠ 0), zpow_add₀ (by norm_num : (10 : ℚ) ≠ 0),
      zpow_natCast, zpow_natCast]
    field_simp

/-- main loop, final sticky flag, `reduce128`, overflow test and `compose`, from a state in which
    `sig`, `rem` are quotient and remainder of `D·10^k` by `O` at exponent `E0 - k` -/
theorem quoTail_correct (rm : UInt8) (m : Spec.Mode) (hm : Spec.Mode.ofNat? rm.toNat = some m)
    (neg : Bool) (D O : Nat) (E0 : Int) (oS : U128) (hO : oS.toNat = O) (hOpos : 0 < O)
    (hOle : O ≤ 12980742146337069071326240823050239) (hD : 0 < D)
    (hDle : D ≤ 12980742146337069071326240823050239)
    (hE0 : -7000 ≤ E0) (hE1 : E0 ≤ 19000) (exp : Int16) (sig rem : U128)
    (h : QI D O E0 exp.toInt sig.toNat rem.toNat) :
    ∃ r, quoTail rm neg oS exp sig rem = .ok r ∧
      (𝔳[r]).same (Spec.flushOrRoundS m neg ((D : ℚ) / (O : ℚ)) (E0 - 6176)) = true := by
  obtain ⟨s', el, hMI, hexit⟩ := mainLoop D O E0 oS hO hOpos hOle hD hE0 hE1 (exp, sig, rem, 0)
    (MI_of_QI _ _ _ _ _ _ h)
  unfold quoTail
  rw [el]
  simp only [D128.Proofs.WordsWide.ok_bind]
  have hif : (if (s'.2.2.1.w0 ||| s'.2.2.1.w1 != 0) = true then quoRound rm neg s'.2.1 s'.1 1
      else quoRound rm neg s'.2.1 s'.1 s'.2.2.2)
      = quoRound rm neg s'.2.1 s'.1 (if s'.2.2.1.toNat ≠ 0 then 1 else s'.2.2.2) := by
    rw [u128_ne_zero_iff]
    by_cases h0 : s'.2.2.1.toNat ≠ 0 <;> simp [h0]
  rw [hif]
  obtain ⟨τ, hτ, hpos, hT1, hval⟩ := MI_final D O E0 _ _ _ _ hD hOpos hMI hexit
  obtain ⟨her0, her1⟩ := MI_e_range D O E0 _ _ _ _ hD (by omega) hOpos (by omega)
    (U128.toNat_lt _) hMI
  have hτ0 : (0 : ℚ) ≤ τ := by
    rcases hτ with ⟨_, h⟩ | ⟨_, h, _⟩ | ⟨h, _⟩
    · rw [h]
    · exact h.le
    · exfalso
      by_cases h0 : s'.2.2.1.toNat ≠ 0
      · rw [if_pos h0] at h; exact absurd h (by decide)
      · rw [if_neg h0] at h
        obtain ⟨k, j, S, _, _, _, _, ht, _⟩ := hMI
        rw [ht] at h
        split at h <;> exact absurd h (by decide)
  obtain ⟨s2, e2, hr, hpost⟩ := reduce128_correct rm m neg s'.2.1 s'.1
    (if s'.2.2.1.toNat ≠ 0 then 1 else s'.2.2.2) τ hm (by omega) (by omega) hτ hpos
    (fun h1 => by rw [RK.Cmax_val]; exact hT1 h1)
    (fun h1 => by
      exfalso
      have := hτ
      rw [h1] at this
      rcases this with ⟨h, _⟩ | ⟨h, _⟩ | ⟨_, _, h⟩
      · exact absurd h (by decide)
      · exact absurd h (by decide)
      · linarith)
    (fun h1 => by
      exfalso
      have := hτ
      rw [h1] at this
      rcases this with ⟨h, _⟩ | ⟨h, _⟩ | ⟨_, _, h⟩
      · exact absurd h (by decide)
      · exact absurd h (by decide)
      · linarith)
  unfold quoRound
  rw [hr]
  simp only [D128.Proofs.WordsWide.ok_bind]
  have hV : Spec.flushOrRoundS m neg ((s'.2.1.toNat : ℚ) + τ) (s'.1.toInt - 6176)
      = Spec.flushOrRoundS m neg ((D : ℚ) / (O : ℚ)) (E0 - 6176) := by
    have hq0 : (0 : ℚ) ≤ (D : ℚ) / (O : ℚ) := by positivity
    rw [SpecRound.flushOrRoundS_scale m neg _ hpos.le, SpecRound.flushOrRoundS_scale m neg _ hq0, hval]
  rw [hV] at hpost
  exact finish _ neg (s2, e2) hpost

theorem quo_exp (a b : Int16) (ha0 : 0 ≤ a.toInt) (ha1 : a.toInt ≤ 12287) (hb0 : 0 ≤ b.toInt)
    (hb1 : b.toInt ≤ 12287) :
    (a - 6176 - (b - 6176) + 6176).toInt = a.toInt - b.toInt + 6176 := by
  have h6 : (6176 : Int16).toInt = 6176 := by decide
  have e1 : (a - 6176).toInt = a.toInt - 6176 := by
    rw [Int16.toInt_sub_of] <;> rw [h6] <;> omega
  have e2 : (b - 6176).toInt = b.toInt - 6176 := by
    rw [Int16.toInt_sub_of] <;> rw [h6] <;> omega
  have e3 : (a - 6176 - (b - 6176)).toInt = a.toInt - b.toInt := by
    rw [Int16.toInt_sub_of] <;> rw [e1, e2] <;> omega
  rw [Int16.toInt_add_of] <;> rw [e3, h6] <;> omega

/-- the 128-bit path from a dividend already scaled by `10^k0` -/
theorem quoWide_correct (rm : UInt8) (m : Spec.Mode) (hm : Spec.Mode.ofNat? rm.toNat = some m)
    (neg : Bool) (D O : Nat) (E0 : Int) (oS : U128) (hO : oS.toNat = O) (hOpos : 0 < O)
    (hOle : O ≤ 12980742146337069071326240823050239) (hD : 0 < D)
    (hDle : D ≤ 12980742146337069071326240823050239)
    (hE0 : -7000 ≤ E0) (hE1 : E0 ≤ 19000) (dS : U128) (exp : Int16) (k0 : Nat)
    (hdS : dS.toNat = D * 10 ^ k0) (hexp : exp.toInt = E0 - (k0 : Int)) :
    ∃ r, quoWide rm neg oS dS exp = .ok r ∧
      (𝔳[r]).same (Spec.flushOrRoundS m neg ((D : ℚ) / (O : ℚ)) (E0 - 6176)) = true := by
  have hk0 : k0 < 39 := by
    apply pow_lt_imp_lt
    have := dS.toNat_lt
    have h1 : 10 ^ k0 ≤ D * 10 ^ k0 := Nat.le_mul_of_pos_left _ hD
    omega
  have hp0 : 0 < 10 ^ k0 := Nat.pow_pos (by norm_num)
  obtain ⟨s1, m1, e1, h1e, h1s, _⟩ := dLoop4 (dS, exp)
    (by show 0 < dS.toNat; rw [hdS]; exact Nat.mul_pos hD hp0) (by show -31000 ≤ exp.toInt; omega)
  simp only [] at h1e h1s
  have hp1 : 0 < 10 ^ m1 := Nat.pow_pos (by norm_num)
  have hm1 : m1 < 39 := by
    apply pow_lt_imp_lt
    have := s1.1.toNat_lt
    have h1 : 10 ^ m1 ≤ dS.toNat * 10 ^ m1 :=
      Nat.le_mul_of_pos_left _ (by rw [hdS]; exact Nat.mul_pos hD hp0)
    omega
  obtain ⟨s2, m2, e2, h2e, h2s, _⟩ := dLoop1 (s1.1, s1.2)
    (by show 0 < s1.1.toNat; rw [h1s, hdS]; exact Nat.mul_pos (Nat.mul_pos hD hp0) hp1)
    (by show -31000 ≤ s1.2.toInt; omega)
  simp only [] at h2e h2s
  obtain ⟨q, r, ed, hq, hr⟩ := U128_div_spec s2.1 oS (by omega)
  rw [hO] at hq hr
  have hqi : QI D O E0 s2.2.toInt q.toNat r.toNat := by
    refine ⟨k0 + m1 + m2, by rw [h2e, h1e, hexp]; push_cast; ring, ?_, by rw [hr]; exact Nat.mod_lt _ hOpos⟩
    rw [hq, hr, Nat.pow_add, Nat.pow_add, ← Nat.mul_assoc, ← Nat.mul_assoc, ← hdS, ← h1s, ← h2s,
      Nat.mul_comm (s2.1.toNat / O) O]
    exact (Nat.div_add_mod _ _).symm
  obtain ⟨res, er, hres⟩ := quoTail_correct rm m hm neg D O E0 oS hO hOpos hOle hD hDle hE0 hE1
    s2.2 q r hqi
  refine ⟨res, ?_, hres⟩
  unfold quoWide
  rw [e1]
  simp only [D128.Proofs.WordsWide.ok_bind]
  rw [e2]
  simp only [D128.Proofs.WordsWide.ok_bind]
  rw [ed]
  simp only [D128.Proofs.WordsWide.ok_bind]
  exact er

/-- the 128-bit path -/
theorem quoGen_correct (rm : UInt8) (m : Spec.Mode) (hm : Spec.Mode.ofNat? rm.toNat = some m)
    (neg : Bool) (D O : Nat) (E0 : Int) (oS : U128) (hO : oS.toNat = O) (hOpos : 0 < O)
    (hOle : O ≤ 12980742146337069071326240823050239) (hD : 0 < D)
    (hDle : D ≤ 12980742146337069071326240823050239)
    (hE0 : -6500 ≤ E0) (hE1 : E0 ≤ 19000) (dS : U128) (exp : Int16)
    (hdS : dS.toNat = D) (hexp : exp.toInt = E0) :
    ∃ r, quoGen rm neg dS oS exp = .ok r ∧
      (𝔳[r]).same (Spec.flushOrRoundS m neg ((D : ℚ) / (O : ℚ)) (E0 - 6176)) = true := by
  unfold quoGen
  by_cases hw : (dS.w1 == 0) = true
  · rw [if_pos hw]
    have hw1 : dS.w1 = 0 := by simpa using hw
    have hlt : dS.toNat < 2 ^ 64 := by
      have := dS.w0.toNat_lt
      simp only [U128.toNat, hw1, UInt64.toNat_zero]; omega
    have h19 : (19 : Int16).toInt = 19 := rfl
    refine quoWide_correct rm m hm neg D O E0 oS hO hOpos hOle hD hDle (by omega) hE1 _ _ 19 ?_ ?_
    · rw [u128_mul_small _ _ (10 ^ 19) rfl (by omega), hdS]
    · rw [i16_sub _ _ (by decide) (by decide) (by omega), hexp, h19]; rfl
  · rw [if_neg hw]
    exact quoWide_correct rm m hm neg D O E0 oS hO hOpos hOle hD hDle (by omega) hE1 _ _ 0
      (by simpa using hdS) (by simpa using hexp)

/-- the 64-bit fast path -/
theorem quoFast_correct (rm : UInt8) (m : Spec.Mode) (hm : Spec.Mode.ofNat? rm.toNat = some m)
    (neg : Bool) (D O : Nat) (E0 : Int) (oS : U128) (hO : oS.toNat = O) (hOpos : 0 < O)
    (hD : 0 < D) (hE0 : -7000 ≤ E0) (hE1 : E0 ≤ 19000) (dS : U128) (exp : Int16)
    (hdS : dS.toNat = D) (hexp : exp.toInt = E0) (hd1 : dS.w1 = 0) (ho1 : oS.w1 = 0) :
    ∃ r, quoFast rm neg dS oS exp = .ok r ∧
      (𝔳[r]).same (Spec.flushOrRoundS m neg ((D : ℚ) / (O : ℚ)) (E0 - 6176)) = true := by
  have hD0 : dS.w0.toNat = D := by
    rw [← hdS]; simp only [U128.toNat, hd1, UInt64.toNat_zero]; omega
  have hO0 : oS.w0.toNat = O := by
    rw [← hO]; simp only [U128.toNat, ho1, UInt64.toNat_zero]; omega
  have hDlt := dS.w0.toNat_lt
  have hOlt := oS.w0.toNat_lt
  obtain ⟨s1, m1, e1, h1e, h1s, _⟩ := d64Loop4 (exp, dS.w0)
    (by show 0 < dS.w0.toNat; omega) (by show -31000 ≤ exp.toInt; omega)
  simp only [] at h1e h1s
  have hp1 : 0 < 10 ^ m1 := Nat.pow_pos (by norm_num)
  have hm1 : m1 < 39 := by
    apply pow_lt_imp_lt
    have := s1.2.toNat_lt
    have h1 : 10 ^ m1 ≤ dS.w0.toNat * 10 ^ m1 := Nat.le_mul_of_pos_left _ (by omega)
    omega
  obtain ⟨s2, m2, e2, h2e, h2s, _⟩ := d64Loop1 (s1.1, s1.2)
    (by show 0 < s1.2.toNat; rw [h1s]; exact Nat.mul_pos (by omega) hp1)
    (by show -31000 ≤ s1.1.toInt; omega)
  simp only [] at h2e h2s
  obtain ⟨q, r, ed, hq, hr⟩ := div64_zero s2.2 oS.w0 (by omega)
  rw [hO0] at hq hr
  have hqi : QI D O E0 s2.1.toInt q.toNat r.toNat := by
    refine ⟨m1 + m2, by rw [h2e, h1e, hexp]; push_cast; ring, ?_, by rw [hr]; exact Nat.mod_lt _ hOpos⟩
    rw [hq, hr, Nat.pow_add, ← Nat.mul_assoc, ← hD0, ← h1s, ← h2s, Nat.mul_comm (s2.2.toNat / O) O]
    exact (Nat.div_add_mod _ _).symm
  obtain ⟨s', el, hq'⟩ := fastLoop D O E0 oS.w0 hO0 hOpos hD hE0 hE1 (s2.1, q, r, 0) rfl hqi
  have hsig : ({ w0 := s'.2.1, w1 := s'.2.2.2 } : U128).toNat
      = s'.2.1.toNat + 2 ^ 64 * s'.2.2.2.toNat := by
    simp only [U128.toNat]; omega
  have hrem : ({ w0 := s'.2.2.1, w1 := 0 } : U128).toNat = s'.2.2.1.toNat := by
    simp only [U128.toNat, UInt64.toNat_zero]; omega
  obtain ⟨res, er, hres⟩ := quoTail_correct rm m hm neg D O E0 oS hO hOpos (by omega) hD (by omega)
    hE0 hE1 s'.1 { w0 := s'.2.1, w1 := s'.2.2.2 } { w0 := s'.2.2.1, w1 := 0 }
    (by rw [hsig, hrem]; exact hq')
  refine ⟨res, ?_, hres⟩
  unfold quoFast
  rw [e1]
  simp only [D128.Proofs.WordsWide.ok_bind]
  rw [e2]
  simp only [D128.Proofs.WordsWide.ok_bind]
  rw [ed]
  simp only [D128.Proofs.WordsWide.ok_bind]
  rw [el]
  simp only [D128.Proofs.WordsWide.ok_bind]
  exact er

/-- **Quo, finite non-zero operands.**  `QuoWithMode d o rm` terminates without panic and returns a
    Decimal denoting `Spec.quo m 𝔳[d] 𝔳[o]`, the member of the format mode `m` selects for the exact
    quotient (signed zero below 1e-6177, ±Inf on overflow). -/
theorem quo_finite (d o : Gen.Decimal) (rm : UInt8) (m : Spec.Mode)
    (hm : Spec.Mode.ofNat? rm.toNat = some m)
    (hd : Gen.Decimal.isSpecial d = false) (ho : Gen.Decimal.isSpecial o = false)
    (zd : Gen.Decimal.IsZero d = false) (zo : Gen.Decimal.IsZero o = false) :
    ∃ r, Gen.Decimal.QuoWithMode d o rm = .ok r ∧ (𝔳[r]).same (Spec.quo m 𝔳[d] 𝔳[o]) = true := by
  have hcd : (Gen.Decimal.decompose d).1.toNat ≠ 0 := by
    have := Sp.IsZero_eq_sig d; rw [zd] at this; simpa using this.symm
  have hco : (Gen.Decimal.decompose o).1.toNat ≠ 0 := by
    have := Sp.IsZero_eq_sig o; rw [zo] at this; simpa using this.symm
  have hzd : ((Gen.Decimal.decompose d).1.w0 ||| (Gen.Decimal.decompose d).1.w1 == 0) = false := by
    rw [Bool.eq_false_iff, ne_eq, u64_or_eq_zero]
    rintro ⟨h0, h1⟩
    apply hcd
    simp only [U128.toNat, h0, h1, UInt64.toNat_zero]
  have hzo : ((Gen.Decimal.decompose o).1.w0 ||| (Gen.Decimal.decompose o).1.w1 == 0) = false := by
    rw [Bool.eq_false_iff, ne_eq, u64_or_eq_zero]
    rintro ⟨h0, h1⟩
    apply hco
    simp only [U128.toNat, h0, h1, UInt64.toNat_zero]
  rw [QuoWithMode_eq d o rm hd ho hzo hzd, Enc.interp_decompose d hd, Enc.interp_decompose o ho]
  simp only [Spec.quo]
  have hd0 := Enc.decompose_exp_nonneg d
  have hd1 := Enc.decompose_exp_le d hd
  have ho0 := Enc.decompose_exp_nonneg o
  have ho1 := Enc.decompose_exp_le o ho
  have hdle := Enc.decompose_sig_le d
  have hole := Enc.decompose_sig_le o
  rw [RK.Cmax_val] at hdle hole
  have hexp := quo_exp _ _ hd0 hd1 ho0 ho1
  generalize (Gen.Decimal.decompose d).1 = dS at *
  generalize (Gen.Decimal.decompose o).1 = oS at *
  generalize (Gen.Decimal.decompose d).2 = dE at *
  generalize (Gen.Decimal.decompose o).2 = oE at *
  generalize (Gen.Decimal.Signbit d != Gen.Decimal.Signbit o) = neg
  have hc0 : (oS.toNat == 0) = false := by simpa using hco
  rw [hc0]
  simp only [Bool.false_eq_true, if_false]
  have hek : dE.toInt - 6176 - (oE.toInt - 6176) = (dE.toInt - oE.toInt + 6176) - 6176 := by ring
  rw [hek]
  unfold quoFinite
  by_cases hw : (dS.w1 ||| oS.w1 == 0) = true
  · rw [if_pos hw]
    rw [u64_or_eq_zero] at hw
    exact quoFast_correct rm m hm neg dS.toNat oS.toNat _ oS rfl (by omega) (by omega) (by omega)
      (by omega) dS _ rfl hexp hw.1 hw.2
  · rw [if_neg hw]
    exact quoGen_correct rm m hm neg dS.toNat oS.toNat _ oS rfl (by omega) hole (by omega) hdle
      (by omega) (by omega) dS _ rfl hexp

/-- the hypotheses of `quo_finite` are satisfiable: `1 / 3` (both operands `compose false _ 6176`) -/
example : ∃ r, Gen.Decimal.QuoWithMode (Gen.compose false ⟨1, 0⟩ 6176) (Gen.compose false ⟨3, 0⟩ 6176) 0
      = .ok r ∧
    (𝔳[r]).same (Spec.quo .nearestEven 𝔳[Gen.compose false ⟨1, 0⟩ 6176]
      𝔳[Gen.compose false ⟨3, 0⟩ 6176]) = true :=
  quo_finite _ _ 0 .nearestEven rfl (by decide) (by decide) (by decide) (by decide)

end MQ
