/-
  D128/Proofs/TotalDiv192Code.lean — staged normal form of the generated `Gen.U192.div`
  (192-by-192-bit division, /repo/int.go `func (n uint192) div(o uint192)`).

  The generated function is one long `do` block with early returns and join points; whole-function
  `simp` blows up (join-point inlining).  Here it is cut into stages that mirror the generated
  text literally, with the "rest of the function" passed as a continuation.  All helper
  definitions are `@[reducible]`, so the normal form is proved by `with_reducible rfl`.

  * `fix192 n o p r`      : the final "rem = n - p; if rem ≥ o { rem -= o; r++ }" of every path
  * `mulLow o r`          : low three words of `U192.mul o r`
  * `knuthK qh ur u1 u0 x0 k` : the "estimate, then up to two corrections" fragment (3 occurrences)
  * `pathA`, `pathB1`, `pathB2`, `pathB3`(`b`,`c`,`d`), `pathC`, `divStaged`
  * `U192_div_staged : Gen.U192.div n o = divStaged 18446744073709551615 n o`
    (`math.MaxUint64` is a parameter `mx` of the B3 stages: with the literal in place the kernel's
    definitional-equality check evaluates the matchers on `U192.sub n (… MaxUint64 …)` and diverges;
    the tactic `generalize_opaque` abstracts it so that the kernel checks the `rfl` with `mx` a
    variable, via `gen_elim` / `eq_of_eq`)
-/
import D128.Gen.Int
import Lean

set_option autoImplicit false
set_option maxRecDepth 4096
set_option linter.unusedVariables false

namespace D128.Proofs.Total

/-- the final compare/subtract of every path -/
@[reducible] def fix192 (n o p r0 : U192) : Go.GoM (U192 × U192) := do
  let mut r := r0
  let (r_69, r_70) := Gen.U192.sub n p
  let mut rem_4 : U192 := r_69
  if (decide ((Gen.U192.cmp rem_4 o) ≥ (0 : Int64))) then
    let (r_71, r_72) := Gen.U192.sub rem_4 o
    rem_4 := r_71
    r := (Gen.U192.add64 r (1 : UInt64))
  return (r, rem_4)

@[reducible] def mulLow (o r : U192) : U192 :=
  U192.mk (Gen.U192.mul o r).w0 (Gen.U192.mul o r).w1 (Gen.U192.mul o r).w2

/-- quotient-digit estimate `qh` with partial remainder `ur`, corrected at most twice against the
low divisor word `u0` and the next dividend word `x0`; the result is passed to `k`. -/
@[reducible] def knuthK {α : Type} (qh ur u1 u0 x0 : UInt64) (k : UInt64 → α) : α :=
  match Go.bits.Mul64 qh u0 with
  | (p1, p0) =>
    if ((decide (p1 > ur)) || ((p1 == ur) && (decide (p0 > x0)))) = true then
      match Go.bits.Add64 ur u1 (0 : UInt64) with
      | (ur1, carry) =>
        if (carry == (0 : UInt64)) = true then
          match Go.bits.Mul64 (qh - (1 : UInt64)) u0 with
          | (p1', p0') =>
            if ((decide (p1' > ur1)) || ((p1' == ur1) && (decide (p0' > x0)))) = true then
              k (qh - (1 : UInt64) - (1 : UInt64))
            else k (qh - (1 : UInt64))
        else k (qh - (1 : UInt64))
    else k qh

@[reducible] def pathA (n o : U192) : Go.GoM (U192 × U192) := do
  let mut r0 : UInt64 := (0 : UInt64)
  let mut r1 : UInt64 := (0 : UInt64)
  let mut r2 : UInt64 := (0 : UInt64)
  let mut rem : UInt64 := (0 : UInt64)
  if (decide (n.w2 < o.w0)) then
    let t_1 ← Go.bits.Div64 n.w2 n.w1 o.w0
    let (r_2, r_3) := t_1
    r1 := r_2
    rem := r_3
    let t_4 ← Go.bits.Div64 rem n.w0 o.w0
    let (r_5, r_6) := t_4
    r0 := r_5
    rem := r_6
  else
    let t_7 ← Go.bits.Div64 (0 : UInt64) n.w2 o.w0
    let (r_8, r_9) := t_7
    r2 := r_8
    rem := r_9
    let t_10 ← Go.bits.Div64 rem n.w1 o.w0
    let (r_11, r_12) := t_10
    r1 := r_11
    rem := r_12
    let t_13 ← Go.bits.Div64 rem n.w0 o.w0
    let (r_14, r_15) := t_13
    r0 := r_14
    rem := r_15
  return ((U192.mk r0 r1 r2), (U192.mk rem (0 : UInt64) (0 : UInt64)))

@[reducible] def pathB1 (n o : U192) (i : UInt64) (u : U192) : Go.GoM (U192 × U192) := do
  let mut v : U192 := (Gen.U192.rsh n (1 : UInt64))
  let t_16 ← Go.bits.Div64 v.w1 v.w0 u.w1
  let (r_17, r_18) := t_16
  let mut r0_1 : UInt64 := r_17
  r0_1 := (Go.shr r0_1 (Go.idx ((63 : UInt64) - i)))
  if (r0_1 != (0 : UInt64)) then
    r0_1 := (r0_1 - (1 : UInt64))
  fix192 n o (Gen.U192.mul64 o r0_1) (U192.mk r0_1 (0 : UInt64) (0 : UInt64))

@[reducible] def pathB2 (n o : U192) (i : UInt64) (u : U192) : Go.GoM (U192 × U192) := do
  let mut v_1 : U192 := (Gen.U192.lsh n i)
  let t_23 ← Go.bits.Div64 v_1.w2 v_1.w1 u.w1
  let (r_24, r_25) := t_23
  knuthK r_24 r_25 u.w1 u.w0 v_1.w0 fun r0 =>
    fix192 n o (mulLow o (U192.mk r0 (0 : UInt64) (0 : UInt64))) (U192.mk r0 (0 : UInt64) (0 : UInt64))

@[reducible] def pathB3d (n o u : U192) (v_2 : U256) (r1_1 ur_2 r0_3 : UInt64) :
    Go.GoM (U192 × U192) :=
  knuthK r0_3 ur_2 u.w1 u.w0 v_2.w0 fun r0 =>
    fix192 n o (mulLow o (U192.mk r0 r1_1 (0 : UInt64))) (U192.mk r0 r1_1 (0 : UInt64))

@[reducible] def pathB3c (mx : UInt64) (n o u : U192) (v_2 : U256) (r1_1 : UInt64) (rem_3 : U192) :
    Go.GoM (U192 × U192) := do
  if (rem_3.w1 == u.w1) then
    pathB3d n o u v_2 r1_1 rem_3.w0 mx
  else
    let t_51 ← Go.bits.Div64 rem_3.w1 rem_3.w0 u.w1
    let (r_52, r_53) := t_51
    pathB3d n o u v_2 r1_1 r_53 r_52

@[reducible] def pathB3b (mx : UInt64) (n o u : U192) (v_2 : U256) (r1 : UInt64) : Go.GoM (U192 × U192) := do
  let mut r1_1 := r1
  let mut q192 : U192 := (Gen.U192.mul64 u r1_1)
  let (r_45, r_46) := Gen.U192.sub (U192.mk v_2.w1 v_2.w2 v_2.w3) q192
  let mut rem_3 : U192 := r_45
  if (decide ((Gen.U192.cmp rem_3 u) ≥ (0 : Int64))) then
    let (r_47, r_48) := Gen.U192.sub rem_3 u
    rem_3 := r_47
    r1_1 := (r1_1 + (1 : UInt64))
  pathB3c mx n o u v_2 r1_1 rem_3

@[reducible] def pathB3 (mx : UInt64) (n o : U192) (i : UInt64) (u : U192) : Go.GoM (U192 × U192) := do
  let mut v_2 : U256 := (Gen.U256.lsh (U256.mk n.w0 n.w1 n.w2 (0 : UInt64)) i)
  let t_36 ← Go.bits.Div64 v_2.w3 v_2.w2 u.w1
  let (r_37, r_38) := t_36
  knuthK r_37 r_38 u.w1 u.w0 v_2.w1 fun r1 => pathB3b mx n o u v_2 r1

@[reducible] def pathC (n o : U192) : Go.GoM (U192 × U192) := do
  let mut i_1 : UInt64 := (Go.conv (Go.bits.LeadingZeros64 o.w2) : UInt64)
  let mut u_1 : U192 := (Gen.U192.lsh o i_1)
  let mut v_3 : U192 := (Gen.U192.rsh n (1 : UInt64))
  let t_64 ← Go.bits.Div64 v_3.w2 v_3.w1 u_1.w2
  let (r_65, r_66) := t_64
  let mut r0_4 : UInt64 := r_65
  let mut ur_4 : UInt64 := r_66
  let (r_67, r_68) := (Go.bits.Mul64 r0_4 u_1.w1)
  let mut p1_2 : UInt64 := r_67
  let mut p0_2 : UInt64 := r_68
  if ((decide (p1_2 > ur_4)) || ((p1_2 == ur_4) && (decide (p0_2 > v_3.w0)))) then
    r0_4 := (r0_4 - (1 : UInt64))
  r0_4 := (Go.shr r0_4 (Go.idx ((63 : UInt64) - i_1)))
  if (r0_4 != (0 : UInt64)) then
    r0_4 := (r0_4 - (1 : UInt64))
  fix192 n o (mulLow o (U192.mk r0_4 (0 : UInt64) (0 : UInt64))) (U192.mk r0_4 (0 : UInt64) (0 : UInt64))

@[reducible] def divStaged (mx : UInt64) (n o : U192) : Go.GoM (U192 × U192) :=
  if (o.w2 == (0 : UInt64)) = true then
    if (o.w1 == (0 : UInt64)) = true then pathA n o
    else
      if (n.w2 == (0 : UInt64)) = true then
        pathB1 n o (Go.conv (Go.bits.LeadingZeros64 o.w1) : UInt64)
          (Gen.U192.lsh o (Go.conv (Go.bits.LeadingZeros64 o.w1) : UInt64))
      else if (decide (n.w2 < o.w1)) = true then
        pathB2 n o (Go.conv (Go.bits.LeadingZeros64 o.w1) : UInt64)
          (Gen.U192.lsh o (Go.conv (Go.bits.LeadingZeros64 o.w1) : UInt64))
      else
        pathB3 mx n o (Go.conv (Go.bits.LeadingZeros64 o.w1) : UInt64)
          (Gen.U192.lsh o (Go.conv (Go.bits.LeadingZeros64 o.w1) : UInt64))
  else pathC n o



/-- identity on equations; used to pin the statement at which the kernel checks a `rfl` proof. -/
theorem eq_of_eq {α : Type} {a b : α} (h : a = b) : a = b := h

theorem gen_elim {α : Type} (a : α) (P : α → Prop) (h : ∀ x, P x) : P a := h a

open Lean Meta Elab Tactic in
/-- `generalize_opaque e with x`: like `generalize e = x`, but the resulting proof term is
`gen_elim e (fun x => goal[x]) (fun x => proof)` — headed by a constant, so that it is not
beta-reduced away when metavariables are instantiated and the kernel checks the inner proof with
`x` as a variable. -/
elab "generalize_opaque " t:term " with " x:ident : tactic => do
  let goal ← getMainGoal
  goal.withContext do
    let e ← elabTerm t none
    let e ← instantiateMVars e
    let tgt ← instantiateMVars (← goal.getType)
    let abst ← kabstract tgt e
    let α ← inferType e
    let P := mkLambda x.getId .default α abst
    let newTy := mkForall x.getId .default α abst
    let newGoal ← mkFreshExprSyntheticOpaqueMVar newTy
    goal.assign (mkApp4 (mkConst ``gen_elim) α e P newGoal)
    let (_, g) ← newGoal.mvarId!.intro x.getId
    replaceMainGoal [g]

/-- the generated division is, up to unfolding of the stage definitions, `divStaged`.
(The constant `math.MaxUint64` is abstracted before the `rfl` check: with the literal in place the
kernel's definitional-equality check diverges.) -/
theorem U192_div_staged (n o : U192) :
    Gen.U192.div n o = divStaged (18446744073709551615 : UInt64) n o := by
  unfold Gen.U192.div
  generalize_opaque (18446744073709551615 : UInt64) with mx
  refine eq_of_eq ?_
  with_reducible rfl

end D128.Proofs.Total
