/-
  D128/Proofs/LayoutFormatG.lean — the `g`/`G` arm of `Gen.Decimal.format`.

  * `Ly.bodyG`        : what the arm prints for the rounded slice (exponent form iff the exponent of
        the ROUNDED value is `< −4` or `≥ M`)
  * `Ly.Fin1`, `Ly.gE`, `Ly.gF`, `Ly.formatG2_spec` : the layout part
  * `Ly.round_fin1`, `Ly.formatG_spec` : precision selection and rounding, then the layout part
-/
import D128.Proofs.LayoutFormat

set_option autoImplicit false
set_option maxRecDepth 4096

namespace Ly
open Dg Gen

/-- what the `g` arm prints for the rounded slice `r`: `P` = significant digits asked for (only
used with `#`), `M` = switch-over threshold; exponent form iff the decimal exponent `x` is `< −4` or
`≥ M`, with `P − 1` fraction digits under `#` and as many as there are digits otherwise -/
def bodyG (r : Spec.Slice) (P M : Nat) (sharp : Bool) (e : Char) : Spec.Str :=
  let nd := r.ds.length
  let x : Int := if nd = 0 then 0 else r.dp - 1
  if x < -4 || x ≥ (M : Int) then
    Spec.layoutE r ((if sharp then P else nd) - 1) sharp e 2
  else
    Spec.layoutF r (if sharp then ((P : Int) - (if nd = 0 then 1 else r.dp)).toNat
      else if (nd : Int) > r.dp then ((nd : Int) - r.dp).toNat else 0) sharp

/-- the record handed to the layout part of the `g` arm -/
structure Fin1 (r1 : digits) : Prop where
  wf : WF r1
  x0 : -6300 ≤ r1.exp.toInt
  dp : r1.exp.toInt + r1.ndig.toInt ≤ 6147
  z : r1.ndig.toInt = 0 → r1.exp.toInt = 0

theorem nslice_fin1 (r1 : digits) (h : Fin1 r1) : nslice r1 = slice r1 := by
  unfold nslice
  by_cases hz : r1.ndig.toInt = 0
  · rw [if_pos hz]
    show _ = (⟨msd r1.dig r1.ndig.toInt.toNat, r1.exp.toInt + r1.ndig.toInt⟩ : Spec.Slice)
    rw [h.z hz, hz]; rfl
  · rw [if_neg hz]

theorem Fin1.expOK {r1 : digits} (h : Fin1 r1) : ExpOK r1 := by
  have := h.wf.n0; have := h.x0; have := h.dp
  unfold ExpOK; omega

/-- exponent layout of a record in the `g` arm -/
theorem gE (r1 : digits) (h : Fin1 r1) (buf : Go.Bytes) (args : formatArgs) (q width : Int64)
    (e : UInt8) (Q : Nat) (hq : q.toInt = Q) (hQ : Q < 2 ^ 58) (hnd : r1.ndig.toInt ≤ Q + 1)
    (W : Nat) (hW : width.toInt = W) (hW' : W < 2 ^ 62) (hb : buf.size < 2 ^ 61)
    (hprz : args.padRight = true → args.padZero = false) :
    ∃ r, (digits.fmtE r1 buf q width args.forceDP args.printSign args.padSign true args.padRight
        args.padZero e >>= fun x => pure (args, x.2) : Go.GoM (formatArgs × Go.Bytes)) =
        .ok (args, r) ∧
      bstr r = bstr buf ++ padStr args.padRight args.padZero W
        (signStr r1.neg args.printSign args.padSign)
        (Spec.layoutE (slice r1) Q args.forceDP (chr e) 2) := by
  have hn0 := h.wf.n0
  have hn39 := h.wf.n39
  have hx0 := h.x0
  have hdp := h.dp
  have hx : (expOf r1).natAbs < 10000 := by
    unfold expOf
    by_cases h1 : r1.ndig.toInt = 0
    · rw [h.z h1, h1]; decide
    · split <;> omega
  obtain ⟨r, hr, hstr⟩ := fmtE_layout r1 h.wf buf q width args.forceDP args.printSign args.padSign
    true args.padRight args.padZero e h.expOK (by omega) (by omega) (by omega) h.z hx W hW hW' hb hprz
  refine ⟨r, bind_snd _ _ _ _ hr, ?_⟩
  have : q.toInt.toNat = Q := by omega
  rw [hstr, this]; rfl

/-- fixed layout of a record in the `g` arm -/
theorem gF (r1 : digits) (h : Fin1 r1) (buf : Go.Bytes) (args : formatArgs) (q width : Int64)
    (Q : Nat) (hq : q.toInt = Q) (hQ : Q < 2 ^ 58)
    (hfit : r1.ndig.toInt = 0 ∨ -r1.exp.toInt ≤ Q)
    (W : Nat) (hW : width.toInt = W) (hW' : W < 2 ^ 62) (hb : buf.size < 2 ^ 61)
    (hprz : args.padRight = true → args.padZero = false) :
    ∃ r, (digits.fmtF r1 buf q width args.forceDP args.printSign args.padSign args.padRight
        args.padZero >>= fun x => pure (args, x.2) : Go.GoM (formatArgs × Go.Bytes)) =
        .ok (args, r) ∧
      bstr r = bstr buf ++ padStr args.padRight args.padZero W
        (signStr r1.neg args.printSign args.padSign)
        (Spec.layoutF (slice r1) Q args.forceDP) := by
  have hn0 := h.wf.n0
  have hn39 := h.wf.n39
  have hx0 := h.x0
  have hdp := h.dp
  obtain ⟨r, hr, hstr⟩ := fmtF_layout r1 h.wf buf q width args.forceDP args.printSign args.padSign
    args.padRight args.padZero (by omega) (by omega) (by omega) (by omega)
    (by rcases hfit with a | a; exact Or.inl a; exact Or.inr (by omega)) W hW hW' hb hprz
  refine ⟨r, bind_snd _ _ _ _ hr, ?_⟩
  have : q.toInt.toNat = Q := by omega
  rw [hstr, this, nslice_fin1 r1 h]

theorem formatG2_spec (r1 : digits) (h : Fin1 r1) (buf : Go.Bytes) (args : formatArgs)
    (prec maxprec width : Int64) (P M : Nat) (hM : maxprec.toInt = M) (hM1 : 1 ≤ M)
    (hprec : if args.forceDP = true then prec.toInt = P ∧ r1.ndig.toInt ≤ P ∧ M ≤ P
      else (prec = r1.ndig ∨ r1.ndig.toInt = 0))
    (hPb : P < 2 ^ 57) (hMb : M < 2 ^ 57)
    (W : Nat) (hW : width.toInt = W) (hW' : W < 2 ^ 62) (hb : buf.size < 2 ^ 61)
    (hprz : args.padRight = true → args.padZero = false) :
    ∃ r, formatG2 r1 buf args prec maxprec width = .ok (args, r) ∧
      bstr r = bstr buf ++ padStr args.padRight args.padZero W
        (signStr r1.neg args.printSign args.padSign)
        (bodyG (slice r1) P M args.forceDP (chr (if (args.verb == 71) = true then 69 else 101))) := by
  have hwf := h.wf
  have hn0 := hwf.n0
  have hn39 := hwf.n39
  have hx0 := h.x0
  have hdp := h.dp
  have z0 : (0 : Int64).toInt = 0 := by decide
  have m4 : (-4 : Int64).toInt = -4 := by decide
  have hbne : (r1.ndig != 0) = !decide (r1.ndig.toInt = 0) := by
    by_cases hz : r1.ndig.toInt = 0
    · have : r1.ndig = 0 := Int64.toInt_inj.mp (by rw [hz]; rfl)
      simp [this]
    · have : r1.ndig ≠ 0 := fun e => hz (by rw [e]; rfl)
      simp [hz, this]
  have hbeq : (r1.ndig == 0) = decide (r1.ndig.toInt = 0) := by
    rw [bne, Bool.not_eq_eq_eq_not] at hbne
    rw [hbne]; simp
  have hlen : (slice r1).ds.length = r1.ndig.toInt.toNat := msd_length _ _
  have hsdp : (slice r1).dp = r1.exp.toInt + r1.ndig.toInt := rfl
  have hge : ∀ X : Int64, (X ≥ maxprec) ↔ (M : Int) ≤ X.toInt := by
    intro X; show maxprec ≤ X ↔ _; rw [i64_le, hM]
  unfold formatG2
  simp only [hbne, hbeq]
  by_cases hz : r1.ndig.toInt = 0
  · simp only [hz, decide_true, Bool.not_true, Bool.false_eq_true, if_false]
    have hexp0 := h.z hz
    have hX : (r1.exp + 0).toInt = 0 := by
      rw [i64_add _ _ (by rw [z0]; omega) (by rw [z0]; omega), z0, hexp0]; rfl
    have c1 : ¬ r1.exp + 0 < -4 := by rw [i64_lt, hX, m4]; omega
    have c2 : ¬ r1.exp + 0 ≥ maxprec := by rw [hge, hX]; omega
    have hbody : bodyG (slice r1) P M args.forceDP
        (chr (if (args.verb == 71) = true then 69 else 101)) =
        Spec.layoutF (slice r1) (if args.forceDP = true then P - 1 else 0) args.forceDP := by
      unfold bodyG
      simp only [hlen, hsdp, hz, hexp0]
      cases args.forceDP <;> simp <;> omega
    simp only [c1, c2, decide_false, Bool.or_false, Bool.false_eq_true, if_false, if_true]
    rw [hbody]
    cases hs : args.forceDP
    · simp only [hs, Bool.false_eq_true, if_false] at hprec ⊢
      have c3 : ¬ r1.exp < 0 := by rw [i64_lt, z0]; omega
      simp only [c3, decide_false, Bool.false_eq_true, if_false]
      have := gF r1 h buf args 0 width 0 z0 (by omega) (Or.inl hz) W hW hW' hb hprz
      rw [hs] at this
      exact this
    · simp only [hs, if_true] at hprec ⊢
      have hq : (prec - r1.exp - 1).toInt = ((P - 1 : Nat) : Int) := by
        have a : (prec - r1.exp).toInt = P := by
          rw [i64_sub _ _ (by omega) (by omega), hprec.1, hexp0]; omega
        rw [i64_sub _ _ (by rw [e1]; omega) (by rw [e1]; omega), a, e1]; omega
      have := gF r1 h buf args (prec - r1.exp - 1) width (P - 1) hq (by omega) (Or.inl hz) W hW hW' hb hprz
      rw [hs] at this
      exact this
  · simp only [hz, decide_false, Bool.not_false, if_true, Bool.false_eq_true, if_false]
    have hn1 : 1 ≤ r1.ndig.toInt := by omega
    have hsub : (r1.ndig - 1).toInt = r1.ndig.toInt - 1 := by
      rw [i64_sub _ _ (by rw [e1]; omega) (by rw [e1]; omega), e1]
    have hX : (r1.exp + (r1.ndig - 1)).toInt = r1.exp.toInt + r1.ndig.toInt - 1 := by
      rw [i64_add _ _ (by omega) (by omega), hsub]; omega
    have c1 : (r1.exp + (r1.ndig - 1) < -4) ↔ r1.exp.toInt + r1.ndig.toInt - 1 < -4 := by
      rw [i64_lt, hX, m4]
    have c2 : (r1.exp + (r1.ndig - 1) ≥ maxprec) ↔ (M : Int) ≤ r1.exp.toInt + r1.ndig.toInt - 1 := by
      rw [hge, hX]
    have hnd0 : ¬ r1.ndig.toInt.toNat = 0 := by omega
    by_cases hc : r1.exp.toInt + r1.ndig.toInt - 1 < -4 ∨ (M : Int) ≤ r1.exp.toInt + r1.ndig.toInt - 1
    · -- exponent form
      have hcb : (decide (r1.exp + (r1.ndig - 1) < -4) || decide (r1.exp + (r1.ndig - 1) ≥ maxprec)) = true := by
        rw [Bool.or_eq_true, decide_eq_true_eq, decide_eq_true_eq, c1, c2]; exact hc
      have hbody : bodyG (slice r1) P M args.forceDP
          (chr (if (args.verb == 71) = true then 69 else 101)) =
          Spec.layoutE (slice r1) ((if args.forceDP = true then P else r1.ndig.toInt.toNat) - 1)
            args.forceDP (chr (if (args.verb == 71) = true then 69 else 101)) 2 := by
        unfold bodyG
        simp only [hlen, hsdp, hnd0, if_false]
        rw [if_pos]
        rw [Bool.or_eq_true, decide_eq_true_eq, decide_eq_true_eq]
        rcases hc with a | a
        · left; omega
        · right; show (M : Int) ≤ _; omega
      simp only [hcb, if_true]
      rw [hbody]
      obtain ⟨Q, hq, hQ, hndQ, hQe⟩ : ∃ Q : Nat, (prec - 1).toInt = Q ∧ Q < 2 ^ 58 ∧
          r1.ndig.toInt ≤ Q + 1 ∧ Q = (if args.forceDP = true then P else r1.ndig.toInt.toNat) - 1 := by
        cases hs : args.forceDP
        · simp only [hs, Bool.false_eq_true, if_false] at hprec ⊢
          rcases hprec with a | a
          · refine ⟨r1.ndig.toInt.toNat - 1, ?_, by omega, by omega, rfl⟩
            rw [a, hsub]; omega
          · omega
        · simp only [hs, if_true] at hprec ⊢
          refine ⟨P - 1, ?_, by omega, by omega, rfl⟩
          rw [i64_sub _ _ (by rw [e1]; omega) (by rw [e1]; omega), hprec.1, e1]; omega
      rw [← hQe]
      by_cases hv : (args.verb == 71) = true
      · simp only [hv, if_true]
        exact gE r1 h buf args (prec - 1) width 69 Q hq hQ hndQ W hW hW' hb hprz
      · simp only [hv]
        exact gE r1 h buf args (prec - 1) width 101 Q hq hQ hndQ W hW hW' hb hprz
    · -- fixed form
      have hcb : ¬ (decide (r1.exp + (r1.ndig - 1) < -4) || decide (r1.exp + (r1.ndig - 1) ≥ maxprec)) = true := by
        rw [Bool.or_eq_true, decide_eq_true_eq, decide_eq_true_eq, c1, c2]; exact hc
      have hbody : bodyG (slice r1) P M args.forceDP
          (chr (if (args.verb == 71) = true then 69 else 101)) =
          Spec.layoutF (slice r1) (if args.forceDP = true then
              ((P : Int) - (r1.exp.toInt + r1.ndig.toInt)).toNat
            else (-r1.exp.toInt).toNat) args.forceDP := by
        unfold bodyG
        simp only [hlen, hsdp, hnd0, if_false]
        rw [if_neg]
        · congr 1
          cases args.forceDP
          · simp only [Bool.false_eq_true, if_false]
            split <;> omega
          · simp only [if_true]
        · rw [Bool.or_eq_true, decide_eq_true_eq, decide_eq_true_eq]
          intro a; apply hc
          rcases a with a | a
          · left; omega
          · right; have : (M : Int) ≤ r1.exp.toInt + r1.ndig.toInt - 1 := a
            exact this
      simp only [hcb]
      rw [hbody]
      cases hs : args.forceDP
      · simp only [hs, Bool.false_eq_true, if_false] at hprec ⊢
        by_cases hneg : r1.exp < 0
        · have hneg' : r1.exp.toInt < 0 := by rw [i64_lt, z0] at hneg; exact hneg
          simp only [hneg, decide_true, if_true]
          have hq : ((0 : Int64) - r1.exp).toInt = ((-r1.exp.toInt).toNat : Int) := by
            rw [i64_sub _ _ (by rw [z0]; omega) (by rw [z0]; omega), z0]; omega
          have := gF r1 h buf args (0 - r1.exp) width _ hq (by omega) (Or.inr (by omega)) W hW hW' hb hprz
          rw [hs] at this
          exact this
        · have hneg' : 0 ≤ r1.exp.toInt := by rw [i64_lt, z0] at hneg; omega
          simp only [hneg, decide_false, Bool.false_eq_true, if_false]
          have hq : (0 : Int64).toInt = ((-r1.exp.toInt).toNat : Int) := by rw [z0]; omega
          have := gF r1 h buf args 0 width _ hq (by omega) (Or.inr (by omega)) W hW hW' hb hprz
          rw [hs] at this
          exact this
      · simp only [hs, if_true] at hprec ⊢
        obtain ⟨hp1, hp2, hp3⟩ := hprec
        have hq : (prec - r1.exp - r1.ndig).toInt =
            ((((P : Int) - (r1.exp.toInt + r1.ndig.toInt)).toNat : Nat) : Int) := by
          have a : (prec - r1.exp).toInt = P - r1.exp.toInt := by
            rw [i64_sub _ _ (by omega) (by omega), hp1]
          rw [i64_sub _ _ (by omega) (by omega), a]; omega
        have := gF r1 h buf args (prec - r1.exp - r1.ndig) width _ hq (by omega)
          (Or.inr (by omega)) W hW hW' hb hprz
        rw [hs] at this
        exact this

/-- rounding to at least one digit in the `g` arm -/
theorem round_fin1 (r0 : digits) (h : Fin0 r0) (p : Int64) (hp : 1 ≤ p.toInt) :
    ∃ r1, digits.round r0 p = .ok r1 ∧ Fin1 r1 ∧ r1.neg = r0.neg ∧
      slice r1 = Spec.roundSlice (slice r0) p.toInt.toNat ∧ r1.ndig.toInt ≤ p.toInt := by
  have hn0 := h.wf.n0
  have hx0 := h.x0
  have hdp := h.dp
  obtain ⟨r1, hr1, hpost, hshape⟩ := round_shape r0 p h.wf h.expOK (by omega)
  obtain ⟨hA, hB, hC, hD⟩ := hshape
  have hwf1 : WF r1 := hpost.2.1
  have h10 := hwf1.n0
  have hz1 : r1.ndig.toInt = 0 → r0.ndig.toInt = 0 := by
    intro hz; by_contra hne
    have := hC hp (by omega); omega
  have hf1 : Fin1 r1 := by
    refine ⟨hwf1, ?_, ?_, ?_⟩
    · rcases hA with ⟨_, e⟩ | ⟨_, e⟩ <;> omega
    · rcases hA with ⟨_, e⟩ | ⟨_, e⟩ <;> omega
    · intro hz; rw [hD (hz1 hz)]; exact h.z (hz1 hz)
  refine ⟨r1, hr1, hf1, hpost.1, ?_, by rcases hA with ⟨a, _⟩ | ⟨a, _⟩ <;> omega⟩
  rw [← nslice_fin1 r1 hf1]
  exact nslice_round r0 p r1 (by omega) hpost h.wf h.z

/-- **the `g`/`G` arm**: keep `P` significant digits (`max prec 1`; with no precision everything,
i.e. `max ndig 6` counting the zeros `#` restores), switch to exponent form by the exponent of the
ROUNDED value against `M` (`max prec 1`, or 6). -/
theorem formatG_spec (r0 : digits) (h : Fin0 r0) (buf : Go.Bytes) (args : formatArgs)
    (prec : Int64) (hasPrec : Bool) (width : Int64) (P M : Nat)
    (hP : if hasPrec = true then (0 ≤ prec.toInt ∧ P = max prec.toInt.toNat 1 ∧ M = P)
      else (P = max r0.ndig.toInt.toNat 6 ∧ M = 6)) (hPb : P < 2 ^ 57)
    (W : Nat) (hW : width.toInt = W) (hW' : W < 2 ^ 62) (hb : buf.size < 2 ^ 61)
    (hprz : args.padRight = true → args.padZero = false) :
    ∃ r, formatG r0 buf args prec hasPrec width = .ok (args, r) ∧
      bstr r = bstr buf ++ padStr args.padRight args.padZero W
        (signStr r0.neg args.printSign args.padSign)
        (bodyG (Spec.roundSlice (slice r0) P) P M args.forceDP
          (chr (if (args.verb == 71) = true then 69 else 101))) ∧
      NormS (Spec.roundSlice (slice r0) P) ∧ (Spec.roundSlice (slice r0) P).ds.length ≤ P := by
  have hn0 := h.wf.n0
  have hnorm1 : ∀ r1 : digits, Fin1 r1 → r1.ndig.toInt ≤ P → slice r1 = Spec.roundSlice (slice r0) P →
      NormS (Spec.roundSlice (slice r0) P) ∧ (Spec.roundSlice (slice r0) P).ds.length ≤ P := by
    intro r1 hf1 hnd hsl
    rw [← hsl]
    refine ⟨by rw [← nslice_fin1 r1 hf1]; exact normS_nslice r1 hf1.wf, ?_⟩
    show (msd r1.dig r1.ndig.toInt.toNat).length ≤ P
    rw [msd_length]; omega
  have hn39 := h.wf.n39
  have z0 : (0 : Int64).toInt = 0 := by decide
  have e6 : (6 : Int64).toInt = 6 := by decide
  have hbeq0 : (prec == 0) = decide (prec.toInt = 0) := by
    by_cases hz : prec.toInt = 0
    · have : prec = 0 := Int64.toInt_inj.mp (by rw [hz]; rfl)
      simp [this]
    · have : prec ≠ 0 := fun e => hz (by rw [e]; rfl)
      simp [hz, this]
  unfold formatG
  cases hs : args.forceDP
  · -- no '#'
    simp only [Bool.false_eq_true, if_false]
    cases hasPrec
    · -- shortest
      simp only [Bool.false_eq_true, if_false] at hP ⊢
      obtain ⟨hP1, hM⟩ := hP
      have hsl : Spec.roundSlice (slice r0) P = slice r0 := by
        apply roundSlice_of_le
        show (msd r0.dig r0.ndig.toInt.toNat).length ≤ _
        rw [msd_length, hP1]; omega
      have hf1 : Fin1 r0 := ⟨h.wf, by have := h.x0; omega, by have := h.dp; omega, h.z⟩
      have hnm := hnorm1 r0 hf1 (by omega) hsl.symm
      rw [hsl] at hnm ⊢
      have hbne : (r0.ndig != 0) = !decide (r0.ndig.toInt = 0) := by
        by_cases hz : r0.ndig.toInt = 0
        · have : r0.ndig = 0 := Int64.toInt_inj.mp (by rw [hz]; rfl)
          simp [this]
        · have : r0.ndig ≠ 0 := fun e => hz (by rw [e]; rfl)
          simp [hz, this]
      rw [hbne]
      by_cases hz : r0.ndig.toInt = 0
      · simp only [hz, decide_true, Bool.not_true, Bool.false_eq_true, if_false]
        have := formatG2_spec r0 hf1 buf args prec 6 width P M (by rw [e6, hM]; rfl) (by omega)
          (by rw [hs]; simp [hz]) hPb (by omega)
          W hW hW' hb hprz
        rw [hs] at this
        obtain ⟨r, hr, hstr⟩ := this
        exact ⟨r, hr, hstr, hnm⟩
      · simp only [hz, decide_false, Bool.not_false, if_true]
        have := formatG2_spec r0 hf1 buf args r0.ndig 6 width P M (by rw [e6, hM]; rfl) (by omega)
          (by rw [hs]; simp) hPb (by omega)
          W hW hW' hb hprz
        rw [hs] at this
        obtain ⟨r, hr, hstr⟩ := this
        exact ⟨r, hr, hstr, hnm⟩
    · -- precision given
      simp only [if_true] at hP ⊢
      obtain ⟨hp0, hP1, hM⟩ := hP
      obtain ⟨p, hp, hstep⟩ : ∃ p : Int64, p.toInt = P ∧
          (if (prec == 0) = true then (1 : Int64) else prec) = p := by
        rw [hbeq0]
        by_cases hz : prec.toInt = 0
        · exact ⟨1, by rw [e1, hP1, hz]; rfl, by simp [hz]⟩
        · exact ⟨prec, by omega, by simp [hz]⟩
      have hstep' : (if (prec == 0) = true then
            (do let r_12 ← digits.round r0 1
                formatG2 r_12 buf args r_12.ndig 1 width)
          else (do let r_12 ← digits.round r0 prec
                   formatG2 r_12 buf args r_12.ndig prec width)) =
          (do let r_12 ← digits.round r0 p
              formatG2 r_12 buf args r_12.ndig p width) := by
        rw [← hstep]; split <;> rfl
      obtain ⟨r1, hr1, hf1, hneg1, hsl, hnd1⟩ := round_fin1 r0 h p (by omega)
      have := formatG2_spec r1 hf1 buf args r1.ndig p width P M (by rw [hp, hM]) (by omega)
        (by rw [hs]; simp) hPb (by omega)
        W hW hW' hb hprz
      have e : p.toInt.toNat = P := by omega
      rw [e] at hsl
      rw [hs, hneg1, hsl] at this
      obtain ⟨r, hr, hstr⟩ := this
      refine ⟨r, ?_, hstr, hnorm1 r1 hf1 (by omega) hsl⟩
      show (if (prec == 0) = true then _ else _) = _
      rw [hstep', hr1]
      exact hr
  · -- '#'
    simp only [if_true]
    obtain ⟨p, m, hp, hm, hstep⟩ : ∃ p m : Int64, p.toInt = P ∧ m.toInt = M ∧
        (if (!hasPrec) = true then
            if decide (r0.ndig < 6) = true then
              (do let r_11 ← digits.round r0 6
                  formatG2 r_11 buf args 6 6 width)
            else (do let r_11 ← digits.round r0 r0.ndig
                     formatG2 r_11 buf args r0.ndig 6 width)
          else if (prec == 0) = true then
            (do let r_11 ← digits.round r0 1
                formatG2 r_11 buf args 1 1 width)
          else (do let r_11 ← digits.round r0 prec
                   formatG2 r_11 buf args prec prec width)) =
          (do let r_11 ← digits.round r0 p
              formatG2 r_11 buf args p m width) := by
      cases hasPrec
      · simp only [Bool.false_eq_true, if_false] at hP
        obtain ⟨hP1, hM⟩ := hP
        by_cases h6 : r0.ndig < 6
        · have h6' : r0.ndig.toInt < 6 := by rw [i64_lt, e6] at h6; exact h6
          exact ⟨6, 6, by rw [e6, hP1]; omega, by rw [e6, hM]; rfl, by simp [h6]⟩
        · have h6' : ¬ r0.ndig.toInt < 6 := by rw [i64_lt, e6] at h6; exact h6
          exact ⟨r0.ndig, 6, by rw [hP1]; omega, by rw [e6, hM]; rfl, by simp [h6]⟩
      · simp only [if_true] at hP
        obtain ⟨hp0, hP1, hM⟩ := hP
        rw [hbeq0]
        by_cases hz : prec.toInt = 0
        · exact ⟨1, 1, by rw [e1, hP1, hz]; rfl, by rw [e1, hM, hP1, hz]; rfl, by simp [hz]⟩
        · exact ⟨prec, prec, by omega, by omega, by simp [hz]⟩
    have hMP : M ≤ P ∧ 1 ≤ M := by
      cases hasPrec
      · simp only [Bool.false_eq_true, if_false] at hP; omega
      · simp only [if_true] at hP; omega
    obtain ⟨r1, hr1, hf1, hneg1, hsl, hnd1⟩ := round_fin1 r0 h p (by omega)
    have := formatG2_spec r1 hf1 buf args p m width P M hm hMP.2
      (by rw [hs]; simp only [if_true]; exact ⟨hp, by omega, hMP.1⟩) hPb (by omega)
      W hW hW' hb hprz
    have e : p.toInt.toNat = P := by omega
    rw [e] at hsl
    rw [hs, hneg1, hsl] at this
    obtain ⟨r, hr, hstr⟩ := this
    refine ⟨r, ?_, hstr, hnorm1 r1 hf1 (by omega) hsl⟩
    rw [hstep, hr1]
    exact hr

end Ly
