/-
  D128/Proofs/ExpAccReal.lean — property C16, real-analysis layer: the polynomial `D192.R` that
  `decomposed192.epow` evaluates (the 40-term Taylor sum WITHOUT the term `x^39/39!`), its `expm1` companion
  `R x − 1`, against Mathlib's `Real.exp`, and the amplification of the relative error by `powexp10`.

  Provided (namespace `ExpAcc`):
  * `R_le_exp`, `exp_le_R`       : `0 ≤ x ≤ 1`:  `exp x·(1 − 10^-46) ≤ R x ≤ exp x`
  * `Rm1_le_expm1`, `expm1_le_Rm1` : `0 ≤ x ≤ 1`:  `(exp x − 1)·(1 − 10^-46) ≤ R x − 1 ≤ exp x − 1`
                                   (`R x − 1 = x·G x 38 = ExpAcc.Mq x` is the polynomial of `epowm1`)
  * `theta_pow_ge`               : `1 − k·10^-56 ≤ (1 − theta)^k`
  * `horner_real`                : `R x·(1−theta)^118 ≤ v ≤ R x` ⇒ `exp x·(1 − 2·10^-46) ≤ v ≤ exp x`
  * `pow_real`                   : `y^P·(1−eps)^P ≤ z ≤ y^P`, `exp x·(1−2·10^-46) ≤ y ≤ exp x`, `P ≤ 10^7`
                                   ⇒ `exp (x·P)·(1 − 10^-38) ≤ z ≤ exp (x·P)`
-/
import D128.Proofs.D192Exp
import D128.Proofs.EnclosureExp
set_option autoImplicit false
set_option exponentiation.threshold 512

namespace ExpAcc
open D192

/-! ## the series -/

theorem cast_sum_div (x : ℚ) (n : ℕ) :
    ((∑ k ∈ Finset.range n, x ^ k / (Nat.factorial k : ℚ) : ℚ) : ℝ)
      = ∑ k ∈ Finset.range n, (x : ℝ) ^ k / (Nat.factorial k : ℝ) := by
  push_cast; rfl

/-- `R x` over the reals -/
theorem R_real (x : ℚ) :
    ((R x : ℚ) : ℝ) = (∑ k ∈ Finset.range 39, (x : ℝ) ^ k / (Nat.factorial k : ℝ))
      + (x : ℝ) ^ 40 / (Nat.factorial 40 : ℝ) := by
  rw [R_eq]; push_cast; rfl

theorem sum41 (x : ℝ) :
    ∑ k ∈ Finset.range 41, x ^ k / (Nat.factorial k : ℝ)
      = (∑ k ∈ Finset.range 39, x ^ k / (Nat.factorial k : ℝ)) + x ^ 39 / (Nat.factorial 39 : ℝ)
        + x ^ 40 / (Nat.factorial 40 : ℝ) := by
  rw [Finset.sum_range_succ (n := 40), Finset.sum_range_succ (n := 39)]

theorem R_le_exp (x : ℚ) (h0 : 0 ≤ x) : ((R x : ℚ) : ℝ) ≤ Real.exp (x : ℝ) := by
  have hx : (0 : ℝ) ≤ (x : ℝ) := by exact_mod_cast h0
  have h := Real.sum_le_exp_of_nonneg hx 41
  rw [sum41] at h
  rw [R_real]
  have : 0 ≤ (x : ℝ) ^ 39 / (Nat.factorial 39 : ℝ) := by positivity
  linarith

theorem fact39 : (Nat.factorial 39 : ℝ) = 20397882081197443358640281739902897356800000000 := by
  norm_num [Nat.factorial]

theorem fact41 : (Nat.factorial 41 : ℝ) = 33452526613163807108170062053440751665152000000000 := by
  norm_num [Nat.factorial]

/-- the defect of `R`: at most `x^39·10^-46` -/
theorem exp_sub_R (x : ℚ) (h0 : 0 ≤ x) (h1 : x ≤ 1) :
    Real.exp (x : ℝ) - ((R x : ℚ) : ℝ) ≤ (x : ℝ) ^ 39 * (1 / 10 ^ 46) := by
  have hx : (0 : ℝ) ≤ (x : ℝ) := by exact_mod_cast h0
  have hx1 : (x : ℝ) ≤ 1 := by exact_mod_cast h1
  have hb := EnclPf.real_exp_taylor_bound (x := (x : ℝ)) (n := 41) (by
    rw [abs_of_nonneg hx]; push_cast; linarith)
  rw [abs_of_nonneg hx, sum41] at hb
  have hb2 := (abs_le.1 hb).2
  rw [R_real]
  have h41 : (x : ℝ) ^ 41 ≤ (x : ℝ) ^ 39 := pow_le_pow_of_le_one hx hx1 (by norm_num)
  have hp : 0 ≤ (x : ℝ) ^ 39 := by positivity
  rw [fact41] at hb2
  have e39 : (x : ℝ) ^ 39 / (Nat.factorial 39 : ℝ) = (x : ℝ) ^ 39 * (1 / 20397882081197443358640281739902897356800000000) := by
    rw [fact39]; ring
  have h2 : (x : ℝ) ^ 41 / 33452526613163807108170062053440751665152000000000 * 2
      ≤ (x : ℝ) ^ 39 * (2 / 33452526613163807108170062053440751665152000000000) := by
    rw [div_mul_eq_mul_div, mul_div_assoc]
    exact mul_le_mul_of_nonneg_right h41 (by norm_num)
  have h3 : (x : ℝ) ^ 39 * (1 / 20397882081197443358640281739902897356800000000)
      + (x : ℝ) ^ 39 * (2 / 33452526613163807108170062053440751665152000000000)
      ≤ (x : ℝ) ^ 39 * (1 / 10 ^ 46) := by
    rw [← mul_add]
    exact mul_le_mul_of_nonneg_left (by norm_num) hp
  linarith

theorem exp_le_R (x : ℚ) (h0 : 0 ≤ x) (h1 : x ≤ 1) :
    Real.exp (x : ℝ) * (1 - 1 / 10 ^ 46) ≤ ((R x : ℚ) : ℝ) := by
  have hx : (0 : ℝ) ≤ (x : ℝ) := by exact_mod_cast h0
  have hx1 : (x : ℝ) ≤ 1 := by exact_mod_cast h1
  have h := exp_sub_R x h0 h1
  have h39 : (x : ℝ) ^ 39 ≤ 1 := pow_le_one₀ hx hx1
  have he : 1 ≤ Real.exp (x : ℝ) := Real.one_le_exp hx
  nlinarith

/-! ## the `expm1` companion (`R x - 1 = x·G x 38` is the polynomial of `epowm1`) -/

theorem Rm1_le_expm1 (x : ℚ) (h0 : 0 ≤ x) : ((R x - 1 : ℚ) : ℝ) ≤ Real.exp (x : ℝ) - 1 := by
  have := R_le_exp x h0
  push_cast
  linarith

theorem expm1_le_Rm1 (x : ℚ) (h0 : 0 ≤ x) (h1 : x ≤ 1) :
    (Real.exp (x : ℝ) - 1) * (1 - 1 / 10 ^ 46) ≤ ((R x - 1 : ℚ) : ℝ) := by
  have hx : (0 : ℝ) ≤ (x : ℝ) := by exact_mod_cast h0
  have hx1 : (x : ℝ) ≤ 1 := by exact_mod_cast h1
  have h := exp_sub_R x h0 h1
  push_cast
  -- x^39 ≤ x ≤ exp x − 1
  have h39 : (x : ℝ) ^ 39 ≤ (x : ℝ) := by
    calc (x : ℝ) ^ 39 ≤ (x : ℝ) ^ 1 := pow_le_pow_of_le_one hx hx1 (by norm_num)
      _ = (x : ℝ) := pow_one _
  have he : (x : ℝ) + 1 ≤ Real.exp (x : ℝ) := Real.add_one_le_exp _
  nlinarith

/-! ## accumulated roundings -/

theorem theta_real : ((theta : ℚ) : ℝ) = 1 / 10 ^ 56 := by unfold theta; push_cast; rfl

theorem theta_pow_ge (k : ℕ) : (1 : ℝ) - (k : ℝ) * (1 / 10 ^ 56) ≤ (1 - ((theta : ℚ) : ℝ)) ^ k := by
  rw [theta_real]
  have h := one_add_mul_le_pow (a := -(1 / 10 ^ 56 : ℝ)) (by norm_num) k
  have e : (1 + -(1 / 10 ^ 56 : ℝ)) = 1 - 1 / 10 ^ 56 := by ring
  rw [e] at h
  linarith

/-- the value of the Horner loop against the exponential -/
theorem horner_real (x : ℚ) (h0 : 0 ≤ x) (h1 : x ≤ 1) (v : ℚ)
    (hlo : R x * (1 - theta) ^ 118 ≤ v) (hhi : v ≤ R x) :
    Real.exp (x : ℝ) * (1 - 2 / 10 ^ 46) ≤ (v : ℝ) ∧ (v : ℝ) ≤ Real.exp (x : ℝ) := by
  have hlo' : ((R x : ℚ) : ℝ) * (1 - ((theta : ℚ) : ℝ)) ^ 118 ≤ (v : ℝ) := by
    have : ((R x * (1 - theta) ^ 118 : ℚ) : ℝ) ≤ (v : ℝ) := by exact_mod_cast hlo
    push_cast at this; exact this
  have hhi' : (v : ℝ) ≤ ((R x : ℚ) : ℝ) := by exact_mod_cast hhi
  have hR1 := R_le_exp x h0
  have hR2 := exp_le_R x h0 h1
  have hth := theta_pow_ge 118
  have he : 0 < Real.exp (x : ℝ) := Real.exp_pos _
  have hR0 : 0 ≤ ((R x : ℚ) : ℝ) := le_trans (by nlinarith) hR2
  refine ⟨?_, le_trans hhi' hR1⟩
  have h2 : ((R x : ℚ) : ℝ) * (1 - (118 : ℝ) * (1 / 10 ^ 56)) ≤ (v : ℝ) := by
    have : ((R x : ℚ) : ℝ) * (1 - ((118 : ℕ) : ℝ) * (1 / 10 ^ 56))
        ≤ ((R x : ℚ) : ℝ) * (1 - ((theta : ℚ) : ℝ)) ^ 118 := mul_le_mul_of_nonneg_left hth hR0
    push_cast at this
    linarith
  have h3 : Real.exp (x : ℝ) * (1 - 1 / 10 ^ 46) * (1 - (118 : ℝ) * (1 / 10 ^ 56)) ≤ (v : ℝ) := by
    have : Real.exp (x : ℝ) * (1 - 1 / 10 ^ 46) * (1 - (118 : ℝ) * (1 / 10 ^ 56))
        ≤ ((R x : ℚ) : ℝ) * (1 - (118 : ℝ) * (1 / 10 ^ 56)) :=
      mul_le_mul_of_nonneg_right hR2 (by norm_num)
    linarith
  have h4 : (1 - 2 / 10 ^ 46 : ℝ) ≤ (1 - 1 / 10 ^ 46) * (1 - (118 : ℝ) * (1 / 10 ^ 56)) := by norm_num
  nlinarith

theorem eps_real_lt : ((eps : ℚ) : ℝ) < 1 / 10 ^ 56 := by
  have : ((eps : ℚ) : ℝ) < (((1 / 10 ^ 56 : ℚ)) : ℝ) := by exact_mod_cast eps_lt
  push_cast at this; exact this

theorem eps_real_pos : 0 < ((eps : ℚ) : ℝ) := by exact_mod_cast eps_pos

/-- the value of `powexp10` against the exponential: `P ≤ 10^7` truncating multiplications and the `P`-th
power of the Horner value -/
theorem pow_real (x : ℚ) (P : ℕ) (hP : P ≤ 10 ^ 7) (y z : ℚ)
    (hy1 : Real.exp (x : ℝ) * (1 - 2 / 10 ^ 46) ≤ (y : ℝ)) (hy2 : (y : ℝ) ≤ Real.exp (x : ℝ))
    (hz1 : y ^ P * (1 - eps) ^ P ≤ z) (hz2 : z ≤ y ^ P) :
    Real.exp ((x : ℝ) * (P : ℝ)) * (1 - 1 / 10 ^ 38) ≤ (z : ℝ) ∧ (z : ℝ) ≤ Real.exp ((x : ℝ) * (P : ℝ)) := by
  have he : 0 < Real.exp (x : ℝ) := Real.exp_pos _
  have hy0 : 0 ≤ (y : ℝ) := le_trans (by nlinarith) hy1
  have hexpP : Real.exp ((x : ℝ) * (P : ℝ)) = Real.exp (x : ℝ) ^ P := by
    rw [mul_comm, Real.exp_nat_mul]
  have hz1' : (y : ℝ) ^ P * (1 - ((eps : ℚ) : ℝ)) ^ P ≤ (z : ℝ) := by
    have : ((y ^ P * (1 - eps) ^ P : ℚ) : ℝ) ≤ (z : ℝ) := by exact_mod_cast hz1
    push_cast at this; exact this
  have hz2' : (z : ℝ) ≤ (y : ℝ) ^ P := by
    have : (z : ℝ) ≤ ((y ^ P : ℚ) : ℝ) := by exact_mod_cast hz2
    push_cast at this; exact this
  rw [hexpP]
  refine ⟨?_, le_trans hz2' (pow_le_pow_left₀ hy0 hy2 P)⟩
  -- lower bound
  have hPr : (P : ℝ) ≤ 10 ^ 7 := by exact_mod_cast hP
  have hb1 := one_add_mul_le_pow (a := -(2 / 10 ^ 46 : ℝ)) (by norm_num) P
  have hb2 := one_add_mul_le_pow (a := -((eps : ℚ) : ℝ)) (by have := eps_real_lt; linarith) P
  have e1 : (1 + -(2 / 10 ^ 46 : ℝ)) = 1 - 2 / 10 ^ 46 := by ring
  have e2 : (1 + -((eps : ℚ) : ℝ)) = 1 - ((eps : ℚ) : ℝ) := by ring
  rw [e1] at hb1; rw [e2] at hb2
  have hepsP := eps_real_pos
  have hepsL := eps_real_lt
  have hP0 : (0 : ℝ) ≤ (P : ℝ) := Nat.cast_nonneg _
  -- the two factors
  have f1 : (1 : ℝ) - 2 / 10 ^ 39 ≤ (1 - 2 / 10 ^ 46) ^ P := by
    have : (P : ℝ) * (2 / 10 ^ 46) ≤ 10 ^ 7 * (2 / 10 ^ 46) := mul_le_mul_of_nonneg_right hPr (by norm_num)
    have : (10 : ℝ) ^ 7 * (2 / 10 ^ 46) = 2 / 10 ^ 39 := by norm_num
    linarith
  have f2 : (1 : ℝ) - 1 / 10 ^ 49 ≤ (1 - ((eps : ℚ) : ℝ)) ^ P := by
    have h1 : (P : ℝ) * ((eps : ℚ) : ℝ) ≤ 10 ^ 7 * (1 / 10 ^ 56) := mul_le_mul hPr hepsL.le hepsP.le (by norm_num)
    have : (10 : ℝ) ^ 7 * (1 / 10 ^ 56) = 1 / 10 ^ 49 := by norm_num
    linarith
  have f10 : (0 : ℝ) ≤ (1 - 2 / 10 ^ 46) ^ P := pow_nonneg (by norm_num) P
  have hyP : (Real.exp (x : ℝ) * (1 - 2 / 10 ^ 46)) ^ P ≤ (y : ℝ) ^ P :=
    pow_le_pow_left₀ (by nlinarith) hy1 P
  rw [mul_pow] at hyP
  have heP : 0 < Real.exp (x : ℝ) ^ P := pow_pos he P
  have g1 : Real.exp (x : ℝ) ^ P * (1 - 2 / 10 ^ 39) ≤ (y : ℝ) ^ P := by
    have : Real.exp (x : ℝ) ^ P * (1 - 2 / 10 ^ 39) ≤ Real.exp (x : ℝ) ^ P * (1 - 2 / 10 ^ 46) ^ P :=
      mul_le_mul_of_nonneg_left f1 heP.le
    linarith
  have hyP0 : 0 ≤ (y : ℝ) ^ P := pow_nonneg hy0 P
  have g2 : (y : ℝ) ^ P * (1 - 1 / 10 ^ 49) ≤ (z : ℝ) := by
    have : (y : ℝ) ^ P * (1 - 1 / 10 ^ 49) ≤ (y : ℝ) ^ P * (1 - ((eps : ℚ) : ℝ)) ^ P :=
      mul_le_mul_of_nonneg_left f2 hyP0
    linarith
  have g3 : Real.exp (x : ℝ) ^ P * (1 - 2 / 10 ^ 39) * (1 - 1 / 10 ^ 49) ≤ (z : ℝ) := by
    have : Real.exp (x : ℝ) ^ P * (1 - 2 / 10 ^ 39) * (1 - 1 / 10 ^ 49) ≤ (y : ℝ) ^ P * (1 - 1 / 10 ^ 49) :=
      mul_le_mul_of_nonneg_right g1 (by norm_num)
    linarith
  have g4 : (1 - 1 / 10 ^ 38 : ℝ) ≤ (1 - 2 / 10 ^ 39) * (1 - 1 / 10 ^ 49) := by norm_num
  nlinarith

/-- the hypotheses of `horner_real` are satisfiable: `x = 1/2`, `v = R (1/2)` -/
example := horner_real (1 / 2) (by norm_num) (by norm_num) (R (1 / 2))
  (by
    have hR : 0 ≤ R (1 / 2) := by
      unfold R; have := G_nonneg (1 / 2) (by norm_num) 38; nlinarith
    have h1 : (1 - theta) ^ 118 ≤ 1 := pow_le_one₀ one_sub_theta_pos.le (by have := theta_pos; linarith)
    nlinarith)
  (le_refl _)

end ExpAcc
