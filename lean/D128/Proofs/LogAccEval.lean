/-
  D128/Proofs/LogAccEval.lean — evaluated evidence (re-run on every build by `#guard`) about the logarithm family
  `Log`, `Log2`, `Log10` (Go: /repo/exp.go), judged against the certified enclosure `Spec.Encl.log`
  (sound by `Props.C16.log_encl`).  Only `Gen` and `Spec` are imported: nothing here depends on the proofs.

  `ulps f c e` : for the argument `x = c·10^e > 0`, a rational LOWER bound of `|result − f(x)|` in units of the last
  place of the Decimal format at the true result (computed from the enclosure `[lo, hi]` of `ln x`; `none` if the
  function panics, returns a special value or the enclosure is not available); `ulpsUp` the matching UPPER bound.

  FINDING 1 (recorded as `log-just-below-one-cancellation`): for arguments just below 1 the three functions lose
  everything beyond `10^-57` absolute:  `Log(1 − 8.76e-30)` returns `−8.76e-30` exactly, 3.8·10^4 units from the truth
  (`−ln(1−δ) = δ + δ²/2 + …`, and `δ²/2 = 3.8·10^-59` is below the working precision `10^-57`).
  The error exceeds one unit from about `1 − x < 4.2·10^-24` on (observed: 1.08 units at `1 − x = 4.1889653498e-24`,
  below one unit on 40 random arguments in each decade of `1 − x ∈ [10^-23, 10^-19]`); the accuracy theorem
  `Props.C16Log.log_accurate` is proved for `1 − x ≥ 7.5·10^-22`.
  OBSERVATION: `Log(1 − 10^-34) = −10^-34` is within 1/2 unit (the only argument of the region that passes).
-/
import D128.Gen.Exp
import D128.Spec.Enclosure
set_option autoImplicit false

namespace LogAccEval
open Gen

def mk128 (n : Nat) : U128 := ⟨UInt64.ofNat (n % 2 ^ 64), UInt64.ofNat (n / 2 ^ 64)⟩
def mkDec (neg : Bool) (c : Nat) (e : Int) : Decimal := compose neg (mk128 c) (Int16.ofInt (e + 6176))
def g0 : Globals := { (default : Globals) with DefaultRoundingMode := 0 }

/-- sign, coefficient, exponent of a finite result -/
def finOf (r : Go.GoM Decimal) : Option (Bool × Nat × Int) :=
  match r with
  | .ok v => if Decimal.isSpecial v then none else
      let (s, e) := Decimal.decompose v
      some (Decimal.Signbit v, s.toNat, e.toInt - 6176)
  | .error _ => none

inductive Fn | log | log2 | log10
def run (f : Fn) (c : Nat) (e : Int) : Option (Bool × Nat × Int) :=
  finOf (match f with
    | .log => Gen.Log g0 (mkDec false c e)
    | .log2 => Gen.Log2 g0 (mkDec false c e)
    | .log10 => Gen.Log10 g0 (mkDec false c e))

/-- exponent of the unit in the last place at the positive rational `q` -/
def ulpE (q : Rat) : Int := Spec.spacingExp q

/-- lower bound of the error of `Log` in units in the last place at the lower end of the enclosure of `|ln x|` -/
def logUlpsLo (c : Nat) (e : Int) : Option Rat := do
  let (n, rc, re) ← run .log c e
  let l ← Spec.Encl.log (c : Rat) e
  let r : Rat := (if n then -1 else 1) * (rc : Rat) * Spec.pow10 re
  let lo := if l.lo ≤ r ∧ r ≤ l.hi then 0 else if r < l.lo then l.lo - r else r - l.hi
  let m := if l.hi < 0 then -l.hi else l.lo
  some (lo / Spec.pow10 (ulpE m))

def logUlpsHi (c : Nat) (e : Int) : Option Rat := do
  let (n, rc, re) ← run .log c e
  let l ← Spec.Encl.log (c : Rat) e
  let r : Rat := (if n then -1 else 1) * (rc : Rat) * Spec.pow10 re
  let hi := max (if r < l.hi then l.hi - r else 0) (if l.lo < r then r - l.lo else 0)
  let m := if l.hi < 0 then -l.hi else l.lo
  some (hi / Spec.pow10 (ulpE m))

/-! ### the exact cases of the property text -/
#guard run .log 1 0 == some (false, 0, -57)
#guard run .log 10 (-1) == some (false, 0, -57)
#guard run .log2 8 0 == some (false, 3000000000000000000000000000000000, -33)
#guard run .log2 25 (-2) == some (true, 2000000000000000000000000000000000, -33)
#guard run .log10 1 (-7) == some (true, 7000000000000000000000000000000000, -33)
#guard run .log10 1 6111 == some (false, 6111000000000000000000000000000000, -30)

/-! ### FINDING 1: cancellation just below 1 -/
-- Log(1 − 8.76e-30) = −8.76e-30 exactly
#guard run .log 9999999999999999999999999999912400 (-34) == some (true, 8760000000000000000000000000, -57)
-- … more than 3·10^4 units from the truth
#guard (logUlpsLo 9999999999999999999999999999912400 (-34)).map (fun u => decide (30000 < u)) == some true
-- the largest 1 − x found with an error above one unit
#guard (logUlpsLo 9999999999999999999999958110346502 (-34)).map (fun u => decide (1 < u)) == some true
-- inside the proved region (1 − x = 10^-21) and at a generic argument the error is below 0.6 units
#guard (logUlpsHi 999999999999999999999 (-21)).map (fun u => decide (u < 6 / 10)) == some true
#guard (logUlpsHi 2 0).map (fun u => decide (u < 6 / 10)) == some true
-- at x → 1.1⁻, where the truncation of the artanh series is largest (35th power dropped: 2·10^-47 absolute)
#guard (logUlpsHi 1099999999999999999999999999999999 (-33)).map (fun u => decide (u < 52 / 100)) == some true

end LogAccEval
