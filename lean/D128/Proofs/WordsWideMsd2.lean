/-
  D128.Proofs.WordsWideMsd2 — item 9: `uint192.msd2` (four `while` loops, two conditional steps).

  What the Go code computes (/repo/int.go `msd2`): it repeatedly drops low decimal digits
  (÷10^19 while the top word is ≥ 10, one ÷10 if the top word is still non-zero, the same on the
  remaining 128 bits, then ÷1000 while ≥ 10000 and ÷10 while ≥ 100) and never drops below two
  digits.  Hence for n < 10 the result is n (0 for n = 0) and for n ≥ 10 it is the two leading
  decimal digits of n as a number in 10..99.

  * `Msd n0 v`            : `∃ m, v = n0 / 10^m ∧ (10 ≤ v ∨ m = 0)` (the loop invariant)
  * `Msd.char`            : `Msd n0 v → v < 100 → (n0 < 10 → v = n0) ∧ (10 ≤ n0 → 10 ≤ v ∧ v = n0 / 10^(Nat.log 10 n0 - 1))`
  * `U192_msd2_triple`    : `⦃True⦄ msd2 n ⦃⇓ r => ∃ v, r.toInt = v ∧ v < 100 ∧ Msd n.toNat v⦄`  (mvcgen, 22 invariants)
  * `U192_msd2_spec`      : `∃ r, Gen.U192.msd2 n = .ok r ∧ 0 ≤ r.toInt ≤ 99 ∧ (n.toNat < 10 → r.toInt = n.toNat) ∧
                               (10 ≤ n.toNat → 10 ≤ r.toInt ∧ r.toInt = n.toNat / 10^(Nat.log 10 n.toNat - 1))`
                            (termination and absence of panics included)
  * `U192_msd2_spec_triple` : the same as an `@[spec]` triple
  * `ok_of_triple`        : `⦃True⦄ f ⦃⇓ r => Q r⦄ → ∃ r, f = .ok r ∧ Q r` for `f : Go.GoM α`
  * `U128_div10_eq'`, `U128_div1e19_eq'`, `U128_div10_spec'`, `U128_div1e19_spec'` : local copies of the
    two 128-bit divisions `msd2` calls (primed to avoid clashing with `Words128.lean`; not `@[spec]`).
-/
import D128.Proofs.WordsWidePow10

set_option autoImplicit false
set_option mvcgen.warning false

namespace D128.Proofs.WordsWide

open Std.Do
/-! ## 9. `msd2` -/

/-! ### the two 128-bit divisions used by `msd2` (kept local to this module; primed names) -/

theorem U128_div10_eq' (n : U128) :
    ∃ q r, Gen.U128.div10 n = .ok (q, r) ∧ q.toNat = n.toNat / 10 ∧ r.toNat = n.toNat % 10 := by
  unfold Gen.U128.div10
  by_cases hlt : n.w1 < 10
  · have hlt' : n.w1.toNat < (10 : UInt64).toNat := by
      rw [UInt64.lt_iff_toNat_lt] at hlt; exact hlt
    obtain ⟨q0, r0, h0, e0, l0⟩ := div64_spec n.w1 n.w0 10 hlt'
    simp only [hlt, decide_true, ↓reduceIte, h0, ok_bind]
    refine ⟨_, _, rfl, ?_, ?_⟩ <;>
      simp only [U128.toNat, UInt64.reduceToNat, UInt64.toNat_zero] at * <;> omega
  · have hlt' : (0 : UInt64).toNat < (10 : UInt64).toNat := by decide
    obtain ⟨q1, r1, h1, e1, l1⟩ := div64_spec 0 n.w1 10 hlt'
    obtain ⟨q0, r0, h0, e0, l0⟩ := div64_spec r1 n.w0 10 l1
    simp only [hlt, decide_false, Bool.false_eq_true, ↓reduceIte, h1, h0, ok_bind]
    refine ⟨_, _, rfl, ?_, ?_⟩ <;>
      simp only [U128.toNat, UInt64.reduceToNat, UInt64.toNat_zero] at * <;> omega

theorem U128_div10_spec' (n : U128) :
    ⦃⌜True⌝⦄ Gen.U128.div10 n
    ⦃⇓ p => ⌜p.1.toNat = n.toNat / 10 ∧ p.2.toNat = n.toNat % 10⌝⦄ := by
  obtain ⟨q, r, h, hq, hr⟩ := U128_div10_eq' n
  exact triple_of_eq h ⟨hq, hr⟩

theorem U128_div1e19_eq' (n : U128) :
    ∃ q r, Gen.U128.div1e19 n = .ok (q, r) ∧ q.toNat = n.toNat / 10000000000000000000 ∧ r.toNat = n.toNat % 10000000000000000000 := by
  unfold Gen.U128.div1e19
  by_cases hlt : n.w1 < 10000000000000000000
  · have hlt' : n.w1.toNat < (10000000000000000000 : UInt64).toNat := by
      rw [UInt64.lt_iff_toNat_lt] at hlt; exact hlt
    obtain ⟨q0, r0, h0, e0, l0⟩ := div64_spec n.w1 n.w0 10000000000000000000 hlt'
    simp only [hlt, decide_true, ↓reduceIte, h0, ok_bind]
    refine ⟨_, _, rfl, ?_, ?_⟩ <;>
      simp only [U128.toNat, UInt64.reduceToNat, UInt64.toNat_zero] at * <;> omega
  · have hlt' : (0 : UInt64).toNat < (10000000000000000000 : UInt64).toNat := by decide
    obtain ⟨q1, r1, h1, e1, l1⟩ := div64_spec 0 n.w1 10000000000000000000 hlt'
    obtain ⟨q0, r0, h0, e0, l0⟩ := div64_spec r1 n.w0 10000000000000000000 l1
    simp only [hlt, decide_false, Bool.false_eq_true, ↓reduceIte, h1, h0, ok_bind]
    refine ⟨_, _, rfl, ?_, ?_⟩ <;>
      simp only [U128.toNat, UInt64.reduceToNat, UInt64.toNat_zero] at * <;> omega

theorem U128_div1e19_spec' (n : U128) :
    ⦃⌜True⌝⦄ Gen.U128.div1e19 n
    ⦃⇓ p => ⌜p.1.toNat = n.toNat / 10000000000000000000 ∧ p.2.toNat = n.toNat % 10000000000000000000⌝⦄ := by
  obtain ⟨q, r, h, hq, hr⟩ := U128_div1e19_eq' n
  exact triple_of_eq h ⟨hq, hr⟩


/-- `v` is obtained from `n0` by dropping `m` low decimal digits, and no leading digits were lost:
either nothing was dropped or at least two digits remain. -/
def Msd (n0 v : Nat) : Prop := ∃ m, v = n0 / 10^m ∧ (10 ≤ v ∨ m = 0)

theorem Msd.refl (n0 : Nat) : Msd n0 n0 := ⟨0, by simp, Or.inr rfl⟩

theorem Msd.step {n0 v : Nat} (k : Nat) (h : Msd n0 v) (hv : 10^(k+1) ≤ v) :
    Msd n0 (v / 10^k) := by
  obtain ⟨m, hm, _⟩ := h
  refine ⟨m + k, ?_, Or.inl ?_⟩
  · rw [hm, Nat.div_div_eq_div_mul, ← Nat.pow_add]
  · rw [Nat.le_div_iff_mul_le (Nat.pow_pos (by norm_num))]
    calc 10 * 10^k = 10^(k+1) := by rw [Nat.pow_succ, Nat.mul_comm]
      _ ≤ v := hv

theorem conv_u64_i64 (x : UInt64) (h : x.toNat < 2^63) :
    (Go.conv x : Int64).toInt = x.toNat := by
  show (Int64.ofInt (x.toNat : Int)).toInt = _
  exact Int64.toInt_ofInt_of_le (by omega) (by omega)

theorem u64_ne_zero {x : UInt64} (h : ¬ x = 0) : 1 ≤ x.toNat := by
  rcases Nat.eq_zero_or_pos x.toNat with h0 | h0
  · exact absurd (UInt64.toNat_inj.mp (by simpa using h0)) h
  · exact h0

theorem msd_div {n0 y : Nat} (k : Nat) (hk : 0 < k) (hM : Msd n0 y) (hy : 10^(k+1) ≤ y) :
    y / 10^k < y ∧ Msd n0 (y / 10^k) := by
  refine ⟨Nat.div_lt_self ?_ (Nat.one_lt_pow (by omega) (by norm_num)), Msd.step k hM hy⟩
  exact Nat.lt_of_lt_of_le (Nat.pow_pos (by norm_num)) hy

theorem step192 (n0 mb : Nat) (p q : U192) (hdiv : q.toNat = p.toNat / 10000000000000000000)
    (hg : 10 ≤ p.w2) (hinv : mb = p.toNat ∧ Msd n0 p.toNat) :
    q.toNat < mb ∧ Msd n0 q.toNat := by
  rw [UInt64.le_iff_toNat_le] at hg
  have hp : 10^(19+1) ≤ p.toNat := by
    have := p.w0.toNat_lt; have := p.w1.toNat_lt
    simp only [U192.toNat, UInt64.reduceToNat] at *; omega
  have := msd_div 19 (by norm_num) hinv.2 hp
  rw [hdiv, hinv.1]; simpa using this

theorem step128 (n0 mb : Nat) (p q : U128) (hdiv : q.toNat = p.toNat / 10000000000000000000)
    (hg : 10 ≤ p.w1) (hinv : mb = p.toNat ∧ Msd n0 p.toNat) :
    q.toNat < mb ∧ Msd n0 q.toNat := by
  rw [UInt64.le_iff_toNat_le] at hg
  have hp : 10^(19+1) ≤ p.toNat := by
    have := p.w0.toNat_lt
    simp only [U128.toNat, UInt64.reduceToNat] at *; omega
  have := msd_div 19 (by norm_num) hinv.2 hp
  rw [hdiv, hinv.1]; simpa using this

theorem step64a (n0 mb : Nat) (b : UInt64) (hg : 10000 ≤ b)
    (hinv : mb = b.toNat ∧ Msd n0 b.toNat) :
    b.toNat / 1000 < mb ∧ Msd n0 (b.toNat / 1000) := by
  rw [UInt64.le_iff_toNat_le] at hg
  have hp : 10^(3+1) ≤ b.toNat := by simp only [UInt64.reduceToNat] at hg; omega
  have := msd_div 3 (by norm_num) hinv.2 hp
  rw [hinv.1]; simpa using this

theorem step64b (n0 mb : Nat) (b : UInt64) (hg : 100 ≤ b)
    (hinv : mb = b.toNat ∧ Msd n0 b.toNat) :
    b.toNat / 10 < mb ∧ Msd n0 (b.toNat / 10) := by
  rw [UInt64.le_iff_toNat_le] at hg
  have hp : 10^(1+1) ≤ b.toNat := by simp only [UInt64.reduceToNat] at hg; omega
  have := msd_div 1 (by norm_num) hinv.2 hp
  rw [hinv.1]; simpa using this

theorem pre128a (n0 : Nat) (p q : U192) (hM : Msd n0 p.toNat ∧ p.w2.toNat < 10)
    (hdiv : q.toNat = p.toNat / 10) (hnz : ¬ p.w2 = 0) :
    Msd n0 (U128.mk q.w0 q.w1).toNat := by
  have h1 := u64_ne_zero hnz
  have := p.w0.toNat_lt; have := p.w1.toNat_lt
  have := q.w0.toNat_lt; have := q.w1.toNat_lt
  have e : (U128.mk q.w0 q.w1).toNat = p.toNat / 10^1 := by
    simp only [U128.toNat, U192.toNat, Nat.pow_one] at *; omega
  rw [e]
  exact Msd.step 1 hM.1 (by simp only [U192.toNat] at *; omega)

theorem pre128b (n0 : Nat) (p : U192) (hM : Msd n0 p.toNat ∧ p.w2.toNat < 10) (hz : p.w2 = 0) :
    Msd n0 (U128.mk p.w0 p.w1).toNat := by
  have e : (U128.mk p.w0 p.w1).toNat = p.toNat := by
    simp only [U128.toNat, U192.toNat, hz, UInt64.toNat_zero]; omega
  rw [e]; exact hM.1

theorem pre64a (n0 : Nat) (p q : U128) (hM : Msd n0 p.toNat ∧ p.w1.toNat < 10)
    (hdiv : q.toNat = p.toNat / 10) (hnz : ¬ p.w1 = 0) :
    Msd n0 q.w0.toNat := by
  have h1 := u64_ne_zero hnz
  have := p.w0.toNat_lt
  have := q.w0.toNat_lt
  have e : q.w0.toNat = p.toNat / 10^1 := by
    simp only [U128.toNat, Nat.pow_one] at *; omega
  rw [e]
  exact Msd.step 1 hM.1 (by simp only [U128.toNat] at *; omega)

theorem pre64b (n0 : Nat) (p : U128) (hM : Msd n0 p.toNat ∧ p.w1.toNat < 10) (hz : p.w1 = 0) :
    Msd n0 p.w0.toNat := by
  have e : p.w0.toNat = p.toNat := by
    simp only [U128.toNat, hz, UInt64.toNat_zero]; omega
  rw [e]; exact hM.1

theorem U192_msd2_triple (n : U192) :
    ⦃⌜True⌝⦄ Gen.U192.msd2 n
    ⦃⇓ r => ⌜∃ v : Nat, r.toInt = v ∧ v < 100 ∧ Msd n.toNat v⌝⦄ := by
  mvcgen [Gen.U192.msd2, U128_div10_spec', U128_div1e19_spec']
  case inv1 => exact fun st => ⟨st.toNat⟩
  case inv2 => exact ⇓ x => match x with
    | .inl st => ⌜Msd n.toNat st.toNat⌝
    | .inr st => ⌜Msd n.toNat st.toNat ∧ st.w2.toNat < 10⌝
  case inv3 | inv13 => exact fun st => ⟨st.toNat⟩
  case inv4 | inv14 => exact ⇓ x => match x with
    | .inl st => ⌜Msd n.toNat st.toNat⌝
    | .inr st => ⌜Msd n.toNat st.toNat ∧ st.w1.toNat < 10⌝
  case inv5 | inv9 | inv15 | inv19 => exact fun st => ⟨st.toNat⟩
  case inv6 | inv10 | inv16 | inv20 => exact ⇓ x => match x with
    | .inl st => ⌜Msd n.toNat st.toNat⌝
    | .inr st => ⌜Msd n.toNat st.toNat ∧ st.toNat < 10000⌝
  case inv7 | inv11 | inv17 | inv21 => exact fun st => ⟨st.toNat⟩
  case inv8 | inv12 | inv18 | inv22 => exact ⇓ x => match x with
    | .inl st => ⌜Msd n.toNat st.toNat⌝
    | .inr st => ⌜Msd n.toNat st.toNat ∧ st.toNat < 100⌝
  all_goals (simp +zetaDelta at *)
  case vc1 => rename_i hdiv hg hinv; exact step192 _ _ _ _ hdiv.1 hg hinv
  case vc3 => exact Msd.refl _
  case vc4 | vc26 => rename_i hdiv _ hg hinv; exact step128 _ _ _ _ hdiv.1 hg hinv
  case vc7 | vc16 | vc29 | vc38 => rename_i hg hinv; exact step64a _ _ _ hg hinv
  case vc10 | vc19 | vc32 | vc41 => rename_i hg hinv; exact step64b _ _ _ hg hinv
  case vc2 | vc5 | vc8 | vc11 | vc17 | vc20 | vc27 | vc30 | vc33 | vc39 | vc42 =>
    rename_i hg hinv
    rw [UInt64.lt_iff_toNat_lt] at hg
    exact ⟨hinv.2, hg⟩
  case vc6 => rename_i hM _ _ _ hdiv hnz; exact pre128a _ _ _ hM hdiv.1 hnz
  case vc28 => rename_i hM hz; exact pre128b _ _ hM hz
  case vc9 | vc31 => rename_i hM _ _ _ hdiv _ hnz; exact pre64a _ _ _ hM hdiv.1 hnz
  case vc18 | vc40 => rename_i hM _ hz; exact pre64b _ _ hM hz
  case vc12 | vc21 | vc34 | vc43 => rename_i hM _ _; exact hM.1
  case vc13 | vc22 | vc35 | vc44 =>
    rename_i hM _ _
    exact ⟨_, conv_u64_i64 _ (by have := hM.2; omega), hM.2, hM.1⟩

/-- a Hoare triple over `GoM` with trivial precondition yields the result equation
(no panic, termination). -/
theorem ok_of_triple {α : Type} {f : Go.GoM α} {Q : α → Prop}
    (h : ⦃⌜True⌝⦄ f ⦃⇓ r => ⌜Q r⌝⦄) : ∃ r, f = .ok r ∧ Q r := by
  apply Except.of_wp_eq rfl (fun x => ∃ r, x = .ok r ∧ Q r)
  have h' := h
  simp only [Triple] at h'
  refine SPred.entails.trans h' ?_
  apply (wp f).mono
  refine ⟨fun a => ?_, by simp⟩
  simp

/-- what `Msd` with a two-digit bound means: the value itself below 10, else the two leading
decimal digits. -/
theorem Msd.char {n0 v : Nat} (h : Msd n0 v) (hv : v < 100) :
    (n0 < 10 → v = n0) ∧
    (10 ≤ n0 → 10 ≤ v ∧ v = n0 / 10^(Nat.log 10 n0 - 1)) := by
  obtain ⟨m, hm, h10 | hm0⟩ := h
  · have hpos : 0 < 10^m := Nat.pow_pos (by norm_num)
    have h1 : 10 * 10^m ≤ n0 := by
      rw [hm, Nat.le_div_iff_mul_le hpos] at h10; exact h10
    have h2 : n0 < 100 * 10^m := by
      rw [hm, Nat.div_lt_iff_lt_mul hpos] at hv; exact hv
    have hlog : Nat.log 10 n0 = m + 1 := by
      apply Nat.log_eq_of_pow_le_of_lt_pow
      · rw [Nat.pow_succ, Nat.mul_comm]; exact h1
      · have : 10^(m+1+1) = 100 * 10^m := by ring
        rw [this]; exact h2
    refine ⟨fun h => ?_, fun _ => ⟨h10, ?_⟩⟩
    · have : 1 ≤ 10^m := hpos
      omega
    · rw [hlog, Nat.add_sub_cancel]; exact hm
  · subst hm0
    simp only [Nat.pow_zero, Nat.div_one] at hm
    subst hm
    refine ⟨fun _ => rfl, fun h => ⟨h, ?_⟩⟩
    have hlog : Nat.log 10 v = 1 := by
      apply Nat.log_eq_of_pow_le_of_lt_pow <;> norm_num <;> omega
    rw [hlog]; simp

/-- `uint192.msd2` never panics and terminates; for `n < 10` it returns `n` itself (so `0` for
`n = 0`), and for `n ≥ 10` it returns the number (10..99) formed by the two leading decimal digits
of `n`, i.e. `n / 10^(⌊log10 n⌋ - 1)`. -/
theorem U192_msd2_spec (n : U192) :
    ∃ r : Int64, Gen.U192.msd2 n = .ok r ∧ 0 ≤ r.toInt ∧ r.toInt ≤ 99 ∧
      (n.toNat < 10 → r.toInt = n.toNat) ∧
      (10 ≤ n.toNat → 10 ≤ r.toInt ∧
        r.toInt = (n.toNat / 10^(Nat.log 10 n.toNat - 1) : Nat)) := by
  obtain ⟨r, hr, v, hv, hlt, hM⟩ := ok_of_triple (U192_msd2_triple n)
  obtain ⟨c1, c2⟩ := hM.char hlt
  refine ⟨r, hr, by omega, by omega, fun h => by rw [hv, c1 h], fun h => ?_⟩
  obtain ⟨c3, c4⟩ := c2 h
  exact ⟨by omega, by rw [hv, ← c4]⟩

/-- `@[spec]` form of `U192_msd2_spec`. -/
@[spec] theorem U192_msd2_spec_triple (n : U192) :
    ⦃⌜True⌝⦄ Gen.U192.msd2 n
    ⦃⇓ r => ⌜0 ≤ r.toInt ∧ r.toInt ≤ 99 ∧ (n.toNat < 10 → r.toInt = n.toNat) ∧
      (10 ≤ n.toNat → 10 ≤ r.toInt ∧
        r.toInt = (n.toNat / 10^(Nat.log 10 n.toNat - 1) : Nat))⌝⦄ := by
  obtain ⟨r, hr, h⟩ := U192_msd2_spec n
  exact triple_of_eq hr h

end D128.Proofs.WordsWide
