/-
  D128/Proofs/D192RootExact.lean — perfect squares and cubes: the finish stage of `Gen.Sqrt`/`Gen.Cbrt`
  returns the exact root when it is a member of the format (property C17, "perfect squares and cubes give
  exact roots"), for the nearest modes and ANY value of the sticky flag.

  Provided (namespace `Root`):
  * `near_setup`        : the facts about `Q = (N+τ)·10^E` shared with `round_near` (range, finiteness of the
                          rounded value, `flushOrRoundS = roundTo`)
  * `nearest_exact`     : specification level: under the hypotheses of `nearest_rootOk`, if
                          `c·10^e = (c'·10^e')^k` with `c'·10^e'` a member of the format, then
                          `flushOrRoundS m neg (N+τ) E` has exactly the value `c'·10^e'`
                          (nearest member argument + both values are multiples of `10^(s-1)`)
  * `finishK_exact`     : code level (through `reduce192_correct`)
  * `Sqrt_exact_of_core`, `Cbrt_exact_of_core` : corollaries for `Gen.Sqrt`/`Gen.Cbrt` from their cores
  * an `example` on the iterate reaching the finish stage for `Sqrt(4)` (2·10^57+1 with flag 1)

  FINDING (not a theorem; reproduce with `#eval`, see D128/Props/C17.lean): for the directed modes the
  statement is false — `Sqrt(4)` under `DefaultRoundingMode = ToPositiveInf`/`AwayFromZero` returns
  2.000000000000000000000000000000001 because the last iterate is 2·10^57+1 with flag 1.
-/
import D128.Proofs.D192RootFinish
set_option autoImplicit false
set_option maxRecDepth 4096
set_option linter.unusedVariables false
namespace Root
open Gen Spec SpecRound
local notation "𝔳[" d "]" => Spec.interp (Gen.Decimal.lo d) (Gen.Decimal.hi d)

/-- the facts about `Q = (N+τ)·10^E` that follow from the closeness hypotheses -/
theorem near_setup (m : Spec.Mode) (k : Nat) (hk2 : 2 ≤ k)
    (c : Nat) (e : Int) (N a : Nat) (τ : ℚ) (E : Int) (neg : Bool)
    (hc0 : 0 < c) (hc : c ≤ Spec.Cmax) (he0 : Spec.Emin ≤ e) (he1 : e ≤ Spec.Emax)
    (hτ0 : -1 < τ) (hτ1 : τ < 1)
    (hN : (a + 1) * 10 ^ 20 * (Spec.Cmax + 1) < N)
    (hlo : (((N : ℚ) - a) * (10 : ℚ) ^ E) ^ k ≤ (c : ℚ) * (10 : ℚ) ^ e)
    (hhi : (c : ℚ) * (10 : ℚ) ^ e ≤ (((N : ℚ) + a) * (10 : ℚ) ^ E) ^ k) :
    0 < ((N : ℚ) + τ) * (10 : ℚ) ^ E ∧
    (10 : ℚ) ^ (-3101 : Int) ≤ ((N : ℚ) + τ) * (10 : ℚ) ^ E ∧
    ((a : ℚ) + 1) * (10 : ℚ) ^ 20 * ((Spec.Cmax : ℚ) + 1) * (10 : ℚ) ^ E ≤ ((N : ℚ) + τ) * (10 : ℚ) ^ E ∧
    0 ≤ ((N : ℚ) - a) * (10 : ℚ) ^ E ∧ 0 ≤ ((N : ℚ) + a) * (10 : ℚ) ^ E ∧
    Spec.flushOrRoundS m neg ((N : ℚ) + τ) E = Spec.roundTo m neg (((N : ℚ) + τ) * (10 : ℚ) ^ E) ∧
    Spec.pow10 (Spec.Emin - 1) ≤ ((N : ℚ) + τ) * Spec.pow10 E ∧
    ∃ c0 e0, Spec.roundTo m neg (((N : ℚ) + τ) * (10 : ℚ) ^ E) = .fin neg c0 e0 := by
  have hP : (0 : ℚ) < (10 : ℚ) ^ E := zpow_pos (by norm_num) _
  set P : ℚ := (10 : ℚ) ^ E with hPdef
  have hCm1 : (1 : ℚ) ≤ (Spec.Cmax : ℚ) + 1 := by rw [Cmax_cast]; norm_num
  -- N is huge
  have hNq : ((a : ℚ) + 1) * (10 : ℚ) ^ 20 * ((Spec.Cmax : ℚ) + 1) + 1 ≤ (N : ℚ) := by
    have : (a + 1) * 10 ^ 20 * (Spec.Cmax + 1) + 1 ≤ N := hN
    have h : (((a + 1) * 10 ^ 20 * (Spec.Cmax + 1) + 1 : Nat) : ℚ) ≤ (N : ℚ) := by exact_mod_cast this
    push_cast at h; exact h
  have ha0 : (0 : ℚ) ≤ (a : ℚ) := Nat.cast_nonneg _
  have hbig : ((a : ℚ) + 1) * (10 : ℚ) ^ 20 ≤ ((a : ℚ) + 1) * (10 : ℚ) ^ 20 * ((Spec.Cmax : ℚ) + 1) :=
    le_mul_of_one_le_right (by positivity) hCm1
  have hN4 : 4 * (a : ℚ) + 4 ≤ (N : ℚ) := by nlinarith
  set Q : ℚ := ((N : ℚ) + τ) * P with hQdef
  have hylo0 : 0 ≤ ((N : ℚ) - a) * P := mul_nonneg (by linarith) hP.le
  have hyhi0 : 0 ≤ ((N : ℚ) + a) * P := mul_nonneg (by linarith) hP.le
  obtain ⟨hR1, hR2⟩ := near_range k hk2 c e _ _ hc0 hc he0 he1 hylo0 hyhi0 hlo hhi
  have hτP1 : τ * P < P := by nlinarith
  have hτP0 : -P < τ * P := by nlinarith
  have hQ' : Q = (N : ℚ) * P + τ * P := by rw [hQdef]; ring
  have hNP : 0 ≤ (N : ℚ) * P := mul_nonneg (Nat.cast_nonneg _) hP.le
  have haP : 0 ≤ (a : ℚ) * P := mul_nonneg ha0 hP.le
  have hNaP : 4 * ((a : ℚ) * P) + 4 * P ≤ (N : ℚ) * P := by
    have := mul_le_mul_of_nonneg_right hN4 hP.le
    linarith
  have hQyhi : ((N : ℚ) + a) * P ≤ 2 * Q := by rw [hQ']; linarith
  have hQylo : Q ≤ 2 * (((N : ℚ) - a) * P) := by rw [hQ']; linarith
  have hQ0 : 0 < Q := by rw [hQ']; linarith
  have hq0 : 0 < (N : ℚ) + τ := by linarith
  have hQlow : (10 : ℚ) ^ (-3101 : Int) ≤ Q := by
    have h10 : (10 : ℚ) ^ (-3100 : Int) = 10 * (10 : ℚ) ^ (-3101 : Int) := by
      rw [show (-3100 : Int) = 1 + -3101 by norm_num, zpow_add₀ (by norm_num)]; norm_num
    have hp : (0 : ℚ) < (10 : ℚ) ^ (-3101 : Int) := zpow_pos (by norm_num) _
    linarith
  have hQhigh : Q < (10 : ℚ) ^ (3101 : Int) := by
    have h10 : (10 : ℚ) ^ (3101 : Int) = 10 * (10 : ℚ) ^ (3100 : Int) := by
      rw [show (3101 : Int) = 1 + 3100 by norm_num, zpow_add₀ (by norm_num)]; norm_num
    have hp : (0 : ℚ) < (10 : ℚ) ^ (3100 : Int) := zpow_pos (by norm_num) _
    rw [h10]
    generalize (10 : ℚ) ^ (3100 : Int) = B at hR2 hp ⊢
    linarith
  obtain ⟨hlt, hF1, hF2, hfl⟩ := spacing_normal Q hQ0
    (le_trans (zpow_le_zpow_right₀ (by norm_num) (by norm_num)) hQlow)
  -- the specification rounds Q
  have hfr : Spec.flushOrRoundS m neg ((N : ℚ) + τ) E = Spec.roundTo m neg Q := by
    rw [flushOrRoundS_eq m neg _ hq0.le E]
    exact flushOrRound_eq_roundTo m neg
      (le_trans (zpow_le_zpow_right₀ (by norm_num) (by unfold Spec.Emin; norm_num)) hQlow)
  have hfl2 : Spec.pow10 (Spec.Emin - 1) ≤ ((N : ℚ) + τ) * Spec.pow10 E := by
    rw [pow10_eq_zpow, pow10_eq_zpow]
    exact le_trans (zpow_le_zpow_right₀ (by norm_num) (by unfold Spec.Emin; norm_num)) hQlow
  -- the result is finite
  obtain ⟨c0, e0, hfin⟩ : ∃ c0 e0, Spec.roundTo m neg Q = .fin neg c0 e0 := by
    rcases roundTo_member m neg Q hQ0 with hinf | ⟨c0, e0, h, -⟩
    · exfalso
      have h1 := roundTo_inf_gt_max hQ0 hinf
      have h2 : (10 : ℚ) ^ (3101 : Int) ≤ (Spec.Cmax : ℚ) * (10 : ℚ) ^ Spec.Emax := by
        have hC : (10 : ℚ) ^ (34 : Int) ≤ (Spec.Cmax : ℚ) := by
          have := Cmax_lower
          have h : ((10 ^ 34 : Nat) : ℚ) ≤ (Spec.Cmax : ℚ) := by exact_mod_cast this
          rw [zpow_ofNat]; push_cast at h; exact h
        calc (10 : ℚ) ^ (3101 : Int) ≤ (10 : ℚ) ^ ((34 : Int) + Spec.Emax) :=
              zpow_le_zpow_right₀ (by norm_num) (by unfold Spec.Emax; norm_num)
          _ = (10 : ℚ) ^ (34 : Int) * (10 : ℚ) ^ Spec.Emax := zpow_add₀ (by norm_num) _ _
          _ ≤ (Spec.Cmax : ℚ) * (10 : ℚ) ^ Spec.Emax :=
              mul_le_mul_of_nonneg_right hC (zpow_pos (by norm_num) _).le
      exact absurd (lt_trans hQhigh (lt_of_le_of_lt h2 h1)) (lt_irrefl _)
    · exact ⟨c0, e0, h⟩
  have h1 : ((a : ℚ) + 1) * (10 : ℚ) ^ 20 * ((Spec.Cmax : ℚ) + 1) * P ≤ Q := by
    have := mul_le_mul_of_nonneg_right hNq hP.le
    rw [hQ']; linarith
  exact ⟨hQ0, hQlow, h1, hylo0, hyhi0, hfr, hfl2, c0, e0, hfin⟩

/-- **Exact roots.**  Under the hypotheses of `nearest_rootOk`, if `c·10^e` is the k-th power of a member
`c'·10^e'` of the format, then the nearest modes return exactly that member (any flag value: a stray
sticky flag cannot move an iterate that is `a` working units from a representable root). -/
theorem nearest_exact (m : Spec.Mode) (hm : isNearest m = true) (k : Nat) (hk2 : 2 ≤ k)
    (c : Nat) (e : Int) (N a : Nat) (τ : ℚ) (E : Int) (neg : Bool) (c' : Nat) (e' : Int)
    (hc0 : 0 < c) (hc : c ≤ Spec.Cmax) (he0 : Spec.Emin ≤ e) (he1 : e ≤ Spec.Emax)
    (hτ0 : -1 < τ) (hτ1 : τ < 1)
    (hN : (a + 1) * 10 ^ 20 * (Spec.Cmax + 1) < N)
    (hlo : (((N : ℚ) - a) * (10 : ℚ) ^ E) ^ k ≤ (c : ℚ) * (10 : ℚ) ^ e)
    (hhi : (c : ℚ) * (10 : ℚ) ^ e ≤ (((N : ℚ) + a) * (10 : ℚ) ^ E) ^ k)
    (hc' : c' ≤ Spec.Cmax) (he0' : Spec.Emin ≤ e') (he1' : e' ≤ Spec.Emax)
    (hX : (c : ℚ) * (10 : ℚ) ^ e = ((c' : ℚ) * (10 : ℚ) ^ e') ^ k) :
    ∃ c0 e0, Spec.flushOrRoundS m neg ((N : ℚ) + τ) E = .fin neg c0 e0 ∧
      (c0 : ℚ) * (10 : ℚ) ^ e0 = (c' : ℚ) * (10 : ℚ) ^ e' := by
  obtain ⟨hQ0, hQlow, hbig, hylo0, hyhi0, hfr, -, c0, e0, hfin⟩ :=
    near_setup m k hk2 c e N a τ E neg hc0 hc he0 he1 hτ0 hτ1 hN hlo hhi
  have hP : (0 : ℚ) < (10 : ℚ) ^ E := zpow_pos (by norm_num) _
  set P : ℚ := (10 : ℚ) ^ E with hPdef
  set Q : ℚ := ((N : ℚ) + τ) * P with hQdef
  set ρ : ℚ := (c' : ℚ) * (10 : ℚ) ^ e' with hρdef
  have hρ0 : 0 ≤ ρ := mul_nonneg (Nat.cast_nonneg _) (zpow_pos (by norm_num) _).le
  have hk0 : k ≠ 0 := by omega
  rw [hX] at hlo hhi
  have hρlo : ((N : ℚ) - a) * P ≤ ρ := (pow_le_pow_iff_left₀ hylo0 hρ0 hk0).1 hlo
  have hρhi : ρ ≤ ((N : ℚ) + a) * P := (pow_le_pow_iff_left₀ hρ0 hyhi0 hk0).1 hhi
  have hτP1 : τ * P < P := by nlinarith
  have hτP0 : -P < τ * P := by nlinarith
  have hQ' : Q = (N : ℚ) * P + τ * P := by rw [hQdef]; ring
  have e1 : ((N : ℚ) - a) * P = (N : ℚ) * P - a * P := by ring
  have e2 : ((N : ℚ) + a) * P = (N : ℚ) * P + a * P := by ring
  have hρQ : |ρ - Q| ≤ ((a : ℚ) + 1) * P := by
    rw [abs_le]; constructor <;> [skip; skip] <;> nlinarith
  have hmem : Member ρ := ⟨c', e', hc', he0', he1', rfl⟩
  have hnear := roundTo_nearest_member hm hQ0 hfin hmem
  obtain ⟨-, hc0le, -, -, hval, hshape⟩ := roundTo_fin hQ0 hfin
  obtain ⟨hlt, hF1, hF2, hfl⟩ := spacing_normal Q hQ0
    (le_trans (zpow_le_zpow_right₀ (by norm_num) (by norm_num)) hQlow)
  set s := Spec.spacingExp Q with hs
  set S : ℚ := (10 : ℚ) ^ s with hSdef
  have hS : 0 < S := zpow_pos (by norm_num) _
  set r : ℚ := (c0 : ℚ) * (10 : ℚ) ^ e0 with hrdef
  have hCm1 : (1 : ℚ) ≤ (Spec.Cmax : ℚ) + 1 := by rw [Cmax_cast]; norm_num
  -- (a+1)·P·1e20 < S
  have hδ : ((a : ℚ) + 1) * P * (10 : ℚ) ^ 20 ≤ S := by
    have h2 : (((a : ℚ) + 1) * P * (10 : ℚ) ^ 20) * ((Spec.Cmax : ℚ) + 1) ≤ S * ((Spec.Cmax : ℚ) + 1) := by
      have e : (((a : ℚ) + 1) * P * (10 : ℚ) ^ 20) * ((Spec.Cmax : ℚ) + 1)
          = ((a : ℚ) + 1) * (10 : ℚ) ^ 20 * ((Spec.Cmax : ℚ) + 1) * P := by ring
      rw [e]; linarith
    exact le_of_mul_le_mul_right h2 (by linarith)
  have haP : 0 ≤ ((a : ℚ) + 1) * P := mul_nonneg (by positivity) hP.le
  have hδ' : ((a : ℚ) + 1) * P ≤ S / (10 : ℚ) ^ 20 := by
    rw [le_div_iff₀ (by norm_num)]; exact hδ
  -- T = 10^(s-1)
  set T : ℚ := (10 : ℚ) ^ (s - 1) with hTdef
  have hT : 0 < T := zpow_pos (by norm_num) _
  have hST : S = 10 * T := by
    rw [hSdef, hTdef, zpow_sub₀ (by norm_num : (10 : ℚ) ≠ 0), zpow_one]; field_simp
  have hrρ : |r - ρ| < T := by
    have h1 : |r - ρ| ≤ |r - Q| + |ρ - Q| := by
      have : r - ρ = (r - Q) - (ρ - Q) := by ring
      rw [this]; exact abs_sub _ _
    have h2 : |r - ρ| ≤ 2 * (S / (10 : ℚ) ^ 20) := by linarith
    rw [hST] at h2
    have : 2 * (10 * T / (10 : ℚ) ^ 20) < T := by
      rw [show 2 * (10 * T / (10 : ℚ) ^ 20) = T * (20 / (10 : ℚ) ^ 20) by ring]
      exact mul_lt_of_lt_one_right hT (by norm_num)
    linarith
  -- ρ is large, so e' ≥ s - 1
  have hρbig : (2 : ℚ) ^ 110 * T ≤ ρ := by
    obtain ⟨h1, -⟩ := abs_le.1 hρQ
    have : (2 : ℚ) ^ 110 * T ≤ (2 : ℚ) ^ 110 * S - S / (10 : ℚ) ^ 20 := by
      rw [hST]
      have : (0 : ℚ) < T := hT
      nlinarith
    linarith
  have he's : s - 1 ≤ e' := by
    by_contra hcon
    have h1 : (10 : ℚ) ^ e' ≤ (10 : ℚ) ^ (s - 2) := zpow_le_zpow_right₀ (by norm_num) (by omega)
    have h2 : (10 : ℚ) ^ (s - 2) = T / 10 := by
      rw [hTdef, show s - 2 = s - 1 - 1 by ring, zpow_sub₀ (by norm_num : (10 : ℚ) ≠ 0) (s - 1), zpow_one]
    have h3 : (c' : ℚ) < (Spec.Cmax : ℚ) + 1 := by
      have : (c' : ℚ) ≤ (Spec.Cmax : ℚ) := by exact_mod_cast hc'
      linarith
    have h4 : ρ < ((Spec.Cmax : ℚ) + 1) * (T / 10) := by
      rw [hρdef]
      calc (c' : ℚ) * (10 : ℚ) ^ e' ≤ (c' : ℚ) * (T / 10) := by
            rw [← h2]; exact mul_le_mul_of_nonneg_left h1 (Nat.cast_nonneg _)
        _ < ((Spec.Cmax : ℚ) + 1) * (T / 10) := mul_lt_mul_of_pos_right h3 (by positivity)
    rw [Cmax_cast] at h4
    have : (10 : ℚ) * 2 ^ 110 * (T / 10) = (2 : ℚ) ^ 110 * T := by ring
    linarith
  have he0s : s - 1 ≤ e0 := by
    rcases hshape with ⟨h, -⟩ | ⟨h, -⟩ <;> omega
  obtain ⟨n1, hn1⟩ := scaled_nat c0 he0s
  obtain ⟨n2, hn2⟩ := scaled_nat c' he's
  refine ⟨c0, e0, by rw [hfr, hfin], ?_⟩
  show r = ρ
  rw [hrdef, hρdef, hn1, hn2]
  rw [hrdef, hρdef, hn1, hn2, ← hTdef, ← sub_mul, abs_mul, abs_of_pos hT] at hrρ
  have hlt1 : |(n1 : ℚ) - (n2 : ℚ)| < 1 := by
    by_contra hcon
    have := mul_le_mul_of_nonneg_right (not_lt.1 hcon) hT.le
    linarith
  have : n1 = n2 := by
    rw [abs_lt] at hlt1
    by_contra hne
    rcases Nat.lt_or_gt_of_ne hne with h | h
    · have : (n1 : ℚ) + 1 ≤ (n2 : ℚ) := by exact_mod_cast h
      linarith
    · have : (n2 : ℚ) + 1 ≤ (n1 : ℚ) := by exact_mod_cast h
      linarith
  rw [this]

/-- **Exact roots, code level.**  As `finishK_rootOk`; if moreover `c·10^e = (c'·10^e')^k` for a member
`c'·10^e'` of the format then the returned Decimal has exactly that value. -/
theorem finishK_exact (rm : UInt8) (m : Spec.Mode) (neg : Bool) (sig : U192) (exp : Int16)
    (trunc : Int8) (k c : Nat) (e : Int) (a : Nat) (c' : Nat) (e' : Int)
    (hm : Spec.Mode.ofNat? rm.toNat = some m) (hn : isNearest m = true)
    (hk2 : 2 ≤ k)
    (ht : trunc = 0 ∨ trunc = 1 ∨ trunc = -1)
    (hx0 : -20000 ≤ exp.toInt) (hx1 : exp.toInt ≤ 20000)
    (hc0 : 0 < c) (hc : c ≤ Spec.Cmax) (he0 : Spec.Emin ≤ e) (he1 : e ≤ Spec.Emax)
    (hN : (a + 1) * 10 ^ 20 * (Spec.Cmax + 1) < sig.toNat)
    (hlo : (((sig.toNat : ℚ) - a) * (10 : ℚ) ^ (exp.toInt - 6176)) ^ k ≤ (c : ℚ) * (10 : ℚ) ^ e)
    (hhi : (c : ℚ) * (10 : ℚ) ^ e ≤ (((sig.toNat : ℚ) + a) * (10 : ℚ) ^ (exp.toInt - 6176)) ^ k)
    (hc' : c' ≤ Spec.Cmax) (he0' : Spec.Emin ≤ e') (he1' : e' ≤ Spec.Emax)
    (hX : (c : ℚ) * (10 : ℚ) ^ e = ((c' : ℚ) * (10 : ℚ) ^ e') ^ k) :
    ∃ r rc re, finishK rm neg sig exp trunc = .ok r ∧ 𝔳[r] = .fin neg rc re ∧
      (rc : ℚ) * (10 : ℚ) ^ re = (c' : ℚ) * (10 : ℚ) ^ e' := by
  obtain ⟨τ, hrel, hτ0, hτ1, hτm⟩ := exists_tau trunc ht
  obtain ⟨-, -, -, -, -, -, hflush, -⟩ := near_setup m k hk2 c e sig.toNat a τ (exp.toInt - 6176) neg
    hc0 hc he0 he1 hτ0 hτ1 hN hlo hhi
  obtain ⟨c0, e0, hfl, hval⟩ := nearest_exact m hn k hk2 c e sig.toNat a τ (exp.toInt - 6176) neg c' e'
    hc0 hc he0 he1 hτ0 hτ1 hN hlo hhi hc' he0' he1' hX
  have hCm : Spec.Cmax < sig.toNat := by
    have : 1 * 1 * (Spec.Cmax + 1) ≤ (a + 1) * 10 ^ 20 * (Spec.Cmax + 1) :=
      Nat.mul_le_mul_right _ (Nat.mul_le_mul (by omega) (by norm_num))
    omega
  obtain ⟨sig', exp', hred, hpost⟩ := reduce192_correct rm m neg sig exp trunc τ hm hx0 hx1 hrel
    (by have : (1 : ℚ) ≤ (sig.toNat : ℚ) := by exact_mod_cast (by omega : 1 ≤ sig.toNat)
        linarith)
    (fun _ => hCm) (fun h => ⟨hCm, Or.inr (hτm h)⟩) (fun _ => hflush)
  rw [hfl] at hpost
  unfold finishK
  rw [hred]
  have e12 : (exp' > 12287) ↔ exp'.toInt > 12287 := by
    rw [gt_iff_lt, Int16.lt_iff_toInt_lt]; simp
  by_cases hgt : exp'.toInt > 12287
  · rw [if_pos hgt] at hpost; cases hpost
  · rw [if_neg hgt] at hpost
    obtain ⟨hs', he', hsame⟩ := hpost
    refine ⟨compose neg sig' exp', sig'.toNat, exp'.toInt - 6176, ?_, ?_, ?_⟩
    · show (if decide (exp' > 12287) = true then _ else _) = _
      rw [if_neg (by simpa [e12] using hgt)]; rfl
    · exact Sp.interp_compose neg sig' exp' hs' he' (by omega)
    · simp only [Spec.Val.same, Bool.and_eq_true, beq_iff_eq, Spec.mag, pow10_eq_zpow] at hsame
      rw [← hsame.2]; exact hval

/-- **Perfect squares.**  `d = (c'·10^e')²` with `c'·10^e'` a Decimal: under the hypotheses of
`Sqrt_rootOk_of_core` the result of `Gen.Sqrt` is exactly `c'·10^e'`. -/
theorem Sqrt_exact_of_core (g : Globals) (m : Spec.Mode) (d : Decimal) (res : decomposed192)
    (trunc : Int8) (dExp : Int16) (c : Nat) (e : Int) (a : Nat) (c' : Nat) (e' : Int)
    (h1 : Decimal.isSpecial d = false) (h2 : Decimal.IsZero d = false) (h3 : Decimal.Signbit d = false)
    (hv : 𝔳[d] = .fin false c e)
    (hcore : sqrtCore d = .ok (res, trunc, dExp))
    (hm : Spec.Mode.ofNat? g.DefaultRoundingMode.toNat = some m) (hn : isNearest m = true)
    (ht : trunc = 0 ∨ trunc = 1 ∨ trunc = -1)
    (hr0 : -9000 ≤ res.exp.toInt) (hr1 : res.exp.toInt ≤ 9000)
    (hd0 : -9000 ≤ dExp.toInt) (hd1 : dExp.toInt ≤ 9000)
    (hN : (a + 1) * 10 ^ 20 * (Spec.Cmax + 1) < res.sig.toNat)
    (hlo : (((res.sig.toNat : ℚ) - a) * (10 : ℚ) ^ (res.exp.toInt + dExp.toInt.tdiv 2)) ^ 2
      ≤ (c : ℚ) * (10 : ℚ) ^ e)
    (hhi : (c : ℚ) * (10 : ℚ) ^ e
      ≤ (((res.sig.toNat : ℚ) + a) * (10 : ℚ) ^ (res.exp.toInt + dExp.toInt.tdiv 2)) ^ 2)
    (hc' : c' ≤ Spec.Cmax) (he0' : Spec.Emin ≤ e') (he1' : e' ≤ Spec.Emax)
    (hX : (c : ℚ) * (10 : ℚ) ^ e = ((c' : ℚ) * (10 : ℚ) ^ e') ^ 2) :
    ∃ r rc re, Gen.Sqrt g d = .ok r ∧ 𝔳[r] = .fin false rc re ∧
      (rc : ℚ) * (10 : ℚ) ^ re = (c' : ℚ) * (10 : ℚ) ^ e' := by
  rw [Enc.interp_decompose d h1] at hv
  injection hv with _ hcv hev
  have hc0 : 0 < c := by
    have := Sp.IsZero_eq_sig d; rw [h2] at this
    have : (Gen.Decimal.decompose d).1.toNat ≠ 0 := by simpa using this.symm
    omega
  have hc : c ≤ Spec.Cmax := by rw [← hcv]; exact Enc.decompose_sig_le d
  have he0 : Spec.Emin ≤ e := by
    have := Enc.decompose_exp_nonneg d; unfold Spec.Emin; omega
  have he1 : e ≤ Spec.Emax := by
    have := Enc.decompose_exp_le d h1; unfold Spec.Emax; omega
  rw [Sqrt_eq g d h1 h2 h3, hcore]
  show ∃ r rc re, sqrtFinish g res trunc dExp = .ok r ∧ _
  rw [sqrtFinish_eq]
  have hE := sqrt_exp res.exp dExp hr0 hr1 hd0 hd1
  have hb := tdiv2_bounds dExp.toInt
  have hE' : (res.exp + dExp / 2 + 6176).toInt - 6176 = res.exp.toInt + dExp.toInt.tdiv 2 := by omega
  exact finishK_exact _ m false res.sig _ trunc 2 c e a c' e' hm hn (by norm_num) ht
    (by omega) (by omega) hc0 hc he0 he1 hN (by rw [hE']; exact hlo) (by rw [hE']; exact hhi)
    hc' he0' he1' hX

/-- **Perfect cubes.**  `|d| = (c'·10^e')³`: the result of `Gen.Cbrt` is exactly `±c'·10^e'`. -/
theorem Cbrt_exact_of_core (g : Globals) (m : Spec.Mode) (d : Decimal) (res : decomposed192)
    (trunc : Int8) (n : Bool) (c : Nat) (e : Int) (a : Nat) (c' : Nat) (e' : Int)
    (h1 : Decimal.isSpecial d = false) (h2 : Decimal.IsZero d = false)
    (hv : 𝔳[d] = .fin n c e)
    (hcore : cbrtCore d = .ok (res, trunc))
    (hm : Spec.Mode.ofNat? g.DefaultRoundingMode.toNat = some m) (hn : isNearest m = true)
    (ht : trunc = 0 ∨ trunc = 1 ∨ trunc = -1)
    (hr0 : -20000 ≤ res.exp.toInt) (hr1 : res.exp.toInt ≤ 13000)
    (hN : (a + 1) * 10 ^ 20 * (Spec.Cmax + 1) < res.sig.toNat)
    (hlo : (((res.sig.toNat : ℚ) - a) * (10 : ℚ) ^ res.exp.toInt) ^ 3 ≤ (c : ℚ) * (10 : ℚ) ^ e)
    (hhi : (c : ℚ) * (10 : ℚ) ^ e ≤ (((res.sig.toNat : ℚ) + a) * (10 : ℚ) ^ res.exp.toInt) ^ 3)
    (hc' : c' ≤ Spec.Cmax) (he0' : Spec.Emin ≤ e') (he1' : e' ≤ Spec.Emax)
    (hX : (c : ℚ) * (10 : ℚ) ^ e = ((c' : ℚ) * (10 : ℚ) ^ e') ^ 3) :
    ∃ r rc re, Gen.Cbrt g d = .ok r ∧ 𝔳[r] = .fin n rc re ∧
      (rc : ℚ) * (10 : ℚ) ^ re = (c' : ℚ) * (10 : ℚ) ^ e' := by
  rw [Enc.interp_decompose d h1] at hv
  injection hv with hnv hcv hev
  have hc0 : 0 < c := by
    have := Sp.IsZero_eq_sig d; rw [h2] at this
    have : (Gen.Decimal.decompose d).1.toNat ≠ 0 := by simpa using this.symm
    omega
  have hc : c ≤ Spec.Cmax := by rw [← hcv]; exact Enc.decompose_sig_le d
  have he0 : Spec.Emin ≤ e := by
    have := Enc.decompose_exp_nonneg d; unfold Spec.Emin; omega
  have he1 : e ≤ Spec.Emax := by
    have := Enc.decompose_exp_le d h1; unfold Spec.Emax; omega
  rw [Cbrt_eq g d h1 h2, hcore, hnv]
  show ∃ r rc re, cbrtFinish g n res trunc = .ok r ∧ _
  rw [cbrtFinish_eq]
  have hE := cbrt_exp res.exp hr0 (by omega)
  have hE' : (res.exp + 6176).toInt - 6176 = res.exp.toInt := by omega
  exact finishK_exact _ m n res.sig _ trunc 3 c e a c' e' hm hn (by norm_num) ht
    (by omega) (by omega) hc0 hc he0 he1 hN (by rw [hE']; exact hlo) (by rw [hE']; exact hhi)
    hc' he0' he1' hX

/-- `finishK_exact` on the iterate that reaches the finish stage for `Sqrt(4)`
(sig = 2·10^57 + 1, exp = -57, flag 1: the iterate is one working unit ABOVE the exact root 2 and carries a
positive sticky flag; nearest-even still returns exactly 2) -/
example :=
  finishK_exact 0 .nearestEven false ⟨10664523917613334529, 15563198590113658118, 5877471754111437539⟩
    (6176 - 57) 1 2 4 0 1 2 0 rfl rfl (by norm_num) (Or.inr (Or.inl rfl)) (by decide) (by decide)
    (by norm_num) (by unfold Spec.Cmax; norm_num) (by unfold Spec.Emin; norm_num)
    (by unfold Spec.Emax; norm_num)
    (by unfold Spec.Cmax; simp [U192.toNat])
    (by simp [U192.toNat]; norm_num)
    (by simp [U192.toNat]; norm_num)
    (by unfold Spec.Cmax; norm_num) (by unfold Spec.Emin; norm_num) (by unfold Spec.Emax; norm_num)
    (by norm_num)
end Root
