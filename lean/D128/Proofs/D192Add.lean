/-
  D128/Proofs/D192Add.lean — Hoare triples (no panic, termination) for `decomposed192.add`
  (Go: /repo/decomposed.go), ALL inputs.  The 14 loops are handled stage by stage (stages and the
  `rfl` normal form `add_eq` in `D192AddCode.lean`, predicates and VC lemmas in `D192AddMath.lean`).

  * `addTail_triple`      : sum + final normalisation: `Tr (d.sig + o.sig) t d.exp …`
  * `addNegDiv_triple`    : the loops dividing `d.sig` (pre: `exp ≤ 0`, `d.exp = o.exp + exp`)
  * `addNegBranch_triple` : branch `exp < 0`  ⇒ `AddNegPost`
  * `addPosDiv_triple`    : the loops dividing `o.sig` (flag `flagDiv`: `-1` from `div10000`, `+1` from `div10`)
  * `addPosBranch_triple` : branch `exp > 0`  ⇒ `AddPosPost`
  * `add_triple`          : `⦃True⦄ Gen.decomposed192.add d o t ⦃AddPost d o t⦄`
  The result equation `add_spec`, the rational contract `add_contract` and the flag finding
  `add_flag_defect` are in `D192AddContract.lean`.
-/
import D128.Proofs.D192AddMath
import D128.Proofs.D192AddCode
import D128.Proofs.WordsWideMsd2

set_option autoImplicit false
set_option maxRecDepth 4096
set_option exponentiation.threshold 512
open Std.Do D128.Proofs.WordsWide
set_option mvcgen.warning false

namespace D192

theorem addTail_triple (d o : Gen.decomposed192) (t : Int8) (e : Int16) :
    ⦃⌜True⌝⦄ addTail d o t e
    ⦃⇓ x => ⌜Tr (d.sig.toNat + o.sig.toNat) t d.exp x.2 x.1.sig.toNat x.1.exp⌝⦄ := by
  mvcgen [addTail]
  case inv1 | inv3 => exact fun st => ⟨st.2.2.toNat⟩
  case inv2 => exact ⇓ x => match x with
    | .inl st => ⌜Tr (d.sig.toNat + o.sig.toNat) t d.exp st.1 st.2.2.toNat st.2.1⌝
    | .inr st => ⌜Tr (d.sig.toNat + o.sig.toNat) t d.exp st.1 st.2.2.toNat st.2.1⌝
  case inv4 => exact ⇓ x => match x with
    | .inl st => ⌜Tr (d.sig.toNat + o.sig.toNat) t d.exp st.1 st.2.2.toNat st.2.1⌝
    | .inr st => ⌜Tr (d.sig.toNat + o.sig.toNat) t d.exp st.1 st.2.2.toNat st.2.1 ∧ st.2.2.w3 = 0⌝
  all_goals (simp +zetaDelta at *)
  case vc1 => rename_i hdiv hg hinv hnz; exact vc_nz 4 (by norm_num) _ _ _ hdiv (U256.ge_of_w3_1e4 _ hg) hinv hnz
  case vc2 => rename_i hdiv hg hinv hz; exact vc_z 4 (by norm_num) _ _ _ hdiv (U256.ge_of_w3_1e4 _ hg) hinv hz
  case vc3 => rename_i hinv; exact hinv.2
  case vc4 => rw [U192_add_toNat]; exact Tr.refl _ _ _
  case vc5 => rename_i hdiv hg hinv hnz; exact vc_nz 1 (by norm_num) _ _ _ hdiv (U256.ge_of_w3 _ hg) hinv hnz
  case vc6 => rename_i hdiv hg hinv hz; exact vc_z 1 (by norm_num) _ _ _ hdiv (U256.ge_of_w3 _ hg) hinv hz
  case vc7 => rename_i hz hinv; exact ⟨hinv.2, hz⟩
  case vc8 => rename_i h; exact h
  case vc9 => rename_i h; rw [U256.toNat_low3 _ h.2]; exact h.1
theorem addNegDiv_triple (d o : Gen.decomposed192) (t : Int8) (e : Int16) :
    ⦃⌜e.toInt ≤ 0 ∧ d.exp = o.exp + e⌝⦄ addNegDiv d o t e
    ⦃⇓ x => ⌜Tr (d.sig.toNat / 10 ^ negNat e + o.sig.toNat)
      (if d.sig.toNat % 10 ^ negNat e = 0 then t else 1) o.exp x.2 x.1.sig.toNat x.1.exp⌝⦄ := by
  mvcgen [addNegDiv, addTail_triple]
  case inv1 | inv3 => exact fun st => ⟨negNat st.2.2⟩
  case inv2 => exact ⇓ x => match x with
    | .inl st => ⌜DvN d o t e st.1 st.2.1 st.2.2⌝
    | .inr st => ⌜DvN d o t e st.1 st.2.1 st.2.2⌝
  case inv4 => exact ⇓ x => match x with
    | .inl st => ⌜DvN d o t e st.1 st.2.1 st.2.2⌝
    | .inr st => ⌜DvN d o t e st.1 st.2.1 st.2.2 ∧ 0 ≤ st.2.2.toInt⌝
  all_goals (simp +zetaDelta at *)
  case vc1 => rename_i hdiv hg hinv hnz hz; exact dvN_zero 4 (by norm_num) (by norm_num) _ _ _ _ _ _ _ hdiv ((i16_le_lit _ _).mp hg) hinv (by rw [if_neg hnz]) hz
  case vc2 => rename_i hdiv hg hinv hnz hz; exact dvN_step 4 (by norm_num) (by norm_num) _ _ _ _ _ _ _ hdiv ((i16_le_lit _ _).mp hg) hinv (by rw [if_neg hnz])
  case vc3 => rename_i hdiv hg hinv hr hz; exact dvN_zero 4 (by norm_num) (by norm_num) _ _ _ _ _ _ _ hdiv ((i16_le_lit _ _).mp hg) hinv (by rw [if_pos hr]) hz
  case vc4 => rename_i hdiv hg hinv hr hz; exact dvN_step 4 (by norm_num) (by norm_num) _ _ _ _ _ _ _ hdiv ((i16_le_lit _ _).mp hg) hinv (by rw [if_pos hr])
  case vc5 => rename_i hinv; exact hinv.2
  case vc6 => rename_i h; exact dvN_init _ _ _ _ h
  case vc7 => rename_i hdiv hg hinv hnz; exact dvN_step 1 (by norm_num) (by norm_num) _ _ _ _ _ _ _ hdiv (by have := (i16_lt_lit _ _).mp hg; simp at this; omega) hinv (by rw [if_neg hnz])
  case vc8 => rename_i hdiv hg hinv hr; exact dvN_step 1 (by norm_num) (by norm_num) _ _ _ _ _ _ _ hdiv (by have := (i16_lt_lit _ _).mp hg; simp at this; omega) hinv (by rw [if_pos hr])
  case vc9 => rename_i hg hinv; exact ⟨hinv.2, by have := (i16_le_lit _ _).mp hg; simpa using this⟩
  case vc10 => rename_i h; exact h
  case vc11 =>
    rename_i h _
    obtain ⟨h1, h2, h3⟩ := dvN_final h.1 h.2
    rw [h1, h2, h3]; exact id
theorem addNegBranch_triple (d o : Gen.decomposed192) (t : Int8) (e : Int16) :
    ⦃⌜e.toInt < 0 ∧ e = d.exp - o.exp⌝⦄ addNegBranch d o t e
    ⦃⇓ x => ⌜AddNegPost d o t e x.1 x.2⌝⦄ := by
  mvcgen [addNegBranch, addNegDiv_triple]
  case inv1 | inv3 | inv5 => exact fun st => ⟨negNat st.2⟩
  case inv2 | inv4 => exact ⇓ x => match x with
    | .inl st => ⌜ScN o e st.1 st.2⌝
    | .inr st => ⌜ScN o e st.1 st.2⌝
  case inv6 => exact ⇓ x => match x with
    | .inl st => ⌜ScN o e st.1 st.2⌝
    | .inr st => ⌜ScN o e st.1 st.2 ∧ (0 ≤ st.2.toInt ∨ scaleLim ≤ st.1.sig.toNat)⌝
  all_goals (simp +zetaDelta at *)
  case vc1 => rename_i hg hinv; exact scN_step 19 (by norm_num) (by norm_num) _ (by decide) _ _ _ ((i16_le_lit _ _).mp hg.1) (U192.scale19 _ hg.2) hinv
  case vc4 => rename_i hg hinv; exact scN_step 4 (by norm_num) (by norm_num) _ (by decide) _ _ _ ((i16_le_lit _ _).mp hg.1) (U192.scale4 _ hg.2) hinv
  case vc7 => rename_i hg hinv; exact scN_step 1 (by norm_num) (by norm_num) _ (by decide) _ _ _ (by have := (i16_lt_lit _ _).mp hg.1; simp at this; omega) (U192.scale1 _ hg.2) hinv
  case vc2 | vc5 => rename_i hinv; exact hinv.2
  case vc3 => rename_i h; exact scN_init _ _ (by omega)
  case vc6 | vc9 => rename_i h; exact h
  case vc8 => rename_i hg hinv; exact ⟨hinv.2, scaleN_exit _ _ hg⟩
  case vc11 => rename_i hinv _ hg hnz; exact addNeg_postA hinv hg hnz
  case vc13 => rename_i hinv _ hg hz; exact addNeg_postB hinv hz
  case vc14 => rename_i hinv _; exact scN_pre (‹e.toInt < 0 ∧ e = d.exp - o.exp›).2 hinv.1
  case vc15 => rename_i hinv _ _; exact addNeg_post _ _ hinv.1 hinv.2 rfl rfl
theorem addPosDiv_triple (d o : Gen.decomposed192) (t : Int8) (e : Int16) :
    ⦃⌜0 ≤ e.toInt⌝⦄ addPosDiv d o t e
    ⦃⇓ x => ⌜Tr (d.sig.toNat + o.sig.toNat / 10 ^ posNat e)
      (flagDiv (posNat e) o.sig.toNat t) d.exp x.2 x.1.sig.toNat x.1.exp⌝⦄ := by
  mvcgen [addPosDiv, addTail_triple]
  case inv1 | inv3 => exact fun st => ⟨posNat st.2.2⟩
  case inv2 => exact ⇓ x => match x with
    | .inl st => ⌜DvP1 o t e st.1 st.2.1 st.2.2⌝
    | .inr st => ⌜DvP1 o t e st.1 st.2.1 st.2.2 ∧ st.2.2.toInt < 4⌝
  case inv4 => exact ⇓ x => match x with
    | .inl st => ⌜DvP2 o t e st.1 st.2.1 st.2.2⌝
    | .inr st => ⌜DvP2 o t e st.1 st.2.1 st.2.2 ∧ st.2.2.toInt ≤ 0⌝
  all_goals (simp +zetaDelta at *)
  case vc1 => rename_i hdiv hg hinv hnz hz; exact dvP1_zero _ _ _ _ _ _ _ hdiv ((i16_le_lit _ _).mp hg) hinv (by rw [if_neg hnz]) hz
  case vc2 => rename_i hdiv hg hinv hnz hz; exact dvP1_step _ _ _ _ _ _ _ hdiv ((i16_le_lit _ _).mp hg) hinv (by rw [if_neg hnz])
  case vc3 => rename_i hdiv hg hinv hr hz; exact dvP1_zero _ _ _ _ _ _ _ hdiv ((i16_le_lit _ _).mp hg) hinv (by rw [if_pos hr]) hz
  case vc4 => rename_i hdiv hg hinv hr hz; exact dvP1_step _ _ _ _ _ _ _ hdiv ((i16_le_lit _ _).mp hg) hinv (by rw [if_pos hr])
  case vc5 => rename_i hg hinv; exact ⟨hinv.2, by have := (i16_lt_lit _ _).mp hg; simpa using this⟩
  case vc6 => rename_i h; exact dvP1_init _ _ _ h
  case vc7 => rename_i hdiv hg hinv hnz; exact dvP2_step _ _ _ _ _ _ _ hdiv (by have := (i16_lt_lit _ _).mp hg; simpa using this) hinv (by rw [if_neg hnz])
  case vc8 => rename_i hdiv hg hinv hr; exact dvP2_step _ _ _ _ _ _ _ hdiv (by have := (i16_lt_lit _ _).mp hg; simpa using this) hinv (by rw [if_pos hr])
  case vc9 => rename_i hg hinv; exact ⟨hinv.2, by have := (i16_le_lit _ _).mp hg; simpa using this⟩
  case vc10 => rename_i h; exact dvP2_init h.1 h.2
  case vc11 =>
    rename_i h _
    obtain ⟨h1, h2⟩ := dvP2_final h.1 h.2
    rw [h1, h2]; exact id
theorem addPosBranch_triple (d o : Gen.decomposed192) (t : Int8) (e : Int16) :
    ⦃⌜0 < e.toInt⌝⦄ addPosBranch d o t e
    ⦃⇓ x => ⌜AddPosPost d o t e x.1 x.2⌝⦄ := by
  mvcgen [addPosBranch, addPosDiv_triple]
  case inv1 | inv3 | inv5 => exact fun st => ⟨posNat st.2⟩
  case inv2 | inv4 => exact ⇓ x => match x with
    | .inl st => ⌜ScP d e st.1 st.2⌝
    | .inr st => ⌜ScP d e st.1 st.2⌝
  case inv6 => exact ⇓ x => match x with
    | .inl st => ⌜ScP d e st.1 st.2⌝
    | .inr st => ⌜ScP d e st.1 st.2 ∧ (st.2.toInt ≤ 0 ∨ scaleLim ≤ st.1.sig.toNat)⌝
  all_goals (simp +zetaDelta at *)
  case vc1 => rename_i hg hinv; exact scP_step 19 (by norm_num) (by norm_num) _ (by decide) _ _ _ ((i16_le_lit _ _).mp hg.1) (U192.scale19 _ hg.2) hinv
  case vc4 => rename_i hg hinv; exact scP_step 4 (by norm_num) (by norm_num) _ (by decide) _ _ _ ((i16_le_lit _ _).mp hg.1) (U192.scale4 _ hg.2) hinv
  case vc7 => rename_i hg hinv; exact scP_step 1 (by norm_num) (by norm_num) _ (by decide) _ _ _ (by have := (i16_lt_lit _ _).mp hg.1; simp at this; omega) (U192.scale1 _ hg.2) hinv
  case vc2 | vc5 => rename_i hinv; exact hinv.2
  case vc3 => rename_i h; exact scP_init _ _ (by omega)
  case vc6 | vc9 => rename_i h; exact h
  case vc8 => rename_i hg hinv; exact ⟨hinv.2, scaleP_exit _ _ hg⟩
  case vc11 => rename_i hinv _ hg hnz; exact addPos_postA hinv hg hnz
  case vc13 => rename_i hinv _ hg hz; exact addPos_postB hinv hg hz
  case vc14 => rename_i hinv _; exact hinv.1.1
  case vc15 => rename_i hinv _ hg; exact addPos_postC hinv hg

theorem add_triple (d o : Gen.decomposed192) (t : Int8) :
    ⦃⌜True⌝⦄ Gen.decomposed192.add d o t ⦃⇓ x => ⌜AddPost d o t x.1 x.2⌝⦄ := by
  rw [add_eq]
  mvcgen [addNegBranch_triple, addPosBranch_triple, addTail_triple]
  case vc1 => rename_i h; exact i16_dec_lt0 h
  case vc2 => rename_i h _; exact fun hp => Or.inl ⟨i16_dec_lt0 h, hp⟩
  case vc3 => rename_i h; exact i16_dec_gt0 h
  case vc4 => rename_i h _; exact fun hp => Or.inr (Or.inl ⟨i16_dec_gt0 h, hp⟩)
  case vc5 => rename_i h1 h2 _; exact fun hp => Or.inr (Or.inr ⟨i16_dec_eq0 h1 h2, hp⟩)

end D192
