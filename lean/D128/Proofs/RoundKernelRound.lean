/-
  D128/Proofs/RoundKernelRound.lean — correctness of the rounding kernel `Gen.RoundingMode.round`
  (Go: /repo/rounding.go, `func (rm RoundingMode) round`) against `Spec.roundToS`.

  Provided:
  * `RK.adjW_toInt`      : the generated decision table computes `RK.adjZ`
  * `RK.RoundPost`       : the post-condition shared by `round` and the `reduce*` family
  * `round_correct`      : T1 — for every reachable state the kernel returns the member of the format
                           that the rounding mode selects (termination, no panic, value)
  * `RK.round_normal`, `RK.round_110`, `RK.round_exact` : the three reachable regimes (the state's own
                           exponent is the spacing / `sig = 2^110` just below a binade / exact value)
-/
import D128.Proofs.RoundKernelCode
import D128.Proofs.RoundKernelTable

set_option autoImplicit false
set_option maxRecDepth 4096

namespace RK
open Gen Spec

/-! ## the generated decision table computes `adjZ` -/

theorem ofNat?_lt (n : Nat) (m : Spec.Mode) (h : Spec.Mode.ofNat? n = some m) : n < 6 := by
  by_contra hc
  obtain ⟨k, rfl⟩ : ∃ k, n = k + 6 := ⟨n - 6, by omega⟩
  simp [Spec.Mode.ofNat?] at h

theorem adjW_toInt (rm : UInt8) (m : Spec.Mode) (neg : Bool) (w0 : UInt64) (trunc : Int8)
    (digit : UInt64) (hm : Spec.Mode.ofNat? rm.toNat = some m)
    (ht : trunc = -1 ∨ trunc = 0 ∨ trunc = 1) :
    (adjW rm neg w0 trunc digit).toInt
      = adjZ m neg (w0.toNat % 2 == 1) trunc.toInt digit.toNat := by
  have hlt := ofNat?_lt _ _ hm
  have c5 : (decide (digit ≥ 5)) = decide (5 ≤ digit.toNat) :=
    decide_eq_decide.2 (by rw [ge_iff_le, UInt64.le_iff_toNat_le]; rfl)
  have c6 : (decide (digit > 5)) = decide (5 < digit.toNat) :=
    decide_eq_decide.2 (by rw [gt_iff_lt, UInt64.lt_iff_toNat_lt]; rfl)
  have c7 : (digit == 5) = decide (digit.toNat = 5) := by
    rw [Bool.eq_iff_iff, beq_iff_eq, decide_eq_true_eq, ← UInt64.toNat_inj]; rfl
  have c0 : (digit == 0) = decide (digit.toNat = 0) := by
    rw [Bool.eq_iff_iff, beq_iff_eq, decide_eq_true_eq, ← UInt64.toNat_inj]; rfl
  have c0' : (digit != 0) = decide (digit.toNat ≠ 0) := by
    rw [bne, c0]; simp
  have cw : (w0 % 2 != 0) = (w0.toNat % 2 == 1) := by
    rw [Bool.eq_iff_iff, bne_iff_ne, beq_iff_eq, ne_eq, ← UInt64.toNat_inj, UInt64.toNat_mod]
    simp only [UInt64.toNat_ofNat, Nat.reducePow, Nat.reduceMod]
    omega
  have hr := (UInt8.ofNat_toNat (x := rm)).symm
  interval_cases h : rm.toNat
  all_goals
    subst hr
    simp only [Spec.Mode.ofNat?, Option.some.injEq] at hm
    subst hm
    rcases ht with rfl | rfl | rfl
  all_goals
    simp only [adjW, adjZ, c5, c6, c7, c0, c0', cw]
    simp (decide := true) only [if_true, if_false]
    try (cases neg <;> simp only [if_true, if_false, Bool.false_eq_true])
  all_goals (split_ifs <;> first | rfl | (simp_all (decide := true)))

theorem adjW_eq_of (rm : UInt8) (m : Spec.Mode) (neg : Bool) (w0 : UInt64) (trunc : Int8)
    (digit : UInt64) (hm : Spec.Mode.ofNat? rm.toNat = some m)
    (ht : trunc = -1 ∨ trunc = 0 ∨ trunc = 1) (v : Int64)
    (h : adjZ m neg (w0.toNat % 2 == 1) trunc.toInt digit.toNat = v.toInt) :
    adjW rm neg w0 trunc digit = v := by
  apply Int64.toInt_inj.1
  rw [adjW_toInt rm m neg w0 trunc digit hm ht, h]

/-! ## the post-condition -/

/-- what `round`/`reduce*` promise about their result `(sig', exp')` when the specification value
    is `V`: an exponent above the largest one signals `±Inf` (the callers test for it), otherwise the
    result is a canonical pair denoting `V` -/
def RoundPost (V : Val) (neg : Bool) (sig' : U128) (exp' : Int16) : Prop :=
  if exp'.toInt > 12287 then V = .inf neg
  else sig'.toNat ≤ Spec.Cmax ∧ 0 ≤ exp'.toInt ∧
    V.same (.fin neg sig'.toNat (exp'.toInt - 6176)) = true

theorem same_fin_refl (n : Bool) (c : Nat) (e : Int) :
    (Val.fin n c e).same (Val.fin n c e) = true := by
  simp [Val.same]

theorem post_nocarry (neg : Bool) (c : Nat) (e : Int) (sig' : U128) (exp' : Int16)
    (hc : c ≤ Spec.Cmax) (h1 : sig'.toNat = c) (h2 : exp'.toInt - 6176 = e) (h3 : 0 ≤ exp'.toInt) :
    RoundPost (finish neg c e) neg sig' exp' := by
  unfold RoundPost finish
  have hnc : ¬ c > Spec.Cmax := by omega
  rw [if_neg hnc]
  by_cases hx : exp'.toInt > 12287
  · rw [if_pos hx, if_pos (by unfold Spec.Emax; omega)]
  · rw [if_neg hx, if_neg (by unfold Spec.Emax; omega), h1, h2]
    exact ⟨hc, h3, same_fin_refl _ _ _⟩

theorem post_carry (neg : Bool) (c : Nat) (e : Int) (sig' : U128) (exp' : Int16)
    (hc : c = Spec.Cmax + 1) (h1 : sig'.toNat = 2 ^ 110) (h2 : exp'.toInt - 6176 = e + 1)
    (h3 : 0 ≤ exp'.toInt) :
    RoundPost (finish neg c e) neg sig' exp' := by
  unfold RoundPost finish
  have hnc : c > Spec.Cmax := by omega
  rw [if_pos hnc]
  have hdiv : c / 10 = 2 ^ 110 := by rw [hc, Cmax_val]; norm_num
  by_cases hx : exp'.toInt > 12287
  · rw [if_pos hx, if_pos (by unfold Spec.Emax; omega)]
  · rw [if_neg hx, if_neg (by unfold Spec.Emax; omega), h1, h2, hdiv]
    refine ⟨by rw [Cmax_val]; norm_num, h3, same_fin_refl _ _ _⟩

/-! ## the three reachable regimes -/

theorem trunc_cases (trunc : Int8) (τ : ℚ) (ht : TruncRel trunc.toInt τ) :
    trunc = -1 ∨ trunc = 0 ∨ trunc = 1 := by
  rcases ht with ⟨h, _⟩ | ⟨h, _⟩ | ⟨h, _⟩
  · right; left; exact Int8.toInt_inj.1 (h.trans (by rfl))
  · right; right; exact Int8.toInt_inj.1 (h.trans (by rfl))
  · left; exact Int8.toInt_inj.1 (h.trans (by rfl))

theorem tau_bounds (t : Int) (τ : ℚ) (ht : TruncRel t τ) : -1 < τ ∧ τ < 1 := by
  rcases ht with ⟨_, h⟩ | ⟨_, h1, h2⟩ | ⟨_, h1, h2⟩
  · subst h; constructor <;> norm_num
  · constructor <;> linarith
  · constructor <;> linarith

theorem parity_w0 (sig : U128) : (sig.w0.toNat % 2 == 1) = (sig.toNat % 2 == 1) := by
  have : sig.toNat % 2 = sig.w0.toNat % 2 := by
    simp only [U128.toNat]; omega
  rw [this]

/-- the spacing of a kernel state at the minimum exponent, or with a full significand whose value
    has not dropped below `2^110`, is the state's own exponent -/
theorem roundToS_normal (m : Mode) (neg : Bool) (q : ℚ) (k : Int) (hk : Emin ≤ k)
    (hq0 : 0 < q) (hq1 : q < 10 * 2 ^ 110) (h : k = Emin ∨ 2 ^ 110 ≤ q) :
    roundToS m neg q k = finish neg (rndQ m neg q) k := by
  have key : ∃ r, IsSpacing q r ∧ (if r + k < Emin then Emin else r + k) = k := by
    rcases h with h | h
    · refine ⟨spacingExpRaw q, spacingExpRaw_spec q hq0, ?_⟩
      have hr : spacingExpRaw q ≤ 0 := by
        by_contra hc
        have h1 : Spec.pow10 1 ≤ Spec.pow10 (spacingExpRaw q) := (pow10_le_iff _ _).2 (by omega)
        rw [pow10_one] at h1
        have := (spacingExpRaw_spec q hq0).1
        nlinarith
      split <;> omega
    · refine ⟨0, ⟨by rw [pow10_zero]; linarith, by rw [pow10_zero]; linarith⟩, ?_⟩
      split <;> omega
  obtain ⟨r, hr, he⟩ := key
  rw [roundToS_eq m neg q k r hr, he, sub_self, pow10_zero, div_one]

/-- T1, regime "the spacing is the state's own exponent" -/
theorem round_normal (rm : UInt8) (m : Mode) (neg : Bool) (sig : U128) (exp : Int16) (trunc : Int8)
    (digit : UInt64) (τ : ℚ) (hm : Spec.Mode.ofNat? rm.toNat = some m)
    (hs : sig.toNat ≤ Spec.Cmax) (he0 : 0 ≤ exp.toInt) (he1 : exp.toInt ≤ 32766)
    (hd : digit.toNat ≤ 9) (ht : TruncRel trunc.toInt τ)
    (hq : 0 < (sig.toNat : ℚ) + ((digit.toNat : ℚ) + τ) / 10)
    (hN : exp.toInt = 0 ∨ (2 ^ 110 ≤ sig.toNat ∧
      ¬ (sig.toNat = 2 ^ 110 ∧ digit.toNat = 0 ∧ τ < 0))) :
    ∃ sig' exp', RoundingMode.round rm true neg sig exp trunc digit = .ok (sig', exp') ∧
      RoundPost (roundToS m neg ((sig.toNat : ℚ) + ((digit.toNat : ℚ) + τ) / 10)
        (exp.toInt - 6176)) neg sig' exp' := by
  have htc := trunc_cases trunc τ ht
  obtain ⟨hτ1, hτ2⟩ := tau_bounds _ _ ht
  have hCm := Cmax_val
  set s := sig.toNat with hsdef
  set d := digit.toNat with hddef
  set q : ℚ := (s : ℚ) + ((d : ℚ) + τ) / 10 with hqdef
  have hd9 : (d : ℚ) ≤ 9 := by exact_mod_cast hd
  have hd0 : (0 : ℚ) ≤ (d : ℚ) := by positivity
  have hsC : (s : ℚ) + 1 ≤ 10 * 2 ^ 110 := by
    rw [← Cmax_cast]; have : (s : ℚ) ≤ (Spec.Cmax : ℚ) := by exact_mod_cast hs
    linarith
  have hq1 : q < 10 * 2 ^ 110 := by
    have : ((d : ℚ) + τ) / 10 < 1 := by rw [div_lt_one (by norm_num)]; linarith
    linarith
  -- specification side
  have hspec : roundToS m neg q (exp.toInt - 6176) = finish neg (rndQ m neg q) (exp.toInt - 6176) := by
    apply roundToS_normal m neg q _ (by unfold Spec.Emin; omega) hq hq1
    rcases hN with h | ⟨h1, h2⟩
    · left; unfold Spec.Emin; omega
    · right
      have hs110 : (2 ^ 110 : ℚ) ≤ (s : ℚ) := by exact_mod_cast h1
      by_cases hA : d = 0 ∧ τ < 0
      · have hne : s ≠ 2 ^ 110 := fun h => h2 ⟨h, hA.1, hA.2⟩
        have : 2 ^ 110 + 1 ≤ s := by omega
        have : (2 ^ 110 : ℚ) + 1 ≤ (s : ℚ) := by exact_mod_cast this
        have : -1 < ((d : ℚ) + τ) / 10 := by
          rw [lt_div_iff₀ (by norm_num)]; linarith
        linarith
      · have : 0 ≤ ((d : ℚ) + τ) / 10 := by
          by_cases hd' : d = 0
          · have : 0 ≤ τ := not_lt.1 (fun h => hA ⟨hd', h⟩)
            rw [hd']; simp only [Nat.cast_zero, zero_add]; positivity
          · have : (1 : ℚ) ≤ (d : ℚ) := by exact_mod_cast (by omega : 1 ≤ d)
            have : 0 ≤ (d : ℚ) + τ := by linarith
            positivity
        linarith
  rw [hspec]
  have hc := rndQ_kernel m neg s d trunc.toInt τ hd ht hq
  rw [← parity_w0] at hc
  -- code side
  rcases adjZ_range m neg (sig.w0.toNat % 2 == 1) trunc.toInt d with ha | ha | ha
  · -- no adjustment
    rw [ha, add_zero] at hc
    have hc' : rndQ m neg q = s := by exact_mod_cast hc
    refine ⟨sig, exp, round_adj0 _ _ _ _ _ _ _ (adjW_eq_of rm m neg _ _ _ hm htc 0 (by rw [ha]; rfl)), ?_⟩
    rw [hc']
    exact post_nocarry neg s _ sig exp hs rfl rfl he0
  · -- one unit up
    have hW := adjW_eq_of rm m neg sig.w0 trunc digit hm htc 1 (by rw [ha]; rfl)
    rw [ha] at hc
    have hc' : rndQ m neg q = s + 1 := by exact_mod_cast hc
    have hnp : (true = true) → exp.toInt ≤ 0 ∨ 2 ^ 110 ≤ sig.toNat := by
      intro _
      rcases hN with h | h
      · left; omega
      · right; exact h.1
    by_cases hcarry : s = Spec.Cmax
    · -- carry out of the largest significand
      have h2 : ∀ w0, adjW rm neg w0 (if (digit != 0) = true then 1 else trunc) 9 = 1 := by
        intro w0
        have htr : (if (digit != 0) = true then (1 : Int8) else trunc) = 1 := by
          by_cases hz : digit = 0
          · have hd0' : d = 0 := by rw [hddef, hz]; rfl
            rw [hd0'] at ha
            have := adjZ_up_trunc m neg _ _ ha
            have : trunc = 1 := Int8.toInt_inj.1 (this.trans (by rfl))
            simp [hz, this]
          · simp [hz]
        rw [htr]
        apply adjW_eq_of rm m neg w0 1 9 hm (by simp) 1
        exact adjZ_up_again m neg _ _ _ _ ha
      obtain ⟨sig', e, hs'⟩ := round_up_carry rm true neg sig exp trunc digit hW he0 he1 h2
        (by rw [← hsdef, hcarry, hCm])
      refine ⟨sig', exp + 1, e, ?_⟩
      rw [hc']
      have hx : (exp + 1).toInt = exp.toInt + 1 := by
        rw [Int16.toInt_add_of] <;> simp <;> omega
      exact post_carry neg _ _ sig' (exp + 1) (by rw [hcarry]) hs' (by rw [hx]; ring) (by omega)
    · have hlt : s + 1 < 12980742146337069071326240823050240 := by omega
      refine ⟨_, exp, round_up rm true neg sig exp trunc digit hW he0 hnp hlt, ?_⟩
      rw [hc']
      refine post_nocarry neg _ _ _ exp (by omega) ?_ rfl he0
      rw [U128_add64_toNat_of_lt] <;> simp <;> omega
  · -- one unit down
    have hW := adjW_eq_of rm m neg sig.w0 trunc digit hm htc (-1) (by rw [ha]; rfl)
    obtain ⟨ht1, hd0'⟩ := adjZ_neg_one _ _ _ _ _ ha
    have hτn : τ < 0 := by
      rcases ht with ⟨h, _⟩ | ⟨h, _⟩ | ⟨_, _, h⟩
      · omega
      · omega
      · exact h
    have hs1 : 1 ≤ s := by
      by_contra hc0
      have : s = 0 := by omega
      rw [hqdef, this, hd0'] at hq
      simp only [Nat.cast_zero, zero_add] at hq
      linarith
    rw [ha] at hc
    have hc' : rndQ m neg q = s - 1 := by
      have : ((rndQ m neg q : Nat) : Int) = ((s - 1 : Nat) : Int) := by
        rw [hc]; omega
      exact_mod_cast this
    have hnp : (true = true) → exp.toInt ≤ 0 ∨ (2 ^ 110 ≤ sig.toNat ∧ sig.toNat ≠ 2 ^ 110) := by
      intro _
      rcases hN with h | h
      · left; omega
      · right; exact ⟨h.1, fun h' => h.2 ⟨h', hd0', hτn⟩⟩
    refine ⟨_, exp, round_down rm true neg sig exp trunc digit hW he0 hnp hs1 (by omega), ?_⟩
    rw [hc']
    refine post_nocarry neg _ _ _ exp (by omega) ?_ rfl he0
    rw [U128_sub64_toNat_of_le] <;> simp <;> omega

/-- T1, regime `sig = 2^110`, guard digit 0, negative sticky, above the minimum exponent: the value
    lies in the binade below, whose spacing is ten times finer -/
theorem round_110 (rm : UInt8) (m : Mode) (neg : Bool) (sig : U128) (exp : Int16) (trunc : Int8)
    (digit : UInt64) (τ : ℚ) (hm : Spec.Mode.ofNat? rm.toNat = some m)
    (hs : sig.toNat = 2 ^ 110) (he0 : 0 < exp.toInt) (he1 : exp.toInt ≤ 32766)
    (hd : digit.toNat = 0) (ht : TruncRel trunc.toInt τ) (hτ : τ < 0)
    (hhalf : (m = .nearestEven ∨ m = .nearestAway) → -1 / 2 ≤ τ) :
    ∃ sig' exp', RoundingMode.round rm true neg sig exp trunc digit = .ok (sig', exp') ∧
      RoundPost (roundToS m neg ((sig.toNat : ℚ) + ((digit.toNat : ℚ) + τ) / 10)
        (exp.toInt - 6176)) neg sig' exp' := by
  have htc := trunc_cases trunc τ ht
  obtain ⟨hτ1, hτ2⟩ := tau_bounds _ _ ht
  have ht1 : trunc.toInt = -1 := by
    rcases ht with ⟨_, h⟩ | ⟨_, h, _⟩ | ⟨h, _⟩
    · subst h; exact absurd hτ (lt_irrefl _)
    · linarith
    · exact h
  have hCm := Cmax_val
  rw [hs, hd]
  set q : ℚ := ((2 ^ 110 : Nat) : ℚ) + (((0 : Nat) : ℚ) + τ) / 10 with hqdef
  have hqv : q = 2 ^ 110 + τ / 10 := by rw [hqdef]; push_cast; ring
  have hsp : IsSpacing q (-1) := by
    rw [IsSpacing, pow10_neg_one, hqv]
    constructor
    · have : (2 : ℚ) ^ 110 ≥ 1 := by norm_num
      linarith
    · linarith
  have he : (if -1 + (exp.toInt - 6176) < Emin then Emin else -1 + (exp.toInt - 6176))
      = -1 + (exp.toInt - 6176) := by
    rw [if_neg (by unfold Spec.Emin; omega)]
  have hx : q / Spec.pow10 (-1 + (exp.toInt - 6176) - (exp.toInt - 6176))
      = (Spec.Cmax : ℚ) + (1 + τ) := by
    have : -1 + (exp.toInt - 6176) - (exp.toInt - 6176) = -1 := by ring
    rw [this, pow10_neg_one, hqv]
    have := Cmax_cast
    field_simp
    linarith
  rw [roundToS_eq m neg q _ (-1) hsp, he, hx,
    rndQ_110 m neg (sig.w0.toNat % 2 == 1) τ hτ1 hτ hhalf]
  rcases adjZ_range m neg (sig.w0.toNat % 2 == 1) (-1) 0 with ha | ha | ha
  · rw [if_pos ha]
    have hW := adjW_eq_of rm m neg sig.w0 trunc digit hm htc 0 (by rw [ht1, hd, ha]; rfl)
    refine ⟨sig, exp, round_adj0 _ _ _ _ _ _ _ hW, ?_⟩
    exact post_carry neg _ _ sig exp rfl hs (by ring) (by omega)
  · exact absurd (adjZ_up_trunc m neg _ _ ha) (by decide)
  · rw [if_neg (by rw [ha]; decide)]
    have hW := adjW_eq_of rm m neg sig.w0 trunc digit hm htc (-1) (by rw [ht1, hd, ha]; rfl)
    obtain ⟨sig', e, hs'⟩ := round_down_110 rm neg sig exp trunc digit hW he0 hs
    have hxp : (exp - 1).toInt = exp.toInt - 1 := by
      rw [Int16.toInt_sub_of] <;> simp <;> omega
    refine ⟨sig', exp - 1, e, ?_⟩
    exact post_nocarry neg _ _ sig' (exp - 1) (le_refl _) (by rw [hs', hCm]) (by rw [hxp]; ring)
      (by omega)

/-- T1, regime "exact value" (guard digit 0, no sticky) at a representable exponent -/
theorem round_exact (rm : UInt8) (m : Mode) (neg : Bool) (sig : U128) (exp : Int16) (trunc : Int8)
    (digit : UInt64) (hm : Spec.Mode.ofNat? rm.toNat = some m)
    (hs : sig.toNat ≤ Spec.Cmax) (hs1 : 1 ≤ sig.toNat) (he0 : 0 ≤ exp.toInt)
    (he1 : exp.toInt ≤ 12287) (hd : digit.toNat = 0) (ht : trunc = 0) :
    ∃ sig' exp', RoundingMode.round rm true neg sig exp trunc digit = .ok (sig', exp') ∧
      RoundPost (roundToS m neg (sig.toNat : ℚ) (exp.toInt - 6176)) neg sig' exp' := by
  have hCm := Cmax_val
  set s := sig.toNat with hsdef
  set k : Int := exp.toInt - 6176 with hk
  have hq0 : (0 : ℚ) < (s : ℚ) := by exact_mod_cast hs1
  have hq1 : (s : ℚ) < 10 * 2 ^ 110 := by
    rw [← Cmax_cast]; have : (s : ℚ) ≤ (Spec.Cmax : ℚ) := by exact_mod_cast hs
    linarith
  -- code side: no adjustment
  have ha : adjZ m neg (sig.w0.toNat % 2 == 1) (0 : Int8).toInt 0 = 0 := by
    cases m <;> cases neg <;> simp [adjZ]
  have hW := adjW_eq_of rm m neg sig.w0 trunc digit hm (by simp [ht]) 0 (by rw [ht, hd, ha]; rfl)
  refine ⟨sig, exp, round_adj0 _ _ _ _ _ _ _ hW, ?_⟩
  -- specification side
  have hsp := spacingExpRaw_spec (s : ℚ) hq0
  set r := spacingExpRaw (s : ℚ) with hr
  have hr0 : r ≤ 0 := by
    by_contra hc
    have h1 : Spec.pow10 1 ≤ Spec.pow10 r := (pow10_le_iff _ _).2 (by omega)
    rw [pow10_one] at h1
    have := hsp.1
    nlinarith
  rw [roundToS_eq m neg (s : ℚ) k r hsp]
  set e : Int := (if r + k < Emin then Emin else r + k) with he
  have hej : r ≤ e - k ∧ e - k ≤ 0 := by
    rw [he]; unfold Spec.Emin; split <;> omega
  obtain ⟨n, hn⟩ : ∃ n : Nat, e - k = -(n : Int) := ⟨(-(e - k)).toNat, by omega⟩
  have hp : Spec.pow10 (e - k) = ((10 : ℚ) ^ n)⁻¹ := by
    rw [hn, pow10_neg, pow10_natCast]
  have hx : (s : ℚ) / Spec.pow10 (e - k) = ((s * 10 ^ n : Nat) : ℚ) := by
    rw [hp]; push_cast; field_simp
  have hNle : s * 10 ^ n ≤ Spec.Cmax := by
    have h1 : Spec.pow10 r ≤ Spec.pow10 (e - k) := (pow10_le_iff _ _).2 hej.1
    have h2 : ((s * 10 ^ n : Nat) : ℚ) < 10 * 2 ^ 110 := by
      rw [← hx, div_lt_iff₀ (pow10_pos _)]
      calc (s : ℚ) < 10 * 2 ^ 110 * Spec.pow10 r := hsp.2
        _ ≤ 10 * 2 ^ 110 * Spec.pow10 (e - k) := by
            apply mul_le_mul_of_nonneg_left h1; positivity
    rw [← Cmax_cast] at h2
    have : ((s * 10 ^ n : Nat) : ℚ) < ((Spec.Cmax + 1 : Nat) : ℚ) := by
      rw [Nat.cast_add, Nat.cast_one]; exact h2
    have : s * 10 ^ n < Spec.Cmax + 1 := by exact_mod_cast this
    omega
  rw [hx, rndQ_exact]
  unfold RoundPost finish
  rw [if_neg (by omega), if_neg (by omega), if_neg (by unfold Spec.Emax; omega)]
  refine ⟨hs, he0, ?_⟩
  simp only [Val.same, beq_self_eq_true, Bool.true_and, beq_iff_eq, Spec.mag]
  have hek : e = k + -(n : Int) := by omega
  rw [hek, pow10_add, pow10_neg, pow10_natCast]
  push_cast
  field_simp
  rfl


end RK

open RK in
/-- **T1.**  `Gen.RoundingMode.round` (with `shift = true`) terminates without panic and returns the
member of the format that mode `m` selects for the exact magnitude
`q · 10^(exp-6176)`, `q = sig + (digit + τ)/10`, where `τ` is what the sticky flag `trunc` stands for
(`RK.TruncRel`: `τ = 0`, `0 < τ < 1`, `-1 < τ < 0` for `trunc = 0, 1, -1`).

Hypotheses beyond the ranges of the variables:
* `hreach` — the states the callers produce: full significand, or minimum exponent, or exact value;
* `hrange` — an exact short significand comes with a representable exponent (`reduce*` establish it
  by their rescaling loop).  Without it the statement is false: `round 0 true false 1 12300 0 0`
  returns `(1, 12300)` although `1·10^6124 = 10^34·10^6090` is finite;
* `hhalf`  — in the single state `sig = 2^110`, `digit = 0`, `trunc = -1`, `exp > 0` and only for the two
  nearest modes the sticky must not stand for more than half a unit of the guard digit (the value is
  `2^110 - |τ|/10`, in the binade below, where the spacing is `1/10`; the code keeps `2^110`, which is
  the nearest member iff `|τ| ≤ 1/2`).  All callers drop at least two digits when they pass
  `trunc = -1`, so that `|τ| < 1/10`.  Without it the statement is false:
  `round 0 true false 2^110 100 (-1) 0 = (2^110, 100)` but
  `roundToS nearestEven (2^110 - 9/100) (-6076) = fin Cmax (-6077)`.

When the returned exponent exceeds 12287 the specification value is `±Inf` (the callers test for
exactly this); otherwise the pair is canonical and denotes the specification value. -/
theorem round_correct (rm : UInt8) (m : Spec.Mode) (neg : Bool) (sig : U128) (exp : Int16)
    (trunc : Int8) (digit : UInt64) (τ : ℚ)
    (hm : Spec.Mode.ofNat? rm.toNat = some m)
    (hs : sig.toNat ≤ Spec.Cmax) (he0 : 0 ≤ exp.toInt) (he1 : exp.toInt ≤ 32766)
    (hd : digit.toNat ≤ 9) (ht : RK.TruncRel trunc.toInt τ)
    (hq : 0 < (sig.toNat : ℚ) + ((digit.toNat : ℚ) + τ) / 10)
    (hreach : 2 ^ 110 ≤ sig.toNat ∨ exp.toInt = 0 ∨ (digit.toNat = 0 ∧ trunc = 0))
    (hrange : exp.toInt ≤ 12287 ∨ 2 ^ 110 ≤ sig.toNat)
    (hhalf : sig.toNat = 2 ^ 110 → digit.toNat = 0 → trunc = -1 → 0 < exp.toInt →
      (m = .nearestEven ∨ m = .nearestAway) → -1 / 2 ≤ τ) :
    ∃ sig' exp', Gen.RoundingMode.round rm true neg sig exp trunc digit = .ok (sig', exp') ∧
      (if exp'.toInt > 12287 then
         Spec.roundToS m neg ((sig.toNat : ℚ) + ((digit.toNat : ℚ) + τ) / 10) (exp.toInt - 6176)
           = .inf neg
       else sig'.toNat ≤ Spec.Cmax ∧ 0 ≤ exp'.toInt ∧
         (Spec.roundToS m neg ((sig.toNat : ℚ) + ((digit.toNat : ℚ) + τ) / 10)
           (exp.toInt - 6176)).same (.fin neg sig'.toNat (exp'.toInt - 6176)) = true) := by
  show ∃ sig' exp', _ ∧ RoundPost _ neg sig' exp'
  -- the state `2^110`, digit 0, negative sticky, above the minimum exponent
  by_cases hS : sig.toNat = 2 ^ 110 ∧ digit.toNat = 0 ∧ τ < 0 ∧ 0 < exp.toInt
  · obtain ⟨h1, h2, h3, h4⟩ := hS
    have ht1 : trunc = -1 := by
      rcases ht with ⟨_, h⟩ | ⟨_, h, _⟩ | ⟨h, _⟩
      · subst h; exact absurd h3 (lt_irrefl _)
      · linarith
      · exact Int8.toInt_inj.1 (h.trans (by rfl))
    exact round_110 rm m neg sig exp trunc digit τ hm h1 h4 he1 h2 ht h3
      (hhalf h1 h2 ht1 h4)
  · have full : 2 ^ 110 ≤ sig.toNat →
        ∃ sig' exp', Gen.RoundingMode.round rm true neg sig exp trunc digit = .ok (sig', exp') ∧
          RoundPost (Spec.roundToS m neg ((sig.toNat : ℚ) + ((digit.toNat : ℚ) + τ) / 10)
            (exp.toInt - 6176)) neg sig' exp' := by
      intro hfull
      by_cases hz : exp.toInt = 0
      · exact round_normal rm m neg sig exp trunc digit τ hm hs he0 he1 hd ht hq (Or.inl hz)
      · refine round_normal rm m neg sig exp trunc digit τ hm hs he0 he1 hd ht hq
          (Or.inr ⟨hfull, ?_⟩)
        rintro ⟨h1, h2, h3⟩
        exact hS ⟨h1, h2, h3, by omega⟩
    rcases hreach with h | h | ⟨h1, h2⟩
    · exact full h
    · exact round_normal rm m neg sig exp trunc digit τ hm hs he0 he1 hd ht hq (Or.inl h)
    · rcases hrange with hr | hr
      · have hτ0 : τ = 0 := by
          rcases ht with ⟨_, h⟩ | ⟨h, _⟩ | ⟨h, _⟩
          · exact h
          · rw [h2] at h; exact absurd h (by decide)
          · rw [h2] at h; exact absurd h (by decide)
        subst hτ0
        have hqs : (sig.toNat : ℚ) + ((digit.toNat : ℚ) + 0) / 10 = (sig.toNat : ℚ) := by
          rw [h1]; simp
        rw [hqs] at hq ⊢
        have hs1 : 1 ≤ sig.toNat := by
          have : (0 : ℚ) < (sig.toNat : ℚ) := hq
          exact_mod_cast this
        exact round_exact rm m neg sig exp trunc digit hm hs hs1 he0 hr h1 h2
      · exact full hr

/-- the hypotheses of `round_correct` are satisfiable: `2^110 + 0.55` at exponent 0, to nearest even -/
example :=
  round_correct 0 .nearestEven false ⟨0, 70368744177664⟩ 6176 1 5 (1 / 2) rfl
    (by rw [RK.Cmax_val]; decide) (by decide) (by decide) (by decide)
    (Or.inr (Or.inl ⟨by decide, by norm_num, by norm_num⟩))
    (by simp only [U128.toNat, UInt64.toNat_ofNat]; norm_num)
    (Or.inl (by decide)) (Or.inl (by decide))
    (fun _ _ h => absurd h (by decide))

/-- … and in the state singled out by `hhalf`: `2^110 - 0.01` under `ToNearestEven` -/
example :=
  round_correct 0 .nearestEven false ⟨0, 70368744177664⟩ 6176 (-1) 0 (-1 / 10) rfl
    (by rw [RK.Cmax_val]; decide) (by decide) (by decide) (by decide)
    (Or.inr (Or.inr ⟨by decide, by norm_num, by norm_num⟩))
    (by simp only [U128.toNat, UInt64.toNat_ofNat]; norm_num)
    (Or.inl (by decide)) (Or.inl (by decide))
    (fun _ _ _ _ _ => by norm_num)
