/-
  Soundness of the rational enclosure oracle `Spec.Encl`, part 3: the exponential on a bounded range.

  1. `exp_fold x N`   : the `foldl` of `expTiny` computes (Σ_{i<N} x^i/i!, x^N/N!)
     `expm1_fold x N` : the `foldl` of `expm1Tiny` computes (Σ_{1≤i≤N} x^i/i!, x^(N+1)/(N+1)!)
     `expTiny_eq`, `expm1Tiny_eq` : closed forms
  2. `real_exp_taylor_bound` : |x| ≤ (n+1)/2 → |exp x − Σ_{m<n} x^m/m!| ≤ 2·|x|^n/n!   (x real)
  3. `expTiny_sound x (|x| ≤ 41/2)`   : `Real.exp x ∈ᵢ expTiny x`
     `expm1Tiny_sound x (|x| ≤ 41/2)` : `Real.exp x − 1 ∈ᵢ expm1Tiny x`
  4. `expSmall_sound x (|x| ≤ 20992)` : `Real.exp x ∈ᵢ expSmall x`
     `expSmallI_sound a y` : y ∈ᵢ a, |a.lo| ≤ 20992, |a.hi| ≤ 20992 → `Real.exp y ∈ᵢ expSmallI a`
-/
import D128.Proofs.EnclosureRound
import Mathlib.Analysis.Complex.Exponential
import Mathlib.Analysis.SpecialFunctions.Exp
set_option autoImplicit false

namespace EnclPf
open Spec Spec.Encl SpecRound

/-! ## 1. the folds -/

theorem exp_fold (x : ℚ) (N : ℕ) :
    (List.range N).foldl (fun (acc : Rat × Rat) i =>
        (acc.1 + acc.2, acc.2 * x / ((i + 1 : Nat) : Rat))) ((0 : Rat), (1 : Rat))
      = (∑ i ∈ Finset.range N, x ^ i / (i.factorial : ℚ), x ^ N / (N.factorial : ℚ)) := by
  induction N with
  | zero => simp
  | succ N ih =>
    rw [List.range_succ, List.foldl_append, ih]
    simp only [List.foldl_cons, List.foldl_nil, Finset.sum_range_succ, Nat.factorial_succ]
    congr 1
    have h1 : ((N.factorial : ℕ) : ℚ) ≠ 0 := by exact_mod_cast N.factorial_ne_zero
    have h2 : (((N + 1 : ℕ)) : ℚ) ≠ 0 := by exact_mod_cast N.succ_ne_zero
    push_cast at h2 ⊢
    field_simp
    ring

theorem expm1_fold (x : ℚ) (N : ℕ) :
    (List.range N).foldl (fun (acc : Rat × Rat) i =>
        (acc.1 + acc.2, acc.2 * x / ((i + 2 : Nat) : Rat))) ((0 : Rat), x)
      = (∑ i ∈ Finset.range N, x ^ (i + 1) / ((i + 1).factorial : ℚ),
          x ^ (N + 1) / ((N + 1).factorial : ℚ)) := by
  induction N with
  | zero => simp
  | succ N ih =>
    rw [List.range_succ, List.foldl_append, ih]
    simp only [List.foldl_cons, List.foldl_nil, Finset.sum_range_succ]
    congr 1
    rw [Nat.factorial_succ (N + 1)]
    have h1 : (((N + 1).factorial : ℕ) : ℚ) ≠ 0 := by exact_mod_cast (N + 1).factorial_ne_zero
    have h2 : (((N + 2 : ℕ)) : ℚ) ≠ 0 := by exact_mod_cast (N + 1).succ_ne_zero
    push_cast at h2 ⊢
    field_simp
    ring

theorem ite_neg_eq_abs (t : ℚ) : (if t < 0 then -t else t) = |t| := by
  split
  · rename_i h; rw [abs_of_neg h]
  · rename_i h; rw [abs_of_nonneg (not_lt.1 h)]

theorem expTiny_eq (x : ℚ) :
    expTiny x =
      ⟨rdDown ((∑ i ∈ Finset.range 40, x ^ i / (i.factorial : ℚ)) - 2 * |x ^ 40 / (Nat.factorial 40 : ℚ)|),
       rdUp ((∑ i ∈ Finset.range 40, x ^ i / (i.factorial : ℚ)) + 2 * |x ^ 40 / (Nat.factorial 40 : ℚ)|)⟩ := by
  unfold expTiny
  simp only [exp_fold, ite_neg_eq_abs]

theorem expm1Tiny_eq (x : ℚ) :
    expm1Tiny x =
      ⟨rdDown ((∑ i ∈ Finset.range 39, x ^ (i + 1) / ((i + 1).factorial : ℚ)) - 2 * |x ^ 40 / (Nat.factorial 40 : ℚ)|),
       rdUp ((∑ i ∈ Finset.range 39, x ^ (i + 1) / ((i + 1).factorial : ℚ)) + 2 * |x ^ 40 / (Nat.factorial 40 : ℚ)|)⟩ := by
  unfold expm1Tiny
  simp only [Nat.reduceSub, expm1_fold, ite_neg_eq_abs, Nat.reduceAdd]

/-! ## 2. Taylor remainder -/

theorem real_exp_taylor_bound {x : ℝ} {n : ℕ} (hx : |x| / (n.succ : ℝ) ≤ 1 / 2) :
    |Real.exp x - ∑ m ∈ Finset.range n, x ^ m / (m.factorial : ℝ)| ≤ |x| ^ n / (n.factorial : ℝ) * 2 := by
  have hxc : ‖(x : ℂ)‖ / (n.succ : ℝ) ≤ 1 / 2 := by
    rw [Complex.norm_real]; exact hx
  have h := Complex.exp_bound' hxc
  rw [Complex.norm_real] at h
  have e : Complex.exp (x : ℂ) - ∑ m ∈ Finset.range n, (x : ℂ) ^ m / (m.factorial : ℂ) =
      ((Real.exp x - ∑ m ∈ Finset.range n, x ^ m / (m.factorial : ℝ) : ℝ) : ℂ) := by
    push_cast; rfl
  rw [e, Complex.norm_real] at h
  exact h

/-! ## 3. `expTiny`, `expm1Tiny` -/

theorem expTiny_sound (x : ℚ) (hx : |x| ≤ 41 / 2) : Real.exp (x : ℝ) ∈ᵢ expTiny x := by
  have hx' : |(x : ℝ)| / ((40 : ℕ).succ : ℝ) ≤ 1 / 2 := by
    have : |(x : ℝ)| ≤ 41 / 2 := by
      have : ((|x| : ℚ) : ℝ) ≤ ((41 / 2 : ℚ) : ℝ) := by exact_mod_cast hx
      simpa using this
    rw [div_le_iff₀ (by positivity)]; push_cast; linarith
  have hb := real_exp_taylor_bound hx'
  rw [abs_le] at hb
  have habs : |(x : ℝ)| ^ 40 / ((Nat.factorial 40 : ℕ) : ℝ) * 2 =
      2 * |(x : ℝ) ^ 40 / ((Nat.factorial 40 : ℕ) : ℝ)| := by
    rw [abs_div, abs_pow, abs_of_pos (by positivity : (0 : ℝ) < ((Nat.factorial 40 : ℕ) : ℝ))]; ring
  rw [habs] at hb
  rw [expTiny_eq]
  constructor
  · apply rdDown_le_real; push_cast; linarith [hb.1]
  · apply le_rdUp_real; push_cast; linarith [hb.2]

theorem sum_shift_exp (x : ℝ) (n : ℕ) :
    ∑ m ∈ Finset.range (n + 1), x ^ m / (m.factorial : ℝ) =
      1 + ∑ i ∈ Finset.range n, x ^ (i + 1) / ((i + 1).factorial : ℝ) := by
  rw [Finset.sum_range_succ']; simp [add_comm]

theorem expm1Tiny_sound (x : ℚ) (hx : |x| ≤ 41 / 2) : (Real.exp (x : ℝ) - 1) ∈ᵢ expm1Tiny x := by
  have hx' : |(x : ℝ)| / ((40 : ℕ).succ : ℝ) ≤ 1 / 2 := by
    have : |(x : ℝ)| ≤ 41 / 2 := by
      have : ((|x| : ℚ) : ℝ) ≤ ((41 / 2 : ℚ) : ℝ) := by exact_mod_cast hx
      simpa using this
    rw [div_le_iff₀ (by positivity)]; push_cast; linarith
  have hb := real_exp_taylor_bound hx'
  rw [abs_le, sum_shift_exp] at hb
  have habs : |(x : ℝ)| ^ 40 / ((Nat.factorial 40 : ℕ) : ℝ) * 2 =
      2 * |(x : ℝ) ^ 40 / ((Nat.factorial 40 : ℕ) : ℝ)| := by
    rw [abs_div, abs_pow, abs_of_pos (by positivity : (0 : ℝ) < ((Nat.factorial 40 : ℕ) : ℝ))]; ring
  rw [habs] at hb
  rw [expm1Tiny_eq]
  constructor
  · apply rdDown_le_real; push_cast; linarith [hb.1]
  · apply le_rdUp_real; push_cast; linarith [hb.2]

example : Real.exp ((1 / 64 : ℚ) : ℝ) ∈ᵢ expTiny (1 / 64) :=
  expTiny_sound _ (by rw [abs_of_pos] <;> norm_num)

/-! ## 4. `expSmall`, `expSmallI` -/

theorem expSmall_sound (x : ℚ) (hx : |x| ≤ 20992) : Real.exp (x : ℝ) ∈ᵢ expSmall x := by
  unfold expSmall
  have h1 : |x / 1024| ≤ 41 / 2 := by
    rw [abs_div, abs_of_pos (by norm_num : (0 : ℚ) < 1024), div_le_iff₀ (by norm_num)]
    linarith
  have := mem_sqrN 10 (expTiny_sound (x / 1024) h1)
  rw [← Real.exp_nat_mul] at this
  convert this using 2
  push_cast; ring

theorem expSmallI_eq (a : I) : expSmallI a = ⟨(expSmall a.lo).lo, (expSmall a.hi).hi⟩ := rfl

theorem mem_mk {x : ℝ} {l h : ℚ} : x ∈ᵢ (⟨l, h⟩ : I) ↔ (l : ℝ) ≤ x ∧ x ≤ (h : ℝ) := Iff.rfl

theorem expSmallI_sound (a : I) (y : ℝ) (hy : y ∈ᵢ a) (hlo : |a.lo| ≤ 20992) (hhi : |a.hi| ≤ 20992) :
    Real.exp y ∈ᵢ expSmallI a := by
  have h1 := expSmall_sound a.lo hlo
  have h2 := expSmall_sound a.hi hhi
  rw [expSmallI_eq, mem_mk]
  exact ⟨le_trans h1.1 (Real.exp_le_exp.2 hy.1), le_trans (Real.exp_le_exp.2 hy.2) h2.2⟩

example : Real.exp ((5 / 2 : ℚ) : ℝ) ∈ᵢ expSmall (5 / 2) :=
  expSmall_sound (5 / 2) (by rw [abs_of_pos] <;> norm_num)

end EnclPf
