/-
  D128/Proofs/D192RootDefs.lean — staged normal forms of `Gen.Sqrt` and `Gen.Cbrt`
  (Go: /repo/exp.go `func Sqrt`, `func Cbrt`).

  The generated bodies are cut into  core (decompose + seed + the fixed number of iterations, all in the
  57-digit working format `decomposed192`)  and  finish (exponent halving for Sqrt, the sticky-aware
  final rounding `reduce192` at `g.DefaultRoundingMode`, overflow test, `compose`).  The defs below are
  literally the sub-terms of the generated bodies; the `while` loops (a counter running to 8 resp. 7) are
  unrolled into `Root.iter step 8` resp. `Root.iter step 7`.

  Provided (namespace `Root`):
  * `iter f n a`                      : n-fold Kleisli iteration in `Go.GoM`
  * `sqrtStep nrm (res, trunc)`       : one Heron step  `res ← 0.5·(res + nrm/res)` (flag threaded through
                                        `quo`, `add`, `mul`)
  * `sqrtSeed`, `sqrtNrm`, `sqrtCore d`: returns `(res, trunc, dExp)` reaching the finish stage
  * `sqrtFinish g res trunc dExp`
  * `sqrtLoop_eq`                     : the generated `while i < 8` loop is `iter (sqrtStep nrm) 8`
  * `Sqrt_eq`                         : finite, non-zero, non-negative `d`:
                                        `Gen.Sqrt g d = sqrtCore d >>= fun x => sqrtFinish g x.1 x.2.1 x.2.2`
  * `cbrtStep d192 d192x2 (res, trunc)`: one Halley step `res ← res·(res³ + 2d)/(2res³ + d)`; only the flag
                                        of the LAST multiplication is kept
  * `cbrtStart`, `cbrtCore d`          : returns `(res, trunc)`
  * `cbrtFinish g neg res trunc`
  * `cbrtLoop_eq`, `Cbrt_eq`          : finite non-zero `d`:
                                        `Gen.Cbrt g d = cbrtCore d >>= fun x => cbrtFinish g (Signbit d) x.1 x.2`
-/
import D128.Gen.Exp
import D128.Proofs.RoundKernelCode
set_option autoImplicit false
set_option maxRecDepth 4096
set_option linter.unusedVariables false
set_option linter.unusedTactic false
open Gen
namespace Root

/-- n-fold Kleisli iteration -/
def iter {α : Type} (f : α → Go.GoM α) : Nat → α → Go.GoM α
  | 0, a => pure a
  | n + 1, a => f a >>= iter f n

theorem iter_zero {α : Type} (f : α → Go.GoM α) (a : α) : iter f 0 a = pure a := rfl
theorem iter_succ {α : Type} (f : α → Go.GoM α) (n : Nat) (a : α) :
    iter f (n + 1) a = f a >>= iter f n := rfl

theorem i64_succ (i : Int64) (h0 : -1000 ≤ i.toInt) (h1 : i.toInt ≤ 1000) :
    (i + 1).toInt = i.toInt + 1 := by
  have h1' : (1 : Int64).toInt = 1 := by decide
  rw [Int64.toInt_add, h1']; apply Int.bmod_eq_of_le <;> omega

/-! ## Sqrt -/

/-- one Heron step of `Sqrt` (the loop body): `tmp = nrm/res; res = res + tmp; res = 0.5·res` -/
def sqrtStep (nrm : decomposed192) (s : decomposed192 × Int8) : Go.GoM (decomposed192 × Int8) := do
  let x ← decomposed192.quo nrm s.1 s.2
  let x1 ← decomposed192.add s.1 x.1 x.2
  let x2 ← decomposed192.mul { sig := { w0 := 5, w1 := 0, w2 := 0 }, exp := -1 } x1.1 x1.2
  pure (x2.1, x2.2)

/-- the linear first guess `nrm·mul + add` -/
def sqrtSeed (nrm mul add : decomposed192) : Go.GoM (decomposed192 × Int8) := do
  let x ← decomposed192.mul nrm mul 0
  let x ← decomposed192.add x.1 add x.2
  pure (x.1, x.2)

/-- the argument scaled into [1,10) (even decimal exponent) resp. [0.1,1) (odd) -/
def sqrtNrm (d : Decimal) (l10 : Int16) (odd : Bool) : decomposed192 :=
  { sig := { w0 := d.decompose.1.w0, w1 := d.decompose.1.w1, w2 := 0 },
    exp := if odd then -l10 - 1 else -l10 }

/-- everything `Sqrt` does before the final rounding; returns `(res, trunc, dExp)` -/
def sqrtCore (d : Decimal) : Go.GoM (decomposed192 × Int8 × Int16) := do
  let t ← U128.log10 d.decompose.1
  if (d.decompose.2 - 6176 + Go.conv t &&& 1 == 0) = true then do
    let s ← sqrtSeed (sqrtNrm d (Go.conv t) false)
      { sig := { w0 := 819, w1 := 0, w2 := 0 }, exp := -3 }
      { sig := { w0 := 259, w1 := 0, w2 := 0 }, exp := -3 }
    let s ← iter (sqrtStep (sqrtNrm d (Go.conv t) false)) 8 s
    pure (s.1, s.2, d.decompose.2 - 6176 + Go.conv t)
  else do
    let s ← sqrtSeed (sqrtNrm d (Go.conv t) true)
      { sig := { w0 := 259, w1 := 0, w2 := 0 }, exp := -2 }
      { sig := { w0 := 819, w1 := 0, w2 := 0 }, exp := -4 }
    let s ← iter (sqrtStep (sqrtNrm d (Go.conv t) true)) 8 s
    pure (s.1, s.2, d.decompose.2 - 6176 + Go.conv t + 1)

/-- the end of `Sqrt`: `res.exp += dExp/2`, final rounding, overflow test, `compose` -/
def sqrtFinish (g : Globals) (res : decomposed192) (trunc : Int8) (dExp : Int16) :
    Go.GoM Decimal := do
  let x ← RoundingMode.reduce192 g.DefaultRoundingMode false res.sig (res.exp + dExp / 2 + 6176) trunc
  if decide (x.2 > 12287) = true then pure (inf false) else pure (compose false x.1 x.2)

/-- the generated loop of `Sqrt`, followed by any continuation that uses `res` and `trunc` only, is
the `n` remaining Heron steps (`n = 8 - i`) -/
theorem sqrtLoop_eq {β : Type} (nrm : decomposed192) (K : decomposed192 → Int8 → Go.GoM β)
    (n : Nat) :
    ∀ (r : decomposed192) (t : Int8) (tmp : decomposed192) (i : Int64), i.toInt + n = 8 → n ≤ 8 →
    ((forIn (m := Go.GoM) Lean.Loop.mk (r, t, tmp, i) fun x __s =>
        if decide (__s.2.2.2 < 8) = true then do
          let __x ← nrm.quo __s.1 __s.2.1
          let __x_1 ← __s.1.add __x.1 __x.2
          let __x_2 ← decomposed192.mul { sig := { w0 := 5, w1 := 0, w2 := 0 }, exp := -1 }
            __x_1.1 __x_1.2
          pure (ForInStep.yield (__x_2.1, __x_2.2, __x.1, __s.2.2.2 + 1))
        else pure (ForInStep.done (__s.1, __s.2.1, __s.2.2.1, __s.2.2.2))) >>= fun s => K s.1 s.2.1)
     = (iter (sqrtStep nrm) n (r, t) >>= fun s => K s.1 s.2) := by
  induction n with
  | zero =>
    intro r t tmp i hi hn
    rw [Go.loop_unfold]
    have : ¬ (i < 8) := by rw [Int64.lt_iff_toInt_lt]; simp at hi; rw [hi]; decide
    simp only [this, decide_false, Bool.false_eq_true, if_false, iter]
    rfl
  | succ n ih =>
    intro r t tmp i hi hn
    rw [Go.loop_unfold]
    have h8 : (8 : Int64).toInt = 8 := by decide
    have : (i < 8) := by rw [Int64.lt_iff_toInt_lt]; omega
    simp only [this, decide_true, if_true, iter, sqrtStep]
    simp only [bind_assoc, pure_bind]
    refine congrArg _ (funext fun x => ?_)
    refine congrArg _ (funext fun x1 => ?_)
    refine congrArg _ (funext fun x2 => ?_)
    refine ih _ _ _ _ ?_ (by omega)
    rw [i64_succ i (by omega) (by omega)]; omega

/-- **Staged normal form of `Sqrt`** on its general path. -/
theorem Sqrt_eq (g : Globals) (d : Decimal) (h1 : Decimal.isSpecial d = false)
    (h2 : Decimal.IsZero d = false) (h3 : Decimal.Signbit d = false) :
    Gen.Sqrt g d = sqrtCore d >>= fun x => sqrtFinish g x.1 x.2.1 x.2.2 := by
  unfold Gen.Sqrt sqrtCore
  simp only [h1, h2, h3, if_false, Bool.false_eq_true]
  simp only [bind_assoc]
  refine congrArg _ (funext fun t => ?_)
  split
  · simp only [bind_assoc, pure_bind, sqrtSeed]
    refine congrArg _ (funext fun x => ?_)
    refine congrArg _ (funext fun x1 => ?_)
    exact sqrtLoop_eq _ (fun r t => sqrtFinish g r t _) 8 _ _ _ _ (by decide) (by decide)
  · simp only [bind_assoc, pure_bind, sqrtSeed]
    refine congrArg _ (funext fun x => ?_)
    refine congrArg _ (funext fun x1 => ?_)
    exact sqrtLoop_eq _ (fun r t => sqrtFinish g r t _) 8 _ _ _ _ (by decide) (by decide)

/-! ## Cbrt -/

/-- one Halley step of `Cbrt` (the loop body).  All sticky flags except the one of the last
multiplication are discarded by the code. -/
def cbrtStep (d192 d192x2 : decomposed192) (s : decomposed192 × Int8) :
    Go.GoM (decomposed192 × Int8) := do
  let sq ← decomposed192.mul s.1 s.1 0
  let cub ← decomposed192.mul sq.1 s.1 0
  let num ← decomposed192.add cub.1 d192x2 0
  let den ← decomposed192.add cub.1 cub.1 0
  let den ← decomposed192.add den.1 d192 0
  let frc ← decomposed192.quo num.1 den.1 0
  let x ← decomposed192.mul s.1 frc.1 s.2
  pure (x.1, x.2)

/-- the argument as a working-format number (unbiased exponent) -/
def cbrtArg (d : Decimal) : decomposed192 :=
  { sig := { w0 := d.decompose.1.w0, w1 := d.decompose.1.w1, w2 := 0 }, exp := d.decompose.2 - 6176 }

/-- twice the argument -/
def cbrtArg2 (d : Decimal) : decomposed192 :=
  { sig := U192.lsh { w0 := d.decompose.1.w0, w1 := d.decompose.1.w1, w2 := 0 } 1,
    exp := d.decompose.2 - 6176 }

/-- the starting value of `Cbrt`: the coefficient of `d` with the exponent `dExp - (exp - exp/3)` where
`exp = dExp + l10` (`+1` when negative) -/
def cbrtStart (d : Decimal) (l10 : Int16) : decomposed192 :=
  { sig := { w0 := d.decompose.1.w0, w1 := d.decompose.1.w1, w2 := 0 },
    exp := if decide (d.decompose.2 - 6176 + l10 < 0) = true then
        d.decompose.2 - 6176 - (d.decompose.2 - 6176 + l10 + 1 - (d.decompose.2 - 6176 + l10 + 1) / 3)
      else d.decompose.2 - 6176 - (d.decompose.2 - 6176 + l10 - (d.decompose.2 - 6176 + l10) / 3) }

/-- everything `Cbrt` does before the final rounding; returns `(res, trunc)` -/
def cbrtCore (d : Decimal) : Go.GoM (decomposed192 × Int8) := do
  let t ← U128.log10 d.decompose.1
  iter (cbrtStep (cbrtArg d) (cbrtArg2 d)) 7 (cbrtStart d (Go.conv t), 0)

/-- the end of `Cbrt`: final rounding with the sign of the argument, overflow test, `compose` -/
def cbrtFinish (g : Globals) (neg : Bool) (res : decomposed192) (trunc : Int8) : Go.GoM Decimal := do
  let x ← RoundingMode.reduce192 g.DefaultRoundingMode neg res.sig (res.exp + 6176) trunc
  if decide (x.2 > 12287) = true then pure (inf neg) else pure (compose neg x.1 x.2)

theorem cbrtLoop_eq {β : Type} (d192 d192x2 : decomposed192)
    (K : decomposed192 → Int8 → Go.GoM β) (n : Nat) :
    ∀ (r : decomposed192) (t : Int8) (i : Int64), i.toInt + n = 7 → n ≤ 7 →
    ((forIn (m := Go.GoM) Lean.Loop.mk (r, t, i) fun x __s =>
        if decide (__s.2.2 < 7) = true then do
          let __x ← __s.1.mul __s.1 0
          let __x ← __x.1.mul __s.1 0
          let __x_1 ← __x.1.add d192x2 0
          let __x ← __x.1.add __x.1 0
          let __x ← __x.1.add d192 0
          let __x ← __x_1.1.quo __x.1 0
          let __x ← __s.1.mul __x.1 __s.2.1
          pure (ForInStep.yield (__x.1, __x.2, __s.2.2 + 1))
        else pure (ForInStep.done (__s.1, __s.2.1, __s.2.2))) >>= fun s => K s.1 s.2.1)
     = (iter (cbrtStep d192 d192x2) n (r, t) >>= fun s => K s.1 s.2) := by
  induction n with
  | zero =>
    intro r t i hi hn
    rw [Go.loop_unfold]
    have : ¬ (i < 7) := by rw [Int64.lt_iff_toInt_lt]; simp at hi; rw [hi]; decide
    simp only [this, decide_false, Bool.false_eq_true, if_false, iter]
    rfl
  | succ n ih =>
    intro r t i hi hn
    rw [Go.loop_unfold]
    have h7 : (7 : Int64).toInt = 7 := by decide
    have : (i < 7) := by rw [Int64.lt_iff_toInt_lt]; omega
    simp only [this, decide_true, if_true, iter, cbrtStep]
    simp only [bind_assoc, pure_bind]
    refine congrArg _ (funext fun x => ?_)
    refine congrArg _ (funext fun x1 => ?_)
    refine congrArg _ (funext fun x2 => ?_)
    refine congrArg _ (funext fun x3 => ?_)
    refine congrArg _ (funext fun x4 => ?_)
    refine congrArg _ (funext fun x5 => ?_)
    refine congrArg _ (funext fun x6 => ?_)
    refine ih _ _ _ ?_ (by omega)
    rw [i64_succ i (by omega) (by omega)]; omega

/-- **Staged normal form of `Cbrt`** on its general path. -/
theorem Cbrt_eq (g : Globals) (d : Decimal) (h1 : Decimal.isSpecial d = false)
    (h2 : Decimal.IsZero d = false) :
    Gen.Cbrt g d = cbrtCore d >>= fun x => cbrtFinish g (Decimal.Signbit d) x.1 x.2 := by
  unfold Gen.Cbrt cbrtCore
  simp only [h1, h2, if_false, Bool.false_eq_true, Bool.or_self]
  simp only [bind_assoc]
  refine congrArg _ (funext fun t => ?_)
  unfold cbrtStart
  split
  · exact cbrtLoop_eq _ _ (fun r t => cbrtFinish g _ r t) 7 _ _ _ (by decide) (by decide)
  · exact cbrtLoop_eq _ _ (fun r t => cbrtFinish g _ r t) 7 _ _ _ (by decide) (by decide)

end Root
