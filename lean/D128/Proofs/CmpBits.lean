/-
  Bit-field facts: the generated predicates and `decompose` in terms of arithmetic on `d.hi.toNat`,
  and the link to `Spec.interp`.

  * `and_mask`          — `h &&& ((2^w - 1) * 2^k) = h / 2^k % 2^w * 2^k`
  * `isSpecial_eq`, `IsNaN_eq`, `isInf_eq`, `Signbit_eq`, `IsZero_eq` — field tests
  * `decompose_eq`      — coefficient and biased exponent returned by `Gen.Decimal.decompose`
  * `interp_nonspecial` (alias `interp_decompose`) — for a non-special pattern,
        `Spec.interp d.lo d.hi = .fin (Signbit d) sig.toNat (exp.toInt - 6176)` with
        `sig.toNat < 5·2^111`, `0 ≤ exp.toInt < 12288`, where `(sig, exp) = decompose d`
  * `interp_special`    — for a special pattern `Spec.interp` is `.nan` / `.inf`
-/
import D128.Gen.Compare2
import D128.Spec.Arith
import Mathlib.Tactic.NormNum
set_option autoImplicit false

namespace CmpPf
open Gen

theorem and_mask (h k w : Nat) : h &&& ((2 ^ w - 1) * 2 ^ k) = h / 2 ^ k % 2 ^ w * 2 ^ k := by
  apply Nat.eq_of_testBit_eq
  intro i
  simp only [Nat.testBit_and, Nat.testBit_mul_two_pow, Nat.testBit_two_pow_sub_one,
    Nat.testBit_mod_two_pow, Nat.testBit_div_two_pow]
  by_cases hik : k ≤ i
  · have : i - k + k = i := by omega
    simp [hik, this, Bool.and_comm]
  · simp [hik]

/-- `h &&& M` for a literal mask `M = (2^w-1)·2^k` -/
theorem u64_and_mask (x M : UInt64) (k w : Nat) (hM : M.toNat = (2 ^ w - 1) * 2 ^ k) :
    (x &&& M).toNat = x.toNat / 2 ^ k % 2 ^ w * 2 ^ k := by
  rw [UInt64.toNat_and, hM, and_mask]

theorem isSpecial_eq (d : Decimal) :
    Decimal.isSpecial d = decide (d.hi.toNat / 2 ^ 59 % 16 = 15) := by
  unfold Decimal.isSpecial
  rw [Bool.eq_iff_iff]
  simp only [Id.run, pure, beq_iff_eq, ← UInt64.toNat_inj, decide_eq_true_eq]
  rw [u64_and_mask d.hi _ 59 4 (by decide)]
  simp only [UInt64.toNat_ofNat, Nat.reducePow, Nat.reduceMod]
  omega

theorem IsNaN_eq (d : Decimal) :
    Decimal.IsNaN d = decide (d.hi.toNat / 2 ^ 58 % 32 = 31) := by
  unfold Decimal.IsNaN
  rw [Bool.eq_iff_iff]
  simp only [Id.run, pure, beq_iff_eq, ← UInt64.toNat_inj, decide_eq_true_eq]
  rw [u64_and_mask d.hi _ 58 5 (by decide)]
  simp only [UInt64.toNat_ofNat, Nat.reducePow, Nat.reduceMod]
  omega

theorem isInf_eq (d : Decimal) :
    Decimal.isInf d = decide (d.hi.toNat / 2 ^ 58 % 32 = 30) := by
  unfold Decimal.isInf
  rw [Bool.eq_iff_iff]
  simp only [Id.run, pure, beq_iff_eq, ← UInt64.toNat_inj, decide_eq_true_eq]
  rw [u64_and_mask d.hi _ 58 5 (by decide)]
  simp only [UInt64.toNat_ofNat, Nat.reducePow, Nat.reduceMod]
  omega

theorem Signbit_eq (d : Decimal) :
    Decimal.Signbit d = decide (d.hi.toNat / 2 ^ 63 % 2 = 1) := by
  unfold Decimal.Signbit
  rw [Bool.eq_iff_iff]
  simp only [Id.run, pure, beq_iff_eq, ← UInt64.toNat_inj, decide_eq_true_eq]
  rw [u64_and_mask d.hi _ 63 1 (by decide)]
  simp only [UInt64.toNat_ofNat, Nat.reducePow, Nat.reduceMod]
  omega

theorem steer_eq (x : UInt64) :
    ((x &&& (6917529027641081856 : UInt64)) == (6917529027641081856 : UInt64)) =
      decide (x.toNat / 2 ^ 61 % 4 = 3) := by
  rw [Bool.eq_iff_iff]
  simp only [beq_iff_eq, ← UInt64.toNat_inj, decide_eq_true_eq]
  rw [u64_and_mask x _ 61 2 (by decide)]
  simp only [UInt64.toNat_ofNat, Nat.reducePow, Nat.reduceMod]
  omega

theorem IsZero_eq (d : Decimal) :
    Decimal.IsZero d =
      if d.hi.toNat / 2 ^ 61 % 4 = 3 then false
      else decide (d.lo.toNat = 0 ∧ d.hi.toNat % 2 ^ 49 = 0) := by
  unfold Decimal.IsZero
  simp only [Id.run, pure, steer_eq, decide_eq_true_eq]
  by_cases h : d.hi.toNat / 2 ^ 61 % 4 = 3
  · rw [if_pos h, if_pos h]
  · rw [if_neg h, if_neg h]
    rw [Bool.eq_iff_iff]
    simp only [Bool.and_eq_true, beq_iff_eq, ← UInt64.toNat_inj, decide_eq_true_eq]
    have := u64_and_mask d.hi (562949953421311 : UInt64) 0 49 (by decide)
    rw [this]
    simp

theorem conv_shr (x : UInt64) (s : Nat) (hs : s < 64) (hx : x.toNat / 2 ^ s < 32768) :
    ((Go.conv (Go.shr x (s : Int)) : Int16)).toInt = ((x.toNat / 2 ^ s : Nat) : Int) := by
  simp only [Go.conv, Go.shr, Go.GoShift.shr, Go.GoInt.ofInt, Go.GoInt.toInt, Int.toNat_natCast, hs,
    if_true, Int16.toInt_ofInt, UInt64.toNat_shiftRight, UInt64.toNat_ofNat', Nat.shiftRight_eq_div_pow]
  have h1 : s % 2 ^ 64 % 64 = s := by omega
  rw [h1]
  generalize x.toNat / 2 ^ s = v at *
  rw [Int.bmod_eq_emod]
  simp only [Int16.size]
  split <;> omega

theorem decompose_eq (d : Decimal) :
    (Decimal.decompose d).1.toNat =
      (if d.hi.toNat / 2 ^ 61 % 4 = 3 then d.lo.toNat + (d.hi.toNat % 2 ^ 47 + 2 ^ 49) * 2 ^ 64
       else d.lo.toNat + (d.hi.toNat % 2 ^ 49) * 2 ^ 64) ∧
    (Decimal.decompose d).2.toInt =
      ((if d.hi.toNat / 2 ^ 61 % 4 = 3 then d.hi.toNat / 2 ^ 47 % 2 ^ 14
        else d.hi.toNat / 2 ^ 49 % 2 ^ 14 : Nat) : Int) := by
  unfold Decimal.decompose
  simp only [Id.run, pure, steer_eq, decide_eq_true_eq]
  have hlt := d.hi.toNat_lt
  by_cases h : d.hi.toNat / 2 ^ 61 % 4 = 3
  · rw [if_pos h, if_pos h, if_pos h]
    constructor
    · simp only [U128.toNat, UInt64.toNat_or]
      rw [u64_and_mask d.hi _ 0 47 (by decide)]
      have h1 : (562949953421312 : UInt64).toNat = 2 ^ 49 := by decide
      rw [h1, Nat.or_two_pow_eq_add_of_lt (by omega)]
      simp
    · have hm := u64_and_mask d.hi (2305702271725338624 : UInt64) 47 14 (by decide)
      refine (conv_shr _ 47 (by omega) (by rw [hm]; omega)).trans ?_
      rw [hm]
      congr 1
      omega
  · rw [if_neg h, if_neg h, if_neg h]
    constructor
    · simp only [U128.toNat]
      rw [u64_and_mask d.hi _ 0 49 (by decide)]
      simp
    · have hm := u64_and_mask d.hi (9222809086901354496 : UInt64) 49 14 (by decide)
      refine (conv_shr _ 49 (by omega) (by rw [hm]; omega)).trans ?_
      rw [hm]
      congr 1
      omega

theorem interp_unfold (lo hi : UInt64) :
    Spec.interp lo hi =
      if hi.toNat / 2 ^ 58 % 32 = 31 then .nan (decide (hi.toNat / 2 ^ 63 % 2 = 1)) lo
      else if hi.toNat / 2 ^ 58 % 32 = 30 then .inf (decide (hi.toNat / 2 ^ 63 % 2 = 1))
      else if hi.toNat / 2 ^ 61 % 4 = 3 then
        .fin (decide (hi.toNat / 2 ^ 63 % 2 = 1))
          ((2 ^ 49 + hi.toNat % 2 ^ 47) * 2 ^ 64 + lo.toNat)
          (((hi.toNat / 2 ^ 47 % 2 ^ 14 : Nat) : Int) - 6176)
      else
        .fin (decide (hi.toNat / 2 ^ 63 % 2 = 1))
          ((hi.toNat % 2 ^ 49) * 2 ^ 64 + lo.toNat)
          (((hi.toNat / 2 ^ 49 % 2 ^ 14 : Nat) : Int) - 6176) := by
  unfold Spec.interp
  simp only [Spec.bias, beq_eq_decide, decide_eq_true_eq]

theorem interp_nonspecial (d : Decimal) (hns : Decimal.isSpecial d = false) :
    Spec.interp d.lo d.hi =
      .fin (Decimal.Signbit d) (Decimal.decompose d).1.toNat ((Decimal.decompose d).2.toInt - 6176) ∧
    (Decimal.decompose d).1.toNat < 5 * 2 ^ 111 ∧
    0 ≤ (Decimal.decompose d).2.toInt ∧ (Decimal.decompose d).2.toInt < 12288 := by
  obtain ⟨h1, h2⟩ := decompose_eq d
  rw [isSpecial_eq] at hns
  have hns' : ¬ d.hi.toNat / 2 ^ 59 % 16 = 15 := by simpa using hns
  have hlo := d.lo.toNat_lt
  have hhi := d.hi.toNat_lt
  rw [interp_unfold, Signbit_eq, h1, h2]
  simp only [Nat.reducePow] at *
  have n31 : ¬ d.hi.toNat / 288230376151711744 % 32 = 31 := by omega
  have n30 : ¬ d.hi.toNat / 288230376151711744 % 32 = 30 := by omega
  rw [if_neg n31, if_neg n30]
  by_cases h : d.hi.toNat / 2305843009213693952 % 4 = 3
  · simp only [h, if_true]
    refine ⟨?_, by omega, by omega, by omega⟩
    congr 1; omega
  · simp only [h, if_false]
    refine ⟨?_, by omega, by omega, by omega⟩
    congr 1; omega

theorem interp_special (d : Decimal) (hs : Decimal.isSpecial d = true) :
    (Decimal.IsNaN d = true ∧ Spec.interp d.lo d.hi = .nan (Decimal.Signbit d) d.lo) ∨
    (Decimal.IsNaN d = false ∧ Decimal.isInf d = true ∧
      Spec.interp d.lo d.hi = .inf (Decimal.Signbit d)) := by
  rw [isSpecial_eq] at hs
  have hs' : d.hi.toNat / 2 ^ 59 % 16 = 15 := by simpa using hs
  rw [interp_unfold, Signbit_eq, IsNaN_eq, isInf_eq]
  simp only [Nat.reducePow] at *
  by_cases h : d.hi.toNat / 288230376151711744 % 32 = 31
  · left; simp [h]
  · right
    have h30 : d.hi.toNat / 288230376151711744 % 32 = 30 := by omega
    simp [h30]

theorem IsNaN_special (d : Decimal) (h : Decimal.IsNaN d = true) : Decimal.isSpecial d = true := by
  rw [IsNaN_eq] at h; rw [isSpecial_eq]
  have : d.hi.toNat / 2 ^ 58 % 32 = 31 := by simpa using h
  simp only [decide_eq_true_eq, Nat.reducePow] at *; omega

theorem isInf_special (d : Decimal) (h : Decimal.isInf d = true) : Decimal.isSpecial d = true := by
  rw [isInf_eq] at h; rw [isSpecial_eq]
  have : d.hi.toNat / 2 ^ 58 % 32 = 30 := by simpa using h
  simp only [decide_eq_true_eq, Nat.reducePow] at *; omega

theorem interp_decompose (d : Decimal) (hns : Decimal.isSpecial d = false) :
    Spec.interp d.lo d.hi =
      .fin (Decimal.Signbit d) (Decimal.decompose d).1.toNat ((Decimal.decompose d).2.toInt - 6176) :=
  (interp_nonspecial d hns).1

end CmpPf
