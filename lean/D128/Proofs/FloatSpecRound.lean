/-
  D128/Proofs/FloatSpecRound.lean — continuation of `FloatSpec.lean`: the bit-level reading of the
  patterns `Go.F64` / `Go.F32`, and what the theorems about `Go.roundDyadic` mean for the conversions
  of `D128/Go/Float.lean`.  (namespace `Go`; `x.mag`, `x.toRat`, `BinFmt.decode` are defined in FloatSpec.)

  Constants  `fmt64_mb/_eb/_qmin/_maxBiased/_infBits/_bias/_emax`, same for `fmt32`.

  Bit-level decoding (F64; the same names exist for F32 with 31/23/8 in place of 63/52/11)
  * `F64.expField_eq`, `F64.mantField_eq`, `F64.sign_eq`, `F64.expField_eq'`, `F64.mantField_eq'`
        : fields as div/mod of `x.bits.toNat`;  `F64.expField_lt`, `F64.mantField_lt`
  * `F64.ofParts_bits/_sign/_rest/_expField/_mantField/_isFinite/_isInf/_isNaN/_isZero/_mag`
        : fields and classification of `F64.ofParts neg rest` for `rest < 2^63`
  * `F64.mag_eq_decode`  : `x.mag = fmt64.decode (x.bits.toNat % 2^63)` (no finiteness needed)
  * `F64.isFinite_eq`, `F32.isFinite_eq`, `F64.mag_nonneg`, `F32.ext_of_sign_rest`

  `float64(float32)` — `F32.toF64` is exact
  * `F32.toF64_of_finite`, `F32.toF64_round`  : the rounding inside is finite and decodes to `x.mag`
  * `F32.toF64_mag`, `F32.toF64_toRat`, `F32.toF64_sign`, `F32.toF64_isFinite(_eq)`,
    `F32.toF64_isNaN`, `F32.toF64_isInf`, `F32.toF64_isZero`, `F32.toF64_toF32` (round trip)

  The shape `F64.ofParts s (roundDyadic fmt64 m e)` of every rounding conversion (and F32 likewise)
  * `F64.ofRound_sign/_rest/_isNaN/_mag`, `F64.ofRound_isInf_iff` (±Inf iff `(2^53−1/2)·2^971 ≤ m·2^e`),
    `F64.ofRound_isFinite_iff`, `F64.ofRound_nearest`, `F64.ofRound_tie`, `F64.ofRound_exact`
  * `F32.ofRound_…` : same, threshold `(2^24−1/2)·2^104`

  Conversions
  * `F64.ofUInt64_sign/_isNaN/_isFinite/_nearest/_tie/_exact/_toRat_nearest`
  * `math.Ldexp_special`, `math.Ldexp_eq`, `math.Ldexp_sign/_rest/_isNaN/_isInf_iff/_nearest/_tie/
    _exact/_toRat_nearest`, `F64.mag_mul_two_zpow`
  * `F64.toF32_of_finite`, `F64.toF32_sign/_isNaN/_isInf_iff/_nearest/_tie/_exact/_toRat_nearest`
  * instances `roundDyadic64_le/_mono/_overflow_iff`, `roundDyadic32_…`; `signed_nearest`
-/
import D128.Proofs.FloatSpec
set_option autoImplicit false

namespace Go

/-! ## Bit-level decoding of `F64` patterns -/

theorem F64.expField_eq (x : F64) : x.expField = x.bits.toNat / 2 ^ 52 % 2 ^ 11 := by
  unfold F64.expField
  rw [UInt64.toNat_and, UInt64.toNat_shiftRight]
  have : (0x7ff : UInt64).toNat = 2 ^ 11 - 1 := by decide
  rw [this, Nat.and_two_pow_sub_one_eq_mod, Nat.shiftRight_eq_div_pow]
  rfl

theorem F64.mantField_eq (x : F64) : x.mantField = x.bits.toNat % 2 ^ 52 := by
  unfold F64.mantField
  rw [UInt64.toNat_and]
  have : (0x000f_ffff_ffff_ffff : UInt64).toNat = 2 ^ 52 - 1 := by decide
  rw [this, Nat.and_two_pow_sub_one_eq_mod]

theorem F64.sign_eq (x : F64) : x.sign = decide (2 ^ 63 ≤ x.bits.toNat) := by
  unfold F64.sign
  have h : (x.bits >>> 63).toNat = x.bits.toNat / 2 ^ 63 := by
    rw [UInt64.toNat_shiftRight, Nat.shiftRight_eq_div_pow]; rfl
  have hlt := x.bits.toNat_lt
  rw [Bool.eq_iff_iff]
  simp only [bne_iff_ne, ne_eq, decide_eq_true_eq]
  rw [← UInt64.toNat_inj, h, UInt64.toNat_zero]
  omega

theorem F64.ofParts_bits (neg : Bool) (rest : ℕ) (h : rest < 2 ^ 63) :
    (F64.ofParts neg rest).bits.toNat = (if neg then 2 ^ 63 else 0) + rest := by
  unfold F64.ofParts
  simp only [UInt64.toNat_or, UInt64.toNat_ofNat']
  have hr : rest % 2 ^ 64 = rest := Nat.mod_eq_of_lt (by omega)
  rw [hr]
  cases neg
  · simp
  · simp only [if_true]
    have : (0x8000_0000_0000_0000 : UInt64).toNat = 2 ^ 63 * 1 := by decide
    rw [this, ← Nat.two_pow_add_eq_or_of_lt h, Nat.mul_one]


theorem fmt64_mb : fmt64.mb = 52 := rfl
theorem fmt64_eb : fmt64.eb = 11 := rfl
theorem fmt64_qmin : fmt64.qmin = -1074 := by decide
theorem fmt64_maxBiased : fmt64.maxBiased = 2047 := by decide
theorem fmt64_infBits : fmt64.infBits = 2047 * 2 ^ 52 := by decide
theorem fmt64_bias : fmt64.bias = 1023 := by decide
theorem fmt64_emax : fmt64.emax = 1023 := by decide

theorem F64.ofParts_sign (neg : Bool) (rest : ℕ) (h : rest < 2 ^ 63) :
    (F64.ofParts neg rest).sign = neg := by
  rw [F64.sign_eq, F64.ofParts_bits neg rest h]
  cases neg
  · simp; omega
  · simp

theorem F64.ofParts_rest (neg : Bool) (rest : ℕ) (h : rest < 2 ^ 63) :
    (F64.ofParts neg rest).bits.toNat % 2 ^ 63 = rest := by
  rw [F64.ofParts_bits neg rest h]
  cases neg <;> simp <;> omega

theorem F64.expField_eq' (x : F64) : x.expField = x.bits.toNat % 2 ^ 63 / 2 ^ 52 := by
  rw [F64.expField_eq]; omega

theorem F64.mantField_eq' (x : F64) : x.mantField = x.bits.toNat % 2 ^ 63 % 2 ^ 52 := by
  rw [F64.mantField_eq]; omega

theorem F64.ofParts_expField (neg : Bool) (rest : ℕ) (h : rest < 2 ^ 63) :
    (F64.ofParts neg rest).expField = rest / 2 ^ 52 := by
  rw [F64.expField_eq', F64.ofParts_rest neg rest h]

theorem F64.ofParts_mantField (neg : Bool) (rest : ℕ) (h : rest < 2 ^ 63) :
    (F64.ofParts neg rest).mantField = rest % 2 ^ 52 := by
  rw [F64.mantField_eq', F64.ofParts_rest neg rest h]

theorem F64.ofParts_isFinite (neg : Bool) (rest : ℕ) (h : rest < 2 ^ 63) :
    (F64.ofParts neg rest).isFinite = decide (rest < fmt64.infBits) := by
  rw [F64.isFinite, F64.ofParts_expField neg rest h, fmt64_infBits, Bool.eq_iff_iff]
  simp only [bne_iff_ne, ne_eq, decide_eq_true_eq]
  omega

theorem F64.ofParts_isInf (neg : Bool) (rest : ℕ) (h : rest < 2 ^ 63) :
    (F64.ofParts neg rest).isInf = decide (rest = fmt64.infBits) := by
  rw [F64.isInf, F64.ofParts_expField neg rest h, F64.ofParts_mantField neg rest h, fmt64_infBits,
    Bool.eq_iff_iff]
  simp only [Bool.and_eq_true, beq_iff_eq, decide_eq_true_eq]
  omega

theorem F64.ofParts_isNaN (neg : Bool) (rest : ℕ) (h : rest < 2 ^ 63) :
    (F64.ofParts neg rest).isNaN = decide (fmt64.infBits < rest) := by
  rw [F64.isNaN, F64.ofParts_expField neg rest h, F64.ofParts_mantField neg rest h, fmt64_infBits,
    Bool.eq_iff_iff]
  simp only [Bool.and_eq_true, beq_iff_eq, bne_iff_ne, ne_eq, decide_eq_true_eq]
  omega

theorem F64.ofParts_isZero (neg : Bool) (rest : ℕ) (h : rest < 2 ^ 63) :
    (F64.ofParts neg rest).isZero = decide (rest = 0) := by
  rw [F64.isZero, F64.ofParts_expField neg rest h, F64.ofParts_mantField neg rest h,
    Bool.eq_iff_iff]
  simp only [Bool.and_eq_true, beq_iff_eq, decide_eq_true_eq]
  omega

/-- the magnitude of a `float64` is the decoding of its low 63 bits (also used, formally, for
    non-finite patterns) -/
theorem F64.mag_eq_decode (x : F64) : x.mag = fmt64.decode (x.bits.toNat % 2 ^ 63) := by
  unfold F64.mag F64.dyadic BinFmt.decode
  rw [fmt64_mb, fmt64_qmin, ← F64.expField_eq', ← F64.mantField_eq']
  by_cases h : x.expField = 0
  · simp [h]
  · simp only [beq_iff_eq, h, if_false]
    congr 2
    omega

theorem F64.ofParts_mag (neg : Bool) (rest : ℕ) (h : rest < 2 ^ 63) :
    (F64.ofParts neg rest).mag = fmt64.decode rest := by
  rw [F64.mag_eq_decode, F64.ofParts_rest neg rest h]


/-! ## Bit-level decoding of `F32` patterns -/

theorem F32.expField_eq (x : F32) : x.expField = x.bits.toNat / 2 ^ 23 % 2 ^ 8 := by
  unfold F32.expField
  rw [UInt32.toNat_and, UInt32.toNat_shiftRight]
  have : (0xff : UInt32).toNat = 2 ^ 8 - 1 := by decide
  rw [this, Nat.and_two_pow_sub_one_eq_mod, Nat.shiftRight_eq_div_pow]
  rfl

theorem F32.mantField_eq (x : F32) : x.mantField = x.bits.toNat % 2 ^ 23 := by
  unfold F32.mantField
  rw [UInt32.toNat_and]
  have : (0x007f_ffff : UInt32).toNat = 2 ^ 23 - 1 := by decide
  rw [this, Nat.and_two_pow_sub_one_eq_mod]

theorem F32.sign_eq (x : F32) : x.sign = decide (2 ^ 31 ≤ x.bits.toNat) := by
  unfold F32.sign
  have h : (x.bits >>> 31).toNat = x.bits.toNat / 2 ^ 31 := by
    rw [UInt32.toNat_shiftRight, Nat.shiftRight_eq_div_pow]; rfl
  have hlt := x.bits.toNat_lt
  rw [Bool.eq_iff_iff]
  simp only [bne_iff_ne, ne_eq, decide_eq_true_eq]
  rw [← UInt32.toNat_inj, h, UInt32.toNat_zero]
  omega

theorem F32.ofParts_bits (neg : Bool) (rest : ℕ) (h : rest < 2 ^ 31) :
    (F32.ofParts neg rest).bits.toNat = (if neg then 2 ^ 31 else 0) + rest := by
  unfold F32.ofParts
  simp only [UInt32.toNat_or, UInt32.toNat_ofNat']
  have hr : rest % 2 ^ 32 = rest := Nat.mod_eq_of_lt (by omega)
  rw [hr]
  cases neg
  · simp
  · simp only [if_true]
    have : (0x8000_0000 : UInt32).toNat = 2 ^ 31 * 1 := by decide
    rw [this, ← Nat.two_pow_add_eq_or_of_lt h, Nat.mul_one]


theorem fmt32_mb : fmt32.mb = 23 := rfl
theorem fmt32_eb : fmt32.eb = 8 := rfl
theorem fmt32_qmin : fmt32.qmin = -149 := by decide
theorem fmt32_maxBiased : fmt32.maxBiased = 255 := by decide
theorem fmt32_infBits : fmt32.infBits = 255 * 2 ^ 23 := by decide
theorem fmt32_bias : fmt32.bias = 127 := by decide
theorem fmt32_emax : fmt32.emax = 127 := by decide

theorem F32.ofParts_sign (neg : Bool) (rest : ℕ) (h : rest < 2 ^ 31) :
    (F32.ofParts neg rest).sign = neg := by
  rw [F32.sign_eq, F32.ofParts_bits neg rest h]
  cases neg
  · simp; omega
  · simp

theorem F32.ofParts_rest (neg : Bool) (rest : ℕ) (h : rest < 2 ^ 31) :
    (F32.ofParts neg rest).bits.toNat % 2 ^ 31 = rest := by
  rw [F32.ofParts_bits neg rest h]
  cases neg <;> simp <;> omega

theorem F32.expField_eq' (x : F32) : x.expField = x.bits.toNat % 2 ^ 31 / 2 ^ 23 := by
  rw [F32.expField_eq]; omega

theorem F32.mantField_eq' (x : F32) : x.mantField = x.bits.toNat % 2 ^ 31 % 2 ^ 23 := by
  rw [F32.mantField_eq]; omega

theorem F32.ofParts_expField (neg : Bool) (rest : ℕ) (h : rest < 2 ^ 31) :
    (F32.ofParts neg rest).expField = rest / 2 ^ 23 := by
  rw [F32.expField_eq', F32.ofParts_rest neg rest h]

theorem F32.ofParts_mantField (neg : Bool) (rest : ℕ) (h : rest < 2 ^ 31) :
    (F32.ofParts neg rest).mantField = rest % 2 ^ 23 := by
  rw [F32.mantField_eq', F32.ofParts_rest neg rest h]

theorem F32.ofParts_isFinite (neg : Bool) (rest : ℕ) (h : rest < 2 ^ 31) :
    (F32.ofParts neg rest).isFinite = decide (rest < fmt32.infBits) := by
  rw [F32.isFinite, F32.ofParts_expField neg rest h, fmt32_infBits, Bool.eq_iff_iff]
  simp only [bne_iff_ne, ne_eq, decide_eq_true_eq]
  omega

theorem F32.ofParts_isInf (neg : Bool) (rest : ℕ) (h : rest < 2 ^ 31) :
    (F32.ofParts neg rest).isInf = decide (rest = fmt32.infBits) := by
  rw [F32.isInf, F32.ofParts_expField neg rest h, F32.ofParts_mantField neg rest h, fmt32_infBits,
    Bool.eq_iff_iff]
  simp only [Bool.and_eq_true, beq_iff_eq, decide_eq_true_eq]
  omega

theorem F32.ofParts_isNaN (neg : Bool) (rest : ℕ) (h : rest < 2 ^ 31) :
    (F32.ofParts neg rest).isNaN = decide (fmt32.infBits < rest) := by
  rw [F32.isNaN, F32.ofParts_expField neg rest h, F32.ofParts_mantField neg rest h, fmt32_infBits,
    Bool.eq_iff_iff]
  simp only [Bool.and_eq_true, beq_iff_eq, bne_iff_ne, ne_eq, decide_eq_true_eq]
  omega

theorem F32.ofParts_isZero (neg : Bool) (rest : ℕ) (h : rest < 2 ^ 31) :
    (F32.ofParts neg rest).isZero = decide (rest = 0) := by
  rw [F32.isZero, F32.ofParts_expField neg rest h, F32.ofParts_mantField neg rest h,
    Bool.eq_iff_iff]
  simp only [Bool.and_eq_true, beq_iff_eq, decide_eq_true_eq]
  omega

/-- the magnitude of a `float32` is the decoding of its low 31 bits (also used, formally, for
    non-finite patterns) -/
theorem F32.mag_eq_decode (x : F32) : x.mag = fmt32.decode (x.bits.toNat % 2 ^ 31) := by
  unfold F32.mag F32.dyadic BinFmt.decode
  rw [fmt32_mb, fmt32_qmin, ← F32.expField_eq', ← F32.mantField_eq']
  by_cases h : x.expField = 0
  · simp [h]
  · simp only [beq_iff_eq, h, if_false]
    congr 2
    omega

theorem F32.ofParts_mag (neg : Bool) (rest : ℕ) (h : rest < 2 ^ 31) :
    (F32.ofParts neg rest).mag = fmt32.decode rest := by
  rw [F32.mag_eq_decode, F32.ofParts_rest neg rest h]


/-! ## `F32.toF64` is exact -/

theorem F32.expField_lt (x : F32) : x.expField < 2 ^ 8 := by
  rw [F32.expField_eq]; exact Nat.mod_lt _ (by norm_num)

theorem F32.mantField_lt (x : F32) : x.mantField < 2 ^ 23 := by
  rw [F32.mantField_eq]; exact Nat.mod_lt _ (by norm_num)

theorem F64.expField_lt (x : F64) : x.expField < 2 ^ 11 := by
  rw [F64.expField_eq]; exact Nat.mod_lt _ (by norm_num)

theorem F64.mantField_lt (x : F64) : x.mantField < 2 ^ 52 := by
  rw [F64.mantField_eq]; exact Nat.mod_lt _ (by norm_num)

theorem F32.isFinite_iff (x : F32) : x.isFinite = true ↔ x.expField ≠ 255 := by
  simp [F32.isFinite]

theorem F32.not_nan_inf_of_finite (x : F32) (h : x.isFinite = true) :
    x.isNaN = false ∧ x.isInf = false := by
  have := (F32.isFinite_iff x).mp h
  simp [F32.isNaN, F32.isInf, this]

theorem F32.isFinite_eq (x : F32) : x.isFinite = !(x.isNaN || x.isInf) := by
  cases h1 : (x.expField == 255) <;> cases h2 : (x.mantField == 0) <;>
    simp [F32.isFinite, F32.isNaN, F32.isInf, bne, h1, h2]

/-- the rounding performed by `F32.toF64` on a finite argument is exact -/
theorem F32.toF64_round (x : F32) (h : x.isFinite = true) :
    roundDyadic fmt64 x.dyadic.1 x.dyadic.2 < fmt64.infBits ∧
    fmt64.decode (roundDyadic fmt64 x.dyadic.1 x.dyadic.2) = x.mag := by
  have hE := x.expField_lt
  have hM := x.mantField_lt
  have hfin := (F32.isFinite_iff x).mp h
  have hm : x.dyadic.1 < 2 ^ 24 := by
    unfold F32.dyadic; split <;> simp <;> omega
  have he : -149 ≤ x.dyadic.2 ∧ x.dyadic.2 ≤ 104 := by
    unfold F32.dyadic; split
    · simp
    · rename_i h0
      have : x.expField ≠ 0 := by simpa using h0
      simp; omega
  apply roundDyadic_exact_of_bits fmt64 (by decide)
  · rw [fmt64_mb]; omega
  · rw [fmt64_qmin]; omega
  · rw [fmt64_emax]; exact dyadic_lt_of_bits _ 24 _ _ hm (by omega)

theorem F32.toF64_of_finite (x : F32) (h : x.isFinite = true) :
    x.toF64 = F64.ofParts x.sign (roundDyadic fmt64 x.dyadic.1 x.dyadic.2) := by
  obtain ⟨h1, h2⟩ := x.not_nan_inf_of_finite h
  unfold F32.toF64 F32.dyadic
  simp only [h1, h2, Bool.false_eq_true, if_false]
  split <;> rfl

theorem roundDyadic_lt_two_pow_63 (m : ℕ) (e : ℤ) : roundDyadic fmt64 m e < 2 ^ 63 := by
  have := roundDyadic_le_infBits fmt64 (by decide) m e
  rw [fmt64_infBits] at this; omega

theorem roundDyadic_lt_two_pow_31 (m : ℕ) (e : ℤ) : roundDyadic fmt32 m e < 2 ^ 31 := by
  have := roundDyadic_le_infBits fmt32 (by decide) m e
  rw [fmt32_infBits] at this; omega

/-- widening keeps the sign (every argument, NaNs included) -/
theorem F32.toF64_sign (x : F32) : x.toF64.sign = x.sign := by
  have hM := x.mantField_lt
  unfold F32.toF64
  split
  · apply F64.ofParts_sign
    have : 2 ^ 51 ||| x.mantField * 2 ^ 29 < 2 ^ 52 :=
      Nat.or_lt_two_pow (by norm_num) (by omega)
    omega
  split
  · exact F64.ofParts_sign _ _ (by norm_num)
  split
  · exact F64.ofParts_sign _ _ (roundDyadic_lt_two_pow_63 _ _)
  · exact F64.ofParts_sign _ _ (roundDyadic_lt_two_pow_63 _ _)

theorem F32.toF64_isFinite (x : F32) (h : x.isFinite = true) : x.toF64.isFinite = true := by
  rw [F32.toF64_of_finite x h, F64.ofParts_isFinite _ _ (roundDyadic_lt_two_pow_63 _ _)]
  simpa using (F32.toF64_round x h).1

/-- **`float64(f)` is exact** on finite arguments -/
theorem F32.toF64_mag (x : F32) (h : x.isFinite = true) : x.toF64.mag = x.mag := by
  rw [F32.toF64_of_finite x h, F64.ofParts_mag _ _ (roundDyadic_lt_two_pow_63 _ _)]
  exact (F32.toF64_round x h).2

theorem F32.toF64_toRat (x : F32) (h : x.isFinite = true) : x.toF64.toRat = x.toRat := by
  rw [F64.toRat, F32.toRat, F32.toF64_sign, F32.toF64_mag x h]

theorem F32.toF64_isNaN (x : F32) : x.toF64.isNaN = x.isNaN := by
  have hM := x.mantField_lt
  by_cases hn : x.isNaN = true
  · have hor : 2 ^ 51 ||| x.mantField * 2 ^ 29 < 2 ^ 52 :=
      Nat.or_lt_two_pow (by norm_num) (by omega)
    have hpos : 2 ^ 51 ≤ 2 ^ 51 ||| x.mantField * 2 ^ 29 := Nat.left_le_or
    unfold F32.toF64
    rw [if_pos hn, hn, F64.ofParts_isNaN _ _ (by omega), fmt64_infBits]
    simp
  · have hn' : x.isNaN = false := by simpa using hn
    by_cases hi : x.isInf = true
    · unfold F32.toF64
      rw [if_neg hn, if_pos hi, hn', F64.ofParts_isNaN _ _ (by norm_num), fmt64_infBits]
      simp
    · have hf : x.isFinite = true := by rw [F32.isFinite_eq]; simp [hn', hi]
      rw [F32.toF64_of_finite x hf, F64.ofParts_isNaN _ _ (roundDyadic_lt_two_pow_63 _ _), hn']
      have := (F32.toF64_round x hf).1
      simp; omega

theorem F32.toF64_isInf (x : F32) : x.toF64.isInf = x.isInf := by
  have hM := x.mantField_lt
  by_cases hn : x.isNaN = true
  · have hor : 2 ^ 51 ||| x.mantField * 2 ^ 29 < 2 ^ 52 :=
      Nat.or_lt_two_pow (by norm_num) (by omega)
    have hpos : 2 ^ 51 ≤ 2 ^ 51 ||| x.mantField * 2 ^ 29 := Nat.left_le_or
    have hi : x.isInf = false := by
      simp only [F32.isNaN, F32.isInf, Bool.and_eq_true, beq_iff_eq, bne_iff_ne] at hn ⊢
      simp [hn.2]
    unfold F32.toF64
    rw [if_pos hn, hi, F64.ofParts_isInf _ _ (by omega), fmt64_infBits]
    simp
  · by_cases hi : x.isInf = true
    · unfold F32.toF64
      rw [if_neg hn, if_pos hi, hi, F64.ofParts_isInf _ _ (by norm_num), fmt64_infBits]
      simp
    · have hn' : x.isNaN = false := by simpa using hn
      have hi' : x.isInf = false := by simpa using hi
      have hf : x.isFinite = true := by rw [F32.isFinite_eq]; simp [hn', hi']
      rw [F32.toF64_of_finite x hf, F64.ofParts_isInf _ _ (roundDyadic_lt_two_pow_63 _ _), hi']
      have := (F32.toF64_round x hf).1
      simp; omega

theorem F32.toF64_isFinite_eq (x : F32) : x.toF64.isFinite = x.isFinite := by
  have h64 : ∀ y : F64, y.isFinite = !(y.isNaN || y.isInf) := by
    intro y
    cases h1 : (y.expField == 2047) <;> cases h2 : (y.mantField == 0) <;>
      simp [F64.isFinite, F64.isNaN, F64.isInf, bne, h1, h2]
  rw [h64, F32.isFinite_eq, F32.toF64_isNaN, F32.toF64_isInf]


/-! ## `F64.ofParts s (roundDyadic fmt64 m e)`: the shape of every rounding conversion to float64 -/

theorem F64.ofRound_sign (s : Bool) (m : ℕ) (e : ℤ) :
    (F64.ofParts s (roundDyadic fmt64 m e)).sign = s :=
  F64.ofParts_sign _ _ (roundDyadic_lt_two_pow_63 m e)

theorem F64.ofRound_rest (s : Bool) (m : ℕ) (e : ℤ) :
    (F64.ofParts s (roundDyadic fmt64 m e)).bits.toNat % 2 ^ 63 = roundDyadic fmt64 m e :=
  F64.ofParts_rest _ _ (roundDyadic_lt_two_pow_63 m e)

theorem F64.ofRound_isNaN (s : Bool) (m : ℕ) (e : ℤ) :
    (F64.ofParts s (roundDyadic fmt64 m e)).isNaN = false := by
  rw [F64.ofParts_isNaN _ _ (roundDyadic_lt_two_pow_63 m e)]
  have := roundDyadic_le_infBits fmt64 (by decide) m e
  simp; omega

/-- the result is ±Inf exactly from `(2^53 − 1/2)·2^971` on -/
theorem F64.ofRound_isInf_iff (s : Bool) (m : ℕ) (e : ℤ) :
    (F64.ofParts s (roundDyadic fmt64 m e)).isInf = true ↔
      ((2:ℚ) ^ 53 - 1 / 2) * (2:ℚ) ^ (971 : ℤ) ≤ (m : ℚ) * (2:ℚ) ^ e := by
  rw [F64.ofParts_isInf _ _ (roundDyadic_lt_two_pow_63 m e), decide_eq_true_eq,
    roundDyadic_eq_infBits_iff_ge fmt64 (by decide) (by decide), fmt64_emax, fmt64_mb]
  norm_num

theorem F64.ofRound_isFinite_iff (s : Bool) (m : ℕ) (e : ℤ) :
    (F64.ofParts s (roundDyadic fmt64 m e)).isFinite = true ↔
      (m : ℚ) * (2:ℚ) ^ e < ((2:ℚ) ^ 53 - 1 / 2) * (2:ℚ) ^ (971 : ℤ) := by
  rw [← not_le, ← F64.ofRound_isInf_iff s, F64.ofParts_isFinite _ _ (roundDyadic_lt_two_pow_63 m e),
    F64.ofParts_isInf _ _ (roundDyadic_lt_two_pow_63 m e)]
  have := roundDyadic_le_infBits fmt64 (by decide) m e
  simp; omega

theorem F64.ofRound_mag (s : Bool) (m : ℕ) (e : ℤ) :
    (F64.ofParts s (roundDyadic fmt64 m e)).mag = fmt64.decode (roundDyadic fmt64 m e) :=
  F64.ofParts_mag _ _ (roundDyadic_lt_two_pow_63 m e)

/-- a finite result is a nearest float64 (compared with every float64 magnitude `y.mag`) -/
theorem F64.ofRound_nearest (s : Bool) (m : ℕ) (e : ℤ)
    (h : (F64.ofParts s (roundDyadic fmt64 m e)).isFinite = true) (y : F64) :
    |(F64.ofParts s (roundDyadic fmt64 m e)).mag - (m : ℚ) * (2:ℚ) ^ e|
      ≤ |y.mag - (m : ℚ) * (2:ℚ) ^ e| := by
  rw [F64.ofParts_isFinite _ _ (roundDyadic_lt_two_pow_63 m e), decide_eq_true_eq] at h
  rw [F64.ofRound_mag, F64.mag_eq_decode y]
  exact roundDyadic_nearest fmt64 (by decide) m e h _

/-- ties go to the pattern with an even last bit -/
theorem F64.ofRound_tie (s : Bool) (m : ℕ) (e : ℤ)
    (h : (F64.ofParts s (roundDyadic fmt64 m e)).isFinite = true) (y : F64)
    (hne : y.bits.toNat % 2 ^ 63 ≠ roundDyadic fmt64 m e)
    (heq : |(F64.ofParts s (roundDyadic fmt64 m e)).mag - (m : ℚ) * (2:ℚ) ^ e|
      = |y.mag - (m : ℚ) * (2:ℚ) ^ e|) :
    (F64.ofParts s (roundDyadic fmt64 m e)).bits.toNat % 2 = 0 := by
  rw [F64.ofParts_isFinite _ _ (roundDyadic_lt_two_pow_63 m e), decide_eq_true_eq] at h
  rw [F64.ofRound_mag, F64.mag_eq_decode y] at heq
  have := roundDyadic_tie fmt64 (by decide) (by decide) m e h _ hne heq
  have hr := F64.ofRound_rest s m e
  omega

/-- representable values are produced exactly -/
theorem F64.ofRound_exact (s : Bool) (m : ℕ) (e : ℤ) (y : F64) (hy : y.isFinite = true)
    (hx : y.mag = (m : ℚ) * (2:ℚ) ^ e) :
    (F64.ofParts s (roundDyadic fmt64 m e)).bits.toNat % 2 ^ 63 = y.bits.toNat % 2 ^ 63 := by
  rw [F64.ofRound_rest]
  apply roundDyadic_exact fmt64 (by decide) m e
  · rw [F64.isFinite, F64.expField_eq', fmt64_infBits] at *
    simp only [bne_iff_ne, ne_eq] at hy
    have := y.bits.toNat_lt
    omega
  · rw [← F64.mag_eq_decode, hx]


/-! ## `F32.ofParts s (roundDyadic fmt32 m e)`: the shape of every rounding conversion to float32 -/

theorem F32.ofRound_sign (s : Bool) (m : ℕ) (e : ℤ) :
    (F32.ofParts s (roundDyadic fmt32 m e)).sign = s :=
  F32.ofParts_sign _ _ (roundDyadic_lt_two_pow_31 m e)

theorem F32.ofRound_rest (s : Bool) (m : ℕ) (e : ℤ) :
    (F32.ofParts s (roundDyadic fmt32 m e)).bits.toNat % 2 ^ 31 = roundDyadic fmt32 m e :=
  F32.ofParts_rest _ _ (roundDyadic_lt_two_pow_31 m e)

theorem F32.ofRound_isNaN (s : Bool) (m : ℕ) (e : ℤ) :
    (F32.ofParts s (roundDyadic fmt32 m e)).isNaN = false := by
  rw [F32.ofParts_isNaN _ _ (roundDyadic_lt_two_pow_31 m e)]
  have := roundDyadic_le_infBits fmt32 (by decide) m e
  simp; omega

/-- the result is ±Inf exactly from `(2^24 − 1/2)·2^104` on -/
theorem F32.ofRound_isInf_iff (s : Bool) (m : ℕ) (e : ℤ) :
    (F32.ofParts s (roundDyadic fmt32 m e)).isInf = true ↔
      ((2:ℚ) ^ 24 - 1 / 2) * (2:ℚ) ^ (104 : ℤ) ≤ (m : ℚ) * (2:ℚ) ^ e := by
  rw [F32.ofParts_isInf _ _ (roundDyadic_lt_two_pow_31 m e), decide_eq_true_eq,
    roundDyadic_eq_infBits_iff_ge fmt32 (by decide) (by decide), fmt32_emax, fmt32_mb]
  norm_num

theorem F32.ofRound_isFinite_iff (s : Bool) (m : ℕ) (e : ℤ) :
    (F32.ofParts s (roundDyadic fmt32 m e)).isFinite = true ↔
      (m : ℚ) * (2:ℚ) ^ e < ((2:ℚ) ^ 24 - 1 / 2) * (2:ℚ) ^ (104 : ℤ) := by
  rw [← not_le, ← F32.ofRound_isInf_iff s, F32.ofParts_isFinite _ _ (roundDyadic_lt_two_pow_31 m e),
    F32.ofParts_isInf _ _ (roundDyadic_lt_two_pow_31 m e)]
  have := roundDyadic_le_infBits fmt32 (by decide) m e
  simp; omega

theorem F32.ofRound_mag (s : Bool) (m : ℕ) (e : ℤ) :
    (F32.ofParts s (roundDyadic fmt32 m e)).mag = fmt32.decode (roundDyadic fmt32 m e) :=
  F32.ofParts_mag _ _ (roundDyadic_lt_two_pow_31 m e)

/-- a finite result is a nearest float32 (compared with every float32 magnitude `y.mag`) -/
theorem F32.ofRound_nearest (s : Bool) (m : ℕ) (e : ℤ)
    (h : (F32.ofParts s (roundDyadic fmt32 m e)).isFinite = true) (y : F32) :
    |(F32.ofParts s (roundDyadic fmt32 m e)).mag - (m : ℚ) * (2:ℚ) ^ e|
      ≤ |y.mag - (m : ℚ) * (2:ℚ) ^ e| := by
  rw [F32.ofParts_isFinite _ _ (roundDyadic_lt_two_pow_31 m e), decide_eq_true_eq] at h
  rw [F32.ofRound_mag, F32.mag_eq_decode y]
  exact roundDyadic_nearest fmt32 (by decide) m e h _

/-- ties go to the pattern with an even last bit -/
theorem F32.ofRound_tie (s : Bool) (m : ℕ) (e : ℤ)
    (h : (F32.ofParts s (roundDyadic fmt32 m e)).isFinite = true) (y : F32)
    (hne : y.bits.toNat % 2 ^ 31 ≠ roundDyadic fmt32 m e)
    (heq : |(F32.ofParts s (roundDyadic fmt32 m e)).mag - (m : ℚ) * (2:ℚ) ^ e|
      = |y.mag - (m : ℚ) * (2:ℚ) ^ e|) :
    (F32.ofParts s (roundDyadic fmt32 m e)).bits.toNat % 2 = 0 := by
  rw [F32.ofParts_isFinite _ _ (roundDyadic_lt_two_pow_31 m e), decide_eq_true_eq] at h
  rw [F32.ofRound_mag, F32.mag_eq_decode y] at heq
  have := roundDyadic_tie fmt32 (by decide) (by decide) m e h _ hne heq
  have hr := F32.ofRound_rest s m e
  omega

/-- representable values are produced exactly -/
theorem F32.ofRound_exact (s : Bool) (m : ℕ) (e : ℤ) (y : F32) (hy : y.isFinite = true)
    (hx : y.mag = (m : ℚ) * (2:ℚ) ^ e) :
    (F32.ofParts s (roundDyadic fmt32 m e)).bits.toNat % 2 ^ 31 = y.bits.toNat % 2 ^ 31 := by
  rw [F32.ofRound_rest]
  apply roundDyadic_exact fmt32 (by decide) m e
  · rw [F32.isFinite, F32.expField_eq', fmt32_infBits] at *
    simp only [bne_iff_ne, ne_eq] at hy
    have := y.bits.toNat_lt
    omega
  · rw [← F32.mag_eq_decode, hx]


/-! ## The conversions of `D128/Go/Float.lean` -/

theorem F32.toF64_isZero (x : F32) : x.toF64.isZero = x.isZero := by
  have hM := x.mantField_lt
  by_cases hf : x.isFinite = true
  · rw [F32.toF64_of_finite x hf, F64.ofParts_isZero _ _ (roundDyadic_lt_two_pow_63 _ _)]
    obtain ⟨-, hd⟩ := F32.toF64_round x hf
    rw [Bool.eq_iff_iff, decide_eq_true_eq]
    have h1 : roundDyadic fmt64 x.dyadic.1 x.dyadic.2 = 0 ↔ x.mag = 0 := by
      rw [← hd]
      constructor
      · intro h; rw [h, fmt64.decode_zero]
      · intro h; rw [← fmt64.decode_zero] at h; exact fmt64.decode_strictMono.injective h
    have h2 : x.mag = 0 ↔ x.dyadic.1 = 0 := by
      rw [F32.mag, mul_eq_zero]
      have := (two_zpow_pos x.dyadic.2).ne'
      simp [this]
    rw [h1, h2, F32.isZero, F32.dyadic]
    by_cases h0 : x.expField = 0
    · simp [h0]
    · simp [h0]
  · have hfin : x.expField = 255 := by
      by_contra h; exact hf ((F32.isFinite_iff x).mpr h)
    have hz : x.isZero = false := by simp [F32.isZero, hfin]
    have h64 := F32.toF64_isFinite_eq x
    have : x.toF64.isFinite = false := by rw [h64]; simpa using hf
    rw [hz]
    simp only [F64.isFinite, bne_eq_false_iff_eq] at this
    simp [F64.isZero, this]

/-! ### `float64(u)` for `u : uint64` -/

theorem F64.ofUInt64_sign (u : UInt64) : (F64.ofUInt64 u).sign = false :=
  F64.ofRound_sign _ _ _

theorem F64.ofUInt64_isNaN (u : UInt64) : (F64.ofUInt64 u).isNaN = false :=
  F64.ofRound_isNaN _ _ _

theorem F64.ofUInt64_isFinite (u : UInt64) : (F64.ofUInt64 u).isFinite = true := by
  rw [F64.ofUInt64, F64.ofParts_isFinite _ _ (roundDyadic_lt_two_pow_63 _ _), decide_eq_true_eq]
  apply roundDyadic_lt_infBits_of_lt fmt64 (by decide) (by decide)
  rw [fmt64_emax]
  exact dyadic_lt_of_bits _ 64 _ _ u.toNat_lt (by norm_num)

/-- `float64(u)` is a float64 nearest to `u` … -/
theorem F64.ofUInt64_nearest (u : UInt64) (y : F64) :
    |(F64.ofUInt64 u).mag - (u.toNat : ℚ)| ≤ |y.mag - (u.toNat : ℚ)| := by
  have := F64.ofRound_nearest false u.toNat 0 (F64.ofUInt64_isFinite u) y
  simpa [F64.ofUInt64] using this

/-- … with ties resolved to the even pattern -/
theorem F64.ofUInt64_tie (u : UInt64) (y : F64)
    (hne : y.bits.toNat % 2 ^ 63 ≠ (F64.ofUInt64 u).bits.toNat)
    (heq : |(F64.ofUInt64 u).mag - (u.toNat : ℚ)| = |y.mag - (u.toNat : ℚ)|) :
    (F64.ofUInt64 u).bits.toNat % 2 = 0 := by
  have hs := F64.ofParts_bits false _ (roundDyadic_lt_two_pow_63 u.toNat 0)
  simp only [Bool.false_eq_true, if_false, Nat.zero_add] at hs
  apply F64.ofRound_tie false u.toNat 0 (F64.ofUInt64_isFinite u) y
  · rw [F64.ofUInt64, hs] at hne; exact hne
  · simpa [F64.ofUInt64] using heq

/-- integers below `2^53` convert exactly -/
theorem F64.ofUInt64_exact (u : UInt64) (h : u.toNat < 2 ^ 53) :
    (F64.ofUInt64 u).mag = (u.toNat : ℚ) := by
  rw [F64.ofUInt64, F64.ofRound_mag]
  have := (roundDyadic_exact_of_bits fmt64 (by decide) u.toNat 0 (by rw [fmt64_mb]; exact h)
    (by rw [fmt64_qmin]; norm_num)
    (by rw [fmt64_emax]; exact dyadic_lt_of_bits _ 64 _ _ u.toNat_lt (by norm_num))).2
  simpa using this

/-! ### `math.Ldexp` -/

theorem math.Ldexp_special (x : F64) (e : Int64) (h : (x.isZero || x.isInf || x.isNaN) = true) :
    math.Ldexp x e = x := by
  rw [math.Ldexp, if_pos h]

theorem math.Ldexp_eq (x : F64) (e : Int64) (h : (x.isZero || x.isInf || x.isNaN) = false) :
    math.Ldexp x e = F64.ofParts x.sign (roundDyadic fmt64 x.dyadic.1 (x.dyadic.2 + e.toInt)) := by
  rw [math.Ldexp, if_neg (by simp [h])]

/-- the exact product the rounding of `Ldexp` is applied to -/
theorem F64.mag_mul_two_zpow (x : F64) (k : ℤ) :
    (x.dyadic.1 : ℚ) * (2:ℚ) ^ (x.dyadic.2 + k) = x.mag * (2:ℚ) ^ k := by
  rw [F64.mag, zpow_add₀ (by norm_num), mul_assoc]

theorem math.Ldexp_sign (x : F64) (e : Int64) : (math.Ldexp x e).sign = x.sign := by
  by_cases h : (x.isZero || x.isInf || x.isNaN) = true
  · rw [math.Ldexp_special x e h]
  · rw [math.Ldexp_eq x e (by simpa using h), F64.ofRound_sign]

/-- fields of `Ldexp x e` for finite non-zero `x` -/
theorem math.Ldexp_rest (x : F64) (e : Int64) (h : (x.isZero || x.isInf || x.isNaN) = false) :
    (math.Ldexp x e).bits.toNat % 2 ^ 63
      = roundDyadic fmt64 x.dyadic.1 (x.dyadic.2 + e.toInt) := by
  rw [math.Ldexp_eq x e h, F64.ofRound_rest]

theorem math.Ldexp_isNaN (x : F64) (e : Int64) (h : (x.isZero || x.isInf || x.isNaN) = false) :
    (math.Ldexp x e).isNaN = false := by
  rw [math.Ldexp_eq x e h, F64.ofRound_isNaN]

/-- overflow of `Ldexp` to ±Inf happens exactly from `(2^53 − 1/2)·2^971` on -/
theorem math.Ldexp_isInf_iff (x : F64) (e : Int64) (h : (x.isZero || x.isInf || x.isNaN) = false) :
    (math.Ldexp x e).isInf = true ↔
      ((2:ℚ) ^ 53 - 1 / 2) * (2:ℚ) ^ (971 : ℤ) ≤ x.mag * (2:ℚ) ^ e.toInt := by
  rw [math.Ldexp_eq x e h, F64.ofRound_isInf_iff, F64.mag_mul_two_zpow]

/-- a finite `Ldexp x e` is a float64 nearest to `x·2^e` -/
theorem math.Ldexp_nearest (x : F64) (e : Int64) (h : (x.isZero || x.isInf || x.isNaN) = false)
    (hfin : (math.Ldexp x e).isFinite = true) (y : F64) :
    |(math.Ldexp x e).mag - x.mag * (2:ℚ) ^ e.toInt| ≤ |y.mag - x.mag * (2:ℚ) ^ e.toInt| := by
  rw [math.Ldexp_eq x e h] at hfin ⊢
  rw [← F64.mag_mul_two_zpow]
  exact F64.ofRound_nearest _ _ _ hfin y

theorem math.Ldexp_tie (x : F64) (e : Int64) (h : (x.isZero || x.isInf || x.isNaN) = false)
    (hfin : (math.Ldexp x e).isFinite = true) (y : F64)
    (hne : y.bits.toNat % 2 ^ 63 ≠ (math.Ldexp x e).bits.toNat % 2 ^ 63)
    (heq : |(math.Ldexp x e).mag - x.mag * (2:ℚ) ^ e.toInt| = |y.mag - x.mag * (2:ℚ) ^ e.toInt|) :
    (math.Ldexp x e).bits.toNat % 2 = 0 := by
  rw [math.Ldexp_rest x e h] at hne
  rw [math.Ldexp_eq x e h] at hfin heq ⊢
  rw [← F64.mag_mul_two_zpow] at heq
  exact F64.ofRound_tie _ _ _ hfin y hne heq

/-- an exactly representable product is returned exactly -/
theorem math.Ldexp_exact (x : F64) (e : Int64) (h : (x.isZero || x.isInf || x.isNaN) = false)
    (y : F64) (hy : y.isFinite = true) (hx : y.mag = x.mag * (2:ℚ) ^ e.toInt) :
    (math.Ldexp x e).mag = x.mag * (2:ℚ) ^ e.toInt := by
  have := F64.ofRound_exact x.sign x.dyadic.1 (x.dyadic.2 + e.toInt) y hy
    (by rw [F64.mag_mul_two_zpow]; exact hx)
  rw [← math.Ldexp_eq x e h] at this
  rw [F64.mag_eq_decode, this, ← F64.mag_eq_decode, hx]

/-! ### `float32(f)` -/

theorem F64.isFinite_eq (y : F64) : y.isFinite = !(y.isNaN || y.isInf) := by
  cases h1 : (y.expField == 2047) <;> cases h2 : (y.mantField == 0) <;>
    simp [F64.isFinite, F64.isNaN, F64.isInf, bne, h1, h2]

theorem F64.toF32_of_finite (x : F64) (h : x.isFinite = true) :
    x.toF32 = F32.ofParts x.sign (roundDyadic fmt32 x.dyadic.1 x.dyadic.2) := by
  rw [F64.isFinite_eq] at h
  have h1 : x.isNaN = false := by
    cases hn : x.isNaN <;> simp [hn] at h ⊢
  have h2 : x.isInf = false := by
    cases hi : x.isInf <;> simp [hi, h1] at h ⊢
  simp [F64.toF32, h1, h2]

theorem F64.toF32_sign (x : F64) : x.toF32.sign = x.sign := by
  have hM := x.mantField_lt
  unfold F64.toF32
  split
  · apply F32.ofParts_sign
    have : 2 ^ 22 ||| x.mantField / 2 ^ 29 < 2 ^ 23 :=
      Nat.or_lt_two_pow (by norm_num) (by omega)
    omega
  split
  · exact F32.ofParts_sign _ _ (by norm_num)
  · exact F32.ofRound_sign _ _ _

theorem F64.toF32_isNaN (x : F64) : x.toF32.isNaN = x.isNaN := by
  have hM := x.mantField_lt
  by_cases hn : x.isNaN = true
  · have hor : 2 ^ 22 ||| x.mantField / 2 ^ 29 < 2 ^ 23 :=
      Nat.or_lt_two_pow (by norm_num) (by omega)
    have hpos : 2 ^ 22 ≤ 2 ^ 22 ||| x.mantField / 2 ^ 29 := Nat.left_le_or
    unfold F64.toF32
    rw [if_pos hn, hn, F32.ofParts_isNaN _ _ (by omega), fmt32_infBits]
    simp
  · have hn' : x.isNaN = false := by simpa using hn
    by_cases hi : x.isInf = true
    · unfold F64.toF32
      rw [if_neg hn, if_pos hi, hn', F32.ofParts_isNaN _ _ (by norm_num), fmt32_infBits]
      simp
    · have hf : x.isFinite = true := by rw [F64.isFinite_eq]; simp [hn', hi]
      rw [F64.toF32_of_finite x hf, F32.ofRound_isNaN, hn']

/-- narrowing overflows to ±Inf exactly from `(2^24 − 1/2)·2^104` on -/
theorem F64.toF32_isInf_iff (x : F64) (h : x.isFinite = true) :
    x.toF32.isInf = true ↔ ((2:ℚ) ^ 24 - 1 / 2) * (2:ℚ) ^ (104 : ℤ) ≤ x.mag := by
  rw [F64.toF32_of_finite x h, F32.ofRound_isInf_iff, F64.mag]

/-- **`float32(f)` is a nearest float32** (when it does not overflow) … -/
theorem F64.toF32_nearest (x : F64) (h : x.isFinite = true) (hfin : x.toF32.isFinite = true)
    (y : F32) : |x.toF32.mag - x.mag| ≤ |y.mag - x.mag| := by
  rw [F64.toF32_of_finite x h] at hfin ⊢
  exact F32.ofRound_nearest _ _ _ hfin y

/-- … with ties to the even pattern -/
theorem F64.toF32_tie (x : F64) (h : x.isFinite = true) (hfin : x.toF32.isFinite = true) (y : F32)
    (hne : y.bits.toNat % 2 ^ 31 ≠ x.toF32.bits.toNat % 2 ^ 31)
    (heq : |x.toF32.mag - x.mag| = |y.mag - x.mag|) : x.toF32.bits.toNat % 2 = 0 := by
  rw [F64.toF32_of_finite x h] at hfin heq hne ⊢
  rw [F32.ofRound_rest] at hne
  exact F32.ofRound_tie _ _ _ hfin y hne heq

/-- a float64 holding a float32 value narrows exactly -/
theorem F64.toF32_exact (x : F64) (h : x.isFinite = true) (y : F32) (hy : y.isFinite = true)
    (hx : y.mag = x.mag) : x.toF32.mag = x.mag := by
  have := F32.ofRound_exact x.sign x.dyadic.1 x.dyadic.2 y hy hx
  rw [← F64.toF32_of_finite x h] at this
  rw [F32.mag_eq_decode, this, ← F32.mag_eq_decode, hx]


/-- a pattern is determined by its sign and the remaining bits -/
theorem F32.ext_of_sign_rest (a b : F32) (hs : a.sign = b.sign)
    (hr : a.bits.toNat % 2 ^ 31 = b.bits.toNat % 2 ^ 31) : a = b := by
  rw [F32.sign_eq, F32.sign_eq, decide_eq_decide] at hs
  have ha := a.bits.toNat_lt
  have hb := b.bits.toNat_lt
  have : a.bits.toNat = b.bits.toNat := by omega
  cases a; cases b
  simp only [F32.mk.injEq]
  exact UInt32.toNat_inj.mp this

/-- widening then narrowing a finite float32 gives it back -/
theorem F32.toF64_toF32 (x : F32) (h : x.isFinite = true) : x.toF64.toF32 = x := by
  have hf := F32.toF64_isFinite x h
  apply F32.ext_of_sign_rest
  · rw [F64.toF32_sign, F32.toF64_sign]
  · rw [F64.toF32_of_finite _ hf]
    exact F32.ofRound_exact _ _ _ x h (F32.toF64_mag x h).symm

/-! ## Instances of the general theorems for the two formats, and sanity examples -/

theorem roundDyadic64_le (m : ℕ) (e : ℤ) : roundDyadic fmt64 m e ≤ 2047 * 2 ^ 52 :=
  fmt64_infBits ▸ roundDyadic_le_infBits fmt64 (by decide) m e
theorem roundDyadic32_le (m : ℕ) (e : ℤ) : roundDyadic fmt32 m e ≤ 255 * 2 ^ 23 :=
  fmt32_infBits ▸ roundDyadic_le_infBits fmt32 (by decide) m e

theorem roundDyadic64_mono (m m' : ℕ) (e e' : ℤ) (h : (m : ℚ) * (2:ℚ) ^ e ≤ (m' : ℚ) * (2:ℚ) ^ e') :
    roundDyadic fmt64 m e ≤ roundDyadic fmt64 m' e' :=
  roundDyadic_mono fmt64 (by decide) (by decide) m m' e e' h
theorem roundDyadic32_mono (m m' : ℕ) (e e' : ℤ) (h : (m : ℚ) * (2:ℚ) ^ e ≤ (m' : ℚ) * (2:ℚ) ^ e') :
    roundDyadic fmt32 m e ≤ roundDyadic fmt32 m' e' :=
  roundDyadic_mono fmt32 (by decide) (by decide) m m' e e' h

theorem roundDyadic64_overflow_iff (m : ℕ) (e : ℤ) :
    roundDyadic fmt64 m e = 2047 * 2 ^ 52 ↔
      ((2:ℚ) ^ 53 - 1 / 2) * (2:ℚ) ^ (971 : ℤ) ≤ (m : ℚ) * (2:ℚ) ^ e := by
  rw [← fmt64_infBits, roundDyadic_eq_infBits_iff_ge fmt64 (by decide) (by decide), fmt64_emax,
    fmt64_mb]
  norm_num
theorem roundDyadic32_overflow_iff (m : ℕ) (e : ℤ) :
    roundDyadic fmt32 m e = 255 * 2 ^ 23 ↔
      ((2:ℚ) ^ 24 - 1 / 2) * (2:ℚ) ^ (104 : ℤ) ≤ (m : ℚ) * (2:ℚ) ^ e := by
  rw [← fmt32_infBits, roundDyadic_eq_infBits_iff_ge fmt32 (by decide) (by decide), fmt32_emax,
    fmt32_mb]
  norm_num



/-! ## Signed values -/

theorem F64.mag_nonneg (x : F64) : 0 ≤ x.mag := by
  rw [F64.mag_eq_decode]; exact fmt64.decode_nonneg _

theorem F32.mag_nonneg (x : F32) : 0 ≤ x.mag := by
  rw [F32.mag_eq_decode]; exact fmt32.decode_nonneg _

/-- from magnitudes to signed values: a nearest magnitude carrying the sign of `c` is a nearest
    signed value (`h0`: the comparison with the pattern of zero) -/
theorem signed_nearest (s sy : Bool) (a b c : ℚ) (hb : 0 ≤ b) (hc : 0 ≤ c)
    (h : |a - c| ≤ |b - c|) (h0 : |a - c| ≤ |0 - c|) :
    |(if s then -a else a) - (if s then -c else c)|
      ≤ |(if sy then -b else b) - (if s then -c else c)| := by
  have e1 : |(if s then -a else a) - (if s then -c else c)| = |a - c| := by
    cases s
    · simp
    · simp only [if_true]; rw [← abs_neg]; congr 1; ring
  rw [e1]
  rw [zero_sub, abs_neg, abs_of_nonneg hc] at h0
  cases s <;> cases sy <;> simp only [Bool.false_eq_true, if_false, if_true]
  · exact h
  · refine h0.trans ?_
    rw [abs_of_nonpos (by linarith)]; linarith
  · refine h0.trans ?_
    rw [abs_of_nonneg (by linarith)]; linarith
  · have : -b - -c = -(b - c) := by ring
    rw [this, abs_neg]; exact h

/-- **`float32(f)` rounds the signed value to nearest**: for finite `x` whose narrowing does not
    overflow, no float32 is closer to `x` than `float32(x)` -/
theorem F64.toF32_toRat_nearest (x : F64) (h : x.isFinite = true) (hfin : x.toF32.isFinite = true)
    (y : F32) : |x.toF32.toRat - x.toRat| ≤ |y.toRat - x.toRat| := by
  have h0 := F64.toF32_nearest x h hfin ⟨0⟩
  have hz : (⟨0⟩ : F32).mag = 0 := by
    rw [F32.mag_eq_decode]; exact fmt32.decode_zero
  rw [hz] at h0
  rw [F32.toRat, F32.toRat, F64.toRat, F64.toF32_sign]
  exact signed_nearest _ _ _ _ _ y.mag_nonneg x.mag_nonneg
    (F64.toF32_nearest x h hfin y) h0

/-- **`math.Ldexp` rounds the signed product to nearest** -/
theorem math.Ldexp_toRat_nearest (x : F64) (e : Int64)
    (h : (x.isZero || x.isInf || x.isNaN) = false) (hfin : (math.Ldexp x e).isFinite = true)
    (y : F64) :
    |(math.Ldexp x e).toRat - x.toRat * (2:ℚ) ^ e.toInt| ≤ |y.toRat - x.toRat * (2:ℚ) ^ e.toInt| := by
  have h0 := math.Ldexp_nearest x e h hfin ⟨0⟩
  have hz : (⟨0⟩ : F64).mag = 0 := by
    rw [F64.mag_eq_decode]; exact fmt64.decode_zero
  rw [hz] at h0
  have hp := two_zpow_pos e.toInt
  have e1 : x.toRat * (2:ℚ) ^ e.toInt
      = if x.sign then -(x.mag * (2:ℚ) ^ e.toInt) else x.mag * (2:ℚ) ^ e.toInt := by
    rw [F64.toRat]; split <;> ring
  rw [e1, F64.toRat, F64.toRat, math.Ldexp_sign]
  exact signed_nearest _ _ _ _ _ y.mag_nonneg
    (mul_nonneg x.mag_nonneg hp.le) (math.Ldexp_nearest x e h hfin y) h0

/-- `float64(u)` as a signed value -/
theorem F64.ofUInt64_toRat_nearest (u : UInt64) (y : F64) :
    |(F64.ofUInt64 u).toRat - (u.toNat : ℚ)| ≤ |y.toRat - (u.toNat : ℚ)| := by
  have h0 := F64.ofUInt64_nearest u ⟨0⟩
  have hz : (⟨0⟩ : F64).mag = 0 := by
    rw [F64.mag_eq_decode]; exact fmt64.decode_zero
  rw [hz] at h0
  have := signed_nearest false y.sign _ _ _ y.mag_nonneg
    (Nat.cast_nonneg u.toNat) (F64.ofUInt64_nearest u y) h0
  rw [F64.toRat, F64.toRat, F64.ofUInt64_sign]
  simpa using this

/-! ## Examples: the hypotheses of the conversion theorems on concrete patterns -/

/-- smallest positive subnormal float32, widened exactly -/
example : (⟨0x0000_0001⟩ : F32).isFinite = true ∧
    (⟨0x0000_0001⟩ : F32).toF64 = ⟨0x36A0_0000_0000_0000⟩ := by decide

/-- `float64(2^53 + 1) = 2^53` (tie to even); `2^64 − 1` rounds up to `2^64` -/
example : F64.ofUInt64 (2 ^ 53 + 1) = ⟨0x4340_0000_0000_0000⟩ ∧
    F64.ofUInt64 0xffff_ffff_ffff_ffff = ⟨0x43F0_0000_0000_0000⟩ := by decide

/-- `Ldexp(1.5, -1074)`: tie between the subnormals 1 and 2, even wins; `Ldexp(1, 1024) = +Inf` -/
example : ((⟨0x3FF8_0000_0000_0000⟩ : F64).isZero || (⟨0x3FF8_0000_0000_0000⟩ : F64).isInf
      || (⟨0x3FF8_0000_0000_0000⟩ : F64).isNaN) = false ∧
    math.Ldexp ⟨0x3FF8_0000_0000_0000⟩ (-1074) = ⟨2⟩ ∧
    math.Ldexp ⟨0x3FF0_0000_0000_0000⟩ 1024 = ⟨0x7FF0_0000_0000_0000⟩ := by decide

/-- narrowing `1 + 2^-24` (a tie) gives `1.0`; the overflow midpoint `(2^24 − 1/2)·2^104` gives +Inf -/
example : (⟨0x3FF0_0000_1000_0000⟩ : F64).isFinite = true ∧
    (⟨0x3FF0_0000_1000_0000⟩ : F64).toF32 = ⟨0x3F80_0000⟩ ∧
    (⟨0x47EF_FFFF_F000_0000⟩ : F64).toF32 = ⟨0x7F80_0000⟩ ∧
    (⟨0x47EF_FFFF_EFFF_FFFF⟩ : F64).toF32 = ⟨0x7F7F_FFFF⟩ := by decide


end Go
