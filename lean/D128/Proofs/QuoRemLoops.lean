/-
  D128/Proofs/QuoRemLoops.lean — the scaling loops of `Gen.Decimal.QuoRemWithMode` (the bodies named in
  `QuoRemCode.lean`) and the loop that drops digits of the 192-bit sum.  Every theorem shows
  termination, absence of panics and of `Int16` wrap-around, and the exact result.

  Provided (namespace `QR`):
  * `scale_rule`   : generic rule for a loop
                     `while j ≤ E && X < B && Y < B { X *= 10^j; Y *= 10^j; E -= j; … }`
  * `so4Loop`, `so1Loop` : scaling of the divisor (the exponent gap is negative and increases)
  * `sd4Loop`, `sd1Loop` : scaling of the dividend
  * `m4Loop`, `m1Loop`   : joint scaling of quotient and remainder
  * `r4Loop`, `r1Loop`   : scaling of the remainder alone
  * `dropLoop`     : `for sig192[2] != 0 { sig192, rem192 = sig192.div10(); qexp++; … }` ends with
                     `s / 10^j < 2^128`, `qexp + j`, sticky set iff `s % 10^j ≠ 0`, and
                     `j = 0 ∨ 2^128 ≤ 10 * (s / 10^j)`
  * `aLoop_dead`   : the 64-bit accumulation loop does nothing when `exp ≤ 0`
-/
import D128.Proofs.QuoRemCode
import D128.Proofs.RoundKernelReduceCode
import D128.Proofs.WordsWide

set_option autoImplicit false
set_option maxRecDepth 8192
set_option linter.unusedVariables false
set_option linter.unusedSimpArgs false

namespace QR
open Gen

/-- `Cmax + 1 = (0x0002_7fff_ffff_ffff + 1)·2^64` -/
abbrev B27 : Nat := 12980742146337069071326240823050240
/-- `(0x18ff_ffff_ffff_ffff + 1)·2^64 = 25·2^120` -/
abbrev B18 : Nat := 33230699894622896822595176507008614400

/-- generic rule for the scaling loops: `E` is the remaining exponent budget, `X`, `Y` the scaled
    numbers, `P` an invariant of the other variables -/
theorem scale_rule {β : Type} (f : Unit → β → Go.GoM (ForInStep β)) (E : β → Int) (X Y : β → Nat)
    (P : β → Prop) (j B : Nat) (hj : 0 < j)
    (hf : ∀ b, (((j : Int) ≤ E b ∧ X b < B ∧ Y b < B) → P b →
              ∃ b', f () b = .ok (.yield b') ∧ E b' = E b - (j : Int) ∧ X b' = X b * 10 ^ j ∧
                Y b' = Y b * 10 ^ j ∧ P b') ∧
          (¬ ((j : Int) ≤ E b ∧ X b < B ∧ Y b < B) → f () b = .ok (.done b)))
    (b0 : β) (hP : P b0) :
    ∃ (b' : β) (m : Nat), forIn (m := Go.GoM) Lean.Loop.mk b0 f = .ok b' ∧ E b' = E b0 - (m : Int) ∧
      X b' = X b0 * 10 ^ m ∧ Y b' = Y b0 * 10 ^ m ∧ P b' ∧ (m = 0 ∨ 0 ≤ E b') ∧
      ¬ ((j : Int) ≤ E b' ∧ X b' < B ∧ Y b' < B) := by
  have key := RK.loop_inv f
    (fun b => ∃ m : Nat, E b = E b0 - (m : Int) ∧ X b = X b0 * 10 ^ m ∧ Y b = Y b0 * 10 ^ m ∧ P b ∧
      (m = 0 ∨ 0 ≤ E b))
    (fun b => ∃ m : Nat, E b = E b0 - (m : Int) ∧ X b = X b0 * 10 ^ m ∧ Y b = Y b0 * 10 ^ m ∧ P b ∧
      (m = 0 ∨ 0 ≤ E b) ∧ ¬ ((j : Int) ≤ E b ∧ X b < B ∧ Y b < B))
    (fun b => (E b).toNat) ?_ b0 ⟨0, by simp, by simp, by simp, hP, Or.inl rfl⟩
  · obtain ⟨b', e, m, h1, h2, h3, h4, h5, h6⟩ := key
    exact ⟨b', m, e, h1, h2, h3, h4, h5, h6⟩
  · rintro b ⟨m, hEb, hXb, hYb, hPb, hmb⟩
    by_cases hc : (j : Int) ≤ E b ∧ X b < B ∧ Y b < B
    · left
      obtain ⟨b', e, h1, h2, h3, h4⟩ := (hf b).1 hc hPb
      refine ⟨b', e, ⟨m + j, ?_, ?_, ?_, h4, Or.inr (by omega)⟩, ?_⟩
      · rw [h1, hEb]; push_cast; ring
      · rw [h2, hXb, Nat.pow_add, Nat.mul_assoc]
      · rw [h3, hYb, Nat.pow_add, Nat.mul_assoc]
      · show (E b').toNat < (E b).toNat
        rw [h1]; omega
    · right
      exact ⟨b, (hf b).2 hc, m, hEb, hXb, hYb, hPb, hmb, hc⟩

/-! ## helpers -/

theorem w1_le_27 (x : U128) : decide (x.w1 ≤ 703687441776639) = decide (x.toNat < B27) := by
  have h0 := x.w0.toNat_lt
  apply decide_eq_decide.2
  rw [UInt64.le_iff_toNat_le]
  simp only [U128.toNat, UInt64.toNat_ofNat, Nat.reducePow, Nat.reduceMod, B27]
  omega

theorem w1_le_18 (x : U128) : decide (x.w1 ≤ 1801439850948198399) = decide (x.toNat < B18) := by
  have h0 := x.w0.toNat_lt
  apply decide_eq_decide.2
  rw [UInt64.le_iff_toNat_le]
  simp only [U128.toNat, UInt64.toNat_ofNat, Nat.reducePow, Nat.reduceMod, B18]
  omega

theorem i16_ge_4 (e : Int16) : decide (e ≥ 4) = decide ((4 : Int) ≤ e.toInt) := by
  apply decide_eq_decide.2
  rw [ge_iff_le, Int16.le_iff_toInt_le]; simp

theorem i16_gt_0 (e : Int16) : decide (e > 0) = decide ((1 : Int) ≤ e.toInt) := by
  apply decide_eq_decide.2
  rw [gt_iff_lt, Int16.lt_iff_toInt_lt]; simp; omega

theorem i16_le_m4 (e : Int16) : decide (e ≤ -4) = decide ((4 : Int) ≤ -e.toInt) := by
  apply decide_eq_decide.2
  rw [Int16.le_iff_toInt_le]; simp; omega

theorem i16_lt_0 (e : Int16) : decide (e < 0) = decide ((1 : Int) ≤ -e.toInt) := by
  apply decide_eq_decide.2
  rw [Int16.lt_iff_toInt_lt]; simp; omega

theorem i16_sub_small (e c : Int16) (hc0 : 0 ≤ c.toInt) (hc : c.toInt ≤ e.toInt) :
    (e - c).toInt = e.toInt - c.toInt := by
  have := e.toInt_lt
  have := e.le_toInt
  rw [Int16.toInt_sub_of] <;> omega

theorem i16_add_small (e c : Int16) (hc0 : 0 ≤ c.toInt) (hc : c.toInt ≤ -e.toInt) :
    (e + c).toInt = e.toInt + c.toInt := by
  have := e.toInt_lt
  have := e.le_toInt
  rw [Int16.toInt_add_of] <;> omega

theorem mul64_1e4 (x : U128) (h : x.toNat < B27) : (U128.mul64 x 10000).toNat = x.toNat * 10 ^ 4 := by
  rw [U128_mul64_toNat_of_lt]
  · rfl
  · have : (10000 : UInt64).toNat = 10000 := rfl
    rw [this]; simp only [B27] at h; omega

theorem mul64_10 (x : U128) (h : x.toNat < B18) : (U128.mul64 x 10).toNat = x.toNat * 10 ^ 1 := by
  rw [U128_mul64_toNat_of_lt]
  · rfl
  · have : (10 : UInt64).toNat = 10 := rfl
    rw [this]; simp only [B18] at h; omega

/-! ## scaling of the divisor: state `(oSig, exp)`, `exp < 0` increasing -/

theorem so4Loop (s : U128 × Int16) :
    ∃ (s' : U128 × Int16) (m : Nat), forIn (m := Go.GoM) Lean.Loop.mk s so4Body = .ok s' ∧
      s'.2.toInt = s.2.toInt + (m : Int) ∧ s'.1.toNat = s.1.toNat * 10 ^ m ∧
      ((m : Int) ≤ -s.2.toInt ∨ m = 0) := by
  have key := scale_rule so4Body (fun s => -s.2.toInt) (fun s => s.1.toNat) (fun _ => 0)
    (fun _ => True) 4 B27 (by norm_num) ?_ s trivial
  · obtain ⟨b', m, e, h1, h2, -, -, h5, -⟩ := key
    refine ⟨b', m, e, by omega, h2, ?_⟩
    rcases h5 with h5 | h5
    · exact Or.inr h5
    · left; omega
  · intro b
    constructor
    · rintro ⟨hE, hX, -⟩ -
      have hE' : (4 : Int) ≤ -b.2.toInt := by exact_mod_cast hE
      refine ⟨(U128.mul64 b.1 10000, b.2 + 4), ?_, ?_, ?_, by simp, trivial⟩
      · simp only [so4Body, i16_le_m4, w1_le_27, hE', hX, decide_true, Bool.and_self, if_true]; rfl
      · show -(b.2 + 4).toInt = _
        rw [i16_add_small _ _ (by decide) (by simpa using hE')]
        have : (4 : Int16).toInt = 4 := rfl
        rw [this]; push_cast; ring
      · exact mul64_1e4 _ hX
    · intro hc
      have hc' : ¬ ((4 : Int) ≤ -b.2.toInt ∧ b.1.toNat < B27) := by
        intro h; exact hc ⟨by exact_mod_cast h.1, h.2, by norm_num⟩
      simp only [so4Body, i16_le_m4, w1_le_27, Bool.and_eq_true, decide_eq_true_eq, hc', if_false]; rfl

theorem so1Loop (s : U128 × Int16) :
    ∃ (s' : U128 × Int16) (m : Nat), forIn (m := Go.GoM) Lean.Loop.mk s so1Body = .ok s' ∧
      s'.2.toInt = s.2.toInt + (m : Int) ∧ s'.1.toNat = s.1.toNat * 10 ^ m ∧
      ((m : Int) ≤ -s.2.toInt ∨ m = 0) ∧ ¬ (s'.2.toInt < 0 ∧ s'.1.toNat < B18) := by
  have key := scale_rule so1Body (fun s => -s.2.toInt) (fun s => s.1.toNat) (fun _ => 0)
    (fun _ => True) 1 B18 (by norm_num) ?_ s trivial
  · obtain ⟨b', m, e, h1, h2, -, -, h5, h6⟩ := key
    refine ⟨b', m, e, by omega, h2, ?_, ?_⟩
    · rcases h5 with h5 | h5
      · exact Or.inr h5
      · left; omega
    · intro h; apply h6; exact ⟨by push_cast; omega, h.2, by norm_num⟩
  · intro b
    constructor
    · rintro ⟨hE, hX, -⟩ -
      have hE' : (1 : Int) ≤ -b.2.toInt := by exact_mod_cast hE
      refine ⟨(U128.mul64 b.1 10, b.2 + 1), ?_, ?_, ?_, by simp, trivial⟩
      · simp only [so1Body, i16_lt_0, w1_le_18, hE', hX, decide_true, Bool.and_self, if_true]; rfl
      · show -(b.2 + 1).toInt = _
        rw [i16_add_small _ _ (by decide) (by simpa using hE')]
        have : (1 : Int16).toInt = 1 := rfl
        rw [this]; push_cast; ring
      · exact mul64_10 _ hX
    · intro hc
      have hc' : ¬ ((1 : Int) ≤ -b.2.toInt ∧ b.1.toNat < B18) := by
        intro h; exact hc ⟨by exact_mod_cast h.1, h.2, by norm_num⟩
      simp only [so1Body, i16_lt_0, w1_le_18, Bool.and_eq_true, decide_eq_true_eq, hc', if_false]; rfl

/-! ## scaling of the dividend: state `(dSig, dExp, exp)` -/

theorem sd4Loop (s : U128 × Int16 × Int16) :
    ∃ (s' : U128 × Int16 × Int16) (m : Nat), forIn (m := Go.GoM) Lean.Loop.mk s sd4Body = .ok s' ∧
      s'.2.2.toInt = s.2.2.toInt - (m : Int) ∧ s'.1.toNat = s.1.toNat * 10 ^ m ∧
      s'.2.1 - s'.2.2 = s.2.1 - s.2.2 ∧ (m = 0 ∨ 0 ≤ s'.2.2.toInt) := by
  have key := scale_rule sd4Body (fun s => s.2.2.toInt) (fun s => s.1.toNat) (fun _ => 0)
    (fun b => b.2.1 - b.2.2 = s.2.1 - s.2.2) 4 B27 (by norm_num) ?_ s rfl
  · obtain ⟨b', m, e, h1, h2, -, h4, h5, -⟩ := key
    exact ⟨b', m, e, h1, h2, h4, h5⟩
  · intro b
    constructor
    · rintro ⟨hE, hX, -⟩ hP
      have hE' : (4 : Int) ≤ b.2.2.toInt := by exact_mod_cast hE
      refine ⟨(U128.mul64 b.1 10000, b.2.1 - 4, b.2.2 - 4), ?_, ?_, ?_, by simp, ?_⟩
      · simp only [sd4Body, i16_ge_4, w1_le_27, hE', hX, decide_true, Bool.and_self, if_true]; rfl
      · show (b.2.2 - 4).toInt = _
        rw [i16_sub_small _ _ (by decide) (by simpa using hE')]
        have : (4 : Int16).toInt = 4 := rfl
        rw [this]; push_cast; ring
      · exact mul64_1e4 _ hX
      · show b.2.1 - 4 - (b.2.2 - 4) = _
        rw [← hP]; grind
    · intro hc
      have hc' : ¬ ((4 : Int) ≤ b.2.2.toInt ∧ b.1.toNat < B27) := by
        intro h; exact hc ⟨by exact_mod_cast h.1, h.2, by norm_num⟩
      simp only [sd4Body, i16_ge_4, w1_le_27, Bool.and_eq_true, decide_eq_true_eq, hc', if_false]; rfl

theorem sd1Loop (s : U128 × Int16 × Int16) :
    ∃ (s' : U128 × Int16 × Int16) (m : Nat), forIn (m := Go.GoM) Lean.Loop.mk s sd1Body = .ok s' ∧
      s'.2.2.toInt = s.2.2.toInt - (m : Int) ∧ s'.1.toNat = s.1.toNat * 10 ^ m ∧
      s'.2.1 - s'.2.2 = s.2.1 - s.2.2 ∧ (m = 0 ∨ 0 ≤ s'.2.2.toInt) ∧
      ¬ (0 < s'.2.2.toInt ∧ s'.1.toNat < B18) := by
  have key := scale_rule sd1Body (fun s => s.2.2.toInt) (fun s => s.1.toNat) (fun _ => 0)
    (fun b => b.2.1 - b.2.2 = s.2.1 - s.2.2) 1 B18 (by norm_num) ?_ s rfl
  · obtain ⟨b', m, e, h1, h2, -, h4, h5, h6⟩ := key
    refine ⟨b', m, e, h1, h2, h4, h5, ?_⟩
    intro h; apply h6; exact ⟨by push_cast; omega, h.2, by norm_num⟩
  · intro b
    constructor
    · rintro ⟨hE, hX, -⟩ hP
      have hE' : (1 : Int) ≤ b.2.2.toInt := by exact_mod_cast hE
      refine ⟨(U128.mul64 b.1 10, b.2.1 - 1, b.2.2 - 1), ?_, ?_, ?_, by simp, ?_⟩
      · simp only [sd1Body, i16_gt_0, w1_le_18, hE', hX, decide_true, Bool.and_self, if_true]; rfl
      · show (b.2.2 - 1).toInt = _
        rw [i16_sub_small _ _ (by decide) (by simpa using hE')]
        have : (1 : Int16).toInt = 1 := rfl
        rw [this]; push_cast; ring
      · exact mul64_10 _ hX
      · show b.2.1 - 1 - (b.2.2 - 1) = _
        rw [← hP]; grind
    · intro hc
      have hc' : ¬ ((1 : Int) ≤ b.2.2.toInt ∧ b.1.toNat < B18) := by
        intro h; exact hc ⟨by exact_mod_cast h.1, h.2, by norm_num⟩
      simp only [sd1Body, i16_gt_0, w1_le_18, Bool.and_eq_true, decide_eq_true_eq, hc', if_false]; rfl

/-! ## joint scaling of quotient and remainder: state `(exp, qexp, rexp, sig, rem)` -/

theorem m4Loop (s : M5) :
    ∃ (s' : M5) (m : Nat), forIn (m := Go.GoM) Lean.Loop.mk s m4Body = .ok s' ∧
      s'.1.toInt = s.1.toInt - (m : Int) ∧ s'.2.2.2.1.toNat = s.2.2.2.1.toNat * 10 ^ m ∧
      s'.2.2.2.2.toNat = s.2.2.2.2.toNat * 10 ^ m ∧
      s'.2.1 - s'.1 = s.2.1 - s.1 ∧ s'.2.2.1 - s'.1 = s.2.2.1 - s.1 ∧ (m = 0 ∨ 0 ≤ s'.1.toInt) := by
  have key := scale_rule m4Body (fun s => s.1.toInt) (fun s => s.2.2.2.1.toNat)
    (fun s => s.2.2.2.2.toNat)
    (fun b => b.2.1 - b.1 = s.2.1 - s.1 ∧ b.2.2.1 - b.1 = s.2.2.1 - s.1) 4 B27 (by norm_num) ?_ s
    ⟨rfl, rfl⟩
  · obtain ⟨b', m, e, h1, h2, h3, h4, h5, -⟩ := key
    exact ⟨b', m, e, h1, h2, h3, h4.1, h4.2, h5⟩
  · intro b
    constructor
    · rintro ⟨hE, hX, hY⟩ hP
      have hE' : (4 : Int) ≤ b.1.toInt := by exact_mod_cast hE
      refine ⟨(b.1 - 4, b.2.1 - 4, b.2.2.1 - 4, U128.mul64 b.2.2.2.1 10000,
        U128.mul64 b.2.2.2.2 10000), ?_, ?_, ?_, ?_, ?_, ?_⟩
      · simp only [m4Body, i16_ge_4, w1_le_27, hE', hX, hY, decide_true, Bool.and_self, if_true]; rfl
      · show (b.1 - 4).toInt = _
        rw [i16_sub_small _ _ (by decide) (by simpa using hE')]
        have : (4 : Int16).toInt = 4 := rfl
        rw [this]; push_cast; ring
      · exact mul64_1e4 _ hX
      · exact mul64_1e4 _ hY
      · show b.2.1 - 4 - (b.1 - 4) = _
        rw [← hP.1]; grind
      · show b.2.2.1 - 4 - (b.1 - 4) = _
        rw [← hP.2]; grind
    · intro hc
      have hc' : ¬ (((4 : Int) ≤ b.1.toInt ∧ b.2.2.2.2.toNat < B27) ∧ b.2.2.2.1.toNat < B27) := by
        intro h; exact hc ⟨by exact_mod_cast h.1.1, h.2, h.1.2⟩
      simp only [m4Body, i16_ge_4, w1_le_27, Bool.and_eq_true, decide_eq_true_eq, hc', if_false]; rfl

theorem m1Loop (s : M5) :
    ∃ (s' : M5) (m : Nat), forIn (m := Go.GoM) Lean.Loop.mk s m1Body = .ok s' ∧
      s'.1.toInt = s.1.toInt - (m : Int) ∧ s'.2.2.2.1.toNat = s.2.2.2.1.toNat * 10 ^ m ∧
      s'.2.2.2.2.toNat = s.2.2.2.2.toNat * 10 ^ m ∧
      s'.2.1 - s'.1 = s.2.1 - s.1 ∧ s'.2.2.1 - s'.1 = s.2.2.1 - s.1 ∧ (m = 0 ∨ 0 ≤ s'.1.toInt) ∧
      ¬ (0 < s'.1.toInt ∧ s'.2.2.2.1.toNat < B18 ∧ s'.2.2.2.2.toNat < B18) := by
  have key := scale_rule m1Body (fun s => s.1.toInt) (fun s => s.2.2.2.1.toNat)
    (fun s => s.2.2.2.2.toNat)
    (fun b => b.2.1 - b.1 = s.2.1 - s.1 ∧ b.2.2.1 - b.1 = s.2.2.1 - s.1) 1 B18 (by norm_num) ?_ s
    ⟨rfl, rfl⟩
  · obtain ⟨b', m, e, h1, h2, h3, h4, h5, h6⟩ := key
    refine ⟨b', m, e, h1, h2, h3, h4.1, h4.2, h5, ?_⟩
    intro h; apply h6; exact ⟨by push_cast; omega, h.2.1, h.2.2⟩
  · intro b
    constructor
    · rintro ⟨hE, hX, hY⟩ hP
      have hE' : (1 : Int) ≤ b.1.toInt := by exact_mod_cast hE
      refine ⟨(b.1 - 1, b.2.1 - 1, b.2.2.1 - 1, U128.mul64 b.2.2.2.1 10,
        U128.mul64 b.2.2.2.2 10), ?_, ?_, ?_, ?_, ?_, ?_⟩
      · simp only [m1Body, i16_gt_0, w1_le_18, hE', hX, hY, decide_true, Bool.and_self, if_true]; rfl
      · show (b.1 - 1).toInt = _
        rw [i16_sub_small _ _ (by decide) (by simpa using hE')]
        have : (1 : Int16).toInt = 1 := rfl
        rw [this]; push_cast; ring
      · exact mul64_10 _ hX
      · exact mul64_10 _ hY
      · show b.2.1 - 1 - (b.1 - 1) = _
        rw [← hP.1]; grind
      · show b.2.2.1 - 1 - (b.1 - 1) = _
        rw [← hP.2]; grind
    · intro hc
      have hc' : ¬ (((1 : Int) ≤ b.1.toInt ∧ b.2.2.2.2.toNat < B18) ∧ b.2.2.2.1.toNat < B18) := by
        intro h; exact hc ⟨by exact_mod_cast h.1.1, h.2, h.1.2⟩
      simp only [m1Body, i16_gt_0, w1_le_18, Bool.and_eq_true, decide_eq_true_eq, hc', if_false]; rfl

/-! ## scaling of the remainder alone: state `(exp, rexp, rem)` -/

theorem r4Loop (s : Int16 × Int16 × U128) :
    ∃ (s' : Int16 × Int16 × U128) (m : Nat), forIn (m := Go.GoM) Lean.Loop.mk s r4Body = .ok s' ∧
      s'.1.toInt = s.1.toInt - (m : Int) ∧ s'.2.2.toNat = s.2.2.toNat * 10 ^ m ∧
      s'.2.1 - s'.1 = s.2.1 - s.1 ∧ (m = 0 ∨ 0 ≤ s'.1.toInt) := by
  have key := scale_rule r4Body (fun s => s.1.toInt) (fun s => s.2.2.toNat) (fun _ => 0)
    (fun b => b.2.1 - b.1 = s.2.1 - s.1) 4 B27 (by norm_num) ?_ s rfl
  · obtain ⟨b', m, e, h1, h2, -, h4, h5, -⟩ := key
    exact ⟨b', m, e, h1, h2, h4, h5⟩
  · intro b
    constructor
    · rintro ⟨hE, hX, -⟩ hP
      have hE' : (4 : Int) ≤ b.1.toInt := by exact_mod_cast hE
      refine ⟨(b.1 - 4, b.2.1 - 4, U128.mul64 b.2.2 10000), ?_, ?_, ?_, by simp, ?_⟩
      · simp only [r4Body, i16_ge_4, w1_le_27, hE', hX, decide_true, Bool.and_self, if_true]; rfl
      · show (b.1 - 4).toInt = _
        rw [i16_sub_small _ _ (by decide) (by simpa using hE')]
        have : (4 : Int16).toInt = 4 := rfl
        rw [this]; push_cast; ring
      · exact mul64_1e4 _ hX
      · show b.2.1 - 4 - (b.1 - 4) = _
        rw [← hP]; grind
    · intro hc
      have hc' : ¬ ((4 : Int) ≤ b.1.toInt ∧ b.2.2.toNat < B27) := by
        intro h; exact hc ⟨by exact_mod_cast h.1, h.2, by norm_num⟩
      simp only [r4Body, i16_ge_4, w1_le_27, Bool.and_eq_true, decide_eq_true_eq, hc', if_false]; rfl

theorem r1Loop (s : Int16 × Int16 × U128) :
    ∃ (s' : Int16 × Int16 × U128) (m : Nat), forIn (m := Go.GoM) Lean.Loop.mk s r1Body = .ok s' ∧
      s'.1.toInt = s.1.toInt - (m : Int) ∧ s'.2.2.toNat = s.2.2.toNat * 10 ^ m ∧
      s'.2.1 - s'.1 = s.2.1 - s.1 ∧ (m = 0 ∨ 0 ≤ s'.1.toInt) ∧
      ¬ (0 < s'.1.toInt ∧ s'.2.2.toNat < B18) := by
  have key := scale_rule r1Body (fun s => s.1.toInt) (fun s => s.2.2.toNat) (fun _ => 0)
    (fun b => b.2.1 - b.1 = s.2.1 - s.1) 1 B18 (by norm_num) ?_ s rfl
  · obtain ⟨b', m, e, h1, h2, -, h4, h5, h6⟩ := key
    refine ⟨b', m, e, h1, h2, h4, h5, ?_⟩
    intro h; apply h6; exact ⟨by push_cast; omega, h.2, by norm_num⟩
  · intro b
    constructor
    · rintro ⟨hE, hX, -⟩ hP
      have hE' : (1 : Int) ≤ b.1.toInt := by exact_mod_cast hE
      refine ⟨(b.1 - 1, b.2.1 - 1, U128.mul64 b.2.2 10), ?_, ?_, ?_, by simp, ?_⟩
      · simp only [r1Body, i16_gt_0, w1_le_18, hE', hX, decide_true, Bool.and_self, if_true]; rfl
      · show (b.1 - 1).toInt = _
        rw [i16_sub_small _ _ (by decide) (by simpa using hE')]
        have : (1 : Int16).toInt = 1 := rfl
        rw [this]; push_cast; ring
      · exact mul64_10 _ hX
      · show b.2.1 - 1 - (b.1 - 1) = _
        rw [← hP]; grind
    · intro hc
      have hc' : ¬ ((1 : Int) ≤ b.1.toInt ∧ b.2.2.toNat < B18) := by
        intro h; exact hc ⟨by exact_mod_cast h.1, h.2, by norm_num⟩
      simp only [r1Body, i16_gt_0, w1_le_18, Bool.and_eq_true, decide_eq_true_eq, hc', if_false]; rfl

/-! ## dropping digits of the 192-bit sum: state `(qexp, trunc, sig192)` -/

theorem mod_pow_succ_eq_zero (S j : Nat) :
    S % 10 ^ (j + 1) = 0 ↔ S % 10 ^ j = 0 ∧ S / 10 ^ j % 10 = 0 := by
  rw [Nat.pow_succ, Nat.mod_mul]
  have hp : 0 < 10 ^ j := Nat.pow_pos (by norm_num)
  have : S % 10 ^ j < 10 ^ j := Nat.mod_lt _ hp
  constructor
  · intro h
    have h1 : 10 ^ j * (S / 10 ^ j % 10) = 0 := by omega
    rcases Nat.mul_eq_zero.1 h1 with h2 | h2
    · omega
    · exact ⟨by omega, h2⟩
  · rintro ⟨h1, h2⟩
    rw [h1, h2]; simp

theorem u192_w2_ne (x : U192) : (x.w2 != 0) = decide (2 ^ 128 ≤ x.toNat) := by
  have := D128.Proofs.WordsWide.U192.bounds x
  rw [RK.u64_ne_zero_iff]
  apply decide_eq_decide.2
  simp only [U192.toNat]
  omega

theorem dropLoop (s : Int16 × Int8 × U192) (he : s.1.toInt ≤ 30000) :
    ∃ (s' : Int16 × Int8 × U192) (j : Nat),
      forIn (m := Go.GoM) Lean.Loop.mk s dropBody = .ok s' ∧ j ≤ 20 ∧
      s'.2.2.toNat = s.2.2.toNat / 10 ^ j ∧ s'.2.2.toNat < 2 ^ 128 ∧
      s'.1.toInt = s.1.toInt + (j : Int) ∧
      s'.2.1 = (if s.2.2.toNat % 10 ^ j = 0 then s.2.1 else 1) ∧
      (j = 0 ∨ 2 ^ 128 / 10 ≤ s'.2.2.toNat) := by
  have hS := D128.Proofs.WordsWide.U192.toNat_lt s.2.2
  have key := RK.loop_inv dropBody
    (fun b => ∃ j : Nat, j ≤ 20 ∧ b.2.2.toNat = s.2.2.toNat / 10 ^ j ∧
      b.1.toInt = s.1.toInt + (j : Int) ∧
      b.2.1 = (if s.2.2.toNat % 10 ^ j = 0 then s.2.1 else 1) ∧
      (j = 0 ∨ 2 ^ 128 / 10 ≤ b.2.2.toNat))
    (fun b => ∃ j : Nat, j ≤ 20 ∧ b.2.2.toNat = s.2.2.toNat / 10 ^ j ∧ b.2.2.toNat < 2 ^ 128 ∧
      b.1.toInt = s.1.toInt + (j : Int) ∧
      b.2.1 = (if s.2.2.toNat % 10 ^ j = 0 then s.2.1 else 1) ∧
      (j = 0 ∨ 2 ^ 128 / 10 ≤ b.2.2.toNat))
    (fun b => b.2.2.toNat) ?_ s ⟨0, by omega, by simp, by simp, by simp [Nat.mod_one], Or.inl rfl⟩
  · obtain ⟨b', e, j, h1, h2, h3, h4, h5, h6⟩ := key
    exact ⟨b', j, e, h1, h2, h3, h4, h5, h6⟩
  · rintro b ⟨j, hj, hcur, hexp, htr, hlast⟩
    by_cases hc : 2 ^ 128 ≤ b.2.2.toNat
    · left
      obtain ⟨q, r, e, hq, hr⟩ := D128.Proofs.WordsWide.U192_div10_eq b.2.2
      have hj' : j < 20 := by
        by_contra hge
        have h1 : (10 : Nat) ^ 20 ≤ 10 ^ j := Nat.pow_le_pow_right (by norm_num) (by omega)
        have h2 : s.2.2.toNat / 10 ^ j ≤ s.2.2.toNat / 10 ^ 20 :=
          Nat.div_le_div_left h1 (by norm_num)
        have h3 : s.2.2.toNat / 10 ^ 20 < 2 ^ 128 := by
          apply Nat.div_lt_of_lt_mul
          have : (2 : Nat) ^ 192 < 10 ^ 20 * 2 ^ 128 := by norm_num
          omega
        omega
      have hexp' : (b.1 + 1).toInt = b.1.toInt + 1 := by
        have := b.1.le_toInt
        rw [Int16.toInt_add_of] <;> simp <;> omega
      refine ⟨(b.1 + 1, (if (r != 0) = true then 1 else b.2.1), q), ?_, ⟨j + 1, by omega, ?_, ?_, ?_, ?_⟩, ?_⟩
      · simp only [dropBody, u192_w2_ne, hc, decide_true, if_true, e, RK.ok_bind]
        by_cases hr0 : (r != 0) = true
        · simp only [hr0, if_true]; rfl
        · simp only [hr0]; rfl
      · show q.toNat = _
        rw [hq, hcur, Nat.div_div_eq_div_mul, ← Nat.pow_succ]
      · show (b.1 + 1).toInt = _
        rw [hexp', hexp]; push_cast; ring
      · show (if (r != 0) = true then (1 : Int8) else b.2.1) = _
        rw [RK.u64_ne_zero_iff, hr, hcur, htr]
        by_cases h0 : s.2.2.toNat % 10 ^ j = 0
        · by_cases h1 : s.2.2.toNat / 10 ^ j % 10 = 0
          · have := (mod_pow_succ_eq_zero s.2.2.toNat j).2 ⟨h0, h1⟩
            simp [h0, h1, this]
          · have : ¬ s.2.2.toNat % 10 ^ (j + 1) = 0 := fun h =>
              h1 ((mod_pow_succ_eq_zero s.2.2.toNat j).1 h).2
            simp [h0, h1, this]
        · have : ¬ s.2.2.toNat % 10 ^ (j + 1) = 0 := fun h =>
            h0 ((mod_pow_succ_eq_zero s.2.2.toNat j).1 h).1
          by_cases h1 : s.2.2.toNat / 10 ^ j % 10 = 0 <;> simp [h0, h1, this]
      · right
        show 2 ^ 128 / 10 ≤ q.toNat
        rw [hq]; exact Nat.div_le_div_right hc
      · show q.toNat < b.2.2.toNat
        rw [hq]; omega
    · right
      refine ⟨b, ?_, j, hj, hcur, by omega, hexp, htr, ?_⟩
      · simp only [dropBody, u192_w2_ne, hc, decide_false, Bool.false_eq_true, if_false]; rfl
      · exact hlast

/-! ## the 64-bit accumulation loop is never entered: it needs `exp > 0`, but the scaling of the
    dividend leaves `exp > 0` only with a dividend of more than 64 bits -/

theorem aLoop_dead (o : UInt64) (s : A6) (h : s.1.toInt ≤ 0) :
    forIn (m := Go.GoM) Lean.Loop.mk s (aBody o) = .ok s := by
  rw [Go.loop_unfold]
  have hc : ¬ ((1 : Int) ≤ s.1.toInt) := by omega
  simp only [aBody, i16_gt_0, hc, decide_false, Bool.false_and, Bool.false_eq_true, if_false]
  rfl

end QR
