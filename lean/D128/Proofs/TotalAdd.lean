/-
  D128.Proofs.TotalAdd — totality (termination, no panic) of `Decimal.AddWithMode`,
  `Decimal.SubWithMode` and the internal `Decimal.add` for every pair of bit patterns and EVERY mode
  byte, including invalid ones (C20).  (`Props.C01.add_correct` covers the six valid modes.)

  Uses the continuation-passing stage decomposition `AD.add_eq` of `D128/Proofs/AddCode.lean`; totality
  is propagated through the stages with the predicate `Tot f := ∃ r, f = .ok r`.

  * `Tot`, `Tot.pure/bind/ite/of_triple/triple`
  * `tot_divStep`, `tot_stepL/R`, `tot_loopL/R`, `tot_ladderL/R`, `tot_scaleL4/L1/R4/R1`, `tot_tail`,
    `tot_tailS`, `tot_alignL/R`, `tot_core`
  * `add_total_all`, `AddWithMode_total_all`, `SubWithMode_total_all`
  No value-level invariant is needed: every scaling/truncation loop is driven by the exponent gap,
  and the three `reduce128/192` calls of the epilogue are guarded by the code's own zero tests (or,
  after a borrow, operate on the two's complement of a non-zero difference).
-/
import D128.Proofs.TotalBase128
import D128.Proofs.TotalReduce192
import D128.Proofs.AddCode
import D128.Proofs.Specials
import D128.Props.C15
set_option autoImplicit false
set_option mvcgen.warning false
set_option exponentiation.threshold 512
set_option maxRecDepth 16384
namespace D128.Proofs.Total
open Std.Do
open D128.Proofs.WordsWide

/-- "terminates without panic" -/
def Tot {α : Type} (f : Go.GoM α) : Prop := ∃ r, f = .ok r

theorem Tot.pure {α : Type} (a : α) : Tot (Pure.pure a : Go.GoM α) := ⟨a, rfl⟩

theorem Tot.bind {α β : Type} {f : Go.GoM α} {g : α → Go.GoM β} (hf : Tot f) (hg : ∀ a, Tot (g a)) :
    Tot (f >>= g) := by
  obtain ⟨a, ha⟩ := hf
  obtain ⟨b, hb⟩ := hg a
  exact ⟨b, by rw [ha]; exact hb⟩

theorem Tot.ite {α : Type} {c : Prop} [Decidable c] {f g : Go.GoM α} (hf : Tot f) (hg : Tot g) :
    Tot (if c then f else g) := by split <;> assumption

theorem Tot.of_triple {α : Type} {f : Go.GoM α} (h : ⦃⌜True⌝⦄ f ⦃⇓ _ => ⌜True⌝⦄) : Tot f :=
  let ⟨r, e, _⟩ := ok_of_triple h; ⟨r, e⟩

theorem Tot.triple {α : Type} {f : Go.GoM α} (h : Tot f) : ⦃⌜True⌝⦄ f ⦃⇓ _ => ⌜True⌝⦄ :=
  let ⟨_, e⟩ := h; triple_of_eq e trivial

/-! ## the pieces of `AD.core` -/

theorem tot_divStep {α : Type} (dv : U128 → Go.GoM (U128 × UInt64)) (hdv : ∀ s, Tot (dv s)) (c : Bool)
    (tv : Int8) (s : U128) (trunc : Int8) (kz ks : U128 → Int8 → Go.GoM α) (kn : Go.GoM α)
    (hkz : ∀ q t, Tot (kz q t)) (hks : ∀ q t, Tot (ks q t)) (hkn : Tot kn) :
    Tot (AD.divStep dv c tv s trunc kz ks kn) := by
  unfold AD.divStep
  refine Tot.ite (Tot.bind (hdv s) fun x => ?_) hkn
  exact Tot.ite (Tot.ite (hkz _ _) (hks _ _)) (Tot.ite (hkz _ _) (hks _ _))

theorem tot_div10 (s : U128) : Tot (Gen.U128.div10 s) :=
  let ⟨q, r, e, _⟩ := U128_div10_spec s; ⟨(q, r), e⟩
theorem tot_div100 (s : U128) : Tot (Gen.U128.div100 s) :=
  let ⟨q, r, e, _⟩ := U128_div100_spec s; ⟨(q, r), e⟩
theorem tot_div1000 (s : U128) : Tot (Gen.U128.div1000 s) :=
  let ⟨q, r, e, _⟩ := U128_div1000_spec s; ⟨(q, r), e⟩
theorem tot_div10000 (s : U128) : Tot (Gen.U128.div10000 s) :=
  let ⟨q, r, e, _⟩ := U128_div10000_spec s; ⟨(q, r), e⟩
theorem tot_div1e8 (s : U128) : Tot (Gen.U128.div1e8 s) :=
  let ⟨q, r, e, _⟩ := U128_div1e8_spec s; ⟨(q, r), e⟩

theorem tot_loopL (oExp : Int16) (s : AD.SL) : Tot (forIn Lean.Loop.mk s (AD.loopLBody oExp)) := by
  apply Tot.of_triple
  mvcgen -trivial [AD.loopLBody, AD.divStep]
  case inv1 => exact fun st => ⟨dn16 st.2.2.1⟩
  case inv2 => exact ⇓ _ => ⌜True⌝
  all_goals (simp +zetaDelta at *)
  all_goals d128_prep
  all_goals d192_fin

theorem tot_loopR (s : AD.SR) : Tot (forIn Lean.Loop.mk s AD.loopRBody) := by
  apply Tot.of_triple
  mvcgen -trivial [AD.loopRBody, AD.divStep]
  case inv1 => exact fun st => ⟨up16 st.2.1⟩
  case inv2 => exact ⇓ _ => ⌜True⌝
  all_goals (simp +zetaDelta at *)
  all_goals d128_prep
  all_goals d192_fin


theorem tot_stepL {α : Type} (dv : U128 → Go.GoM (U128 × UInt64)) (hdv : ∀ s, Tot (dv s)) (c : Bool)
    (j oExp : Int16) (next : U128 → Int16 → Int16 → Int8 → Go.GoM α)
    (hn : ∀ a b c d, Tot (next a b c d)) (dSig : U128) (dExp exp : Int16) (trunc : Int8) :
    Tot (AD.stepL dv c j oExp next dSig dExp exp trunc) :=
  tot_divStep dv hdv _ _ _ _ _ _ _ (fun _ _ => hn _ _ _ _) (fun _ _ => hn _ _ _ _) (hn _ _ _ _)

theorem tot_stepR {α : Type} (dv : U128 → Go.GoM (U128 × UInt64)) (hdv : ∀ s, Tot (dv s)) (c : Bool)
    (j : Int16) (next : U128 → Int16 → Int8 → Go.GoM α)
    (hn : ∀ a b c, Tot (next a b c)) (oSig : U128) (exp : Int16) (trunc : Int8) :
    Tot (AD.stepR dv c j next oSig exp trunc) :=
  tot_divStep dv hdv _ _ _ _ _ _ _ (fun _ _ => hn _ _ _) (fun _ _ => hn _ _ _) (hn _ _ _)

theorem tot_ladderL {α : Type} (K : U128 → Int16 → Int8 → Go.GoM α) (hK : ∀ a b c, Tot (K a b c))
    (oExp : Int16) (dSig : U128) (dExp exp : Int16) (trunc : Int8) :
    Tot (AD.ladderL K oExp dSig dExp exp trunc) := by
  unfold AD.ladderL
  have l8 : ∀ a b c d, Tot (AD.stepL Gen.U128.div1e8 (decide (c ≤ -8)) 8 oExp (fun dSig dExp exp trunc =>
    AD.stepL Gen.U128.div10000 (decide (exp ≤ -4)) 4 oExp (fun dSig dExp exp trunc =>
    AD.stepL Gen.U128.div1000 (decide (exp ≤ -3)) 3 oExp (fun dSig dExp exp trunc =>
    AD.stepL Gen.U128.div100 (decide (exp ≤ -2)) 2 oExp (fun dSig dExp exp trunc => do
      let s ← forIn Lean.Loop.mk (dSig, dExp, exp, trunc) (AD.loopLBody oExp)
      K s.1 s.2.1 s.2.2.2) dSig dExp exp trunc) dSig dExp exp trunc) dSig dExp exp trunc)
      a b c d) := by
    intro a b c d
    refine tot_stepL _ tot_div1e8 _ _ _ _ (fun a b c d => ?_) _ _ _ _
    refine tot_stepL _ tot_div10000 _ _ _ _ (fun a b c d => ?_) _ _ _ _
    refine tot_stepL _ tot_div1000 _ _ _ _ (fun a b c d => ?_) _ _ _ _
    refine tot_stepL _ tot_div100 _ _ _ _ (fun a b c d => ?_) _ _ _ _
    exact Tot.bind (tot_loopL _ _) (fun s => hK _ _ _)
  exact Tot.ite (Tot.ite (l8 _ _ _ _) (l8 _ _ _ _)) (l8 _ _ _ _)

theorem tot_ladderR {α : Type} (K : U128 → Int8 → Go.GoM α) (hK : ∀ a b, Tot (K a b))
    (oSig : U128) (exp : Int16) (trunc : Int8) :
    Tot (AD.ladderR K oSig exp trunc) := by
  unfold AD.ladderR
  have l8 : ∀ a c d, Tot (AD.stepR Gen.U128.div1e8 (decide (c ≥ 8)) 8 (fun oSig exp trunc =>
    AD.stepR Gen.U128.div10000 (decide (exp ≥ 4)) 4 (fun oSig exp trunc =>
    AD.stepR Gen.U128.div1000 (decide (exp ≥ 3)) 3 (fun oSig exp trunc =>
    AD.stepR Gen.U128.div100 (decide (exp ≥ 2)) 2 (fun oSig exp trunc => do
      let s ← forIn Lean.Loop.mk (oSig, exp, trunc) AD.loopRBody
      K s.1 s.2.2) oSig exp trunc) oSig exp trunc) oSig exp trunc) a c d) := by
    intro a c d
    refine tot_stepR _ tot_div1e8 _ _ _ (fun a c d => ?_) _ _ _
    refine tot_stepR _ tot_div10000 _ _ _ (fun a c d => ?_) _ _ _
    refine tot_stepR _ tot_div1000 _ _ _ (fun a c d => ?_) _ _ _
    refine tot_stepR _ tot_div100 _ _ _ (fun a c d => ?_) _ _ _
    exact Tot.bind (tot_loopR _) (fun s => hK _ _)
  exact Tot.ite (Tot.ite (l8 _ _ _) (l8 _ _ _)) (l8 _ _ _)

theorem tot_scaleL4 (K M : UInt64) (s : AD.S3) :
    Tot (AD.scaleLoop (fun e => decide (e ≤ -4)) K M 4 (fun e => e + 4) s) := by
  apply Tot.of_triple
  mvcgen -trivial [AD.scaleLoop, AD.scaleBody]
  case inv1 => exact fun st => ⟨dn16 st.2.2⟩
  case inv2 => exact ⇓ _ => ⌜True⌝
  all_goals (simp +zetaDelta at *)
  all_goals d128_prep
  all_goals d192_fin

theorem tot_scaleL1 (K M : UInt64) (s : AD.S3) :
    Tot (AD.scaleLoop (fun e => decide (e < 0)) K M 1 (fun e => e + 1) s) := by
  apply Tot.of_triple
  mvcgen -trivial [AD.scaleLoop, AD.scaleBody]
  case inv1 => exact fun st => ⟨dn16 st.2.2⟩
  case inv2 => exact ⇓ _ => ⌜True⌝
  all_goals (simp +zetaDelta at *)
  all_goals d128_prep
  all_goals d192_fin

theorem tot_scaleR4 (K M : UInt64) (s : AD.S3) :
    Tot (AD.scaleLoop (fun e => decide (e ≥ 4)) K M 4 (fun e => e - 4) s) := by
  apply Tot.of_triple
  mvcgen -trivial [AD.scaleLoop, AD.scaleBody]
  case inv1 => exact fun st => ⟨up16 st.2.2⟩
  case inv2 => exact ⇓ _ => ⌜True⌝
  all_goals (simp +zetaDelta at *)
  all_goals d128_prep
  all_goals d192_fin

theorem tot_scaleR1 (K M : UInt64) (s : AD.S3) :
    Tot (AD.scaleLoop (fun e => decide (e > 0)) K M 1 (fun e => e - 1) s) := by
  apply Tot.of_triple
  mvcgen -trivial [AD.scaleLoop, AD.scaleBody]
  case inv1 => exact fun st => ⟨up16 st.2.2⟩
  case inv2 => exact ⇓ _ => ⌜True⌝
  all_goals (simp +zetaDelta at *)
  all_goals d128_prep
  all_goals d192_fin


theorem tot_finish (neg : Bool) (x : U128 × Int16) : Tot (AD.finish neg x) := by
  unfold AD.finish; exact Tot.ite (Tot.pure _) (Tot.pure _)

theorem tot_tail (mode : UInt8) (dNeg oNeg : Bool) (dSig : U128) (dExp : Int16) (oSig : U128)
    (trunc : Int8) : Tot (AD.tail mode dNeg oNeg dSig dExp oSig trunc) := by
  apply Tot.of_triple
  have hf : ∀ neg x, ⦃⌜True⌝⦄ AD.finish neg x ⦃⇓ _ => ⌜True⌝⦄ := fun neg x => (tot_finish neg x).triple
  mvcgen -trivial [AD.tail, hf]
  all_goals (simp +zetaDelta at *)
  all_goals d128_prep
  all_goals d192_fin


theorem tot_tailS (d o : Gen.Decimal) (mode : UInt8) (subtract : Bool) (dSig : U128) (dExp : Int16)
    (oSig : U128) (trunc : Int8) : Tot (AD.tailS d o mode subtract dSig dExp oSig trunc) := by
  unfold AD.tailS; exact Tot.ite (tot_tail ..) (tot_tail ..)

theorem tot_alignL {α : Type} (K : U128 → Int16 → U128 → Int8 → Go.GoM α)
    (hK : ∀ a b c d, Tot (K a b c d)) (dSig : U128) (dExp : Int16) (oSig : U128) (oExp exp : Int16) :
    Tot (AD.alignL K dSig dExp oSig oExp exp) := by
  unfold AD.alignL AD.scale2
  have hk : ∀ a b c, Tot (AD.ladderL (fun dS dE t => K dS dE a t) b dSig dExp c 0) :=
    fun a b c => tot_ladderL _ (fun _ _ _ => hK _ _ _ _) _ _ _ _ _
  have hsc : ∀ sig e ex, Tot (do
      let s ← AD.scaleLoop (fun e => decide (e ≤ -4)) 703687441776639 10000 4 (fun e => e + 4) (sig, e, ex)
      let s ← AD.scaleLoop (fun e => decide (e < 0)) 1801439850948198399 10 1 (fun e => e + 1) (s.1, s.2.1, s.2.2)
      AD.ladderL (fun dS dE t => K dS dE s.1 t) s.2.1 dSig dExp s.2.2 0) :=
    fun sig e ex => Tot.bind (tot_scaleL4 ..) fun _ => Tot.bind (tot_scaleL1 ..) fun _ => hk _ _ _
  exact Tot.ite (hsc _ _ _) (hsc _ _ _)

theorem tot_alignR {α : Type} (K : U128 → Int16 → U128 → Int8 → Go.GoM α)
    (hK : ∀ a b c d, Tot (K a b c d)) (dSig : U128) (dExp : Int16) (oSig : U128) (exp : Int16) :
    Tot (AD.alignR K dSig dExp oSig exp) := by
  unfold AD.alignR AD.scale2
  have hk : ∀ a b c, Tot (AD.ladderR (fun oS t => K a b oS t) oSig c 0) :=
    fun a b c => tot_ladderR _ (fun _ _ => hK _ _ _ _) _ _ _
  have hsc : ∀ sig e ex, Tot (do
      let s ← AD.scaleLoop (fun e => decide (e ≥ 4)) 703687441776639 10000 4 (fun e => e - 4) (sig, e, ex)
      let s ← AD.scaleLoop (fun e => decide (e > 0)) 1801439850948198399 10 1 (fun e => e - 1) (s.1, s.2.1, s.2.2)
      AD.ladderR (fun oS t => K s.1 s.2.1 oS t) oSig s.2.2 0) :=
    fun sig e ex => Tot.bind (tot_scaleR4 ..) fun _ => Tot.bind (tot_scaleR1 ..) fun _ => hk _ _ _
  exact Tot.ite (hsc _ _ _) (hsc _ _ _)

theorem tot_core (d o : Gen.Decimal) (mode : UInt8) (subtract : Bool) (dSig : U128) (dExp : Int16)
    (oSig : U128) (oExp : Int16) : Tot (AD.core d o mode subtract dSig dExp oSig oExp) := by
  unfold AD.core
  have hK : ∀ a b c e, Tot (AD.tailS d o mode subtract a b c e) := fun _ _ _ _ => tot_tailS ..
  exact Tot.ite (tot_alignL _ hK ..) (Tot.ite (tot_alignR _ hK ..) (hK ..))

/-- the internal `Decimal.add` on operands with non-zero coefficients, every mode byte -/
theorem add_total_all (d o : Gen.Decimal) (mode : UInt8) (subtract : Bool)
    (zd : Gen.Decimal.IsZero d = false) (zo : Gen.Decimal.IsZero o = false) :
    Tot (Gen.Decimal.add d o mode subtract) := by
  have hdz : Sp.sigz d = false := by rw [Sp.sigz_eq, zd]
  have hoz : Sp.sigz o = false := by rw [Sp.sigz_eq, zo]
  rw [AD.add_eq d o mode subtract hdz hoz]
  exact tot_core ..

/-- `AddWithMode` terminates without panic for every pair of bit patterns and EVERY mode byte -/
theorem AddWithMode_total_all (d o : Gen.Decimal) (rm : UInt8) :
    ∃ r, Gen.Decimal.AddWithMode d o rm = .ok r := by
  by_cases h : Gen.Decimal.isSpecial d = true ∨ Gen.Decimal.isSpecial o = true ∨
      Gen.Decimal.IsZero d = true ∨ Gen.Decimal.IsZero o = true
  · obtain ⟨r, hr, _⟩ := Props.C15.add_prologue d o rm .nearestEven h
    exact ⟨r, hr⟩
  · simp only [not_or, Bool.not_eq_true] at h
    obtain ⟨hd, ho, zd, zo⟩ := h
    obtain ⟨r, hr⟩ := add_total_all d o rm false zd zo
    refine ⟨r, ?_⟩
    unfold Gen.Decimal.AddWithMode
    simp only [hd, ho, Bool.or_self, if_false, Bool.false_eq_true]
    rw [hr]

theorem SubWithMode_total_all (d o : Gen.Decimal) (rm : UInt8) :
    ∃ r, Gen.Decimal.SubWithMode d o rm = .ok r := by
  by_cases h : Gen.Decimal.isSpecial d = true ∨ Gen.Decimal.isSpecial o = true ∨
      Gen.Decimal.IsZero d = true ∨ Gen.Decimal.IsZero o = true
  · obtain ⟨r, hr, _⟩ := Props.C15.sub_prologue d o rm .nearestEven h
    exact ⟨r, hr⟩
  · simp only [not_or, Bool.not_eq_true] at h
    obtain ⟨hd, ho, zd, zo⟩ := h
    obtain ⟨r, hr⟩ := add_total_all d o rm true zd zo
    refine ⟨r, ?_⟩
    unfold Gen.Decimal.SubWithMode
    simp only [hd, ho, Bool.or_self, if_false, Bool.false_eq_true]
    rw [hr]

end D128.Proofs.Total
