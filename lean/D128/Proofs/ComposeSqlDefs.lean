/-
  D128/Proofs/ComposeSqlDefs.lean — stage decomposition of the generated `Gen.Decimal.Compose`
  (Go: /repo/compose.go, `func (d *Decimal) Compose`).

  The generated function is one long `do` block with nine `while` loops and two nested join
  points.  The join points are named here:

  * `CS.tail d neg exp sig128`  — from `for sig128[1] > 0x0002_7fff_ffff_ffff` to the end
        (normalisation loop, underflow loop, overflow loop, `compose`)
  * `CS.mid d neg sig exp`      — from `var sig128 uint128` on: the `> 16` byte path (256-bit assembly,
        `div1e19` loop, `div10000` loop) or the `≤ 16` byte path (128-bit assembly), then `tail`
  * `CS.big d neg sig exp`      — the `len(sig) > 32` path (math/big loop), then `mid`
  * `CS.scan sig`               — the leading-zero scan
  * `CS.fin0 d neg sig exp`     — the whole `case 0`

  These are NOT models proved "instead of" the Go code: each is tied to the generated definition by
  `rfl` (definitional unfolding):

  * `CS.Compose_eq : Gen.Decimal.Compose d form neg sig exp = CS.staged d form neg sig exp`

  `Gen.Decimal.Decompose` is cut once: `CS.dec16` is everything from the sixteen byte stores on (it
  reuses `CS.scan` for the leading-zero loop, which has the same shape as the one in `Compose`):

  * `CS.Decompose_eq : Gen.Decimal.Decompose d buf = CS.decStaged d buf`

  If the generated code changes, the `rfl` proofs break.
-/
import D128.Gen.ComposeBig
import D128.Gen.ComposeText
set_option autoImplicit false
set_option linter.unusedVariables false
set_option maxRecDepth 4096

namespace CS
open Gen

def tail (d : Decimal) (neg : Bool) (exp : Int32) (sig128 : U128) : Go.GoM (Decimal × Go.Err) := do
  let mut exp : Int32 := exp
  let mut sig128 : U128 := sig128
  while (decide (sig128.w1 > (703687441776639 : UInt64))) do
    let mut rem_3 : UInt64 := (0 : UInt64)
    let (r_13, r_14) ← U128.div10 sig128
    sig128 := r_13
    rem_3 := r_14
    if (rem_3 != (0 : UInt64)) then
      return (d, Go.Err.composeRangeError)
    exp := (exp + (1 : Int32))
    if (decide (exp > (6111 : Int32))) then
      return (d, Go.Err.composeRangeError)
  if (decide (exp < (-6211 : Int32))) then
    return (d, Go.Err.composeRangeError)
  while (decide (exp < (-6176 : Int32))) do
    let mut rem_4 : UInt64 := (0 : UInt64)
    let (r_15, r_16) ← U128.div10 sig128
    sig128 := r_15
    rem_4 := r_16
    if (rem_4 != (0 : UInt64)) then
      return (d, Go.Err.composeRangeError)
    exp := (exp + (1 : Int32))
  while (decide (exp > (6111 : Int32))) do
    sig128 := (U128.mul64 sig128 (10 : UInt64))
    if (decide (sig128.w1 > (703687441776639 : UInt64))) then
      return (d, Go.Err.composeRangeError)
    exp := (exp - (1 : Int32))
  let d' : Decimal := (compose neg sig128 (Go.conv (exp + (6176 : Int32)) : Int16))
  return (d', Go.Err.nil)

def mid (d : Decimal) (neg : Bool) (sig : Go.Bytes) (exp : Int32) : Go.GoM (Decimal × Go.Err) := do
  let mut exp : Int32 := exp
  let mut sig128 : U128 := (default : U128)
  let mut l_1 : Int64 := (Go.len sig)
  if (decide (l_1 > (16 : Int64))) then
    if (decide (exp > (6111 : Int32))) then
      return (d, Go.Err.composeRangeError)
    let mut sig256 : U256 := (default : U256)
    let t_5 ← Go.bget sig (0 : Int)
    sig256 := { sig256 with w0 := (Go.conv t_5 : UInt64) }
    let mut i_1 : Int64 := (1 : Int64)
    while (decide (i_1 < l_1)) do
      sig256 := (U256.lsh sig256 (8 : UInt64))
      let t_6 ← Go.bget sig (Go.idx i_1)
      sig256 := { sig256 with w0 := (sig256.w0 ||| (Go.conv t_6 : UInt64)) }
      i_1 := (i_1 + (1 : Int64))
    while (decide (sig256.w3 > (0 : UInt64))) do
      let mut rem_1 : UInt64 := (0 : UInt64)
      let (r_7, r_8) ← U256.div1e19 sig256
      sig256 := r_7
      rem_1 := r_8
      if (rem_1 != (0 : UInt64)) then
        return (d, Go.Err.composeRangeError)
      exp := (exp + (19 : Int32))
      if (decide (exp > (6111 : Int32))) then
        return (d, Go.Err.composeRangeError)
    let mut sig192 : U192 := (U192.mk sig256.w0 sig256.w1 sig256.w2)
    while (decide (sig192.w2 > (0 : UInt64))) do
      let mut rem_2 : UInt64 := (0 : UInt64)
      let (r_9, r_10) ← U192.div10000 sig192
      sig192 := r_9
      rem_2 := r_10
      if (rem_2 != (0 : UInt64)) then
        return (d, Go.Err.composeRangeError)
      exp := (exp + (4 : Int32))
      if (decide (exp > (6111 : Int32))) then
        return (d, Go.Err.composeRangeError)
    sig128 := (U128.mk sig192.w0 sig192.w1)
  else
    let t_11 ← Go.bget sig (0 : Int)
    sig128 := { sig128 with w0 := (Go.conv t_11 : UInt64) }
    let mut i_2 : Int64 := (1 : Int64)
    while (decide (i_2 < (Go.len sig))) do
      sig128 := (U128.lsh sig128 (8 : UInt64))
      let t_12 ← Go.bget sig (Go.idx i_2)
      sig128 := { sig128 with w0 := (sig128.w0 ||| (Go.conv t_12 : UInt64)) }
      i_2 := (i_2 + (1 : Int64))
  tail d neg exp sig128

def big (d : Decimal) (neg : Bool) (sig : Go.Bytes) (exp : Int32) : Go.GoM (Decimal × Go.Err) := do
  let mut sig : Go.Bytes := sig
  let mut exp : Int32 := exp
  if (decide ((Go.len sig) > (32 : Int64))) then
    if (decide (exp > (6111 : Int32))) then
      return (d, Go.Err.composeRangeError)
    let mut bigsig : Go.BigInt := (0 : Go.BigInt)
    bigsig := (Go.BigInt.SetBytes sig)
    let mut den : Go.BigInt := (Go.BigInt.SetUint64 (10000000000000000000 : UInt64))
    let mut rem : Go.BigInt := (0 : Go.BigInt)
    while (decide ((Go.BigInt.BitLen bigsig) > (256 : Int64))) do
      let (r_3, r_4) ← Go.BigInt.QuoRem bigsig den
      bigsig := r_3
      rem := r_4
      if ((Go.BigInt.BitLen rem) != (0 : Int64)) then
        return (d, Go.Err.composeRangeError)
      exp := (exp + (19 : Int32))
      if (decide (exp > (6111 : Int32))) then
        return (d, Go.Err.composeRangeError)
    sig := (Go.BigInt.Bytes bigsig)
  mid d neg sig exp

/-- the leading-zero scan: index of the first non-zero byte (or `len sig`) -/
def scan (sig : Go.Bytes) : Go.GoM Int64 :=
  forIn (m := Go.GoM) Lean.Loop.mk (0 : Int64) fun (_ : Unit) (i : Int64) =>
    if decide (i < Go.len sig) = true then do
      let t_1 ← Go.bget sig (Go.idx i)
      if (t_1 != (0 : UInt8)) = true then pure (ForInStep.done i)
      else pure (ForInStep.yield (i + (1 : Int64)))
    else pure (ForInStep.done i)

def fin0 (d : Decimal) (neg : Bool) (sig : Go.Bytes) (exp : Int32) : Go.GoM (Decimal × Go.Err) := do
  let i ← scan sig
  if (i == (Go.len sig)) then
    return (zero neg, Go.Err.nil)
  let t_2 ← Go.bsliceFrom sig (Go.idx i)
  big d neg t_2 exp

def staged (d : Decimal) (form : UInt8) (neg : Bool) (sig : Go.Bytes) (exp : Int32) :
    Go.GoM (Decimal × Go.Err) :=
  if (form == (0 : UInt8)) then fin0 d neg sig exp
  else if (form == (1 : UInt8)) then pure (inf neg, Go.Err.nil)
  else if (form == (2 : UInt8)) then pure (nan (1 : UInt64) (0 : UInt64) (0 : UInt64), Go.Err.nil)
  else pure (d, Go.Err.composeFormError)

theorem Compose_eq (d : Decimal) (form : UInt8) (neg : Bool) (sig : Go.Bytes) (exp : Int32) :
    Gen.Decimal.Compose d form neg sig exp = staged d form neg sig exp := rfl

/-! ## Decompose -/

def dec16 (d : Decimal) (sig128 : U128) (exp : Int16) (sig : Go.Bytes) :
    Go.GoM (UInt8 × Bool × Go.Bytes × Int32) := do
  let mut sig : Go.Bytes := sig
  let t_4 ← Go.bset sig (0 : Int) (Go.conv (Go.shr sig128.w1 (56 : Int)) : UInt8)
  sig := t_4
  let t_5 ← Go.bset sig (1 : Int) (Go.conv (Go.shr sig128.w1 (48 : Int)) : UInt8)
  sig := t_5
  let t_6 ← Go.bset sig (2 : Int) (Go.conv (Go.shr sig128.w1 (40 : Int)) : UInt8)
  sig := t_6
  let t_7 ← Go.bset sig (3 : Int) (Go.conv (Go.shr sig128.w1 (32 : Int)) : UInt8)
  sig := t_7
  let t_8 ← Go.bset sig (4 : Int) (Go.conv (Go.shr sig128.w1 (24 : Int)) : UInt8)
  sig := t_8
  let t_9 ← Go.bset sig (5 : Int) (Go.conv (Go.shr sig128.w1 (16 : Int)) : UInt8)
  sig := t_9
  let t_10 ← Go.bset sig (6 : Int) (Go.conv (Go.shr sig128.w1 (8 : Int)) : UInt8)
  sig := t_10
  let t_11 ← Go.bset sig (7 : Int) (Go.conv sig128.w1 : UInt8)
  sig := t_11
  let t_12 ← Go.bset sig (8 : Int) (Go.conv (Go.shr sig128.w0 (56 : Int)) : UInt8)
  sig := t_12
  let t_13 ← Go.bset sig (9 : Int) (Go.conv (Go.shr sig128.w0 (48 : Int)) : UInt8)
  sig := t_13
  let t_14 ← Go.bset sig (10 : Int) (Go.conv (Go.shr sig128.w0 (40 : Int)) : UInt8)
  sig := t_14
  let t_15 ← Go.bset sig (11 : Int) (Go.conv (Go.shr sig128.w0 (32 : Int)) : UInt8)
  sig := t_15
  let t_16 ← Go.bset sig (12 : Int) (Go.conv (Go.shr sig128.w0 (24 : Int)) : UInt8)
  sig := t_16
  let t_17 ← Go.bset sig (13 : Int) (Go.conv (Go.shr sig128.w0 (16 : Int)) : UInt8)
  sig := t_17
  let t_18 ← Go.bset sig (14 : Int) (Go.conv (Go.shr sig128.w0 (8 : Int)) : UInt8)
  sig := t_18
  let t_19 ← Go.bset sig (15 : Int) (Go.conv sig128.w0 : UInt8)
  sig := t_19
  let i ← scan sig
  let t_21 ← Go.bsliceFrom sig (Go.idx i)
  return ((0 : UInt8), (Decimal.Signbit d), t_21, ((Go.conv exp : Int32) - (6176 : Int32)))

def decStaged (d : Decimal) (buf : Go.Bytes) : Go.GoM (UInt8 × Bool × Go.Bytes × Int32) := do
  if (Decimal.IsNaN d) then
    return ((2 : UInt8), (Decimal.Signbit d), (#[] : Go.Bytes), (0 : Int32))
  if (Decimal.isInf d) then
    return ((1 : UInt8), (Decimal.Signbit d), (#[] : Go.Bytes), (0 : Int32))
  let (r_1, r_2) := Decimal.decompose d
  let mut sig128 : U128 := r_1
  let mut exp : Int16 := r_2
  if ((sig128.w0 ||| sig128.w1) == (0 : UInt64)) then
    return ((0 : UInt8), (Decimal.Signbit d), (#[] : Go.Bytes), (0 : Int32))
  let mut sig : Go.Bytes := (#[] : Go.Bytes)
  if (decide ((Go.len buf) ≥ (16 : Int64))) then
    let t_3 ← Go.bslice buf (0 : Int) (16 : Int)
    sig := t_3
  else
    sig := (Array.replicate (Go.idx (16 : Int64)).toNat (0 : UInt8))
  dec16 d sig128 exp sig

theorem Decompose_eq (d : Decimal) (buf : Go.Bytes) :
    Gen.Decimal.Decompose d buf = decStaged d buf := rfl
end CS
