/-
  D128/Proofs/QuoRemMain.lean — everything after the first division of
  `Gen.Decimal.QuoRemWithMode`: the two outer loops, the two roundings and the final `compose`,
  against the quotient clause `QR.qv` and the remainder clause `Spec.exactOrInfS` of `Spec.quoRem`.

  Provided (namespace `QR`):
  * `adjW_zero`, `reduce128_zero` : `reduce128` returns a zero significand unchanged
  * `finish_correct`  : the epilogue (two `reduce128`, overflow tests, `compose`)
  * `qrMain_correct`  : from the long-division invariant `LD T O exp sig rem 0 exp` the continuation
      `qrMain` terminates without panic and returns `(q, r)` with `𝔳[q]` `same` as
      `qv m qneg (T / O)` and `𝔳[r]` `same` as `exactOrInfS rneg (T % O) k`
-/
import D128.Proofs.QuoRemAccum
import D128.Proofs.QuoRemSpec
import D128.Proofs.RoundKernelReduce
import D128.Proofs.Specials

set_option autoImplicit false
set_option maxRecDepth 8192
set_option linter.unusedVariables false
set_option linter.unusedSimpArgs false

namespace QR
open Gen
local notation "𝔳[" d "]" => Spec.interp (Gen.Decimal.lo d) (Gen.Decimal.hi d)

theorem adjW_zero (rm : UInt8) (neg : Bool) : RK.adjW rm neg 0 0 0 = 0 := by
  unfold RK.adjW
  repeat' split
  all_goals first | rfl | (exfalso; revert ‹_›; decide)

/-- a zero significand passes through `reduce128` unchanged -/
theorem reduce128_zero (rm : UInt8) (neg : Bool) (z : U128) (e : Int16) (hz : z.toNat = 0)
    (h0 : 0 ≤ e.toInt) (h1 : e.toInt ≤ 12287) :
    RoundingMode.reduce128 rm neg z e 0 = .ok (z, e) := by
  have hz' : z = ⟨0, 0⟩ := U128.toNat_inj (by rw [hz]; rfl)
  subst hz'
  have hd : RK.dropLoop (⟨0, 0⟩, e, 0, 0) = .ok (⟨0, 0⟩, e, 0, 0) := by
    unfold RK.dropLoop
    rw [Go.loop_unfold]
    rfl
  have hs : RK.subLoop (⟨0, 0⟩, e, 0, 0) = .ok (⟨0, 0⟩, e, 0, 0) := by
    unfold RK.subLoop
    rw [Go.loop_unfold]
    have : ¬ e.toInt < 0 := by omega
    simp only [RK.subBody, RK.i16_lt_zero, this, decide_false, Bool.false_eq_true, if_false]
    rfl
  have hu : RK.upLoop (⟨0, 0⟩, e) = .ok (⟨0, 0⟩, e) := by
    unfold RK.upLoop
    rw [Go.loop_unfold]
    have : ¬ 12287 < e.toInt := by omega
    simp only [RK.upBody, RK.i16_gt_12287, this, decide_false, Bool.false_and, Bool.false_eq_true,
      if_false]
    rfl
  rw [RK.reduce128_eq]
  have hl : RK.ladder128 (RK.reduceTail rm neg) ⟨0, 0⟩ e 0 = RK.reduceTail rm neg ⟨0, 0⟩ e 0 0 := rfl
  rw [hl]
  unfold RK.reduceTail
  rw [hd, RK.ok_bind, hs, RK.ok_bind, hu, RK.ok_bind]
  exact RK.round_adj0 rm true neg ⟨0, 0⟩ e 0 0 (adjW_zero rm neg)

/-- a result of the rounding kernel, composed (or replaced by ±Inf), denotes the specified value -/
theorem compose_post (V : Spec.Val) (neg : Bool) (s : U128) (e : Int16) (h : RK.RoundPost V neg s e) :
    (𝔳[if decide (e > 12287) = true then Gen.inf neg else Gen.compose neg s e]).same V = true := by
  unfold RK.RoundPost at h
  rw [RK.i16_gt_12287]
  by_cases hc : 12287 < e.toInt
  · rw [if_pos hc] at h
    simp only [hc, decide_true, if_true]
    rw [Enc.interp_inf, h]; exact same_refl _
  · rw [if_neg hc] at h
    simp only [hc, decide_false, Bool.false_eq_true, if_false]
    rw [Sp.interp_compose neg s e h.1 h.2.1 (by omega), same_symm]
    exact h.2.2

theorem finish_correct (rm : UInt8) (qneg rneg : Bool) (sig : U128) (qexp : Int16) (trunc : Int8)
    (rem : U128) (rexp : Int16) (Vq Vr : Spec.Val)
    (hq : ∃ s e, RoundingMode.reduce128 rm qneg sig qexp trunc = .ok (s, e) ∧ RK.RoundPost Vq qneg s e)
    (hr : ∃ s e, RoundingMode.reduce128 rm rneg rem rexp 0 = .ok (s, e) ∧ RK.RoundPost Vr rneg s e) :
    ∃ q r, finish rm qneg rneg sig qexp trunc rem rexp = .ok (q, r) ∧
      (𝔳[q]).same Vq = true ∧ (𝔳[r]).same Vr = true := by
  obtain ⟨s1, e1, h1, p1⟩ := hq
  obtain ⟨s2, e2, h2, p2⟩ := hr
  have c1 := compose_post Vq qneg s1 e1 p1
  have c2 := compose_post Vr rneg s2 e2 p2
  refine ⟨_, _, ?_, c1, c2⟩
  unfold finish
  rw [h1, RK.ok_bind, h2, RK.ok_bind]
  by_cases a : decide (e1 > 12287) = true <;> by_cases b : decide (e2 > 12287) = true <;>
    simp only [a, b, if_true, if_false, Bool.false_eq_true] <;> rfl

theorem qrMain_correct (rm : UInt8) (m : Spec.Mode) (hm : Spec.Mode.ofNat? rm.toNat = some m)
    (qneg rneg : Bool) (oS : U128) (exp qexp rexp : Int16) (sig rem : U128) (T : Nat) (k : Int)
    (hO : oS.toNat ≤ Spec.Cmax ∨ exp.toInt = 0) (hT : 0 < T)
    (he0 : 0 ≤ exp.toInt) (he1 : exp.toInt ≤ 12287)
    (hq : qexp.toInt = exp.toInt + 6176)
    (hr0 : 0 ≤ rexp.toInt - exp.toInt) (hr1 : rexp.toInt ≤ 12287)
    (hLD : LD T oS.toNat exp.toInt.toNat sig.toNat rem.toNat 0 exp.toInt.toNat)
    (hremC : T % oS.toNat ≤ Spec.Cmax)
    (hk : k = rexp.toInt - exp.toInt - 6176) :
    ∃ q r, qrMain rm qneg rneg oS exp qexp rexp sig rem = .ok (q, r) ∧
      (𝔳[q]).same (qv m qneg (T / oS.toNat)) = true ∧
      (𝔳[r]).same (Spec.exactOrInfS rneg ((T % oS.toNat : Nat) : Rat) k) = true := by
  have hCm := RK.Cmax_val
  obtain ⟨s2, e2, a0, a1, ar, aq0, aq1, aLD, aexit⟩ :=
    l2Loop oS T (rexp - exp) (exp, qexp, rexp, sig, rem, 0) hO he0 he1 hq rfl hLD
  simp only at a0 a1 ar aq0 aq1 aLD aexit
  obtain ⟨s3, e3, b0, b1, br, bLD, bexit⟩ :=
    l3Loop oS T (rexp - exp) s2.2.2.2.1.toNat (s2.2.1.toInt - 6176).toNat
      (s2.1, s2.2.2.1, s2.2.2.2.2.1, s2.2.2.2.2.2)
      (by rcases hO with h | h
          · exact Or.inl h
          · right; show s2.1.toInt = 0; omega)
      (by intro h
          by_contra hle
          exact aexit ⟨h.1, h.2, by omega⟩)
      a0 (by show s2.1.toInt ≤ 12287; omega) ar aLD
  simp only at b0 b1 br bLD bexit
  have hx : s3.1.toInt.toNat = 0 ∨ s3.2.2.1.toNat = 0 := by
    by_cases h : 0 < s3.1.toInt
    · right
      by_contra hne
      exact bexit ⟨h, hne⟩
    · left; omega
  obtain ⟨fsig, ftr, frem, fT1⟩ := ld_final _ _ _ _ _ _ _ bLD hx
  have hOpos : 0 < oS.toNat := by
    have := ld_rem_lt _ _ _ _ _ _ _ bLD
    omega
  -- the remainder exponent
  have hrexp3 : s3.2.1.toInt = rexp.toInt - exp.toInt + s3.1.toInt :=
    i16_pass _ _ _ _ br (by omega) (by omega) (by omega) (by omega)
  suffices hQR : (∃ s e, RoundingMode.reduce128 rm qneg s2.2.2.2.1 s2.2.1 s3.2.2.2 = .ok (s, e) ∧
        RK.RoundPost (qv m qneg (T / oS.toNat)) qneg s e) ∧
      (∃ s e, RoundingMode.reduce128 rm rneg s3.2.2.1 s3.2.1 0 = .ok (s, e) ∧
        RK.RoundPost (Spec.exactOrInfS rneg ((T % oS.toNat : Nat) : Rat) k) rneg s e) by
    obtain ⟨q, r, h1, h2, h3⟩ := finish_correct rm qneg rneg s2.2.2.2.1 s2.2.1 s3.2.2.2 s3.2.2.1
      s3.2.1 _ _ hQR.1 hQR.2
    refine ⟨q, r, ?_, h2, h3⟩
    unfold qrMain
    rw [e2, RK.ok_bind, e3, RK.ok_bind]
    exact h1
  constructor
  · -- the quotient
    generalize hK : (s2.2.1.toInt - 6176).toNat = K at *
    have hKi : s2.2.1.toInt - 6176 = (K : Int) := by omega
    rcases Nat.eq_zero_or_pos (T / oS.toNat) with ht0 | htpos
    · -- zero quotient: only with no exponent left
      rw [ht0] at fsig ftr
      have hs0 : s2.2.2.2.1.toNat = 0 := by rw [fsig]; simp
      have htr0 : s3.2.2.2 = 0 := by
        rcases ftr with ⟨h, -⟩ | ⟨-, h⟩
        · exact h
        · simp at h
      have hsm := ld_small _ _ _ _ _ _ _ bLD (by omega)
      have hTlt : T < oS.toNat := by
        rcases Nat.lt_or_ge T oS.toNat with h | h
        · exact h
        · have := Nat.div_pos h hOpos; omega
      have hexp35 : exp.toInt ≤ 35 := by
        rcases hO with h | h
        · obtain ⟨Q, E, hTQ, -⟩ := hLD
          by_contra hgt
          have h1 : (10 : Nat) ^ 35 ≤ 10 ^ exp.toInt.toNat :=
            Nat.pow_le_pow_right (by norm_num) (by omega)
          have h2 : 0 < Q * oS.toNat + rem.toNat := by
            rcases Nat.eq_zero_or_pos (Q * oS.toNat + rem.toNat) with h0 | h0
            · rw [h0] at hTQ; omega
            · exact h0
          have h3 : 10 ^ exp.toInt.toNat ≤ T := by
            rw [← hTQ]; exact Nat.le_mul_of_pos_left _ h2
          have : Spec.Cmax < 10 ^ 35 := by rw [hCm]; norm_num
          omega
        · omega
      refine ⟨s2.2.2.2.1, s2.2.1, ?_, ?_⟩
      · rw [htr0]
        exact reduce128_zero rm qneg _ _ hs0 (by omega) (by omega)
      · unfold RK.RoundPost
        rw [if_neg (by omega)]
        refine ⟨by omega, by omega, ?_⟩
        rw [ht0, hs0]
        simp only [qv, beq_self_eq_true, if_true]
        exact Sp.same_zero _ _ _
    · obtain ⟨hτ, hτ0, hval⟩ := tau_rel (T / oS.toNat) K s2.2.2.2.1.toNat s3.2.2.2 fsig ftr
      generalize hτdef : ((T / oS.toNat % 10 ^ K : Nat) : ℚ) / (10 : ℚ) ^ K = τ at *
      have hpK : (0 : ℚ) < (10 : ℚ) ^ (K : Int) := zpow_pos (by norm_num) _
      have hqpos : 0 < (s2.2.2.2.1.toNat : ℚ) + τ := by
        by_contra hle
        have h1 : ((s2.2.2.2.1.toNat : ℚ) + τ) * (10 : ℚ) ^ (K : Int) ≤ 0 :=
          mul_nonpos_of_nonpos_of_nonneg (not_lt.1 hle) hpK.le
        have h2 : (0 : ℚ) < ((T / oS.toNat : Nat) : ℚ) := by exact_mod_cast htpos
        linarith
      have h01 : s3.2.2.2 = 0 ∨ s3.2.2.2 = 1 := by
        rcases ftr with ⟨h, -⟩ | ⟨h, -⟩
        · exact Or.inl h
        · exact Or.inr h
      have hne : s3.2.2.2 ≠ -1 := by
        rcases h01 with h | h <;> rw [h] <;> decide
      obtain ⟨s', e', hred, hpost⟩ := reduce128_correct rm m qneg s2.2.2.2.1 s2.2.1 s3.2.2.2 τ hm
        (by omega) (by omega) hτ hqpos fT1 (fun h => absurd h hne) (fun h => absurd h hne)
      refine ⟨s', e', hred, ?_⟩
      apply post_transfer _ _ _ _ _ hpost
      rw [hKi]
      exact round_quo_same m qneg _ htpos _ _ (by positivity) hval
  · -- the remainder
    rw [← frem]
    rcases Nat.eq_zero_or_pos s3.2.2.1.toNat with hr0' | hrpos
    · refine ⟨s3.2.2.1, s3.2.1, reduce128_zero rm rneg _ _ hr0' (by omega) (by omega), ?_⟩
      unfold RK.RoundPost
      rw [if_neg (by omega)]
      refine ⟨by omega, by omega, ?_⟩
      rw [hr0']
      simp only [Spec.exactOrInfS, Nat.cast_zero, beq_self_eq_true, if_true]
      exact Sp.same_zero _ _ _
    · have hexp3 : s3.1.toInt = 0 := by
        rcases hx with h | h
        · omega
        · omega
      have hkk : s3.2.1.toInt - 6176 = k := by omega
      obtain ⟨s', e', hred, hpost⟩ := reduce128_correct rm m rneg s3.2.2.1 s3.2.1 0 0 hm
        (by omega) (by omega) (Or.inl ⟨by decide, rfl⟩)
        (by rw [add_zero]; exact_mod_cast hrpos)
        (fun h => absurd h (by decide)) (fun h => absurd h (by decide))
        (fun h => absurd h (by decide))
      refine ⟨s', e', hred, ?_⟩
      apply post_transfer _ _ _ _ _ hpost
      rw [add_zero, hkk]
      exact round_member_same m rneg _ k _ k hrpos (by rw [frem]; exact hremC)
        (by rw [hk]; unfold Spec.Emin; omega) (by rw [hk]; unfold Spec.Emax; omega)
        (Nat.cast_nonneg _) rfl

end QR
