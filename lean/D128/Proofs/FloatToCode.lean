/-
  D128/Proofs/FloatToCode.lean — stage decomposition of the generated `Gen.Decimal.Float64` and
  `Gen.Decimal.Float32` (Go: /repo/convert.go, `func (d Decimal) Float64()`, `Float32()`).

  The generated function is one `do` block with six `while` loops (one of them with a nested loop).  We
  name the loop bodies and the stages; every name is tied to the generated definition by equations
  proved by definitional unfolding (`unfold …; simp only […]`), so they break when the generated code
  changes.  Nothing here is a model that anything is proved "instead of".

  Provided (namespace `F2`):
  * `negBody`    : `for shift != 0 { zeros := lz(sig256[3]); sig256 = sig256.lsh(zeros); exp -= zeros;
                                       sig256, _ = sig256.div10(); shift-- }`, state `(exp, sig256, shift)`
  * `mul19Body`  : `for shift > 19 && sig256[3] == 0 { sig256 = sig256.mul64(1e19); shift -= 19 }`
  * `mul10Body`  : `for shift != 0 && sig256[3] <= 0x18ff… { sig256 = sig256.mul64(10); shift-- }`
  * `rshBody`    : `for shift != 0 { sig256 = sig256.rsh(4); exp += 4; <mul10 loop> }`, state `(exp, sig256, shift)`
  * `normBody`   : `for zeros != 0 { sig256 = sig256.lsh(zeros); exp -= zeros; zeros = lz(sig256[3]) }`
  * `signed`, `zeroRes`, `infRes`, `epilogue` : sign application, the ±0 / ±Inf results, normalisation + `Ldexp`
  * `negPath`, `posPath`, `finitePath`
  * `Float64_special`  : NaN ↦ `math.NaN()`, ±Inf ↦ `math.Inf(∓1)`
  * `Float64_zero`     : zero coefficient ↦ ±0
  * `Float64_eq`       : for finite non-zero `d`:  `Gen.Decimal.Float64 d = finitePath d.Signbit sig exp`
  * `Float32_eq`       : `Gen.Decimal.Float32 d = (Gen.Decimal.Float64 d).map Go.F64.toF32`
-/
import D128.Gen.ConvertFloat
import D128.Proofs.RoundKernelCode

set_option autoImplicit false
set_option maxRecDepth 8192
set_option linter.unusedVariables false

namespace F2
open Gen

abbrev St := Int16 × U256 × Int64

/-- the scaling loop for negative decimal exponents, state `(exp, sig256, shift)` -/
def negBody (_ : Unit) (s : St) : Go.GoM (ForInStep St) :=
  if (s.2.2 != 0) = true then do
    let x ← U256.div10 (U256.lsh s.2.1 (Go.conv (Go.bits.LeadingZeros64 s.2.1.w3)))
    pure (ForInStep.yield (s.1 - Go.conv (Go.bits.LeadingZeros64 s.2.1.w3), x.1, s.2.2 - 1))
  else pure (ForInStep.done (s.1, s.2.1, s.2.2))

/-- `for shift > 19 && sig256[3] == 0 { sig256 = sig256.mul64(10^19); shift -= 19 }` -/
def mul19Body (_ : Unit) (s : U256 × Int64) : Go.GoM (ForInStep (U256 × Int64)) :=
  if (decide (s.2 > 19) && s.1.w3 == 0) = true then
    pure (ForInStep.yield (U256.mul64 s.1 10000000000000000000, s.2 - 19))
  else pure (ForInStep.done (s.1, s.2))

/-- `for shift != 0 && sig256[3] <= 0x18ff_ffff_ffff_ffff { sig256 = sig256.mul64(10); shift-- }` -/
def mul10Body (_ : Unit) (s : U256 × Int64) : Go.GoM (ForInStep (U256 × Int64)) :=
  if (s.2 != 0 && decide (s.1.w3 ≤ 1801439850948198399)) = true then
    pure (ForInStep.yield (U256.mul64 s.1 10, s.2 - 1))
  else pure (ForInStep.done (s.1, s.2))

/-- `for shift != 0 { sig256 = sig256.rsh(4); exp += 4; <mul10 loop> }`, state `(exp, sig256, shift)` -/
def rshBody (_ : Unit) (s : St) : Go.GoM (ForInStep St) :=
  if (s.2.2 != 0) = true then do
    let s1 ← forIn Lean.Loop.mk (U256.rsh s.2.1 4, s.2.2) mul10Body
    pure (ForInStep.yield (s.1 + 4, s1.1, s1.2))
  else pure (ForInStep.done (s.1, s.2.1, s.2.2))

/-- the final normalisation loop, state `(exp, sig256, zeros)` -/
def normBody (_ : Unit) (s : St) : Go.GoM (ForInStep St) :=
  if (s.2.2 != 0) = true then
    pure (ForInStep.yield (s.1 - Go.conv s.2.2, U256.lsh s.2.1 (Go.conv s.2.2),
      Go.bits.LeadingZeros64 (U256.lsh s.2.1 (Go.conv s.2.2)).w3))
  else pure (ForInStep.done (s.1, s.2.1, s.2.2))

/-- `if d.Signbit() { f = math.Copysign(f, -1.0) }` -/
def signed (neg : Bool) (f : Go.F64) : Go.F64 :=
  if neg = true then Go.math.Copysign f { bits := 13830554455654793216 } else f

/-- `±0` -/
def zeroRes (neg : Bool) : Go.F64 := signed neg { bits := 0 }

/-- `±Inf` -/
def infRes (neg : Bool) : Go.F64 := if neg = true then Go.math.Inf (-1) else Go.math.Inf 1

/-- the float handed back for the normalised pair `(w, E)`: `Ldexp(float64(w), E)` with the sign of `d` -/
def result (neg : Bool) (w : UInt64) (E : Int16) : Go.F64 :=
  signed neg (Go.math.Ldexp (Go.F64.ofUInt64 w) (Go.conv E))

/-- normalisation loop, `exp += 192`, `float64(sig256[3])`, `Ldexp`, sign -/
def epilogue (neg : Bool) (exp : Int16) (sig : U256) : Go.GoM Go.F64 := do
  let s ← forIn Lean.Loop.mk (exp, sig, Go.bits.LeadingZeros64 sig.w3) normBody
  pure (result neg s.2.1.w3 (s.1 + 192))

/-- negative decimal exponent `-shift` -/
def negPath (neg : Bool) (sig : U128) (shift : Int64) : Go.GoM Go.F64 := do
  let s ← forIn Lean.Loop.mk ((-128 : Int16), ({ w0 := 0, w1 := 0, w2 := sig.w0, w3 := sig.w1 } : U256), shift) negBody
  epilogue neg s.1 s.2.1

/-- non-negative decimal exponent `shift` -/
def posPath (neg : Bool) (sig : U128) (shift : Int64) : Go.GoM Go.F64 := do
  let s ← forIn Lean.Loop.mk (({ w0 := sig.w0, w1 := sig.w1, w2 := 0, w3 := 0 } : U256), shift) mul19Body
  let s ← forIn Lean.Loop.mk (s.1, s.2) mul10Body
  let s ← forIn Lean.Loop.mk ((0 : Int16), s.1, s.2) rshBody
  epilogue neg s.1 s.2.1

/-- `Float64` of a finite non-zero decimal with sign `neg`, coefficient `sig`, biased exponent `exp` -/
def finitePath (neg : Bool) (sig : U128) (exp : Int16) : Go.GoM Go.F64 :=
  if decide (exp - 6176 < -358) = true then pure (zeroRes neg)
  else if decide (exp - 6176 > 308) = true then pure (infRes neg)
  else if decide ((Go.conv (exp - 6176) : Int64) < 0) = true then
    negPath neg sig ((Go.conv (exp - 6176) : Int64) * -1)
  else posPath neg sig (Go.conv (exp - 6176))

theorem Float64_special (d : Decimal) (hd : Decimal.isSpecial d = true) :
    Decimal.Float64 d = .ok (if Decimal.IsNaN d = true then Go.math.NaN else infRes (Decimal.Signbit d)) := by
  unfold Decimal.Float64 infRes
  simp only [hd, if_true]
  by_cases h1 : Decimal.IsNaN d = true
  · simp only [h1, if_true]; rfl
  · simp only [h1, if_false, Bool.false_eq_true]
    by_cases h2 : Decimal.Signbit d = true
    · simp only [h2, if_true]; rfl
    · simp only [h2, if_false, Bool.false_eq_true]; rfl

theorem Float64_zero (d : Decimal) (hd : Decimal.isSpecial d = false)
    (hz : ((Decimal.decompose d).1.w0 ||| (Decimal.decompose d).1.w1 == 0) = true) :
    Decimal.Float64 d = .ok (zeroRes (Decimal.Signbit d)) := by
  unfold Decimal.Float64 zeroRes signed
  simp only [hd, hz, Bool.false_eq_true, if_false, if_true]
  by_cases h2 : Decimal.Signbit d = true
  · simp only [h2, if_true]; rfl
  · simp only [h2, if_false, Bool.false_eq_true]; rfl

theorem Float64_eq (d : Decimal) (hd : Decimal.isSpecial d = false)
    (hz : ((Decimal.decompose d).1.w0 ||| (Decimal.decompose d).1.w1 == 0) = false) :
    Decimal.Float64 d = finitePath (Decimal.Signbit d) (Decimal.decompose d).1 (Decimal.decompose d).2 := by
  unfold Decimal.Float64
  simp only [hd, hz, Bool.false_eq_true, if_false]
  unfold finitePath negPath posPath epilogue result zeroRes infRes signed rshBody normBody mul10Body mul19Body negBody
  by_cases h2 : Decimal.Signbit d = true
  · simp only [h2, if_true, bind_pure_comp]
  · simp only [h2, if_false, Bool.false_eq_true]

theorem Float32_eq (d : Decimal) :
    Decimal.Float32 d = (do let t ← Decimal.Float64 d; pure (Go.F64.toF32 t)) := by
  unfold Decimal.Float32; rfl

end F2
