/-
  D128/Proofs/D192OneVal.lean — rational readings used by the contracts of `add1`, `sub1`, `add1neg`.

  Provided (namespace `D192`):
  * `val_eq`, `val_pos`, `one_le_val`     : elementary facts on `val`
  * `val_lt_pow`                          : `d.exp ≤ E → val d < 2^192·10^E`
  * `val_lt_of_lt`                        : `d.sig < 10^j → val d < 10^(d.exp + j)`
  * `EarlyC.val_lt`                       : early return of the digit-dropping loops ⇒ `val d < 10^-57`
  * `val_scale`                           : `r.sig = d.sig·10^j ∧ r.exp = d.exp - j → val r = val d`
  * `pow_neg_mul`                         : `e ≤ 0 → (10^(-e).toNat : ℚ)·10^e = 1`
  * `dropped_lt`                          : `k ≠ 0 → sig < 2^192 → sig / 10^k < 10^57`
  * `Tr.relerr`                           : a truncation state keeps 57 digits:
                                            `(P·10^e0 - val r)·⌊2^192/10⌋ ≤ val r`
-/
import D128.Proofs.D192OneBase

set_option autoImplicit false
set_option maxRecDepth 4096
set_option exponentiation.threshold 512

namespace D192

theorem val_eq (x : Gen.decomposed192) : val x = (x.sig.toNat : ℚ) * ulp x := rfl

theorem val_pos {d : Gen.decomposed192} (h : 0 < d.sig.toNat) : 0 < val d :=
  mul_pos (by exact_mod_cast h) (ulp_pos d)

theorem one_le_ulp {d : Gen.decomposed192} (h : 0 ≤ d.exp.toInt) : 1 ≤ ulp d :=
  one_le_zpow₀ (by norm_num) h

theorem one_le_val {d : Gen.decomposed192} (h : 0 < d.sig.toNat) (he : 0 ≤ d.exp.toInt) :
    1 ≤ val d := by
  have h1 : (1 : ℚ) ≤ (d.sig.toNat : ℚ) := by exact_mod_cast h
  have h2 := one_le_ulp he
  rw [val_eq]
  nlinarith

theorem val_lt_pow (d : Gen.decomposed192) (E : Int) (h : d.exp.toInt ≤ E) :
    val d < (2 : ℚ) ^ 192 * (10 : ℚ) ^ E := by
  have h1 : (d.sig.toNat : ℚ) < (2 : ℚ) ^ 192 := by exact_mod_cast U192.toNat_lt d.sig
  have h2 : (10 : ℚ) ^ d.exp.toInt ≤ (10 : ℚ) ^ E := zpow_le_zpow_right₀ (by norm_num) h
  have h3 : (0 : ℚ) < (10 : ℚ) ^ d.exp.toInt := zpow_pos (by norm_num) _
  unfold val
  calc (d.sig.toNat : ℚ) * (10 : ℚ) ^ d.exp.toInt < (2 : ℚ) ^ 192 * (10 : ℚ) ^ d.exp.toInt :=
        mul_lt_mul_of_pos_right h1 h3
    _ ≤ _ := mul_le_mul_of_nonneg_left h2 (by norm_num)

theorem val_lt_of_lt (d : Gen.decomposed192) (j : Nat) (h : d.sig.toNat < 10 ^ j) :
    val d < (10 : ℚ) ^ (d.exp.toInt + j) := by
  have h1 : (d.sig.toNat : ℚ) < (10 : ℚ) ^ j := by exact_mod_cast h
  have h3 : (0 : ℚ) < (10 : ℚ) ^ d.exp.toInt := zpow_pos (by norm_num) _
  unfold val
  rw [zpow_add₀ (by norm_num), zpow_natCast, mul_comm ((10 : ℚ) ^ d.exp.toInt)]
  exact mul_lt_mul_of_pos_right h1 h3

theorem EarlyC.val_lt {d : Gen.decomposed192} (h : EarlyC d.sig.toNat d.exp) :
    val d < (10 : ℚ) ^ (-57 : Int) := by
  obtain ⟨j, hj, he⟩ := h
  have hlt : d.sig.toNat < 10 ^ j := by
    rcases Nat.lt_or_ge d.sig.toNat (10 ^ j) with h | h
    · exact h
    · have := Nat.div_pos h (Nat.pow_pos (by norm_num)); omega
  exact lt_of_lt_of_le (val_lt_of_lt d j hlt) (zpow_le_zpow_right₀ (by norm_num) he)

theorem val_scale {d r : Gen.decomposed192} (j : Nat) (hs : r.sig.toNat = d.sig.toNat * 10 ^ j)
    (he : r.exp.toInt = d.exp.toInt - j) : val r = val d := by
  unfold val
  rw [hs, he, zpow_sub₀ (by norm_num), zpow_natCast]
  push_cast
  field_simp

theorem pow_neg_mul (e : Int) (h : e ≤ 0) : ((10 ^ (-e).toNat : Nat) : ℚ) * (10 : ℚ) ^ e = 1 := by
  have : e = -((-e).toNat : Int) := by omega
  rw [this]
  generalize (-e).toNat = n
  simp only [neg_neg, Int.toNat_natCast]
  push_cast
  rw [zpow_neg, zpow_natCast]
  field_simp

/-- once a digit has been dropped from a 192-bit significand at most 57 digits are left: the
quotient is below `10^57` (so it is below the representation `10^57` of 1 at exponent `-57`). -/
theorem dropped_lt (sig k : Nat) (hsig : sig < 2 ^ 192) (hk : k ≠ 0) : sig / 10 ^ k < 10 ^ 57 := by
  have h10 : 10 ^ 1 ≤ 10 ^ k := Nat.pow_le_pow_right (by norm_num) (by omega)
  have h1 : sig / 10 ^ k ≤ sig / 10 ^ 1 := Nat.div_le_div_left h10 (by norm_num)
  have h2 : sig / 10 ^ 1 < 10 ^ 57 := by
    rw [Nat.div_lt_iff_lt_mul (by norm_num)]
    calc sig < 2 ^ 192 := hsig
      _ ≤ _ := by norm_num
  omega

/-- a truncation state keeps 57 digits: the error is at most `val r / ⌊2^192/10⌋`. -/
theorem Tr.relerr {P : Nat} {t0 t' : Int8} {e0 : Int16} {r : Gen.decomposed192} (K : Nat)
    (h : Tr P t0 e0 t' r.sig.toNat r.exp) (hP : P < 2 ^ 192 / 10 * 10 ^ (K + 1))
    (hK : K ≤ 100) (hlo : -32768 ≤ e0.toInt) (hhi : e0.toInt + K ≤ 32767) :
    ((P : ℚ) * (10 : ℚ) ^ e0.toInt - val r) * ((2 ^ 192 / 10 : Nat) : ℚ) ≤ val r := by
  have hc := Tr.contract K h hP hK hlo hhi
  obtain ⟨k, hcur, he, _, hn⟩ := h
  rcases hn with h0 | h0
  · subst h0
    have e1 : r.exp = e0 := by rw [he]; simp
    have e2 : r.sig.toNat = P := by rw [hcur]; simp
    have : val r = (P : ℚ) * (10 : ℚ) ^ e0.toInt := by unfold val; rw [e1, e2]
    rw [this, sub_self, zero_mul]
    exact mul_nonneg (Nat.cast_nonneg _) (zpow_pos (by norm_num) _).le
  · have h1 : (P : ℚ) * (10 : ℚ) ^ e0.toInt - val r < ulp r := by linarith [hc.2.1]
    have h2 : ((2 ^ 192 / 10 : Nat) : ℚ) ≤ (r.sig.toNat : ℚ) := by exact_mod_cast h0
    have h3 := ulp_pos r
    have h4 : (0 : ℚ) ≤ ((2 ^ 192 / 10 : Nat) : ℚ) := by positivity
    rw [val_eq]
    calc ((P : ℚ) * (10 : ℚ) ^ e0.toInt - (r.sig.toNat : ℚ) * ulp r) * ((2 ^ 192 / 10 : Nat) : ℚ)
        ≤ ulp r * ((2 ^ 192 / 10 : Nat) : ℚ) := by
          apply mul_le_mul_of_nonneg_right _ h4
          rw [← val_eq]; exact h1.le
      _ ≤ (r.sig.toNat : ℚ) * ulp r := by nlinarith

end D192
