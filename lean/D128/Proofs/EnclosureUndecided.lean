/-
  Soundness of the oracle, part 22: what the oracle cannot decide.  Characterisation of the `.undecided` answers
  of `judgeElem` and `judgePow`.

  1. `trueValue_lo_pos`      : every enclosure returned by `trueValue` is positive, so `withinUlps` never answers
                               "enclosure not positive" after it
  2. `judgeElem_undecided`   : judgeElem f x r ne = .undecided w  →  x is finite, not special, not an exact case,
                               not a huge argument, and `trueValue f n c e = none`
     `judgeElem_decided_exp` : for Exp, Exp2, Exp10 the oracle never answers `.undecided`
     `trueValue_none_log`    : for Log, Log2, Log10: `trueValue = none` iff the certified logarithm failed
                               (`Encl.log c e = none`) or its bracket (scaled by 1/ln b) contains 0
  3. `judgePow_undecided`    : judgePow m x y r = .undecided w → not a shortcut case, and (finite operands)
                               Encl.log xc xe = none ∨ ye > 45 ∨ ye < −6300 ∨ powT? p = none (p within ±40000)
                               (the alternative "a non-finite operand with powSpecial = none" does not occur:
                               `powSpecial` answers for every NaN/Inf operand, see Props/C18.lean)
-/
import D128.Proofs.EnclosurePowOk
set_option autoImplicit false

namespace EnclPf
open Spec Spec.Encl SpecRound

/-! ## 1. enclosures are positive -/

theorem trueValue_lo_pos (f : Fn) (n : Bool) (c : Nat) (e : Int) (tn : Bool) (t : Sci)
    (hc0 : c ≠ 0) (hc : c < 10 ^ 35) (h : trueValue f n c e = some (tn, t)) : 0 < t.m.lo := by
  cases f
  · exact (trueValue_exp_narrow n c e tn t hc0 hc h).1
  · exact (trueValue_exp2_narrow n c e tn t hc0 hc h).1
  · exact (trueValue_exp10_narrow n c e tn t hc0 hc h).1
  · exact (trueValue_expm1_narrow n c e tn t hc0 hc h).1
  · exact (trueValue_log_narrow n c e tn t h).1
  · exact (trueValue_log2_narrow n c e tn t h).1
  · exact (trueValue_log10_narrow n c e tn t h).1
  · exact (trueValue_log1p_narrow n c e tn t hc0 hc h).1
  · exact absurd h (by simp [trueValue])
  · exact absurd h (by simp [trueValue])

theorem withinUlps_decided {r : Val} {t : Sci} {x : ℚ} (hlo : 0 < t.m.lo) (w : String) :
    withinUlps r t x ≠ .undecided w := by
  unfold withinUlps
  simp only [not_le.2 hlo, if_false]
  match r with
  | .nan _ _ => simp
  | .inf _ =>
    simp only
    split
    · simp
    · split
      · simp
      · split <;> simp
  | .fin _ c e =>
    simp only
    split
    · split <;> simp
    · split
      · simp
      · split
        · simp
        · split
          · simp
          · split <;> simp

/-! ## 2. `judgeElem` -/

theorem judgeElem_undecided (f : Fn) (x r : Val) (ne : Bool) (w : String)
    (hx : ∀ n c e, x = .fin n c e → c < 10 ^ 35)
    (h : judgeElem f x r ne = .undecided w) :
    ∃ n c e, x = .fin n c e ∧ specialCase f x = none ∧ (if ne then exactCase f n c e else none) = none ∧
      hugeArg f c e = false ∧ trueValue f n c e = none := by
  cases hs : specialCase f x with
  | some want =>
    rw [judgeElem_special f x r ne want hs] at h
    split at h <;> exact absurd h (by simp)
  | none =>
    match x with
    | .nan nn p => exact absurd hs (by simp [specialCase])
    | .inf nn => exact absurd hs (by cases f <;> simp [specialCase])
    | .fin n c e =>
      refine ⟨n, c, e, rfl, rfl, ?_⟩
      have hc := hx n c e rfl
      obtain ⟨hc0, -⟩ := specialCase_none hs
      cases hex : (if ne then exactCase f n c e else none) with
      | some want =>
        exfalso
        have hne : ne = true := by
          cases ne
          · simp at hex
          · rfl
        subst hne
        simp only [if_true] at hex
        rw [judgeElem_exact f n c e r want hs hex] at h
        split at h <;> exact absurd h (by simp)
      | none =>
        refine ⟨rfl, ?_⟩
        cases hh : hugeArg f c e with
        | true =>
          exfalso
          rw [judgeElem_huge f n c e r ne hs hex hh] at h
          split at h
          · split at h
            · split at h <;> exact absurd h (by simp)
            · split at h <;> exact absurd h (by simp)
          · split at h <;> exact absurd h (by simp)
        | false =>
          refine ⟨rfl, ?_⟩
          cases htv : trueValue f n c e with
          | none => rfl
          | some p =>
            exfalso
            obtain ⟨tn, t⟩ := p
            rw [judgeElem_general f n c e r ne tn t hs hex hh htv] at h
            have hlo := trueValue_lo_pos f n c e tn t hc0 hc htv
            split at h
            · exact absurd h (by simp)
            · split at h
              · exact absurd h (by simp)
              · exact withinUlps_decided hlo w h

/-- Exp, Exp2 and Exp10 are always decided -/
theorem judgeElem_decided_exp (f : Fn) (hf : f = .exp ∨ f = .exp2 ∨ f = .exp10) (x r : Val) (ne : Bool)
    (w : String) (hx : ∀ n c e, x = .fin n c e → c < 10 ^ 35) :
    judgeElem f x r ne ≠ .undecided w := by
  intro h
  obtain ⟨n, c, e, rfl, hs, -, hh, htv⟩ := judgeElem_undecided f _ r ne w hx h
  have hc := hx n c e rfl
  obtain ⟨hc0, -⟩ := specialCase_none hs
  have h7 : e + (ndigits c : Int) ≤ 7 := by
    unfold hugeArg at hh
    rcases hf with rfl | rfl | rfl <;> simpa using hh
  rcases hf with rfl | rfl | rfl
  · obtain ⟨t, ht⟩ := trueValue_exp_isSome n c e hc0 hc h7; rw [ht] at htv; exact absurd htv (by simp)
  · obtain ⟨t, ht⟩ := trueValue_exp2_isSome n c e hc0 hc h7; rw [ht] at htv; exact absurd htv (by simp)
  · obtain ⟨t, ht⟩ := trueValue_exp10_isSome n c e hc0 hc h7; rw [ht] at htv; exact absurd htv (by simp)

theorem signSplit_none {l : I} : signSplit l = none ↔ l.lo ≤ 0 ∧ 0 ≤ l.hi := by
  unfold signSplit
  constructor
  · intro h
    split at h
    · exact absurd h (by simp)
    · rename_i h1
      split at h
      · exact absurd h (by simp)
      · rename_i h2; exact ⟨not_lt.1 h1, not_lt.1 h2⟩
  · rintro ⟨h1, h2⟩
    rw [if_neg (not_lt.2 h1), if_neg (not_lt.2 h2)]

/-- Log, Log2, Log10 are undecided exactly when the certificate fails or the (scaled) bracket contains 0
    (the latter happens for x = 1 under a non-default mode, where the exact case `Log 1 = 0` is not consulted) -/
theorem trueValue_none_log (n : Bool) (c : Nat) (e : Int) :
    (trueValue .log n c e = none ↔
      Encl.log (c : ℚ) e = none ∨ ∃ l, Encl.log (c : ℚ) e = some l ∧ l.lo ≤ 0 ∧ 0 ≤ l.hi) ∧
    (trueValue .log2 n c e = none ↔
      Encl.log (c : ℚ) e = none ∨ ∃ l, Encl.log (c : ℚ) e = some l ∧
        (l.mul ln2.invPos).lo ≤ 0 ∧ 0 ≤ (l.mul ln2.invPos).hi) ∧
    (trueValue .log10 n c e = none ↔
      Encl.log (c : ℚ) e = none ∨ ∃ l, Encl.log (c : ℚ) e = some l ∧
        (l.mul ln10.invPos).lo ≤ 0 ∧ 0 ≤ (l.mul ln10.invPos).hi) := by
  rw [trueValue_log_eq, trueValue_log2_eq, trueValue_log10_eq]
  cases hl : Encl.log (c : ℚ) e with
  | none => simp
  | some l => simp [signSplit_none]

/-! ## 3. `judgePow` -/

theorem powT_lo_pos {p : I} {t : Sci} {v : ℝ} (h : powT? p = some t) (hv : v ∈ᵢ p) : 0 < t.m.lo := by
  unfold powT? at h
  split at h
  · obtain rfl := Option.some.inj h
    exact nearOne_narrow.1
  · exact (expI_ratio h hv).1

theorem judgePow_undecided (m : Mode) (x y r : Val) (w : String) (h : judgePow m x y r = .undecided w) :
    powSpecial m x y = none ∧
    ((x.isFin = false ∨ y.isFin = false) ∨
     ∃ xn xc xe yn yc ye, x = .fin xn xc xe ∧ y = .fin yn yc ye ∧
      (Encl.log (xc : ℚ) xe = none ∨ ye > 45 ∨ ye < -6300 ∨
        ∃ l, Encl.log (xc : ℚ) xe = some l ∧ ¬ (powP l yn yc ye).lo > 40000 ∧
          ¬ (powP l yn yc ye).hi < -40000 ∧ powT? (powP l yn yc ye) = none)) := by
  cases hs : powSpecial m x y with
  | some want =>
    unfold judgePow at h
    simp only [hs] at h
    split at h <;> exact absurd h (by simp)
  | none =>
    refine ⟨rfl, ?_⟩
    match x, y with
    | .fin xn xc xe, .fin yn yc ye =>
      right
      refine ⟨xn, xc, xe, yn, yc, ye, rfl, rfl, ?_⟩
      obtain ⟨hc0, -⟩ := powSpecial_none_facts m xn xc xe yn yc ye hs
      cases hl : Encl.log (xc : ℚ) xe with
      | none => left; rfl
      | some l =>
        right
        by_cases hy1 : ye > 45
        · left; exact hy1
        right
        by_cases hy2 : ye < -6300
        · left; exact hy2
        right
        refine ⟨l, rfl, ?_⟩
        rw [judgePow_cases m xn xc xe yn yc ye r l hs hl hy1 hy2] at h
        split at h
        · split at h <;> exact absurd h (by simp)
        rename_i hp1
        split at h
        · split at h <;> exact absurd h (by simp)
        rename_i hp2
        refine ⟨hp1, hp2, ?_⟩
        cases ht : powT? (powP l yn yc ye) with
        | none => rfl
        | some t =>
          exfalso
          rw [ht] at h
          simp only at h
          have hlo := powT_lo_pos ht (powP_mem (xn := xn) yn yc ye hc0 hl)
          split at h
          · exact absurd h (by simp)
          · exact withinUlps_decided hlo w h
    | .nan _ _, _ => left; left; rfl
    | .inf _, _ => left; left; rfl
    | .fin _ _ _, .nan _ _ => left; right; rfl
    | .fin _ _ _, .inf _ => left; right; rfl

end EnclPf
