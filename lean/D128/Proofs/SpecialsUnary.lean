/-
  D128/Proofs/SpecialsUnary.lean — special operands of the ten unary elementary functions
  (property C15, target 4), against the Go-`math` table `Spec.specialCase`.

  * tactics `view1`, `unary_pre`, `unary_post`
  * `Exp_special`, `Exp2_special`, `Exp10_special`, `Log_special`, `Log2_special`, `Log10_special`,
    `Sqrt_special`, `Cbrt_special` :
       Spec.specialCase fn 𝔳[d] = some w → ∃ r, Gen.f g d = .ok r ∧ 𝔳[r].same w
  * `Expm1_special` : the same with the hypothesis that d is not a negative zero (known defect:
    Expm1(-0) = +0), and `Expm1_neg_zero`, `Expm1_neg_zero_bits` recording the actual behaviour
  * bit-exact NaN propagation `*_nan` for all ten functions
-/
import D128.Proofs.Specials
set_option autoImplicit false
set_option linter.unusedSimpArgs false

namespace Sp
local notation "𝔳[" d "]" => Spec.interp (Gen.Decimal.lo d) (Gen.Decimal.hi d)

set_option hygiene false in
macro "view1" : tactic => `(tactic| (
  rcases view d with ⟨a1, a2, a3, a4, av⟩ | ⟨a1, a2, a3, a4, av⟩ | ⟨a1, a2, a3, a4, a5, ac, av⟩ | ⟨a1, a2, a3, a4, a5, ac, ab, av⟩))

theorem posOne_eq : Spec.posOne = .fin false 1 0 := rfl

set_option hygiene false in
/-- first half of the unary special-operand proofs (after `unfold`): class and sign split, evaluation of
    `Spec.specialCase` in `h` and of the class tests in the goal -/
macro "unary_pre" : tactic => `(tactic| (
  view1 <;>
  (rw [av] at h; simp only [a1, a2, a3, a4, if_true, if_false, Bool.false_eq_true]) <;>
  cases hsd : Gen.Decimal.Signbit d <;>
  simp only [hsd, Spec.specialCase, if_true, if_false, Bool.false_eq_true, beq_self_eq_true, Option.some.injEq] at h av ⊢ <;>
  (try simp only [ab, if_false, Bool.false_eq_true, Option.some.injEq] at h)))

set_option hygiene false in
/-- second half: either the table says `none` (contradiction) or the returned value is compared -/
macro "unary_post" : tactic => `(tactic| (
  first
    | (cases h; done)
    | (subst h; refine ⟨_, rfl, ?_⟩;
       simp only [av, Enc.interp_inf, Enc.interp_nan, Enc.interp_zero, Enc.interp_one, same_refl, same_zero, posOne_eq,
         Spec.invalid1, Spec.invalid, Spec.Fn.op, classCode_zero, classCode_inf, Spec.Op.code,
         if_true, if_false, Bool.false_eq_true];
       (try simp only [classCode_fin _ _ _ ac, if_true, if_false, Bool.false_eq_true]); try rfl)))

theorem Exp_special (g : Globals) (d : Gen.Decimal) (w : Spec.Val)
    (h : Spec.specialCase .exp 𝔳[d] = some w) :
    ∃ r, Gen.Exp g d = .ok r ∧ (𝔳[r]).same w = true := by
  unfold Gen.Exp
  unary_pre <;> unary_post

theorem Exp2_special (g : Globals) (d : Gen.Decimal) (w : Spec.Val)
    (h : Spec.specialCase .exp2 𝔳[d] = some w) :
    ∃ r, Gen.Exp2 g d = .ok r ∧ (𝔳[r]).same w = true := by
  unfold Gen.Exp2
  unary_pre <;> unary_post

theorem Exp10_special (g : Globals) (d : Gen.Decimal) (w : Spec.Val)
    (h : Spec.specialCase .exp10 𝔳[d] = some w) :
    ∃ r, Gen.Exp10 g d = .ok r ∧ (𝔳[r]).same w = true := by
  unfold Gen.Exp10
  unary_pre <;> unary_post

theorem Log_special (g : Globals) (d : Gen.Decimal) (w : Spec.Val)
    (h : Spec.specialCase .log 𝔳[d] = some w) :
    ∃ r, Gen.Log g d = .ok r ∧ (𝔳[r]).same w = true := by
  unfold Gen.Log
  unary_pre <;> unary_post

theorem Log2_special (g : Globals) (d : Gen.Decimal) (w : Spec.Val)
    (h : Spec.specialCase .log2 𝔳[d] = some w) :
    ∃ r, Gen.Log2 g d = .ok r ∧ (𝔳[r]).same w = true := by
  unfold Gen.Log2
  unary_pre <;> unary_post

theorem Log10_special (g : Globals) (d : Gen.Decimal) (w : Spec.Val)
    (h : Spec.specialCase .log10 𝔳[d] = some w) :
    ∃ r, Gen.Log10 g d = .ok r ∧ (𝔳[r]).same w = true := by
  unfold Gen.Log10
  unary_pre <;> unary_post

theorem Sqrt_special (g : Globals) (d : Gen.Decimal) (w : Spec.Val)
    (h : Spec.specialCase .sqrt 𝔳[d] = some w) :
    ∃ r, Gen.Sqrt g d = .ok r ∧ (𝔳[r]).same w = true := by
  unfold Gen.Sqrt
  unary_pre <;> unary_post

theorem Cbrt_special (g : Globals) (d : Gen.Decimal) (w : Spec.Val)
    (h : Spec.specialCase .cbrt 𝔳[d] = some w) :
    ∃ r, Gen.Cbrt g d = .ok r ∧ (𝔳[r]).same w = true := by
  unfold Gen.Cbrt
  unary_pre <;> unary_post

/-- `Expm1` follows the table except at negative zero (see `Expm1_neg_zero`) -/
theorem Expm1_special (g : Globals) (d : Gen.Decimal) (w : Spec.Val)
    (hz : Gen.Decimal.IsZero d = true → Gen.Decimal.Signbit d = false)
    (h : Spec.specialCase .expm1 𝔳[d] = some w) :
    ∃ r, Gen.Expm1 g d = .ok r ∧ (𝔳[r]).same w = true := by
  unfold Gen.Expm1
  unary_pre <;> (try (exfalso; have hh := hz a4; rw [hsd] at hh; cases hh; done)) <;> unary_post

/-- the recorded defect: `Expm1` of any negative zero is the canonical POSITIVE zero (the table of Go's
    `math.Expm1` and `Spec.specialCase` prescribe -0) -/
theorem Expm1_neg_zero (g : Globals) (d : Gen.Decimal) (hz : Gen.Decimal.IsZero d = true) :
    Gen.Expm1 g d = .ok (Gen.zero false) := by
  unfold Gen.Expm1
  rcases Enc.classify_partition d with ⟨a, b, c, e⟩ | ⟨a, b, c, e⟩ | ⟨a, b, c, e⟩ | ⟨a, b, c, e⟩
  all_goals first
    | (rw [hz] at e; cases e; done)
    | (simp only [c, hz, if_true, if_false, Bool.false_eq_true]; rfl)

theorem Expm1_neg_zero_bits (g : Globals) :
    Gen.Expm1 g (Gen.zero true) = .ok (Gen.zero false) :=
  Expm1_neg_zero g _ (Enc.IsZero_zero true)

/-! ## NaN operands are returned bit for bit -/

theorem Exp_nan (g : Globals) (d : Gen.Decimal) (h : Gen.Decimal.IsNaN d = true) :
    Gen.Exp g d = .ok d := by
  unfold Gen.Exp
  simp only [isSpecial_of_IsNaN d h, h, if_true]; rfl

theorem Exp2_nan (g : Globals) (d : Gen.Decimal) (h : Gen.Decimal.IsNaN d = true) :
    Gen.Exp2 g d = .ok d := by
  unfold Gen.Exp2
  simp only [isSpecial_of_IsNaN d h, h, if_true]; rfl

theorem Exp10_nan (g : Globals) (d : Gen.Decimal) (h : Gen.Decimal.IsNaN d = true) :
    Gen.Exp10 g d = .ok d := by
  unfold Gen.Exp10
  simp only [isSpecial_of_IsNaN d h, h, if_true]; rfl

theorem Expm1_nan (g : Globals) (d : Gen.Decimal) (h : Gen.Decimal.IsNaN d = true) :
    Gen.Expm1 g d = .ok d := by
  unfold Gen.Expm1
  simp only [isSpecial_of_IsNaN d h, h, if_true]; rfl

theorem Log_nan (g : Globals) (d : Gen.Decimal) (h : Gen.Decimal.IsNaN d = true) :
    Gen.Log g d = .ok d := by
  unfold Gen.Log
  simp only [isSpecial_of_IsNaN d h, h, if_true]; rfl

theorem Log2_nan (g : Globals) (d : Gen.Decimal) (h : Gen.Decimal.IsNaN d = true) :
    Gen.Log2 g d = .ok d := by
  unfold Gen.Log2
  simp only [isSpecial_of_IsNaN d h, h, if_true]; rfl

theorem Log10_nan (g : Globals) (d : Gen.Decimal) (h : Gen.Decimal.IsNaN d = true) :
    Gen.Log10 g d = .ok d := by
  unfold Gen.Log10
  simp only [isSpecial_of_IsNaN d h, h, if_true]; rfl

theorem Log1p_nan (g : Globals) (d : Gen.Decimal) (h : Gen.Decimal.IsNaN d = true) :
    Gen.Log1p g d = .ok d := by
  unfold Gen.Log1p
  simp only [isSpecial_of_IsNaN d h, h, if_true]; rfl

theorem Sqrt_nan (g : Globals) (d : Gen.Decimal) (h : Gen.Decimal.IsNaN d = true) :
    Gen.Sqrt g d = .ok d := by
  unfold Gen.Sqrt
  simp only [isSpecial_of_IsNaN d h, h, if_true]; rfl

theorem Cbrt_nan (g : Globals) (d : Gen.Decimal) (h : Gen.Decimal.IsNaN d = true) :
    Gen.Cbrt g d = .ok d := by
  unfold Gen.Cbrt
  simp only [isSpecial_of_IsNaN d h, Bool.true_or, if_true]; rfl

end Sp
