/-
  D128/Proofs/LayoutApi.lean — the API functions `Gen.Append(buf, d, fmt, prec)` and `Gen.Format(d, fmt, prec)`
  for a non-negative precision (the shortest forms, `prec < 0`, are the subject of `D128/Proofs/Emit*.lean`).

  * `Ly.plainArgs`       : the `formatArgs` without flags and width
  * `Ly.Append_e`, `Ly.Append_f`, `Ly.Append_g`, `Ly.Append_eq_format` : `Append` runs the arms of `format`
  * `Ly.append_spec`, `Ly.format_fn_spec` : `= buf ++ Spec.fmtSpec {} fmt (some prec) none …`
-/
import D128.Proofs.LayoutAppend

set_option autoImplicit false
set_option maxRecDepth 4096

namespace Ly
open Dg Gen


/-- the `formatArgs` the API function `Append(buf, d, fmt, prec)` corresponds to: no flags, no width -/
def plainArgs (fmt : UInt8) (prec : Int64) : formatArgs :=
  { forceDP := false, printSign := false, padSign := false, padRight := false, padZero := false,
    verb := fmt, prec := prec, wid := 0 }

theorem Append_e (buf : Go.Bytes) (d : Decimal) (fmt : UInt8) (prec : Int64)
    (hfin : Decimal.isSpecial d = false) (hv : fmt = 101 ∨ fmt = 69) (hp : ¬ prec < 0) :
    Gen.Append buf d fmt prec = (do
      let digs ← Decimal.digits_ d (default : digits)
      let x ← formatE digs buf (plainArgs fmt prec) prec true 0
      pure x.2) := by
  unfold Gen.Append formatE plainArgs
  rcases hv with h | h <;> simp [h, hfin, hp]

theorem Append_f (buf : Go.Bytes) (d : Decimal) (prec : Int64)
    (hfin : Decimal.isSpecial d = false) (hp : ¬ prec < 0) :
    Gen.Append buf d 102 prec = (do
      let digs ← Decimal.digits_ d (default : digits)
      let x ← formatF digs buf (plainArgs 102 prec) prec true 0
      pure x.2) := by
  unfold Gen.Append formatF plainArgs
  simp [hfin, hp, apply_ite (Functor.map (f := Except Go.Panic) (Prod.snd (α := formatArgs) (β := Go.Bytes))), map_bind, Functor.map_map]

theorem Append_g (buf : Go.Bytes) (d : Decimal) (fmt : UInt8) (prec : Int64)
    (hfin : Decimal.isSpecial d = false) (hv : fmt = 103 ∨ fmt = 71) (hp : ¬ prec < 0) :
    Gen.Append buf d fmt prec = (do
      let digs ← Decimal.digits_ d (default : digits)
      let x ← formatG digs buf (plainArgs fmt prec) prec true 0
      pure x.2) := by
  unfold Gen.Append formatG formatG2 plainArgs
  rcases hv with h | h <;> simp [h, hfin, hp, apply_ite (Functor.map (f := Except Go.Panic) (Prod.snd (α := formatArgs) (β := Go.Bytes))), map_bind, Functor.map_map]

theorem precision_plain (fmt : UInt8) (prec : Int64) (hp : ¬ prec < 0) :
    formatArgs.precision (plainArgs fmt prec) = (prec, true) := by
  rw [precision_eq]
  show (if prec < 0 then ((0 : Int64), false) else (prec, true)) = _
  rw [if_neg hp]

/-- `Append(buf, d, fmt, prec)` with a non-negative precision is `format` without flags and width -/
theorem Append_eq_format (buf : Go.Bytes) (d : Decimal) (fmt : UInt8) (prec : Int64)
    (hfin : Decimal.isSpecial d = false)
    (hv : fmt = 101 ∨ fmt = 69 ∨ fmt = 102 ∨ fmt = 103 ∨ fmt = 71) (hp : ¬ prec < 0) :
    Gen.Append buf d fmt prec = (do
      let x ← Decimal.format d buf (plainArgs fmt prec)
      pure x.2) := by
  have hw : formatArgs.width (plainArgs fmt prec) = 0 := rfl
  rcases hv with h | h | h | h | h
  · rw [Append_e buf d fmt prec hfin (Or.inl h) hp, format_E d buf _ (Or.inl h),
      precision_plain fmt prec hp, hw]
    simp only [bind_assoc]
  · rw [Append_e buf d fmt prec hfin (Or.inr h) hp, format_E d buf _ (Or.inr h),
      precision_plain fmt prec hp, hw]
    simp only [bind_assoc]
  · subst h
    rw [Append_f buf d prec hfin hp, format_F d buf _ (Or.inl rfl), precision_plain _ prec hp, hw]
    simp only [bind_assoc]
  · rw [Append_g buf d fmt prec hfin (Or.inl h) hp, format_G d buf _ (Or.inl h),
      precision_plain fmt prec hp, hw]
    simp only [bind_assoc]
  · rw [Append_g buf d fmt prec hfin (Or.inr h) hp, format_G d buf _ (Or.inr h),
      precision_plain fmt prec hp, hw]
    simp only [bind_assoc]

/-- **`Append(buf, d, fmt, prec)`** (the API function) with `prec ≥ 0` appends `Spec.fmtSpec` without
flags and width. -/
theorem append_spec (buf : Go.Bytes) (d : Decimal) (fmt : UInt8) (prec : Int64)
    (hfin : Decimal.isSpecial d = false)
    (hv : fmt = 101 ∨ fmt = 69 ∨ fmt = 102 ∨ fmt = 103 ∨ fmt = 71)
    (hp0 : 0 ≤ prec.toInt) (hp : prec.toInt < 2 ^ 56) (hb : buf.size < 2 ^ 61) :
    ∃ r, Gen.Append buf d fmt prec = .ok r ∧
      bstr r = bstr buf ++ Spec.fmtSpec {} (chr fmt) (some prec.toInt.toNat) none
        (Decimal.Signbit d) (Spec.sliceOf (coefOf d) (expoOf d)) := by
  have z0 : (0 : Int64).toInt = 0 := by decide
  have hpn : ¬ prec < 0 := by rw [i64_lt, z0]; omega
  obtain ⟨r, hr, hstr⟩ := format_spec d buf (plainArgs fmt prec) hfin
    (by rcases hv with h | h | h | h | h
        · exact Or.inl h
        · exact Or.inr (Or.inl h)
        · exact Or.inr (Or.inr (Or.inl h))
        · exact Or.inr (Or.inr (Or.inr (Or.inr (Or.inl h))))
        · exact Or.inr (Or.inr (Or.inr (Or.inr (Or.inr h)))))
    hp 0 z0 (by decide) hb (fun h => by cases h)
  refine ⟨r, ?_, ?_⟩
  · rw [Append_eq_format buf d fmt prec hfin hv hpn, hr]; rfl
  · rw [hstr]
    have : precOf (plainArgs fmt prec) = some prec.toInt.toNat := by
      unfold precOf; rw [if_neg (by show ¬ prec.toInt < 0; omega)]; rfl
    rw [this]; rfl

/-- **`Format(d, fmt, prec)`** = `Append(nil, d, fmt, prec)` -/
theorem format_fn_spec (d : Decimal) (fmt : UInt8) (prec : Int64)
    (hfin : Decimal.isSpecial d = false)
    (hv : fmt = 101 ∨ fmt = 69 ∨ fmt = 102 ∨ fmt = 103 ∨ fmt = 71)
    (hp0 : 0 ≤ prec.toInt) (hp : prec.toInt < 2 ^ 56) :
    ∃ r, Gen.Format d fmt prec = .ok r ∧
      bstr r = Spec.fmtSpec {} (chr fmt) (some prec.toInt.toNat) none
        (Decimal.Signbit d) (Spec.sliceOf (coefOf d) (expoOf d)) := by
  obtain ⟨r, hr, hstr⟩ := append_spec #[] d fmt prec hfin hv hp0 hp (by decide)
  refine ⟨r, ?_, by rw [hstr]; rfl⟩
  unfold Gen.Format
  rw [hr]

end Ly
