/-
  D128/Proofs/CohortElemQuoMath.lean — arithmetic of the long division of `decomposed192.quo` (ℕ and ℚ only, no code).

  Notation: for a numerator `N` and a divisor `M` the division visits positions `c` with quotient `N·10^c / M` and
  remainder `N·10^c % M`; `QPath N M c` (CohortElemQuoSharp.lean) says how position `c` was reached.

  Provided (namespace `CohortElem`):
  * `qf_mul_le`, `qf_lt_succ_mul`, `qr_zero_mono`, `qf_shift`, `qr_shift` : monotonicity / shift of quotient digits
  * `LIM_mod`                : `LIM % 10^k ≥ 400` for `k ≥ 3` (and `100 ∣ LIM`) — why a round can step over `LIM`
  * `QPath.noskip_short`     : a last round of at most 3 digits does not step over:  `c = 0 ∨ ⌊N·10^(c-1)/M⌋ < LIM`
  * `QPath.noskip_big`       : nor does any round when `LIM ≤ 400·M`
  * `QPath.noskip_window`    : nor when no `⌊N·10^p/M⌋` lies in `[LIM, LIM + 10^56)`
  * `QPath.over`             : in general the division steps over by at most one digit: `c ≤ 1 ∨ ⌊N·10^(c-2)/M⌋ < LIM`
  * `qf_lt_ten`              : no step over ⇒ the quotient is below `10·LIM`
  * `stop_unique`            : two divisions of one quotient (offsets `j1`, `j2`), neither stepping over nor starting
                               beyond the stopping point, stop at the same position or are both exact
  * `NoSkip`, `noskip_of_window`, `noskip_of_Icc`, `noskip_of_decade`, `NoSkip.nat` : the value form of the third criterion
                               (`noskip_of_decade`: `0.713·10^n ≤ Q < 6.129·10^n ⇒ NoSkip Q`)
  * `trunc_min_congr`        : the minimal truncation of the divisor on `O` and `O·10^j`
-/
import D128.Proofs.CohortElemQuoSharp
import D128.Proofs.CohortElemMulCongr
set_option autoImplicit false
set_option maxRecDepth 4096
set_option exponentiation.threshold 512
set_option linter.unusedVariables false

namespace CohortElem
open Gen D192

/-! ### quotient digits -/

theorem qf_mul_le (N M c k : Nat) (hM : 0 < M) : N * 10 ^ c / M * 10 ^ k ≤ N * 10 ^ (c + k) / M := by
  rw [Nat.le_div_iff_mul_le hM, Nat.pow_add, ← Nat.mul_assoc]
  have := Nat.div_mul_le_self (N * 10 ^ c) M
  calc N * 10 ^ c / M * 10 ^ k * M = N * 10 ^ c / M * M * 10 ^ k := by ring
    _ ≤ N * 10 ^ c * 10 ^ k := Nat.mul_le_mul_right _ this

theorem qf_lt_succ_mul (N M c k : Nat) (hM : 0 < M) :
    N * 10 ^ (c + k) / M < (N * 10 ^ c / M + 1) * 10 ^ k := by
  rw [Nat.div_lt_iff_lt_mul hM, Nat.pow_add, ← Nat.mul_assoc]
  have := Nat.lt_mul_div_succ (N * 10 ^ c) hM
  calc N * 10 ^ c * 10 ^ k < M * (N * 10 ^ c / M + 1) * 10 ^ k :=
        Nat.mul_lt_mul_of_pos_right this (by positivity)
    _ = (N * 10 ^ c / M + 1) * 10 ^ k * M := by ring

theorem qf_mono (N M c c' : Nat) (hM : 0 < M) (h : c ≤ c') : N * 10 ^ c / M ≤ N * 10 ^ c' / M :=
  Nat.div_le_div_right (Nat.mul_le_mul_left _ (Nat.pow_le_pow_right (by norm_num) h))

theorem qr_zero_mono (N M c c' : Nat) (h : c ≤ c') (hz : N * 10 ^ c % M = 0) : N * 10 ^ c' % M = 0 := by
  obtain ⟨k, rfl⟩ := Nat.exists_eq_add_of_le h
  rw [Nat.pow_add, ← Nat.mul_assoc]
  exact Nat.mod_eq_zero_of_dvd (Dvd.dvd.mul_right (Nat.dvd_of_mod_eq_zero hz) _)

theorem qf_shift (N M c k : Nat) : N * 10 ^ (c + k) / (M * 10 ^ k) = N * 10 ^ c / M := by
  rw [Nat.pow_add, ← Nat.mul_assoc, Nat.mul_div_mul_right _ _ (by positivity)]

theorem qr_shift (N M c k : Nat) : N * 10 ^ (c + k) % (M * 10 ^ k) = 0 ↔ N * 10 ^ c % M = 0 := by
  rw [Nat.pow_add, ← Nat.mul_assoc, Nat.mul_mod_mul_right]
  have : 0 < 10 ^ k := by positivity
  constructor
  · intro h
    rcases Nat.mul_eq_zero.mp h with h | h
    · exact h
    · omega
  · intro h; rw [h, Nat.zero_mul]

/-! ### stepping over `LIM` -/

theorem LIM_mod (k : Nat) (hk : 3 ≤ k) : 400 ≤ LIM % 10 ^ k := by
  obtain ⟨j, rfl⟩ := Nat.exists_eq_add_of_le hk
  have e : (10 : Nat) ^ (3 + j) = 1000 * 10 ^ j := by rw [Nat.pow_add]
  have h1 : LIM % (1000 * 10 ^ j) % 1000 = LIM % 1000 := Nat.mod_mul_right_mod _ _ _
  have h2 : LIM % 1000 = 400 := by unfold LIM; norm_num
  have h3 := Nat.mod_le (LIM % (1000 * 10 ^ j)) 1000
  rw [e]; omega

/-- the data of the last round -/
theorem QPath.last {N M c : Nat} (h : QPath N M c) (hc : c ≠ 0) (hM : 0 < M) :
    ∃ c0 k : Nat, c - 1 = c0 + k ∧ N * 10 ^ c0 / M * 10 ^ k < LIM ∧ N * 10 ^ c0 % M * 10 ^ k < LIM ∧
      N * 10 ^ c0 % M ≠ 0 ∧
      N * 10 ^ (c - 1) / M = N * 10 ^ c0 / M * 10 ^ k + N * 10 ^ c0 % M * 10 ^ k / M := by
  obtain ⟨c0, h1, h2, h3, h4⟩ := h.resolve_left hc
  refine ⟨c0, c - 1 - c0, by omega, h2, h3, h4, ?_⟩
  have e : c - 1 = c0 + (c - 1 - c0) := by omega
  rw [e, Nat.add_sub_cancel_left]
  exact (quo_step N M c0 (c - 1 - c0) _ _ hM rfl rfl).1.symm

/-- a last round of at most three digits does not step over `LIM` (`100 ∣ LIM`) -/
theorem lt_LIM_of_short (F k : Nat) (hk : k ≤ 2) (h : F * 10 ^ k < LIM) : (F + 1) * 10 ^ k ≤ LIM := by
  have hk' : k = 0 ∨ k = 1 ∨ k = 2 := by omega
  rcases hk' with rfl | rfl | rfl <;> (unfold LIM at *; omega)

theorem QPath.noskip_short {N M c : Nat} (h : QPath N M c) (hM : 0 < M)
    (hs : ∀ c0, c0 < c → N * 10 ^ c0 % M ≠ 0 → N * 10 ^ c0 / M * 10 ^ (c - 1 - c0) < LIM → c - 1 - c0 ≤ 2) :
    c = 0 ∨ N * 10 ^ (c - 1) / M < LIM := by
  rcases Nat.eq_zero_or_pos c with hc | hc
  · exact Or.inl hc
  · right
    obtain ⟨c0, h1, h2, h3, h4⟩ := h.resolve_left (by omega)
    have hk := hs c0 h1 h4 h2
    have e : c - 1 = c0 + (c - 1 - c0) := by omega
    have := qf_lt_succ_mul N M c0 (c - 1 - c0) hM
    rw [← e] at this
    have := lt_LIM_of_short _ _ hk h2
    omega

/-- a divisor of at least 55 digits: no round steps over `LIM` -/
theorem QPath.noskip_big {N M c : Nat} (h : QPath N M c) (hM : 0 < M) (hbig : LIM ≤ 400 * M) :
    c = 0 ∨ N * 10 ^ (c - 1) / M < LIM := by
  rcases Nat.eq_zero_or_pos c with hc | hc
  · exact Or.inl hc
  · right
    obtain ⟨c0, k, e, h2, h3, h4, h5⟩ := h.last (by omega) hM
    rw [h5]
    by_cases hk : k ≤ 2
    · have h6 := lt_LIM_of_short _ _ hk h2
      have hr : N * 10 ^ c0 % M * 10 ^ k / M < 10 ^ k := by
        rw [Nat.div_lt_iff_lt_mul hM, Nat.mul_comm]
        exact Nat.mul_lt_mul_of_pos_left (Nat.mod_lt _ hM) (by positivity)
      rw [Nat.add_mul, Nat.one_mul] at h6
      omega
    · have hm := LIM_mod k (by omega)
      have hA : N * 10 ^ c0 / M * 10 ^ k ≤ LIM / 10 ^ k * 10 ^ k := by
        apply Nat.mul_le_mul_right
        rw [Nat.le_div_iff_mul_le (by positivity)]
        omega
      have hdm := Nat.div_add_mod LIM (10 ^ k)
      have hr : N * 10 ^ c0 % M * 10 ^ k / M < 400 := by
        rw [Nat.div_lt_iff_lt_mul hM]
        omega
      rw [Nat.mul_comm] at hdm
      omega

/-- the quotient never lies in `[LIM, LIM + 10^56)`: no round steps over `LIM` -/
theorem QPath.noskip_window {N M c : Nat} (h : QPath N M c) (hM : 0 < M) (hNM : M ≤ N)
    (hw : ∀ p : Nat, ¬ (LIM ≤ N * 10 ^ p / M ∧ N * 10 ^ p / M < LIM + 10 ^ 56)) :
    c = 0 ∨ N * 10 ^ (c - 1) / M < LIM := by
  rcases Nat.eq_zero_or_pos c with hc | hc
  · exact Or.inl hc
  · right
    obtain ⟨c0, k, e, h2, h3, h4, h5⟩ := h.last (by omega) hM
    have hF1 : 1 ≤ N * 10 ^ c0 / M := by
      rw [Nat.le_div_iff_mul_le hM]
      have : N ≤ N * 10 ^ c0 := Nat.le_mul_of_pos_right _ (by positivity)
      omega
    have hk : k ≤ 56 := by
      by_contra hk
      have h57 : 10 ^ 57 ≤ 10 ^ k := Nat.pow_le_pow_right (by norm_num) (by omega)
      have : 1 * 10 ^ 57 ≤ N * 10 ^ c0 / M * 10 ^ k := Nat.mul_le_mul hF1 h57
      unfold LIM at h2
      omega
    have h56 : 10 ^ k ≤ 10 ^ 56 := Nat.pow_le_pow_right (by norm_num) hk
    have hlt := qf_lt_succ_mul N M c0 k hM
    rw [← e, Nat.add_mul, Nat.one_mul] at hlt
    by_contra hge
    exact hw (c - 1) ⟨by omega, by omega⟩

/-- in general the division steps over `LIM` by at most one digit -/
theorem QPath.over {N M c : Nat} (h : QPath N M c) (hM : 0 < M) (hNM : M ≤ N) :
    c ≤ 1 ∨ N * 10 ^ (c - 2) / M < LIM := by
  by_cases hc : c ≤ 1
  · exact Or.inl hc
  · right
    obtain ⟨c0, k, e, h2, h3, h4, h5⟩ := h.last (by omega) hM
    have hF1 : 1 ≤ N * 10 ^ c0 / M := by
      rw [Nat.le_div_iff_mul_le hM]
      have : N ≤ N * 10 ^ c0 := Nat.le_mul_of_pos_right _ (by positivity)
      omega
    rcases Nat.eq_zero_or_pos k with hk | hk
    · -- the last round had one digit: position `c - 2` is before its start
      subst hk
      simp only [Nat.pow_zero, Nat.mul_one, Nat.add_zero] at h2 e
      have := qf_mono N M (c - 2) c0 hM (by omega)
      omega
    · have e2 : c - 2 = c0 + (k - 1) := by omega
      have hlt := qf_lt_succ_mul N M c0 (k - 1) hM
      rw [← e2] at hlt
      rw [pow_pred_mul k hk, ← Nat.mul_assoc] at h2
      have h1 : 1 * 10 ^ (k - 1) ≤ N * 10 ^ c0 / M * 10 ^ (k - 1) := Nat.mul_le_mul_right _ hF1
      rw [Nat.add_mul, Nat.one_mul] at hlt
      omega

/-- no step over ⇒ the quotient is below `10·LIM` -/
theorem qf_lt_ten (N M c : Nat) (hM : 0 < M) (hc : c ≠ 0) (h : N * 10 ^ (c - 1) / M < LIM) :
    N * 10 ^ c / M < 10 * LIM := by
  have := qf_lt_succ_mul N M (c - 1) 1 hM
  have e : c - 1 + 1 = c := by omega
  rw [e] at this
  omega

/-! ### two divisions of one quotient -/

theorem stop_unique_aux (N M j2 p1 p2 : Nat) (hM : 0 < M) (hlt : p1 < p2)
    (s1 : N * 10 ^ p1 % M = 0 ∨ LIM ≤ N * 10 ^ p1 / M)
    (q2 : (p2 = j2 ∧ N * 10 ^ j2 / M < 10 * LIM) ∨ (j2 < p2 ∧ N * 10 ^ (p2 - 1) / M < LIM)) :
    N * 10 ^ p1 % M = 0 ∧ N * 10 ^ p2 % M = 0 := by
  rcases s1 with s1 | s1
  · exact ⟨s1, qr_zero_mono N M p1 p2 hlt.le s1⟩
  · exfalso
    rcases q2 with ⟨rfl, q2⟩ | ⟨-, q2⟩
    · have := qf_mul_le N M p1 (p2 - p1) hM
      have e : p1 + (p2 - p1) = p2 := by omega
      rw [e] at this
      have h10 : 10 ≤ 10 ^ (p2 - p1) := by
        calc 10 = 10 ^ 1 := by norm_num
          _ ≤ 10 ^ (p2 - p1) := Nat.pow_le_pow_right (by norm_num) (by omega)
      have : N * 10 ^ p1 / M * 10 ≤ N * 10 ^ p1 / M * 10 ^ (p2 - p1) := Nat.mul_le_mul_left _ h10
      omega
    · have := qf_mono N M p1 (p2 - 1) hM (by omega)
      omega

/-- **two runs of the long division on one quotient** (positions `p = offset + c`): if neither starts beyond the
stopping point nor steps over it, they stop at the same position, or both terminate exactly. -/
theorem stop_unique (N M j1 j2 p1 p2 : Nat) (hM : 0 < M)
    (s1 : N * 10 ^ p1 % M = 0 ∨ LIM ≤ N * 10 ^ p1 / M)
    (s2 : N * 10 ^ p2 % M = 0 ∨ LIM ≤ N * 10 ^ p2 / M)
    (q1 : (p1 = j1 ∧ N * 10 ^ j1 / M < 10 * LIM) ∨ (j1 < p1 ∧ N * 10 ^ (p1 - 1) / M < LIM))
    (q2 : (p2 = j2 ∧ N * 10 ^ j2 / M < 10 * LIM) ∨ (j2 < p2 ∧ N * 10 ^ (p2 - 1) / M < LIM)) :
    p1 = p2 ∨ (N * 10 ^ p1 % M = 0 ∧ N * 10 ^ p2 % M = 0) := by
  rcases Nat.lt_trichotomy p1 p2 with h | h | h
  · exact Or.inr (stop_unique_aux N M j2 p1 p2 hM h s1 q2)
  · exact Or.inl h
  · exact Or.inr (stop_unique_aux N M j1 p2 p1 hM h s2 q1).symm

/-! ### the value form of the window criterion -/

/-- no power-of-ten multiple of `Q` lies in `[LIM, LIM + 10^56)`: the leading digits of `Q` are not `6.1299… ≤ · < 7.1299…` -/
def NoSkip (Q : ℚ) : Prop :=
  ∀ p : Int, ¬ ((LIM : ℚ) ≤ Q * (10 : ℚ) ^ p ∧ Q * (10 : ℚ) ^ p < (LIM : ℚ) + 10 ^ 56)

theorem noskip_of_window (Q : ℚ) (n : Int) (h1 : ((LIM : ℚ) + 10 ^ 56) * (10 : ℚ) ^ n ≤ Q)
    (h2 : Q < 10 * (LIM : ℚ) * (10 : ℚ) ^ n) : NoSkip Q := by
  intro p ⟨a, b⟩
  have hL : (0 : ℚ) < (LIM : ℚ) := by unfold LIM; norm_num
  have hp : (0 : ℚ) < (10 : ℚ) ^ p := zpow_pos (by norm_num) _
  have e : (10 : ℚ) ^ n * (10 : ℚ) ^ p = (10 : ℚ) ^ (n + p) := (zpow_add₀ (by norm_num) _ _).symm
  rcases le_or_gt 0 (n + p) with hnp | hnp
  · have h10 : (1 : ℚ) ≤ (10 : ℚ) ^ (n + p) := one_le_zpow₀ (by norm_num) hnp
    have : ((LIM : ℚ) + 10 ^ 56) * (10 : ℚ) ^ (n + p) ≤ Q * (10 : ℚ) ^ p := by
      rw [← e, ← mul_assoc]; exact mul_le_mul_of_nonneg_right h1 hp.le
    nlinarith
  · have h10 : (10 : ℚ) ^ (n + p) ≤ (10 : ℚ) ^ (-1 : Int) := zpow_le_zpow_right₀ (by norm_num) (by omega)
    have : Q * (10 : ℚ) ^ p < 10 * (LIM : ℚ) * (10 : ℚ) ^ (n + p) := by
      rw [← e, ← mul_assoc]; exact mul_lt_mul_of_pos_right h2 hp
    have h3 : 10 * (LIM : ℚ) * (10 : ℚ) ^ (n + p) ≤ 10 * (LIM : ℚ) * (10 : ℚ) ^ (-1 : Int) :=
      mul_le_mul_of_nonneg_left h10 (by positivity)
    have h4 : 10 * (LIM : ℚ) * (10 : ℚ) ^ (-1 : Int) = (LIM : ℚ) := by
      rw [zpow_neg, zpow_one]; field_simp
    linarith

/-- convenience form: `Q` in a closed interval inside one window -/
theorem noskip_of_Icc (Q lo hi : ℚ) (n : Int) (h1 : ((LIM : ℚ) + 10 ^ 56) * (10 : ℚ) ^ n ≤ lo)
    (h2 : hi < 10 * (LIM : ℚ) * (10 : ℚ) ^ n) (hQ : lo ≤ Q ∧ Q ≤ hi) : NoSkip Q :=
  noskip_of_window Q n (le_trans h1 hQ.1) (lt_of_le_of_lt hQ.2 h2)

/-- convenience form with small constants: `0.713·10^n ≤ Q < 6.129·10^n` (the leading digits of `Q` are outside
`[6.129, 7.13)`; `LIM = 6.12998…·10^56`) -/
theorem noskip_of_decade (Q : ℚ) (n : Int) (h1 : 713 / 1000 * (10 : ℚ) ^ n ≤ Q)
    (h2 : Q < 6129 / 1000 * (10 : ℚ) ^ n) : NoSkip Q := by
  have hp : (0 : ℚ) < (10 : ℚ) ^ n := zpow_pos (by norm_num) _
  have e : (10 : ℚ) ^ (n - 57) = (10 : ℚ) ^ n * ((10 : ℚ) ^ 57)⁻¹ := by
    rw [zpow_sub₀ (by norm_num)]; rfl
  refine noskip_of_window Q (n - 57) ?_ ?_
  · rw [e]
    have : ((LIM : ℚ) + 10 ^ 56) * ((10 : ℚ) ^ 57)⁻¹ ≤ 713 / 1000 := by unfold LIM; norm_num
    nlinarith
  · rw [e]
    have : (6129 : ℚ) / 1000 ≤ 10 * (LIM : ℚ) * ((10 : ℚ) ^ 57)⁻¹ := by unfold LIM; norm_num
    nlinarith

/-- the window criterion for the digits of `N / M` when `Q = N/M·10^E` -/
theorem NoSkip.nat {Q : ℚ} (h : NoSkip Q) (N M : Nat) (E : Int) (hM : 0 < M)
    (hQ : Q = (N : ℚ) / M * (10 : ℚ) ^ E) :
    ∀ p : Nat, ¬ (LIM ≤ N * 10 ^ p / M ∧ N * 10 ^ p / M < LIM + 10 ^ 56) := by
  intro p ⟨a, b⟩
  apply h (p - E)
  have hMq : (0 : ℚ) < (M : ℚ) := by exact_mod_cast hM
  have e : Q * (10 : ℚ) ^ ((p : Int) - E) = ((N * 10 ^ p : Nat) : ℚ) / M := by
    rw [hQ, mul_assoc, ← zpow_add₀ (by norm_num)]
    have : E + ((p : Int) - E) = (p : Int) := by ring
    rw [this, zpow_natCast]
    push_cast; ring
  rw [e]
  rw [Nat.le_div_iff_mul_le hM] at a
  rw [Nat.div_lt_iff_lt_mul hM] at b
  constructor
  · rw [le_div_iff₀ hMq]; exact_mod_cast a
  · rw [div_lt_iff₀ hMq]; exact_mod_cast b

/-! ### the divisor truncation on two representations -/

/-- `O` and `O·10^j` are cut to the same integer (`b' = b + j`), or neither loses a non-zero digit -/
theorem trunc_min_congr (O j b b' : Nat)
    (hb : b = 0 ∨ OLIM ≤ O / 10 ^ (b - 1)) (hlt : O / 10 ^ b < OLIM)
    (hb' : b' = 0 ∨ OLIM ≤ O * 10 ^ j / 10 ^ (b' - 1)) (hlt' : O * 10 ^ j / 10 ^ b' < OLIM) :
    b' = b + j ∨ (b = 0 ∧ b' ≤ j) := by
  by_cases hO : OLIM ≤ O
  · left
    have hb0 : b ≠ 0 := by
      intro h; rw [h, Nat.pow_zero, Nat.div_one] at hlt; omega
    refine minK_unique hlt' hb' ?_ (Or.inr ?_)
    · rw [Nat.pow_add, Nat.mul_comm (10 ^ b) _, ← Nat.div_div_eq_div_mul,
        Nat.mul_div_cancel _ (by positivity)]
      exact hlt
    · have e : b + j - 1 = (b - 1) + j := by omega
      rw [e, Nat.pow_add, Nat.mul_comm (10 ^ (b - 1)) _, ← Nat.div_div_eq_div_mul,
        Nat.mul_div_cancel _ (by positivity)]
      exact hb.resolve_left hb0
  · right
    constructor
    · rcases hb with h | h
      · exact h
      · have : O / 10 ^ (b - 1) ≤ O := Nat.div_le_self _ _
        omega
    · rcases hb' with h | h
      · omega
      · by_contra hc
        have h3 : O * 10 ^ j / 10 ^ (b' - 1) ≤ O * 10 ^ j / 10 ^ j :=
          Nat.div_le_div_left (Nat.pow_le_pow_right (by norm_num) (by omega)) (by positivity)
        rw [Nat.mul_div_cancel _ (by positivity)] at h3
        omega

end CohortElem
