/-
  D128/Proofs/TotalDiv192B.lean — correctness of the estimate paths of `Gen.U192.div`:

  * `candFix`, `candFix_spec` : candidate quotient `c0 + c1·2^64 ∈ {q-1, q}` + final correction
  * `decz`, `decz_spec`       : `if x != 0 { x-- }`
  * `pathC_spec`  : three-word divisor (`o.w2 ≠ 0`)
  * `pathB1_spec` : two-word divisor, two-word dividend (`o.w2 = 0`, `o.w1 ≠ 0`, `n.w2 = 0`)
  * `pathB2_spec` : two-word divisor, `0 < n.w2 < o.w1` (one exact Knuth digit)
  * `norm2`, `U192.two_words`, `U192.top_two`, `U192.hi_words`, `est_aux`, `sub63`
-/
import D128.Proofs.TotalDiv192A
set_option autoImplicit false
set_option maxRecDepth 4096
namespace D128.Proofs.Total
open D128.Proofs.WordsWide

/-- candidate quotient (one word) followed by the final correction -/
def candFix (n o : U192) (c1 c0 : UInt64) : Go.GoM (U192 × U192) :=
  fix192 n o (mulLow o (U192.mk c0 c1 0)) (U192.mk c0 c1 0)

theorem candFix_spec (n o : U192) (c1 c0 : UInt64) (ho : o.toNat ≠ 0)
    (h1 : c0.toNat + c1.toNat * 2^64 ≤ n.toNat / o.toNat)
    (h2 : n.toNat / o.toNat ≤ c0.toNat + c1.toNat * 2^64 + 1) :
    ∃ q r, candFix n o c1 c0 = .ok (q, r)
      ∧ q.toNat = n.toNat / o.toNat ∧ r.toNat = n.toNat % o.toNat := by
  have hc : (U192.mk c0 c1 0).toNat = c0.toNat + c1.toNat * 2^64 := by
    simp [U192.toNat]
  unfold candFix
  exact fix192_spec n o (mulLow o (U192.mk c0 c1 0)) (U192.mk c0 c1 0) ho
    (U192_mul_low o (U192.mk c0 c1 0)) (by rw [hc]; exact h1) (by rw [hc]; exact h2)

/-- `if x != 0 { x-- }` -/
def decz (x : UInt64) : UInt64 := if (x != 0) = true then x - 1 else x

theorem decz_spec (x : UInt64) (q : Nat) (h1 : q ≤ x.toNat) (h2 : x.toNat ≤ q + 1) :
    (decz x).toNat ≤ q ∧ q ≤ (decz x).toNat + 1 := by
  unfold decz
  by_cases hz : x = 0
  · have : x.toNat = 0 := (u64_eq_zero_iff x).mp hz
    rw [if_neg (by simp [hz])]; omega
  · have hz' : x.toNat ≠ 0 := fun h => hz ((u64_eq_zero_iff x).mpr h)
    rw [if_pos (by simp [hz]), u64_sub_one x hz']; omega

theorem pathC_eq (n o : U192) :
    pathC n o =
      (Go.bits.Div64 (Gen.U192.rsh n 1).w2 (Gen.U192.rsh n 1).w1
          (Gen.U192.lsh o (Go.conv (Go.bits.LeadingZeros64 o.w2))).w2 >>= fun t =>
        candFix n o 0 (decz (Go.shr
          (if ((decide ((Go.bits.Mul64 t.1 (Gen.U192.lsh o (Go.conv (Go.bits.LeadingZeros64 o.w2))).w1).1 > t.2)) ||
            (((Go.bits.Mul64 t.1 (Gen.U192.lsh o (Go.conv (Go.bits.LeadingZeros64 o.w2))).w1).1 == t.2) &&
              (decide ((Go.bits.Mul64 t.1 (Gen.U192.lsh o (Go.conv (Go.bits.LeadingZeros64 o.w2))).w1).2 >
                (Gen.U192.rsh n 1).w0)))) = true then t.1 - 1 else t.1)
          (Go.idx (63 - (Go.conv (Go.bits.LeadingZeros64 o.w2) : UInt64)))))) := by
  simp only [pathC, candFix, decz]
  refine bind_congr fun t => ?_
  split_ifs <;> with_reducible rfl

theorem U192.hi_words (u : U192) :
    u.toNat / 2^64 = u.w2.toNat * 2^64 + u.w1.toNat
    ∧ u.w2.toNat * 2^64 ≤ u.toNat / 2^64 ∧ u.toNat / 2^64 < (u.w2.toNat + 1) * 2^64 := by
  have hub := U192.bounds u
  have hun : u.toNat = u.w0.toNat + u.w1.toNat * 2^64 + u.w2.toNat * 2^128 := rfl
  omega

/-- the first estimate of path C in ℕ: `qh = (V / b) / u2`, and the correction test. -/
theorem est_aux (v0 v1 v2 u2 u1 qh ur V : Nat) (hV : V = v0 + v1 * 2^64 + v2 * 2^128)
    (hdm : qh * u2 + ur = v2 * 2^64 + v1) (hml : ur < u2) (hv0 : v0 < 2^64) :
    qh * (2^64 * u2) ≤ V ∧ V < (qh + 1) * (2^64 * u2)
    ∧ (qh * (u2 * 2^64 + u1) > V ↔ qh * u1 > ur * 2^64 + v0) := by
  have e1 : qh * (2^64 * u2) = (qh * u2) * 2^64 := by ring
  have e2 : (qh + 1) * (2^64 * u2) = (qh * u2) * 2^64 + u2 * 2^64 := by ring
  have e3 : qh * (u2 * 2^64 + u1) = (qh * u2) * 2^64 + qh * u1 := by ring
  rw [e1, e2, e3]
  generalize qh * u2 = a at *
  generalize qh * u1 = b at *
  omega

theorem sub63 (i : UInt64) (L : Nat) (h1 : 1 ≤ L) (h2 : L ≤ 64) (hi : i.toNat = 64 - L) :
    ((63 : UInt64) - i).toNat = L - 1 := by
  have h63' : (63 : UInt64).toNat = 63 := rfl
  rw [UInt64.toNat_sub_of_le _ _ (by rw [UInt64.le_iff_toNat_le, h63', hi]; omega), h63', hi]
  omega

set_option maxHeartbeats 1000000 in
/-- path C: three-word divisor (`o.w2 ≠ 0`). -/
theorem pathC_spec (n o : U192) (h2 : o.w2 ≠ 0) (ho : o.toNat ≠ 0) :
    ∃ q r, pathC n o = .ok (q, r) ∧ q.toNat = n.toNat / o.toNat ∧ r.toNat = n.toNat % o.toNat := by
  rw [pathC_eq]
  obtain ⟨L, hL1, hL2, hlo, hhi, hi⟩ := Go.bits.LeadingZeros64_spec o.w2 h2
  generalize (Go.conv (Go.bits.LeadingZeros64 o.w2) : UInt64) = i at *
  have hn := U192.toNat_lt n
  have hob := U192.bounds o
  have ho_lo : o.w2.toNat * 2^128 ≤ o.toNat := by simp only [U192.toNat]; omega
  have ho_hi : o.toNat < (o.w2.toNat + 1) * 2^128 := by simp only [U192.toNat]; omega
  have hp1 : (2:Nat)^L * 2^(64 - L) = 2^64 := by rw [← Nat.pow_add]; congr 1; omega
  have hp2 : (2:Nat)^(L-1) * 2^(64 - L) = 2^63 := by rw [← Nat.pow_add]; congr 1; omega
  have hPpos : 0 < (2:Nat)^(64 - L) := Nat.two_pow_pos _
  have h63 := sub63 i L hL1 hL2 hi
  generalize hP : (2:Nat)^(64 - L) = P at *
  have hu_lt : o.toNat * P < 2^192 := by
    calc o.toNat * P < ((o.w2.toNat + 1) * 2^128) * P := Nat.mul_lt_mul_of_pos_right ho_hi hPpos
      _ ≤ (2^L * 2^128) * P := Nat.mul_le_mul_right _ (Nat.mul_le_mul_right _ hhi)
      _ = (2^L * P) * 2^128 := by ring
      _ = 2^192 := by rw [hp1]; rfl
  have hu_ge : 2^191 ≤ o.toNat * P := by
    calc (2:Nat)^191 = (2^(L-1) * P) * 2^128 := by rw [hp2]; rfl
      _ = (2^(L-1) * 2^128) * P := by ring
      _ ≤ (o.w2.toNat * 2^128) * P := Nat.mul_le_mul_right _ (Nat.mul_le_mul_right _ hlo)
      _ ≤ o.toNat * P := Nat.mul_le_mul_right _ ho_lo
  have hu : (Gen.U192.lsh o i).toNat = o.toNat * P := by
    rw [U192_lsh_toNat, hi, hP, Nat.mod_eq_of_lt hu_lt]
  have hv : (Gen.U192.rsh n 1).toNat = n.toNat / 2 := by
    rw [U192_rsh_toNat]; rfl
  generalize Gen.U192.lsh o i = u at *
  generalize Gen.U192.rsh n 1 = v at *
  have hub := U192.bounds u
  have hvb := U192.bounds v
  have hu2 : 2^63 ≤ u.w2.toNat := by rw [U192.w2_toNat, hu]; omega
  have hv2 : v.w2.toNat < 2^63 := by rw [U192.w2_toNat, hv]; omega
  obtain ⟨qh, ur, e1, hqh, hur⟩ := Go.bits.Div64_ok v.w2 v.w1 u.w2 (by omega)
  rw [e1]
  simp only [bind, Except.bind]
  -- arithmetic of the first estimate
  have hu2pos : 0 < u.w2.toNat := by omega
  have hdm := Nat.div_add_mod' (v.w2.toNat * 2^64 + v.w1.toNat) u.w2.toNat
  have hml := Nat.mod_lt (v.w2.toNat * 2^64 + v.w1.toNat) hu2pos
  rw [← hqh, ← hur] at hdm
  rw [← hur] at hml
  have hvn : v.toNat = v.w0.toNat + v.w1.toNat * 2^64 + v.w2.toNat * 2^128 := rfl
  obtain ⟨hU', a4, a5⟩ := U192.hi_words u
  obtain ⟨a8, a9, htest⟩ := est_aux v.w0.toNat v.w1.toNat v.w2.toNat u.w2.toNat u.w1.toNat
    qh.toNat ur.toNat v.toNat hvn hdm hml hvb.1
  rw [hv] at a8 a9 htest
  rw [← hU'] at htest
  have a6 : 2 * (n.toNat / 2) ≤ n.toNat := Nat.mul_div_le _ _
  have a7 : n.toNat ≤ 2 * (n.toNat / 2) + 1 := by
    have := Nat.div_add_mod n.toNat 2; have := Nat.mod_lt n.toNat (show 0 < 2 by decide); omega
  have hq' : (if ((decide ((Go.bits.Mul64 qh u.w1).1 > ur)) ||
            (((Go.bits.Mul64 qh u.w1).1 == ur) && (decide ((Go.bits.Mul64 qh u.w1).2 > v.w0)))) = true
            then qh - 1 else qh).toNat
        = if qh.toNat * (u.toNat / 2^64) > n.toNat / 2 then qh.toNat - 1 else qh.toNat := by
    have hk := ktest_iff qh u.w1 ur v.w0
    by_cases t : qh.toNat * u.w1.toNat > ur.toNat * 2^64 + v.w0.toNat
    · have hq0 : qh.toNat ≠ 0 := by intro h; rw [h] at t; simp at t
      rw [if_pos (hk.mpr t), if_pos (htest.mpr t), u64_sub_one qh hq0]
    · rw [if_neg (fun h => t (hk.mp h)), if_neg (fun h => t (htest.mp h))]
  generalize (if ((decide ((Go.bits.Mul64 qh u.w1).1 > ur)) ||
            (((Go.bits.Mul64 qh u.w1).1 == ur) && (decide ((Go.bits.Mul64 qh u.w1).2 > v.w0)))) = true
            then qh - 1 else qh) = r0 at *
  have hdiv := Nat.div_mul_le_self n.toNat o.toNat
  have hopos : 0 < o.toNat := Nat.pos_of_ne_zero ho
  have hdiv2 : n.toNat < (n.toNat / o.toNat + 1) * o.toNat := by
    rw [Nat.mul_comm]; exact Nat.lt_mul_div_succ _ hopos
  have a1 : P * 2^(L-1) = 2^63 := (Nat.mul_comm _ _).trans hp2
  have a2 : u.toNat / 2^64 * 2^64 ≤ o.toNat * P := by
    rw [← hu]; exact Nat.div_mul_le_self _ _
  have a3 : o.toNat * P < (u.toNat / 2^64 + 1) * 2^64 := by
    rw [← hu, Nat.mul_comm]; exact Nat.lt_mul_div_succ _ (Nat.two_pow_pos _)
  have key := DivNat.est3_core n.toNat o.toNat P (2^(L-1)) (n.toNat / 2) u.w2.toNat
    (u.toNat / 2^64) qh.toNat r0.toNat (n.toNat / o.toNat)
    a1 hn hu_ge a2 a3 a4 a5 hu2 a6 a7 hdiv hdiv2 a8 a9 hq'
  have hSpos : 0 < (2:Nat)^(L-1) := Nat.two_pow_pos _
  have hc0 : (Go.shr r0 (Go.idx ((63 : UInt64) - i))).toNat = r0.toNat / 2^(L-1) := by
    rw [shr_toNat, h63]
  obtain ⟨g1, g2⟩ := decz_spec (Go.shr r0 (Go.idx ((63 : UInt64) - i))) (n.toNat / o.toNat)
    (by rw [hc0, Nat.le_div_iff_mul_le hSpos]; exact key.1)
    (by rw [hc0]
        have : r0.toNat / 2^(L-1) < n.toNat / o.toNat + 2 := by
          rw [Nat.div_lt_iff_lt_mul hSpos]; exact key.2
        omega)
  exact candFix_spec n o 0 _ ho (by simpa using g1) (by simpa using g2)

/-! ## path B1 -/

theorem pathB1_eq (n o : U192) (i : UInt64) (u : U192) :
    pathB1 n o i u =
      (Go.bits.Div64 (Gen.U192.rsh n 1).w1 (Gen.U192.rsh n 1).w0 u.w1 >>= fun t =>
        fix192 n o (Gen.U192.mul64 o (decz (Go.shr t.1 (Go.idx (63 - i)))))
          (U192.mk (decz (Go.shr t.1 (Go.idx (63 - i)))) 0 0)) := by
  simp only [pathB1, decz]
  refine bind_congr fun t => ?_
  split_ifs <;> with_reducible rfl

/-- two-word operands: the leading-zero normalisation -/
theorem norm2 (o : U192) (h2 : o.w2 = 0) (h1 : o.w1 ≠ 0) :
    ∃ L : Nat, 1 ≤ L ∧ L ≤ 64 ∧
      (Go.conv (Go.bits.LeadingZeros64 o.w1) : UInt64).toNat = 64 - L ∧
      2^127 ≤ o.toNat * 2^(64 - L) ∧ o.toNat * 2^(64 - L) < 2^128 ∧
      o.w1.toNat < 2^L ∧ 2^(L-1) ≤ o.w1.toNat := by
  obtain ⟨L, hL1, hL2, hlo, hhi, hi⟩ := Go.bits.LeadingZeros64_spec o.w1 h1
  refine ⟨L, hL1, hL2, hi, ?_, ?_, hhi, hlo⟩
  all_goals
    have hob := U192.bounds o
    have hw2 : o.w2.toNat = 0 := by rw [h2]; rfl
    have ho_lo : o.w1.toNat * 2^64 ≤ o.toNat := by simp only [U192.toNat]; omega
    have ho_hi : o.toNat < (o.w1.toNat + 1) * 2^64 := by simp only [U192.toNat]; omega
    have hp1 : (2:Nat)^L * 2^(64 - L) = 2^64 := by rw [← Nat.pow_add]; congr 1; omega
    have hp2 : (2:Nat)^(L-1) * 2^(64 - L) = 2^63 := by rw [← Nat.pow_add]; congr 1; omega
    have hPpos : 0 < (2:Nat)^(64 - L) := Nat.two_pow_pos _
    generalize hP : (2:Nat)^(64 - L) = P at *
  · calc (2:Nat)^127 = (2^(L-1) * P) * 2^64 := by rw [hp2]; rfl
      _ = (2^(L-1) * 2^64) * P := by ring
      _ ≤ (o.w1.toNat * 2^64) * P := Nat.mul_le_mul_right _ (Nat.mul_le_mul_right _ hlo)
      _ ≤ o.toNat * P := Nat.mul_le_mul_right _ ho_lo
  · calc o.toNat * P < ((o.w1.toNat + 1) * 2^64) * P := Nat.mul_lt_mul_of_pos_right ho_hi hPpos
      _ ≤ (2^L * 2^64) * P := Nat.mul_le_mul_right _ (Nat.mul_le_mul_right _ hhi)
      _ = (2^L * P) * 2^64 := by ring
      _ = 2^128 := by rw [hp1]; rfl

/-- path B1: both operands below `2^128`. -/
theorem pathB1_spec (n o : U192) (h2 : o.w2 = 0) (h1 : o.w1 ≠ 0) (hn2 : n.w2 = 0)
    (ho : o.toNat ≠ 0) :
    ∃ q r, pathB1 n o (Go.conv (Go.bits.LeadingZeros64 o.w1))
        (Gen.U192.lsh o (Go.conv (Go.bits.LeadingZeros64 o.w1))) = .ok (q, r)
      ∧ q.toNat = n.toNat / o.toNat ∧ r.toNat = n.toNat % o.toNat := by
  rw [pathB1_eq]
  obtain ⟨L, hL1, hL2, hi, hu_ge, hu_lt, -, -⟩ := norm2 o h2 h1
  generalize (Go.conv (Go.bits.LeadingZeros64 o.w1) : UInt64) = i at *
  have h63 := sub63 i L hL1 hL2 hi
  have hu : (Gen.U192.lsh o i).toNat = o.toNat * 2^(64 - L) := by
    rw [U192_lsh_toNat, hi, Nat.mod_eq_of_lt (by omega)]
  have hv : (Gen.U192.rsh n 1).toNat = n.toNat / 2 := by
    rw [U192_rsh_toNat]; rfl
  have hn : n.toNat < 2^128 := by
    have := U192.bounds n
    have : n.w2.toNat = 0 := by rw [hn2]; rfl
    simp only [U192.toNat]; omega
  generalize Gen.U192.lsh o i = u at *
  generalize Gen.U192.rsh n 1 = v at *
  have hu1 : u.w1.toNat = o.toNat * 2^(64 - L) / 2^64 := by
    rw [U192.w1_toNat, hu]; omega
  have hu1_ge : 2^63 ≤ u.w1.toNat := by rw [hu1]; omega
  have hv1 : v.w1.toNat < 2^63 := by rw [U192.w1_toNat, hv]; omega
  have hvv : v.w1.toNat * 2^64 + v.w0.toNat = n.toNat / 2 := by
    rw [U192.w1_toNat, U192.w0_toNat, hv]; omega
  obtain ⟨q1, r1, e1, hq1, -⟩ := Go.bits.Div64_ok v.w1 v.w0 u.w1 (by omega)
  rw [hvv, hu1] at hq1
  rw [e1]
  simp only [bind, Except.bind]
  obtain ⟨hest1, hest2⟩ := Nat.div_estimate n.toNat o.toNat (64 - L) hn (by omega) hu_ge
  have hq0 : (Go.shr q1 (Go.idx (63 - i))).toNat
      = n.toNat / 2 / (o.toNat * 2^(64 - L) / 2^64) / 2^(63 - (64 - L)) := by
    rw [shr_toNat, h63, hq1]; congr 2; omega
  rw [← hq0] at hest1 hest2
  obtain ⟨g1, g2⟩ := decz_spec _ _ hest1 hest2
  have hc : (U192.mk (decz (Go.shr q1 (Go.idx (63 - i)))) 0 0).toNat
      = (decz (Go.shr q1 (Go.idx (63 - i)))).toNat := by simp [U192.toNat]
  exact fix192_spec n o _ _ ho (by rw [U192_mul64_toNat, hc]) (by rw [hc]; exact g1)
    (by rw [hc]; exact g2)

/-! ## path B2 -/

theorem pathB2_eq (n o : U192) (i : UInt64) (u : U192) :
    pathB2 n o i u =
      (Go.bits.Div64 (Gen.U192.lsh n i).w2 (Gen.U192.lsh n i).w1 u.w1 >>= fun t =>
        candFix n o 0 (knuthCorr t.1 t.2 u.w1 u.w0 (Gen.U192.lsh n i).w0)) := by
  simp only [pathB2]
  refine bind_congr fun t => ?_
  rw [knuthK_eq]
  rfl

/-- a two-word number (top word zero) -/
theorem U192.two_words (u : U192) (h : u.toNat < 2^128) :
    u.w2.toNat = 0 ∧ u.toNat = u.w1.toNat * 2^64 + u.w0.toNat ∧ u.w1.toNat = u.toNat / 2^64 := by
  have hub := U192.bounds u
  have hun : u.toNat = u.w0.toNat + u.w1.toNat * 2^64 + u.w2.toNat * 2^128 := rfl
  omega

theorem U192.top_two (v : U192) :
    v.toNat = (v.w2.toNat * 2^64 + v.w1.toNat) * 2^64 + v.w0.toNat := by
  have hvn : v.toNat = v.w0.toNat + v.w1.toNat * 2^64 + v.w2.toNat * 2^128 := rfl
  omega

/-- path B2: two-word divisor, `0 < n.w2 < o.w1`: one exact Knuth digit. -/
theorem pathB2_spec (n o : U192) (h2 : o.w2 = 0) (h1 : o.w1 ≠ 0) (hlt : n.w2.toNat < o.w1.toNat)
    (ho : o.toNat ≠ 0) :
    ∃ q r, pathB2 n o (Go.conv (Go.bits.LeadingZeros64 o.w1))
        (Gen.U192.lsh o (Go.conv (Go.bits.LeadingZeros64 o.w1))) = .ok (q, r)
      ∧ q.toNat = n.toNat / o.toNat ∧ r.toNat = n.toNat % o.toNat := by
  rw [pathB2_eq]
  obtain ⟨L, hL1, hL2, hi, hu_ge, hu_lt, hhi, hlo⟩ := norm2 o h2 h1
  generalize (Go.conv (Go.bits.LeadingZeros64 o.w1) : UInt64) = i at *
  have hPpos : 0 < (2:Nat)^(64 - L) := Nat.two_pow_pos _
  have hp1 : (2:Nat)^L * 2^(64 - L) = 2^64 := by rw [← Nat.pow_add]; congr 1; omega
  clear hlo
  generalize hP : (2:Nat)^(64 - L) = P at *
  generalize (2:Nat)^L = PL at *
  have h192 : o.toNat * P < 2^192 := Nat.lt_of_lt_of_le hu_lt (by norm_num)
  have hu : (Gen.U192.lsh o i).toNat = o.toNat * P := by
    rw [U192_lsh_toNat, hi, hP]
    exact Nat.mod_eq_of_lt h192
  have hnb := U192.bounds n
  have hob := U192.bounds o
  have hn_hi : n.toNat < o.w1.toNat * 2^128 := by
    have h1 : n.toNat < (n.w2.toNat + 1) * 2^128 := by simp only [U192.toNat]; omega
    exact Nat.lt_of_lt_of_le h1 (Nat.mul_le_mul_right _ hlt)
  have ho_lo : o.w1.toNat * 2^64 ≤ o.toNat := by simp only [U192.toNat]; omega
  have hnP : n.toNat * P < (o.w1.toNat * P) * 2^128 := by
    calc n.toNat * P < (o.w1.toNat * 2^128) * P := Nat.mul_lt_mul_of_pos_right hn_hi hPpos
      _ = (o.w1.toNat * P) * 2^128 := by ring
  have hw1P : o.w1.toNat * P < 2^64 := by
    calc o.w1.toNat * P < PL * P := Nat.mul_lt_mul_of_pos_right hhi hPpos
      _ = 2^64 := hp1
  have hv_lt : n.toNat * P < 2^192 := by
    calc n.toNat * P < (o.w1.toNat * P) * 2^128 := hnP
      _ ≤ 2^64 * 2^128 := Nat.mul_le_mul_right _ (Nat.le_of_lt hw1P)
      _ = 2^192 := by norm_num
  have hv : (Gen.U192.lsh n i).toNat = n.toNat * P := by
    rw [U192_lsh_toNat, hi, hP, Nat.mod_eq_of_lt hv_lt]
  generalize Gen.U192.lsh o i = u at *
  generalize Gen.U192.lsh n i = v at *
  obtain ⟨hu2, hun, hu1⟩ := U192.two_words u (by omega)
  have hvt := U192.top_two v
  have hub := U192.bounds u
  have hvb := U192.bounds v
  have hu1_ge : 2^63 ≤ u.w1.toNat := by rw [hu1, hu]; omega
  have hu1_lo : o.w1.toNat * P ≤ u.w1.toNat := by
    rw [hu1, hu, Nat.le_div_iff_mul_le (Nat.two_pow_pos _)]
    calc o.w1.toNat * P * 2^64 = (o.w1.toNat * 2^64) * P := by ring
      _ ≤ o.toNat * P := Nat.mul_le_mul_right _ ho_lo
  have hv2 : v.w2.toNat < u.w1.toNat := by
    have : v.w2.toNat < o.w1.toNat * P := by
      rw [U192.w2_toNat, hv, Nat.div_lt_iff_lt_mul (Nat.two_pow_pos _)]; exact hnP
    omega
  obtain ⟨qh, ur, e1, hqh, hur⟩ := Go.bits.Div64_ok v.w2 v.w1 u.w1 hv2
  rw [e1]
  simp only [bind, Except.bind]
  have hV : v.w2.toNat * 2^64 + v.w1.toNat < u.w1.toNat * 2^64 := by omega
  have hq : (knuthCorr qh ur u.w1 u.w0 v.w0).toNat = n.toNat / o.toNat := by
    rw [knuthCorr_toNat, hqh, hur,
      DivNat.refine_eq u.w1.toNat u.w0.toNat v.w0.toNat _ hu1_ge hub.2.1 hub.1 hvb.1 hV,
      ← hvt, ← hun, hv, hu, Nat.mul_div_mul_right _ _ hPpos]
  exact candFix_spec n o 0 _ ho (by simp [hq]) (by simp [hq])

end D128.Proofs.Total
