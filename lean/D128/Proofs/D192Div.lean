/-
  D128/Proofs/D192Div.lean — the general 192-by-192 division `uint192.div` (/repo/int.go):
  five branches (one-word divisor; two-word divisor with a dividend of ≤ 2, exactly 3 with a one-word
  quotient, 3 words with a two-word quotient; three-word divisor), Knuth-style digit estimates with
  corrections and a final compare-and-subtract.

  * `D192Div.Post n o x`  : `x = .ok (q, r)` with `q = n / o`, `r = n % o`
  * `fin_correct`         : the final compare-and-subtract fixes any candidate in `{q-1, q}`
  * `div_A … div_E`       : each branch satisfies `Post`
  * `U192_div_spec`       : `o.toNat ≠ 0 → ∃ q r, Gen.U192.div n o = .ok (q, r) ∧ q = n / o ∧ r = n % o`
                            (in particular no `Div64` panic) — with `q·o + r = n ∧ r < o` as corollary
  * `U192_div_zero`       : division by zero panics (`divZero`)
  * `U192_div_triple`     : `@[spec]` Hoare triple
-/
import D128.Proofs.WordsWide
import D128.Proofs.WordsWideMul
import D128.Proofs.WordsWideShift
import D128.Proofs.Words128Div
import D128.Proofs.D192DivMath
set_option autoImplicit false
set_option maxRecDepth 4096
set_option linter.unusedVariables false
set_option linter.unnecessarySeqFocus false

namespace D192Div
open Gen Go.bits D128.Proofs.WordsWide

def Post (n o : U192) (x : Go.GoM (U192 × U192)) : Prop :=
  ∃ q r, x = .ok (q, r) ∧ q.toNat = n.toNat / o.toNat ∧ r.toNat = n.toNat % o.toNat

theorem test_iff (p1 p0 ur v0 : UInt64) :
    (decide (p1 > ur) || p1 == ur && decide (p0 > v0)) = true ↔
      p1.toNat * 2 ^ 64 + p0.toNat > ur.toNat * 2 ^ 64 + v0.toNat := by
  have := p0.toNat_lt; have := v0.toNat_lt
  simp only [Bool.or_eq_true, Bool.and_eq_true, decide_eq_true_eq, beq_iff_eq, gt_iff_lt,
    UInt64.lt_iff_toNat_lt, ← UInt64.toNat_inj]
  omega

/-- the final compare-and-subtract (projection form): any candidate `r ∈ {q-1, q}` is fixed up
(`m` is the product `o·r` as computed by the code). -/
theorem fin_core' (n o r m : U192) (ho : o.toNat ≠ 0)
    (h1 : r.toNat ≤ n.toNat / o.toNat) (h2 : n.toNat / o.toNat ≤ r.toNat + 1)
    (hm : o.toNat * r.toNat ≤ n.toNat → m.toNat = o.toNat * r.toNat) :
    Post n o (if decide (U192.cmp (U192.sub n m).1 o ≥ 0) = true then
      pure (U192.add64 r 1, (U192.sub (U192.sub n m).1 o).1) else pure (r, (U192.sub n m).1)) := by
  have hn := U192.toNat_lt n
  have hopos : 0 < o.toNat := Nat.pos_of_ne_zero ho
  have hdm := Nat.div_add_mod n.toNat o.toNat
  have hR := Nat.mod_lt n.toNat hopos
  generalize hQ : n.toNat / o.toNat = Q at *
  generalize hRR : n.toNat % o.toNat = R at *
  have hQc : Q = r.toNat ∨ Q = r.toNat + 1 := by omega
  have hle : o.toNat * r.toNat ≤ n.toNat := by
    rcases hQc with h | h <;> subst h
    · omega
    · rw [Nat.mul_add, Nat.mul_one] at hdm; omega
  have hmul := hm hle
  have hsub : (U192.sub n m).1.toNat = n.toNat - o.toNat * r.toNat := by
    rw [U192_sub_toNat_of_le _ _ (by omega), hmul]
  have hge := U192_cmp_ge_zero (U192.sub n m).1 o
  rw [hsub] at hge
  unfold Post
  rw [hQ, hRR]
  rcases hQc with h | h <;> subst h
  · rw [if_neg (by rw [decide_eq_true_eq]; intro h; have := hge.mp h; omega)]
    exact ⟨_, _, rfl, rfl, by rw [hsub]; omega⟩
  · rw [Nat.mul_add, Nat.mul_one] at hdm
    rw [if_pos (by rw [decide_eq_true_eq]; exact hge.mpr (by omega))]
    have hr : r.toNat ≤ o.toNat * r.toNat := Nat.le_mul_of_pos_left _ hopos
    refine ⟨_, _, rfl, ?_, ?_⟩
    · rw [U192_add64_toNat, Nat.mod_eq_of_lt] <;> simp only [UInt64.toNat_one] <;> omega
    · rw [U192_sub_toNat_of_le _ _ (by rw [hsub]; omega), hsub]; omega

/-- `fin_core'` in the `match` form of the generated code. -/
theorem fin_core (n o r m : U192) (ho : o.toNat ≠ 0)
    (h1 : r.toNat ≤ n.toNat / o.toNat) (h2 : n.toNat / o.toNat ≤ r.toNat + 1)
    (hm : o.toNat * r.toNat ≤ n.toNat → m.toNat = o.toNat * r.toNat) :
    Post n o (match U192.sub n m with
      | (a, _) =>
        if decide (U192.cmp a o ≥ 0) = true then
          match U192.sub a o with
          | (c, _) => pure (U192.add64 r 1, c)
        else pure (r, a)) := by
  show Post n o (if decide (U192.cmp (U192.sub n m).1 o ≥ 0) = true then
      pure (U192.add64 r 1, (U192.sub (U192.sub n m).1 o).1) else pure (r, (U192.sub n m).1))
  exact fin_core' n o r m ho h1 h2 hm

theorem mul_low_eq (n o r : U192) (hle : o.toNat * r.toNat ≤ n.toNat) :
    (U192.mk (U192.mul o r).w0 (U192.mul o r).w1 (U192.mul o r).w2).toNat = o.toNat * r.toNat := by
  have hn := U192.toNat_lt n
  rw [U192_mul_low, Nat.mod_eq_of_lt (by omega)]

/-- projection form with the product taken from the low words of the 384-bit product. -/
theorem fin_correct' (n o r : U192) (ho : o.toNat ≠ 0)
    (h1 : r.toNat ≤ n.toNat / o.toNat) (h2 : n.toNat / o.toNat ≤ r.toNat + 1) :
    Post n o (if decide (U192.cmp (U192.sub n (U192.mk (U192.mul o r).w0 (U192.mul o r).w1
          (U192.mul o r).w2)).1 o ≥ 0) = true then
        pure (U192.add64 r 1, (U192.sub (U192.sub n (U192.mk (U192.mul o r).w0 (U192.mul o r).w1
          (U192.mul o r).w2)).1 o).1)
      else pure (r, (U192.sub n (U192.mk (U192.mul o r).w0 (U192.mul o r).w1 (U192.mul o r).w2)).1)) :=
  fin_core' n o r _ ho h1 h2 (mul_low_eq n o r)

/-- `fin_core` with the product taken from the low words of the full 384-bit product. -/
theorem fin_correct (n o r : U192) (ho : o.toNat ≠ 0)
    (h1 : r.toNat ≤ n.toNat / o.toNat) (h2 : n.toNat / o.toNat ≤ r.toNat + 1) :
    Post n o (match U192.sub n (U192.mk (U192.mul o r).w0 (U192.mul o r).w1 (U192.mul o r).w2) with
      | (a, _) =>
        if decide (U192.cmp a o ≥ 0) = true then
          match U192.sub a o with
          | (c, _) => pure (U192.add64 r 1, c)
        else pure (r, a)) :=
  fin_core n o r _ ho h1 h2 (fun hle => by
    have hn := U192.toNat_lt n
    rw [U192_mul_low, Nat.mod_eq_of_lt (by omega)])

/-- `fin_core` with the product computed by `mul64` (one-word candidate). -/
theorem fin_correct64 (n o : U192) (c : UInt64) (ho : o.toNat ≠ 0)
    (h1 : c.toNat ≤ n.toNat / o.toNat) (h2 : n.toNat / o.toNat ≤ c.toNat + 1) :
    Post n o (match U192.sub n (U192.mul64 o c) with
      | (a, _) =>
        if decide (U192.cmp a o ≥ 0) = true then
          match U192.sub a o with
          | (cc, _) => pure (U192.add64 (U192.mk c 0 0) 1, cc)
        else pure (U192.mk c 0 0, a)) :=
  fin_core n o (U192.mk c 0 0) _ ho (by simpa [U192.toNat] using h1) (by simpa [U192.toNat] using h2)
    (fun hle => by
      have hn := U192.toNat_lt n
      have e : (U192.mk c 0 0).toNat = c.toNat := by simp [U192.toNat]
      rw [e] at hle ⊢
      exact U192_mul64_toNat_of_lt _ _ (by omega))

theorem U192.w2_toNat (n : U192) : n.w2.toNat = n.toNat / 2 ^ 128 := by
  have := n.w0.toNat_lt; have := n.w1.toNat_lt
  simp only [U192.toNat]; omega

theorem U192.w1_toNat (n : U192) : n.w1.toNat = n.toNat / 2 ^ 64 % 2 ^ 64 := by
  have := n.w0.toNat_lt; have := n.w1.toNat_lt
  simp only [U192.toNat]; omega

theorem U192.w0_toNat (n : U192) : n.w0.toNat = n.toNat % 2 ^ 64 := by
  have := n.w0.toNat_lt; have := n.w1.toNat_lt
  simp only [U192.toNat]; omega

theorem U192.hi2_toNat (n : U192) : n.w2.toNat * 2 ^ 64 + n.w1.toNat = n.toNat / 2 ^ 64 := by
  have := n.w0.toNat_lt; have := n.w1.toNat_lt
  simp only [U192.toNat]; omega

theorem U192.toNat_mk1 (c : UInt64) : (U192.mk c 0 0).toNat = c.toNat := by
  simp [U192.toNat]

theorem u64_ne_zero_iff (x : UInt64) : (x != 0) = true ↔ x.toNat ≠ 0 := by
  rw [bne_iff_ne, ne_eq, ← UInt64.toNat_inj]; rfl

theorem u64_sub_one (x : UInt64) (h : x.toNat ≠ 0) : (x - 1).toNat = x.toNat - 1 := by
  have h1' : (1 : UInt64).toNat = 1 := rfl
  rw [UInt64.toNat_sub_of_le _ _ (by rw [UInt64.le_iff_toNat_le, h1']; omega), h1']

theorem div_E (n o : U192) (h2 : ¬ (o.w2 == 0) = true) :
    Post n o (Gen.U192.div n o) := by
  unfold Gen.U192.div
  rw [if_neg h2]
  extract_lets i u v jp2 jp1 jp0
  have hw2 : o.w2 ≠ 0 := by simpa using h2
  obtain ⟨L, h1, hL2, hlo, hhi, hi⟩ := Go.bits.LeadingZeros64_spec o.w2 hw2
  have hn := U192.toNat_lt n
  -- bounds on o
  have hob := U192.bounds o
  have hoL : o.toNat < 2 ^ L * 2 ^ 128 := by
    have : (o.w2.toNat + 1) * 2 ^ 128 ≤ 2 ^ L * 2 ^ 128 := Nat.mul_le_mul_right _ hhi
    simp only [U192.toNat]; omega
  have hoL' : 2 ^ (L - 1) * 2 ^ 128 ≤ o.toNat := by
    have := Nat.mul_le_mul_right (2 ^ 128) hlo
    simp only [U192.toNat]; omega
  have ho : o.toNat ≠ 0 := by
    have : 0 < 2 ^ (L - 1) * 2 ^ 128 := by positivity
    omega
  have hp1 : (2 : Nat) ^ L * 2 ^ (64 - L) = 2 ^ 64 := by rw [← Nat.pow_add]; congr 1; omega
  have hp2 : (2 : Nat) ^ (L - 1) * 2 ^ (64 - L) = 2 ^ 63 := by rw [← Nat.pow_add]; congr 1; omega
  have hpS : (2 : Nat) ^ (64 - L) * 2 ^ (63 - (64 - L)) = 2 ^ 63 := by
    rw [← Nat.pow_add]; congr 1; omega
  have hu_lt : o.toNat * 2 ^ (64 - L) < 2 ^ 192 := by
    calc o.toNat * 2 ^ (64 - L) < (2 ^ L * 2 ^ 128) * 2 ^ (64 - L) :=
          Nat.mul_lt_mul_of_pos_right hoL (Nat.two_pow_pos _)
      _ = (2 ^ L * 2 ^ (64 - L)) * 2 ^ 128 := by ring
      _ = 2 ^ 192 := by rw [hp1]; rfl
  have hu_ge : 2 ^ 191 ≤ o.toNat * 2 ^ (64 - L) := by
    calc (2 : Nat) ^ 191 = (2 ^ (L - 1) * 2 ^ (64 - L)) * 2 ^ 128 := by rw [hp2]; rfl
      _ = (2 ^ (L - 1) * 2 ^ 128) * 2 ^ (64 - L) := by ring
      _ ≤ o.toNat * 2 ^ (64 - L) := Nat.mul_le_mul_right _ hoL'
  have hu : u.toNat = o.toNat * 2 ^ (64 - L) := by
    show (U192.lsh o i).toNat = _
    rw [U192_lsh_toNat, hi, Nat.mod_eq_of_lt hu_lt]
  have hv : v.toNat = n.toNat / 2 := by
    show (U192.rsh n 1).toNat = _
    rw [U192_rsh_toNat]; rfl
  -- the continuations
  have hjp1 : ∀ c : UInt64, c.toNat ≤ n.toNat / o.toNat → n.toNat / o.toNat ≤ c.toNat + 1 →
      Post n o (jp1 () c) := by
    intro c hc1 hc2
    exact fin_correct n o (U192.mk c 0 0) ho (by rw [U192.toNat_mk1]; exact hc1)
      (by rw [U192.toNat_mk1]; exact hc2)
  have h63 : (63 - i).toNat = 63 - (64 - L) := by
    have h63' : (63 : UInt64).toNat = 63 := rfl
    rw [UInt64.toNat_sub_of_le _ _ (by rw [UInt64.le_iff_toNat_le, h63', hi]; omega), h63', hi]
  have hjp0 : ∀ q' : UInt64, n.toNat / o.toNat * 2 ^ (63 - (64 - L)) ≤ q'.toNat →
      q'.toNat < (n.toNat / o.toNat + 2) * 2 ^ (63 - (64 - L)) → Post n o (jp0 () q') := by
    intro q' hq1 hq2
    have he : (Go.shr q' (Go.idx (63 - i))).toNat = q'.toNat / 2 ^ (63 - (64 - L)) := by
      rw [Go.shr_toNat, Go.idx_u64, Int.toNat_natCast, h63]
    have he1 : n.toNat / o.toNat ≤ (Go.shr q' (Go.idx (63 - i))).toNat := by
      rw [he, Nat.le_div_iff_mul_le (Nat.two_pow_pos _)]; exact hq1
    have he2 : (Go.shr q' (Go.idx (63 - i))).toNat ≤ n.toNat / o.toNat + 1 := by
      have : q'.toNat / 2 ^ (63 - (64 - L)) < n.toNat / o.toNat + 2 := by
        rw [Nat.div_lt_iff_lt_mul (Nat.two_pow_pos _)]; exact hq2
      rw [he]; exact Nat.le_of_lt_succ this
    show Post n o (if (Go.shr q' (Go.idx (63 - i)) != 0) = true then
      jp1 () (Go.shr q' (Go.idx (63 - i)) - 1) else jp1 () (Go.shr q' (Go.idx (63 - i))))
    generalize Go.shr q' (Go.idx (63 - i)) = e at *
    by_cases hz : (e != 0) = true
    · rw [if_pos hz]
      have hz' := (u64_ne_zero_iff e).mp hz
      have := u64_sub_one e hz'
      exact hjp1 (e - 1) (by omega) (by omega)
    · rw [if_neg hz]
      have hz' : e.toNat = 0 := by
        by_contra h; exact hz ((u64_ne_zero_iff e).mpr h)
      exact hjp1 e (by rw [hz']; exact Nat.zero_le _) (Nat.le_succ_of_le he1)
  clear_value jp0 jp1 jp2
  -- the estimate
  have hu2 : u.w2.toNat = o.toNat * 2 ^ (64 - L) / 2 ^ 128 := by rw [U192.w2_toNat, hu]
  have hu2_ge : 2 ^ 63 ≤ u.w2.toNat := by
    rw [hu2, Nat.le_div_iff_mul_le (Nat.two_pow_pos _)]; omega
  have hv2 : v.w2.toNat < 2 ^ 63 := by
    rw [U192.w2_toNat, hv]; omega
  obtain ⟨q1, r1, e1, hq1, hr1⟩ := div64_spec v.w2 v.w1 u.w2 (by omega)
  rw [e1]
  show Post n o (match Mul64 q1 u.w1 with
    | (p1, p0) => if (decide (p1 > r1) || p1 == r1 && decide (p0 > v.w0)) = true then jp0 () (q1 - 1)
        else jp0 () q1)
  obtain ⟨p1, p0, em, hm⟩ := mul64_spec q1 u.w1
  rw [em]
  show Post n o (if (decide (p1 > r1) || p1 == r1 && decide (p0 > v.w0)) = true then jp0 () (q1 - 1)
        else jp0 () q1)
  have hVV := U192.hi2_toNat v
  have hUU := U192.hi2_toNat u
  have hv0 := U192.w0_toNat v
  have hu0 := U192.w0_toNat u
  obtain ⟨hqb1, hqb2⟩ := Knuth.qh_bounds v.toNat (v.toNat / 2 ^ 64) q1.toNat r1.toNat u.w2.toNat rfl
    (by rw [hq1, hVV]) hr1
  have hcore := Knuth.est3_core n.toNat o.toNat (2 ^ (64 - L)) (2 ^ (63 - (64 - L))) v.toNat u.w2.toNat
    (u.toNat / 2 ^ 64) q1.toNat (if q1.toNat * (u.toNat / 2 ^ 64) > v.toNat then q1.toNat - 1 else q1.toNat)
    (n.toNat / o.toNat) hpS hn hu_ge
    (by rw [← hu]; exact Nat.div_mul_le_self _ _)
    (by rw [← hu, Nat.mul_comm]; exact Nat.lt_mul_div_succ _ (Nat.two_pow_pos _))
    (by rw [← hUU]; exact Nat.le_add_right _ _)
    (by rw [← hUU]; have := u.w1.toNat_lt; linarith) hu2_ge
    (by rw [hv]; exact Nat.mul_div_le _ _)
    (by rw [hv]; have := Nat.lt_mul_div_succ n.toNat (show 0 < 2 by norm_num); linarith)
    (Nat.div_mul_le_self _ _) (by rw [Nat.mul_comm]; exact Nat.lt_mul_div_succ _ (Nat.pos_of_ne_zero ho))
    hqb1 hqb2 rfl
  have htest : (decide (p1 > r1) || p1 == r1 && decide (p0 > v.w0)) = true ↔
      q1.toNat * (u.toNat / 2 ^ 64) > v.toNat := by
    rw [test_iff, ← hUU]
    exact Knuth.test_top v.toNat (v.toNat / 2 ^ 64) v.w0.toNat q1.toNat r1.toNat u.w2.toNat u.w1.toNat _
      rfl hv0 (by rw [hq1, hVV]) hm
  by_cases ht : (decide (p1 > r1) || p1 == r1 && decide (p0 > v.w0)) = true
  · rw [if_pos ht]
    have ht' := htest.mp ht
    rw [if_pos ht'] at hcore
    have hq1pos : q1.toNat ≠ 0 := by
      intro h; rw [h] at ht'; simp at ht'
    apply hjp0 <;> rw [u64_sub_one _ hq1pos]
    · exact hcore.1
    · exact hcore.2
  · rw [if_neg ht]
    have ht' := fun h => ht (htest.mpr h)
    rw [if_neg ht'] at hcore
    exact hjp0 _ hcore.1 hcore.2

theorem post_pure (n o q r : U192) (hq : q.toNat = n.toNat / o.toNat) (hr : r.toNat = n.toNat % o.toNat) :
    Post n o (pure (q, r)) := ⟨q, r, rfl, hq, hr⟩

theorem div_A (n o : U192) (h2 : (o.w2 == 0) = true) (h1 : (o.w1 == 0) = true) (ho : o.toNat ≠ 0) :
    Post n o (Gen.U192.div n o) := by
  unfold Gen.U192.div
  rw [if_pos h2, if_pos h1]
  extract_lets z jp
  have h2' : o.w2.toNat = 0 := by rw [beq_iff_eq] at h2; rw [h2]; rfl
  have h1' : o.w1.toNat = 0 := by rw [beq_iff_eq] at h1; rw [h1]; rfl
  have hon : o.toNat = o.w0.toNat := by simp [U192.toNat, h2', h1']
  rw [hon] at ho
  have hd : 0 < o.w0.toNat := Nat.pos_of_ne_zero ho
  unfold Post
  rw [hon]
  generalize o.w0 = d at *
  have hb := U192.bounds n
  by_cases h : decide (n.w2 < d) = true
  · rw [if_pos h]
    have h' : n.w2.toNat < d.toNat := by simpa [UInt64.lt_iff_toNat_lt] using h
    obtain ⟨q1, r1, e1, hq1, hr1⟩ := div64_spec n.w2 n.w1 d h'
    obtain ⟨q0, r0, e0, hq0, hr0⟩ := div64_spec r1 n.w0 d hr1
    rw [e1]
    show ∃ q r, (Div64 r1 n.w0 d >>= fun t => jp () t.1 q1 z t.2) = Except.ok (q, r) ∧ _
    rw [e0]
    have key := (Nat.div_mod_unique (a := n.toNat) (b := d.toNat) (d := (U192.mk q0 q1 0).toNat)
      (c := r0.toNat) hd).mpr ⟨by simp only [U192.toNat, UInt64.toNat_zero]; nlinarith, hr0⟩
    exact ⟨_, _, rfl, key.1.symm, by rw [U192.toNat_mk1]; exact key.2.symm⟩
  · rw [if_neg h]
    have h' : d.toNat ≤ n.w2.toNat := by simpa [UInt64.lt_iff_toNat_lt] using h
    obtain ⟨q2, r2, e2, hq2, hr2⟩ := div64_spec 0 n.w2 d (by simpa using hd)
    obtain ⟨q1, r1, e1, hq1, hr1⟩ := div64_spec r2 n.w1 d hr2
    obtain ⟨q0, r0, e0, hq0, hr0⟩ := div64_spec r1 n.w0 d hr1
    rw [e2]
    show ∃ q r, (Div64 r2 n.w1 d >>= fun t => Div64 t.2 n.w0 d >>= fun t' => jp () t'.1 t.1 q2 t'.2)
      = Except.ok (q, r) ∧ _
    rw [e1]
    show ∃ q r, (Div64 r1 n.w0 d >>= fun t' => jp () t'.1 q1 q2 t'.2) = Except.ok (q, r) ∧ _
    rw [e0]
    simp only [UInt64.toNat_zero, Nat.zero_mul, Nat.zero_add] at hq2
    have key := (Nat.div_mod_unique (a := n.toNat) (b := d.toNat) (d := (U192.mk q0 q1 q2).toNat)
      (c := r0.toNat) hd).mpr ⟨by simp only [U192.toNat]; nlinarith, hr0⟩
    exact ⟨_, _, rfl, key.1.symm, by rw [U192.toNat_mk1]; exact key.2.symm⟩

theorem U192.toNat_of_w2_zero (n : U192) (h : (n.w2 == 0) = true) :
    n.toNat = n.w0.toNat + n.w1.toNat * 2 ^ 64 ∧ n.toNat < 2 ^ 128 := by
  have h' : n.w2.toNat = 0 := by rw [beq_iff_eq] at h; rw [h]; rfl
  have := n.w0.toNat_lt; have := n.w1.toNat_lt
  simp only [U192.toNat, h']; omega

/-- facts about the normalised two-word divisor `u = o << lz(o.w1)` -/
theorem norm2 (o : U192) (h2 : (o.w2 == 0) = true) (h1 : ¬ (o.w1 == 0) = true) :
    ∃ L : Nat, 1 ≤ L ∧ L ≤ 64 ∧ (Go.conv (LeadingZeros64 o.w1) : UInt64).toNat = 64 - L ∧
      (U192.lsh o (Go.conv (LeadingZeros64 o.w1))).toNat = o.toNat * 2 ^ (64 - L) ∧
      2 ^ 127 ≤ o.toNat * 2 ^ (64 - L) ∧ o.toNat * 2 ^ (64 - L) < 2 ^ 128 ∧ o.toNat ≠ 0 := by
  have hw1 : o.w1 ≠ 0 := by simpa using h1
  obtain ⟨L, h1', hL2, hlo, hhi, hi⟩ := Go.bits.LeadingZeros64_spec o.w1 hw1
  obtain ⟨hon, -⟩ := U192.toNat_of_w2_zero o h2
  have := o.w0.toNat_lt
  have hoL : o.toNat < 2 ^ L * 2 ^ 64 := by
    have : (o.w1.toNat + 1) * 2 ^ 64 ≤ 2 ^ L * 2 ^ 64 := Nat.mul_le_mul_right _ hhi
    omega
  have hoL' : 2 ^ (L - 1) * 2 ^ 64 ≤ o.toNat := by
    have := Nat.mul_le_mul_right (2 ^ 64) hlo
    omega
  have hp1 : (2 : Nat) ^ L * 2 ^ (64 - L) = 2 ^ 64 := by rw [← Nat.pow_add]; congr 1; omega
  have hp2 : (2 : Nat) ^ (L - 1) * 2 ^ (64 - L) = 2 ^ 63 := by rw [← Nat.pow_add]; congr 1; omega
  have hu_lt : o.toNat * 2 ^ (64 - L) < 2 ^ 128 := by
    calc o.toNat * 2 ^ (64 - L) < (2 ^ L * 2 ^ 64) * 2 ^ (64 - L) :=
          Nat.mul_lt_mul_of_pos_right hoL (Nat.two_pow_pos _)
      _ = (2 ^ L * 2 ^ (64 - L)) * 2 ^ 64 := by ring
      _ = 2 ^ 128 := by rw [hp1]; rfl
  have hu_ge : 2 ^ 127 ≤ o.toNat * 2 ^ (64 - L) := by
    calc (2 : Nat) ^ 127 = (2 ^ (L - 1) * 2 ^ (64 - L)) * 2 ^ 64 := by rw [hp2]; rfl
      _ = (2 ^ (L - 1) * 2 ^ 64) * 2 ^ (64 - L) := by ring
      _ ≤ o.toNat * 2 ^ (64 - L) := Nat.mul_le_mul_right _ hoL'
  refine ⟨L, h1', hL2, hi, ?_, hu_ge, hu_lt, ?_⟩
  · rw [U192_lsh_toNat, hi, Nat.mod_eq_of_lt (by omega)]
  · have : 0 < 2 ^ (L - 1) * 2 ^ 64 := by positivity
    omega

theorem div_B (n o : U192) (h2 : (o.w2 == 0) = true) (h1 : ¬ (o.w1 == 0) = true) (hn : (n.w2 == 0) = true) :
    Post n o (Gen.U192.div n o) := by
  unfold Gen.U192.div
  rw [if_pos h2, if_neg h1]
  extract_lets +onlyGivenNames i u
  rw [if_pos hn]
  extract_lets v jp1 jp0
  obtain ⟨L, hL1, hL2, hi, hu, hu_ge, hu_lt, ho⟩ := norm2 o h2 h1
  obtain ⟨hnn, hn128⟩ := U192.toNat_of_w2_zero n hn
  have hjp0 : ∀ c : UInt64, c.toNat ≤ n.toNat / o.toNat → n.toNat / o.toNat ≤ c.toNat + 1 →
      Post n o (jp0 () c) := fun c hc1 hc2 => fin_correct64 n o c ho hc1 hc2
  clear_value jp0 jp1
  have hv : v.toNat = n.toNat / 2 := by
    show (U192.rsh n 1).toNat = _
    rw [U192_rsh_toNat]; rfl
  have hvv : v.w1.toNat * 2 ^ 64 + v.w0.toNat = n.toNat / 2 := by
    have h2v : v.w2.toNat = 0 := by rw [U192.w2_toNat, hv]; omega
    have := v.w0.toNat_lt
    rw [← hv]; simp only [U192.toNat, h2v]; omega
  have hv1 : v.w1.toNat < 2 ^ 63 := by
    have := v.w0.toNat_lt; omega
  have hu1 : u.w1.toNat = o.toNat * 2 ^ (64 - L) / 2 ^ 64 := by
    have e : u.toNat = o.toNat * 2 ^ (64 - L) := hu
    rw [U192.w1_toNat, e, Nat.mod_eq_of_lt]
    rw [Nat.div_lt_iff_lt_mul (Nat.two_pow_pos _)]; omega
  have hu1_ge : 2 ^ 63 ≤ u.w1.toNat := by
    rw [hu1, Nat.le_div_iff_mul_le (Nat.two_pow_pos _)]; omega
  obtain ⟨q1, r1, e1, hq1, hr1⟩ := div64_spec v.w1 v.w0 u.w1 (by omega)
  rw [e1, ok_bind]
  dsimp only
  have hq1' : q1.toNat = n.toNat / 2 / (o.toNat * 2 ^ (64 - L) / 2 ^ 64) := by
    rw [← hu1, ← hvv]
    symm
    apply Nat.div_eq_of_lt_le
    · rw [← hq1]; exact Nat.le_add_right _ _
    · rw [← hq1]; nlinarith
  have h63 : (63 - i).toNat = 63 - (64 - L) := by
    have h63' : (63 : UInt64).toNat = 63 := rfl
    have hi' : i.toNat = 64 - L := hi
    rw [UInt64.toNat_sub_of_le _ _ (by rw [UInt64.le_iff_toNat_le, h63', hi']; omega), h63', hi']
  have hq0 : (Go.shr q1 (Go.idx (63 - i))).toNat
      = n.toNat / 2 / (o.toNat * 2 ^ (64 - L) / 2 ^ 64) / 2 ^ (63 - (64 - L)) := by
    rw [Go.shr_toNat, Go.idx_u64, Int.toNat_natCast, h63, hq1']
  obtain ⟨hest1, hest2⟩ := Nat.div_estimate n.toNat o.toNat (64 - L) hn128 (by omega) hu_ge
  rw [← hq0] at hest1 hest2
  generalize Go.shr q1 (Go.idx (63 - i)) = e at *
  by_cases hz : (e != 0) = true
  · rw [if_pos hz]
    have hz' := (u64_ne_zero_iff e).mp hz
    have := u64_sub_one e hz'
    exact hjp0 (e - 1) (by rw [this]; omega) (by rw [this]; omega)
  · rw [if_neg hz]
    have hz' : e.toNat = 0 := by
      by_contra h; exact hz ((u64_ne_zero_iff e).mpr h)
    exact hjp0 e (by rw [hz']; exact Nat.zero_le _) (by rw [hz'] at hest1 ⊢; omega)

/-- the correction ladder of one Knuth digit, generic in the continuation: the value handed to
the continuation is `Knuth.refine` of the inputs. -/
theorem digit_ladder {α : Type} (P : α → Prop) (jp : Unit → UInt64 → UInt64 → UInt64 → α)
    (q ur u1 u0 v0 : UInt64)
    (hjp : ∀ c a b : UInt64,
      c.toNat = Knuth.refine u1.toNat u0.toNat v0.toNat q.toNat ur.toNat → P (jp () c a b)) :
    P (if (decide ((Mul64 q u0).1 > ur) || (Mul64 q u0).1 == ur && decide ((Mul64 q u0).2 > v0)) = true then
        if ((Add64 ur u1 0).2 == 0) = true then
          if (decide ((Mul64 (q - 1) u0).1 > (Add64 ur u1 0).1) ||
              (Mul64 (q - 1) u0).1 == (Add64 ur u1 0).1 && decide ((Mul64 (q - 1) u0).2 > v0)) = true then
            jp () (q - 1 - 1) (Mul64 (q - 1) u0).1 (Mul64 (q - 1) u0).2
          else jp () (q - 1) (Mul64 (q - 1) u0).1 (Mul64 (q - 1) u0).2
        else jp () (q - 1) (Mul64 q u0).1 (Mul64 q u0).2
      else jp () q (Mul64 q u0).1 (Mul64 q u0).2) := by
  obtain ⟨p1, p0, em, hm⟩ := mul64_spec q u0
  obtain ⟨s, k, ea, ha, hk⟩ := add64_spec ur u1 0 (by simp)
  obtain ⟨p1', p0', em', hm'⟩ := mul64_spec (q - 1) u0
  rw [em, ea, em']
  dsimp only
  have hur := ur.toNat_lt
  simp only [UInt64.toNat_zero, Nat.add_zero] at ha
  by_cases t1 : (decide (p1 > ur) || p1 == ur && decide (p0 > v0)) = true
  · rw [if_pos t1]
    have t1' := (test_iff _ _ _ _).mp t1
    rw [hm] at t1'
    have hq : q.toNat ≠ 0 := by intro h; rw [h] at t1'; simp at t1'
    have hq1 := u64_sub_one q hq
    rw [hq1] at hm'
    by_cases hc : (k == 0) = true
    · rw [if_pos hc]
      have hk0 : k.toNat = 0 := by rw [beq_iff_eq] at hc; rw [hc]; rfl
      have hs : s.toNat = ur.toNat + u1.toNat := by rw [hk0] at ha; omega
      have hlt : ur.toNat + u1.toNat < 2 ^ 64 := by rw [← hs]; exact s.toNat_lt
      by_cases t2 : (decide (p1' > s) || p1' == s && decide (p0' > v0)) = true
      · rw [if_pos t2]
        have t2' := (test_iff _ _ _ _).mp t2
        rw [hm', hs] at t2'
        have hq' : q.toNat - 1 ≠ 0 := by intro h; rw [h] at t2'; simp at t2'
        apply hjp
        rw [u64_sub_one _ (by rw [hq1]; exact hq'), hq1]
        unfold Knuth.refine
        rw [if_pos t1', if_pos hlt, if_pos t2']
        omega
      · rw [if_neg t2]
        have t2' : ¬ _ := fun h => t2 ((test_iff _ _ _ _).mpr h)
        rw [hm', hs] at t2'
        apply hjp
        rw [hq1]
        unfold Knuth.refine
        rw [if_pos t1', if_pos hlt, if_neg t2']
    · rw [if_neg hc]
      have hk1 : k.toNat = 1 := by
        have : k.toNat ≠ 0 := by
          intro h; apply hc; rw [beq_iff_eq]; exact UInt64.toNat_inj.mp (by simpa using h)
        omega
      have hge : ¬ ur.toNat + u1.toNat < 2 ^ 64 := by rw [hk1] at ha; omega
      apply hjp
      rw [hq1]
      unfold Knuth.refine
      rw [if_pos t1', if_neg hge]
  · rw [if_neg t1]
    have t1' : ¬ _ := fun h => t1 ((test_iff _ _ _ _).mpr h)
    rw [hm] at t1'
    apply hjp
    unfold Knuth.refine
    rw [if_neg t1']

theorem div_C (n o : U192) (h2 : (o.w2 == 0) = true) (h1 : ¬ (o.w1 == 0) = true) (hn : ¬ (n.w2 == 0) = true)
    (hlt : decide (n.w2 < o.w1) = true) :
    Post n o (Gen.U192.div n o) := by
  unfold Gen.U192.div
  rw [if_pos h2, if_neg h1]
  extract_lets +onlyGivenNames i u
  rw [if_neg hn, if_pos hlt]
  extract_lets v jp1 jp0
  obtain ⟨L, hL1, hL2, hi, hu, hu_ge, hu_lt, ho⟩ := norm2 o h2 h1
  obtain ⟨hoo, -⟩ := U192.toNat_of_w2_zero o h2
  have hlt' : n.w2.toNat < o.w1.toNat := by simpa [UInt64.lt_iff_toNat_lt] using hlt
  have hjp0 : ∀ c a b : UInt64, c.toNat = n.toNat / o.toNat → Post n o (jp0 () c a b) := by
    intro c a b hc
    exact fin_correct n o (U192.mk c 0 0) ho (by rw [U192.toNat_mk1, hc])
      (by rw [U192.toNat_mk1, hc]; exact Nat.le_succ _)
  clear_value jp0 jp1
  have hu' : u.toNat = o.toNat * 2 ^ (64 - L) := hu
  have hpos : 0 < 2 ^ (64 - L) := Nat.two_pow_pos _
  -- n·2^i fits
  have hnb := U192.bounds n
  have hob := U192.bounds o
  have hn1 : n.toNat < o.w1.toNat * 2 ^ 128 := by
    simp only [U192.toNat]; nlinarith
  have ho1 : o.w1.toNat * 2 ^ 64 ≤ o.toNat := by rw [hoo]; omega
  have hv_lt : n.toNat * 2 ^ (64 - L) < o.w1.toNat * 2 ^ (64 - L) * 2 ^ 128 := by
    calc n.toNat * 2 ^ (64 - L) < (o.w1.toNat * 2 ^ 128) * 2 ^ (64 - L) :=
          Nat.mul_lt_mul_of_pos_right hn1 hpos
      _ = _ := by ring
  have ho1' : o.w1.toNat * 2 ^ (64 - L) * 2 ^ 64 ≤ o.toNat * 2 ^ (64 - L) := by
    calc o.w1.toNat * 2 ^ (64 - L) * 2 ^ 64 = (o.w1.toNat * 2 ^ 64) * 2 ^ (64 - L) := by ring
      _ ≤ _ := Nat.mul_le_mul_right _ ho1
  have hv : v.toNat = n.toNat * 2 ^ (64 - L) := by
    show (U192.lsh n i).toNat = _
    have hi' : i.toNat = 64 - L := hi
    rw [U192_lsh_toNat, hi', Nat.mod_eq_of_lt]
    calc n.toNat * 2 ^ (64 - L) < o.w1.toNat * 2 ^ (64 - L) * 2 ^ 128 := hv_lt
      _ ≤ 2 ^ 64 * 2 ^ 128 := Nat.mul_le_mul_right _ (by omega)
      _ = 2 ^ 192 := by norm_num
  have hu2 : u.w2.toNat = 0 := by rw [U192.w2_toNat, hu']; omega
  have hu1 : u.w1.toNat = u.toNat / 2 ^ 64 := by rw [← U192.hi2_toNat, hu2]; omega
  have hu1_ge : 2 ^ 63 ≤ u.w1.toNat := by
    rw [hu1, hu', Nat.le_div_iff_mul_le (Nat.two_pow_pos _)]
    have : (2 : Nat) ^ 63 * 2 ^ 64 = 2 ^ 127 := by norm_num
    rw [this]; exact hu_ge
  have hvu : v.w2.toNat < u.w1.toNat := by
    have a1 : v.w2.toNat < o.w1.toNat * 2 ^ (64 - L) := by
      rw [U192.w2_toNat, hv, Nat.div_lt_iff_lt_mul (Nat.two_pow_pos _)]; exact hv_lt
    have a2 : o.w1.toNat * 2 ^ (64 - L) ≤ u.w1.toNat := by
      rw [hu1, hu', Nat.le_div_iff_mul_le (Nat.two_pow_pos _)]; exact ho1'
    omega
  obtain ⟨q1, r1, e1, hq1, hr1⟩ := div64_spec v.w2 v.w1 u.w1 hvu
  rw [e1, ok_bind]
  dsimp only
  apply digit_ladder
  intro c a b hc
  apply hjp0
  rw [hc]
  have hdm := (Nat.div_mod_unique (a := v.w2.toNat * 2 ^ 64 + v.w1.toNat) (b := u.w1.toNat)
    (d := q1.toNat) (c := r1.toNat) (by omega)).mpr ⟨by rw [← hq1]; ring, hr1⟩
  rw [← hdm.1, ← hdm.2, Knuth.refine_eq _ _ _ _ hu1_ge u.w1.toNat_lt u.w0.toNat_lt v.w0.toNat_lt
    (by have := v.w1.toNat_lt; nlinarith)]
  have eV : (v.w2.toNat * 2 ^ 64 + v.w1.toNat) * 2 ^ 64 + v.w0.toNat = v.toNat := by
    simp only [U192.toNat]; ring
  have eU : u.w1.toNat * 2 ^ 64 + u.w0.toNat = u.toNat := by
    simp only [U192.toNat, hu2]; ring
  rw [eV, eU, hv, hu', Nat.mul_div_mul_right _ _ hpos]


end D192Div
