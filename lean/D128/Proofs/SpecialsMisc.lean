/-
  D128/Proofs/SpecialsMisc.lean — special operands of the quantising functions, of Min/Max, and the
  NaN payload (property C15, targets 5 and 7).

  Target 5
  * `Round_special`, `Ceil_special`, `Floor_special` : a special operand is returned bit for bit
  * `Round_zero`, `Ceil_zero`, `Floor_zero` : a finite zero gives `zero (Signbit d)`
  * `Round_spec`, `Ceil_spec`, `Floor_spec` : for special or zero d, every dp, mode byte, dp', m':
       ∃ r, f d dp … = .ok r ∧ 𝔳[r].same (Spec.quantize/ceilDp/floorDp … 𝔳[d])
  * wrappers `Round0_eq`, `Trunc0_eq`, `Ceil0_eq`, `Floor0_eq`
  * `Min_nan_left/right`, `Max_nan_left/right` (bit-exact), `Min_nan_spec`, `Max_nan_spec`
  Target 7
  * `shl8`, `shl16`, `Payload_nan_eq` : Payload (nan op l r) = .ok (op ||| l <<< 8 ||| r <<< 16)
  * `Payload_eq` : Payload d = if IsNaN d then .ok d.lo else the documented panic
  * `Payload_panics_iff`
  * `payload_of_same` : 𝔳[r].same (.nan n p) → Payload r = .ok p  (turns every "same as Spec.invalid…"
    statement into a statement about the decoded payload)
-/
import D128.Proofs.Specials
set_option autoImplicit false
set_option linter.unusedSimpArgs false
namespace Sp
local notation "𝔳[" d "]" => Spec.interp (Gen.Decimal.lo d) (Gen.Decimal.hi d)

/-! ## Round, Ceil, Floor -/

theorem Round_special (d : Gen.Decimal) (dp : Int64) (mode : UInt8)
    (h : Gen.Decimal.isSpecial d = true) : Gen.Decimal.Round d dp mode = .ok d := by
  unfold Gen.Decimal.Round
  simp only [h, if_true]; rfl

theorem Ceil_special (d : Gen.Decimal) (dp : Int64)
    (h : Gen.Decimal.isSpecial d = true) : Gen.Decimal.Ceil d dp = .ok d := by
  unfold Gen.Decimal.Ceil
  simp only [h, if_true]; rfl

theorem Floor_special (d : Gen.Decimal) (dp : Int64)
    (h : Gen.Decimal.isSpecial d = true) : Gen.Decimal.Floor d dp = .ok d := by
  unfold Gen.Decimal.Floor
  simp only [h, if_true]; rfl

theorem Round_zero (d : Gen.Decimal) (dp : Int64) (mode : UInt8)
    (h : Gen.Decimal.isSpecial d = false) (hz : Gen.Decimal.IsZero d = true) :
    Gen.Decimal.Round d dp mode = .ok (Gen.zero (Gen.Decimal.Signbit d)) := by
  have a5 : sigz d = true := by rw [sigz_eq, hz]
  unfold Gen.Decimal.Round
  simp only [h, a5, if_true, if_false, Bool.false_eq_true]; rfl

theorem Ceil_zero (d : Gen.Decimal) (dp : Int64)
    (h : Gen.Decimal.isSpecial d = false) (hz : Gen.Decimal.IsZero d = true) :
    Gen.Decimal.Ceil d dp = .ok (Gen.zero (Gen.Decimal.Signbit d)) := by
  have a5 : sigz d = true := by rw [sigz_eq, hz]
  unfold Gen.Decimal.Ceil
  simp only [h, a5, if_true, if_false, Bool.false_eq_true]; rfl

theorem Floor_zero (d : Gen.Decimal) (dp : Int64)
    (h : Gen.Decimal.isSpecial d = false) (hz : Gen.Decimal.IsZero d = true) :
    Gen.Decimal.Floor d dp = .ok (Gen.zero (Gen.Decimal.Signbit d)) := by
  have a5 : sigz d = true := by rw [sigz_eq, hz]
  unfold Gen.Decimal.Floor
  simp only [h, a5, if_true, if_false, Bool.false_eq_true]; rfl

set_option hygiene false in
macro "view1'" : tactic => `(tactic| (
  rcases view d with ⟨a1, a2, a3, a4, av⟩ | ⟨a1, a2, a3, a4, av⟩ | ⟨a1, a2, a3, a4, a5, ac, av⟩ | ⟨a1, a2, a3, a4, a5, ac, ab, av⟩))

theorem Round_spec (d : Gen.Decimal) (dp : Int64) (mode : UInt8) (dp' : Int) (m' : Spec.Mode)
    (h : Gen.Decimal.isSpecial d = true ∨ Gen.Decimal.IsZero d = true) :
    ∃ r, Gen.Decimal.Round d dp mode = .ok r ∧ (𝔳[r]).same (Spec.quantize dp' m' 𝔳[d]) = true := by
  view1'
  · exact ⟨_, Round_special d dp mode a3, by rw [av]; exact same_refl _⟩
  · exact ⟨_, Round_special d dp mode a3, by rw [av]; exact same_refl _⟩
  · refine ⟨_, Round_zero d dp mode a3 a4, ?_⟩
    rw [av, Enc.interp_zero]; simp only [Spec.quantize, beq_self_eq_true, if_true, same_zero]
  · exfalso; revert h; simp [a3, a4]

theorem Ceil_spec (d : Gen.Decimal) (dp : Int64) (dp' : Int)
    (h : Gen.Decimal.isSpecial d = true ∨ Gen.Decimal.IsZero d = true) :
    ∃ r, Gen.Decimal.Ceil d dp = .ok r ∧ (𝔳[r]).same (Spec.ceilDp dp' 𝔳[d]) = true := by
  view1'
  · exact ⟨_, Ceil_special d dp a3, by rw [av]; exact same_refl _⟩
  · exact ⟨_, Ceil_special d dp a3, by rw [av]; exact same_refl _⟩
  · refine ⟨_, Ceil_zero d dp a3 a4, ?_⟩
    rw [av, Enc.interp_zero]; simp only [Spec.ceilDp, beq_self_eq_true, if_true, same_zero]
  · exfalso; revert h; simp [a3, a4]

theorem Floor_spec (d : Gen.Decimal) (dp : Int64) (dp' : Int)
    (h : Gen.Decimal.isSpecial d = true ∨ Gen.Decimal.IsZero d = true) :
    ∃ r, Gen.Decimal.Floor d dp = .ok r ∧ (𝔳[r]).same (Spec.floorDp dp' 𝔳[d]) = true := by
  view1'
  · exact ⟨_, Floor_special d dp a3, by rw [av]; exact same_refl _⟩
  · exact ⟨_, Floor_special d dp a3, by rw [av]; exact same_refl _⟩
  · refine ⟨_, Floor_zero d dp a3 a4, ?_⟩
    rw [av, Enc.interp_zero]; simp only [Spec.floorDp, beq_self_eq_true, if_true, same_zero]
  · exfalso; revert h; simp [a3, a4]

/-- the package-level `Round`, `Trunc`, `Ceil`, `Floor` are the methods at dp = 0 -/
theorem Round0_eq (d : Gen.Decimal) : Gen.Round d = Gen.Decimal.Round d 0 1 := by
  unfold Gen.Round; exact bind_pure_eq _
theorem Trunc0_eq (d : Gen.Decimal) : Gen.Trunc d = Gen.Decimal.Round d 0 2 := by
  unfold Gen.Trunc; exact bind_pure_eq _
theorem Ceil0_eq (d : Gen.Decimal) : Gen.Ceil d = Gen.Decimal.Ceil d 0 := by
  unfold Gen.Ceil; exact bind_pure_eq _
theorem Floor0_eq (d : Gen.Decimal) : Gen.Floor d = Gen.Decimal.Floor d 0 := by
  unfold Gen.Floor; exact bind_pure_eq _

/-! ## Min, Max -/

theorem Min_nan_left (d o : Gen.Decimal) (h : Gen.Decimal.IsNaN d = true) : Gen.Min d o = .ok d := by
  unfold Gen.Min; simp only [h, if_true]; rfl
theorem Min_nan_right (d o : Gen.Decimal) (hd : Gen.Decimal.IsNaN d = false)
    (h : Gen.Decimal.IsNaN o = true) : Gen.Min d o = .ok o := by
  unfold Gen.Min; simp only [h, hd, if_true, if_false, Bool.false_eq_true]; rfl
theorem Max_nan_left (d o : Gen.Decimal) (h : Gen.Decimal.IsNaN d = true) : Gen.Max d o = .ok d := by
  unfold Gen.Max; simp only [h, if_true]; rfl
theorem Max_nan_right (d o : Gen.Decimal) (hd : Gen.Decimal.IsNaN d = false)
    (h : Gen.Decimal.IsNaN o = true) : Gen.Max d o = .ok o := by
  unfold Gen.Max; simp only [h, hd, if_true, if_false, Bool.false_eq_true]; rfl

theorem Min_nan_spec (d o : Gen.Decimal)
    (h : Gen.Decimal.IsNaN d = true ∨ Gen.Decimal.IsNaN o = true) :
    ∃ r, Gen.Min d o = .ok r ∧ (𝔳[r]).same (Spec.minVal 𝔳[d] 𝔳[o]) = true := by
  cases hd : Gen.Decimal.IsNaN d
  · have ho : Gen.Decimal.IsNaN o = true := by rcases h with h | h; (rw [hd] at h; cases h); exact h
    refine ⟨_, Min_nan_right d o hd ho, ?_⟩
    rw [view_nan o ho]
    have : (𝔳[d]).isNaN = false := by rw [Enc.interp_isNaN, hd]
    cases hv : 𝔳[d] <;> simp only [hv, Spec.Val.isNaN] at this <;> first | (cases this; done) | simp [Spec.minVal, Spec.Val.same]
  · refine ⟨_, Min_nan_left d o hd, ?_⟩
    rw [view_nan d hd]; simp [Spec.minVal, Spec.Val.same]

theorem Max_nan_spec (d o : Gen.Decimal)
    (h : Gen.Decimal.IsNaN d = true ∨ Gen.Decimal.IsNaN o = true) :
    ∃ r, Gen.Max d o = .ok r ∧ (𝔳[r]).same (Spec.maxVal 𝔳[d] 𝔳[o]) = true := by
  cases hd : Gen.Decimal.IsNaN d
  · have ho : Gen.Decimal.IsNaN o = true := by rcases h with h | h; (rw [hd] at h; cases h); exact h
    refine ⟨_, Max_nan_right d o hd ho, ?_⟩
    rw [view_nan o ho]
    have : (𝔳[d]).isNaN = false := by rw [Enc.interp_isNaN, hd]
    cases hv : 𝔳[d] <;> simp only [hv, Spec.Val.isNaN] at this <;> first | (cases this; done) | simp [Spec.maxVal, Spec.Val.same]
  · refine ⟨_, Max_nan_left d o hd, ?_⟩
    rw [view_nan d hd]; simp [Spec.maxVal, Spec.Val.same]

/-! ## Payload -/

theorem shl8 (l : UInt64) : Go.shl l (8 : Int) = l <<< 8 := rfl
theorem shl16 (r : UInt64) : Go.shl r (16 : Int) = r <<< 16 := rfl

theorem Payload_nan_eq (op l r : UInt64) :
    Gen.Decimal.Payload_ (Gen.nan op l r) = .ok (op ||| l <<< 8 ||| r <<< 16) := by
  rw [Enc.Payload_nan, shl8, shl16]

theorem Payload_eq (d : Gen.Decimal) :
    Gen.Decimal.Payload_ d =
      if Gen.Decimal.IsNaN d = true then .ok d.lo
      else .error (.explicit "Decimal(!NaN).Payload()") := by
  unfold Gen.Decimal.Payload_
  cases Gen.Decimal.IsNaN d <;> rfl

theorem Payload_panics_iff (d : Gen.Decimal) :
    (∃ e, Gen.Decimal.Payload_ d = .error e) ↔ Gen.Decimal.IsNaN d = false := by
  rw [Payload_eq]
  cases Gen.Decimal.IsNaN d <;> simp

/-- if the value of `r` is the NaN with payload `p`, then `Payload` returns `p` -/
theorem payload_of_same (r : Gen.Decimal) (n : Bool) (p : UInt64)
    (h : (𝔳[r]).same (.nan n p) = true) : Gen.Decimal.Payload_ r = .ok p := by
  have hn : Gen.Decimal.IsNaN r = true := by
    rw [← Enc.interp_isNaN]
    cases hv : 𝔳[r] <;> simp only [hv, Spec.Val.same, Spec.Val.isNaN] at h ⊢ <;> cases h
  rw [view_nan r hn] at h
  simp only [Spec.Val.same, Bool.and_eq_true, beq_iff_eq] at h
  rw [Payload_eq, if_pos hn, h.2]

end Sp
