/-
  D128/Proofs/ExpAccHornerLoop.lean — the common head of `epow`/`epowm1` (`ExpAcc.hornerK`) verified once,
  with the size information `HX` in the loop invariant.

  * `hornerK_triple` : for `EpowPre d l10` and ANY postcondition `Q` (exception part included): if the
        continuation satisfies `Q` on all `d2 res tr` with `HOut (epowX d l10) t d2 res tr`, so does
        `hornerK d l10 t k`  (no panic, termination of the scaling loops and of the Horner loop)
  * `triple_of_self`, `hornerK_eq` : hence `hornerK d l10 t k = k d2 res tr (epowO d l10)` for some
        `d2 res tr` with `HOut …` — an EQUATION, valid whatever `k` does.
-/
import D128.Proofs.ExpAccHornerMath
set_option autoImplicit false
set_option maxRecDepth 8192
set_option exponentiation.threshold 512
set_option linter.unusedVariables false
open Std.Do D128.Proofs.WordsWide
set_option mvcgen.warning false
namespace ExpAcc
open Gen D192

theorem hornerK_triple {α : Type} (d : decomposed192) (l10 : Int16) (t : Int8)
    (k : decomposed192 → decomposed192 → Int8 → Int16 → Go.GoM α)
    (Q : PostCond α (.except Go.Panic .pure))
    (hk : ∀ d2 res tr, HOut (epowX d l10) t d2 res tr →
      ⦃⌜True⌝⦄ k d2 res tr (epowO d l10) ⦃Q⦄) :
    ⦃⌜EpowPre d l10⌝⦄ hornerK d l10 t k ⦃Q⦄ := by
  mvcgen [hornerK, mul_q3spec, add1_q3spec, -D192.mul_q2spec, -D192.add1_qspec]
  case inv1 | inv3 | inv7 | inv9 => exact fun st => ⟨gap st.sig.toNat⟩
  case inv2 => exact ⇓ x => match x with
    | .inl st => ⌜ScUp d.sig.toNat d.exp st⌝
    | .inr st => ⌜ScUp d.sig.toNat d.exp st⌝
  case inv4 => exact ⇓ x => match x with
    | .inl st => ⌜ScUp d.sig.toNat d.exp st⌝
    | .inr st => ⌜ScUp d.sig.toNat d.exp st ∧ LIM ≤ st.sig.toNat⌝
  case inv8 => exact ⇓ x => match x with
    | .inl st => ⌜ScUp d.sig.toNat (-l10 - 1) st⌝
    | .inr st => ⌜ScUp d.sig.toNat (-l10 - 1) st⌝
  case inv10 => exact ⇓ x => match x with
    | .inl st => ⌜ScUp d.sig.toNat (-l10 - 1) st⌝
    | .inr st => ⌜ScUp d.sig.toNat (-l10 - 1) st ∧ LIM ≤ st.sig.toNat⌝
  case inv5 | inv11 => exact fun st => ⟨st.2.2.toNat⟩
  case inv6 | inv12 =>
    rename_i d2 _ _ _ _ _
    exact ⇓ x => match x with
    | .inl st => ⌜HInv (val d2) d2.exp.toInt t st ∧ HX st⌝
    | .inr st => ⌜(HInv (val d2) d2.exp.toInt t st ∧ HX st) ∧ st.2.2.toNat ≤ 1⌝
  all_goals (simp +zetaDelta at *)
  case vc1 =>
    rename_i hw hinv
    have hpre : EpowPre d l10 := by assumption
    have hlt : d.exp + l10 + 1 < 0 := by assumption
    exact vc_up _ _ 10000 4 (by decide) (by norm_num) (hpre.neg hlt).1 (fit4 _ hw) hinv
  case vc17 =>
    rename_i hw hinv
    have hpre : EpowPre d l10 := by assumption
    have hge : 0 ≤ d.exp + l10 + 1 := by assumption
    exact vc_up _ _ 10000 4 (by decide) (by norm_num) (hpre.pos hge).1 (fit4 _ hw) hinv
  case vc4 =>
    rename_i hw hinv
    have hpre : EpowPre d l10 := by assumption
    have hlt : d.exp + l10 + 1 < 0 := by assumption
    exact vc_up _ _ 10 1 (by decide) (by norm_num) (hpre.neg hlt).1 (fit1 _ hw) hinv
  case vc20 =>
    rename_i hw hinv
    have hpre : EpowPre d l10 := by assumption
    have hge : 0 ≤ d.exp + l10 + 1 := by assumption
    exact vc_up _ _ 10 1 (by decide) (by norm_num) (hpre.pos hge).1 (fit1 _ hw) hinv
  case vc2 | vc18 => rename_i hinv; exact hinv.2
  case vc3 => exact ScUp.refl d
  case vc19 => exact ScUp.refl ⟨d.sig, -l10 - 1⟩
  case vc5 | vc21 =>
    rename_i hw hinv
    exact ⟨hinv.2, ge_LIM_of_not_le _ (by rw [UInt64.not_le]; exact hw)⟩
  case vc6 | vc22 => rename_i h _; exact h
  case vc7 =>
    have hpre : EpowPre d l10 := by assumption
    have hlt : d.exp + l10 + 1 < 0 := by assumption
    obtain ⟨b1, b2, b3, -, -⟩ := hpre.neg hlt
    exact w_quo40 (by assumption) b1 b2 b3
  case vc23 =>
    have hpre : EpowPre d l10 := by assumption
    have hge : 0 ≤ d.exp + l10 + 1 := by assumption
    obtain ⟨b1, b2, b3, -, -⟩ := hpre.pos hge
    exact w_quo40 (by assumption) b1 b2 b3
  case vc8 =>
    have hpre : EpowPre d l10 := by assumption
    have hlt : d.exp + l10 + 1 < 0 := by assumption
    obtain ⟨b1, b2, b3, -, -⟩ := hpre.neg hlt
    exact w_quoi (by assumption) b1 b2 b3 (by assumption)
  case vc24 =>
    have hpre : EpowPre d l10 := by assumption
    have hge : 0 ≤ d.exp + l10 + 1 := by assumption
    obtain ⟨b1, b2, b3, -, -⟩ := hpre.pos hge
    exact w_quoi (by assumption) b1 b2 b3 (by assumption)
  case vc9 =>
    rename_i hinv
    have hpre : EpowPre d l10 := by assumption
    have hlt : d.exp + l10 + 1 < 0 := by assumption
    obtain ⟨b1, b2, b3, -, -⟩ := hpre.neg hlt
    exact w_mulpre (by assumption) b1 b2 b3 hinv.2.1 (by assumption)
  case vc25 =>
    rename_i hinv
    have hpre : EpowPre d l10 := by assumption
    have hge : 0 ≤ d.exp + l10 + 1 := by assumption
    obtain ⟨b1, b2, b3, -, -⟩ := hpre.pos hge
    exact w_mulpre (by assumption) b1 b2 b3 hinv.2.1 (by assumption)
  case vc10 =>
    rename_i hi hinv
    have hpre : EpowPre d l10 := by assumption
    have hlt : d.exp + l10 + 1 < 0 := by assumption
    obtain ⟨b1, b2, b3, -, -⟩ := hpre.neg hlt
    exact x_step (by assumption) b1 b2 b3 hinv hi (by assumption) (by assumption) (by assumption)
  case vc26 =>
    rename_i hi hinv
    have hpre : EpowPre d l10 := by assumption
    have hge : 0 ≤ d.exp + l10 + 1 := by assumption
    obtain ⟨b1, b2, b3, -, -⟩ := hpre.pos hge
    exact x_step (by assumption) b1 b2 b3 hinv hi (by assumption) (by assumption) (by assumption)
  case vc11 | vc27 => rename_i hi hinv; exact x_exit hinv hi
  case vc12 =>
    have hpre : EpowPre d l10 := by assumption
    have hlt : d.exp + l10 + 1 < 0 := by assumption
    obtain ⟨b1, b2, b3, -, -⟩ := hpre.neg hlt
    exact x_init (by assumption) b1 b2 b3 (by assumption)
  case vc28 =>
    have hpre : EpowPre d l10 := by assumption
    have hge : 0 ≤ d.exp + l10 + 1 := by assumption
    obtain ⟨b1, b2, b3, -, -⟩ := hpre.pos hge
    exact x_init (by assumption) b1 b2 b3 (by assumption)
  case vc13 =>
    intro i1 i2 i3
    have hpre : EpowPre d l10 := by assumption
    have hlt : d.exp + l10 + 1 < 0 := by assumption
    obtain ⟨b1, b2, b3, b4, b5⟩ := hpre.neg hlt
    have ho := x_out (by assumption) b1 b2 b3 ⟨⟨i1, i2⟩, i3⟩
    rw [← b4] at ho
    have := hk _ _ _ ho
    rw [b5] at this
    simpa [Triple] using this
  case vc29 =>
    intro i1 i2 i3
    have hpre : EpowPre d l10 := by assumption
    have hge : 0 ≤ d.exp + l10 + 1 := by assumption
    obtain ⟨b1, b2, b3, b4, b5, b6, b7⟩ := hpre.pos hge
    have ho := x_out (by assumption) b1 b2 b3 ⟨⟨i1, i2⟩, i3⟩
    rw [← b4] at ho
    have := hk _ _ _ ho
    rw [b5] at this
    simpa [Triple] using this

/-- any `GoM` computation satisfies the triple whose postcondition describes it (panics included) -/
theorem triple_of_self {α : Type} (x : Go.GoM α) (P : Except Go.Panic α → Prop) (h : P x) :
    ⦃⌜True⌝⦄ x ⦃post⟨fun a => ⌜P (.ok a)⌝, fun e => ⌜P (.error e)⌝⟩⦄ := by
  cases x with
  | ok a =>
    show ⦃⌜True⌝⦄ (pure a : Go.GoM α) ⦃post⟨fun a => ⌜P (.ok a)⌝, fun e => ⌜P (.error e)⌝⟩⦄
    mvcgen
  | error e =>
    show ⦃⌜True⌝⦄ (MonadExceptOf.throw e : Except Go.Panic α)
      ⦃post⟨fun a => ⌜P (.ok a)⌝, fun e => ⌜P (.error e)⌝⟩⦄
    simp [Triple.iff, h]

/-- the head as an equation: `hornerK d l10 t k` IS the continuation applied to values satisfying
`HOut` (whatever `k` does, panics included). -/
theorem hornerK_eq {α : Type} (d : decomposed192) (l10 : Int16) (t : Int8)
    (k : decomposed192 → decomposed192 → Int8 → Int16 → Go.GoM α) (h : EpowPre d l10) :
    ∃ d2 res tr, HOut (epowX d l10) t d2 res tr ∧
      hornerK d l10 t k = k d2 res tr (epowO d l10) := by
  let P : Except Go.Panic α → Prop := fun x =>
    ∃ d2 res tr, HOut (epowX d l10) t d2 res tr ∧ x = k d2 res tr (epowO d l10)
  have h1 := hornerK_triple d l10 t k (post⟨fun a => ⌜P (.ok a)⌝, fun e => ⌜P (.error e)⌝⟩)
    (fun d2 res tr ho => triple_of_self _ P ⟨d2, res, tr, ho, rfl⟩)
  exact Except.of_wp_eq rfl P (by simpa [Triple, h] using h1)

end ExpAcc
