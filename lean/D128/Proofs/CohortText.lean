/-
  D128/Proofs/CohortText.lean — the text-producing entry points of /repo/format.go are functions of the VALUE of
  their Decimal operand: two encodings `d ~ d'` of one value (`Spec.Val.same`) give the same outcome in
  `Go.GoM` — the same bytes, or the same (unmodelled-arm) error (property C19, first clause, "formatting").
  Everything follows from the exact specifications in `D128/Proofs/Layout*.lean`, `FmtFormat*.lean` (outputs are
  `Spec.fmtSpec` / `Spec.shortestG` of the sign and of `Spec.sliceOf c e`) and `Cohort.sliceOf_congr` (the digit
  slice depends on `c·10^e` only).

  * `sign_congr`, `special_congr`  : sign bit, `isSpecial`, `IsNaN` of `same` patterns agree
  * `slice_congr`                  : finite `d ~ d'`: `sliceOf (coefOf d) (expoOf d) = sliceOf (coefOf d') (expoOf d')`
  * `format_congr`                 : `Decimal.format d buf a = Decimal.format d' buf a` (finite; every verb byte, also the
                                     `v` arm and the unmodelled arm)
  * `specialValue_congr`           : the NaN / ±Inf text (`sameNum`: any two NaNs print alike)
  * `decimal_Append_congr`         : `Decimal.Append d buf spec = Decimal.Append d' buf spec`, EVERY spec byte string
                                     (operands related by `sameNum`)
  * `decimal_Format_congr`         : `Decimal.Format d st verb = Decimal.Format d' st verb` (fmt.Formatter), every verb
  * `Append_other_any`             : `Append(buf, d, fmt, prec)` with a verb none of `e E f g G`, any precision
-/
import D128.Proofs.FmtFormatSprintf
import D128.Proofs.LayoutApi
import D128.Proofs.CohortDigits
import D128.Proofs.CohortFloat
set_option autoImplicit false

namespace Cohort
open Gen Ly Dg

local notation "𝔳[" d "]" => Spec.interp (Gen.Decimal.lo d) (Gen.Decimal.hi d)

theorem sign_congr (d d' : Decimal) (h : (𝔳[d]).same 𝔳[d'] = true) :
    Decimal.Signbit d = Decimal.Signbit d' := by
  rw [← Enc.interp_neg, ← Enc.interp_neg, neg_congr h]

theorem special_congr (d d' : Decimal) (h : (𝔳[d]).same 𝔳[d'] = true) :
    Decimal.isSpecial d = Decimal.isSpecial d' ∧ Decimal.IsNaN d = Decimal.IsNaN d' := by
  obtain ⟨a, b, _, _⟩ := class_congr d d' (sameNum_of_same h)
  exact ⟨a, b⟩

/-- the digit slice of two finite encodings of one value -/
theorem slice_congr (d d' : Decimal) (h : (𝔳[d]).same 𝔳[d'] = true)
    (hfin : Decimal.isSpecial d = false) (hfin' : Decimal.isSpecial d' = false) :
    Spec.sliceOf (coefOf d) (expoOf d) = Spec.sliceOf (coefOf d') (expoOf d') := by
  rw [Enc.interp_decompose d hfin, Enc.interp_decompose d' hfin'] at h
  exact sliceOf_same h

/-- **`Decimal.format` depends on the value only** (finite operand; arguments as `parseFormat` or `Format`
    produce them): the six float verbs, the verb `v`, and every other verb byte (both calls end in the unmodelled
    `fmt.Appendf` arm). -/
theorem format_congr (d d' : Decimal) (h : (𝔳[d]).same 𝔳[d'] = true)
    (hfin : Decimal.isSpecial d = false) (buf : Go.Bytes) (a : formatArgs)
    (hprec : a.prec.toInt < 2 ^ 56) (hw0 : 0 ≤ a.wid.toInt) (hw1 : a.wid.toInt < 2 ^ 62)
    (hprz : a.padRight = true → a.padZero = false) (hb : buf.size < 2 ^ 61) :
    Decimal.format d buf a = Decimal.format d' buf a := by
  have hfin' : Decimal.isSpecial d' = false := by rw [← (special_congr d d' h).1]; exact hfin
  have hsg := sign_congr d d' h
  have hsl := slice_congr d d' h hfin hfin'
  by_cases hk : knownVerb a.verb
  · have six : (a.verb = 101 ∨ a.verb = 69 ∨ a.verb = 102 ∨ a.verb = 70 ∨ a.verb = 103 ∨
        a.verb = 71) → Decimal.format d buf a = Decimal.format d' buf a := by
      intro hv
      obtain ⟨r1, hr1, hs1⟩ := format_spec d buf a hfin hv hprec a.wid.toInt.toNat (by omega)
        (by omega) hb hprz
      obtain ⟨r2, hr2, hs2⟩ := format_spec d' buf a hfin' hv hprec a.wid.toInt.toNat (by omega)
        (by omega) hb hprz
      have : r1 = r2 := bstr_inj (by rw [hs1, hs2, hsg, hsl])
      rw [hr1, hr2, this]
    rcases hk with h1 | h1 | h1 | h1 | h1 | h1 | h1
    · exact six (Or.inl h1)
    · exact six (Or.inr (Or.inl h1))
    · exact six (Or.inr (Or.inr (Or.inl h1)))
    · exact six (Or.inr (Or.inr (Or.inr (Or.inl h1))))
    · exact six (Or.inr (Or.inr (Or.inr (Or.inr (Or.inl h1)))))
    · exact six (Or.inr (Or.inr (Or.inr (Or.inr (Or.inr h1)))))
    · obtain ⟨r0, hr0, hwf, hneg, hs0, hx0, hdp, hz⟩ := digits_fin d (default : digits) hfin
      obtain ⟨r0', hr0', hwf', hneg', hs0', hx0', hdp', hz'⟩ := digits_fin d' (default : digits) hfin'
      obtain ⟨r1, hr1, hs1, _⟩ := formatV_shortest r0 ⟨hwf, hx0, hdp, hz⟩ buf a (by omega)
      obtain ⟨r2, hr2, hs2, _⟩ := formatV_shortest r0' ⟨hwf', hx0', hdp', hz'⟩ buf a (by omega)
      have : r1 = r2 := bstr_inj (by
        rw [hs1, hs2, hneg, hneg', hs0, hs0', hsg]
        show _ ++ Spec.shortestG _ (Spec.sliceOf (coefOf d) (expoOf d)) 'e' =
          _ ++ Spec.shortestG _ (Spec.sliceOf (coefOf d') (expoOf d')) 'e'
        rw [hsl])
      rw [format_V d buf a h1, format_V d' buf a h1, hr0, hr0']
      show formatV r0 buf a = formatV r0' buf a
      rw [hr1, hr2, this]
  · have hne : a.verb ≠ 101 ∧ a.verb ≠ 69 ∧ a.verb ≠ 102 ∧ a.verb ≠ 70 ∧ a.verb ≠ 103 ∧
        a.verb ≠ 71 ∧ a.verb ≠ 118 :=
      ⟨fun e => hk (Or.inl e), fun e => hk (Or.inr (Or.inl e)),
        fun e => hk (Or.inr (Or.inr (Or.inl e))), fun e => hk (Or.inr (Or.inr (Or.inr (Or.inl e)))),
        fun e => hk (Or.inr (Or.inr (Or.inr (Or.inr (Or.inl e))))),
        fun e => hk (Or.inr (Or.inr (Or.inr (Or.inr (Or.inr (Or.inl e)))))),
        fun e => hk (Or.inr (Or.inr (Or.inr (Or.inr (Or.inr (Or.inr e))))))⟩
    obtain ⟨r0, hr0, _⟩ := digits_fin d (default : digits) hfin
    obtain ⟨t, ht⟩ := String_ok d hfin
    obtain ⟨r0', hr0', _⟩ := digits_fin d' (default : digits) hfin'
    obtain ⟨t', ht'⟩ := String_ok d' hfin'
    rw [format_other d buf a hne, format_other d' buf a hne, hr0, ht, hr0', ht']
    rfl

/-- the NaN / ±Inf text: the sign of a NaN is not printed, so any two NaNs give the same text -/
theorem specialValue_congr (d d' : Decimal) (h : (𝔳[d]).sameNum 𝔳[d'] = true) (ps pds : Bool) :
    specialValue d ps pds = specialValue d' ps pds := by
  obtain ⟨_, b, _, c⟩ := class_congr d d' h
  unfold specialValue
  rw [← b]
  cases hn : Decimal.IsNaN d
  · rw [← c hn]
  · rfl

/-- a finite operand related by `sameNum` is related by `same` -/
theorem same_of_sameNum_fin (d d' : Decimal) (h : (𝔳[d]).sameNum 𝔳[d'] = true)
    (hfin : Decimal.isSpecial d = false) : (𝔳[d]).same 𝔳[d'] = true := by
  apply same_of_sameNum h
  rw [Enc.interp_isNaN]
  have := Enc.isSpecial_iff d
  rw [hfin] at this
  cases hn : Decimal.IsNaN d
  · rfl
  · rw [hn] at this; simp at this

/-- **`Decimal.Append(buf, spec)` depends on the value only**: every bit pattern pair `d ~ d'`, every buffer below
    `2^61` bytes, EVERY spec byte string (no verb, unknown verb, any flags / width / precision numerals). -/
theorem decimal_Append_congr (d d' : Decimal) (h : (𝔳[d]).sameNum 𝔳[d'] = true) (buf spec : Go.Bytes)
    (hs : spec.size < 2 ^ 63) (hb : buf.size < 2 ^ 61) :
    Decimal.Append d buf spec = Decimal.Append d' buf spec := by
  obtain ⟨hw0, hw1, hprz⟩ := argsOK_parseSpec spec.toList
  have hprec : (parseSpec spec.toList).prec.toInt < 2 ^ 56 := by
    rcases precOK_parseSpec spec.toList with h | h <;> omega
  rw [append_unfold d buf spec hs, append_unfold d' buf spec hs]
  generalize parseSpec spec.toList = a at *
  simp only
  rw [← (class_congr d d' h).1]
  by_cases hsp : Decimal.isSpecial d = true
  · have key : ∀ (w : Int64) (ps pds pr : Bool),
        Decimal.appendSpecial d buf w ps pds pr = Decimal.appendSpecial d' buf w ps pds pr := by
      intro w ps pds pr
      rw [appendSpecial_unfold, appendSpecial_unfold, specialValue_congr d d' h]
    simp only [hsp, if_true, key]
  · have hfin : Decimal.isSpecial d = false := by simpa using hsp
    simp only [hfin, Bool.false_eq_true, if_false]
    rw [format_congr d d' (same_of_sameNum_fin d d' h hfin) hfin buf a hprec hw0 (by omega) hprz hb]

/-- **`Decimal.Format` (fmt.Formatter) depends on the value only**: every bit pattern pair `d ~ d'`, every verb
    (negative values and runes ≥ 128 included), every state whose width, if present, is in `[0, 2^62)` and whose
    precision, if present, is below `2^56` (package fmt hands over at most `10^6`). -/
theorem decimal_Format_congr (d d' : Decimal) (h : (𝔳[d]).sameNum 𝔳[d'] = true) (st : Go.FmtState)
    (verb : Int32)
    (hwid : ∀ w, st.wid = some w → 0 ≤ w.toInt ∧ w.toInt < 2 ^ 62)
    (hprec : ∀ p, st.prec = some p → p.toInt < 2 ^ 56) :
    Decimal.Format d st verb = Decimal.Format d' st verb := by
  rw [Format_unfold, Format_unfold, ← (class_congr d d' h).1]
  by_cases hsp : Decimal.isSpecial d = true
  · have key : ∀ (w : Int64) (ps pds pr : Bool),
        Decimal.writeSpecial d st w ps pds pr = Decimal.writeSpecial d' st w ps pds pr := by
      intro w ps pds pr
      rw [writeSpecial_unfold, writeSpecial_unfold, specialValue_congr d d' h]
    simp only [hsp, if_true, key]
  · have hfin : Decimal.isSpecial d = false := by simpa using hsp
    have hfin' : Decimal.isSpecial d' = false := by rw [← (class_congr d d' h).1]; exact hfin
    simp only [hfin, Bool.false_eq_true, if_false]
    obtain ⟨hw0, hw1⟩ := widOf_bounds st 0 (2 ^ 62) (by decide) (by decide) hwid
    obtain ⟨t, ht⟩ := String_ok d hfin
    obtain ⟨t', ht'⟩ := String_ok d' hfin'
    rw [format_congr d d' (same_of_sameNum_fin d d' h hfin) hfin #[] (argsOf st verb) (precOfSt_lt st hprec) hw0 hw1
      (by
        show st.minus = true → (st.zero && !st.minus) = false
        intro h; rw [h]; simp) (by decide), ht, ht']
    rfl

/-- `Append(buf, d, fmt, prec)` (the API function) with a verb that is none of `e E f g G` (also `'F'`, as in
    strconv) appends `%` and the verb — for EVERY precision -/
theorem Append_other_any (buf : Go.Bytes) (d : Decimal) (fmt : UInt8) (prec : Int64)
    (hs : Decimal.isSpecial d = false)
    (hv : fmt ≠ 101 ∧ fmt ≠ 69 ∧ fmt ≠ 102 ∧ fmt ≠ 103 ∧ fmt ≠ 71) :
    Gen.Append buf d fmt prec = .ok ((buf.push 37).push fmt) := by
  obtain ⟨r, hr, _⟩ := Dg.digits_ok d default
  obtain ⟨h1, h2, h3, h4, h5⟩ := hv
  unfold Gen.Append
  simp [hs, h1, h2, h3, h4, h5, hr]

end Cohort
