/-
  D128/Proofs/D192AddCode.lean — stage decomposition of the generated `Gen.decomposed192.add`
  (Go: /repo/decomposed.go `func (d decomposed192) add`).

  The generated function is one long `do` block with 14 `while` loops inside an if / else-if; `mvcgen`
  on the whole function duplicates every continuation after an `if` (32 loop instances).  We name the
  continuations; each is literally a sub-term of the generated body and the staged form is tied to the
  generated definition by `add_eq`, proved by `rfl` (definitional unfolding).  These are NOT models that
  anything is proved "instead of"; if the generated code changes, `add_eq` breaks.

  * `addTail d o trunc exp`      : `sig256 := d.sig.add(o.sig); exp = d.exp;` two normalising loops; return
  * `addNegDiv d o trunc exp`    : branch `exp < 0`, the two loops dividing `d.sig`, then `addTail`
  * `addNegBranch d o trunc exp` : branch `exp < 0`: three loops scaling `o.sig`, `if exp < -57`, `addNegDiv`
  * `addPosDiv`, `addPosBranch`  : the same for the branch `exp > 0`
  * `add_eq` : `Gen.decomposed192.add d o t = if … then addNegBranch … else if … then addPosBranch … else addTail …`

  NB the order of the `let mut` declarations matters (it fixes the order of the loop-state tuples).
-/
import D128.Gen.Decomposed
set_option autoImplicit false
set_option linter.unusedVariables false
set_option maxRecDepth 4096

namespace D192
open Gen

def addTail (d o : decomposed192) (trunc : Int8) (exp : Int16) : Go.GoM (decomposed192 × Int8) := do
  let mut trunc : Int8 := trunc
  let mut exp : Int16 := exp
  let mut sig256 : U256 := (U192.add d.sig o.sig)
  exp := d.exp
  while (decide (sig256.w3 ≥ (65535 : UInt64))) do
    let mut rem_4 : UInt64 := (0 : UInt64)
    let (r_9, r_10) ← U256.div10000 sig256
    sig256 := r_9
    rem_4 := r_10
    exp := (exp + (4 : Int16))
    if (rem_4 != (0 : UInt64)) then
      trunc := (1 : Int8)
  while (decide (sig256.w3 > (0 : UInt64))) do
    let mut rem_5 : UInt64 := (0 : UInt64)
    let (r_11, r_12) ← U256.div10 sig256
    sig256 := r_11
    rem_5 := r_12
    exp := (exp + (1 : Int16))
    if (rem_5 != (0 : UInt64)) then
      trunc := (1 : Int8)
  return (({ (default : decomposed192) with sig := (U192.mk sig256.w0 sig256.w1 sig256.w2), exp := exp } : decomposed192), trunc)

def addNegDiv (d o : decomposed192) (trunc : Int8) (exp : Int16) : Go.GoM (decomposed192 × Int8) := do
  let mut d : decomposed192 := d
  let mut trunc : Int8 := trunc
  let mut exp : Int16 := exp
  while (decide (exp ≤ (-4 : Int16))) do
    let mut rem : UInt64 := (0 : UInt64)
    let (r_1, r_2) ← U192.div10000 d.sig
    d := { d with sig := r_1 }
    rem := r_2
    if (rem != (0 : UInt64)) then
      trunc := (1 : Int8)
    if (((d.sig.w0 ||| d.sig.w1) ||| d.sig.w2) == (0 : UInt64)) then
      d := { d with exp := o.exp }
      exp := (0 : Int16)
    else
      d := { d with exp := (d.exp + (4 : Int16)) }
      exp := (exp + (4 : Int16))
  while (decide (exp < (0 : Int16))) do
    let mut rem_1 : UInt64 := (0 : UInt64)
    let (r_3, r_4) ← U192.div10 d.sig
    d := { d with sig := r_3 }
    rem_1 := r_4
    d := { d with exp := (d.exp + (1 : Int16)) }
    exp := (exp + (1 : Int16))
    if (rem_1 != (0 : UInt64)) then
      trunc := (1 : Int8)
  addTail d o trunc exp

def addNegBranch (d o : decomposed192) (trunc : Int8) (exp : Int16) : Go.GoM (decomposed192 × Int8) := do
  let mut d : decomposed192 := d
  let mut o : decomposed192 := o
  let mut trunc : Int8 := trunc
  let mut exp : Int16 := exp
  while ((decide (exp ≤ (-19 : Int16))) && (o.sig.w2 == (0 : UInt64))) do
    o := { o with sig := (U192.mul64 o.sig (10000000000000000000 : UInt64)) }
    o := { o with exp := (o.exp - (19 : Int16)) }
    exp := (exp + (19 : Int16))
  while ((decide (exp ≤ (-4 : Int16))) && (decide (o.sig.w2 ≤ (703687441776639 : UInt64)))) do
    o := { o with sig := (U192.mul64 o.sig (10000 : UInt64)) }
    o := { o with exp := (o.exp - (4 : Int16)) }
    exp := (exp + (4 : Int16))
  while ((decide (exp < (0 : Int16))) && (decide (o.sig.w2 ≤ (1801439850948198399 : UInt64)))) do
    o := { o with sig := (U192.mul64 o.sig (10 : UInt64)) }
    o := { o with exp := (o.exp - (1 : Int16)) }
    exp := (exp + (1 : Int16))
  if (decide (exp < (-57 : Int16))) then
    if (((d.sig.w0 ||| d.sig.w1) ||| d.sig.w2) != (0 : UInt64)) then
      d := { d with sig := (default : U192) }
      trunc := (1 : Int8)
    d := { d with exp := o.exp }
    exp := (0 : Int16)
  addNegDiv d o trunc exp

def addPosDiv (d o : decomposed192) (trunc : Int8) (exp : Int16) : Go.GoM (decomposed192 × Int8) := do
  let mut o : decomposed192 := o
  let mut trunc : Int8 := trunc
  let mut exp : Int16 := exp
  while (decide (exp ≥ (4 : Int16))) do
    let mut rem_2 : UInt64 := (0 : UInt64)
    let (r_5, r_6) ← U192.div10000 o.sig
    o := { o with sig := r_5 }
    rem_2 := r_6
    if (rem_2 != (0 : UInt64)) then
      trunc := (-1 : Int8)
    if (((o.sig.w0 ||| o.sig.w1) ||| o.sig.w2) == (0 : UInt64)) then
      exp := (0 : Int16)
    else
      exp := (exp - (4 : Int16))
  while (decide (exp > (0 : Int16))) do
    let mut rem_3 : UInt64 := (0 : UInt64)
    let (r_7, r_8) ← U192.div10 o.sig
    o := { o with sig := r_7 }
    rem_3 := r_8
    exp := (exp - (1 : Int16))
    if (rem_3 != (0 : UInt64)) then
      trunc := (1 : Int8)
  addTail d o trunc exp

def addPosBranch (d o : decomposed192) (trunc : Int8) (exp : Int16) : Go.GoM (decomposed192 × Int8) := do
  let mut d : decomposed192 := d
  let mut o : decomposed192 := o
  let mut trunc : Int8 := trunc
  let mut exp : Int16 := exp
  while ((decide (exp ≥ (19 : Int16))) && (d.sig.w2 == (0 : UInt64))) do
    d := { d with sig := (U192.mul64 d.sig (10000000000000000000 : UInt64)) }
    d := { d with exp := (d.exp - (19 : Int16)) }
    exp := (exp - (19 : Int16))
  while ((decide (exp ≥ (4 : Int16))) && (decide (d.sig.w2 ≤ (703687441776639 : UInt64)))) do
    d := { d with sig := (U192.mul64 d.sig (10000 : UInt64)) }
    d := { d with exp := (d.exp - (4 : Int16)) }
    exp := (exp - (4 : Int16))
  while ((decide (exp > (0 : Int16))) && (decide (d.sig.w2 ≤ (1801439850948198399 : UInt64)))) do
    d := { d with sig := (U192.mul64 d.sig (10 : UInt64)) }
    d := { d with exp := (d.exp - (1 : Int16)) }
    exp := (exp - (1 : Int16))
  if (decide (exp > (57 : Int16))) then
    if (((o.sig.w0 ||| o.sig.w1) ||| o.sig.w2) != (0 : UInt64)) then
      o := { o with sig := (default : U192) }
      trunc := (-1 : Int8)
    exp := (0 : Int16)
  addPosDiv d o trunc exp

theorem add_eq (d o : decomposed192) (t : Int8) :
    Gen.decomposed192.add d o t =
      if (decide (d.exp - o.exp < (0 : Int16))) then addNegBranch d o t (d.exp - o.exp)
      else if (decide (d.exp - o.exp > (0 : Int16))) then addPosBranch d o t (d.exp - o.exp)
      else addTail d o t (d.exp - o.exp) := by
  rfl

end D192
