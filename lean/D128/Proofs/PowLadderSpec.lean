/-
  D128/Proofs/PowLadderSpec.lean — property C18: what `Spec.powSpecial` (its sub-term `psFin`) prescribes
  for a power-of-ten base, compared with the exact value `Spec.flushOrRoundS m neg 1 T` that the code is
  proved to return (D128/Proofs/PowLadderFinish.lean).  No generated code here.

  Provided (namespace `PowPf`):
  * `member_pow10`, `not_member_pow10` : 10^T is a member of the format iff Emin ≤ T ≤ Emax + 34 (stated as
                                          the two implications that are used)
  * `exactOrInfS_pow10_fin`, `exactOrInfS_pow10_inf` : `Spec.exactOrInfS n 1 T` on these two ranges
  * `psFin_pow10_int`   : x = ±10^k (coefficient 10^a), y = yc·10^ye with ye ≥ 0, y > 0:
                          `psFin` = the saturation table for y > 20000, else `flushOrRoundS m neg 1 (k·y)`
  * `psFin_pow10_agrees`: … which is `.same` as `flushOrRoundS m neg 1 (k·y)` for every k·y
  * `psFin_pow10_half`  : x = +10^k, k even, y = ±1/2: `exactOrInfS false 1 (±k/2)`, `.same (.fin false 1 (±k/2))`
  (History: `Spec.powSpecial` used `exactOrInfS neg 1 t` here, which prescribed an infinity at
   k·y = Emin − 1 = −6177, e.g. x = 0.1, y = 6177; found by these proofs and corrected in D128/Spec/Elem.lean.)
-/
import D128.Proofs.PowLadderFinish

set_option autoImplicit false
set_option maxRecDepth 8192
set_option linter.unusedVariables false
set_option linter.unusedSimpArgs false

namespace PowPf
open Gen Sp Spec SpecRound

theorem member_pow10 (T : Int) (h1 : -6176 ≤ T) (h2 : T ≤ 6145) : Member ((10 : Rat) ^ T) := by
  by_cases h : T ≤ 6111
  · exact ⟨1, T, by unfold Spec.Cmax; norm_num, by unfold Spec.Emin; omega, by unfold Spec.Emax; omega,
      by simp⟩
  · obtain ⟨E, hE⟩ : ∃ E : Int, E = 6111 := ⟨_, rfl⟩
    have hj : T = ((T - E).toNat : Int) + E := by omega
    have hj34 : (T - E).toNat ≤ 34 := by omega
    generalize (T - E).toNat = j at *
    refine ⟨10 ^ j, E, le_trans (Nat.pow_le_pow_right (by norm_num) hj34) Cmax_lower,
      by unfold Spec.Emin; omega, by unfold Spec.Emax; omega, ?_⟩
    rw [hj, zpow_add₀ (by norm_num : (10 : Rat) ≠ 0), zpow_natCast]
    push_cast; ring

theorem not_member_pow10 (T : Int) (h : 6146 ≤ T) : ¬ Member ((10 : Rat) ^ T) := by
  intro hm
  have h1 := member_le_max hm
  have h2 : ((Spec.Cmax : Rat)) < (10 : Rat) ^ (35 : Int) := by
    have := Cmax_upper
    have h3 : ((Spec.Cmax : Nat) : Rat) < ((10 ^ 35 : Nat) : Rat) := by exact_mod_cast this
    rw [zpow_ofNat]; push_cast at h3; exact h3
  have hp : (0 : Rat) < (10 : Rat) ^ Spec.Emax := zpow_pos (by norm_num) _
  have h4 : (Spec.Cmax : Rat) * (10 : Rat) ^ Spec.Emax < (10 : Rat) ^ (35 : Int) * (10 : Rat) ^ Spec.Emax :=
    mul_lt_mul_of_pos_right h2 hp
  rw [← zpow_add₀ (by norm_num : (10 : Rat) ≠ 0)] at h4
  have h5 : (10 : Rat) ^ ((35 : Int) + Spec.Emax) ≤ (10 : Rat) ^ T :=
    zpow_le_zpow_right₀ (by norm_num) (by unfold Spec.Emax; omega)
  linarith

theorem exactOrInfS_one (n : Bool) (T : Int) :
    exactOrInfS n 1 T = exactOrInf n ((10 : Rat) ^ T) := by
  rw [exactOrInfS_scale n 1 (by norm_num) T, one_mul]; rfl

theorem exactOrInfS_pow10_fin (n : Bool) (T : Int) (h1 : -6176 ≤ T) (h2 : T ≤ 6145) :
    (exactOrInfS n 1 T).same (.fin n 1 T) = true := by
  rw [exactOrInfS_one]
  obtain ⟨c, e, hv, hm, -⟩ := exactOrInf_of_member n (zpow_pos (by norm_num) T) (member_pow10 T h1 h2)
  rw [hv]
  simp only [Val.same, beq_self_eq_true, Bool.true_and, beq_iff_eq, Spec.mag, pow10_eq_zpow, hm]
  simp

theorem exactOrInfS_pow10_inf (n : Bool) (T : Int) (h : 6146 ≤ T) : exactOrInfS n 1 T = .inf n := by
  rw [exactOrInfS_one]
  exact exactOrInf_of_not_member n (zpow_pos (by norm_num) T) (not_member_pow10 T h)

theorem powerOfTen_pow10 (a : Nat) (e : Int) : powerOfTen (10 ^ a) e = some ((a : Int) + e) := by
  have := powerOfTen_strip 1 a e (by norm_num)
  rw [one_mul] at this
  rw [this]; rfl

/-- the specification for x = ±10^k and a positive y given with a non-negative exponent -/
theorem psFin_pow10_int (m : Mode) (xn : Bool) (a : Nat) (xe : Int) (yc : Nat) (ye : Int) (hye : 0 ≤ ye)
    (hint : (intParity yc ye).isNone = false) :
    psFin m (.fin xn (10 ^ a) xe) false yc ye =
      some (if ye > 6 ∨ yc * 10 ^ ye.toNat > 20000 then
              (if (a : Int) + xe = 0 then .fin (xn && (intParity yc ye == some true)) 1 0
               else if (a : Int) + xe > 0 then .inf (xn && (intParity yc ye == some true))
               else .fin (xn && (intParity yc ye == some true)) 0 0)
            else flushOrRoundS m (xn && (intParity yc ye == some true)) 1
              (((a : Int) + xe) * ((yc * 10 ^ ye.toNat : Nat) : Int))) := by
  unfold psFin
  have hc0 : ((10 ^ a : Nat) == 0) = false := by
    simp
  simp only [hc0, Bool.false_eq_true, if_false, hint, Bool.and_false, powerOfTen_pow10,
    Bool.not_false, Bool.true_and, ge_iff_le, hye, decide_true, if_true, Bool.or_eq_true,
    decide_eq_true_eq, beq_iff_eq]
  split_ifs <;> rfl

/-- … which is the exact value the code returns (the saturation table saturates only out of range) -/
theorem psFin_pow10_agrees (m : Mode) (xn : Bool) (a : Nat) (xe : Int) (yc : Nat) (ye : Int)
    (hye : 0 ≤ ye) (hyc0 : yc ≠ 0) (hint : (intParity yc ye).isNone = false) :
    ∃ w, psFin m (.fin xn (10 ^ a) xe) false yc ye = some w ∧
      w.same (flushOrRoundS m (xn && (intParity yc ye == some true)) 1
        (((a : Int) + xe) * ((yc * 10 ^ ye.toNat : Nat) : Int))) = true := by
  rw [psFin_pow10_int m xn a xe yc ye hye hint]
  refine ⟨_, rfl, ?_⟩
  generalize (xn && (intParity yc ye == some true)) = neg
  generalize hY : yc * 10 ^ ye.toNat = Y at *
  generalize hk : (a : Int) + xe = k at *
  by_cases hbig : ye > 6 ∨ Y > 20000
  · have hY2 : 20000 < Y := by
      rcases hbig with h | h
      · have h7 : 10 ^ 7 ≤ 10 ^ ye.toNat := Nat.pow_le_pow_right (by norm_num) (by omega)
        have hyc : 1 ≤ yc := by omega
        have : 1 * 10 ^ 7 ≤ yc * 10 ^ ye.toNat := Nat.mul_le_mul hyc h7
        omega
      · exact h
    have hYi : (20001 : Int) ≤ (Y : Int) := by exact_mod_cast hY2
    rw [if_pos hbig]
    by_cases h0 : k = 0
    · rw [if_pos h0, h0, zero_mul, NL.same_symm]
      exact flush_pow10_exact m neg 0 (by omega) (by omega)
    · rw [if_neg h0]
      by_cases h1 : k > 0
      · rw [if_pos h1]
        have : 6146 ≤ k * (Y : Int) := by
          calc (6146 : Int) ≤ 1 * 20001 := by norm_num
            _ ≤ k * (Y : Int) := mul_le_mul (by omega) hYi (by norm_num) (by omega)
        rw [flush_pow10_huge m neg _ this]; exact same_refl _
      · rw [if_neg h1]
        have : k * (Y : Int) ≤ -6178 := by
          have h2 : k * (Y : Int) ≤ -1 * (Y : Int) := mul_le_mul_of_nonneg_right (by omega) (by omega)
          omega
        rw [flush_pow10_tiny m neg _ this]; exact same_zero _ _ _
  · rw [if_neg hbig]; exact same_refl _

/-- the specification for x = +10^k, k even, y = ±1/2 -/
theorem psFin_pow10_half (m : Mode) (a : Nat) (xe : Int) (yn : Bool) (yc : Nat) (ye : Int)
    (hy : Spec.mag yc ye = 1 / 2) (hyc : yc ≤ Spec.Cmax) (hev : ((a : Int) + xe) % 2 = 0)
    (hk1 : -6176 ≤ (a : Int) + xe) (hk2 : (a : Int) + xe ≤ 6145) :
    ∃ w, psFin m (.fin false (10 ^ a) xe) yn yc ye = some w ∧
      w.same (.fin false 1 (if yn = true then -(((a : Int) + xe) / 2) else ((a : Int) + xe) / 2)) = true := by
  unfold psFin
  have hc0 : ((10 ^ a : Nat) == 0) = false := by
    simp
  have hye : ¬ 0 ≤ ye := by
    intro h0
    have h1 : yc = yc * 10 ^ 0 := by simp
    have hm := mag_strip yc 0 ye
    rw [← h1, hy] at hm
    push_cast at hm
    rw [add_zero, strip_nat _ _ h0] at hm
    generalize yc * 10 ^ ye.toNat = N at hm
    have h2 : (2 : Rat) * (N : Rat) = 1 := by linarith
    have h3 : 2 * N = 1 := by exact_mod_cast h2
    omega
  have hcond : (!yn && decide (ye ≥ 0)) = false := by simp [hye]
  have hhalf : (Spec.mag yc ye == 1 / 2) = true := by rw [hy]; simp
  have hk : (((a : Int) + xe) % 2 == 0) = true := by simp [hev]
  simp only [hc0, Bool.false_eq_true, if_false, Bool.false_and, powerOfTen_pow10, hcond, Bool.not_false,
    Bool.true_and, hhalf, hk, Bool.and_self, if_true]
  refine ⟨_, rfl, ?_⟩
  cases yn
  · simp only [Bool.false_eq_true, if_false]
    exact exactOrInfS_pow10_fin false _ (by omega) (by omega)
  · simp only [if_true]
    exact exactOrInfS_pow10_fin false _ (by omega) (by omega)

end PowPf
