/-
  D128/Proofs/D192OneBase.lean — shared loop states and verification-condition lemmas for the three
  "± 1" operations of the 57-digit working format: `decomposed192.add1`, `sub1`, `add1neg`
  (Go: /repo/decomposed.go).  All three have the same skeleton:

    zero → early return;  exp < -116 → early return;  exp > 58 → early return;
    exp ≤ 0 : drop digits (÷10^4 while exp < -62, ÷10 while exp < -57; early return when the
              significand becomes 0), then combine with `uint192PowersOf10[-exp]`;
    exp > 0 : scale up (×10^4 while exp > 4 ∧ small, ×10 while exp > 0 ∧ small), give up if the
              exponent did not reach 0, else combine with 1.

  Provided (namespace `D192`):
  * `one`                         : the working-format number `{sig: {1,0,0}, exp: 0}`
  * `sig_zero`, `sig_pos`         : the word test `sig[0]|sig[1]|sig[2] == 0` as `toNat = 0` / `0 < toNat`
  * `i16_le`, `i16_lt` …          : `Int16` comparisons against literals as `toInt` facts
  * `pow10_vget_triple`           : `uint192PowersOf10[-e]` for `-57 ≤ e ≤ 0` (no index panic) is `10^(-e)`
  * `Dn sig e0 t0 B tr cur e`     : state of the digit-dropping loops
        ∃ k, cur = sig / 10^k ∧ e = e0 + k ∧ tr = (if 10^k ∣ sig then t0 else 1) ∧ (k = 0 ∨ e ≤ B) ∧ 0 < cur
  * `EarlyC sig e0`               : reason of the early return inside those loops: `∃ j, sig/10^j = 0 ∧ e0+j ≤ -57`
  * `Early v sig e0 x`            : `x = v ∧ EarlyC sig e0`
  * `Dn.refl`, `Dn.step`, `Dn.vc_nz4/_z4/_nz1/_z1`, `Dn.early`, `Dn.early4/1`, `Dn.absurd`, `Dn.weaken`,
    `Dn.exit_range`
  * `Up sig e0 cur e`             : state of the scaling-up loops `∃ j, cur = sig·10^j ∧ e = e0 - j ∧ 0 ≤ e`
  * `Up.refl`, `Up.vc4`, `Up.vc1`, `Up.exit`
  * `upM`, `upLo`, `UpX`          : loop measure, the bound `25·2^184`, exit state of the second loop
-/
import D128.Proofs.D192Base
import D128.Proofs.WordsWidePow10
import D128.Proofs.WordsWideMsd2

set_option autoImplicit false
set_option maxRecDepth 4096
set_option exponentiation.threshold 512
open Std.Do D128.Proofs.WordsWide
set_option mvcgen.warning false

namespace D192

/-- the working-format number 1 = `{sig: {1,0,0}, exp: 0}` returned by the early exits -/
def one : Gen.decomposed192 := ⟨⟨1, 0, 0⟩, 0⟩

theorem one_sig : one.sig.toNat = 1 := by simp [one, U192.toNat]
theorem one_exp : one.exp.toInt = 0 := by simp [one]
theorem val_one : val one = 1 := by simp [val, one_sig, one_exp]
theorem ulp_one : ulp one = 1 := by simp [ulp, one_exp]

/-! ### word tests -/

theorem sig_zero {s : U192} (h : (s.w0 = 0 ∧ s.w1 = 0) ∧ s.w2 = 0) : s.toNat = 0 := by
  simp [U192.toNat, h.1.1, h.1.2, h.2]

theorem sig_pos {s : U192} (h : s.w0 = 0 → s.w1 = 0 → ¬ s.w2 = 0) : 0 < s.toNat := by
  rcases Nat.eq_zero_or_pos s.toNat with h0 | h0
  · exfalso
    simp only [U192.toNat] at h0
    have e0 : s.w0 = 0 := by rw [u64_eq_zero_iff]; omega
    have e1 : s.w1 = 0 := by rw [u64_eq_zero_iff]; omega
    have e2 : s.w2 = 0 := by rw [u64_eq_zero_iff]; omega
    exact h e0 e1 e2
  · exact h0

/-! ### `Int16` comparisons against literals -/

theorem i16_le {a b : Int16} (h : a ≤ b) : a.toInt ≤ b.toInt := Int16.le_iff_toInt_le.mp h
theorem i16_lt {a b : Int16} (h : a < b) : a.toInt < b.toInt := Int16.lt_iff_toInt_lt.mp h

/-! ### the table of powers of ten -/

@[spec] theorem pow10_vget_triple (e : Int16) :
    ⦃⌜-57 ≤ e.toInt ∧ e.toInt ≤ 0⌝⦄ Go.vget Gen.uint192PowersOf10 (Go.idx (-e))
    ⦃⇓ v => ⌜v.toNat = 10 ^ (-e.toInt).toNat⌝⦄ := by
  mintro ⌜h⌝
  have hi : Go.idx (-e) = -e.toInt := by
    show (-e).toInt = -e.toInt
    rw [Int16.toInt_neg]
    have : (-e.toInt).bmod (2 ^ 16) = -e.toInt := by
      apply Int.bmod_eq_of_le <;> omega
    exact this
  obtain ⟨v, hv, hn⟩ := uint192PowersOf10_vget (Go.idx (-e)) (by rw [hi]; omega) (by rw [hi]; omega)
  rw [hv]
  exact Triple.pure (m := Go.GoM) _ (by simp [hn, hi])

/-! ### the digit-dropping loops -/

/-- state of the digit-dropping loops: `k` low digits of `sig` were dropped, the exponent advanced by
`k`, the sticky flag is `1` as soon as a non-zero digit was dropped (else untouched), the exponent is at
most `B` as soon as something was dropped, and the current significand is non-zero. -/
def Dn (sig : Nat) (e0 : Int16) (t0 : Int8) (B : Int) (tr : Int8) (cur : Nat) (e : Int16) : Prop :=
  ∃ k : Nat, cur = sig / 10 ^ k ∧ e.toInt = e0.toInt + k ∧
    tr = (if sig % 10 ^ k = 0 then t0 else 1) ∧ (k = 0 ∨ e.toInt ≤ B) ∧ 0 < cur

/-- reason of an early return from the digit-dropping loops: all digits of `sig` lie below `10^-57`. -/
def EarlyC (sig : Nat) (e0 : Int16) : Prop := ∃ j : Nat, sig / 10 ^ j = 0 ∧ e0.toInt + j ≤ -57

/-- early-return slot of the loop state -/
def Early {α : Type} (v : α) (sig : Nat) (e0 : Int16) (x : α) : Prop := x = v ∧ EarlyC sig e0

theorem Dn.refl (sig : Nat) (e0 : Int16) (t0 : Int8) (B : Int) (h : 0 < sig) :
    Dn sig e0 t0 B t0 sig e0 :=
  ⟨0, by simp, by simp, by simp [Nat.mod_one], Or.inl rfl, h⟩

theorem Dn.weaken {sig : Nat} {e0 : Int16} {t0 : Int8} {B B' : Int} {tr : Int8} {cur : Nat} {e : Int16}
    (h : Dn sig e0 t0 B tr cur e) (hB : B ≤ B') : Dn sig e0 t0 B' tr cur e := by
  obtain ⟨k, h1, h2, h3, h4, h5⟩ := h
  exact ⟨k, h1, h2, h3, h4.imp id (fun h => by omega), h5⟩

/-- general step: divide by `10^j` when the exponent is below `G`. -/
theorem Dn.step {sig : Nat} {e0 : Int16} {t0 : Int8} {B : Int} {tr : Int8} {cur : Nat} {e : Int16}
    (j : Nat) (J G : Int16) (hJ : J.toInt = j) (hj : j ≤ 4) (hG : G.toInt ≤ 0)
    (hB : G.toInt + j - 1 ≤ B) (hlo : -116 ≤ e0.toInt)
    (h : Dn sig e0 t0 B tr cur e) (hg : e < G) (q r : Nat) (hq : q = cur / 10 ^ j)
    (hr : r = cur % 10 ^ j) (hq0 : 0 < q) :
    Dn sig e0 t0 B (if r = 0 then tr else 1) q (e + J) := by
  obtain ⟨k, hc, he, ht, _, _⟩ := h
  have hg' := i16_lt hg
  have hadd : (e + J).toInt = e.toInt + j := by
    rw [Int16.toInt_add_of] <;> rw [hJ] <;> omega
  refine ⟨k + j, ?_, ?_, ?_, Or.inr ?_, hq0⟩
  · rw [hq, hc, Nat.div_div_eq_div_mul, Nat.pow_add]
  · rw [hadd, he]; push_cast; ring
  · have := mod_pow_add sig k j
    rw [← hc, ← hr] at this
    by_cases h1 : sig % 10 ^ k = 0
    · by_cases h2 : r = 0
      · rw [if_pos h2, if_pos (this.mpr ⟨h1, h2⟩), ht, if_pos h1]
      · rw [if_neg h2, if_neg (fun h => h2 (this.mp h).2)]
    · rw [if_neg (fun h => h1 (this.mp h).1), ht, if_neg h1]; split <;> rfl
  · rw [hadd]; omega

/-- the quotient became zero: early return. -/
theorem Dn.early {sig : Nat} {e0 : Int16} {t0 : Int8} {B : Int} {tr : Int8} {cur : Nat} {e : Int16}
    (j : Nat) (G : Int16) (hB : G.toInt + j - 1 ≤ -57)
    (h : Dn sig e0 t0 B tr cur e) (hg : e < G) (q : Nat) (hq : q = cur / 10 ^ j) (hq0 : q = 0) :
    EarlyC sig e0 := by
  obtain ⟨k, hc, he, _, _, _⟩ := h
  have hg' := i16_lt hg
  refine ⟨k + j, ?_, ?_⟩
  · rw [Nat.pow_add, ← Nat.div_div_eq_div_mul, ← hc, ← hq, hq0]
  · push_cast; omega

/-- quotient zero and remainder zero is impossible (the current significand is non-zero). -/
theorem Dn.absurd {sig : Nat} {e0 : Int16} {t0 : Int8} {B : Int} {tr : Int8} {cur : Nat} {e : Int16}
    (j : Nat) (h : Dn sig e0 t0 B tr cur e) (q r : Nat) (hq : q = cur / 10 ^ j)
    (hr : r = cur % 10 ^ j) (hq0 : q = 0) (hr0 : r = 0) : False := by
  obtain ⟨k, _, _, _, _, hpos⟩ := h
  have := Nat.div_add_mod cur (10 ^ j)
  rw [← hq, ← hr, hq0, hr0] at this
  omega

/-! #### verification-condition forms (shapes produced by `mvcgen` + `simp +zetaDelta`) -/

section vc
variable {sig : Nat} {e0 : Int16} {t0 : Int8} {tr : Int8} {e : Int16} {mb : Nat}

theorem Dn.vc_nz4 (cur : Nat) (q : U192) (r : UInt64) (hlo : -116 ≤ e0)
    (hdiv : q.toNat = cur / 10 ^ 4 ∧ r.toNat = cur % 10 ^ 4) (hg : e < -62)
    (hinv : mb = cur ∧ Dn sig e0 t0 (-58) tr cur e) (hnz : ¬ r = 0)
    (hq : q.w0 = 0 → q.w1 = 0 → ¬ q.w2 = 0) :
    q.toNat < mb ∧ Dn sig e0 t0 (-58) 1 q.toNat (e + 4) := by
  have hpos : 0 < cur := by obtain ⟨_, _, _, _, _, h⟩ := hinv.2; exact h
  refine ⟨?_, ?_⟩
  · rw [hinv.1, hdiv.1]; exact Nat.div_lt_self hpos (by norm_num)
  · have := Dn.step 4 4 (-62) (by decide) (by norm_num) (by decide) (by decide)
      (by have := i16_le hlo; simpa using this) hinv.2 hg q.toNat r.toNat hdiv.1 hdiv.2 (sig_pos hq)
    rwa [if_neg (by rwa [← u64_eq_zero_iff])] at this

theorem Dn.vc_z4 (cur : Nat) (q : U192) (r : UInt64) (hlo : -116 ≤ e0)
    (hdiv : q.toNat = cur / 10 ^ 4 ∧ r.toNat = cur % 10 ^ 4) (hg : e < -62)
    (hinv : mb = cur ∧ Dn sig e0 t0 (-58) tr cur e) (hz : r = 0)
    (hq : q.w0 = 0 → q.w1 = 0 → ¬ q.w2 = 0) :
    q.toNat < mb ∧ Dn sig e0 t0 (-58) tr q.toNat (e + 4) := by
  have hpos : 0 < cur := by obtain ⟨_, _, _, _, _, h⟩ := hinv.2; exact h
  refine ⟨?_, ?_⟩
  · rw [hinv.1, hdiv.1]; exact Nat.div_lt_self hpos (by norm_num)
  · have := Dn.step 4 4 (-62) (by decide) (by norm_num) (by decide) (by decide)
      (by have := i16_le hlo; simpa using this) hinv.2 hg q.toNat r.toNat hdiv.1 hdiv.2 (sig_pos hq)
    rwa [if_pos (by rwa [← u64_eq_zero_iff])] at this

theorem Dn.vc_nz1 (cur : Nat) (q : U192) (r : UInt64) (hlo : -116 ≤ e0)
    (hdiv : q.toNat = cur / 10 ^ 1 ∧ r.toNat = cur % 10 ^ 1) (hg : e < -57)
    (hinv : mb = cur ∧ Dn sig e0 t0 (-57) tr cur e) (hnz : ¬ r = 0)
    (hq : q.w0 = 0 → q.w1 = 0 → ¬ q.w2 = 0) :
    q.toNat < mb ∧ Dn sig e0 t0 (-57) 1 q.toNat (e + 1) := by
  have hpos : 0 < cur := by obtain ⟨_, _, _, _, _, h⟩ := hinv.2; exact h
  refine ⟨?_, ?_⟩
  · rw [hinv.1, hdiv.1]; exact Nat.div_lt_self hpos (by norm_num)
  · have := Dn.step 1 1 (-57) (by decide) (by norm_num) (by decide) (by decide)
      (by have := i16_le hlo; simpa using this) hinv.2 hg q.toNat r.toNat hdiv.1 hdiv.2 (sig_pos hq)
    rwa [if_neg (by rwa [← u64_eq_zero_iff])] at this

theorem Dn.vc_z1 (cur : Nat) (q : U192) (r : UInt64) (hlo : -116 ≤ e0)
    (hdiv : q.toNat = cur / 10 ^ 1 ∧ r.toNat = cur % 10 ^ 1) (hg : e < -57)
    (hinv : mb = cur ∧ Dn sig e0 t0 (-57) tr cur e) (hz : r = 0)
    (hq : q.w0 = 0 → q.w1 = 0 → ¬ q.w2 = 0) :
    q.toNat < mb ∧ Dn sig e0 t0 (-57) tr q.toNat (e + 1) := by
  have hpos : 0 < cur := by obtain ⟨_, _, _, _, _, h⟩ := hinv.2; exact h
  refine ⟨?_, ?_⟩
  · rw [hinv.1, hdiv.1]; exact Nat.div_lt_self hpos (by norm_num)
  · have := Dn.step 1 1 (-57) (by decide) (by norm_num) (by decide) (by decide)
      (by have := i16_le hlo; simpa using this) hinv.2 hg q.toNat r.toNat hdiv.1 hdiv.2 (sig_pos hq)
    rwa [if_pos (by rwa [← u64_eq_zero_iff])] at this

theorem Dn.early4 {α : Type} (v : α) {B : Int} (cur : Nat) (q : U192)
    (hdiv : q.toNat = cur / 10 ^ 4) (hg : e < -62)
    (hinv : Dn sig e0 t0 B tr cur e) (hq : (q.w0 = 0 ∧ q.w1 = 0) ∧ q.w2 = 0) :
    Early v sig e0 v :=
  ⟨rfl, Dn.early 4 (-62) (by decide) hinv hg q.toNat hdiv (sig_zero hq)⟩

theorem Dn.early1 {α : Type} (v : α) {B : Int} (cur : Nat) (q : U192)
    (hdiv : q.toNat = cur / 10 ^ 1) (hg : e < -57)
    (hinv : Dn sig e0 t0 B tr cur e) (hq : (q.w0 = 0 ∧ q.w1 = 0) ∧ q.w2 = 0) :
    Early v sig e0 v :=
  ⟨rfl, Dn.early 1 (-57) (by decide) hinv hg q.toNat hdiv (sig_zero hq)⟩

theorem Dn.absurd' {B : Int} (j : Nat) (cur : Nat) (q : U192) (r : UInt64)
    (hdiv : q.toNat = cur / 10 ^ j ∧ r.toNat = cur % 10 ^ j)
    (hinv : Dn sig e0 t0 B tr cur e) (hz : r = 0) (hq : (q.w0 = 0 ∧ q.w1 = 0) ∧ q.w2 = 0) : False :=
  Dn.absurd j hinv q.toNat r.toNat hdiv.1 hdiv.2 (sig_zero hq) ((u64_eq_zero_iff r).mp hz)

end vc

/-- on leaving both digit-dropping loops the exponent is a valid (negated) index of the table of
powers of ten. -/
theorem Dn.exit_range {sig : Nat} {e0 : Int16} {t0 tr : Int8} {cur : Nat} {e : Int16}
    (hhi : e0.toInt ≤ 0) (h : Dn sig e0 t0 (-57) tr cur e) (he : -57 ≤ e.toInt) :
    -57 ≤ e.toInt ∧ e.toInt ≤ 0 := by
  obtain ⟨k, _, hee, _, hk, _⟩ := h
  refine ⟨he, ?_⟩
  rcases hk with h | h <;> omega

/-! ### the scaling-up loops -/

/-- state of the scaling-up loops: the significand was multiplied by `10^j` (without overflow), the
exponent decreased by `j` and is still non-negative. -/
def Up (sig : Nat) (e0 : Int16) (cur : Nat) (e : Int16) : Prop :=
  ∃ j : Nat, cur = sig * 10 ^ j ∧ e.toInt = e0.toInt - j ∧ 0 ≤ e.toInt

/-- loop measure of the scaling-up loops -/
def upM (e : Int16) : Nat := e.toInt.toNat

/-- lower bound of a significand that the scaling-up loops refuse to multiply by 10:
`0x1900_0000_0000_0000 · 2^128 = 25·2^184` (slightly below `2^192/10`). -/
def upLo : Nat := 25 * 2 ^ 184

/-- exit state of the second scaling-up loop -/
def UpX (sig : Nat) (e0 : Int16) (st : Gen.decomposed192) : Prop :=
  Up sig e0 st.sig.toNat st.exp ∧ (st.exp ≠ 0 → upLo ≤ st.sig.toNat)

theorem Up.refl (sig : Nat) (e0 : Int16) (h : 0 < e0) : Up sig e0 sig e0 :=
  ⟨0, by simp, by simp, by have := i16_lt h; simp at this; omega⟩

section vcup
variable {sig : Nat} {e0 : Int16} {mb : Nat}

theorem Up.vc4 (b : Gen.decomposed192) (hg : 4 < b.exp ∧ b.sig.w2 ≤ 703687441776639)
    (hinv : mb = upM b.exp ∧ Up sig e0 b.sig.toNat b.exp) :
    upM (b.exp - 4) < mb ∧ Up sig e0 (Gen.U192.mul64 b.sig 10000).toNat (b.exp - 4) := by
  obtain ⟨hm, j, hc, he, h0⟩ := hinv
  have h4 : 4 < b.exp.toInt := by have := i16_lt hg.1; simpa using this
  have hw : b.sig.w2.toNat ≤ 703687441776639 := by
    have := UInt64.le_iff_toNat_le.mp hg.2; simpa using this
  have hsub : (b.exp - 4).toInt = b.exp.toInt - 4 := by
    have hle : b.exp.toInt ≤ 32767 := Int16.toInt_le b.exp
    rw [Int16.toInt_sub_of] <;> simp <;> omega
  have hlt : b.sig.toNat * (10000 : UInt64).toNat < 2 ^ 192 := by
    have := b.sig.w0.toNat_lt; have := b.sig.w1.toNat_lt
    simp only [U192.toNat, UInt64.reduceToNat]
    omega
  refine ⟨?_, j + 4, ?_, ?_, ?_⟩
  · rw [hm]; unfold upM; rw [hsub]; omega
  · rw [U192_mul64_toNat_of_lt _ _ hlt, hc, Nat.pow_add]; simp; ring
  · rw [hsub, he]; push_cast; ring
  · rw [hsub]; omega

theorem Up.vc1 (b : Gen.decomposed192) (hg : 0 < b.exp ∧ b.sig.w2 ≤ 1801439850948198399)
    (hinv : mb = upM b.exp ∧ Up sig e0 b.sig.toNat b.exp) :
    upM (b.exp - 1) < mb ∧ Up sig e0 (Gen.U192.mul64 b.sig 10).toNat (b.exp - 1) := by
  obtain ⟨hm, j, hc, he, h0⟩ := hinv
  have h4 : 0 < b.exp.toInt := by have := i16_lt hg.1; simpa using this
  have hw : b.sig.w2.toNat ≤ 1801439850948198399 := by
    have := UInt64.le_iff_toNat_le.mp hg.2; simpa using this
  have hsub : (b.exp - 1).toInt = b.exp.toInt - 1 := by
    have hle : b.exp.toInt ≤ 32767 := Int16.toInt_le b.exp
    rw [Int16.toInt_sub_of] <;> simp <;> omega
  have hlt : b.sig.toNat * (10 : UInt64).toNat < 2 ^ 192 := by
    have := b.sig.w0.toNat_lt; have := b.sig.w1.toNat_lt
    simp only [U192.toNat, UInt64.reduceToNat]
    omega
  refine ⟨?_, j + 1, ?_, ?_, ?_⟩
  · rw [hm]; unfold upM; rw [hsub]; omega
  · rw [U192_mul64_toNat_of_lt _ _ hlt, hc, Nat.pow_add]; simp; ring
  · rw [hsub, he]; push_cast; ring
  · rw [hsub]; omega

theorem Up.exit (b : Gen.decomposed192) (hg : 0 < b.exp → 1801439850948198399 < b.sig.w2)
    (hinv : Up sig e0 b.sig.toNat b.exp) : UpX sig e0 b := by
  refine ⟨hinv, fun hne => ?_⟩
  obtain ⟨j, _, _, h0⟩ := hinv
  have hpos : 0 < b.exp := by
    rw [Int16.lt_iff_toInt_lt]; simp
    have : b.exp.toInt ≠ 0 := fun h => hne (Int16.toInt_inj.mp (by simpa using h))
    omega
  have hw : 1801439850948198399 < b.sig.w2.toNat := by
    have := UInt64.lt_iff_toNat_lt.mp (hg hpos); simpa using this
  simp only [U192.toNat, upLo]
  omega

end vcup

end D192
