/-
  D128/Proofs/D192ExpMath.lean — preparation for `decomposed192.epow` (the series for `e^x`).

  * `theta = 10^-56`, `lower_of_sig`     : common relative accuracy of `quo`/`mul`/`add1`
  * `QuoS`, `quo_small`, `quo_small_spec` : `quo` by a small integer `i` (exact divisor)
  * `Add1R`, `add1_qspec`                 : `add1` in relative form
  * `G`, `R`, `G_nonneg`, `G_le_two`      : the Horner values `G 0 = x/40`, `G (j+1) = 1 + x/(39-j)·G j`
        and the polynomial `R x = 1 + x·G 38` that the code really evaluates
        (`= Σ_{k≤38} x^k/k! + x^40/40!`: the term `x^39/39!` is missing, see D192ExpEval.lean)
  * `horner_step`, `scaled_facts`, `HInv` (`.init`, `.mul_pre`, `.step`, `.final_pre`, `.final`)
  * `epowE`, `epowX`, `epowO`, `EpowPre` (`.neg`, `.pos`) : the argument reduction of `epow`
-/
import D128.Proofs.D192QuoContract
import D128.Proofs.D192OneAddContract
import D128.Proofs.D192Pow
set_option autoImplicit false
set_option maxRecDepth 4096
set_option exponentiation.threshold 512
set_option linter.unusedVariables false
open Std.Do D128.Proofs.WordsWide
set_option mvcgen.warning false

namespace D192

/-- the relative accuracy used for every operation of the series: `10^-56` -/
def theta : ℚ := 1 / 10 ^ 56

theorem theta_pos : 0 < theta := by unfold theta; positivity
theorem eps_le_theta : eps ≤ theta := by unfold theta; exact eps_lt.le

/-- a truncated value whose significand is at least `N` is within a relative `θ ≥ 1/N` of the exact
one (and an exact one trivially is). -/
theorem lower_of_sig (r : Gen.decomposed192) (X θ : ℚ) (N : Nat) (hN : 0 < N) (hθ0 : 0 < θ)
    (hθ : 1 ≤ θ * N) (h1 : val r ≤ X) (h2 : X < val r + ulp r)
    (h3 : val r = X ∨ N ≤ r.sig.toNat) : X * (1 - θ) ≤ val r := by
  have hX : 0 ≤ X := le_trans (val_nonneg r) h1
  rcases h3 with h3 | h3
  · rw [h3]; nlinarith
  · have hu : ulp r ≤ val r * θ := by
      have hs : (N : ℚ) ≤ (r.sig.toNat : ℚ) := by exact_mod_cast h3
      have hp := ulp_pos r
      have hNq : (0 : ℚ) < (N : ℚ) := by exact_mod_cast hN
      unfold val
      unfold ulp at hp ⊢
      have : (10 : ℚ) ^ r.exp.toInt * 1 ≤ (10 : ℚ) ^ r.exp.toInt * (θ * N) :=
        mul_le_mul_of_nonneg_left hθ hp.le
      have h4 : θ * (N : ℚ) ≤ θ * (r.sig.toNat : ℚ) := mul_le_mul_of_nonneg_left hs hθ0.le
      nlinarith
    have hv := val_nonneg r
    have : X ≤ val r * (1 + θ) := by linarith
    nlinarith

theorem theta_LIM : 1 ≤ theta * (LIM : Nat) := by
  unfold theta LIM; norm_num

/-- `quo` by a small positive integer `i` (exponent 0): exact divisor, relative error below `theta`. -/
def QuoS (d : Gen.decomposed192) (i : UInt64) (t : Int8) (x : Gen.decomposed192 × Int8) : Prop :=
  val x.1 ≤ val d / i.toNat ∧ val d / i.toNat * (1 - theta) ≤ val x.1 ∧ (x.2 = t ∨ x.2 = 1) ∧
  d.exp.toInt - 118 ≤ x.1.exp.toInt ∧ x.1.exp.toInt ≤ d.exp.toInt + 1

theorem quo_small (d : Gen.decomposed192) (i : UInt64) (t : Int8) (hd : d.sig.toNat ≠ 0)
    (hi : i.toNat ≠ 0) (hde : -16000 ≤ d.exp.toInt ∧ d.exp.toInt ≤ 16000) :
    ∃ x, Gen.decomposed192.quo d ⟨⟨i, 0, 0⟩, 0⟩ t = .ok x ∧ QuoS d i t x := by
  have hsig : (U192.mk i 0 0).toNat = i.toNat := by simp [U192.toNat]
  have hlt : (U192.mk i 0 0).toNat < OLIM := by
    rw [hsig]; have := i.toNat_lt; unfold OLIM lim; omega
  have he0 : (0 : Int16).toInt = 0 := by decide
  obtain ⟨r, t', o', e, h1, h2, h3, h4, h5, h6, h7, h8, h9, h10, h11, h12⟩ :=
    quo_contract d ⟨⟨i, 0, 0⟩, 0⟩ t hd (by rw [hsig]; exact hi) hde
      ⟨by show (-16000 : Int) ≤ (0 : Int16).toInt; rw [he0]; norm_num,
       by show (0 : Int16).toInt ≤ 16000; rw [he0]; norm_num⟩
  have ho' : o' = (i.toNat : ℚ) := by
    rw [h4 hlt]; simp [val, hsig]
  rw [ho'] at h5 h6 h7 h8 h9
  refine ⟨(r, t'), e, h5, ?_, ?_, ?_, ?_⟩
  · exact lower_of_sig r _ theta LIM (by unfold LIM; norm_num) theta_pos theta_LIM h5 h6 h9
  · by_cases hc : val r = val d / (i.toNat : ℚ) ∧ (i.toNat : ℚ) = val ⟨⟨i, 0, 0⟩, 0⟩
    · left; exact h7 hc
    · right; exact h8 hc
  · simp only [he0] at h11; simp only; omega
  · simp only [he0] at h12; simp only; omega

@[spec] theorem quo_small_spec (d : Gen.decomposed192) (i : UInt64) (t : Int8) :
    ⦃⌜d.sig.toNat ≠ 0 ∧ i.toNat ≠ 0 ∧ -16000 ≤ d.exp.toInt ∧ d.exp.toInt ≤ 16000⌝⦄
    Gen.decomposed192.quo d ⟨⟨i, 0, 0⟩, 0⟩ t
    ⦃⇓ x => ⌜QuoS d i t x⌝⦄ := by
  generalize hP : (d.sig.toNat ≠ 0 ∧ i.toNat ≠ 0 ∧ -16000 ≤ d.exp.toInt ∧ d.exp.toInt ≤ 16000) = P
  by_cases h : P
  · have h' := hP ▸ h
    obtain ⟨x, e, hc⟩ := quo_small d i t h'.1 h'.2.1 h'.2.2
    have := triple_of_eq e (Q := fun x => QuoS d i t x) hc
    simpa [h] using this
  · simp [Triple, h]

/-- `add1` in relative-error form -/
def Add1R (d : Gen.decomposed192) (t : Int8) (x : Gen.decomposed192 × Int8) : Prop :=
  val x.1 ≤ val d + 1 ∧ (val d + 1) * (1 - theta) ≤ val x.1 ∧ 1 ≤ val x.1 ∧ (x.2 = t ∨ x.2 = 1) ∧
  ((x.1 = d ∧ 58 < d.exp.toInt) ∨ (-57 ≤ x.1.exp.toInt ∧ x.1.exp.toInt ≤ 58))

@[spec] theorem add1_qspec (d : Gen.decomposed192) (t : Int8) :
    ⦃⌜True⌝⦄ Gen.decomposed192.add1 d t ⦃⇓ x => ⌜Add1R d t x⌝⦄ := by
  obtain ⟨r, t', e, h1, h2, h3, h4, h5, h6, h7⟩ := add1_contract d t
  refine triple_of_eq e ⟨h1, ?_, h5, ?_, h7⟩
  · have hv : 0 ≤ val r := val_nonneg r
    have ht := theta_pos
    have h6' : (val d + 1 - val r) ≤ val r * theta := by
      unfold theta
      rw [mul_one_div, le_div_iff₀ (by positivity)]
      exact h6
    have : val d + 1 ≤ val r * (1 + theta) := by linarith
    have hd : 0 ≤ val d + 1 := by have := val_nonneg d; linarith
    nlinarith
  · by_cases hc : val r = val d + 1
    · left; exact h3 hc
    · right; exact h4 hc

/-! ### the series that `epow` really evaluates -/

/-- `G x j` is the value of `res` after `j` passes of the Horner loop (`i = 39, 38, …`):
`G 0 = x/40`, `G (j+1) = 1 + x/(39-j) · G j`. -/
def G (x : ℚ) : Nat → ℚ
  | 0 => x / 40
  | j + 1 => 1 + x / ((39 - j : Nat) : ℚ) * G x j

/-- the polynomial returned before `powexp10`: `1 + x·G 38 = Σ_{k≤38} x^k/k! + x^40/40!` -/
def R (x : ℚ) : ℚ := 1 + x * G x 38

theorem G_nonneg (x : ℚ) (hx : 0 ≤ x) : ∀ j, 0 ≤ G x j
  | 0 => by unfold G; positivity
  | j + 1 => by
      unfold G
      have := G_nonneg x hx j
      have : 0 ≤ x / ((39 - j : Nat) : ℚ) := div_nonneg hx (Nat.cast_nonneg _)
      positivity

theorem G_le_two (x : ℚ) (hx0 : 0 ≤ x) (hx : x ≤ 1) : ∀ j, j ≤ 38 → G x j ≤ 2
  | 0, _ => by unfold G; linarith
  | j + 1, hj => by
      unfold G
      have ih := G_le_two x hx0 hx j (by omega)
      have h0 := G_nonneg x hx0 j
      have hk : (2 : ℚ) ≤ ((39 - j : Nat) : ℚ) := by
        have : 2 ≤ 39 - j := by omega
        exact_mod_cast this
      have hq : x / ((39 - j : Nat) : ℚ) ≤ 1 / 2 := by
        rw [div_le_div_iff₀ (by linarith) (by norm_num)]; nlinarith
      have hq0 : 0 ≤ x / ((39 - j : Nat) : ℚ) := div_nonneg hx0 (by linarith)
      nlinarith

/-- one pass of the Horner loop in ℚ. -/
theorem horner_step (q g res tmp m a : ℚ) (c : Nat) (hq : 0 ≤ q) (hg : 0 ≤ g)
    (r1 : g * (1 - theta) ^ c ≤ res) (r2 : res ≤ g) (t1 : q * (1 - theta) ≤ tmp) (t2 : tmp ≤ q)
    (m1 : res * tmp * (1 - eps) ≤ m) (m2 : m ≤ res * tmp)
    (a1 : (m + 1) * (1 - theta) ≤ a) (a2 : a ≤ m + 1) :
    (1 + q * g) * (1 - theta) ^ (c + 3) ≤ a ∧ a ≤ 1 + q * g := by
  have hθ := theta_pos
  have hθ1 : theta < 1 := by unfold theta; norm_num
  have h1 : 0 < 1 - theta := by linarith
  have h1' : 1 - theta ≤ 1 := by linarith
  have he : 1 - theta ≤ 1 - eps := by have := eps_le_theta; linarith
  have hpc : 0 ≤ (1 - theta) ^ c := pow_nonneg h1.le c
  have hpc1 : (1 - theta) ^ c ≤ 1 := pow_le_one₀ h1.le h1'
  have hres0 : 0 ≤ res := le_trans (mul_nonneg hg hpc) r1
  have htmp0 : 0 ≤ tmp := le_trans (mul_nonneg hq h1.le) t1
  have hm_up : m ≤ q * g := by
    calc m ≤ res * tmp := m2
      _ ≤ g * q := mul_le_mul r2 t2 htmp0 hg
      _ = q * g := by ring
  have hm_lo : q * g * (1 - theta) ^ (c + 2) ≤ m := by
    have e : q * g * (1 - theta) ^ (c + 2) = (g * (1 - theta) ^ c) * (q * (1 - theta)) * (1 - theta) := by
      ring
    rw [e]
    have h2 : (g * (1 - theta) ^ c) * (q * (1 - theta)) ≤ res * tmp :=
      mul_le_mul r1 t1 (mul_nonneg hq h1.le) hres0
    have h3 : 0 ≤ res * tmp := mul_nonneg hres0 htmp0
    calc (g * (1 - theta) ^ c) * (q * (1 - theta)) * (1 - theta)
        ≤ res * tmp * (1 - theta) := mul_le_mul_of_nonneg_right h2 h1.le
      _ ≤ res * tmp * (1 - eps) := mul_le_mul_of_nonneg_left he h3
      _ ≤ m := m1
  refine ⟨?_, by linarith⟩
  have hp2 : (1 - theta) ^ (c + 2) ≤ 1 := pow_le_one₀ h1.le h1'
  have hp2' : 0 ≤ (1 - theta) ^ (c + 2) := pow_nonneg h1.le _
  have h4 : (1 + q * g) * (1 - theta) ^ (c + 2) ≤ m + 1 := by
    have : (1 + q * g) * (1 - theta) ^ (c + 2) = (1 - theta) ^ (c + 2) + q * g * (1 - theta) ^ (c + 2) := by
      ring
    rw [this]; linarith
  calc (1 + q * g) * (1 - theta) ^ (c + 3) = ((1 + q * g) * (1 - theta) ^ (c + 2)) * (1 - theta) := by ring
    _ ≤ (m + 1) * (1 - theta) := mul_le_mul_of_nonneg_right h4 h1.le
    _ ≤ a := a1

/-- facts about the scaled argument. -/
theorem scaled_facts {D : Nat} {e : Int16} {d2 : Gen.decomposed192} (h : ScUp D e d2) (hD : 1 ≤ D)
    (he : -15900 ≤ e.toInt ∧ e.toInt ≤ 16000) (hx : (D : ℚ) * (10 : ℚ) ^ e.toInt ≤ 1)
    (hL : LIM ≤ d2.sig.toNat) :
    val d2 = (D : ℚ) * (10 : ℚ) ^ e.toInt ∧ d2.sig.toNat ≠ 0 ∧
      e.toInt - 57 ≤ d2.exp.toInt ∧ d2.exp.toInt ≤ -57 := by
  obtain ⟨a, ha, h1, h2⟩ := h.bounds hD
  have hka : (Int16.ofNat a).toInt = a := Int16.toInt_ofNat_of_lt (by omega)
  have hexp : d2.exp.toInt = e.toInt - a := by
    rw [h2, Int16.toInt_sub_of] <;> rw [hka] <;> omega
  have hv : val d2 = (D : ℚ) * (10 : ℚ) ^ e.toInt := by
    unfold val
    rw [h1, hexp, zpow_sub₀ (by norm_num), zpow_natCast]
    push_cast
    have : ((10 : ℚ) ^ a) ≠ 0 := pow_ne_zero _ (by norm_num)
    field_simp
  refine ⟨hv, by unfold LIM at hL; omega, by omega, ?_⟩
  by_contra hc
  have hge : -56 ≤ d2.exp.toInt := by omega
  have hp : (10 : ℚ) ^ (-56 : Int) ≤ (10 : ℚ) ^ d2.exp.toInt := zpow_le_zpow_right₀ (by norm_num) hge
  have hs : ((LIM : Nat) : ℚ) ≤ (d2.sig.toNat : ℚ) := by exact_mod_cast hL
  have hv1 : val d2 ≤ 1 := by rw [hv]; exact hx
  have : ((LIM : Nat) : ℚ) * (10 : ℚ) ^ (-56 : Int) ≤ val d2 := by
    unfold val
    exact mul_le_mul hs hp (by positivity) (by positivity)
  have h2 : (1 : ℚ) < ((LIM : Nat) : ℚ) * (10 : ℚ) ^ (-56 : Int) := by
    unfold LIM; rw [zpow_neg]; norm_num
  linarith

theorem G_pos (x : ℚ) (hx : 0 < x) : ∀ j, 0 < G x j
  | 0 => by unfold G; positivity
  | j + 1 => by
      unfold G
      have := G_nonneg x hx.le j
      have : 0 ≤ x / ((39 - j : Nat) : ℚ) := div_nonneg hx.le (Nat.cast_nonneg _)
      positivity

/-- Horner loop invariant: `res ≈ G x j` after `j` passes (`i = 39 - j`), with `1 + 3j` accumulated
relative truncations of size `theta`. -/
def HInv (x : ℚ) (e2 : Int) (t : Int8) (st : Int8 × Gen.decomposed192 × UInt64) : Prop :=
  ∃ j : Nat, j ≤ 38 ∧ st.2.2.toNat = 39 - j ∧
    G x j * (1 - theta) ^ (1 + 3 * j) ≤ val st.2.1 ∧ val st.2.1 ≤ G x j ∧
    (st.1 = t ∨ st.1 = 1) ∧ e2 - 118 ≤ st.2.1.exp.toInt ∧ st.2.1.exp.toInt ≤ 58

theorem one_sub_theta_pos : 0 < 1 - theta := by unfold theta; norm_num

theorem HInv.init (d2 : Gen.decomposed192) (t : Int8) (r : Gen.decomposed192 × Int8)
    (he : d2.exp.toInt ≤ -57) (h : QuoS d2 40 t r) :
    HInv (val d2) d2.exp.toInt t (r.2, r.1, 39) := by
  obtain ⟨h1, h2, h3, h4, h5⟩ := h
  have e40 : ((40 : UInt64).toNat : ℚ) = 40 := by
    have : (40 : UInt64).toNat = 40 := rfl
    rw [this]; norm_num
  rw [e40] at h1 h2
  refine ⟨0, by omega, rfl, ?_, ?_, h3, h4, by simp only; omega⟩
  · show G (val d2) 0 * (1 - theta) ^ (1 + 3 * 0) ≤ val r.1
    simp only [G, Nat.mul_zero, Nat.add_zero, pow_one]; exact h2
  · show val r.1 ≤ G (val d2) 0
    simp only [G]; exact h1

theorem HInv.mul_pre {x : ℚ} {d2 : Gen.decomposed192} {t : Int8}
    {b : Int8 × Gen.decomposed192 × UInt64} (h : HInv x d2.exp.toInt t b)
    (he : -16057 ≤ d2.exp.toInt ∧ d2.exp.toInt ≤ -57) (q : Gen.decomposed192 × Int8) (i : UInt64) (t0 : Int8)
    (hq : QuoS d2 i t0 q) :
    -32768 ≤ b.2.1.exp.toInt + q.1.exp.toInt ∧ b.2.1.exp.toInt + q.1.exp.toInt + 58 ≤ 32767 := by
  obtain ⟨j, _, _, _, _, _, e1, e2⟩ := h
  obtain ⟨_, _, _, q1, q2⟩ := hq
  omega

theorem HInv.step {d2 : Gen.decomposed192} {t : Int8} {b : Int8 × Gen.decomposed192 × UInt64}
    (h : HInv (val d2) d2.exp.toInt t b) (hx0 : 0 < val d2) (hx1 : val d2 ≤ 1)
    (he : d2.exp.toInt ≤ -57) (hi : 1 < b.2.2)
    (q : Gen.decomposed192 × Int8) (hq : QuoS d2 b.2.2 0 q)
    (m : Gen.decomposed192 × Int8) (hm : MulQ2 b.2.1 q.1 b.1 m)
    (a : Gen.decomposed192 × Int8) (ha : Add1R m.1 m.2 a) :
    (b.2.2 - 1).toNat < b.2.2.toNat ∧ HInv (val d2) d2.exp.toInt t (a.2, a.1, b.2.2 - 1) := by
  obtain ⟨j, hj, hij, r1, r2, hf, e1, e2⟩ := h
  obtain ⟨q1, q2, -, q4, q5⟩ := hq
  obtain ⟨m1, m2, m3, m4, m5, m6⟩ := hm
  obtain ⟨a1, a2, a3, a4, a5⟩ := ha
  have hi' : 1 < b.2.2.toNat := by
    rw [UInt64.lt_iff_toNat_lt] at hi; exact hi
  have hsub : (b.2.2 - 1).toNat = b.2.2.toNat - 1 := by
    have h1' : (1 : UInt64).toNat = 1 := rfl
    rw [UInt64.toNat_sub_of_le _ _ (by rw [UInt64.le_iff_toNat_le, h1']; omega), h1']
  have hj' : j + 1 ≤ 38 := by omega
  have hik : b.2.2.toNat = 39 - j := hij
  have hG0 := G_pos (val d2) hx0 j
  have hG2 := G_le_two (val d2) hx0.le hx1 j hj
  have hk : (2 : ℚ) ≤ ((39 - j : Nat) : ℚ) := by
    have : 2 ≤ 39 - j := by omega
    exact_mod_cast this
  have hq0 : 0 < val d2 / ((39 - j : Nat) : ℚ) := div_pos hx0 (by linarith)
  have hqh : val d2 / ((39 - j : Nat) : ℚ) ≤ 1 / 2 := by
    rw [div_le_div_iff₀ (by linarith) (by norm_num)]; nlinarith
  rw [hik] at q1 q2
  have hs := horner_step (val d2 / ((39 - j : Nat) : ℚ)) (G (val d2) j) (val b.2.1) (val q.1) (val m.1)
    (val a.1) (1 + 3 * j) hq0.le hG0.le r1 r2 q2 q1 m2 m1 a2 a1
  have hθ := one_sub_theta_pos
  -- positivity of the product, to exclude the "huge exponent" alternative of add1
  have hres0 : 0 < val b.2.1 := lt_of_lt_of_le (mul_pos hG0 (pow_pos hθ _)) r1
  have htmp0 : 0 < val q.1 := lt_of_lt_of_le (mul_pos hq0 hθ) q2
  have hm0 : 0 < val m.1 := by
    have h1e : 0 < 1 - eps := one_sub_eps_pos
    exact lt_of_lt_of_le (mul_pos (mul_pos hres0 htmp0) h1e) m2
  have hm2 : val m.1 ≤ 2 := by
    calc val m.1 ≤ val b.2.1 * val q.1 := m1
      _ ≤ 2 * (1 / 2) := mul_le_mul (le_trans r2 hG2) (le_trans q1 hqh) htmp0.le (by norm_num)
      _ ≤ 2 := by norm_num
  have hmexp : m.1.exp.toInt ≤ 58 := by
    by_contra hc
    have hge : (59 : Int) ≤ m.1.exp.toInt := by omega
    have h1 := val_ge_pow m.1 (sig_pos_of_val_pos m.1 hm0)
    have hp : (10 : ℚ) ^ (59 : Int) ≤ (10 : ℚ) ^ m.1.exp.toInt := zpow_le_zpow_right₀ (by norm_num) hge
    have : (2 : ℚ) < (10 : ℚ) ^ (59 : Int) := by norm_num
    linarith
  refine ⟨by rw [hsub]; omega, j + 1, hj', ?_, ?_, ?_, ?_, ?_, ?_⟩
  · show (b.2.2 - 1).toNat = 39 - (j + 1)
    rw [hsub]; omega
  · show G (val d2) (j + 1) * (1 - theta) ^ (1 + 3 * (j + 1)) ≤ val a.1
    have : 1 + 3 * (j + 1) = 1 + 3 * j + 3 := by ring
    rw [this]; unfold G; exact hs.1
  · show val a.1 ≤ G (val d2) (j + 1)
    unfold G; exact hs.2
  · show a.2 = t ∨ a.2 = 1
    rcases a4 with h | h
    · rw [h]
      by_cases hmm : val m.1 = val b.2.1 * val q.1
      · rw [m3 hmm]; exact hf
      · right; exact m4 hmm
    · right; exact h
  · show d2.exp.toInt - 118 ≤ a.1.exp.toInt
    rcases a5 with ⟨_, h58⟩ | ⟨h, _⟩
    · omega
    · omega
  · show a.1.exp.toInt ≤ 58
    rcases a5 with ⟨_, h58⟩ | ⟨_, h⟩
    · omega
    · exact h

theorem HInv.final_pre {x : ℚ} {d2 : Gen.decomposed192} {t : Int8}
    {b : Int8 × Gen.decomposed192 × UInt64} (h : HInv x d2.exp.toInt t b)
    (he : -16057 ≤ d2.exp.toInt ∧ d2.exp.toInt ≤ -57) :
    -32768 ≤ b.2.1.exp.toInt + d2.exp.toInt ∧ b.2.1.exp.toInt + d2.exp.toInt + 58 ≤ 32767 := by
  obtain ⟨j, _, _, _, _, _, e1, e2⟩ := h
  omega

theorem HInv.final {d2 : Gen.decomposed192} {t : Int8} {b : Int8 × Gen.decomposed192 × UInt64}
    (h : HInv (val d2) d2.exp.toInt t b) (hx0 : 0 < val d2) (hi : b.2.2.toNat ≤ 1)
    (m : Gen.decomposed192 × Int8) (hm : MulQ2 b.2.1 d2 b.1 m)
    (a : Gen.decomposed192 × Int8) (ha : Add1R m.1 m.2 a) :
    R (val d2) * (1 - theta) ^ 118 ≤ val a.1 ∧ val a.1 ≤ R (val d2) ∧ 1 ≤ val a.1 ∧
      (a.2 = t ∨ a.2 = 1) := by
  obtain ⟨j, hj, hij, r1, r2, hf, e1, e2⟩ := h
  obtain ⟨m1, m2, m3, m4, m5, m6⟩ := hm
  obtain ⟨a1, a2, a3, a4, a5⟩ := ha
  have hj38 : j = 38 := by omega
  subst hj38
  have hθ := one_sub_theta_pos
  have hθ1 : 1 - theta ≤ 1 := by have := theta_pos; linarith
  have hG0 := G_pos (val d2) hx0 38
  have m1' : val m.1 ≤ val d2 * val b.2.1 := by rw [mul_comm]; exact m1
  have hs := horner_step (val d2) (G (val d2) 38) (val b.2.1) (val d2) (val m.1) (val a.1) (1 + 3 * 38)
    hx0.le hG0.le r1 r2 (by nlinarith) le_rfl m2 m1 a2 a1
  refine ⟨?_, ?_, a3, ?_⟩
  · unfold R; exact hs.1
  · unfold R; exact hs.2
  · rcases a4 with h | h
    · rw [h]
      by_cases hmm : val m.1 = val b.2.1 * val d2
      · rw [m3 hmm]; exact hf
      · right; exact m4 hmm
    · right; exact h

def epowE (d : Gen.decomposed192) (l10 : Int16) : Int := d.exp.toInt + l10.toInt + 1
/-- the reduced argument `x ∈ (0, 1]` of the series -/
def epowX (d : Gen.decomposed192) (l10 : Int16) : ℚ :=
  if epowE d l10 < 0 then val d else (d.sig.toNat : ℚ) * (10 : ℚ) ^ (-l10.toInt - 1)
/-- the power of ten handed to `powexp10` -/
def epowO (d : Gen.decomposed192) (l10 : Int16) : Int16 :=
  if epowE d l10 < 0 then 0 else d.exp + l10 + 1
/-- hypotheses of the `epow` contract -/
def EpowPre (d : Gen.decomposed192) (l10 : Int16) : Prop :=
  d.sig.toNat ≠ 0 ∧ -15900 ≤ d.exp.toInt ∧ d.exp.toInt ≤ 16000 ∧ -100 ≤ l10.toInt ∧ l10.toInt ≤ 100 ∧
    epowE d l10 ≤ 7 ∧ epowX d l10 ≤ 1

theorem epow_exp_toInt (d : Gen.decomposed192) (l10 : Int16) (h : EpowPre d l10) :
    (d.exp + l10 + 1).toInt = epowE d l10 := by
  obtain ⟨-, h1, h2, h3, h4, -, -⟩ := h
  have h1' : (1 : Int16).toInt = 1 := by decide
  have e1 : (d.exp + l10).toInt = d.exp.toInt + l10.toInt := by
    rw [Int16.toInt_add_of] <;> omega
  unfold epowE
  rw [Int16.toInt_add_of] <;> rw [e1, h1'] <;> omega

theorem EpowPre.neg {d : Gen.decomposed192} {l10 : Int16} (h : EpowPre d l10)
    (hlt : d.exp + l10 + 1 < 0) :
    1 ≤ d.sig.toNat ∧ (-15900 ≤ d.exp.toInt ∧ d.exp.toInt ≤ 16000) ∧
      (d.sig.toNat : ℚ) * (10 : ℚ) ^ d.exp.toInt ≤ 1 ∧
      epowX d l10 = (d.sig.toNat : ℚ) * (10 : ℚ) ^ d.exp.toInt ∧ epowO d l10 = 0 := by
  have he := epow_exp_toInt d l10 h
  have hE : epowE d l10 < 0 := by
    rw [← he]; rw [Int16.lt_iff_toInt_lt] at hlt; exact hlt
  obtain ⟨h0, h1, h2, h3, h4, h5, h6⟩ := h
  unfold epowX at h6 ⊢
  unfold epowO
  rw [if_pos hE] at h6 ⊢
  rw [if_pos hE]
  exact ⟨Nat.pos_of_ne_zero h0, ⟨h1, h2⟩, h6, rfl, rfl⟩

theorem EpowPre.pos {d : Gen.decomposed192} {l10 : Int16} (h : EpowPre d l10)
    (hge : 0 ≤ d.exp + l10 + 1) :
    1 ≤ d.sig.toNat ∧ (-15900 ≤ (-l10 - 1).toInt ∧ (-l10 - 1).toInt ≤ 16000) ∧
      (d.sig.toNat : ℚ) * (10 : ℚ) ^ (-l10 - 1).toInt ≤ 1 ∧
      epowX d l10 = (d.sig.toNat : ℚ) * (10 : ℚ) ^ (-l10 - 1).toInt ∧
      epowO d l10 = d.exp + l10 + 1 ∧ 0 ≤ (d.exp + l10 + 1).toInt ∧ (d.exp + l10 + 1).toInt ≤ 7 := by
  have he := epow_exp_toInt d l10 h
  have hE : ¬ epowE d l10 < 0 := by
    rw [← he]; rw [Int16.le_iff_toInt_le] at hge
    have : (0 : Int16).toInt = 0 := by decide
    omega
  obtain ⟨h0, h1, h2, h3, h4, h5, h6⟩ := h
  have h1' : (1 : Int16).toInt = 1 := by decide
  have eneg : (-l10).toInt = -l10.toInt := by
    rw [Int16.toInt_neg]
    apply Int.bmod_eq_of_le <;> omega
  have el : (-l10 - 1).toInt = -l10.toInt - 1 := by
    rw [Int16.toInt_sub_of] <;> rw [eneg, h1'] <;> omega
  unfold epowX at h6 ⊢
  unfold epowO
  rw [if_neg hE] at h6 ⊢
  rw [if_neg hE, el]
  refine ⟨Nat.pos_of_ne_zero h0, by omega, h6, rfl, rfl, by rw [he]; omega, by rw [he]; exact h5⟩


end D192
