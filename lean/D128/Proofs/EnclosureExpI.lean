/-
  Soundness of the rational enclosure oracle `Spec.Encl`, part 4: the scaled exponential `expI`/`exp`
  and the certified logarithm `log`.  No side hypotheses: `expI` answers `none` when the reduced argument
  leaves [−8, 8], and every `some` answer is a true enclosure.

  A positive real `T` lies in the scaled enclosure `s : Sci` when `T = z · 10^s.k` for some `z ∈ᵢ s.m`:
  `SciMem T s` (notation `T ∈ₛ s`).

  1. `expK a`, `expR a` : the decimal exponent and the reduced argument interval chosen by `expI a`;
     `expI_eq a : expI a = if −8 ≤ (expR a).lo && (expR a).hi ≤ 8 then some ⟨expSmallI (expR a), expK a⟩ else none`
     `Guard a` : −8 ≤ (expR a).lo ∧ (expR a).hi ≤ 8;  `expI_of_guard`, `expI_some` (the two directions)
  2. `mem_expR`     : y ∈ᵢ a → (y − expK a · log 10) ∈ᵢ expR a
     `expI_sound`   : expI a = some s → y ∈ᵢ a → Real.exp y ∈ₛ s
     `exp_sound`    : Encl.exp x = some s → Real.exp x ∈ₛ s
  3. `sciMem_le_hi`, `sciMem_ge_lo` : T ∈ₛ s → s.m.lo·10^s.k ≤ T ≤ s.m.hi·10^s.k
     `expLe_sound`  : expLe g q k = true → Real.exp g ≤ q·10^k
     `expGe_sound`  : expGe g q k = true → q·10^k ≤ Real.exp g
  4. `log_some`     : log q k = some l → expLe l.lo q k = true ∧ expGe l.hi q k = true
     `log_sound`    : 0 < q → log q k = some l → Real.log (q·10^k) ∈ᵢ l
  5. `expm1_sound`  : expm1 x = some v → Real.exp x − 1 ∈ᵢ v
-/
import D128.Proofs.EnclosureConst
import D128.Proofs.EnclosureExp
import Mathlib.Analysis.SpecialFunctions.Log.Basic
set_option autoImplicit false

namespace EnclPf
open Spec Spec.Encl SpecRound

/-! ## 1. the pieces of `expI` -/

/-- the decimal exponent chosen by `expI a` -/
def expK (a : I) : Int := (((a.lo + a.hi) / 2) / ((ln10.lo + ln10.hi) / 2)).floor

/-- the reduced argument interval of `expI a` -/
def expR (a : I) : I := a.sub (ln10.scale ((expK a : Int) : Rat))

theorem expI_eq (a : I) :
    expI a = if -8 ≤ (expR a).lo && (expR a).hi ≤ 8 then some ⟨expSmallI (expR a), expK a⟩ else none := rfl

/-- the guard of `expI`: the reduced argument lies in [−8, 8] -/
def Guard (a : I) : Prop := -8 ≤ (expR a).lo ∧ (expR a).hi ≤ 8

theorem expI_of_guard {a : I} (h : Guard a) : expI a = some ⟨expSmallI (expR a), expK a⟩ := by
  rw [expI_eq]
  have : (decide (-8 ≤ (expR a).lo) && decide ((expR a).hi ≤ 8)) = true := by
    simp only [Bool.and_eq_true, decide_eq_true_eq]; exact h
  rw [if_pos this]

theorem expI_some {a : I} {s : Sci} (h : expI a = some s) :
    Guard a ∧ s = ⟨expSmallI (expR a), expK a⟩ := by
  rw [expI_eq] at h
  split at h
  · rename_i hg
    simp only [Bool.and_eq_true, decide_eq_true_eq] at hg
    exact ⟨hg, (Option.some.inj h).symm⟩
  · exact absurd h (by simp)

/-- `T = z·10^k` with `z` in the mantissa interval -/
def SciMem (T : ℝ) (s : Sci) : Prop := ∃ z : ℝ, z ∈ᵢ s.m ∧ T = z * (10 : ℝ) ^ s.k

scoped infix:50 " ∈ₛ " => SciMem

theorem sciMem_mk {T : ℝ} {m : I} {k : Int} : T ∈ₛ (⟨m, k⟩ : Sci) ↔ ∃ z : ℝ, z ∈ᵢ m ∧ T = z * (10 : ℝ) ^ k :=
  Iff.rfl

/-! ## 2. `expI`, `exp` -/

theorem mem_expR {a : I} {y : ℝ} (hy : y ∈ᵢ a) : (y - (expK a : ℝ) * Real.log 10) ∈ᵢ expR a := by
  have h := mem_sub hy (mem_scale ln10_sound ((expK a : Int) : Rat))
  have e : Real.log 10 * (((expK a : Int) : Rat) : ℝ) = (expK a : ℝ) * Real.log 10 := by
    push_cast; ring
  rw [e] at h
  exact h

theorem exp_int_mul_log10 (k : Int) : Real.exp ((k : ℝ) * Real.log 10) = (10 : ℝ) ^ k := by
  rw [← Real.log_zpow, Real.exp_log (zpow_pos (by norm_num) k)]

theorem guard_abs {a : I} (h : Guard a) (hle : (expR a).lo ≤ (expR a).hi) :
    |(expR a).lo| ≤ 20992 ∧ |(expR a).hi| ≤ 20992 := by
  obtain ⟨h1, h2⟩ := h
  constructor <;> rw [abs_le] <;> constructor <;> linarith

theorem expI_sound {a : I} {s : Sci} {y : ℝ} (h : expI a = some s) (hy : y ∈ᵢ a) : Real.exp y ∈ₛ s := by
  obtain ⟨hg, rfl⟩ := expI_some h
  have hm := mem_expR hy
  obtain ⟨b1, b2⟩ := guard_abs hg (lo_le_hi_of_mem hm)
  rw [sciMem_mk]
  refine ⟨Real.exp (y - (expK a : ℝ) * Real.log 10), expSmallI_sound _ _ hm b1 b2, ?_⟩
  rw [← exp_int_mul_log10, ← Real.exp_add]
  congr 1; ring

theorem exp_eq (x : ℚ) : Encl.exp x = expI (I.pt x) := rfl

theorem exp_sound {x : ℚ} {s : Sci} (h : Encl.exp x = some s) : Real.exp (x : ℝ) ∈ₛ s := by
  rw [exp_eq] at h; exact expI_sound h (mem_pt x)

/-! ## 3. the two one-sided tests -/

theorem sciMem_le_hi {T : ℝ} {s : Sci} (h : T ∈ₛ s) : T ≤ (s.m.hi : ℝ) * (10 : ℝ) ^ s.k := by
  obtain ⟨z, hz, rfl⟩ := h
  exact mul_le_mul_of_nonneg_right hz.2 (zpow_pos (by norm_num) _).le

theorem sciMem_ge_lo {T : ℝ} {s : Sci} (h : T ∈ₛ s) : (s.m.lo : ℝ) * (10 : ℝ) ^ s.k ≤ T := by
  obtain ⟨z, hz, rfl⟩ := h
  exact mul_le_mul_of_nonneg_right hz.1 (zpow_pos (by norm_num) _).le

theorem pow10_cast (e : Int) : ((pow10 e : ℚ) : ℝ) = (10 : ℝ) ^ e := by
  rw [pow10_eq_zpow]; push_cast; rfl

theorem expLe_eq (g q : ℚ) (k : Int) :
    expLe g q k = match Encl.exp g with
      | none => false
      | some e => decide (e.m.hi * pow10 (e.k - k) ≤ q) := rfl

theorem expGe_eq (g q : ℚ) (k : Int) :
    expGe g q k = match Encl.exp g with
      | none => false
      | some e => decide (e.m.lo * pow10 (e.k - k) ≥ q) := rfl

theorem expLe_sound {g q : ℚ} {k : Int} (h : expLe g q k = true) :
    Real.exp (g : ℝ) ≤ (q : ℝ) * (10 : ℝ) ^ k := by
  rw [expLe_eq] at h
  split at h
  · exact absurd h (by simp)
  rename_i s hs
  rw [decide_eq_true_eq] at h
  have h' : ((s.m.hi * pow10 (s.k - k) : ℚ) : ℝ) ≤ (q : ℝ) := by exact_mod_cast h
  rw [Rat.cast_mul, pow10_cast, zpow_sub₀ (by norm_num)] at h'
  have hk : (0 : ℝ) < (10 : ℝ) ^ k := zpow_pos (by norm_num) k
  have h1 := sciMem_le_hi (exp_sound hs)
  calc Real.exp (g : ℝ) ≤ (s.m.hi : ℝ) * (10 : ℝ) ^ s.k := h1
    _ = (s.m.hi : ℝ) * ((10 : ℝ) ^ s.k / (10 : ℝ) ^ k) * (10 : ℝ) ^ k := by field_simp
    _ ≤ (q : ℝ) * (10 : ℝ) ^ k := mul_le_mul_of_nonneg_right h' hk.le

theorem expGe_sound {g q : ℚ} {k : Int} (h : expGe g q k = true) :
    (q : ℝ) * (10 : ℝ) ^ k ≤ Real.exp (g : ℝ) := by
  rw [expGe_eq] at h
  split at h
  · exact absurd h (by simp)
  rename_i s hs
  rw [decide_eq_true_eq] at h
  have h' : (q : ℝ) ≤ ((s.m.lo * pow10 (s.k - k) : ℚ) : ℝ) := by exact_mod_cast h
  rw [Rat.cast_mul, pow10_cast, zpow_sub₀ (by norm_num)] at h'
  have hk : (0 : ℝ) < (10 : ℝ) ^ k := zpow_pos (by norm_num) k
  have h1 := sciMem_ge_lo (exp_sound hs)
  calc (q : ℝ) * (10 : ℝ) ^ k
      ≤ (s.m.lo : ℝ) * ((10 : ℝ) ^ s.k / (10 : ℝ) ^ k) * (10 : ℝ) ^ k :=
        mul_le_mul_of_nonneg_right h' hk.le
    _ = (s.m.lo : ℝ) * (10 : ℝ) ^ s.k := by field_simp
    _ ≤ Real.exp (g : ℝ) := h1

/-! ## 4. the certified logarithm -/

theorem log_some {q : ℚ} {k : Int} {l : I} (h : Encl.log q k = some l) :
    expLe l.lo q k = true ∧ expGe l.hi q k = true := by
  unfold Encl.log at h
  simp only [Option.ite_none_right_eq_some, Bool.and_eq_true, Option.some.injEq] at h
  obtain ⟨hc, rfl⟩ := h
  exact hc

theorem log_sound {q : ℚ} {k : Int} {l : I} (hq : 0 < q) (h : Encl.log q k = some l) :
    Real.log ((q : ℝ) * (10 : ℝ) ^ k) ∈ᵢ l := by
  obtain ⟨h1, h2⟩ := log_some h
  have hpos : (0 : ℝ) < (q : ℝ) * (10 : ℝ) ^ k :=
    mul_pos (by exact_mod_cast hq) (zpow_pos (by norm_num) k)
  exact ⟨(Real.le_log_iff_exp_le hpos).2 (expLe_sound h1),
         (Real.log_le_iff_le_exp hpos).2 (expGe_sound h2)⟩

/-! ## 5. `expm1` -/

theorem expm1_sound {x : ℚ} {v : I} (h : Encl.expm1 x = some v) : (Real.exp (x : ℝ) - 1) ∈ᵢ v := by
  unfold Encl.expm1 at h
  rw [ite_neg_eq_abs] at h
  split at h
  · rename_i hx
    obtain rfl := Option.some.inj h
    exact expm1Tiny_sound x (le_trans hx (by norm_num))
  · split at h
    · exact absurd h (by simp)
    · rename_i s hs
      obtain rfl := Option.some.inj h
      have hsnd := exp_sound hs
      have h1 := sciMem_le_hi hsnd
      have h2 := sciMem_ge_lo hsnd
      rw [mem_mk]
      constructor
      · apply rdDown_le_real
        rw [Rat.cast_sub, Rat.cast_mul, pow10_cast]; push_cast; linarith
      · apply le_rdUp_real
        rw [Rat.cast_sub, Rat.cast_mul, pow10_cast]; push_cast; linarith

end EnclPf
