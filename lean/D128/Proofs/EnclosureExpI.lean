/-
  Soundness of the rational enclosure oracle `Spec.Encl`, part 4: the scaled exponential `expI`/`exp`
  and the certified logarithm `log`.

  A positive real `T` lies in the scaled enclosure `s : Sci` when `T = z · 10^s.k` for some `z ∈ᵢ s.m`:
  `SciMem T s` (notation `T ∈ₛ s`).

  1. `expK a`, `expR a` : the decimal exponent and the reduced argument interval chosen by `expI a`;
     `expI_eq a : expI a = ⟨expSmallI (expR a), expK a⟩`   (by `rfl`)
     `InRange a` : |(expR a).lo| ≤ 20992 ∧ |(expR a).hi| ≤ 20992 (the range on which the Taylor/squaring
     kernel is proved sound; `EnclosureRange.lean` derives it from bounds on `a` alone)
  2. `mem_expR`     : y ∈ᵢ a → (y − expK a · log 10) ∈ᵢ expR a
     `expI_sound`   : y ∈ᵢ a → InRange a → Real.exp y ∈ₛ expI a
     `exp_sound`    : InRange (I.pt x) → Real.exp x ∈ₛ exp x
  3. `sciMem_le_hi`, `sciMem_ge_lo` : T ∈ₛ s → s.m.lo·10^s.k ≤ T ≤ s.m.hi·10^s.k
     `expLe_sound`  : expLe g q k = true → InRange (I.pt g) → Real.exp g ≤ q·10^k
     `expGe_sound`  : expGe g q k = true → InRange (I.pt g) → q·10^k ≤ Real.exp g
  4. `log_some`     : log q k = some l → expLe l.lo q k = true ∧ expGe l.hi q k = true
     `log_sound`    : 0 < q → log q k = some l → InRange (I.pt l.lo) → InRange (I.pt l.hi) →
                      Real.log (q·10^k) ∈ᵢ l
  5. `expm1_sound`  : (1/64 < |x| → InRange (I.pt x)) → Real.exp x − 1 ∈ᵢ expm1 x
-/
import D128.Proofs.EnclosureConst
import D128.Proofs.EnclosureExp
import Mathlib.Analysis.SpecialFunctions.Log.Basic
set_option autoImplicit false

namespace EnclPf
open Spec Spec.Encl SpecRound

/-! ## 1. the pieces of `expI` -/

/-- the decimal exponent chosen by `expI a` -/
def expK (a : I) : Int := (((a.lo + a.hi) / 2) / ((ln10.lo + ln10.hi) / 2)).floor

/-- the reduced argument interval of `expI a` -/
def expR (a : I) : I := a.sub (ln10.scale ((expK a : Int) : Rat))

theorem expI_eq (a : I) : expI a = ⟨expSmallI (expR a), expK a⟩ := rfl

/-- the reduced argument stays in the range on which `expSmall` is proved sound -/
def InRange (a : I) : Prop := |(expR a).lo| ≤ 20992 ∧ |(expR a).hi| ≤ 20992

/-- `T = z·10^k` with `z` in the mantissa interval -/
def SciMem (T : ℝ) (s : Sci) : Prop := ∃ z : ℝ, z ∈ᵢ s.m ∧ T = z * (10 : ℝ) ^ s.k

scoped infix:50 " ∈ₛ " => SciMem

theorem sciMem_mk {T : ℝ} {m : I} {k : Int} : T ∈ₛ (⟨m, k⟩ : Sci) ↔ ∃ z : ℝ, z ∈ᵢ m ∧ T = z * (10 : ℝ) ^ k :=
  Iff.rfl

/-! ## 2. `expI`, `exp` -/

theorem mem_expR {a : I} {y : ℝ} (hy : y ∈ᵢ a) : (y - (expK a : ℝ) * Real.log 10) ∈ᵢ expR a := by
  have h := mem_sub hy (mem_scale ln10_sound ((expK a : Int) : Rat))
  have e : Real.log 10 * (((expK a : Int) : Rat) : ℝ) = (expK a : ℝ) * Real.log 10 := by
    push_cast; ring
  rw [e] at h
  exact h

theorem exp_int_mul_log10 (k : Int) : Real.exp ((k : ℝ) * Real.log 10) = (10 : ℝ) ^ k := by
  rw [← Real.log_zpow, Real.exp_log (zpow_pos (by norm_num) k)]

theorem expI_sound (a : I) (y : ℝ) (hy : y ∈ᵢ a) (hr : InRange a) : Real.exp y ∈ₛ expI a := by
  rw [expI_eq, sciMem_mk]
  refine ⟨Real.exp (y - (expK a : ℝ) * Real.log 10), expSmallI_sound _ _ (mem_expR hy) hr.1 hr.2, ?_⟩
  rw [← exp_int_mul_log10, ← Real.exp_add]
  congr 1; ring

theorem exp_eq (x : ℚ) : Encl.exp x = expI (I.pt x) := rfl

theorem exp_sound (x : ℚ) (hr : InRange (I.pt x)) : Real.exp (x : ℝ) ∈ₛ Encl.exp x := by
  rw [exp_eq]; exact expI_sound _ _ (mem_pt x) hr

/-! ## 3. the two one-sided tests -/

theorem sciMem_le_hi {T : ℝ} {s : Sci} (h : T ∈ₛ s) : T ≤ (s.m.hi : ℝ) * (10 : ℝ) ^ s.k := by
  obtain ⟨z, hz, rfl⟩ := h
  exact mul_le_mul_of_nonneg_right hz.2 (zpow_pos (by norm_num) _).le

theorem sciMem_ge_lo {T : ℝ} {s : Sci} (h : T ∈ₛ s) : (s.m.lo : ℝ) * (10 : ℝ) ^ s.k ≤ T := by
  obtain ⟨z, hz, rfl⟩ := h
  exact mul_le_mul_of_nonneg_right hz.1 (zpow_pos (by norm_num) _).le

theorem pow10_cast (e : Int) : ((pow10 e : ℚ) : ℝ) = (10 : ℝ) ^ e := by
  rw [pow10_eq_zpow]; push_cast; rfl

theorem expLe_eq (g q : ℚ) (k : Int) :
    expLe g q k = decide ((Encl.exp g).m.hi * pow10 ((Encl.exp g).k - k) ≤ q) := rfl

theorem expGe_eq (g q : ℚ) (k : Int) :
    expGe g q k = decide ((Encl.exp g).m.lo * pow10 ((Encl.exp g).k - k) ≥ q) := rfl

theorem expLe_sound {g q : ℚ} {k : Int} (h : expLe g q k = true) (hr : InRange (I.pt g)) :
    Real.exp (g : ℝ) ≤ (q : ℝ) * (10 : ℝ) ^ k := by
  rw [expLe_eq, decide_eq_true_eq] at h
  have h' : (((Encl.exp g).m.hi * pow10 ((Encl.exp g).k - k) : ℚ) : ℝ) ≤ (q : ℝ) := by exact_mod_cast h
  rw [Rat.cast_mul, pow10_cast, zpow_sub₀ (by norm_num)] at h'
  have hk : (0 : ℝ) < (10 : ℝ) ^ k := zpow_pos (by norm_num) k
  have h1 := sciMem_le_hi (exp_sound g hr)
  calc Real.exp (g : ℝ) ≤ ((Encl.exp g).m.hi : ℝ) * (10 : ℝ) ^ (Encl.exp g).k := h1
    _ = ((Encl.exp g).m.hi : ℝ) * ((10 : ℝ) ^ (Encl.exp g).k / (10 : ℝ) ^ k) * (10 : ℝ) ^ k := by
        field_simp
    _ ≤ (q : ℝ) * (10 : ℝ) ^ k := mul_le_mul_of_nonneg_right h' hk.le

theorem expGe_sound {g q : ℚ} {k : Int} (h : expGe g q k = true) (hr : InRange (I.pt g)) :
    (q : ℝ) * (10 : ℝ) ^ k ≤ Real.exp (g : ℝ) := by
  rw [expGe_eq, decide_eq_true_eq] at h
  have h' : (q : ℝ) ≤ (((Encl.exp g).m.lo * pow10 ((Encl.exp g).k - k) : ℚ) : ℝ) := by exact_mod_cast h
  rw [Rat.cast_mul, pow10_cast, zpow_sub₀ (by norm_num)] at h'
  have hk : (0 : ℝ) < (10 : ℝ) ^ k := zpow_pos (by norm_num) k
  have h1 := sciMem_ge_lo (exp_sound g hr)
  calc (q : ℝ) * (10 : ℝ) ^ k
      ≤ ((Encl.exp g).m.lo : ℝ) * ((10 : ℝ) ^ (Encl.exp g).k / (10 : ℝ) ^ k) * (10 : ℝ) ^ k :=
        mul_le_mul_of_nonneg_right h' hk.le
    _ = ((Encl.exp g).m.lo : ℝ) * (10 : ℝ) ^ (Encl.exp g).k := by field_simp
    _ ≤ Real.exp (g : ℝ) := h1

/-! ## 4. the certified logarithm -/

theorem log_some {q : ℚ} {k : Int} {l : I} (h : Encl.log q k = some l) :
    expLe l.lo q k = true ∧ expGe l.hi q k = true := by
  unfold Encl.log at h
  simp only [Option.ite_none_right_eq_some, Bool.and_eq_true, Option.some.injEq] at h
  obtain ⟨hc, rfl⟩ := h
  exact hc

theorem log_sound {q : ℚ} {k : Int} {l : I} (hq : 0 < q) (h : Encl.log q k = some l)
    (hlo : InRange (I.pt l.lo)) (hhi : InRange (I.pt l.hi)) :
    Real.log ((q : ℝ) * (10 : ℝ) ^ k) ∈ᵢ l := by
  obtain ⟨h1, h2⟩ := log_some h
  have hpos : (0 : ℝ) < (q : ℝ) * (10 : ℝ) ^ k :=
    mul_pos (by exact_mod_cast hq) (zpow_pos (by norm_num) k)
  exact ⟨(Real.le_log_iff_exp_le hpos).2 (expLe_sound h1 hlo),
         (Real.log_le_iff_le_exp hpos).2 (expGe_sound h2 hhi)⟩

/-! ## 5. `expm1` -/

theorem expm1_sound (x : ℚ) (hr : 1 / 64 < |x| → InRange (I.pt x)) :
    (Real.exp (x : ℝ) - 1) ∈ᵢ expm1 x := by
  unfold expm1
  rw [ite_neg_eq_abs]
  split
  · rename_i h
    exact expm1Tiny_sound x (le_trans h (by norm_num))
  · rename_i h
    have hs := exp_sound x (hr (not_le.1 h))
    have h1 := sciMem_le_hi hs
    have h2 := sciMem_ge_lo hs
    simp only
    constructor
    · apply rdDown_le_real
      rw [Rat.cast_sub, Rat.cast_mul, pow10_cast]; push_cast; linarith
    · apply le_rdUp_real
      rw [Rat.cast_sub, Rat.cast_mul, pow10_cast]; push_cast; linarith

end EnclPf
