/-
  D128/Proofs/FromRatBoundMain.lean — the error bounds of `Gen.FromRat` with explicit thresholds on
  numerator and denominator, decimal constants, and `r = 0` included.  (`FromRatBoundGen.lean` has the
  versions with the exact hypotheses "`FromInt(num)` and `FromInt(den)` are finite" and exact constants.)

  Provided (namespace `FromRatBound`); `v` = value of `FromRat r`, `T½ = (Cmax+½)·10^Emax` (≈ 1.298e6145, the
  overflow threshold of the nearest modes), `Max = Cmax·10^Emax` (the largest finite Decimal):
  * `FromRat_zero_val`             `FromRat 0` is `+0`
  * `FromRat_bound_nearest`        nearest, `|num|, den < T½`:  `|v − r| ≤ 0.8e-33·|r| + max (10^Emin/2) (0.4e-33·|r|)`
  * `FromRat_rel_nearest`          … and `|r| ≥ 5·10^(Emin+32)`:  `|v − r| ≤ 2e-33·|r|`          (the C10 clause)
  * `FromRat_rel_nearest_normal`   … and `|r| ≥ 10^(Emin+33)`:    `|v − r| ≤ 1.3e-33·|r|`
  * `FromRat_abs_nearest`          … any `r`:                      `|v − r| ≤ 1.2e-33·|r| + 10^Emin/2`
  * `FromRat_bound_any`            every mode, `|num|, den ≤ Max`: `|v − r| ≤ 1.6e-33·|r| + max (10^Emin) (0.8e-33·|r|)`
  * `FromRat_rel_any`              … and `|r| ≥ 10^(Emin+33)`:    `|v − r| ≤ 2.6e-33·|r|`
  * `FromRat_bound_same`, `FromRat_rel_same`   toZero, awayFromZero, toNegInf/toPosInf with `r > 0`:
                                   `|v − r| ≤ 0.8e-33·|r| + max (10^Emin) (0.8e-33·|r|)`, `≤ 1.8e-33·|r|`
-/
import D128.Proofs.FromRatBoundGen
set_option autoImplicit false

namespace FromRatBound
open Spec SpecRound BigConv
local notation "𝔳[" d "]" => Spec.interp (Gen.Decimal.lo d) (Gen.Decimal.hi d)

theorem FromRat_zero_val (g : Globals) :
    ∃ d, Gen.FromRat g 0 = .ok d ∧ (𝔳[d]).isFin = true ∧ (𝔳[d]).toRat = 0 := by
  refine ⟨Gen.zero false, by rw [FromRat_eq]; rfl, ?_, ?_⟩
  · rw [Enc.interp_zero]; rfl
  · rw [Enc.interp_zero]; simp [Val.toRat, Spec.mag]

theorem isFin_of_fin {v : Val} {n : Bool} {c : Nat} {e : Int} (h : v = .fin n c e) : v.isFin = true := by
  rw [h]; rfl

theorem ten_m33 : (10 : ℚ) ^ (-33 : Int) = 1 / 10 ^ 33 := by norm_num

theorem half_unit_le {r : ℚ} (hr : 5 * (10 : ℚ) ^ (Spec.Emin + 32) ≤ r) :
    (10 : ℚ) ^ Spec.Emin / 2 ≤ (10 : ℚ) ^ (-33 : Int) * r := by
  rw [zpow_add₀ (by norm_num : (10 : ℚ) ≠ 0)] at hr
  rw [ten_m33]
  generalize (10 : ℚ) ^ Spec.Emin = p at *
  have h32 : (10 : ℚ) ^ (32 : Int) = 10 ^ 32 := by norm_num
  rw [h32] at hr
  have : (1 : ℚ) / 10 ^ 33 * (5 * (p * 10 ^ 32)) = p / 2 := by ring
  rw [← this]
  exact mul_le_mul_of_nonneg_left hr (by norm_num)

theorem unit_le {r : ℚ} (hr : (10 : ℚ) ^ (Spec.Emin + 33) ≤ r) :
    (10 : ℚ) ^ Spec.Emin ≤ (10 : ℚ) ^ (-33 : Int) * r := by
  rw [zpow_add₀ (by norm_num : (10 : ℚ) ≠ 0)] at hr
  rw [ten_m33]
  generalize (10 : ℚ) ^ Spec.Emin = p at *
  have h33 : (10 : ℚ) ^ (33 : Int) = 10 ^ 33 := by norm_num
  rw [h33] at hr
  have : (1 : ℚ) / 10 ^ 33 * (p * 10 ^ 33) = p := by ring
  rw [← this]
  exact mul_le_mul_of_nonneg_left hr (by norm_num)

theorem bound_nonneg {a b A R : ℚ} (ha : 0 ≤ a) (hA : 0 ≤ A) (hR : 0 ≤ R) :
    0 ≤ a * R + max A (b * R) :=
  add_nonneg (mul_nonneg ha hR) (le_max_of_le_left hA)

/-- closing step of the corollaries: `a·X + max A (b·X) ≤ c·X` when `A ≤ k·X`, `b ≤ k`, `a + k ≤ c` -/
theorem close_rel {a b c k A X : ℚ} (hX : 0 ≤ X) (hA : A ≤ k * X) (hb : b ≤ k) (hc : a + k ≤ c) :
    a * X + max A (b * X) ≤ c * X := by
  have h1 : max A (b * X) ≤ k * X := max_le hA (mul_le_mul_of_nonneg_right hb hX)
  have h2 : (a + k) * X ≤ c * X := mul_le_mul_of_nonneg_right hc hX
  linarith

theorem assoc3 (c x y : ℚ) : c * x * y = c * (x * y) := mul_assoc c x y

/-! ## nearest modes -/

/-- **nearest modes, explicit thresholds.**  For every rational whose numerator and denominator are
    below `(Cmax+½)·10^Emax` (the overflow threshold of `FromInt` in a nearest mode; about `1.298e6145`)
    `FromRat r` is finite and `|FromRat r − r| ≤ 0.8e-33·|r| + max (½·10^Emin) (0.4e-33·|r|)`. -/
theorem FromRat_bound_nearest (g : Globals) (r : Rat) (m : Spec.Mode)
    (hm : Spec.Mode.ofNat? g.DefaultRoundingMode.toNat = some m) (hnear : isNearest m = true)
    (hnum : (r.num.natAbs : ℚ) < ((Spec.Cmax : ℚ) + 1 / 2) * (10 : ℚ) ^ Spec.Emax)
    (hden : (r.den : ℚ) < ((Spec.Cmax : ℚ) + 1 / 2) * (10 : ℚ) ^ Spec.Emax) :
    ∃ d, Gen.FromRat g r = .ok d ∧ (𝔳[d]).isFin = true ∧
      |(𝔳[d]).toRat - r| ≤ 8 / 10 * (10 : ℚ) ^ (-33 : Int) * |r| +
        max ((10 : ℚ) ^ Spec.Emin / 2) (4 / 10 * (10 : ℚ) ^ (-33 : Int) * |r|) := by
  have hp : (0 : ℚ) < (10 : ℚ) ^ Spec.Emin := zpow_pos (by norm_num) _
  by_cases hr : r = 0
  · subst hr
    obtain ⟨d, h1, h2, h3⟩ := FromRat_zero_val g
    refine ⟨d, h1, h2, ?_⟩
    rw [h3, sub_zero, abs_zero]
    exact bound_nonneg (by norm_num) (by positivity) (le_refl _)
  · have hN := natAbs_pos_q hr
    have hD := den_pos_q r
    obtain ⟨cn, en, h1, -⟩ := roundTo_fin_of_lt_half hnear (decide (r.num < 0)) (by linarith) hnum
    obtain ⟨cd, ed, h2, -⟩ := roundTo_fin_of_lt_half hnear false (by linarith) hden
    obtain ⟨d, e1, e2, e3⟩ := FromRat_error_nearest g r m hm hnear hr (isFin_of_fin h1) (isFin_of_fin h2)
    exact ⟨d, e1, e2, le_trans e3 (bound_simpl c_near_a c_near_b (abs_nonneg r))⟩

/-- **the C10 clause, nearest modes**: within 2 parts in 10^33, from `5·10^(Emin+32) = 5e-6144` on -/
theorem FromRat_rel_nearest (g : Globals) (r : Rat) (m : Spec.Mode)
    (hm : Spec.Mode.ofNat? g.DefaultRoundingMode.toNat = some m) (hnear : isNearest m = true)
    (hnum : (r.num.natAbs : ℚ) < ((Spec.Cmax : ℚ) + 1 / 2) * (10 : ℚ) ^ Spec.Emax)
    (hden : (r.den : ℚ) < ((Spec.Cmax : ℚ) + 1 / 2) * (10 : ℚ) ^ Spec.Emax)
    (hlow : 5 * (10 : ℚ) ^ (Spec.Emin + 32) ≤ |r|) :
    ∃ d, Gen.FromRat g r = .ok d ∧ (𝔳[d]).isFin = true ∧
      |(𝔳[d]).toRat - r| ≤ 2 * (10 : ℚ) ^ (-33 : Int) * |r| := by
  obtain ⟨d, e1, e2, e3⟩ := FromRat_bound_nearest g r m hm hnear hnum hden
  refine ⟨d, e1, e2, le_trans e3 ?_⟩
  have h1 := half_unit_le hlow
  have hpos : (0 : ℚ) < (10 : ℚ) ^ (-33 : Int) := zpow_pos (by norm_num) _
  have hRp : 0 ≤ (10 : ℚ) ^ (-33 : Int) * |r| := mul_nonneg hpos.le (abs_nonneg r)
  simp only [assoc3]
  exact close_rel (k := 1) hRp (by rw [one_mul]; exact h1) (by norm_num) (by norm_num)

/-- … in the normal range (`|r| ≥ 10^(Emin+33) = 1e-6143`): within 1.3 parts in 10^33 -/
theorem FromRat_rel_nearest_normal (g : Globals) (r : Rat) (m : Spec.Mode)
    (hm : Spec.Mode.ofNat? g.DefaultRoundingMode.toNat = some m) (hnear : isNearest m = true)
    (hnum : (r.num.natAbs : ℚ) < ((Spec.Cmax : ℚ) + 1 / 2) * (10 : ℚ) ^ Spec.Emax)
    (hden : (r.den : ℚ) < ((Spec.Cmax : ℚ) + 1 / 2) * (10 : ℚ) ^ Spec.Emax)
    (hlow : (10 : ℚ) ^ (Spec.Emin + 33) ≤ |r|) :
    ∃ d, Gen.FromRat g r = .ok d ∧ (𝔳[d]).isFin = true ∧
      |(𝔳[d]).toRat - r| ≤ 13 / 10 * (10 : ℚ) ^ (-33 : Int) * |r| := by
  obtain ⟨d, e1, e2, e3⟩ := FromRat_bound_nearest g r m hm hnear hnum hden
  refine ⟨d, e1, e2, le_trans e3 ?_⟩
  have h1 := unit_le hlow
  have hpos : (0 : ℚ) < (10 : ℚ) ^ (-33 : Int) := zpow_pos (by norm_num) _
  have hRp : 0 ≤ (10 : ℚ) ^ (-33 : Int) * |r| := mul_nonneg hpos.le (abs_nonneg r)
  simp only [assoc3]
  generalize (10 : ℚ) ^ (-33 : Int) * |r| = X at *
  generalize (10 : ℚ) ^ Spec.Emin = P at *
  exact close_rel (k := 1 / 2) hRp (by linarith) (by norm_num) (by norm_num)

/-- … for every `r` (subnormal range included): relative part plus half a unit of `10^Emin` -/
theorem FromRat_abs_nearest (g : Globals) (r : Rat) (m : Spec.Mode)
    (hm : Spec.Mode.ofNat? g.DefaultRoundingMode.toNat = some m) (hnear : isNearest m = true)
    (hnum : (r.num.natAbs : ℚ) < ((Spec.Cmax : ℚ) + 1 / 2) * (10 : ℚ) ^ Spec.Emax)
    (hden : (r.den : ℚ) < ((Spec.Cmax : ℚ) + 1 / 2) * (10 : ℚ) ^ Spec.Emax) :
    ∃ d, Gen.FromRat g r = .ok d ∧ (𝔳[d]).isFin = true ∧
      |(𝔳[d]).toRat - r| ≤ 12 / 10 * (10 : ℚ) ^ (-33 : Int) * |r| + (10 : ℚ) ^ Spec.Emin / 2 := by
  obtain ⟨d, e1, e2, e3⟩ := FromRat_bound_nearest g r m hm hnear hnum hden
  refine ⟨d, e1, e2, le_trans e3 ?_⟩
  have hp : (0 : ℚ) < (10 : ℚ) ^ Spec.Emin := zpow_pos (by norm_num) _
  have hpos : (0 : ℚ) < (10 : ℚ) ^ (-33 : Int) := zpow_pos (by norm_num) _
  have hRp : 0 ≤ (10 : ℚ) ^ (-33 : Int) * |r| := mul_nonneg hpos.le (abs_nonneg r)
  simp only [assoc3]
  generalize (10 : ℚ) ^ (-33 : Int) * |r| = X at *
  generalize (10 : ℚ) ^ Spec.Emin = P at *
  have h2 : max (P / 2) (4 / 10 * X) ≤ P / 2 + 4 / 10 * X := max_le (by linarith) (by linarith)
  linarith

/-! ## every mode -/

/-- **every mode** (directed modes included), numerator and denominator at most the largest finite
    Decimal `Cmax·10^Emax` -/
theorem FromRat_bound_any (g : Globals) (r : Rat) (m : Spec.Mode)
    (hm : Spec.Mode.ofNat? g.DefaultRoundingMode.toNat = some m)
    (hnum : (r.num.natAbs : ℚ) ≤ (Spec.Cmax : ℚ) * (10 : ℚ) ^ Spec.Emax)
    (hden : (r.den : ℚ) ≤ (Spec.Cmax : ℚ) * (10 : ℚ) ^ Spec.Emax) :
    ∃ d, Gen.FromRat g r = .ok d ∧ (𝔳[d]).isFin = true ∧
      |(𝔳[d]).toRat - r| ≤ 16 / 10 * (10 : ℚ) ^ (-33 : Int) * |r| +
        max ((10 : ℚ) ^ Spec.Emin) (8 / 10 * (10 : ℚ) ^ (-33 : Int) * |r|) := by
  have hp : (0 : ℚ) < (10 : ℚ) ^ Spec.Emin := zpow_pos (by norm_num) _
  by_cases hr : r = 0
  · subst hr
    obtain ⟨d, h1, h2, h3⟩ := FromRat_zero_val g
    refine ⟨d, h1, h2, ?_⟩
    rw [h3, sub_zero, abs_zero]
    exact bound_nonneg (by norm_num) hp.le (le_refl _)
  · have hN := natAbs_pos_q hr
    have hD := den_pos_q r
    obtain ⟨cn, en, h1, -⟩ := roundTo_fin_of_le_max m (decide (r.num < 0)) (by linarith) hnum
    obtain ⟨cd, ed, h2, -⟩ := roundTo_fin_of_le_max m false (by linarith) hden
    obtain ⟨d, e1, e2, e3⟩ := FromRat_error_any g r m hm hr (isFin_of_fin h1) (isFin_of_fin h2)
    exact ⟨d, e1, e2, le_trans e3 (bound_simpl c_any_a c_any_b (abs_nonneg r))⟩

/-- every mode, normal range: within 2.6 parts in 10^33 (so below 3 parts in 10^33) -/
theorem FromRat_rel_any (g : Globals) (r : Rat) (m : Spec.Mode)
    (hm : Spec.Mode.ofNat? g.DefaultRoundingMode.toNat = some m)
    (hnum : (r.num.natAbs : ℚ) ≤ (Spec.Cmax : ℚ) * (10 : ℚ) ^ Spec.Emax)
    (hden : (r.den : ℚ) ≤ (Spec.Cmax : ℚ) * (10 : ℚ) ^ Spec.Emax)
    (hlow : (10 : ℚ) ^ (Spec.Emin + 33) ≤ |r|) :
    ∃ d, Gen.FromRat g r = .ok d ∧ (𝔳[d]).isFin = true ∧
      |(𝔳[d]).toRat - r| ≤ 26 / 10 * (10 : ℚ) ^ (-33 : Int) * |r| := by
  obtain ⟨d, e1, e2, e3⟩ := FromRat_bound_any g r m hm hnum hden
  refine ⟨d, e1, e2, le_trans e3 ?_⟩
  have h1 := unit_le hlow
  have hpos : (0 : ℚ) < (10 : ℚ) ^ (-33 : Int) := zpow_pos (by norm_num) _
  have hRp : 0 ≤ (10 : ℚ) ^ (-33 : Int) * |r| := mul_nonneg hpos.le (abs_nonneg r)
  simp only [assoc3]
  exact close_rel (k := 1) hRp (by rw [one_mul]; exact h1) (by norm_num) (by norm_num)

/-- the modes (with the sign of `r`) in which numerator and denominator are rounded the same way -/
theorem sameDir_of (m : Mode) (r : Rat)
    (h : m = .toZero ∨ m = .awayFromZero ∨ ((m = .toNegInf ∨ m = .toPosInf) ∧ 0 < r)) :
    SameDir m (decide (r.num < 0)) := by
  rw [sameDir_iff]
  rcases h with h | h | ⟨h, hr⟩
  · exact Or.inl h
  · exact Or.inr (Or.inl h)
  · have hs : decide (r.num < 0) = false := by
      have : 0 < r.num := Rat.num_pos.2 hr
      simp only [decide_eq_false_iff_not, not_lt]; exact this.le
    rcases h with h | h
    · exact Or.inr (Or.inr (Or.inl ⟨h, hs⟩))
    · exact Or.inr (Or.inr (Or.inr ⟨h, hs⟩))

/-- **toZero, awayFromZero, and toNegInf / toPosInf on positive rationals**: the two operand errors
    partly cancel -/
theorem FromRat_bound_same (g : Globals) (r : Rat) (m : Spec.Mode)
    (hm : Spec.Mode.ofNat? g.DefaultRoundingMode.toNat = some m)
    (hdir : m = .toZero ∨ m = .awayFromZero ∨ ((m = .toNegInf ∨ m = .toPosInf) ∧ 0 < r))
    (hnum : (r.num.natAbs : ℚ) ≤ (Spec.Cmax : ℚ) * (10 : ℚ) ^ Spec.Emax)
    (hden : (r.den : ℚ) ≤ (Spec.Cmax : ℚ) * (10 : ℚ) ^ Spec.Emax) :
    ∃ d, Gen.FromRat g r = .ok d ∧ (𝔳[d]).isFin = true ∧
      |(𝔳[d]).toRat - r| ≤ 8 / 10 * (10 : ℚ) ^ (-33 : Int) * |r| +
        max ((10 : ℚ) ^ Spec.Emin) (8 / 10 * (10 : ℚ) ^ (-33 : Int) * |r|) := by
  have hp : (0 : ℚ) < (10 : ℚ) ^ Spec.Emin := zpow_pos (by norm_num) _
  by_cases hr : r = 0
  · subst hr
    obtain ⟨d, h1, h2, h3⟩ := FromRat_zero_val g
    refine ⟨d, h1, h2, ?_⟩
    rw [h3, sub_zero, abs_zero]
    exact bound_nonneg (by norm_num) hp.le (le_refl _)
  · have hN := natAbs_pos_q hr
    have hD := den_pos_q r
    obtain ⟨cn, en, h1, -⟩ := roundTo_fin_of_le_max m (decide (r.num < 0)) (by linarith) hnum
    obtain ⟨cd, ed, h2, -⟩ := roundTo_fin_of_le_max m false (by linarith) hden
    obtain ⟨d, e1, e2, e3⟩ := FromRat_error_same g r m hm hr (sameDir_of m r hdir)
      (isFin_of_fin h1) (isFin_of_fin h2)
    exact ⟨d, e1, e2, le_trans e3 (bound_simpl c_same_a c_same_b (abs_nonneg r))⟩

/-- … in the normal range: within 1.8 parts in 10^33 -/
theorem FromRat_rel_same (g : Globals) (r : Rat) (m : Spec.Mode)
    (hm : Spec.Mode.ofNat? g.DefaultRoundingMode.toNat = some m)
    (hdir : m = .toZero ∨ m = .awayFromZero ∨ ((m = .toNegInf ∨ m = .toPosInf) ∧ 0 < r))
    (hnum : (r.num.natAbs : ℚ) ≤ (Spec.Cmax : ℚ) * (10 : ℚ) ^ Spec.Emax)
    (hden : (r.den : ℚ) ≤ (Spec.Cmax : ℚ) * (10 : ℚ) ^ Spec.Emax)
    (hlow : (10 : ℚ) ^ (Spec.Emin + 33) ≤ |r|) :
    ∃ d, Gen.FromRat g r = .ok d ∧ (𝔳[d]).isFin = true ∧
      |(𝔳[d]).toRat - r| ≤ 18 / 10 * (10 : ℚ) ^ (-33 : Int) * |r| := by
  obtain ⟨d, e1, e2, e3⟩ := FromRat_bound_same g r m hm hdir hnum hden
  refine ⟨d, e1, e2, le_trans e3 ?_⟩
  have h1 := unit_le hlow
  have hpos : (0 : ℚ) < (10 : ℚ) ^ (-33 : Int) := zpow_pos (by norm_num) _
  have hRp : 0 ≤ (10 : ℚ) ^ (-33 : Int) * |r| := mul_nonneg hpos.le (abs_nonneg r)
  simp only [assoc3]
  exact close_rel (k := 1) hRp (by rw [one_mul]; exact h1) (by norm_num) (by norm_num)

end FromRatBound
