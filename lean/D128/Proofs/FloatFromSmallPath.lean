/-
  D128/Proofs/FloatFromSmallPath.lean — the branch `shift > 0` of `FromFloat64` (|f| = mant / 2^S).

  Provided (namespace `FF`):
  * `smallPath_spec` : no panic; the result denotes `flushOrRoundS m neg a 0` for some `a` with
      `Close a V`, and `a = V` unless `V = T / 2^S'` with `T < 2^53` and `S' ≥ 61`
-/
import D128.Proofs.FloatFromSmallLoop

set_option autoImplicit false
set_option maxRecDepth 8192
set_option exponentiation.threshold 2000

namespace FF
open Gen
local notation "𝔳[" d "]" => Spec.interp (Gen.Decimal.lo d) (Gen.Decimal.hi d)

/-- `smallK` with `zeros = Z ≤ S`, `2^Z ∣ mant` -/
theorem smallK_spec (rm : UInt8) (m : Spec.Mode) (hm : Spec.Mode.ofNat? rm.toNat = some m)
    (neg : Bool) (mant : UInt64) (shift zeros : Int64) (S Z : Nat)
    (hS : shift.toInt = S) (hZ : zeros.toInt = Z) (hS2 : S ≤ 1100)
    (hm1 : 1 ≤ mant.toNat) (hm2 : mant.toNat < 2 ^ 53) (hZS : Z ≤ S) (hdvd : 2 ^ Z ∣ mant.toNat)
    (hodd : Z < S → ¬ 2 ^ (Z + 1) ∣ mant.toNat) :
    ∃ r a, smallK rm neg mant shift zeros = .ok r ∧
      (𝔳[r]).same (Spec.flushOrRoundS m neg a 0) = true ∧
      Close a ((mant.toNat : ℚ) / 2 ^ S) ∧
      (a = (mant.toNat : ℚ) / 2 ^ S ∨
        ∃ T S' : Nat, T % 2 = 1 ∧ T < 2 ^ 53 ∧ 61 ≤ S' ∧ S' ≤ S ∧
          (mant.toNat : ℚ) / 2 ^ S = (T : ℚ) / 2 ^ S') := by
  obtain ⟨T, hT⟩ := hdvd
  have hT1 : 1 ≤ T := by
    rcases Nat.eq_zero_or_pos T with h | h
    · subst h; omega
    · exact h
  have hTlt : T < 2 ^ 53 := by
    have : 1 ≤ 2 ^ Z := Nat.one_le_two_pow
    calc T = 1 * T := by ring
      _ ≤ 2 ^ Z * T := Nat.mul_le_mul_right _ this
      _ < 2 ^ 53 := by omega
  have hV : (mant.toNat : ℚ) / 2 ^ S = (T : ℚ) / 2 ^ (S - Z) := by
    have : (2 : ℚ) ^ S = 2 ^ Z * 2 ^ (S - Z) := by rw [← pow_add]; congr 1; omega
    rw [hT, this]; push_cast; field_simp
  have hTpos : (0 : ℚ) < T := by exact_mod_cast hT1
  have hVpos : (0 : ℚ) < (T : ℚ) / 2 ^ (S - Z) := by positivity
  rw [hV]
  unfold smallK
  rw [shrS_eq _ _ (by omega), D128.Proofs.WordsWide.ok_bind]
  have ht : (Go.shr mant zeros.toInt).toNat = T := by
    rw [Go.shr_toNat, hZ, Int.toNat_natCast, hT, Nat.mul_div_cancel_left _ (by positivity)]
  have hsub : (shift - zeros).toInt = ((S - Z : Nat) : Int) := by
    rw [i64_sub] <;> rw [hS, hZ] <;> omega
  generalize Go.shr mant zeros.toInt = t at ht
  by_cases h0 : S - Z = 0
  · -- nothing left to shift: exact
    rw [if_pos (by rw [i64_eq_zero, hsub, h0]; rfl)]
    have hsig : ({ w0 := t, w1 := 0, w2 := 0, w3 := 0 } : U256).toNat = T := by
      rw [U256.mk0_toNat, ht]
    obtain ⟨r, a, hr, hsame, ha1, ha2, ha3⟩ := finishK_spec rm m hm neg _ 6176 0 (T : ℚ) 0
      (by decide) (by decide)
      (by rw [hsig]; exact ⟨le_refl _, by simp, Or.inl ⟨rfl, rfl⟩⟩)
      (fun h => absurd h (by decide)) (by rw [hsig]; exact hT1)
    have ha : a = (T : ℚ) := ha3 rfl
    have e : (T : ℚ) / 2 ^ (S - Z) = T := by rw [h0]; simp
    rw [e]
    refine ⟨r, a, hr, ?_, by rw [ha]; exact close_refl hTpos, Or.inl ha⟩
    have : (6176 : Int16).toInt - 6176 = 0 := by decide
    rw [this, zpow_zero, mul_one] at hsame
    exact hsame
  · rw [if_neg (by rw [i64_eq_zero, hsub]; simp; omega)]
    have hsig0 : (U128.mul1e38 { w0 := t, w1 := 0 }).toNat = T * 10 ^ 38 := by
      rw [U128_mul1e38_toNat, U128.toNat_mk_zero, ht]
    have hinv : SmallInv T (S - Z)
        ((6176 : Int16) - 38, shift - zeros, U128.mul1e38 { w0 := t, w1 := 0 }, (0 : Int8), zeros) := by
      have e0 : ((6176 : Int16) - 38).toInt = 6176 - ((38 : Nat) : Int) := by decide
      have e1 : ¬ (0 : Int8).toInt = 1 := by decide
      refine ⟨38, S - Z, 0, e0, hsub, by omega, ?_, ?_, fun _ => rfl, fun h => absurd h e1⟩
      · show 1 ≤ (U128.mul1e38 { w0 := t, w1 := 0 }).toNat
        rw [hsig0]
        exact Nat.mul_pos hT1 (by positivity)
      · show ApproxS _ (U128.mul1e38 { w0 := t, w1 := 0 }).toNat 0 (0 : Int8).toInt
        rw [hsig0]
        have hX : (T : ℚ) / 2 ^ (S - Z) * 2 ^ (S - Z) * 10 ^ 38 = ((T * 10 ^ 38 : Nat) : ℚ) := by
          have h2 : (2 : ℚ) ^ (S - Z) ≠ 0 := by positivity
          rw [div_mul_cancel₀ _ h2]; push_cast; rfl
        rw [hX]
        exact ⟨le_refl _, by push_cast; simp, Or.inl ⟨rfl, rfl⟩⟩
    obtain ⟨st, hloop, K, n, heK, hK, hn, hpos, happ, hex, h248⟩ :=
      smallLoop_spec T (S - Z) hT1 hTlt (by omega) _ hinv
    rw [hloop, D128.Proofs.WordsWide.ok_bind]
    obtain ⟨r, a, hr, hsame, ha1, ha2, ha3⟩ := finishK_spec rm m hm neg st.2.2.1 st.1 st.2.2.2.1
      _ (8 * n) (by omega) (by omega) (approxS_to_approx _ _ _ _ happ)
      (fun h => by rw [RK.Cmax_val]; have := h248 h; omega) (by omega)
    have hek' : st.1.toInt - 6176 = -(K : Int) := by omega
    rw [hek', zpow_neg, zpow_natCast] at hsame
    refine ⟨r, a * (10 ^ K)⁻¹, hr, hsame, ?_, ?_⟩
    · exact close_of_approx _ a _ ((10 : ℚ) ^ K)⁻¹ st.2.2.1.toNat (8 * n) (by positivity)
        (by field_simp) (by omega) (by omega) ha1 ha2 (approxS_to_approx _ _ _ _ happ).2.1
    · by_cases h60 : S - Z ≤ 60
      · left
        have := ha3 (hex h60)
        rw [this]; field_simp
      · right
        have hTodd : T % 2 = 1 := by
          by_contra hc
          apply hodd (by omega)
          obtain ⟨u, hu⟩ : ∃ u, T = 2 * u := ⟨T / 2, by omega⟩
          exact ⟨u, by rw [hT, hu, Nat.pow_succ]; ring⟩
        exact ⟨T, S - Z, hTodd, hTlt, by omega, by omega, rfl⟩

/-- the branch `shift > 0` (|f| = mant / 2^S with S ≥ 1) -/
theorem smallPath_spec (rm : UInt8) (m : Spec.Mode) (hm : Spec.Mode.ofNat? rm.toNat = some m)
    (neg : Bool) (mant : UInt64) (shift : Int64) (S : Nat)
    (hS : shift.toInt = S) (hS2 : S ≤ 1100) (hm1 : 1 ≤ mant.toNat) (hm2 : mant.toNat < 2 ^ 53) :
    ∃ r a, smallPath rm neg mant shift = .ok r ∧
      (𝔳[r]).same (Spec.flushOrRoundS m neg a 0) = true ∧
      Close a ((mant.toNat : ℚ) / 2 ^ S) ∧
      (a = (mant.toNat : ℚ) / 2 ^ S ∨
        ∃ T S' : Nat, T % 2 = 1 ∧ T < 2 ^ 53 ∧ 61 ≤ S' ∧ S' ≤ S ∧
          (mant.toNat : ℚ) / 2 ^ S = (T : ℚ) / 2 ^ S') := by
  obtain ⟨z, hz, hz64, hdvd, hz63, hzk⟩ := tz_spec mant
  unfold smallPath
  by_cases hc : (S : Int) < z
  · rw [if_pos (by rw [i64_gt, hS, hz]; simpa using hc)]
    exact smallK_spec rm m hm neg mant shift shift S S hS hS hS2 hm1 hm2 (le_refl _)
      (Nat.dvd_trans (Nat.pow_dvd_pow 2 (by omega)) hdvd) (fun h => absurd h (lt_irrefl _))
  · rw [if_neg (by rw [i64_gt, hS, hz]; simpa using hc)]
    have h63 := hz63 (by omega)
    exact smallK_spec rm m hm neg mant shift _ S z hS hz hS2 hm1 hm2 (by omega) hdvd
      (fun _ hd => (hzk (z + 1) (by omega)).1 (by omega) (Nat.mod_eq_zero_of_dvd hd))

end FF
