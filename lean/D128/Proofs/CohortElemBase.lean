/-
  D128/Proofs/CohortElemBase.lean — property C19 for the elementary functions, common part: the FULL-WIDTH
  normal form of the 57-digit working format `decomposed192` and the normalising loops that produce it.

  Every elementary function first scales the significand of its argument up "maximally": by `×10^19`, `×10^4`,
  `×10` steps until `25·2^184 ≤ sig` (`LIM`).  No step can overshoot `250·2^184`, so the result is the UNIQUE
  representation of the value with `LIM ≤ sig < 10·LIM` — it does not depend on the cohort member one starts from.

  Provided (namespace `CohortElem`):
  * `Full x`               : `LIM ≤ x.sig < 10·LIM`
  * `full_unique`          : `Full x`, `Full y`, `val x = val y` ⇒ `x = y` (bit for bit)
  * `logScale_ub_triple`, `logScale_full` : the three loops at the head of `decomposed192.log`
                             (`LogAcc.logScale`) return a `Full` value (argument non-zero, below `10·LIM`)
  * `logScale_congr`       : … hence the same value for two arguments of one value
  * `fin_args`             : two finite Decimals denoting the `same` value: both non-special, same sign bit,
                             same `IsZero`, and `sig·10^exp = sig'·10^exp'` for the `decompose`d pairs
  * `val_eq_decade`        : `v·10^a = v'·10^b` with `1 ≤ v, v' < 10` ⇒ `a = b ∧ v = v'`
  * `q_eq_nat`, `val_eq_nat` : cohort members in ℕ: `n·10^e = n'·10^e'` (ℚ), `e' ≤ e` ⇒ `n' = n·10^(e-e')`;
                             `val a = val a'` ⇒ `∃ k, Sc k a a' ∨ Sc k a' a` with
                             `Sc k a a' := a'.sig = a.sig·10^k ∧ a.exp = a'.exp + k`; `Sc.val`
  * `log10_mul_pow`        : `Nat.log 10 (n·10^k) = Nat.log 10 n + k` (n ≠ 0)
-/
import D128.Proofs.LogAccScale
import D128.Proofs.CohortBase
import D128.Proofs.Specials
set_option autoImplicit false
set_option maxRecDepth 4096
set_option linter.unusedVariables false
open Std.Do D128.Proofs.WordsWide
set_option mvcgen.warning false

namespace CohortElem
open Gen D192 Root LogAcc
local notation "𝔳[" d "]" => Spec.interp (Gen.Decimal.lo d) (Gen.Decimal.hi d)

/-- full-width significand: `25·2^184 ≤ sig < 250·2^184` -/
def Full (x : decomposed192) : Prop := LIM ≤ x.sig.toNat ∧ x.sig.toNat < 10 * LIM

theorem d192_ext {x y : decomposed192} (hs : x.sig.toNat = y.sig.toNat) (he : x.exp.toInt = y.exp.toInt) :
    x = y := by
  cases x with
  | mk xs xe =>
    cases y with
    | mk ys ye =>
      have h1 : xs = ys := by
        cases xs; cases ys
        simp only [U192.toNat] at hs
        rename_i a0 a1 a2 b0 b1 b2
        have := a0.toNat_lt; have := a1.toNat_lt; have := a2.toNat_lt
        have := b0.toNat_lt; have := b1.toNat_lt; have := b2.toNat_lt
        have e0 : a0 = b0 := UInt64.toNat_inj.mp (by omega)
        have e1 : a1 = b1 := UInt64.toNat_inj.mp (by omega)
        have e2 : a2 = b2 := UInt64.toNat_inj.mp (by omega)
        rw [e0, e1, e2]
      have h2 : xe = ye := Int16.toInt_inj.mp he
      rw [h1, h2]

/-- a value has at most one full-width representation -/
theorem full_unique {x y : decomposed192} (hx : Full x) (hy : Full y) (h : val x = val y) : x = y := by
  have key : ∀ (x y : decomposed192), Full x → Full y → val x = val y → ¬ x.exp.toInt < y.exp.toInt := by
    intro x y hx hy h hlt
    unfold val at h
    have hb : (10 : ℚ) ^ y.exp.toInt = (10 : ℚ) ^ x.exp.toInt * (10 : ℚ) ^ (y.exp.toInt - x.exp.toInt) := by
      rw [← zpow_add₀ (by norm_num)]; congr 1; ring
    have h10 : (10 : ℚ) ^ (1 : Int) ≤ (10 : ℚ) ^ (y.exp.toInt - x.exp.toInt) :=
      zpow_le_zpow_right₀ (by norm_num) (by omega)
    have hp : (0 : ℚ) < (10 : ℚ) ^ x.exp.toInt := zpow_pos (by norm_num) _
    rw [hb, ← mul_assoc, mul_comm ((y.sig.toNat : ℚ)) _, mul_assoc] at h
    have h2 : (x.sig.toNat : ℚ) = (y.sig.toNat : ℚ) * (10 : ℚ) ^ (y.exp.toInt - x.exp.toInt) :=
      mul_left_cancel₀ hp.ne' (by rw [mul_comm]; exact h)
    have hyl : ((LIM : Nat) : ℚ) ≤ (y.sig.toNat : ℚ) := by exact_mod_cast hy.1
    have hxu : (x.sig.toNat : ℚ) < ((10 * LIM : Nat) : ℚ) := by exact_mod_cast hx.2
    have hL : (0 : ℚ) < ((LIM : Nat) : ℚ) := by unfold LIM; norm_num
    have : ((LIM : Nat) : ℚ) * 10 ≤ (y.sig.toNat : ℚ) * (10 : ℚ) ^ (y.exp.toInt - x.exp.toInt) := by
      have h10' : (10 : ℚ) ≤ (10 : ℚ) ^ (y.exp.toInt - x.exp.toInt) := by simpa using h10
      exact mul_le_mul hyl h10' (by norm_num) (le_trans hL.le hyl)
    push_cast at hxu
    linarith
  have he : x.exp.toInt = y.exp.toInt := by
    have := key x y hx hy h
    have := key y x hy hx h.symm
    omega
  refine d192_ext ?_ he
  unfold val at h
  rw [he] at h
  have hp : (0 : ℚ) < (10 : ℚ) ^ y.exp.toInt := zpow_pos (by norm_num) _
  have := mul_right_cancel₀ hp.ne' h
  exact_mod_cast this

/-! ### the normalising loops of `log` never overshoot -/

theorem lt19 (x : U192) (h : x.w2 = 0) : x.toNat * 10 ^ 19 < 10 * LIM := by
  have h' : x.w2.toNat ≤ 0 := by rw [h]; simp
  have := (U192.w2_le_iff x 0 (by norm_num)).mp h'
  unfold LIM; omega

theorem lt4 (x : U192) (h : x.w2 ≤ 703687441776639) : x.toNat * 10 ^ 4 < 10 * LIM := by
  rw [UInt64.le_iff_toNat_le] at h
  have := (U192.w2_le_iff x 703687441776639 (by norm_num)).mp h
  unfold LIM; omega

theorem lt1 (x : U192) (h : x.w2 ≤ 1801439850948198399) : x.toNat * 10 ^ 1 < 10 * LIM := by
  rw [UInt64.le_iff_toNat_le] at h
  have := (U192.w2_le_iff x 1801439850948198399 (by norm_num)).mp h
  unfold LIM; omega

/-- one scaling step: variant decreases, result positive and below `10·LIM` -/
theorem vc_ub (x : decomposed192) (mb : Nat) (c : UInt64) (j : Nat)
    (hc : c.toNat = 10 ^ j) (hj : 0 < j)
    (hfit : x.sig.toNat * 10 ^ j < 10 * LIM) (hmb : mb = gap x.sig.toNat) (hpos : 1 ≤ x.sig.toNat) :
    gap (Gen.U192.mul64 x.sig c).toNat < mb ∧ 1 ≤ (Gen.U192.mul64 x.sig c).toNat ∧
      (Gen.U192.mul64 x.sig c).toNat < 10 * LIM := by
  have hL : 10 * LIM < 2 ^ 192 := by unfold LIM; norm_num
  have hm : (Gen.U192.mul64 x.sig c).toNat = x.sig.toNat * 10 ^ j := by
    rw [U192_mul64_toNat_of_lt _ _ (by rw [hc]; omega), hc]
  have h10 : 10 ≤ 10 ^ j := by
    calc 10 = 10 ^ 1 := by norm_num
      _ ≤ 10 ^ j := Nat.pow_le_pow_right (by norm_num) hj
  have hgt : x.sig.toNat < x.sig.toNat * 10 ^ j := by nlinarith
  rw [hm, hmb]
  unfold gap
  refine ⟨by omega, by omega, hfit⟩

theorem logScale_ub_triple (d : decomposed192) :
    ⦃⌜1 ≤ d.sig.toNat ∧ d.sig.toNat < 10 * LIM⌝⦄ logScale d
    ⦃⇓ x => ⌜x.sig.toNat < 10 * LIM⌝⦄ := by
  mvcgen [logScale]
  case inv1 | inv3 | inv5 => exact fun st => ⟨gap st.sig.toNat⟩
  case inv2 | inv4 | inv6 => exact ⇓ x => match x with
    | .inl st => ⌜1 ≤ st.sig.toNat ∧ st.sig.toNat < 10 * LIM⌝
    | .inr st => ⌜1 ≤ st.sig.toNat ∧ st.sig.toNat < 10 * LIM⌝
  all_goals (simp +zetaDelta at *)
  case vc1 =>
    rename_i b mb _ _ hz hinv
    exact vc_ub b mb 10000000000000000000 19 (by decide) (by norm_num) (lt19 _ hz) hinv.1 hinv.2.1
  case vc4 =>
    rename_i b mb _ _ hz hinv
    exact vc_ub b mb 10000 4 (by decide) (by norm_num) (lt4 _ hz) hinv.1 hinv.2.1
  case vc7 =>
    rename_i b mb _ _ hz hinv
    exact vc_ub b mb 10 1 (by decide) (by norm_num) (lt1 _ hz) hinv.1 hinv.2.1
  case vc2 | vc5 | vc8 => rename_i hinv; exact hinv.2
  case vc10 => rename_i h; exact h.2
  all_goals assumption

/-- the normalising loops of `log` return the full-width representation -/
theorem logScale_full (d : decomposed192) (hd : d.sig.toNat ≠ 0) (hu : d.sig.toNat < 10 * LIM)
    (he : -32000 ≤ d.exp.toInt) :
    ∃ d1, logScale d = .ok d1 ∧ Full d1 ∧ val d1 = val d := by
  obtain ⟨d1, a, hr, -, -, -, hv, hL⟩ := logScale_spec d hd he
  have h' : ⦃⌜True⌝⦄ logScale d ⦃⇓ x => ⌜x.sig.toNat < 10 * LIM⌝⦄ := by
    have := logScale_ub_triple d
    simpa [Nat.one_le_iff_ne_zero, hd, hu] using this
  obtain ⟨d2, hr2, hu2⟩ := ok_of_triple h'
  rw [hr] at hr2
  cases hr2
  exact ⟨d1, hr, ⟨hL, hu2⟩, hv⟩

/-- two arguments of one value are normalised to the same register contents -/
theorem logScale_congr (d d' : decomposed192) (hd : d.sig.toNat ≠ 0) (hd' : d'.sig.toNat ≠ 0)
    (hu : d.sig.toNat < 10 * LIM) (hu' : d'.sig.toNat < 10 * LIM)
    (he : -32000 ≤ d.exp.toInt) (he' : -32000 ≤ d'.exp.toInt) (hv : val d = val d') :
    logScale d = logScale d' := by
  obtain ⟨d1, h1, hf1, hv1⟩ := logScale_full d hd hu he
  obtain ⟨d2, h2, hf2, hv2⟩ := logScale_full d' hd' hu' he'
  rw [h1, h2, full_unique hf1 hf2 (by rw [hv1, hv2, hv])]

/-- decades: a value has one decimal exponent and one mantissa in `[1, 10)` -/
theorem val_eq_decade {v v' : ℚ} {a b : Int} (h1 : 1 ≤ v) (h2 : v < 10) (h1' : 1 ≤ v') (h2' : v' < 10)
    (h : v * (10 : ℚ) ^ a = v' * (10 : ℚ) ^ b) : a = b ∧ v = v' := by
  have key : ∀ (v v' : ℚ) (a b : Int), 1 ≤ v → v < 10 → 1 ≤ v' → v' < 10 →
      v * (10 : ℚ) ^ a = v' * (10 : ℚ) ^ b → ¬ a < b := by
    intro v v' a b h1 h2 h1' h2' h hlt
    have hb : (10 : ℚ) ^ b = (10 : ℚ) ^ a * (10 : ℚ) ^ (b - a) := by
      rw [← zpow_add₀ (by norm_num)]; congr 1; ring
    have hp : (0 : ℚ) < (10 : ℚ) ^ a := zpow_pos (by norm_num) _
    have h10 : (10 : ℚ) ^ (1 : Int) ≤ (10 : ℚ) ^ (b - a) := zpow_le_zpow_right₀ (by norm_num) (by omega)
    have h10' : (10 : ℚ) ≤ (10 : ℚ) ^ (b - a) := by simpa using h10
    rw [hb, ← mul_assoc, mul_comm v' _, mul_assoc, mul_comm v _] at h
    have h3 : v = v' * (10 : ℚ) ^ (b - a) := mul_left_cancel₀ hp.ne' h
    have : (1 : ℚ) * 10 ≤ v' * (10 : ℚ) ^ (b - a) := mul_le_mul h1' h10' (by norm_num) (by linarith)
    linarith
  have hab : a = b := by
    have := key v v' a b h1 h2 h1' h2' h
    have := key v' v b a h1' h2' h1 h2 h.symm
    omega
  refine ⟨hab, ?_⟩
  rw [hab] at h
  exact mul_right_cancel₀ (zpow_pos (by norm_num : (0 : ℚ) < 10) b).ne' h

/-- cohort members in ℕ -/
theorem q_eq_nat {n n' : Nat} {e e' : Int} (h : (n : ℚ) * (10 : ℚ) ^ e = (n' : ℚ) * (10 : ℚ) ^ e')
    (hle : e' ≤ e) : n' = n * 10 ^ (e - e').toNat := by
  have hb : (10 : ℚ) ^ e = (10 : ℚ) ^ e' * (10 : ℚ) ^ ((e - e').toNat : Int) := by
    rw [← zpow_add₀ (by norm_num)]; congr 1; rw [Int.toNat_of_nonneg (by omega)]; ring
  have hp : (0 : ℚ) < (10 : ℚ) ^ e' := zpow_pos (by norm_num) _
  rw [hb, zpow_natCast, ← mul_assoc, mul_comm (n : ℚ) _, mul_assoc, mul_comm (n' : ℚ) _] at h
  have := mul_left_cancel₀ hp.ne' h
  exact_mod_cast this.symm

/-- `a'` is `a` written with `k` more trailing zeros -/
def Sc (k : Nat) (a a' : decomposed192) : Prop :=
  a'.sig.toNat = a.sig.toNat * 10 ^ k ∧ a.exp.toInt = a'.exp.toInt + k

theorem Sc.val {k : Nat} {a a' : decomposed192} (h : Sc k a a') : val a = val a' := by
  unfold D192.val
  rw [h.1, h.2, zpow_add₀ (by norm_num), zpow_natCast]
  push_cast; ring

theorem val_eq_nat {a a' : decomposed192} (h : val a = val a') : ∃ k, Sc k a a' ∨ Sc k a' a := by
  unfold D192.val at h
  rcases le_total a'.exp.toInt a.exp.toInt with hle | hle
  · exact ⟨(a.exp.toInt - a'.exp.toInt).toNat, Or.inl ⟨q_eq_nat h hle, by omega⟩⟩
  · exact ⟨(a'.exp.toInt - a.exp.toInt).toNat, Or.inr ⟨q_eq_nat h.symm hle, by omega⟩⟩

theorem log10_mul_pow (n k : Nat) (hn : n ≠ 0) : Nat.log 10 (n * 10 ^ k) = Nat.log 10 n + k := by
  induction k with
  | zero => simp
  | succ a ih =>
    have : n * 10 ^ a ≠ 0 := Nat.mul_ne_zero hn (by positivity)
    rw [Nat.pow_succ, ← Nat.mul_assoc, Nat.log_mul_base (by decide) this, ih]
    omega

/-- two finite Decimals denoting the same value, in terms of their `decompose`d pairs -/
theorem fin_args (d d' : Decimal) (h : (𝔳[d]).same 𝔳[d'] = true) (h1 : Decimal.isSpecial d = false) :
    Decimal.isSpecial d' = false ∧ Decimal.Signbit d' = Decimal.Signbit d ∧
    Decimal.IsZero d' = Decimal.IsZero d ∧
    ((Decimal.decompose d).1.toNat : ℚ) * (10 : ℚ) ^ ((Decimal.decompose d).2.toInt - 6176)
      = ((Decimal.decompose d').1.toNat : ℚ) * (10 : ℚ) ^ ((Decimal.decompose d').2.toInt - 6176) := by
  have hs' : Decimal.isSpecial d' = false := by
    have e1 := Enc.isSpecial_iff d
    have e2 := Enc.isSpecial_iff d'
    rw [← Enc.interp_isNaN, ← Enc.interp_isInf] at e1 e2
    rw [h1] at e1
    rw [e2]
    rcases Cohort.same_cases h with ⟨n, p, a, b⟩ | ⟨n, a, b⟩ | ⟨n, c, e, c', e', a, b, hm⟩
    · rw [a] at e1; simp [Spec.Val.isNaN] at e1
    · rw [a] at e1; simp [Spec.Val.isNaN, Spec.Val.isInf] at e1
    · rw [b]; simp [Spec.Val.isNaN, Spec.Val.isInf]
  have hi := Enc.interp_decompose d h1
  have hi' := Enc.interp_decompose d' hs'
  rw [hi, hi', Cohort.same_fin_iff] at h
  refine ⟨hs', h.1.symm, ?_, h.2⟩
  rw [Sp.IsZero_eq_sig, Sp.IsZero_eq_sig]
  have := Cohort.zero_iff_of_mag h.2
  simp only [this]

end CohortElem
