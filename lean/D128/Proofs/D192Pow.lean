/-
  D128/Proofs/D192Pow.lean — `decomposed192.powexp10` (Go: /repo/decomposed.go): `d^(10^o)` by binary
  exponentiation with truncating 192-bit multiplications.

  * `mul_q2spec`      : `@[spec]` triple of `mul` in relative-error form
  * `powexp10_spec`   : for `1 ≤ val d` and `0 ≤ o ≤ 7`: never panics, terminates, no `int16` exponent
        wrap occurs in any intermediate product (the guards `2·d.exp > 32651` / `d.exp + r.exp > 32651`
        fire first), and
          - `o = 0`: returns `(d, t)` unchanged;
          - otherwise either `dinf` is returned, and then really `10^16326 ≤ (val d)^(10^o)`, or
            `(val d)^P·(1-eps)^P ≤ val r ≤ (val d)^P` with `P = 10^o`, `eps = 1/⌊2^192/10⌋ ≈ 1.6e-57`
            (one relative truncation per multiplication, `P` of them along the worst path), the flag
            is `1` iff the result is inexact or the incoming flag was non-zero, else `0`
            (an incoming `-1` comes out as `+1`).
  * `powexp10_contract` : the same with the Bernoulli bound `(val d)^P·(1 - P·eps) ≤ val r`.
-/
import D128.Proofs.D192PowMath
set_option autoImplicit false
set_option maxRecDepth 4096
set_option exponentiation.threshold 512
set_option linter.unusedVariables false
open Std.Do D128.Proofs.WordsWide
set_option mvcgen.warning false

namespace D192

@[spec] theorem mul_q2spec (d o : Gen.decomposed192) (t : Int8) :
    ⦃⌜-32768 ≤ d.exp.toInt + o.exp.toInt ∧ d.exp.toInt + o.exp.toInt + 58 ≤ 32767⌝⦄
    Gen.decomposed192.mul d o t
    ⦃⇓ x => ⌜MulQ2 d o t x⌝⦄ := by
  generalize hP : (-32768 ≤ d.exp.toInt + o.exp.toInt ∧ d.exp.toInt + o.exp.toInt + 58 ≤ 32767) = P
  by_cases h : P
  · obtain ⟨x, e, hc⟩ := mul_q2 d o t (hP ▸ h).1 (hP ▸ h).2
    have := triple_of_eq e (Q := fun x => MulQ2 d o t x) hc
    simpa [h] using this
  · simp [Triple, h]

theorem powexp10_spec (d : Gen.decomposed192) (o : Int16) (t : Int8) (hd : 1 ≤ val d)
    (ho0 : 0 ≤ o.toInt) (ho7 : o.toInt ≤ 7) :
    ∃ x, Gen.decomposed192.powexp10 d o t = .ok x ∧
      ((o = 0 ∧ x = (d, t)) ∨ (o ≠ 0 ∧ PwPost (val d) (10 ^ o.toInt.toNat) t x)) := by
  unfold Gen.decomposed192.powexp10
  extract_lets d' tr p0 rt src r0 t1 jp
  have hjp : ∀ p : Int64, ⦃⌜1 ≤ val d ∧ 1 ≤ p.toInt ∧ p.toInt ≤ 10 ^ 7⌝⦄ jp () p
      ⦃⇓ x => ⌜PwPost (val d) (pM p) t x⌝⦄ := by
    intro p
    simp only [jp]
    mvcgen
    case inv1 => exact fun st => ⟨pM st.2.2.2.1⟩
    case inv2 => exact ⇓ x => match x with
      | .inl st => ⌜st.1 = none ∧ PwInv (val d) (pM p) t st.2.1 st.2.2.1 st.2.2.2.1 st.2.2.2.2.1 st.2.2.2.2.2⌝
      | .inr st => ⌜(∃ y, st.1 = some y ∧ y.1 = Gen.dinf ∧ (10 : ℚ) ^ (16326 : Int) ≤ val d ^ (pM p)) ∨
          (st.1 = none ∧ PwInv (val d) (pM p) t st.2.1 st.2.2.1 st.2.2.2.1 st.2.2.2.2.1 st.2.2.2.2.2 ∧
            ¬ 1 < st.2.2.2.1.toInt)⌝
    all_goals (simp +zetaDelta at *)
    case vc1 =>
      rename_i hpre _ _ hgt hov hinv
      have hP : pM p ≤ 10 ^ 7 := by unfold pM; omega
      exact hinv.2.2.overflow1 hpre.1 hP ((conv2_gt _).mp hov)
    case vc2 =>
      rename_i hpre _ _ hgt hle hodd hinv
      have hP : pM p ≤ 10 ^ 7 := by unfold pM; omega
      obtain ⟨e1, e2, e3, -, -⟩ := hinv.2.2.exps hpre.1 hP
      have := (conv2_le _).mp hle
      omega
    case vc3 =>
      rename_i hpre _ _ _ hy hgt hle hodd hinv
      have hP : pM p ≤ 10 ^ 7 := by unfold pM; omega
      obtain ⟨e1, e2, e3, -, -⟩ := hinv.2.2.exps hpre.1 hP
      have := (conv2_le _).mp hle
      omega
    case vc4 =>
      rename_i hpre _ _ y hy z hz hgt hle hodd hinv
      have hgt' := (i64_one_lt _).mp hgt
      have := hinv.2.2.body_odd hpre.1 hgt'
        (by by_contra hc; exact hodd ((i64_and_one_eq _).mpr hc)) _ hy _ hz
      refine ⟨?_, this.1⟩
      rw [hinv.1]; unfold pM; omega
    case vc5 =>
      rename_i hpre _ _ hgt hle hev hinv
      have hP : pM p ≤ 10 ^ 7 := by unfold pM; omega
      obtain ⟨e1, e2, e3, -, -⟩ := hinv.2.2.exps hpre.1 hP
      have := (conv2_le _).mp hle
      omega
    case vc6 =>
      rename_i hpre _ _ z hz hgt hle hev hinv
      have hgt' := (i64_one_lt _).mp hgt
      have := hinv.2.2.body_even hpre.1 hgt' ((i64_and_one_eq _).mp hev) _ hz
      refine ⟨?_, this.1⟩
      rw [hinv.1]; unfold pM; omega
    case vc7 =>
      rename_i hpre _ _ hle hinv
      exact ⟨hinv.2.2, (i64_le_one _).mp hle⟩
    case vc8 =>
      rename_i hpre
      exact PwInv.init d t p hpre.2.1
    case vc9 =>
      rename_i hpre st a hsome hfin
      rcases hfin with ⟨⟨x, hx⟩, hov⟩ | ⟨hnone, _⟩
      · left
        rw [hsome] at hx
        have := Option.some.inj hx
        exact ⟨by rw [this], hov⟩
      · rw [hsome] at hnone; cases hnone
    case vc10 =>
      rename_i hpre st hnone hov hfin
      rcases hfin with ⟨⟨x, hx⟩, _⟩ | ⟨_, hinv, _⟩
      · rw [hnone] at hx; cases hx
      · left
        have hP : pM p ≤ 10 ^ 7 := by unfold pM; omega
        exact ⟨rfl, hinv.overflow2 hpre.1 hP ((convadd_gt _ _).mp hov)⟩
    case vc11 | vc13 =>
      rename_i hpre st hnone hle hrt hfin
      rcases hfin with ⟨⟨x, hx⟩, _⟩ | ⟨_, hinv, _⟩
      · rw [hnone] at hx; cases hx
      · have hP : pM p ≤ 10 ^ 7 := by unfold pM; omega
        obtain ⟨e1, e2, e3, -, -⟩ := hinv.exps hpre.1 hP
        have := (convadd_le _ _).mp hle
        omega
    case vc12 =>
      rename_i hpre st hnone y hle hrt hfin
      intro hy
      rcases hfin with ⟨⟨x, hx⟩, _⟩ | ⟨_, hinv, hp1⟩
      · rw [hnone] at hx; cases hx
      · exact hinv.final hpre.1 (by omega) 1 (by rw [if_pos (by simpa using hrt)]) _ hy
    case vc14 =>
      rename_i hpre st hnone y hle hrt hfin
      intro hy
      rcases hfin with ⟨⟨x, hx⟩, _⟩ | ⟨_, hinv, hp1⟩
      · rw [hnone] at hx; cases hx
      · exact hinv.final hpre.1 (by omega) _ (by rw [if_neg (by simp [hrt])]) _ hy
  have hjp' : ∀ p : Int64, 1 ≤ p.toInt → p.toInt ≤ 10 ^ 7 →
      ∃ x, jp () p = .ok x ∧ PwPost (val d) (pM p) t x := by
    intro p h1 h2
    have h2' : p.toInt ≤ 10000000 := by norm_num at h2; exact h2
    have h' : ⦃⌜True⌝⦄ jp () p ⦃⇓ x => ⌜PwPost (val d) (pM p) t x⌝⦄ := by
      simpa [hd, h1, h2'] using hjp p
    exact ok_of_triple h'
  clear_value jp
  have hcases : o = 0 ∨ o = 1 ∨ o = 2 ∨ o = 3 ∨ o = 4 ∨ o = 5 ∨ o = 6 ∨ o = 7 := by
    have : ∀ k : Int16, o.toInt = k.toInt → o = k := fun k h => Int16.toInt_inj.mp h
    have h0 : (0 : Int16).toInt = 0 := by decide
    have h1 : (1 : Int16).toInt = 1 := by decide
    have h2 : (2 : Int16).toInt = 2 := by decide
    have h3 : (3 : Int16).toInt = 3 := by decide
    have h4 : (4 : Int16).toInt = 4 := by decide
    have h5 : (5 : Int16).toInt = 5 := by decide
    have h6 : (6 : Int16).toInt = 6 := by decide
    have h7 : (7 : Int16).toInt = 7 := by decide
    have : o.toInt = 0 ∨ o.toInt = 1 ∨ o.toInt = 2 ∨ o.toInt = 3 ∨ o.toInt = 4 ∨ o.toInt = 5 ∨
        o.toInt = 6 ∨ o.toInt = 7 := by omega
    rcases this with h | h | h | h | h | h | h | h
    · left; exact Int16.toInt_inj.mp (by rw [h, h0])
    · right; left; exact Int16.toInt_inj.mp (by rw [h, h1])
    · right; right; left; exact Int16.toInt_inj.mp (by rw [h, h2])
    · right; right; right; left; exact Int16.toInt_inj.mp (by rw [h, h3])
    · right; right; right; right; left; exact Int16.toInt_inj.mp (by rw [h, h4])
    · right; right; right; right; right; left; exact Int16.toInt_inj.mp (by rw [h, h5])
    · right; right; right; right; right; right; left; exact Int16.toInt_inj.mp (by rw [h, h6])
    · right; right; right; right; right; right; right; exact Int16.toInt_inj.mp (by rw [h, h7])
  rcases hcases with h | h | h | h | h | h | h | h <;> subst h
  · exact ⟨_, rfl, Or.inl ⟨rfl, rfl⟩⟩
  · obtain ⟨x, e, hx⟩ := hjp' 10 (by decide) (by decide)
    exact ⟨x, e, Or.inr ⟨by decide, hx⟩⟩
  · obtain ⟨x, e, hx⟩ := hjp' 100 (by decide) (by decide)
    exact ⟨x, e, Or.inr ⟨by decide, hx⟩⟩
  · obtain ⟨x, e, hx⟩ := hjp' 1000 (by decide) (by decide)
    exact ⟨x, e, Or.inr ⟨by decide, hx⟩⟩
  · obtain ⟨x, e, hx⟩ := hjp' 10000 (by decide) (by decide)
    exact ⟨x, e, Or.inr ⟨by decide, hx⟩⟩
  · obtain ⟨x, e, hx⟩ := hjp' 100000 (by decide) (by decide)
    exact ⟨x, e, Or.inr ⟨by decide, hx⟩⟩
  · obtain ⟨x, e, hx⟩ := hjp' 1000000 (by decide) (by decide)
    exact ⟨x, e, Or.inr ⟨by decide, hx⟩⟩
  · obtain ⟨x, e, hx⟩ := hjp' 10000000 (by decide) (by decide)
    exact ⟨x, e, Or.inr ⟨by decide, hx⟩⟩


/-- `powexp10` with the accumulated truncation bounded linearly: relative error `≤ 10^o·eps`
(`≈ 1.6e-50` for `o = 7`). -/
theorem powexp10_contract (d : Gen.decomposed192) (o : Int16) (t : Int8) (hd : 1 ≤ val d)
    (ho0 : 1 ≤ o.toInt) (ho7 : o.toInt ≤ 7) :
    ∃ r t', Gen.decomposed192.powexp10 d o t = .ok (r, t') ∧
      ((r = Gen.dinf ∧ (10 : ℚ) ^ (16326 : Int) ≤ val d ^ (10 ^ o.toInt.toNat)) ∨
       (val d ^ (10 ^ o.toInt.toNat) * (1 - (10 ^ o.toInt.toNat : Nat) * eps) ≤ val r ∧
        val r ≤ val d ^ (10 ^ o.toInt.toNat) ∧
        (val r = val d ^ (10 ^ o.toInt.toNat) → t' = if t = 0 then 0 else 1) ∧
        (val r ≠ val d ^ (10 ^ o.toInt.toNat) → t' = 1))) := by
  obtain ⟨⟨r, t'⟩, e, h⟩ := powexp10_spec d o t hd (by omega) ho7
  refine ⟨r, t', e, ?_⟩
  rcases h with ⟨h0, -⟩ | ⟨-, h⟩
  · exfalso; rw [h0] at ho0; revert ho0; decide
  · rcases h with h | ⟨h1, h2, h3, h4⟩
    · exact Or.inl h
    · right
      refine ⟨le_trans ?_ h1, h2, h3, h4⟩
      have hb := one_add_mul_le_pow (a := -eps) (by have := eps_lt; linarith) (10 ^ o.toInt.toNat)
      have hx : (0 : ℚ) ≤ val d ^ (10 ^ o.toInt.toNat) := by positivity
      have : (1 - ((10 ^ o.toInt.toNat : Nat) : ℚ) * eps) ≤ (1 - eps) ^ (10 ^ o.toInt.toNat) := by
        have e : (1 + -eps) = 1 - eps := by ring
        rw [e] at hb
        linarith
      exact mul_le_mul_of_nonneg_left this hx

/-- the hypotheses are satisfiable: `(2.718…)^(10^3)`-style call with `d = 2`, `o = 3`. -/
example := powexp10_contract ⟨⟨2, 0, 0⟩, 0⟩ 3 0 (by simp [val, U192.toNat]) (by decide) (by decide)

end D192
