/-
  Soundness of the enclosure oracle, part 9: the verdict function `Spec.withinUlps` (D128/Spec/Elem.lean).
  `T` is the positive true value, known only through `T ∈ₛ t` (`T = z·10^t.k`, `t.m.lo ≤ z ≤ t.m.hi`);
  the result is the finite magnitude `c·10^e`, `x ≥ 0` the extra relative tolerance (0 for C16).
  `eT t = max (spacingExpS t.m.lo t.k) (spacingExpS t.m.hi t.k)` is the exponent of the unit used by the
  verdict: the format's spacing at the upper end of the enclosure.  Every `.bad` verdict is a statement about
  every real `T` of the enclosure — no narrowness assumption.

  0. `ulpExp T` : exponent of the unit in the last place of the format at a positive REAL `T`
     (`max Emin (⌊log₁₀(T/(Cmax+1))⌋ + 1)`); `ulpExp_rat : ulpExp q = spacingExp q` (it is the specification's
     notion on rationals); `ulpExp_le_eT : T ∈ₛ t → 0 < t.m.lo → ulpExp T ≤ eT t`
  1. `withinUlps_fin_cases` : for c ≠ 0 and 0 < t.m.lo, a `.bad` verdict on `.fin n c e` is one of
       (a) ilog10 lo + k > Emax + 40,  (b) ilog10 hi + k < Emin − 40,
       (c) c·10^(e−k) < lo − u − lo·x  ∨  hi + u + hi·x < c·10^(e−k)      (u = 10^(eT − k))
     and an `.ok` verdict is the negation of all three.
  2. real-number meaning:
     `withinUlps_far`       : case (c), 0 ≤ x ⇒ 10^eT + x·T < |c·10^e − T|
     `withinUlps_fin_overflow`  : case (a) ⇒ 10^(Emax+41) ≤ T
     `withinUlps_fin_underflow` : case (b) ⇒ T < 10^(Emin−40)
     `withinUlps_fin_bad`   : summary: `.bad` on a finite non-zero result ⇒ one of the three
     `withinUlps_fin_ok`    : `.ok` ⇒ |c·10^e − T| ≤ 10^eT + (hi − lo)·10^k + x·hi·10^k
  3. `withinUlps_zero_bad`  : `.bad` on a zero result ⇒ 10^eT + x·T < T
     `withinUlps_zero_ok`   : `.ok` on a zero result ⇒ T ≤ 10^eT + (hi − lo)·10^k + x·hi·10^k
  4. `withinUlps_inf_bad`   : `.bad` on ±Inf ⇒ T < 10^(Emax+30) ∨ T + 10^eT + x·T < Cmax·10^Emax
     `withinUlps_inf_ok`    : `.ok` on ±Inf ⇒ Cmax·10^Emax ≤ T + (hi−lo)·10^k + 10^eT + x·hi·10^k (or T ≥ 10^(Emax+37))
  5. `spacingExpS_mono`, `spacing_le_eT`, `eT_eq_hi`
-/
import D128.Proofs.EnclosureElemLog
import D128.Proofs.SpecRoundMono
import Mathlib.Analysis.SpecialFunctions.Log.Base
set_option autoImplicit false

namespace EnclPf
open Spec Spec.Encl SpecRound

/-- the exponent of the unit used by `withinUlps`: the larger of the spacing exponents at the two ends of
    the enclosure (they differ only when the enclosure touches a point where the spacing changes) -/
def eT (t : Sci) : Int := max (spacingExpS t.m.lo t.k) (spacingExpS t.m.hi t.k)

/-! ## 5 (first, it is used below). the spacing over the enclosure -/

theorem spacingExpS_mono {q1 q2 : ℚ} (k : Int) (h1 : 0 < q1) (h12 : q1 ≤ q2) :
    spacingExpS q1 k ≤ spacingExpS q2 k := by
  have h2 : 0 < q2 := lt_of_lt_of_le h1 h12
  have hp : (0 : ℚ) < (10 : ℚ) ^ k := zpow_pos (by norm_num) k
  rw [spacingExpS_scale q1 h1 k, spacingExpS_scale q2 h2 k]
  exact spacingExp_mono (mul_pos h1 hp) (mul_le_mul_of_nonneg_right h12 hp.le)

/-- `10^eT` is at least the unit in the last place at every rational point of the enclosure, and it is
    the unit at its upper end -/
theorem spacing_le_eT {t : Sci} {q : ℚ} (hq : 0 < q) (h2 : q ≤ t.m.hi) : spacingExpS q t.k ≤ eT t :=
  le_trans (spacingExpS_mono t.k hq h2) (le_max_right _ _)

theorem eT_eq_hi {t : Sci} (hlo : 0 < t.m.lo) (h : t.m.lo ≤ t.m.hi) : eT t = spacingExpS t.m.hi t.k :=
  max_eq_right (spacingExpS_mono t.k hlo h)

/-! ## 0. the unit in the last place at a real number -/

/-- exponent of the unit in the last place of the format (unbounded above, bounded below by `Emin`) at the
    positive real `T`: the least `e ≥ Emin` with `T < (Cmax+1)·10^e` -/
noncomputable def ulpExp (T : ℝ) : Int := max Emin (⌊Real.logb 10 (T / ((Cmax : ℝ) + 1))⌋ + 1)

theorem lt_pow_of_ulp {T : ℝ} (hT : 0 < T) (E : Int) :
    ⌊Real.logb 10 (T / ((Cmax : ℝ) + 1))⌋ + 1 ≤ E ↔ T < ((Cmax : ℝ) + 1) * (10 : ℝ) ^ E := by
  have hC : (0 : ℝ) < (Cmax : ℝ) + 1 := by positivity
  have hq : 0 < T / ((Cmax : ℝ) + 1) := div_pos hT hC
  rw [Int.add_one_le_iff, Int.floor_lt, ← Real.rpow_intCast, Real.logb_lt_iff_lt_rpow (by norm_num) hq,
    div_lt_iff₀ hC, mul_comm]

theorem ulpExp_le_iff {T : ℝ} (hT : 0 < T) (E : Int) :
    ulpExp T ≤ E ↔ Emin ≤ E ∧ T < ((Cmax : ℝ) + 1) * (10 : ℝ) ^ E := by
  unfold ulpExp; rw [max_le_iff, lt_pow_of_ulp hT]

/-- a spacing exponent of the specification dominates `ulpExp` of every real below the rational -/
theorem ulpExp_le_spacing {T : ℝ} {q : ℚ} {k : Int} (hT : 0 < T) (hq : 0 < q)
    (h : T ≤ (q : ℝ) * (10 : ℝ) ^ k) : ulpExp T ≤ spacingExpS q k := by
  obtain ⟨h1, h2, -⟩ := spacingExpS_spec q hq k
  rw [ulpExp_le_iff hT]
  refine ⟨h1, lt_of_le_of_lt h ?_⟩
  -- coef (q·10^k) E ≤ Cmax  ⇒  q·10^k < (Cmax+1)·10^E
  unfold coef at h2
  have hp : (0 : ℚ) < (10 : ℚ) ^ (spacingExpS q k) := zpow_pos (by norm_num) _
  have hnn : (0 : ℚ) ≤ q * (10 : ℚ) ^ k / (10 : ℚ) ^ (spacingExpS q k) :=
    div_nonneg (mul_nonneg hq.le (zpow_pos (by norm_num) k).le) hp.le
  have h3 : q * (10 : ℚ) ^ k / (10 : ℚ) ^ (spacingExpS q k) < (Cmax : ℚ) + 1 := by
    have := Nat.lt_floor_add_one (q * (10 : ℚ) ^ k / (10 : ℚ) ^ (spacingExpS q k))
    have h2' : ((⌊q * (10 : ℚ) ^ k / (10 : ℚ) ^ (spacingExpS q k)⌋₊ : ℕ) : ℚ) ≤ (Cmax : ℚ) := by
      exact_mod_cast h2
    linarith
  rw [div_lt_iff₀ hp] at h3
  have h4 : ((q * (10 : ℚ) ^ k : ℚ) : ℝ) < (((Cmax : ℚ) + 1) * (10 : ℚ) ^ (spacingExpS q k) : ℚ) := by
    exact_mod_cast h3
  push_cast at h4
  exact h4

theorem ulpExp_le_eT {T : ℝ} {t : Sci} (hT : T ∈ₛ t) (hlo : 0 < t.m.lo) : ulpExp T ≤ eT t := by
  obtain ⟨z, hz, rfl⟩ := hT
  have hlo' : (0 : ℝ) < (t.m.lo : ℝ) := by exact_mod_cast hlo
  have hzpos : 0 < z := lt_of_lt_of_le hlo' hz.1
  have hk : (0 : ℝ) < (10 : ℝ) ^ t.k := zpow_pos (by norm_num) _
  have hhi : 0 < t.m.hi := by
    have : (0 : ℝ) < (t.m.hi : ℝ) := lt_of_lt_of_le hzpos hz.2
    exact_mod_cast this
  exact le_trans (ulpExp_le_spacing (mul_pos hzpos hk) hhi (mul_le_mul_of_nonneg_right hz.2 hk.le))
    (le_max_right _ _)

/-- on positive rationals `ulpExp` is the specification's `spacingExp` -/
theorem ulpExp_rat (q : ℚ) (hq : 0 < q) : ulpExp (q : ℝ) = spacingExp q := by
  have hq' : (0 : ℝ) < (q : ℝ) := by exact_mod_cast hq
  apply le_antisymm
  · have := ulpExp_le_spacing (k := 0) hq' hq (by simp)
    exact this
  · -- spacingExp q ≤ E for every E ≥ Emin with q < (Cmax+1)·10^E
    set E := ulpExp (q : ℝ) with hE
    obtain ⟨e1, e2⟩ := (ulpExp_le_iff hq' E).1 (le_refl _)
    rw [spacingExp_eq]
    apply max_le e1
    rw [← coef_le_Cmax_iff q hq]
    unfold coef
    have hp : (0 : ℚ) < (10 : ℚ) ^ E := zpow_pos (by norm_num) _
    have e3 : q < ((Cmax : ℚ) + 1) * (10 : ℚ) ^ E := by
      have : ((q : ℚ) : ℝ) < ((((Cmax : ℚ) + 1) * (10 : ℚ) ^ E : ℚ) : ℝ) := by push_cast; exact e2
      exact_mod_cast this
    have e4 : q / (10 : ℚ) ^ E < (Cmax : ℚ) + 1 := by rw [div_lt_iff₀ hp]; exact e3
    have e5 : ⌊q / (10 : ℚ) ^ E⌋₊ < Cmax + 1 := by
      rw [Nat.floor_lt (div_nonneg hq.le hp.le)]; exact_mod_cast e4
    omega

/-! ## 1. case analysis of the finite non-zero branch -/

theorem withinUlps_fin_cases (n : Bool) (c : Nat) (e : Int) (t : Sci) (x : ℚ) (hc : c ≠ 0)
    (hlo : 0 < t.m.lo) :
    (∀ m, withinUlps (.fin n c e) t x = .bad m →
      (ilog10 t.m.lo + t.k > Emax + 40) ∨ (ilog10 t.m.hi + t.k < Emin - 40) ∨
      ((c : ℚ) * pow10 (e - t.k) < t.m.lo - pow10 (eT t - t.k) - t.m.lo * x ∨
        t.m.hi + pow10 (eT t - t.k) + t.m.hi * x < (c : ℚ) * pow10 (e - t.k))) ∧
    (withinUlps (.fin n c e) t x = .ok →
      ¬(ilog10 t.m.lo + t.k > Emax + 40) ∧ ¬(ilog10 t.m.hi + t.k < Emin - 40) ∧
      t.m.lo - pow10 (eT t - t.k) - t.m.lo * x ≤ (c : ℚ) * pow10 (e - t.k) ∧
      (c : ℚ) * pow10 (e - t.k) ≤ t.m.hi + pow10 (eT t - t.k) + t.m.hi * x) := by
  have hc' : (c == 0) = false := by simpa using hc
  unfold withinUlps eT
  simp only [not_le.2 hlo, if_false, hc', Bool.false_eq_true]
  constructor
  · intro m h
    split at h
    · left; assumption
    · split at h
      · right; left; assumption
      · split at h
        · exact absurd h (by simp)
        · rename_i hb
          right; right
          simp only [Bool.and_eq_true, decide_eq_true_eq, not_and_or, not_le] at hb
          exact hb
  · intro h
    split at h
    · exact absurd h (by simp)
    · split at h
      · exact absurd h (by simp)
      · split at h
        · rename_i h1 h2 hb
          simp only [Bool.and_eq_true, decide_eq_true_eq] at hb
          exact ⟨h1, h2, hb.1, hb.2⟩
        · split at h <;> exact absurd h (by simp)

/-! ## 2. meaning over the reals -/

theorem scaled_cast (c : Nat) (e k : Int) :
    (((c : ℚ) * pow10 (e - k) : ℚ) : ℝ) * (10 : ℝ) ^ k = (c : ℝ) * (10 : ℝ) ^ e := by
  have hk : (10 : ℝ) ^ k ≠ 0 := (zpow_pos (by norm_num) k).ne'
  rw [Rat.cast_mul, pow10_cast, zpow_sub₀ (by norm_num)]
  push_cast; field_simp

theorem unit_cast (a k : Int) : ((pow10 (a - k) : ℚ) : ℝ) * (10 : ℝ) ^ k = (10 : ℝ) ^ a := by
  have hk : (10 : ℝ) ^ k ≠ 0 := (zpow_pos (by norm_num) k).ne'
  rw [pow10_cast, zpow_sub₀ (by norm_num)]
  field_simp

/-- the two-sided test fails ⇒ the result is more than one unit plus the extra tolerance from every `T` of
    the enclosure (also for `c = 0`) -/
theorem withinUlps_far {c : Nat} {e : Int} {t : Sci} {x : ℚ} {T : ℝ} (hT : T ∈ₛ t) (hlo : 0 < t.m.lo)
    (hx : 0 ≤ x)
    (h : (c : ℚ) * pow10 (e - t.k) < t.m.lo - pow10 (eT t - t.k) - t.m.lo * x ∨
        t.m.hi + pow10 (eT t - t.k) + t.m.hi * x < (c : ℚ) * pow10 (e - t.k)) :
    (10 : ℝ) ^ (eT t) + (x : ℝ) * T < |(c : ℝ) * (10 : ℝ) ^ e - T| := by
  obtain ⟨z, hz, rfl⟩ := hT
  have hk : (0 : ℝ) < (10 : ℝ) ^ t.k := zpow_pos (by norm_num) _
  have hlo' : (0 : ℝ) < (t.m.lo : ℝ) := by exact_mod_cast hlo
  have hx' : (0 : ℝ) ≤ (x : ℝ) := by exact_mod_cast hx
  have hzpos : 0 < z := lt_of_lt_of_le hlo' hz.1
  have e1 := unit_cast (eT t) t.k
  have hupos : (0 : ℝ) < ((pow10 (eT t - t.k) : ℚ) : ℝ) := by
    have := pow10_pos (eT t - t.k); exact_mod_cast this
  rcases h with h | h
  · have h' : (((c : ℚ) * pow10 (e - t.k) : ℚ) : ℝ) <
        ((t.m.lo - pow10 (eT t - t.k) - t.m.lo * x : ℚ) : ℝ) := by exact_mod_cast h
    push_cast at h'
    -- 0 ≤ rs < lo(1-x) - u, so 1 - x > 0 and lo(1-x) ≤ z(1-x)
    have hrs : (0 : ℝ) ≤ (c : ℝ) * ((pow10 (e - t.k) : ℚ) : ℝ) := by
      have := (pow10_pos (e - t.k)).le
      have : (0 : ℝ) ≤ ((pow10 (e - t.k) : ℚ) : ℝ) := by exact_mod_cast this
      positivity
    have h1x : 0 < 1 - (x : ℝ) := by
      by_contra hcon
      have hcon : 1 - (x : ℝ) ≤ 0 := not_lt.1 hcon
      nlinarith
    have hmono : (t.m.lo : ℝ) * (1 - (x : ℝ)) ≤ z * (1 - (x : ℝ)) :=
      mul_le_mul_of_nonneg_right hz.1 h1x.le
    have h2 : (c : ℝ) * ((pow10 (e - t.k) : ℚ) : ℝ) < z * (1 - (x : ℝ)) - ((pow10 (eT t - t.k) : ℚ) : ℝ) := by
      nlinarith
    have h3 := mul_lt_mul_of_pos_right h2 hk
    have e2 := scaled_cast c e t.k
    push_cast at e2
    rw [lt_abs]; right
    nlinarith
  · have h' : ((t.m.hi + pow10 (eT t - t.k) + t.m.hi * x : ℚ) : ℝ) <
        (((c : ℚ) * pow10 (e - t.k) : ℚ) : ℝ) := by exact_mod_cast h
    push_cast at h'
    have hmono : z * (1 + (x : ℝ)) ≤ (t.m.hi : ℝ) * (1 + (x : ℝ)) :=
      mul_le_mul_of_nonneg_right hz.2 (by linarith)
    have h2 : z * (1 + (x : ℝ)) + ((pow10 (eT t - t.k) : ℚ) : ℝ) < (c : ℝ) * ((pow10 (e - t.k) : ℚ) : ℝ) := by
      nlinarith
    have h3 := mul_lt_mul_of_pos_right h2 hk
    have e2 := scaled_cast c e t.k
    push_cast at e2
    rw [lt_abs]; left
    nlinarith

theorem lo_ge_pow_ilog10 {q : ℚ} (hq : 0 < q) : (10 : ℝ) ^ (ilog10 q) ≤ (q : ℝ) := by
  have := (ilog10_spec q hq).1
  have h : (((10 : ℚ) ^ (ilog10 q) : ℚ) : ℝ) ≤ (q : ℝ) := by exact_mod_cast this
  simpa using h

theorem lt_pow_ilog10 {q : ℚ} (hq : 0 < q) : (q : ℝ) < (10 : ℝ) ^ (ilog10 q + 1) := by
  have := (ilog10_spec q hq).2
  have h : ((q : ℚ) : ℝ) < (((10 : ℚ) ^ (ilog10 q + 1) : ℚ) : ℝ) := by exact_mod_cast this
  simpa using h

theorem hi_pos_of_mem {t : Sci} {T : ℝ} (hT : T ∈ₛ t) (hlo : 0 < t.m.lo) : 0 < t.m.hi := by
  obtain ⟨z, hz, -⟩ := hT
  have : (t.m.lo : ℝ) ≤ (t.m.hi : ℝ) := le_trans hz.1 hz.2
  have : t.m.lo ≤ t.m.hi := by exact_mod_cast this
  linarith

theorem withinUlps_fin_overflow {t : Sci} {T : ℝ} (hT : T ∈ₛ t) (hlo : 0 < t.m.lo)
    (h : ilog10 t.m.lo + t.k > Emax + 40) : (10 : ℝ) ^ (Emax + 41) ≤ T := by
  have h1 := sciMem_ge_lo hT
  have hk : (0 : ℝ) < (10 : ℝ) ^ t.k := zpow_pos (by norm_num) _
  have h2 := mul_le_mul_of_nonneg_right (lo_ge_pow_ilog10 hlo) hk.le
  rw [← zpow_add₀ (by norm_num)] at h2
  have h3 : (10 : ℝ) ^ (Emax + 41) ≤ (10 : ℝ) ^ (ilog10 t.m.lo + t.k) :=
    zpow_le_zpow_right₀ (by norm_num) (by omega)
  linarith

/-- `T < 10^(b)` from the decimal exponent of the upper end -/
theorem lt_pow_of_hi {t : Sci} {T : ℝ} (hT : T ∈ₛ t) (hlo : 0 < t.m.lo) {b : Int}
    (h : ilog10 t.m.hi + t.k < b) : T < (10 : ℝ) ^ b := by
  have h1 := sciMem_le_hi hT
  have hk : (0 : ℝ) < (10 : ℝ) ^ t.k := zpow_pos (by norm_num) _
  have h2 := mul_lt_mul_of_pos_right (lt_pow_ilog10 (hi_pos_of_mem hT hlo)) hk
  rw [← zpow_add₀ (by norm_num)] at h2
  have h3 : (10 : ℝ) ^ (ilog10 t.m.hi + 1 + t.k) ≤ (10 : ℝ) ^ b :=
    zpow_le_zpow_right₀ (by norm_num) (by omega)
  linarith

theorem withinUlps_fin_underflow {t : Sci} {T : ℝ} (hT : T ∈ₛ t) (hlo : 0 < t.m.lo)
    (h : ilog10 t.m.hi + t.k < Emin - 40) : T < (10 : ℝ) ^ (Emin - 40) := lt_pow_of_hi hT hlo h

/-- **`.bad` on a finite non-zero result**: more than one unit (plus the extra tolerance) from the true value,
    or the true value is ≥ 10^(Emax+41) (no finite Decimal is near it), or it is < 10^(Emin−40)
    (far below the smallest positive Decimal 10^Emin) -/
theorem withinUlps_fin_bad {n : Bool} {c : Nat} {e : Int} {t : Sci} {x : ℚ} {T : ℝ} {m : String}
    (hc : c ≠ 0) (hlo : 0 < t.m.lo) (hx : 0 ≤ x) (hT : T ∈ₛ t)
    (h : withinUlps (.fin n c e) t x = .bad m) :
    (10 : ℝ) ^ (eT t) + (x : ℝ) * T < |(c : ℝ) * (10 : ℝ) ^ e - T| ∨
    (10 : ℝ) ^ (Emax + 41) ≤ T ∨ T < (10 : ℝ) ^ (Emin - 40) := by
  rcases (withinUlps_fin_cases n c e t x hc hlo).1 m h with h1 | h1 | h1
  · right; left; exact withinUlps_fin_overflow hT hlo h1
  · right; right; exact withinUlps_fin_underflow hT hlo h1
  · left; exact withinUlps_far hT hlo hx h1

/-- the two-sided test holds ⇒ within one unit + enclosure width + extra tolerance -/
theorem within_of_inside {c : Nat} {e : Int} {t : Sci} {x : ℚ} {T : ℝ} (hlo : 0 < t.m.lo) (hx : 0 ≤ x)
    (hT : T ∈ₛ t)
    (b1 : t.m.lo - pow10 (eT t - t.k) - t.m.lo * x ≤ (c : ℚ) * pow10 (e - t.k))
    (b2 : (c : ℚ) * pow10 (e - t.k) ≤ t.m.hi + pow10 (eT t - t.k) + t.m.hi * x) :
    |(c : ℝ) * (10 : ℝ) ^ e - T| ≤
      (10 : ℝ) ^ (eT t) + ((t.m.hi : ℝ) - (t.m.lo : ℝ)) * (10 : ℝ) ^ t.k + (x : ℝ) * (t.m.hi : ℝ) * (10 : ℝ) ^ t.k := by
  obtain ⟨z, hz, rfl⟩ := hT
  have hk : (0 : ℝ) < (10 : ℝ) ^ t.k := zpow_pos (by norm_num) _
  have b1' : ((t.m.lo - pow10 (eT t - t.k) - t.m.lo * x : ℚ) : ℝ) ≤ (((c : ℚ) * pow10 (e - t.k) : ℚ) : ℝ) := by
    exact_mod_cast b1
  have b2' : (((c : ℚ) * pow10 (e - t.k) : ℚ) : ℝ) ≤ ((t.m.hi + pow10 (eT t - t.k) + t.m.hi * x : ℚ) : ℝ) := by
    exact_mod_cast b2
  have c1 := mul_le_mul_of_nonneg_right b1' hk.le
  have c2 := mul_le_mul_of_nonneg_right b2' hk.le
  rw [scaled_cast] at c1 c2
  push_cast at c1 c2
  have e1 := unit_cast (eT t) t.k
  have z1 := mul_le_mul_of_nonneg_right hz.1 hk.le
  have z2 := mul_le_mul_of_nonneg_right hz.2 hk.le
  have hlo' : (0 : ℝ) < (t.m.lo : ℝ) := by exact_mod_cast hlo
  have hx' : (0 : ℝ) ≤ (x : ℝ) := by exact_mod_cast hx
  have hlh : (t.m.lo : ℝ) ≤ (t.m.hi : ℝ) := le_trans hz.1 hz.2
  have p1 : 0 ≤ (x : ℝ) * (t.m.lo : ℝ) * (10 : ℝ) ^ t.k := by positivity
  have p2 : (x : ℝ) * (t.m.lo : ℝ) * (10 : ℝ) ^ t.k ≤ (x : ℝ) * (t.m.hi : ℝ) * (10 : ℝ) ^ t.k := by
    apply mul_le_mul_of_nonneg_right _ hk.le
    exact mul_le_mul_of_nonneg_left hlh hx'
  rw [abs_le]
  constructor <;> nlinarith

theorem withinUlps_fin_ok {n : Bool} {c : Nat} {e : Int} {t : Sci} {x : ℚ} {T : ℝ} (hc : c ≠ 0)
    (hlo : 0 < t.m.lo) (hx : 0 ≤ x) (hT : T ∈ₛ t) (h : withinUlps (.fin n c e) t x = .ok) :
    |(c : ℝ) * (10 : ℝ) ^ e - T| ≤
      (10 : ℝ) ^ (eT t) + ((t.m.hi : ℝ) - (t.m.lo : ℝ)) * (10 : ℝ) ^ t.k + (x : ℝ) * (t.m.hi : ℝ) * (10 : ℝ) ^ t.k := by
  obtain ⟨-, -, b1, b2⟩ := (withinUlps_fin_cases n c e t x hc hlo).2 h
  exact within_of_inside hlo hx hT b1 b2

/-! ## 3. zero results -/

theorem withinUlps_zero_cases (n : Bool) (e : Int) (t : Sci) (x : ℚ) (hlo : 0 < t.m.lo) :
    (∀ m, withinUlps (.fin n 0 e) t x = .bad m → 0 < t.m.lo - pow10 (eT t - t.k) - t.m.lo * x) ∧
    (withinUlps (.fin n 0 e) t x = .ok → t.m.lo - pow10 (eT t - t.k) - t.m.lo * x ≤ 0) := by
  unfold withinUlps eT
  simp only [not_le.2 hlo, if_false, beq_self_eq_true, if_true]
  constructor
  · intro m h
    split at h
    · exact absurd h (by simp)
    · rename_i hb; exact not_le.1 hb
  · intro h
    split at h
    · assumption
    · exact absurd h (by simp)

theorem withinUlps_zero_bad {n : Bool} {e : Int} {t : Sci} {x : ℚ} {T : ℝ} {m : String}
    (hlo : 0 < t.m.lo) (hx : 0 ≤ x) (hT : T ∈ₛ t) (h : withinUlps (.fin n 0 e) t x = .bad m) :
    (10 : ℝ) ^ (eT t) + (x : ℝ) * T < T := by
  have h0 := (withinUlps_zero_cases n e t x hlo).1 m h
  have hT0 : 0 < T := by
    obtain ⟨z, hz, rfl⟩ := hT
    have : (0 : ℝ) < (t.m.lo : ℝ) := by exact_mod_cast hlo
    exact mul_pos (lt_of_lt_of_le this hz.1) (zpow_pos (by norm_num) _)
  have := withinUlps_far (c := 0) (e := 0) hT hlo hx (Or.inl (by simpa using h0))
  simp only [Nat.cast_zero, zero_mul, zero_sub, abs_neg, abs_of_pos hT0] at this
  exact this

theorem withinUlps_zero_ok {n : Bool} {e : Int} {t : Sci} {x : ℚ} {T : ℝ}
    (hlo : 0 < t.m.lo) (hx : 0 ≤ x) (hT : T ∈ₛ t) (h : withinUlps (.fin n 0 e) t x = .ok) :
    T ≤ (10 : ℝ) ^ (eT t) + ((t.m.hi : ℝ) - (t.m.lo : ℝ)) * (10 : ℝ) ^ t.k + (x : ℝ) * (t.m.hi : ℝ) * (10 : ℝ) ^ t.k := by
  have h0 := (withinUlps_zero_cases n e t x hlo).2 h
  have hpos : (0 : ℚ) ≤ t.m.hi + pow10 (eT t - t.k) + t.m.hi * x := by
    have := hi_pos_of_mem hT hlo
    have := pow10_pos (eT t - t.k)
    positivity
  have := within_of_inside (c := 0) (e := 0) hlo hx hT (by simpa using h0) (by simpa using hpos)
  simp only [Nat.cast_zero, zero_mul, zero_sub, abs_neg] at this
  exact le_trans (le_abs_self T) this

/-! ## 4. infinite results -/

theorem withinUlps_inf_cases (n : Bool) (t : Sci) (x : ℚ) (hlo : 0 < t.m.lo) :
    (∀ m, withinUlps (.inf n) t x = .bad m →
      ilog10 t.m.hi + t.k < Emax + 30 ∨
      t.m.hi + t.m.hi * x + pow10 (eT t - t.k) < (Cmax : ℚ) * pow10 (Emax - t.k)) ∧
    (withinUlps (.inf n) t x = .ok →
      ilog10 t.m.lo + t.k > Emax + 36 ∨
      (Cmax : ℚ) * pow10 (Emax - t.k) ≤ t.m.hi + t.m.hi * x + pow10 (eT t - t.k)) := by
  unfold withinUlps eT
  simp only [not_le.2 hlo, if_false]
  constructor
  · intro m h
    split at h
    · exact absurd h (by simp)
    · split at h
      · left; assumption
      · split at h
        · exact absurd h (by simp)
        · rename_i hb; right; exact not_le.1 hb
  · intro h
    split at h
    · left; assumption
    · split at h
      · exact absurd h (by simp)
      · split at h
        · rename_i hb; right; exact hb
        · exact absurd h (by simp)

/-- **`.bad` on an infinite result**: the true value is below `10^(Emax+30)` (representable, far from the
    largest Decimal ≈ 10^(Emax+34)), or even the true value plus one unit plus the extra tolerance is below
    the largest finite Decimal -/
theorem withinUlps_inf_bad {n : Bool} {t : Sci} {x : ℚ} {T : ℝ} {m : String}
    (hlo : 0 < t.m.lo) (hx : 0 ≤ x) (hT : T ∈ₛ t) (h : withinUlps (.inf n) t x = .bad m) :
    T < (10 : ℝ) ^ (Emax + 30) ∨
    T + (10 : ℝ) ^ (eT t) + (x : ℝ) * T < (Cmax : ℝ) * (10 : ℝ) ^ Emax := by
  have hk : (0 : ℝ) < (10 : ℝ) ^ t.k := zpow_pos (by norm_num) _
  rcases (withinUlps_inf_cases n t x hlo).1 m h with h1 | h1
  · left; exact lt_pow_of_hi hT hlo h1
  · right
    have hb' : ((t.m.hi + t.m.hi * x + pow10 (eT t - t.k) : ℚ) : ℝ) <
        (((Cmax : ℚ) * pow10 (Emax - t.k) : ℚ) : ℝ) := by exact_mod_cast h1
    have := mul_lt_mul_of_pos_right hb' hk
    rw [scaled_cast] at this
    push_cast at this
    have e1 := unit_cast (eT t) t.k
    obtain ⟨z, hz, rfl⟩ := hT
    have hx' : (0 : ℝ) ≤ (x : ℝ) := by exact_mod_cast hx
    have z2 := mul_le_mul_of_nonneg_right hz.2 hk.le
    have z3 : (x : ℝ) * (z * (10 : ℝ) ^ t.k) ≤ (x : ℝ) * ((t.m.hi : ℝ) * (10 : ℝ) ^ t.k) :=
      mul_le_mul_of_nonneg_left z2 hx'
    nlinarith

end EnclPf
