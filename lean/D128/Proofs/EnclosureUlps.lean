/-
  Soundness of the enclosure oracle, part 9: the verdict function `Spec.withinUlps` (D128/Spec/Elem.lean).
  `T` is the positive true value, known only through `T ∈ₛ t` (`T = z·10^t.k`, `t.m.lo ≤ z ≤ t.m.hi`);
  the result is the finite magnitude `c·10^e`.  `eT t = max (spacingExpS t.m.lo t.k) (spacingExpS t.m.hi t.k)`
  is the exponent of the unit used by the verdict: the format's spacing at the upper end of the enclosure.

  1. `withinUlps_fin_cases` : for c ≠ 0 and 0 < t.m.lo, a `.bad` verdict on `.fin n c e` is one of
       (a) ilog10 lo + k > Emax + 40,  (b) ilog10 lo + k < Emin − 40,  (c) |e − k| > 120,
       (d) c·10^(e−k) < lo − u − lo·x  ∨  hi + u + hi·x < c·10^(e−k)      (u = 10^(eT − k))
     and an `.ok` verdict is the negation of all four.
  2. real-number meaning:
     `withinUlps_fin_far`  : case (d) ⇒ c·10^e < T − 10^eT − x·lo·10^k ∨ T + 10^eT + x·hi·10^k < c·10^e
     `withinUlps_fin_far0` : x = 0 ⇒ |c·10^e − T| > 10^eT        ("more than one ulp from the true value")
     `withinUlps_fin_overflow` : case (a) ⇒ 10^(Emax+41) ≤ T
     `withinUlps_fin_ok`   : `.ok` ⇒ |c·10^e − T| ≤ 10^eT + (hi − lo)·10^k + x·hi·10^k   (0 ≤ x)
  3. `withinUlps_zero_bad` : (x = 0) a `.bad` verdict on a zero result ⇒ 10^Emin < T
     (the true value is more than one subnormal ulp away from 0)
  5. `spacingExpS_mono`, `spacing_le_eT`, `eT_eq_hi` : `10^eT` is the ulp at the upper end of the enclosure and
     at least the ulp at every rational point of it;  `withinUlps_inf_bad` (meaning of `.bad` on ±Inf)
  4. `withinUlps_bad_sound0` : summary for x = 0, result `.fin n c e` with c ≠ 0: a `.bad` verdict implies
       |c·10^e − T| > 10^eT  ∨  10^(Emax+41) ≤ T  ∨  lo·10^k < 10^(Emin−40)  ∨  |e − k| > 120.
-/
import D128.Proofs.EnclosureElemLog
import D128.Proofs.SpecRoundMono
set_option autoImplicit false

namespace EnclPf
open Spec Spec.Encl SpecRound

/-- the exponent of the unit used by `withinUlps`: the larger of the spacing exponents at the two ends of
    the enclosure (they differ only when the enclosure touches a point where the spacing changes) -/
def eT (t : Sci) : Int := max (spacingExpS t.m.lo t.k) (spacingExpS t.m.hi t.k)

/-! ## 1. case analysis of the finite non-zero branch -/

theorem withinUlps_fin_cases (n : Bool) (c : Nat) (e : Int) (t : Sci) (x : ℚ) (hc : c ≠ 0)
    (hlo : 0 < t.m.lo) :
    (∀ m, withinUlps (.fin n c e) t x = .bad m →
      (ilog10 t.m.lo + t.k > Emax + 40) ∨ (ilog10 t.m.lo + t.k < Emin - 40) ∨
      (e - t.k > 120 ∨ e - t.k < -120) ∨
      ((c : ℚ) * pow10 (e - t.k) < t.m.lo - pow10 (eT t - t.k) - t.m.lo * x ∨
        t.m.hi + pow10 (eT t - t.k) + t.m.hi * x < (c : ℚ) * pow10 (e - t.k))) ∧
    (withinUlps (.fin n c e) t x = .ok →
      ¬(ilog10 t.m.lo + t.k > Emax + 40) ∧ ¬(ilog10 t.m.lo + t.k < Emin - 40) ∧
      (-120 ≤ e - t.k ∧ e - t.k ≤ 120) ∧
      t.m.lo - pow10 (eT t - t.k) - t.m.lo * x ≤ (c : ℚ) * pow10 (e - t.k) ∧
      (c : ℚ) * pow10 (e - t.k) ≤ t.m.hi + pow10 (eT t - t.k) + t.m.hi * x) := by
  have hc' : (c == 0) = false := by simpa using hc
  unfold withinUlps eT
  simp only [not_le.2 hlo, if_false, hc', Bool.false_eq_true]
  constructor
  · intro m h
    split at h
    · left; assumption
    · split at h
      · right; left; assumption
      · split at h
        · rename_i hd
          right; right; left
          simpa using hd
        · split at h
          · exact absurd h (by simp)
          · rename_i hb
            right; right; right
            simp only [Bool.and_eq_true, decide_eq_true_eq, not_and_or, not_le] at hb
            exact hb
  · intro h
    split at h
    · exact absurd h (by simp)
    · split at h
      · exact absurd h (by simp)
      · split at h
        · exact absurd h (by simp)
        · split at h
          · rename_i h1 h2 hd hb
            simp only [Bool.and_eq_true, decide_eq_true_eq] at hb
            simp only [Bool.or_eq_true, decide_eq_true_eq, not_or, not_lt] at hd
            exact ⟨h1, h2, ⟨by omega, by omega⟩, hb.1, hb.2⟩
          · exact absurd h (by simp)

/-! ## 2. meaning over the reals -/

theorem scaled_cast (c : Nat) (e k : Int) :
    (((c : ℚ) * pow10 (e - k) : ℚ) : ℝ) * (10 : ℝ) ^ k = (c : ℝ) * (10 : ℝ) ^ e := by
  have hk : (10 : ℝ) ^ k ≠ 0 := (zpow_pos (by norm_num) k).ne'
  rw [Rat.cast_mul, pow10_cast, zpow_sub₀ (by norm_num)]
  push_cast; field_simp

theorem unit_cast (a k : Int) : ((pow10 (a - k) : ℚ) : ℝ) * (10 : ℝ) ^ k = (10 : ℝ) ^ a := by
  have hk : (10 : ℝ) ^ k ≠ 0 := (zpow_pos (by norm_num) k).ne'
  rw [pow10_cast, zpow_sub₀ (by norm_num)]
  field_simp

theorem withinUlps_fin_far {c : Nat} {e : Int} {t : Sci} {x : ℚ} {T : ℝ} (hT : T ∈ₛ t)
    (h : (c : ℚ) * pow10 (e - t.k) < t.m.lo - pow10 (eT t - t.k) - t.m.lo * x ∨
        t.m.hi + pow10 (eT t - t.k) + t.m.hi * x < (c : ℚ) * pow10 (e - t.k)) :
    (c : ℝ) * (10 : ℝ) ^ e < T - (10 : ℝ) ^ (eT t) - (x : ℝ) * (t.m.lo : ℝ) * (10 : ℝ) ^ t.k ∨
    T + (10 : ℝ) ^ (eT t) + (x : ℝ) * (t.m.hi : ℝ) * (10 : ℝ) ^ t.k < (c : ℝ) * (10 : ℝ) ^ e := by
  obtain ⟨z, hz, rfl⟩ := hT
  have hk : (0 : ℝ) < (10 : ℝ) ^ t.k := zpow_pos (by norm_num) _
  rcases h with h | h
  · left
    have h' : (((c : ℚ) * pow10 (e - t.k) : ℚ) : ℝ) <
        ((t.m.lo - pow10 (eT t - t.k) - t.m.lo * x : ℚ) : ℝ) := by exact_mod_cast h
    have := mul_lt_mul_of_pos_right h' hk
    rw [scaled_cast] at this
    push_cast at this
    have e1 := unit_cast (eT t) t.k
    have := mul_le_mul_of_nonneg_right hz.1 hk.le
    nlinarith
  · right
    have h' : ((t.m.hi + pow10 (eT t - t.k) + t.m.hi * x : ℚ) : ℝ) <
        (((c : ℚ) * pow10 (e - t.k) : ℚ) : ℝ) := by exact_mod_cast h
    have := mul_lt_mul_of_pos_right h' hk
    rw [scaled_cast] at this
    push_cast at this
    have e1 := unit_cast (eT t) t.k
    have := mul_le_mul_of_nonneg_right hz.2 hk.le
    nlinarith

theorem withinUlps_fin_far0 {c : Nat} {e : Int} {t : Sci} {T : ℝ} (hT : T ∈ₛ t)
    (h : (c : ℚ) * pow10 (e - t.k) < t.m.lo - pow10 (eT t - t.k) - t.m.lo * 0 ∨
        t.m.hi + pow10 (eT t - t.k) + t.m.hi * 0 < (c : ℚ) * pow10 (e - t.k)) :
    (10 : ℝ) ^ (eT t) < |(c : ℝ) * (10 : ℝ) ^ e - T| := by
  rcases withinUlps_fin_far hT h with h | h
  · rw [lt_abs]; right; push_cast at h; linarith
  · rw [lt_abs]; left; push_cast at h; linarith

theorem lo_ge_pow_ilog10 {q : ℚ} (hq : 0 < q) : (10 : ℝ) ^ (ilog10 q) ≤ (q : ℝ) := by
  have := (ilog10_spec q hq).1
  have h : (((10 : ℚ) ^ (ilog10 q) : ℚ) : ℝ) ≤ (q : ℝ) := by exact_mod_cast this
  simpa using h

theorem withinUlps_fin_overflow {t : Sci} {T : ℝ} (hT : T ∈ₛ t) (hlo : 0 < t.m.lo)
    (h : ilog10 t.m.lo + t.k > Emax + 40) : (10 : ℝ) ^ (Emax + 41) ≤ T := by
  have h1 := sciMem_ge_lo hT
  have hk : (0 : ℝ) < (10 : ℝ) ^ t.k := zpow_pos (by norm_num) _
  have h2 := mul_le_mul_of_nonneg_right (lo_ge_pow_ilog10 hlo) hk.le
  rw [← zpow_add₀ (by norm_num)] at h2
  have h3 : (10 : ℝ) ^ (Emax + 41) ≤ (10 : ℝ) ^ (ilog10 t.m.lo + t.k) :=
    zpow_le_zpow_right₀ (by norm_num) (by omega)
  linarith

theorem withinUlps_fin_underflow {t : Sci} (hlo : 0 < t.m.lo)
    (h : ilog10 t.m.lo + t.k < Emin - 40) : (t.m.lo : ℝ) * (10 : ℝ) ^ t.k < (10 : ℝ) ^ (Emin - 40) := by
  have := (ilog10_spec t.m.lo hlo).2
  have h' : ((t.m.lo : ℚ) : ℝ) < (((10 : ℚ) ^ (ilog10 t.m.lo + 1) : ℚ) : ℝ) := by exact_mod_cast this
  push_cast at h'
  have hk : (0 : ℝ) < (10 : ℝ) ^ t.k := zpow_pos (by norm_num) _
  have h2 := mul_lt_mul_of_pos_right h' hk
  rw [← zpow_add₀ (by norm_num)] at h2
  have h3 : (10 : ℝ) ^ (ilog10 t.m.lo + 1 + t.k) ≤ (10 : ℝ) ^ (Emin - 40) :=
    zpow_le_zpow_right₀ (by norm_num) (by omega)
  linarith

theorem withinUlps_fin_ok {n : Bool} {c : Nat} {e : Int} {t : Sci} {x : ℚ} {T : ℝ} (hc : c ≠ 0)
    (hlo : 0 < t.m.lo) (hx : 0 ≤ x) (hT : T ∈ₛ t) (h : withinUlps (.fin n c e) t x = .ok) :
    |(c : ℝ) * (10 : ℝ) ^ e - T| ≤
      (10 : ℝ) ^ (eT t) + ((t.m.hi : ℝ) - (t.m.lo : ℝ)) * (10 : ℝ) ^ t.k + (x : ℝ) * (t.m.hi : ℝ) * (10 : ℝ) ^ t.k := by
  obtain ⟨-, -, -, b1, b2⟩ := (withinUlps_fin_cases n c e t x hc hlo).2 h
  obtain ⟨z, hz, rfl⟩ := hT
  have hk : (0 : ℝ) < (10 : ℝ) ^ t.k := zpow_pos (by norm_num) _
  have b1' : ((t.m.lo - pow10 (eT t - t.k) - t.m.lo * x : ℚ) : ℝ) ≤ (((c : ℚ) * pow10 (e - t.k) : ℚ) : ℝ) := by
    exact_mod_cast b1
  have b2' : (((c : ℚ) * pow10 (e - t.k) : ℚ) : ℝ) ≤ ((t.m.hi + pow10 (eT t - t.k) + t.m.hi * x : ℚ) : ℝ) := by
    exact_mod_cast b2
  have c1 := mul_le_mul_of_nonneg_right b1' hk.le
  have c2 := mul_le_mul_of_nonneg_right b2' hk.le
  rw [scaled_cast] at c1 c2
  push_cast at c1 c2
  have e1 := unit_cast (eT t) t.k
  have z1 := mul_le_mul_of_nonneg_right hz.1 hk.le
  have z2 := mul_le_mul_of_nonneg_right hz.2 hk.le
  have hlo' : (0 : ℝ) < (t.m.lo : ℝ) := by exact_mod_cast hlo
  have hx' : (0 : ℝ) ≤ (x : ℝ) := by exact_mod_cast hx
  have hlh : (t.m.lo : ℝ) ≤ (t.m.hi : ℝ) := le_trans hz.1 hz.2
  have p1 : 0 ≤ (x : ℝ) * (t.m.lo : ℝ) * (10 : ℝ) ^ t.k := by positivity
  have p2 : (x : ℝ) * (t.m.lo : ℝ) * (10 : ℝ) ^ t.k ≤ (x : ℝ) * (t.m.hi : ℝ) * (10 : ℝ) ^ t.k := by
    apply mul_le_mul_of_nonneg_right _ hk.le
    exact mul_le_mul_of_nonneg_left hlh hx'
  rw [abs_le]
  constructor <;> nlinarith

/-! ## 3. zero results -/

theorem withinUlps_zero_bad {n : Bool} {e : Int} {t : Sci} {T : ℝ} {m : String}
    (hlo : 0 < t.m.lo) (hT : T ∈ₛ t) (h : withinUlps (.fin n 0 e) t 0 = .bad m) :
    (10 : ℝ) ^ Emin < T := by
  have h1 := sciMem_ge_lo hT
  have hk : (0 : ℝ) < (10 : ℝ) ^ t.k := zpow_pos (by norm_num) _
  have hlo' : (0 : ℝ) < (t.m.lo : ℝ) := by exact_mod_cast hlo
  have hp : (0 : ℝ) < (10 : ℝ) ^ Emin := zpow_pos (by norm_num) _
  unfold withinUlps at h
  simp only [not_le.2 hlo, if_false, beq_self_eq_true, if_true, mul_zero, add_zero] at h
  split at h
  · exact absurd h (by simp)
  · split at h
    · -- the decimal exponent of the lower end is at least Emin + 2
      rename_i _ hl
      have h2 := mul_le_mul_of_nonneg_right (lo_ge_pow_ilog10 hlo) hk.le
      rw [← zpow_add₀ (by norm_num)] at h2
      have h3 : (10 : ℝ) ^ (Emin + 2) ≤ (10 : ℝ) ^ (ilog10 t.m.lo + t.k) :=
        zpow_le_zpow_right₀ (by norm_num) (by omega)
      have e2 : (10 : ℝ) ^ (Emin + 2) = (10 : ℝ) ^ Emin * 100 := by
        rw [zpow_add₀ (by norm_num)]; norm_num
      nlinarith
    · split at h
      · exact absurd h (by simp)
      · rename_i hb
        rw [not_le] at hb
        have hb' : ((1 : ℚ) : ℝ) < ((t.m.lo * pow10 (t.k - Emin) : ℚ) : ℝ) := by exact_mod_cast hb
        rw [Rat.cast_mul, pow10_cast, zpow_sub₀ (by norm_num)] at hb'
        push_cast at hb'
        have : (t.m.lo : ℝ) * ((10 : ℝ) ^ t.k / (10 : ℝ) ^ Emin) * (10 : ℝ) ^ Emin = (t.m.lo : ℝ) * (10 : ℝ) ^ t.k := by
          field_simp
        have := mul_lt_mul_of_pos_right hb' hp
        nlinarith

/-! ## 4. summary for the default tolerance -/

theorem withinUlps_bad_sound0 {n : Bool} {c : Nat} {e : Int} {t : Sci} {T : ℝ} {m : String} (hc : c ≠ 0)
    (hlo : 0 < t.m.lo) (hT : T ∈ₛ t) (h : withinUlps (.fin n c e) t 0 = .bad m) :
    (10 : ℝ) ^ (eT t) < |(c : ℝ) * (10 : ℝ) ^ e - T| ∨ (10 : ℝ) ^ (Emax + 41) ≤ T ∨
      (t.m.lo : ℝ) * (10 : ℝ) ^ t.k < (10 : ℝ) ^ (Emin - 40) ∨ (e - t.k > 120 ∨ e - t.k < -120) := by
  rcases (withinUlps_fin_cases n c e t 0 hc hlo).1 m h with h1 | h1 | h1 | h1
  · right; left; exact withinUlps_fin_overflow hT hlo h1
  · right; right; left; exact withinUlps_fin_underflow hlo h1
  · right; right; right; exact h1
  · left; exact withinUlps_fin_far0 hT h1

/-! ## 5. the spacing over the enclosure, infinite results -/

theorem spacingExpS_mono {q1 q2 : ℚ} (k : Int) (h1 : 0 < q1) (h12 : q1 ≤ q2) :
    spacingExpS q1 k ≤ spacingExpS q2 k := by
  have h2 : 0 < q2 := lt_of_lt_of_le h1 h12
  have hp : (0 : ℚ) < (10 : ℚ) ^ k := zpow_pos (by norm_num) k
  rw [spacingExpS_scale q1 h1 k, spacingExpS_scale q2 h2 k]
  exact spacingExp_mono (mul_pos h1 hp) (mul_le_mul_of_nonneg_right h12 hp.le)

/-- `10^eT` is at least the unit in the last place at every rational point of the enclosure, and it is
    the unit at its upper end -/
theorem spacing_le_eT {t : Sci} {q : ℚ} (hq : 0 < q) (h2 : q ≤ t.m.hi) : spacingExpS q t.k ≤ eT t :=
  le_trans (spacingExpS_mono t.k hq h2) (le_max_right _ _)

theorem eT_eq_hi {t : Sci} (hlo : 0 < t.m.lo) (h : t.m.lo ≤ t.m.hi) : eT t = spacingExpS t.m.hi t.k :=
  max_eq_right (spacingExpS_mono t.k hlo h)

/-- an infinite result judged `.bad` (default tolerance): either the lower end of the enclosure is below
    `10^(Emax+31)`, or the true value plus one ulp is still below the largest finite Decimal -/
theorem withinUlps_inf_bad {n : Bool} {t : Sci} {T : ℝ} {m : String}
    (hlo : 0 < t.m.lo) (hT : T ∈ₛ t) (h : withinUlps (.inf n) t 0 = .bad m) :
    (t.m.lo : ℝ) * (10 : ℝ) ^ t.k < (10 : ℝ) ^ (Emax + 31) ∨
    T + (10 : ℝ) ^ (eT t) < (Cmax : ℝ) * (10 : ℝ) ^ Emax := by
  have hk : (0 : ℝ) < (10 : ℝ) ^ t.k := zpow_pos (by norm_num) _
  unfold withinUlps at h
  simp only [not_le.2 hlo, if_false, mul_zero, add_zero] at h
  split at h
  · exact absurd h (by simp)
  · split at h
    · rename_i hl
      left
      have := (ilog10_spec t.m.lo hlo).2
      have h' : ((t.m.lo : ℚ) : ℝ) < (((10 : ℚ) ^ (ilog10 t.m.lo + 1) : ℚ) : ℝ) := by exact_mod_cast this
      push_cast at h'
      have h2 := mul_lt_mul_of_pos_right h' hk
      rw [← zpow_add₀ (by norm_num)] at h2
      have h3 : (10 : ℝ) ^ (ilog10 t.m.lo + 1 + t.k) ≤ (10 : ℝ) ^ (Emax + 31) :=
        zpow_le_zpow_right₀ (by norm_num) (by omega)
      linarith
    · split at h
      · exact absurd h (by simp)
      · rename_i hb
        right
        rw [ge_iff_le, not_le] at hb
        have hb' : ((t.m.hi + pow10 (eT t - t.k) : ℚ) : ℝ) <
            (((Cmax : ℚ) * pow10 (Emax - t.k) : ℚ) : ℝ) := by exact_mod_cast hb
        have := mul_lt_mul_of_pos_right hb' hk
        rw [scaled_cast] at this
        push_cast at this
        have e1 := unit_cast (eT t) t.k
        have h1 := sciMem_le_hi hT
        nlinarith

end EnclPf
