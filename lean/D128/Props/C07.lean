/-
  Property C07 (formatting with a precision rounds half-even) — the rounding core and the
  format-spec parser.

  `Gen.digits.round` (Go: `func (d *digits) round(prec int)`, /repo/format.go:767) is the only place
  where `Decimal.format` discards digits; `Gen.parseFormat` (format.go:824) reads the fmt-style spec
  handed to `Decimal.Append`.  Statements only; proofs assemble `D128/Proofs/DigitsRound.lean`,
  `D128/Proofs/DigitsGen.lean` and `D128/Proofs/DigitsParse.lean`.

  Vocabulary (`D128/Proofs/Digits.lean`): `Dg.WF` (well-formed record), `Dg.slice` (the `Spec.Slice` a
  record denotes), `Dg.ExpOK` (`|exp| ≤ 2^62`: the exponent arithmetic of `round` does not wrap; every
  record produced by `Decimal.digits` satisfies it, `C07.digits_expOK`).

  * `digits_round_spec`     : well-formed record, any `prec`: no panic, termination, sign kept,
        result well-formed; `prec < 0`: exactly `exp += ndig; ndig = 0`;
        `0 ≤ prec`: digit list = `(Spec.roundSlice (slice d) prec).ds`, point position =
        `(Spec.roundSlice …).dp` unless the result is zero, where the code keeps `exp + ndig`
        (the specification normalises zero to `dp = 0`: see NOTE below)
  * `digits_round_nonzero`  : if the rounded slice has digits, `slice r = Spec.roundSlice (slice d) prec`
  * `digits_round_zero`     : if it has none, `ndig = 0` and `exp = old exp + old ndig`
  * `digits_round_tie_no_digit_kept` : the corner named in the property: rounding to zero digits
        with a lone `5` rounds DOWN (to even = 0), anything larger than 5… rounds up to `1·10^dp`
  * `digits_round_total`    : totality (C20) for well-formed records
  * `digits_then_round`     : the pipeline `digits` ; `round` of `Decimal.format` for every finite `d`

  `parseFormat` (vocabulary in `D128/Proofs/DigitsParse.lean`: `Dg.parseSpec`, a recursive-descent
  reading of `flags* width? ('.' digits*)? verb`; `Dg.isFlagB` = one of ` #+-0`; `Dg.isDig8` = ASCII
  digit; `Dg.widthOK` = empty or `1–9` followed by digits; `Dg.dotBytes`; `Dg.accW`/`Dg.accP` = one
  more digit of width/precision with the code's saturation to 0 / −1 from 10^5 on; a saturated
  precision stays −1 — /repo commit 1d99a24, bounds for every byte string in `C07b.parsed_args_ok`):
  * `parseFormat_total`     : every byte string, every incoming `args`: no panic, termination (C20)
  * `parseFormat_spec`      : `parseFormat s a = .ok (parseSpec s.toList)` (strings below 2^63 bytes)
  * `parseFormat_ignores_args`
  * `parseFormat_grammar`   : on `flags* width? ('.' digits*)? tail` all eight result fields
        explicitly: each of ` #+-` set iff written, `0` set iff written and no `-` anywhere,
        width / precision as accumulated numerals (−1 = no precision, 0 for a bare `.`), verb =
        the tail byte iff the tail is exactly one byte
  * `parseFormat_wellformed`, `parseFormat_no_verb`, `parseFormat_trailing` : the three tail shapes
  * `parseFormat_numeral`   : numerals of at most six digits (first five below 10^5) are read as
        their decimal value
  * `precision_eq`, `width_eq` : the pure accessors `formatArgs.precision` / `formatArgs.width`

  NOTE (specification/code mismatch found, value-preserving): for a result with no digits
  `Spec.roundSlice` returns `⟨[], 0⟩` whereas the code leaves `dp = exp + ndig` of the input, e.g.
  digits "4", exp 0, `round(0)`: code `ndig = 0, exp = 1` (slice `⟨[], 1⟩`), spec `⟨[], 0⟩`.
  Both denote 0.
-/
import D128.Proofs.DigitsRound
import D128.Proofs.DigitsGen
import D128.Proofs.DigitsParse
set_option autoImplicit false

namespace Props.C07

/-- the value a bit pattern denotes -/
local notation "𝔳[" d "]" => Spec.interp (Gen.Decimal.lo d) (Gen.Decimal.hi d)

/-- **`round` is round-half-even on the digit string.** -/
theorem digits_round_spec (d : Gen.digits) (prec : Int64) (hwf : Dg.WF d) (hexp : Dg.ExpOK d) :
    ∃ r, Gen.digits.round d prec = .ok r ∧ r.neg = d.neg ∧ Dg.WF r ∧
      (prec.toInt < 0 → r = { neg := d.neg, dig := d.dig, exp := d.exp + d.ndig, ndig := 0 }) ∧
      (0 ≤ prec.toInt →
        (Dg.slice r).ds = (Spec.roundSlice (Dg.slice d) prec.toInt.toNat).ds ∧
        (Dg.slice r).dp =
          if (Spec.roundSlice (Dg.slice d) prec.toInt.toNat).ds = [] then (Dg.slice d).dp
          else (Spec.roundSlice (Dg.slice d) prec.toInt.toNat).dp) :=
  Dg.round_ok d prec hwf hexp

/-- whenever the rounded value is not zero the record denotes exactly the specified slice -/
theorem digits_round_nonzero (d : Gen.digits) (prec : Int64) (hwf : Dg.WF d) (hexp : Dg.ExpOK d)
    (hp : 0 ≤ prec.toInt) (hnz : (Spec.roundSlice (Dg.slice d) prec.toInt.toNat).ds ≠ []) :
    ∃ r, Gen.digits.round d prec = .ok r ∧ Dg.WF r ∧
      Dg.slice r = Spec.roundSlice (Dg.slice d) prec.toInt.toNat := by
  obtain ⟨r, hr, _, hwf', _, h⟩ := digits_round_spec d prec hwf hexp
  obtain ⟨h1, h2⟩ := h hp
  rw [if_neg hnz] at h2
  refine ⟨r, hr, hwf', ?_⟩
  cases hs : Dg.slice r with
  | mk ds dp =>
    cases ht : Spec.roundSlice (Dg.slice d) prec.toInt.toNat with
    | mk ds' dp' =>
      rw [hs, ht] at h1 h2
      simp only at h1 h2
      rw [h1, h2]

/-- when everything is rounded away the code leaves an empty record at the old point position -/
theorem digits_round_zero (d : Gen.digits) (prec : Int64) (hwf : Dg.WF d) (hexp : Dg.ExpOK d)
    (hp : 0 ≤ prec.toInt) (hz : (Spec.roundSlice (Dg.slice d) prec.toInt.toNat).ds = []) :
    ∃ r, Gen.digits.round d prec = .ok r ∧ r.ndig = 0 ∧
      r.exp.toInt = d.exp.toInt + d.ndig.toInt := by
  obtain ⟨r, hr, _, hwf', _, h⟩ := digits_round_spec d prec hwf hexp
  obtain ⟨h1, h2⟩ := h hp
  rw [if_pos hz] at h2
  rw [hz] at h1
  have hds : Dg.msd r.dig r.ndig.toInt.toNat = [] := h1
  have hlen : r.ndig.toInt.toNat = 0 := by
    rw [← Dg.msd_length r.dig r.ndig.toInt.toNat, hds]; rfl
  have hn0 := hwf'.n0
  have hzero : r.ndig.toInt = 0 := by omega
  have hdp : r.exp.toInt + r.ndig.toInt = d.exp.toInt + d.ndig.toInt := h2
  exact ⟨r, hr, Int64.toInt_inj.mp (by rw [hzero]; rfl), by omega⟩

/-- **Tie with an empty kept prefix** (`prec = 0`, the corner named by the property): a lone digit
`5` — an exact tie between 0 and `1·10^dp`, whose even neighbour is 0 — and every smaller value are
rounded DOWN to the empty record; everything above the tie is rounded up to the single digit `1` one
position higher. -/
theorem digits_round_tie_no_digit_kept (d : Gen.digits) (hwf : Dg.WF d) (hexp : Dg.ExpOK d)
    (h1 : 1 ≤ d.ndig.toInt) :
    ∃ r, Gen.digits.round d 0 = .ok r ∧
      (if (53 ≤ (Dg.at_ d.dig 0).toNat ∧ ¬ (d.ndig.toInt = 1 ∧ (Dg.at_ d.dig 0).toNat = 53)) then
        Dg.slice r = ⟨[1], (Dg.slice d).dp + 1⟩
      else r.ndig = 0 ∧ r.exp.toInt = d.exp.toInt + d.ndig.toInt) :=
  Dg.round_zero_prec d hwf hexp h1

/-- **Totality (C20)** of `round` on well-formed records, for every `prec : int`. -/
theorem digits_round_total (d : Gen.digits) (prec : Int64) (hwf : Dg.WF d) (hexp : Dg.ExpOK d) :
    ∃ r, Gen.digits.round d prec = .ok r ∧ Dg.WF r := by
  obtain ⟨r, hr, _, hwf', _⟩ := digits_round_spec d prec hwf hexp
  exact ⟨r, hr, hwf'⟩

/-- records produced by `Decimal.digits` satisfy the exponent side condition of `round` -/
theorem digits_expOK (d : Gen.Decimal) (digs r : Gen.digits)
    (h : Gen.Decimal.digits_ d digs = .ok r) : Dg.ExpOK r :=
  Dg.digits_expOK d digs r h

/-- **The `digits`;`round` pipeline of `Decimal.format`** never panics, for all bit patterns and every
precision, and for a finite `d = (−1)^neg · c · 10^e` it rounds the slice of `(c, e)` half-to-even. -/
theorem digits_then_round (d : Gen.Decimal) (digs : Gen.digits) (prec : Int64) :
    ∃ r0 r, Gen.Decimal.digits_ d digs = .ok r0 ∧ Gen.digits.round r0 prec = .ok r ∧
      Dg.WF r ∧ r.neg = Gen.Decimal.Signbit d ∧
      (∀ neg c e, 𝔳[d] = .fin neg c e → 0 ≤ prec.toInt →
        (Dg.slice r).ds = (Spec.roundSlice (Spec.sliceOf c e) prec.toInt.toNat).ds ∧
        ((Spec.roundSlice (Spec.sliceOf c e) prec.toInt.toNat).ds ≠ [] →
          Dg.slice r = Spec.roundSlice (Spec.sliceOf c e) prec.toInt.toNat)) := by
  obtain ⟨r0, hr0, hn, hwf, hs, _⟩ := Dg.digits_ok d digs
  have hexp := Dg.digits_expOK d digs r0 hr0
  obtain ⟨r, hr, hneg, hwf', _, h⟩ := digits_round_spec r0 prec hwf hexp
  refine ⟨r0, r, hr0, hr, hwf', hneg.trans hn, ?_⟩
  intro neg c e hfin hp
  have hs' : Dg.slice r0 = Spec.sliceOf c e := by
    have hsp : Gen.Decimal.isSpecial d = false := by
      have := Enc.interp_isFin d
      rw [hfin] at this
      simpa [Spec.Val.isFin] using this.symm
    have := Enc.interp_decompose d hsp
    rw [hfin] at this
    injection this with h1 h2 h3
    rw [hs, ← h2, ← h3]
  obtain ⟨h1, h2⟩ := h hp
  rw [hs'] at h1 h2
  refine ⟨h1, fun hnz => ?_⟩
  rw [if_neg hnz] at h2
  cases hsr : Dg.slice r with
  | mk ds dp =>
    cases ht : Spec.roundSlice (Spec.sliceOf c e) prec.toInt.toNat with
    | mk ds' dp' =>
      rw [hsr, ht] at h1 h2
      simp only at h1 h2
      rw [h1, h2]

/-! ## `parseFormat` -/

/-- **Totality (C20).**  `parseFormat` terminates without panic on every byte string and every
incoming `args` (in particular every index expression `format[i]` is in range). -/
theorem parseFormat_total (s : Go.Bytes) (a : Gen.formatArgs) :
    ∃ r, Gen.parseFormat s a = .ok r :=
  ⟨_, Dg.parseFormat_eq s a⟩

/-- **Functional correctness**: the four loops of `parseFormat` compute the recursive-descent
specification `Dg.parseSpec` of the whole string. -/
theorem parseFormat_spec (s : Go.Bytes) (a : Gen.formatArgs) (h : s.size < 2 ^ 63) :
    Gen.parseFormat s a = .ok (Dg.parseSpec s.toList) :=
  Dg.parseFormat_eq_toList s a h

/-- the incoming `*args` is overwritten, never read -/
theorem parseFormat_ignores_args (s : Go.Bytes) (a b : Gen.formatArgs) :
    Gen.parseFormat s a = Gen.parseFormat s b := by
  rw [Dg.parseFormat_eq, Dg.parseFormat_eq]

/-- **Grammatical specs.**  If the string is `flags* width? ('.' digits*)? tail`, where `tail` does
not start with a flag, a digit or `.`, then every field of the result is as written. -/
theorem parseFormat_grammar (s : Go.Bytes) (a : Gen.formatArgs) (h : s.size < 2 ^ 63)
    (fl wd : List UInt8) (dot : Option (List UInt8)) (tail : List UInt8)
    (hs : s.toList = fl ++ wd ++ Dg.dotBytes dot ++ tail)
    (hfl : ∀ c ∈ fl, Dg.isFlagB c = true) (hwd : Dg.widthOK wd)
    (hdot : ∀ pd, dot = some pd → ∀ x ∈ pd, Dg.isDig8 x = true)
    (htail : Dg.headNot (fun c => Dg.isFlagB c || Dg.isDig8 c || c == 46) tail) :
    Gen.parseFormat s a = .ok
      { forceDP := fl.contains 35, printSign := fl.contains 43, padSign := fl.contains 32,
        padRight := fl.contains 45, padZero := fl.contains 48 && !fl.contains 45,
        verb := Dg.verbOf tail, prec := Dg.precOf dot, wid := Dg.widOf wd } := by
  rw [parseFormat_spec s a h, hs, Dg.parseSpec_grammar fl wd dot tail hfl hwd hdot htail,
    Dg.grammar_fields fl wd dot tail hfl]

/-- well-formed spec ending in a verb byte `v` (not a flag, digit or `.`): `verb = v` -/
theorem parseFormat_wellformed (s : Go.Bytes) (a : Gen.formatArgs) (h : s.size < 2 ^ 63)
    (fl wd : List UInt8) (dot : Option (List UInt8)) (v : UInt8)
    (hs : s.toList = fl ++ wd ++ Dg.dotBytes dot ++ [v])
    (hfl : ∀ c ∈ fl, Dg.isFlagB c = true) (hwd : Dg.widthOK wd)
    (hdot : ∀ pd, dot = some pd → ∀ x ∈ pd, Dg.isDig8 x = true)
    (hv : (Dg.isFlagB v || Dg.isDig8 v || v == 46) = false) :
    ∃ r, Gen.parseFormat s a = .ok r ∧ r.verb = v ∧ r.wid = Dg.widOf wd ∧ r.prec = Dg.precOf dot ∧
      r.padSign = fl.contains 32 ∧ r.forceDP = fl.contains 35 ∧ r.printSign = fl.contains 43 ∧
      r.padRight = fl.contains 45 ∧ r.padZero = (fl.contains 48 && !fl.contains 45) :=
  ⟨_, parseFormat_grammar s a h fl wd dot [v] hs hfl hwd hdot hv, rfl, rfl, rfl, rfl, rfl, rfl, rfl,
    rfl⟩

/-- the spec ends before a verb: `verb = 0` (`Decimal.Append` then reports a bad verb) -/
theorem parseFormat_no_verb (s : Go.Bytes) (a : Gen.formatArgs) (h : s.size < 2 ^ 63)
    (fl wd : List UInt8) (dot : Option (List UInt8))
    (hs : s.toList = fl ++ wd ++ Dg.dotBytes dot)
    (hfl : ∀ c ∈ fl, Dg.isFlagB c = true) (hwd : Dg.widthOK wd)
    (hdot : ∀ pd, dot = some pd → ∀ x ∈ pd, Dg.isDig8 x = true) :
    ∃ r, Gen.parseFormat s a = .ok r ∧ r.verb = 0 :=
  ⟨_, parseFormat_grammar s a h fl wd dot [] (by rw [hs]; simp) hfl hwd hdot trivial, rfl⟩

/-- trailing bytes after the verb position: `verb = 0` -/
theorem parseFormat_trailing (s : Go.Bytes) (a : Gen.formatArgs) (h : s.size < 2 ^ 63)
    (fl wd : List UInt8) (dot : Option (List UInt8)) (v x : UInt8) (rest : List UInt8)
    (hs : s.toList = fl ++ wd ++ Dg.dotBytes dot ++ v :: x :: rest)
    (hfl : ∀ c ∈ fl, Dg.isFlagB c = true) (hwd : Dg.widthOK wd)
    (hdot : ∀ pd, dot = some pd → ∀ x ∈ pd, Dg.isDig8 x = true)
    (hv : (Dg.isFlagB v || Dg.isDig8 v || v == 46) = false) :
    ∃ r, Gen.parseFormat s a = .ok r ∧ r.verb = 0 :=
  ⟨_, parseFormat_grammar s a h fl wd dot (v :: x :: rest) hs hfl hwd hdot hv, rfl⟩

/-- numerals of at most six digits whose first five digits stay below 10^5 — in particular every
width and precision up to 100000 — are read as their decimal value (`Dg.dv b = b − '0'`,
`Dg.ofMsd` = value of a digit list) -/
theorem parseFormat_numeral (c : UInt8) (ds : List UInt8) (hc : Dg.isDig8 c = true)
    (hds : ∀ x ∈ ds, Dg.isDig8 x = true)
    (hb : Dg.ofMsd ((c :: ds).map Dg.dv) / 10 < 100000 ∨ ds = []) :
    (Dg.widOf (c :: ds)).toInt = (Dg.ofMsd ((c :: ds).map Dg.dv) : Nat) ∧
    (Dg.precOf (some (c :: ds))).toInt = (Dg.ofMsd ((c :: ds).map Dg.dv) : Nat) :=
  Dg.numeral_value c ds hc hds hb

/-- `formatArgs.precision`: a negative stored precision means "absent" -/
theorem precision_eq (a : Gen.formatArgs) :
    Gen.formatArgs.precision a = if a.prec < 0 then ((0 : Int64), false) else (a.prec, true) := by
  unfold Gen.formatArgs.precision
  by_cases h : a.prec < 0 <;> simp [h, Id.run] <;> rfl

theorem width_eq (a : Gen.formatArgs) : Gen.formatArgs.width a = a.wid := rfl

end Props.C07
