/-
  Property C16, logarithm family: `Log`, `Log2`, `Log10`, `Log1p` (Go: /repo/exp.go, /repo/decomposed.go `log`, `log1p`)
  are accurate to one unit in the last place.  Statements only; the proofs are in `D128/Proofs/LogAcc*.lean`.

  All theorems are about the generated `Gen.Log`, `Gen.Log2`, `Gen.Log10`, `Gen.Log1p`, for EVERY bit pattern `d` that
  denotes a finite non-zero number (`𝔳[d] = .fin n c e`, value `X = ±c·10^e`; the special operands, zeros and
  arguments outside the domain are property C15: `Props.C15`), and for the default modes `ToNearestEven` (byte 0, the
  library's default) and `ToNearestAway` (byte 1).  `ulpExp T` is the exponent of the unit in the last place of the
  Decimal format at the real number `T` (`EnclPf.ulpExp`, `= Spec.spacingExp` on rationals: `Props.C16.ulp_is_spacing`).

  1. THE WORKING VALUE (deliverable "log_spec"):
       `log_code_spec`   what `decomposed192.log` computes, in ℚ: no panic, termination, no int16 wrap; argument split
                         `X = v·10^e0`, leading digits `M = ⌊10v⌋`, reduced argument, computed quotient `f`, the series
                         `Sj f 16 = Σ_{k≤16} f^(2k+1)/(2k+1)` within `(1−lam)^50`, the tail within `lam·(4(|e0|·ln10+2R)+lnM)`
       `log_spec`        against `Real.log`: `|val x − |ln X|| ≤ 2·tailR F + (16|e0| + 7[M≠10] + 231·S)·10^-57`,
                         `tailR F = F^35/(35(1−F²))`, `F ≤ 1/(2M)`, sign `neg = (X < 1)`
       `log_abs_close`   hence for ALL arguments `|val x − |ln X|| ≤ 2·10^-47 + 7·10^-57·|ln X|`  (since /repo 04f6227 the
                         artanh series runs to the 33rd power; with the former 25th power the bound was 7·10^-37, which
                         violated the tolerance of C18 at bases just below 1.1)
       `log_rel_close`   and `|val x − |ln X||·3·10^34 ≤ |ln X|` whenever `X ≥ 1 + 10^-60` or `X ≤ 1 − 7.5·10^-22`
       `log1p_spec`      the 10-term series of `decomposed192.log1p` (|x| ≤ 10^-9, exponent ≥ −3264): within
                         `10·lam·|x|` of the polynomial, `(10·lam + 10^-90)|x| ≤ 2·10^-56·T` of `T = |ln(1±|x|)|`
  2. ACCURACY (the property):
       `log_accurate`, `log2_accurate`, `log10_accurate` : `X > 1` or `X ≤ 1 − 7.5·10^-22` ⇒ finite result with the sign
                         of the logarithm, `|result − f(X)| ≤ 10^ulpExp|f(X)|`
       `log1p_accurate`  `x > −1`, and (`e ≥ −3264` or `|x| ≥ 10^-9`; in particular every `|x| ≥ 10^-3230`) ⇒ the same
                         for `ln(1+x)`
  3. EXACT RESULTS:
       `log_one`, `log2_one`, `log10_one` : `X = 1` (any member of the cohort) ⇒ `+0`
       `log2_exact`      `X = 2^k`, k ≠ 0 ⇒ exactly `k`;   `log10_exact` : `X = 10^k`, k ≠ 0 ⇒ exactly `k`
       (ln X is never representable for X ≠ 1; no statement is needed for `Log`)
  4. EXCLUDED REGIONS (recorded findings, /verif/known_findings.json; evaluated evidence in
     `D128/Proofs/LogAccEval.lean`, `D128/Proofs/LogAccP1Eval.lean`):
       * `log-just-below-one-cancellation`: `1 − 7.5·10^-22 < X < 1` is excluded from `log*_accurate`.  The claim is FALSE from
         about `1 − X < 4.2·10^-24` on (1.09 units at `1 − X = 4.1889653498e-24`; 3.8·10^4 units at `1 − 8.76e-30`; the result
         is `−(1−X)` exactly once `(1−X)² < 10^-57`).  Between `10^-23` and `7.5·10^-22` no violation was observed (40 random
         arguments per decade, all below 0.8 units) but the proof's error budget `2.5·10^-56` (observed: `10^-57`) does not
         reach it.  The single argument `X = 1 − 10^-34` passes (1/2 unit).
       * `log1p-tiny-argument-exponent-wrap`: `|x| < 10^-9` with decimal exponent below −3264 is excluded from
         `log1p_accurate`; results stay right down to `1e-3640` and are wrong (`+Inf`, 0, garbage) from `1e-3641` on.
     No further region where the claim fails was found (4 400 evaluated arguments incl. all table boundaries
     `M/10`, `(M+1)/10 − ulp`, powers of 2, 5, 10, cohorts, extreme exponents).
-/
import D128.Proofs.LogAccLog1pTop
set_option autoImplicit false
set_option maxRecDepth 4096

namespace Props.C16Log
open Gen
local notation "𝔳[" d "]" => Spec.interp (Gen.Decimal.lo d) (Gen.Decimal.hi d)

/-! ## 1. the working value -/

/-- `decomposed192.log` against the real logarithm (see `LogAcc.log_spec` for the full decomposition) -/
theorem log_spec (a : decomposed192) (ha : a.sig.toNat ≠ 0)
    (he : -16000 ≤ a.exp.toInt ∧ a.exp.toInt ≤ 16000) :
    ∃ (neg : Bool) (x : decomposed192) (t : Int8),
      Gen.decomposed192.log a = .ok (neg, x, t) ∧ (t = 0 ∨ t = 1 ∨ t = -1) ∧
      -5930 ≤ x.exp.toInt ∧ x.exp.toInt ≤ 5500 ∧
      (neg = true → ((D192.val a : ℚ) : ℝ) < 1) ∧ (((D192.val a : ℚ) : ℝ) < 1 → neg = true) ∧
      |((D192.val x : ℚ) : ℝ) - (|Real.log ((D192.val a : ℚ) : ℝ)|)|
        ≤ 2 / 10 ^ 47 + 7 / 10 ^ 57 * |Real.log ((D192.val a : ℚ) : ℝ)| ∧
      |Real.log ((D192.val a : ℚ) : ℝ)| ≤ 10 ^ 5 :=
  LogAcc.log_abs_close a ha he

/-- relative form outside the cancellation region: the working value is within `1/(3·10^34)` of `|ln X|` -/
theorem log_spec_rel (a : decomposed192) (ha : a.sig.toNat ≠ 0)
    (he : -16000 ≤ a.exp.toInt ∧ a.exp.toInt ≤ 16000)
    (hX : 1 + 1 / 10 ^ 60 ≤ ((D192.val a : ℚ) : ℝ) ∨ ((D192.val a : ℚ) : ℝ) ≤ 1 - 75 / 10 ^ 23) :
    ∃ (neg : Bool) (x : decomposed192) (t : Int8),
      Gen.decomposed192.log a = .ok (neg, x, t) ∧ (t = 0 ∨ t = 1 ∨ t = -1) ∧
      -5930 ≤ x.exp.toInt ∧ x.exp.toInt ≤ 5500 ∧ neg = decide (((D192.val a : ℚ) : ℝ) < 1) ∧
      |((D192.val x : ℚ) : ℝ) - (|Real.log ((D192.val a : ℚ) : ℝ)|)| * (30 * 10 ^ 33)
        ≤ |Real.log ((D192.val a : ℚ) : ℝ)| ∧
      1 / 10 ^ 61 ≤ |Real.log ((D192.val a : ℚ) : ℝ)| ∧ |Real.log ((D192.val a : ℚ) : ℝ)| ≤ 10 ^ 5 :=
  LogAcc.log_rel_close a ha he hX

/-- the 10-term series of `Log1p` -/
theorem log1p_spec (d : decomposed192) (neg : Bool) (hd : d.sig.toNat ≠ 0)
    (hx : D192.val d ≤ 1 / 10 ^ 9) (he0 : -3264 ≤ d.exp.toInt) :
    ∃ r t, Gen.decomposed192.log1p d neg = .ok (neg, r, t) ∧ (t = 0 ∨ t = 1 ∨ t = -1) ∧
      r.sig.toNat ≠ 0 ∧
      |((D192.val r : ℚ) : ℝ) - LogAcc.logT neg ((D192.val d : ℚ) : ℝ)|
        ≤ (10 * ((Root.lam : ℚ) : ℝ) + 1 / 10 ^ 90) * ((D192.val d : ℚ) : ℝ) ∧
      (10 * ((Root.lam : ℚ) : ℝ) + 1 / 10 ^ 90) * ((D192.val d : ℚ) : ℝ)
        ≤ 2 / 10 ^ 56 * LogAcc.logT neg ((D192.val d : ℚ) : ℝ) ∧
      d.exp.toInt - 58 ≤ r.exp.toInt ∧ r.exp.toInt ≤ d.exp.toInt + 1 :=
  LogAcc.log1p_real_strong d neg hd hx he0

/-! ## 2. accuracy -/

/-- **`Log`**: for every finite positive `X ≠ 1` outside `(1 − 7.5·10^-22, 1)` the result is finite, has the sign of
`ln X` and is within one unit in the last place of it. -/
theorem log_accurate (g : Globals) (d : Decimal)
    (hg : g.DefaultRoundingMode = 0 ∨ g.DefaultRoundingMode = 1)
    (h1 : Decimal.isSpecial d = false) (h2 : Decimal.IsZero d = false) (h3 : Decimal.Signbit d = false)
    (c : ℕ) (e : ℤ) (hv : 𝔳[d] = .fin false c e)
    (hX : 1 < (c : ℝ) * (10 : ℝ) ^ e ∨ (c : ℝ) * (10 : ℝ) ^ e ≤ 1 - 75 / 10 ^ 23) :
    ∃ r rc re, Gen.Log g d = .ok r ∧
      𝔳[r] = .fin (decide ((c : ℝ) * (10 : ℝ) ^ e < 1)) rc re ∧
      rc ≤ Spec.Cmax ∧ Spec.Emin ≤ re ∧ re ≤ Spec.Emax ∧
      |(rc : ℝ) * (10 : ℝ) ^ re - (|Real.log ((c : ℝ) * (10 : ℝ) ^ e)|)|
        ≤ (10 : ℝ) ^ (EnclPf.ulpExp (|Real.log ((c : ℝ) * (10 : ℝ) ^ e)|)) :=
  LogAcc.log_accurate g d hg h1 h2 h3 c e hv hX

/-- **`Log2`** -/
theorem log2_accurate (g : Globals) (d : Decimal)
    (hg : g.DefaultRoundingMode = 0 ∨ g.DefaultRoundingMode = 1)
    (h1 : Decimal.isSpecial d = false) (h2 : Decimal.IsZero d = false) (h3 : Decimal.Signbit d = false)
    (c : ℕ) (e : ℤ) (hv : 𝔳[d] = .fin false c e)
    (hX : 1 < (c : ℝ) * (10 : ℝ) ^ e ∨ (c : ℝ) * (10 : ℝ) ^ e ≤ 1 - 75 / 10 ^ 23) :
    ∃ r rc re, Gen.Log2 g d = .ok r ∧
      𝔳[r] = .fin (decide ((c : ℝ) * (10 : ℝ) ^ e < 1)) rc re ∧
      rc ≤ Spec.Cmax ∧ Spec.Emin ≤ re ∧ re ≤ Spec.Emax ∧
      |(rc : ℝ) * (10 : ℝ) ^ re - (|Real.logb 2 ((c : ℝ) * (10 : ℝ) ^ e)|)|
        ≤ (10 : ℝ) ^ (EnclPf.ulpExp (|Real.logb 2 ((c : ℝ) * (10 : ℝ) ^ e)|)) :=
  LogAcc.log2_accurate g d hg h1 h2 h3 c e hv hX

/-- **`Log10`** -/
theorem log10_accurate (g : Globals) (d : Decimal)
    (hg : g.DefaultRoundingMode = 0 ∨ g.DefaultRoundingMode = 1)
    (h1 : Decimal.isSpecial d = false) (h2 : Decimal.IsZero d = false) (h3 : Decimal.Signbit d = false)
    (c : ℕ) (e : ℤ) (hv : 𝔳[d] = .fin false c e)
    (hX : 1 < (c : ℝ) * (10 : ℝ) ^ e ∨ (c : ℝ) * (10 : ℝ) ^ e ≤ 1 - 75 / 10 ^ 23) :
    ∃ r rc re, Gen.Log10 g d = .ok r ∧
      𝔳[r] = .fin (decide ((c : ℝ) * (10 : ℝ) ^ e < 1)) rc re ∧
      rc ≤ Spec.Cmax ∧ Spec.Emin ≤ re ∧ re ≤ Spec.Emax ∧
      |(rc : ℝ) * (10 : ℝ) ^ re - (|Real.logb 10 ((c : ℝ) * (10 : ℝ) ^ e)|)|
        ≤ (10 : ℝ) ^ (EnclPf.ulpExp (|Real.logb 10 ((c : ℝ) * (10 : ℝ) ^ e)|)) :=
  LogAcc.log10_accurate g d hg h1 h2 h3 c e hv hX

/-- **`Log1p`**: every finite non-zero `x > −1` (`EnclPf.X n c e = ±c·10^e`) with decimal exponent `e ≥ −3264` or
`|x| ≥ 10^-9`: the result is finite, has the sign of `x` and is within one unit in the last place of `ln(1+x)`. -/
theorem log1p_accurate (g : Globals) (d : Decimal)
    (hg : g.DefaultRoundingMode = 0 ∨ g.DefaultRoundingMode = 1)
    (h1 : Decimal.isSpecial d = false) (h2 : Decimal.IsZero d = false)
    (n : Bool) (c : ℕ) (e : ℤ) (hv : 𝔳[d] = .fin n c e)
    (hdom : n = true → (c : ℝ) * (10 : ℝ) ^ e < 1)
    (hrange : -3264 ≤ e ∨ 1 / 10 ^ 9 ≤ (c : ℝ) * (10 : ℝ) ^ e) :
    ∃ r rc re, Gen.Log1p g d = .ok r ∧ 𝔳[r] = .fin n rc re ∧
      rc ≤ Spec.Cmax ∧ Spec.Emin ≤ re ∧ re ≤ Spec.Emax ∧
      |(rc : ℝ) * (10 : ℝ) ^ re - (|Real.log (1 + EnclPf.X n c e)|)|
        ≤ (10 : ℝ) ^ (EnclPf.ulpExp (|Real.log (1 + EnclPf.X n c e)|)) :=
  LogAcc.log1p_accurate g d hg h1 h2 n c e hv hdom hrange

/-- in particular every `|x| ≥ 10^-3230` is covered (a coefficient has at most 35 digits) -/
theorem log1p_range_of_abs (c : ℕ) (e : ℤ) (hc : c ≤ Spec.Cmax)
    (h : (10 : ℝ) ^ (-3230 : ℤ) ≤ (c : ℝ) * (10 : ℝ) ^ e) : -3264 ≤ e := by
  by_contra hcn
  have he : e ≤ -3265 := by omega
  have h1 : (10 : ℝ) ^ e ≤ (10 : ℝ) ^ (-3265 : ℤ) := zpow_le_zpow_right₀ (by norm_num) he
  have h2 : (c : ℝ) < 10 ^ 35 := by
    have : c < 10 ^ 35 := lt_of_le_of_lt hc (by unfold Spec.Cmax; norm_num)
    exact_mod_cast this
  have hp : (0 : ℝ) < (10 : ℝ) ^ (-3265 : ℤ) := zpow_pos (by norm_num) _
  have h3 : (c : ℝ) * (10 : ℝ) ^ e ≤ (c : ℝ) * (10 : ℝ) ^ (-3265 : ℤ) :=
    mul_le_mul_of_nonneg_left h1 (Nat.cast_nonneg _)
  have h4 : (c : ℝ) * (10 : ℝ) ^ (-3265 : ℤ) < 10 ^ 35 * (10 : ℝ) ^ (-3265 : ℤ) :=
    mul_lt_mul_of_pos_right h2 hp
  have h5 : (10 : ℝ) ^ 35 * (10 : ℝ) ^ (-3265 : ℤ) = (10 : ℝ) ^ (-3230 : ℤ) := by
    rw [← zpow_natCast, ← zpow_add₀ (by norm_num)]; norm_num
  rw [h5] at h4
  exact absurd (lt_of_le_of_lt (le_trans h h3) h4) (lt_irrefl _)

/-! ## 3. exact results -/

theorem log_one (g : Globals) (d : Decimal)
    (hg : g.DefaultRoundingMode = 0 ∨ g.DefaultRoundingMode = 1)
    (h1 : Decimal.isSpecial d = false) (h2 : Decimal.IsZero d = false) (h3 : Decimal.Signbit d = false)
    (c : ℕ) (e : ℤ) (hv : 𝔳[d] = .fin false c e) (hX : (c : ℝ) * (10 : ℝ) ^ e = 1) :
    ∃ r re, Gen.Log g d = .ok r ∧ 𝔳[r] = .fin false 0 re :=
  LogAcc.log_one g d hg h1 h2 h3 c e hv hX

theorem log2_one (g : Globals) (d : Decimal)
    (hg : g.DefaultRoundingMode = 0 ∨ g.DefaultRoundingMode = 1)
    (h1 : Decimal.isSpecial d = false) (h2 : Decimal.IsZero d = false) (h3 : Decimal.Signbit d = false)
    (c : ℕ) (e : ℤ) (hv : 𝔳[d] = .fin false c e) (hX : (c : ℝ) * (10 : ℝ) ^ e = 1) :
    ∃ r re, Gen.Log2 g d = .ok r ∧ 𝔳[r] = .fin false 0 re :=
  LogAcc.log2_one g d hg h1 h2 h3 c e hv hX

theorem log10_one (g : Globals) (d : Decimal)
    (hg : g.DefaultRoundingMode = 0 ∨ g.DefaultRoundingMode = 1)
    (h1 : Decimal.isSpecial d = false) (h2 : Decimal.IsZero d = false) (h3 : Decimal.Signbit d = false)
    (c : ℕ) (e : ℤ) (hv : 𝔳[d] = .fin false c e) (hX : (c : ℝ) * (10 : ℝ) ^ e = 1) :
    ∃ r re, Gen.Log10 g d = .ok r ∧ 𝔳[r] = .fin false 0 re :=
  LogAcc.log10_one g d hg h1 h2 h3 c e hv hX

/-- **`Log2(2^k) = k`**: sign bit `k < 0`, magnitude exactly `|k|` -/
theorem log2_exact (g : Globals) (d : Decimal)
    (hg : g.DefaultRoundingMode = 0 ∨ g.DefaultRoundingMode = 1)
    (h1 : Decimal.isSpecial d = false) (h2 : Decimal.IsZero d = false) (h3 : Decimal.Signbit d = false)
    (c : ℕ) (e : ℤ) (hv : 𝔳[d] = .fin false c e) (k : ℤ) (hk0 : k ≠ 0)
    (hX : (c : ℝ) * (10 : ℝ) ^ e = (2 : ℝ) ^ k) :
    ∃ r rc re, Gen.Log2 g d = .ok r ∧ 𝔳[r] = .fin (decide (k < 0)) rc re ∧
      (rc : ℝ) * (10 : ℝ) ^ re = ((k.natAbs : ℕ) : ℝ) :=
  LogAcc.log2_exact g d hg h1 h2 h3 c e hv k hk0 hX

/-- **`Log10(10^k) = k`** -/
theorem log10_exact (g : Globals) (d : Decimal)
    (hg : g.DefaultRoundingMode = 0 ∨ g.DefaultRoundingMode = 1)
    (h1 : Decimal.isSpecial d = false) (h2 : Decimal.IsZero d = false) (h3 : Decimal.Signbit d = false)
    (c : ℕ) (e : ℤ) (hv : 𝔳[d] = .fin false c e) (k : ℤ) (hk0 : k ≠ 0)
    (hX : (c : ℝ) * (10 : ℝ) ^ e = (10 : ℝ) ^ k) :
    ∃ r rc re, Gen.Log10 g d = .ok r ∧ 𝔳[r] = .fin (decide (k < 0)) rc re ∧
      (rc : ℝ) * (10 : ℝ) ^ re = ((k.natAbs : ℕ) : ℝ) :=
  LogAcc.log10_exact g d hg h1 h2 h3 c e hv k hk0 hX

/-! ## examples: the hypotheses are satisfiable -/

theorem interp_of (lo hi : UInt64) (c : ℕ) (e : ℤ) (n : Bool) (hs : Decimal.isSpecial ⟨lo, hi⟩ = false)
    (hd : Decimal.decompose ⟨lo, hi⟩ = (⟨UInt64.ofNat c, 0⟩, Int16.ofInt (e + 6176)))
    (hn : Decimal.Signbit ⟨lo, hi⟩ = n) (hc : c < 2 ^ 64) (he : -6176 ≤ e ∧ e ≤ 6111) :
    𝔳[(⟨lo, hi⟩ : Decimal)] = .fin n c e := by
  rw [Enc.interp_decompose _ hs, hd, hn]
  have h1 : (⟨UInt64.ofNat c, 0⟩ : U128).toNat = c := by
    simp [U128.toNat, UInt64.toNat_ofNat']; omega
  have h2 : (Int16.ofInt (e + 6176)).toInt = e + 6176 := by
    rw [Int16.toInt_ofInt]
    have : (Int16.size : Int) = 65536 := rfl
    apply Int.bmod_eq_of_le <;> omega
  show Spec.Val.fin n (⟨UInt64.ofNat c, 0⟩ : U128).toNat ((Int16.ofInt (e + 6176)).toInt - 6176) = _
  rw [h1, h2, show e + 6176 - 6176 = e by ring]

/-- `Log(2)` -/
example (g : Globals) (hg : g.DefaultRoundingMode = 0) :=
  log_accurate g ⟨2, 3476778912330022912⟩ (Or.inl hg) (by decide) (by decide) (by decide) 2 0
    (interp_of 2 3476778912330022912 2 0 false (by decide) (by decide) (by decide) (by norm_num) (by norm_num))
    (Or.inl (by norm_num))

/-- `Log2(8) = 3` -/
example (g : Globals) (hg : g.DefaultRoundingMode = 0) :=
  log2_exact g ⟨8, 3476778912330022912⟩ (Or.inl hg) (by decide) (by decide) (by decide) 8 0
    (interp_of 8 3476778912330022912 8 0 false (by decide) (by decide) (by decide) (by norm_num) (by norm_num))
    3 (by norm_num) (by norm_num)

/-- `Log10(1e-7) = -7` -/
example (g : Globals) (hg : g.DefaultRoundingMode = 0) :=
  log10_exact g ⟨1, 3472838262656073728⟩ (Or.inl hg) (by decide) (by decide) (by decide) 1 (-7)
    (interp_of 1 3472838262656073728 1 (-7) false (by decide) (by decide) (by decide) (by norm_num) (by norm_num))
    (-7) (by norm_num) (by norm_num)

/-- `Log(1) = 0` for the cohort member `10·10^-1` -/
example (g : Globals) (hg : g.DefaultRoundingMode = 0) :=
  log_one g ⟨10, 3476215962376601600⟩ (Or.inl hg) (by decide) (by decide) (by decide) 10 (-1)
    (interp_of 10 3476215962376601600 10 (-1) false (by decide) (by decide) (by decide) (by norm_num) (by norm_num))
    (by norm_num)

/-- `Log1p(-0.5)` -/
example (g : Globals) (hg : g.DefaultRoundingMode = 0) :=
  log1p_accurate g ⟨5, 12699587999231377408⟩ (Or.inl hg) (by decide) (by decide) true 5 (-1)
    (interp_of 5 12699587999231377408 5 (-1) true (by decide) (by decide) (by decide) (by norm_num) (by norm_num))
    (fun _ => by norm_num) (Or.inl (by norm_num))

end Props.C16Log
