/-
  Property C16 (and the enclosure oracle shared with C17/C18): soundness of the rational enclosures of
  `exp`/`log` (D128/Spec/Enclosure.lean) and of the verdicts of the elementary-function oracle
  (D128/Spec/Elem.lean) against Mathlib's `Real.exp`, `Real.log`.

  What is proved here is about the *oracle* (the specification side), not about the Go code: a verdict
  "this output is more than one ulp from the true value" computed by `Spec.judgeElem` is a theorem about the
  real number `f(x)`, for every finite operand, and likewise an `.ok` verdict bounds the error.
  Statements only; the proofs assemble the lemmas of `D128/Proofs/Enclosure*.lean`.

  notation   `x ∈ᵢ a`  real x in the rational interval a          (`EnclPf.Mem`)
             `T ∈ₛ s`  T = z·10^s.k for some z ∈ᵢ s.m             (`EnclPf.SciMem`)
             `X n c e` the real value (−1)^n·c·10^e of a finite operand / result
             `realFn f` the real function denoted by `f : Spec.Fn`
             `eT t`    `max (spacingExpS t.m.lo t.k) (spacingExpS t.m.hi t.k)`: exponent of the unit of the verdict,
                       the format's spacing at the upper end of the enclosure `t` (≥ the spacing at every point of it)

  1. rounding and interval arithmetic
       `rdDown_le_rdUp`      rdDown q ≤ q ≤ rdUp q, both within |q|·10^-79                       (all q)
       `interval_ops`        x ∈ᵢ a, y ∈ᵢ b ⇒ x+y, x−y, x·y, −x in `a.add b`, `a.sub b`, `a.mul b`, `a.neg`
       `interval_inv`        0 < a.lo, x ∈ᵢ a ⇒ 1/x ∈ᵢ a.invPos
  2. constants
       `ln2_encl`, `ln10_encl`, `atanh_encl`  Real.log 2 ∈ᵢ ln2, Real.log 10 ∈ᵢ ln10, artanh(1/n) ∈ᵢ atanhInv n N
  3. exponential
       `expTiny_encl`        |x| ≤ 41/2 ⇒ Real.exp x ∈ᵢ expTiny x
       `expSmall_encl`       |x| ≤ 20992 ⇒ Real.exp x ∈ᵢ expSmall x
       `expI_encl`           y ∈ᵢ a, width a ≤ 20000, |a.lo|,|a.hi| ≤ 10^60 ⇒ Real.exp y ∈ₛ expI a
       `exp_encl`            |x| ≤ 10^60 ⇒ Real.exp x ∈ₛ Encl.exp x
       `expm1_encl`          |x| ≤ 10^60 ⇒ Real.exp x − 1 ∈ᵢ Encl.expm1 x
  4. certified logarithm
       `log_encl`            0 < q, Encl.log q k = some l, |l.lo|,|l.hi| ≤ 10^60 ⇒ Real.log (q·10^k) ∈ᵢ l
  5. the true value used by the oracle
       `trueValue_encl`      trueValue f n c e = some (tn, t) ⇒ ∃ T > 0, T ∈ₛ t ∧ realFn f X = (−1)^tn·T
  6. verdicts of `judgeElem` on the general path (no special operand, no exact case, no huge argument)
       `bad_finite_sound`    `.bad` on a finite non-zero result ⇒ wrong sign ∨ |r − f(x)| > 10^eT ∨ …
       `bad_zero_sound`      `.bad` on a zero result ⇒ |f(x)| > 10^Emin
       `bad_inf_sound`       `.bad` on ±Inf ⇒ wrong sign ∨ lo·10^k < 10^(Emax+31) ∨ |f(x)| + 10^eT < Cmax·10^Emax
       `ulp_le_unit`         spacingExpS q k ≤ eT t for every rational 0 < q ≤ t.m.hi
       `ok_finite_sound`     `.ok` on a finite non-zero result ⇒ right sign ∧ |r − f(x)| ≤ 10^eT + width
-/
import D128.Proofs.EnclosureJudge
set_option autoImplicit false

namespace Props.C16
open Spec Spec.Encl EnclPf

/-! ## 1. rounding and interval arithmetic -/

theorem rdDown_le_rdUp (q : ℚ) :
    q - |q| * (1 / 10 ^ 79) ≤ rdDown q ∧ rdDown q ≤ q ∧ q ≤ rdUp q ∧ rdUp q ≤ q + |q| * (1 / 10 ^ 79) :=
  ⟨rdDown_ge q, rdDown_le q, le_rdUp q, rdUp_le q⟩

theorem interval_ops {a b : I} {x y : ℝ} (hx : x ∈ᵢ a) (hy : y ∈ᵢ b) :
    (x + y) ∈ᵢ a.add b ∧ (x - y) ∈ᵢ a.sub b ∧ (x * y) ∈ᵢ a.mul b ∧ (-x) ∈ᵢ a.neg ∧
      ∀ q : ℚ, (x * (q : ℝ)) ∈ᵢ a.scale q :=
  ⟨mem_add hx hy, mem_sub hx hy, mem_mul hx hy, mem_neg hx, mem_scale hx⟩

theorem interval_inv {a : I} {x : ℝ} (ha : 0 < a.lo) (hx : x ∈ᵢ a) : (1 / x) ∈ᵢ a.invPos :=
  mem_invPos ha hx

example : ((1 / 3 : ℚ) : ℝ) + ((2 / 7 : ℚ) : ℝ) ∈ᵢ (I.pt (1 / 3)).add (I.pt (2 / 7)) :=
  (interval_ops (mem_pt _) (mem_pt _)).1

/-! ## 2. constants -/

theorem ln2_encl : Real.log 2 ∈ᵢ ln2 := ln2_sound
theorem ln10_encl : Real.log 10 ∈ᵢ ln10 := ln10_sound
theorem atanh_encl (n N : ℕ) (hn : 2 ≤ n) : Real.artanh (1 / (n : ℝ)) ∈ᵢ atanhInv n N := atanhInv_sound n N hn

/-! ## 3. exponential -/

theorem expTiny_encl (x : ℚ) (hx : |x| ≤ 41 / 2) : Real.exp (x : ℝ) ∈ᵢ expTiny x := expTiny_sound x hx

theorem expSmall_encl (x : ℚ) (hx : |x| ≤ 20992) : Real.exp (x : ℝ) ∈ᵢ expSmall x := expSmall_sound x hx

theorem expI_encl (a : I) (y : ℝ) (hy : y ∈ᵢ a) (hw : a.hi - a.lo ≤ 20000)
    (hlo : |a.lo| ≤ 10 ^ 60) (hhi : |a.hi| ≤ 10 ^ 60) : Real.exp y ∈ₛ expI a :=
  expI_sound' a y hy hw hlo hhi

theorem exp_encl (x : ℚ) (hx : |x| ≤ 10 ^ 60) : Real.exp (x : ℝ) ∈ₛ Encl.exp x := exp_sound' x hx

theorem expm1_encl (x : ℚ) (hx : |x| ≤ 10 ^ 60) : (Real.exp (x : ℝ) - 1) ∈ᵢ Encl.expm1 x := expm1_sound' x hx

example : Real.exp ((14000 : ℚ) : ℝ) ∈ₛ Encl.exp 14000 :=
  exp_encl _ (by rw [abs_le]; constructor <;> norm_num)

/-! ## 4. certified logarithm -/

theorem log_encl {q : ℚ} {k : Int} {l : I} (hq : 0 < q) (h : Encl.log q k = some l)
    (hlo : |l.lo| ≤ 10 ^ 60) (hhi : |l.hi| ≤ 10 ^ 60) : Real.log ((q : ℝ) * (10 : ℝ) ^ k) ∈ᵢ l :=
  log_sound' hq h hlo hhi

/-- the certificate alone: whatever the `Float`-seeded search proposes, a bracket `[a, b]` accepted by the
    two one-sided exp tests contains the logarithm -/
theorem log_certificate {a b q : ℚ} {k : Int} (hq : 0 < q) (ha : |a| ≤ 10 ^ 60) (hb : |b| ≤ 10 ^ 60)
    (h1 : expLe a q k = true) (h2 : expGe b q k = true) :
    (a : ℝ) ≤ Real.log ((q : ℝ) * (10 : ℝ) ^ k) ∧ Real.log ((q : ℝ) * (10 : ℝ) ^ k) ≤ (b : ℝ) := by
  have hpos : (0 : ℝ) < (q : ℝ) * (10 : ℝ) ^ k :=
    mul_pos (by exact_mod_cast hq) (zpow_pos (by norm_num) k)
  exact ⟨(Real.le_log_iff_exp_le hpos).2 (expLe_sound h1 (inRange_pt a ha)),
         (Real.log_le_iff_le_exp hpos).2 (expGe_sound h2 (inRange_pt b hb))⟩

/-- a concrete certificate (kernel-evaluated): 0.69 ≤ ln 2 ≤ 0.7 -/
example : ((69 / 100 : ℚ) : ℝ) ≤ Real.log (((2 : ℚ) : ℝ) * (10 : ℝ) ^ (0 : Int)) ∧
    Real.log (((2 : ℚ) : ℝ) * (10 : ℝ) ^ (0 : Int)) ≤ ((7 / 10 : ℚ) : ℝ) :=
  log_certificate (by norm_num) (by rw [abs_le]; constructor <;> norm_num)
    (by rw [abs_le]; constructor <;> norm_num)
    (by decide +kernel : expLe (69 / 100) 2 0 = true) (by decide +kernel : expGe (7 / 10) 2 0 = true)

/-! ## 5. the true value used by the oracle -/

theorem trueValue_encl (f : Fn) (n : Bool) (c : Nat) (e : Int) (tn : Bool) (t : Sci)
    (hc0 : c ≠ 0) (hc : c < 10 ^ 35) (hcert : CertOk f n c e)
    (h : trueValue f n c e = some (tn, t)) :
    ∃ T : ℝ, 0 < T ∧ T ∈ₛ t ∧ realFn f (X n c e) = if tn then -T else T :=
  trueValue_sound f n c e tn t hc0 hc hcert h

/-- the hypotheses are satisfiable: Exp(−123.45) -/
example : ∃ T : ℝ, 0 < T ∧ T ∈ₛ Encl.exp (-(12345 / 100)) ∧ Real.exp (X true 12345 (-2)) = T := by
  have h : trueValue .exp true 12345 (-2) = some (false, Encl.exp (-(12345 / 100))) := by
    rw [trueValue_exp_eq]
    have : ndigits 12345 = 5 := SpecRound.ndigits_eq_of (by norm_num) (by norm_num) (by norm_num)
    rw [this]
    norm_num [mag, SpecRound.pow10_eq_zpow]
  obtain ⟨T, h1, h2, h3⟩ := trueValue_encl .exp true 12345 (-2) false _ (by norm_num) (by norm_num) trivial h
  exact ⟨T, h1, h2, by simpa [realFn] using h3⟩

/-! ## 6. verdicts of `judgeElem` on the general path -/

section
variable (f : Fn) (n : Bool) (c : Nat) (e : Int) (ne : Bool) (tn : Bool) (t : Sci)

/-- **A reported violation is a true violation.**  If the oracle judges a finite non-zero result
    `(−1)^rn·rc·10^re` of `f` at the finite operand `(−1)^n·c·10^e` as `.bad` on the general path, then, over
    the reals: the result has the sign opposite to `f(x)`, or it is more than `10^eT` (one unit in the last
    place of the format at the upper end of the certified enclosure of `|f(x)|`, hence at least the unit at
    `|f(x)|` itself: `ulp_le_unit`) away from `f(x)`, or
    `|f(x)| ≥ 10^(Emax+41)` (a finite result is impossible), or the enclosure's lower end is below
    `10^(Emin−40)`, or the decimal exponent of the result is more than 120 away from the enclosure's scale. -/
theorem bad_finite_sound (rn : Bool) (rc : Nat) (re : Int) (msg : String)
    (hspec : specialCase f (.fin n c e) = none)
    (hexact : (if ne then exactCase f n c e else none) = none)
    (hhuge : hugeArg f c e = false)
    (htv : trueValue f n c e = some (tn, t))
    (hc0 : c ≠ 0) (hc : c < 10 ^ 35) (hcert : CertOk f n c e) (hrc : rc ≠ 0)
    (h : judgeElem f (.fin n c e) (.fin rn rc re) ne = .bad msg) :
    X rn rc re * realFn f (X n c e) < 0 ∨
    (10 : ℝ) ^ (eT t) < |X rn rc re - realFn f (X n c e)| ∨
    (10 : ℝ) ^ (Emax + 41) ≤ |realFn f (X n c e)| ∨
    (t.m.lo : ℝ) * (10 : ℝ) ^ t.k < (10 : ℝ) ^ (Emin - 40) ∨ (re - t.k > 120 ∨ re - t.k < -120) :=
  judge_bad_finite f n c e ne tn t rn rc re msg hspec hexact hhuge htv hc0 hc hcert hrc h

/-- the unit `10^eT` of the verdicts is at least the unit in the last place of the format at every rational
    point `q·10^k` of the enclosure (and equal to it at the upper end) -/
theorem ulp_le_unit {t : Sci} {q : ℚ} (hq : 0 < q) (h2 : q ≤ t.m.hi) : spacingExpS q t.k ≤ eT t :=
  spacing_le_eT hq h2

/-- an infinite result judged `.bad`: wrong sign, or the enclosure's lower end is below `10^(Emax+31)`, or
    `|f(x)|` plus one ulp is still below the largest finite Decimal `Cmax·10^Emax` -/
theorem bad_inf_sound (rn : Bool) (msg : String)
    (hspec : specialCase f (.fin n c e) = none)
    (hexact : (if ne then exactCase f n c e else none) = none)
    (hhuge : hugeArg f c e = false)
    (htv : trueValue f n c e = some (tn, t))
    (hc0 : c ≠ 0) (hc : c < 10 ^ 35) (hcert : CertOk f n c e)
    (h : judgeElem f (.fin n c e) (.inf rn) ne = .bad msg) :
    rn ≠ tn ∨
    (t.m.lo : ℝ) * (10 : ℝ) ^ t.k < (10 : ℝ) ^ (Emax + 31) ∨
    |realFn f (X n c e)| + (10 : ℝ) ^ (eT t) < (Cmax : ℝ) * (10 : ℝ) ^ Emax :=
  judge_bad_inf f n c e ne tn t rn msg hspec hexact hhuge htv hc0 hc hcert h

/-- a zero result judged `.bad`: `|f(x)|` exceeds the smallest positive Decimal `10^Emin` -/
theorem bad_zero_sound (rn : Bool) (re : Int) (msg : String)
    (hspec : specialCase f (.fin n c e) = none)
    (hexact : (if ne then exactCase f n c e else none) = none)
    (hhuge : hugeArg f c e = false)
    (htv : trueValue f n c e = some (tn, t))
    (hc0 : c ≠ 0) (hc : c < 10 ^ 35) (hcert : CertOk f n c e)
    (h : judgeElem f (.fin n c e) (.fin rn 0 re) ne = .bad msg) :
    (10 : ℝ) ^ Emin < |realFn f (X n c e)| :=
  judge_bad_zero f n c e ne tn t rn re msg hspec hexact hhuge htv hc0 hc hcert h

/-- an accepted finite non-zero result has the right sign and is within one ulp (at the upper end of the
    enclosure) plus the width of the enclosure of `f(x)` -/
theorem ok_finite_sound (rn : Bool) (rc : Nat) (re : Int)
    (hspec : specialCase f (.fin n c e) = none)
    (hexact : (if ne then exactCase f n c e else none) = none)
    (hhuge : hugeArg f c e = false)
    (htv : trueValue f n c e = some (tn, t))
    (hc0 : c ≠ 0) (hc : c < 10 ^ 35) (hcert : CertOk f n c e) (hrc : rc ≠ 0)
    (h : judgeElem f (.fin n c e) (.fin rn rc re) ne = .ok) :
    rn = tn ∧
    |X rn rc re - realFn f (X n c e)| ≤
      (10 : ℝ) ^ (eT t) + ((t.m.hi : ℝ) - (t.m.lo : ℝ)) * (10 : ℝ) ^ t.k :=
  judge_ok_finite f n c e ne tn t rn rc re hspec hexact hhuge htv hc0 hc hcert hrc h

end

/-- the side hypotheses of section 6 are satisfiable: Exp(−123.45), any rounding-mode flag -/
example (ne : Bool) :
    specialCase .exp (.fin true 12345 (-2)) = none ∧
    (if ne then exactCase .exp true 12345 (-2) else none) = none ∧
    hugeArg .exp 12345 (-2) = false ∧
    trueValue .exp true 12345 (-2) = some (false, Encl.exp (-(12345 / 100))) ∧ CertOk .exp true 12345 (-2) := by
  have hnd : ndigits 12345 = 5 := SpecRound.ndigits_eq_of (by norm_num) (by norm_num) (by norm_num)
  refine ⟨rfl, ?_, ?_, ?_, trivial⟩
  · cases ne <;> simp [exactCase]
  · simp [hugeArg, hnd]
  · rw [trueValue_exp_eq, hnd]
    norm_num [mag, SpecRound.pow10_eq_zpow]

end Props.C16
