/-
  Property C16 (and the enclosure oracle shared with C17/C18): soundness of the rational enclosures of
  `exp`/`log` (D128/Spec/Enclosure.lean) and of the verdicts of the elementary-function oracle
  (D128/Spec/Elem.lean) against Mathlib's `Real.exp`, `Real.log`.

  What is proved here is about the *oracle* (the specification side), not about the Go code: a verdict
  "this output violates C16" computed by `Spec.judgeElem` is a theorem about the real number `f(x)`, for every
  operand, result and mode flag — with NO side hypotheses about the enclosures: `Encl.expI` refuses (`none`)
  arguments whose reduction leaves the range on which the series/squaring kernel is proved, the certified
  logarithm returns a bracket only if both ends pass the (sound) one-sided exp tests, and `withinUlps` uses the
  end of the enclosure that makes each range test certain.
  Statements only; the proofs assemble the lemmas of `D128/Proofs/Enclosure*.lean`.

  notation   `x ∈ᵢ a`  real x in the rational interval a          (`EnclPf.Mem`)
             `T ∈ₛ s`  T = z·10^s.k for some z ∈ᵢ s.m             (`EnclPf.SciMem`)
             `X n c e` the real value (−1)^n·c·10^e of a finite operand / result
             `realFn f` the real function denoted by `f : Spec.Fn`
             `ulpExp T` exponent of the unit in the last place of the format at the positive REAL `T`
                        (`= Spec.spacingExp` on rationals: `ulp_is_spacing`)

  1. rounding and interval arithmetic
       `rdDown_le_rdUp`      rdDown q ≤ q ≤ rdUp q, both within |q|·10^-79                       (all q)
       `interval_ops`        x ∈ᵢ a, y ∈ᵢ b ⇒ x+y, x−y, x·y, −x in `a.add b`, `a.sub b`, `a.mul b`, `a.neg`
       `interval_inv`        0 < a.lo, x ∈ᵢ a ⇒ 1/x ∈ᵢ a.invPos
  2. constants
       `ln2_encl`, `ln10_encl`, `atanh_encl`  Real.log 2 ∈ᵢ ln2, Real.log 10 ∈ᵢ ln10, artanh(1/n) ∈ᵢ atanhInv n N
  3. exponential (every answer is an enclosure; and the oracle does answer on sane arguments)
       `expTiny_encl`        |x| ≤ 41/2 ⇒ Real.exp x ∈ᵢ expTiny x
       `expSmall_encl`       |x| ≤ 20992 ⇒ Real.exp x ∈ᵢ expSmall x
       `expI_encl`           expI a = some s → y ∈ᵢ a → Real.exp y ∈ₛ s
       `exp_encl`            Encl.exp x = some s → Real.exp x ∈ₛ s
       `expm1_encl`          Encl.expm1 x = some v → Real.exp x − 1 ∈ᵢ v
       `exp_answers`         |x| ≤ 10^60 → ∃ s, Encl.exp x = some s;  `expI_answers` (width ≤ 4, |a| ≤ 10^60)
  4. certified logarithm
       `log_encl`            0 < q → Encl.log q k = some l → Real.log (q·10^k) ∈ᵢ l
       `log_certificate`     expLe a q k = true → expGe b q k = true → a ≤ Real.log (q·10^k) ≤ b
  5. the true value used by the oracle
       `trueValue_encl`      trueValue f n c e = some (tn, t) ⇒ ∃ T > 0, T ∈ₛ t ∧ realFn f X = (−1)^tn·T
       `trueValue_answers`   for Exp, Exp2, Exp10 the oracle answers whenever the argument is not huge
  6. **verdicts of `judgeElem`**
       `bad_sound`           judgeElem f x r ne = .bad msg → Violation f x r ne         (every x, r, ne)
       `ok_sound`            `.ok` on the enclosure path ⇒ right sign ∧ |r − f(x)| ≤ 10^eT + enclosure width
       `ulp_le_unit`         the unit `10^eT` of the `.ok` bound is the spacing at the upper end of the enclosure
       `exp_width`, `log_bracket_width`, `trueValue_width`   proved widths of the enclosures
       `exp_ok_close`, `log_ok_close`, `log1p_ok_close`      `.ok` ⇒ |r − f(x)| ≤ (1+δ)·10^eT, δ = 4·10^-5, 2·10^-2, 10^-3
  7. what the oracle cannot decide
       `undecided_cases`, `exp_always_decided`, `log_undecided_iff`
-/
import D128.Proofs.EnclosureExact
import D128.Proofs.EnclosureUndecided
set_option autoImplicit false

namespace Props.C16
open Spec Spec.Encl EnclPf

/-! ## 1. rounding and interval arithmetic -/

theorem rdDown_le_rdUp (q : ℚ) :
    q - |q| * (1 / 10 ^ 79) ≤ rdDown q ∧ rdDown q ≤ q ∧ q ≤ rdUp q ∧ rdUp q ≤ q + |q| * (1 / 10 ^ 79) :=
  ⟨rdDown_ge q, rdDown_le q, le_rdUp q, rdUp_le q⟩

theorem interval_ops {a b : I} {x y : ℝ} (hx : x ∈ᵢ a) (hy : y ∈ᵢ b) :
    (x + y) ∈ᵢ a.add b ∧ (x - y) ∈ᵢ a.sub b ∧ (x * y) ∈ᵢ a.mul b ∧ (-x) ∈ᵢ a.neg ∧
      ∀ q : ℚ, (x * (q : ℝ)) ∈ᵢ a.scale q :=
  ⟨mem_add hx hy, mem_sub hx hy, mem_mul hx hy, mem_neg hx, mem_scale hx⟩

theorem interval_inv {a : I} {x : ℝ} (ha : 0 < a.lo) (hx : x ∈ᵢ a) : (1 / x) ∈ᵢ a.invPos :=
  mem_invPos ha hx

example : ((1 / 3 : ℚ) : ℝ) + ((2 / 7 : ℚ) : ℝ) ∈ᵢ (I.pt (1 / 3)).add (I.pt (2 / 7)) :=
  (interval_ops (mem_pt _) (mem_pt _)).1

/-! ## 2. constants -/

theorem ln2_encl : Real.log 2 ∈ᵢ ln2 := ln2_sound
theorem ln10_encl : Real.log 10 ∈ᵢ ln10 := ln10_sound
theorem atanh_encl (n N : ℕ) (hn : 2 ≤ n) : Real.artanh (1 / (n : ℝ)) ∈ᵢ atanhInv n N := atanhInv_sound n N hn

/-! ## 3. exponential -/

theorem expTiny_encl (x : ℚ) (hx : |x| ≤ 41 / 2) : Real.exp (x : ℝ) ∈ᵢ expTiny x := expTiny_sound x hx

theorem expSmall_encl (x : ℚ) (hx : |x| ≤ 20992) : Real.exp (x : ℝ) ∈ᵢ expSmall x := expSmall_sound x hx

theorem expI_encl {a : I} {s : Sci} {y : ℝ} (h : expI a = some s) (hy : y ∈ᵢ a) : Real.exp y ∈ₛ s :=
  expI_sound h hy

theorem exp_encl {x : ℚ} {s : Sci} (h : Encl.exp x = some s) : Real.exp (x : ℝ) ∈ₛ s := exp_sound h

theorem expm1_encl {x : ℚ} {v : I} (h : Encl.expm1 x = some v) : (Real.exp (x : ℝ) - 1) ∈ᵢ v := expm1_sound h

theorem exp_answers (x : ℚ) (hx : |x| ≤ 10 ^ 60) : ∃ s, Encl.exp x = some s := exp_isSome x hx

theorem expI_answers (a : I) (hle : a.lo ≤ a.hi) (hw : a.hi - a.lo ≤ 4)
    (hlo : |a.lo| ≤ 10 ^ 60) (hhi : |a.hi| ≤ 10 ^ 60) : ∃ s, expI a = some s :=
  expI_isSome a hle hw hlo hhi

example : ∃ s, Encl.exp 14000 = some s ∧ Real.exp ((14000 : ℚ) : ℝ) ∈ₛ s := by
  obtain ⟨s, hs⟩ := exp_answers 14000 (by rw [abs_le]; constructor <;> norm_num)
  exact ⟨s, hs, exp_encl hs⟩

/-! ## 4. certified logarithm -/

theorem log_encl {q : ℚ} {k : Int} {l : I} (hq : 0 < q) (h : Encl.log q k = some l) :
    Real.log ((q : ℝ) * (10 : ℝ) ^ k) ∈ᵢ l :=
  log_sound hq h

/-- the certificate alone: whatever the `Float`-seeded search proposes, a bracket `[a, b]` accepted by the
    two one-sided exp tests contains the logarithm -/
theorem log_certificate {a b q : ℚ} {k : Int} (hq : 0 < q)
    (h1 : expLe a q k = true) (h2 : expGe b q k = true) :
    (a : ℝ) ≤ Real.log ((q : ℝ) * (10 : ℝ) ^ k) ∧ Real.log ((q : ℝ) * (10 : ℝ) ^ k) ≤ (b : ℝ) := by
  have hpos : (0 : ℝ) < (q : ℝ) * (10 : ℝ) ^ k :=
    mul_pos (by exact_mod_cast hq) (zpow_pos (by norm_num) k)
  exact ⟨(Real.le_log_iff_exp_le hpos).2 (expLe_sound h1), (Real.log_le_iff_le_exp hpos).2 (expGe_sound h2)⟩

/-- a concrete certificate (kernel-evaluated): 0.69 ≤ ln 2 ≤ 0.7 -/
example : ((69 / 100 : ℚ) : ℝ) ≤ Real.log (((2 : ℚ) : ℝ) * (10 : ℝ) ^ (0 : Int)) ∧
    Real.log (((2 : ℚ) : ℝ) * (10 : ℝ) ^ (0 : Int)) ≤ ((7 / 10 : ℚ) : ℝ) :=
  log_certificate (by norm_num)
    (by decide +kernel : expLe (69 / 100) 2 0 = true) (by decide +kernel : expGe (7 / 10) 2 0 = true)

/-! ## 5. the true value used by the oracle -/

theorem trueValue_encl (f : Fn) (n : Bool) (c : Nat) (e : Int) (tn : Bool) (t : Sci)
    (hspec : specialCase f (.fin n c e) = none) (hc : c < 10 ^ 35)
    (h : trueValue f n c e = some (tn, t)) :
    ∃ T : ℝ, 0 < T ∧ T ∈ₛ t ∧ realFn f (X n c e) = if tn then -T else T :=
  trueValue_sound f n c e tn t hspec hc h

theorem trueValue_answers (n : Bool) (c : Nat) (e : Int) (hc0 : c ≠ 0) (hc : c < 10 ^ 35)
    (h7 : e + (ndigits c : Int) ≤ 7) :
    (∃ t, trueValue .exp n c e = some (false, t)) ∧ (∃ t, trueValue .exp2 n c e = some (false, t)) ∧
      (∃ t, trueValue .exp10 n c e = some (false, t)) :=
  ⟨trueValue_exp_isSome n c e hc0 hc h7, trueValue_exp2_isSome n c e hc0 hc h7,
   trueValue_exp10_isSome n c e hc0 hc h7⟩

/-- the hypotheses are satisfiable: Exp(−123.45) -/
example : ∃ t T : _, trueValue .exp true 12345 (-2) = some (false, t) ∧ 0 < T ∧ T ∈ₛ t ∧
    Real.exp (X true 12345 (-2)) = T := by
  have hnd : ndigits 12345 = 5 := SpecRound.ndigits_eq_of (by norm_num) (by norm_num) (by norm_num)
  obtain ⟨t, ht⟩ := (trueValue_answers true 12345 (-2) (by norm_num) (by norm_num) (by rw [hnd]; norm_num)).1
  obtain ⟨T, h1, h2, h3⟩ := trueValue_encl .exp true 12345 (-2) false t rfl (by norm_num) ht
  exact ⟨t, T, ht, h1, h2, by simpa [realFn] using h3⟩

/-! ## 6. verdicts of `judgeElem` -/

/-- `ulpExp` is the specification's spacing exponent on rationals -/
theorem ulp_is_spacing (q : ℚ) (hq : 0 < q) : ulpExp (q : ℝ) = spacingExp q := ulpExp_rat q hq

/-- the unit of the `.ok` bound is at least the unit in the last place at every rational point of the
    enclosure (and is the spacing at its upper end) -/
theorem ulp_le_unit {t : Sci} {q : ℚ} (hq : 0 < q) (h2 : q ≤ t.m.hi) : spacingExpS q t.k ≤ eT t :=
  spacing_le_eT hq h2

/-- **A reported violation is a true violation.**  For every function, operand `x` (finite coefficients below
    10^35, as every bit pattern denotes), result `r` and mode flag: if the oracle answers `.bad`, then `Violation`
    holds, i.e. (see `EnclPf.Violation`, `EnclPf.GeneralViolation`)
    * special operand: `r` is not the value the table `specialCase` prescribes (C15);
    * default mode, `f(x)` exactly representable (`ExactSpec`): `r` is not that value;
    * huge argument of the exp family: `f(x) > 10^17000` resp. `0 < f(x) < 10^-17000` resp.
      `−1 < Expm1 x < −1 + 10^-17000`, and `r` is not +Inf resp. +0 resp. −1;
    * otherwise, with `F = f(x) ≠ 0` the real value: `r` is NaN; or has the sign opposite to `F`; or
      `|r − F| > 10^(ulpExp |F|)` — more than one unit in the last place of the format at the true result; or is
      finite although `|F| ≥ 10^(Emax+41)`; or non-zero although `|F| < 10^(Emin−40)`; or zero although
      `|F| > 10^(ulpExp |F|)`; or infinite although `|F| < 10^(Emax+30)` or `|F|` plus one unit is below the
      largest finite Decimal. -/
theorem bad_sound (f : Fn) (x r : Val) (ne : Bool) (msg : String)
    (hx : ∀ n c e, x = .fin n c e → c < 10 ^ 35)
    (h : judgeElem f x r ne = .bad msg) : Violation f x r ne :=
  judgeElem_bad_sound f x r ne msg hx h

/-- the same for a finite non-zero result on the enclosure path, spelled out -/
theorem bad_finite (f : Fn) (n : Bool) (c : Nat) (e : Int) (ne : Bool) (tn : Bool) (t : Sci)
    (rn : Bool) (rc : Nat) (re : Int) (msg : String)
    (hspec : specialCase f (.fin n c e) = none)
    (hexact : (if ne then exactCase f n c e else none) = none)
    (hhuge : hugeArg f c e = false)
    (htv : trueValue f n c e = some (tn, t)) (hc : c < 10 ^ 35)
    (h : judgeElem f (.fin n c e) (.fin rn (rc + 1) re) ne = .bad msg) :
    let F := realFn f (X n c e)
    X rn (rc + 1) re * F < 0 ∨ (10 : ℝ) ^ (ulpExp |F|) < |X rn (rc + 1) re - F| ∨
      (10 : ℝ) ^ (Emax + 41) ≤ |F| ∨ |F| < (10 : ℝ) ^ (Emin - 40) :=
  general_bad_sound f n c e ne tn t _ msg hspec hexact hhuge htv hc h

/-- an accepted result (enclosure path) has the right sign and is within one unit `10^eT` plus the width of
    the enclosure of `f(x)` (for zero / infinite results: `GeneralOk`) -/
theorem ok_sound (f : Fn) (n : Bool) (c : Nat) (e : Int) (ne : Bool) (tn : Bool) (t : Sci) (r : Val)
    (hspec : specialCase f (.fin n c e) = none)
    (hexact : (if ne then exactCase f n c e else none) = none)
    (hhuge : hugeArg f c e = false)
    (htv : trueValue f n c e = some (tn, t)) (hc : c < 10 ^ 35)
    (h : judgeElem f (.fin n c e) r ne = .ok) :
    GeneralOk (realFn f (X n c e)) t r :=
  general_ok_sound f n c e ne tn t r hspec hexact hhuge htv hc h

/-! ### proved widths: `.ok` means "within (1+δ) units in the last place" -/

/-- the enclosure of `exp x` on the arguments the checks use (|x| ≤ 10^7) has relative width ≤ 10^-66 -/
theorem exp_width {x : ℚ} {s : Sci} (h : Encl.exp x = some s) (hx : |x| ≤ 10 ^ 7) :
    0 < s.m.lo ∧ s.m.hi ≤ s.m.lo * (1 + 1 / 10 ^ 66) := exp_ratio h hx

/-- the bracket of the certified logarithm has half-width `max(|mid|·10^-60, 10^-72)`; the unit in the last
    place of the logarithm of a Decimal x ≠ 1 exceeds 3.8·10^-70 (`log_abs_ge`: |ln x| ≥ 5·10^-36) -/
theorem log_bracket_width {q : ℚ} {k : Int} {l : I} (h : Encl.log q k = some l) :
    l.hi - l.lo =
      2 * (if |(l.lo + l.hi) / 2| * pow10 (-60) < pow10 (-72) then pow10 (-72)
           else |(l.lo + l.hi) / 2| * pow10 (-60)) := log_width h

/-- every enclosure `trueValue` returns is narrow: relative width ≤ 3·10^-39, plus (logarithms only) an absolute
    slack of at most 6·10^-72 resp. 2·10^-38 (Log1p of x > 10^40) in units of `10^t.k` -/
theorem trueValue_width (f : Fn) (n : Bool) (c : Nat) (e : Int) (tn : Bool) (t : Sci)
    (hc0 : c ≠ 0) (hc : c < 10 ^ 35) (h : trueValue f n c e = some (tn, t)) :
    0 < t.m.lo ∧ t.m.lo ≤ t.m.hi ∧ t.m.hi ≤ t.m.lo * (1 + 3 / 10 ^ 39) + 2 / 10 ^ 38 := by
  have key : ∀ {ρ α : ℚ}, Narrow t.m ρ α → ρ ≤ 3 / 10 ^ 39 → α ≤ 2 / 10 ^ 38 →
      0 < t.m.lo ∧ t.m.lo ≤ t.m.hi ∧ t.m.hi ≤ t.m.lo * (1 + 3 / 10 ^ 39) + 2 / 10 ^ 38 :=
    fun hN h1 h2 => narrow_mono hN h1 h2
  cases f
  · exact key (trueValue_exp_narrow n c e tn t hc0 hc h) (le_refl _) (by norm_num)
  · exact key (trueValue_exp2_narrow n c e tn t hc0 hc h) (le_refl _) (by norm_num)
  · exact key (trueValue_exp10_narrow n c e tn t hc0 hc h) (le_refl _) (by norm_num)
  · exact key (trueValue_expm1_narrow n c e tn t hc0 hc h) (le_refl _) (by norm_num)
  · exact key (trueValue_log_narrow n c e tn t h) (by norm_num) (by norm_num)
  · exact key (trueValue_log2_narrow n c e tn t h) (by norm_num) (by norm_num)
  · exact key (trueValue_log10_narrow n c e tn t h) (by norm_num) (by norm_num)
  · exact key (trueValue_log1p_narrow n c e tn t hc0 hc h) (le_refl _) (by split <;> [norm_num; (split <;> norm_num)])
  · exact absurd h (by simp [trueValue])
  · exact absurd h (by simp [trueValue])

section
variable (f : Fn) (n : Bool) (c : Nat) (e : Int) (ne : Bool) (tn : Bool) (t : Sci)
variable (rn : Bool) (rc : Nat) (re : Int)

/-- **Exp, Exp2, Exp10, Expm1**: `.ok` on a finite non-zero result ⇒ right sign and
    `|r − f(x)| ≤ (1 + 4·10^-5)·10^eT` (`10^eT`: unit in the last place at the upper end of the enclosure) -/
theorem exp_ok_close (hf : f = .exp ∨ f = .exp2 ∨ f = .exp10 ∨ f = .expm1)
    (hspec : specialCase f (.fin n c e) = none)
    (hexact : (if ne then exactCase f n c e else none) = none)
    (hhuge : hugeArg f c e = false)
    (htv : trueValue f n c e = some (tn, t)) (hc : c < 10 ^ 35)
    (h : judgeElem f (.fin n c e) (.fin rn (rc + 1) re) ne = .ok) :
    (rn = true ↔ realFn f (X n c e) < 0) ∧
    |X rn (rc + 1) re - realFn f (X n c e)| ≤ (1 + 4 / 10 ^ 5) * (10 : ℝ) ^ (eT t) :=
  expfam_ok_close f n c e ne tn t rn rc re hf hspec hexact hhuge htv hc h

/-- **Log, Log2, Log10**: `.ok` on a finite non-zero result ⇒ right sign and `|r − f(x)| ≤ (1 + 2·10^-2)·10^eT`
    (the 2 % come from the absolute floor 10^-72 of the certified bracket against the smallest possible unit
    3.8·10^-70 of a logarithm of a Decimal; for |ln x| ≥ 10^-30 the excess is below 10^-6) -/
theorem log_ok_close (hf : f = .log ∨ f = .log2 ∨ f = .log10)
    (hspec : specialCase f (.fin n c e) = none)
    (hexact : (if ne then exactCase f n c e else none) = none)
    (hhuge : hugeArg f c e = false)
    (htv : trueValue f n c e = some (tn, t)) (hc : c < 10 ^ 35)
    (h : judgeElem f (.fin n c e) (.fin rn (rc + 1) re) ne = .ok) :
    (rn = true ↔ realFn f (X n c e) < 0) ∧
    |X rn (rc + 1) re - realFn f (X n c e)| ≤ (1 + 2 / 10 ^ 2) * (10 : ℝ) ^ (eT t) :=
  logfam_ok_close f n c e ne tn t rn rc re hf hspec hexact hhuge htv hc h

/-- **Log1p**: `.ok` on a finite non-zero result ⇒ right sign and `|r − ln(1+x)| ≤ (1 + 10^-3)·10^eT` -/
theorem log1p_ok_close
    (hspec : specialCase .log1p (.fin n c e) = none)
    (hexact : (if ne then exactCase .log1p n c e else none) = none)
    (hhuge : hugeArg .log1p c e = false)
    (htv : trueValue .log1p n c e = some (tn, t)) (hc : c < 10 ^ 35)
    (h : judgeElem .log1p (.fin n c e) (.fin rn (rc + 1) re) ne = .ok) :
    (rn = true ↔ realFn .log1p (X n c e) < 0) ∧
    |X rn (rc + 1) re - realFn .log1p (X n c e)| ≤ (1 + 1 / 10 ^ 3) * (10 : ℝ) ^ (eT t) :=
  EnclPf.log1p_ok_close n c e ne tn t rn rc re hspec hexact hhuge htv hc h

end

/-! ## 7. what the oracle cannot decide -/

/-- `judgeElem` answers `.undecided` only for a finite, non-special operand that is neither an exact case (under
    the default mode) nor a huge argument of the exp family, and only because `trueValue` has no enclosure.
    In particular `withinUlps` never answers "enclosure not positive" (every enclosure is positive). -/
theorem undecided_cases (f : Fn) (x r : Val) (ne : Bool) (w : String)
    (hx : ∀ n c e, x = .fin n c e → c < 10 ^ 35)
    (h : judgeElem f x r ne = .undecided w) :
    ∃ n c e, x = .fin n c e ∧ specialCase f x = none ∧ (if ne then exactCase f n c e else none) = none ∧
      hugeArg f c e = false ∧ trueValue f n c e = none :=
  judgeElem_undecided f x r ne w hx h

/-- Exp, Exp2 and Exp10 are decided for every operand and every result -/
theorem exp_always_decided (f : Fn) (hf : f = .exp ∨ f = .exp2 ∨ f = .exp10) (x r : Val) (ne : Bool)
    (w : String) (hx : ∀ n c e, x = .fin n c e → c < 10 ^ 35) :
    judgeElem f x r ne ≠ .undecided w :=
  judgeElem_decided_exp f hf x r ne w hx

/-- Log, Log2, Log10 have no enclosure exactly when the certificate of the logarithm fails (`Encl.log = none`;
    it did not on any of 281 probe arguments, but this depends on a `Float` seed and is not provable) or the
    bracket contains 0 (x = 1 under a non-default mode).  Expm1: only if its enclosure contains 0
    (`trueValue_expm1_isSome_or`); Log1p: as Log for |x| ≥ 10^-12; Sqrt and Cbrt are judged by `judgeRoot`, so
    `judgeElem` always answers `.undecided` for them. -/
theorem log_undecided_iff (n : Bool) (c : Nat) (e : Int) :
    (trueValue .log n c e = none ↔
      Encl.log (c : ℚ) e = none ∨ ∃ l, Encl.log (c : ℚ) e = some l ∧ l.lo ≤ 0 ∧ 0 ≤ l.hi) ∧
    (trueValue .log2 n c e = none ↔
      Encl.log (c : ℚ) e = none ∨ ∃ l, Encl.log (c : ℚ) e = some l ∧
        (l.mul ln2.invPos).lo ≤ 0 ∧ 0 ≤ (l.mul ln2.invPos).hi) ∧
    (trueValue .log10 n c e = none ↔
      Encl.log (c : ℚ) e = none ∨ ∃ l, Encl.log (c : ℚ) e = some l ∧
        (l.mul ln10.invPos).lo ≤ 0 ∧ 0 ≤ (l.mul ln10.invPos).hi) :=
  trueValue_none_log n c e

/-- the side conditions of the enclosure path are satisfiable: Exp(−123.45), any rounding-mode flag -/
example (ne : Bool) :
    specialCase .exp (.fin true 12345 (-2)) = none ∧
    (if ne then exactCase .exp true 12345 (-2) else none) = none ∧
    hugeArg .exp 12345 (-2) = false ∧ ∃ t, trueValue .exp true 12345 (-2) = some (false, t) := by
  have hnd : ndigits 12345 = 5 := SpecRound.ndigits_eq_of (by norm_num) (by norm_num) (by norm_num)
  refine ⟨rfl, ?_, ?_, ?_⟩
  · cases ne <;> simp [exactCase]
  · simp [hugeArg, hnd]
  · exact (trueValue_answers true 12345 (-2) (by norm_num) (by norm_num) (by rw [hnd]; norm_num)).1

end Props.C16
