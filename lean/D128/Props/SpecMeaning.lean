/-
  D128/Props/SpecMeaning.lean — the executable specification `Spec.*` (D128/Spec/Val.lean, Arith.lean) MEANS what
  the property texts C01–C04, C08, C10, C11 say: declarative characterisations over ℚ, so that the property
  theorems "generated Go function = `Spec.f`" can be trusted without reading the code of `Spec.f`.
  Statements only (for ALL arguments of the stated shape); proofs assemble lemmas of
  `D128/Proofs/SpecMeaning{Cmp,Arith,Select,Tie,QuoRem,Quantize,CeilFloor,Scale}.lean`, which in turn use
  `D128/Proofs/SpecRound*.lean` (what `roundTo` / `flushOrRound` select).

  Vocabulary (all defined in the proof modules, none refers to code of the Spec):
    `ext x`, `extN x`, `ordKey x`   the extended rational a value denotes (±Inf extremes; NaN lowest; −0 below +0)
    `IsValue r`                      r is the value of a finite Decimal (c ≤ Cmax, −6176 ≤ e ≤ 6111)
    `Selected m r v`                 v is the member of the format mode m selects for the exact non-zero r
                                     (greatest ≤ r / least ≥ r / nearest with ties to even resp. away; ±Inf beyond
                                     the mode's overflow threshold) — see SpecMeaningSelect.lean
    `trunc r`                        integer part of r toward zero
    `IsMult X dp`                    X is an integer multiple of 10^(−dp)
    `ModeSelects m neg s k`          the mode table on a magnitude s: k ∈ {⌊s⌋, ⌈s⌉} chosen by m

  1  comparison    `cmp_meaning`, `cmp_unordered_iff`, `cmp_finite`, `equal_meaning`, `compare_meaning`,
                   `min_meaning`, `max_meaning`
  2  arithmetic    `add_selected`, `tie_rule`, `spacingExp_meaning`, `add_cancel`, `add_zero_zero`, `add_zero_left`, `add_zero_right`,
                   `sub_selected`, `sub_cancel`, `sub_zero_zero`,
                   `mul_selected`, `mul_flush`, `mul_zero`, `quo_selected`, `quo_flush`, `quo_zero`
  3  quoRem        `quoRem_meaning`, `quoRem_quotient_exact`, `quoRem_quotient_rounded`, `quoRem_remainder`
  4  quantisation  `quantize_meaning`, `quantize_result`, `ceil_meaning`, `floor_meaning`,
                   `ceil_overflow_iff`, `floor_overflow_iff`
  5  scaling/ints  `new_meaning`, `new_selected`, `ldexp_meaning`, `ldexp_selected`, `frexp_meaning`,
                   `truncInt_meaning`, `sat_meaning`
-/
import D128.Proofs.SpecMeaningCmp
import D128.Proofs.SpecMeaningSelect
import D128.Proofs.SpecMeaningTie
import D128.Proofs.SpecMeaningCeilFloor
import D128.Proofs.SpecMeaningScale

set_option autoImplicit false

namespace Props.SpecMeaningThms
open Spec SpecRound SpecMeaning

/-! ## 1. comparison (C04) -/

/-- non-NaN operands: `Spec.cmp` is the three-way comparison of the denoted extended rationals, as −1/0/1 -/
theorem cmp_meaning (x y : Val) (hx : x.isNaN = false) (hy : y.isNaN = false) :
    Spec.cmp x y = ordInt (compare (ext x) (ext y)) := cmp_eq_compare x y hx hy

/-- the "unordered" code −2 is returned exactly when an operand is NaN -/
theorem cmp_unordered_iff (x y : Val) : Spec.cmp x y = -2 ↔ (x.isNaN = true ∨ y.isNaN = true) :=
  cmp_eq_unordered_iff x y

/-- finite operands (any cohort members, either zero sign): the comparison of the rationals -/
theorem cmp_finite (n n' : Bool) (c c' : Nat) (e e' : Int) :
    Spec.cmp (.fin n c e) (.fin n' c' e') =
      ordInt (compare (Val.fin n c e).toRat (Val.fin n' c' e').toRat) := by
  rw [cmp_fin_fin]; cases compare (Val.fin n c e).toRat (Val.fin n' c' e').toRat <;> rfl

/-- `Equal` ↔ neither is NaN and the denotations agree (so −0 = +0, NaN ≠ NaN) -/
theorem equal_meaning (x y : Val) :
    Spec.equal x y = true ↔ (x.isNaN = false ∧ y.isNaN = false ∧ ext x = ext y) := equal_iff x y

/-- `Compare` is the three-way comparison for the total preorder "NaN first, then by value" -/
theorem compare_meaning (x y : Val) : Spec.compare x y = ordInt (compare (extN x) (extN y)) :=
  compare_eq_compare x y

/-- `Min`: NaN if either is NaN (the first one); otherwise one of the operands up to encoding, denoting the
    minimum, where −0 counts as smaller than +0 -/
theorem min_meaning (x y : Val) :
    (x.isNaN = true → Spec.minVal x y = x) ∧
    (x.isNaN = false → y.isNaN = true → Spec.minVal x y = y) ∧
    (x.isNaN = false → y.isNaN = false →
      ext (Spec.minVal x y) = min (ext x) (ext y) ∧
      ordKey (Spec.minVal x y) = min (ordKey x) (ordKey y)) ∧
    ((Spec.minVal x y).same x = true ∨ (Spec.minVal x y).same y = true) := by
  refine ⟨fun h => ?_, fun hx h => ?_, fun hx hy => ⟨ext_minVal x y hx hy, ordKey_minVal x y hx hy⟩,
    minVal_same x y⟩
  · cases x with
    | nan n p => exact minVal_nan_left n p y
    | inf n => simp [Val.isNaN] at h
    | fin n c e => simp [Val.isNaN] at h
  · cases y with
    | nan n p => exact minVal_nan_right x hx n p
    | inf n => simp [Val.isNaN] at h
    | fin n c e => simp [Val.isNaN] at h

theorem max_meaning (x y : Val) :
    (x.isNaN = true → Spec.maxVal x y = x) ∧
    (x.isNaN = false → y.isNaN = true → Spec.maxVal x y = y) ∧
    (x.isNaN = false → y.isNaN = false →
      ext (Spec.maxVal x y) = max (ext x) (ext y) ∧
      ordKey (Spec.maxVal x y) = max (ordKey x) (ordKey y)) ∧
    ((Spec.maxVal x y).same x = true ∨ (Spec.maxVal x y).same y = true) := by
  refine ⟨fun h => ?_, fun hx h => ?_, fun hx hy => ⟨ext_maxVal x y hx hy, ordKey_maxVal x y hx hy⟩,
    maxVal_same x y⟩
  · cases x with
    | nan n p => exact maxVal_nan_left n p y
    | inf n => simp [Val.isNaN] at h
    | fin n c e => simp [Val.isNaN] at h
  · cases y with
    | nan n p => exact maxVal_nan_right x hx n p
    | inf n => simp [Val.isNaN] at h
    | fin n c e => simp [Val.isNaN] at h

example : Spec.cmp (.fin false 10 (-1)) (.fin false 1 0) = 0 := by decide
example : ext (Spec.minVal (.fin false 3 0) (.inf true)) = min (ext (.fin false 3 0)) (ext (.inf true)) :=
  ext_minVal _ _ rfl rfl

/-! ## 2. arithmetic (C01, C02) -/

/-- **C01.** non-zero finite operands whose exact sum `r` is not zero: `add` returns the member of the
    format that the mode selects for `r` -/
theorem add_selected (m : Mode) (n n' : Bool) (c c' : Nat) (e e' : Int) (hc : c ≠ 0) (hc' : c' ≠ 0)
    (h : (Val.fin n c e).toRat + (Val.fin n' c' e').toRat ≠ 0) :
    Selected m ((Val.fin n c e).toRat + (Val.fin n' c' e').toRat)
      (Spec.add m (.fin n c e) (.fin n' c' e')) := by
  rw [add_exact_ne_zero m n n' c c' e e' hc hc' h]; exact roundTo_selected m h

/-- the tie rule of the nearest modes, stated with "another value of the format is exactly as near":
    nearestEven returns the even multiple of the spacing, nearestAway the value of larger magnitude
    (r ≠ 0 the exact value, `.fin n c e` the finite result of `roundTo`) -/
theorem tie_rule {r : ℚ} (hr : r ≠ 0) {n : Bool} {c : Nat} {e : Int} {x : ℚ} (hx : IsValue x)
    (hne : x ≠ (Val.fin n c e).toRat) (heq : |x - r| = |(Val.fin n c e).toRat - r|) :
    (Spec.roundTo .nearestEven (decide (r < 0)) |r| = .fin n c e →
      ∃ C : Nat, |(Val.fin n c e).toRat| = (C : ℚ) * (10 : ℚ) ^ (Spec.spacingExp |r|) ∧ C % 2 = 0) ∧
    (Spec.roundTo .nearestAway (decide (r < 0)) |r| = .fin n c e → |x| < |(Val.fin n c e).toRat|) :=
  ⟨fun h => roundTo_tie_even hr h hx hne heq, fun h => roundTo_tie_away hr h hx hne heq⟩

/-- the spacing exponent used above, declaratively: the least `E ≥ Emin` with `⌊q/10^E⌋ ≤ Cmax` -/
theorem spacingExp_meaning {q : ℚ} (hq : 0 < q) :
    IsLeast {E : Int | Spec.Emin ≤ E ∧ ⌊q / (10 : ℚ) ^ E⌋₊ ≤ Spec.Cmax} (Spec.spacingExp q) :=
  spacingExp_isLeast hq

/-- exact cancellation of non-zero operands: +0, −0 exactly under `toNegInf` -/
theorem add_cancel (m : Mode) (n n' : Bool) (c c' : Nat) (e e' : Int) (hc : c ≠ 0) (hc' : c' ≠ 0)
    (h : (Val.fin n c e).toRat + (Val.fin n' c' e').toRat = 0) :
    Spec.add m (.fin n c e) (.fin n' c' e') = .fin (m == .toNegInf) 0 0 :=
  SpecMeaning.add_cancel m n n' c c' e e' hc hc' h

/-- two zeros: −0 only when both are −0; one zero: the other operand unchanged -/
theorem add_zero_zero (m : Mode) (n n' : Bool) (e e' : Int) :
    Spec.add m (.fin n 0 e) (.fin n' 0 e') = .fin (n && n') 0 0 := SpecMeaning.add_zero_zero m n n' e e'
theorem add_zero_left (m : Mode) (n n' : Bool) (c' : Nat) (e e' : Int) (hc' : c' ≠ 0) :
    Spec.add m (.fin n 0 e) (.fin n' c' e') = .fin n' c' e' := SpecMeaning.add_zero_left m n n' c' e e' hc'
theorem add_zero_right (m : Mode) (n n' : Bool) (c : Nat) (e e' : Int) (hc : c ≠ 0) :
    Spec.add m (.fin n c e) (.fin n' 0 e') = .fin n c e := SpecMeaning.add_zero_right m n n' c e e' hc

theorem sub_selected (m : Mode) (n n' : Bool) (c c' : Nat) (e e' : Int) (hc : c ≠ 0) (hc' : c' ≠ 0)
    (h : (Val.fin n c e).toRat - (Val.fin n' c' e').toRat ≠ 0) :
    Selected m ((Val.fin n c e).toRat - (Val.fin n' c' e').toRat)
      (Spec.sub m (.fin n c e) (.fin n' c' e')) := by
  rw [sub_exact_ne_zero m n n' c c' e e' hc hc' h]; exact roundTo_selected m h

theorem sub_cancel (m : Mode) (n n' : Bool) (c c' : Nat) (e e' : Int) (hc : c ≠ 0) (hc' : c' ≠ 0)
    (h : (Val.fin n c e).toRat = (Val.fin n' c' e').toRat) :
    Spec.sub m (.fin n c e) (.fin n' c' e') = .fin (m == .toNegInf) 0 0 :=
  SpecMeaning.sub_cancel m n n' c c' e e' hc hc' h

/-- two zeros: −0 only when both effective signs (that of x, the opposite of y's) are negative -/
theorem sub_zero_zero (m : Mode) (n n' : Bool) (e e' : Int) :
    Spec.sub m (.fin n 0 e) (.fin n' 0 e') = .fin (n && !n') 0 0 := SpecMeaning.sub_zero_zero m n n' e e'

/-- **C02.** non-zero finite operands: unless the exact product is below `10^(Emin-1) = 1e-6177` in
    magnitude AND the mode rounds its magnitude up, `mul` returns the member the mode selects for the exact
    product (gradual underflow included: from 1e-6177 on the selection ranges over subnormals too) -/
theorem mul_selected (m : Mode) (n n' : Bool) (c c' : Nat) (e e' : Int) (hc : c ≠ 0) (hc' : c' ≠ 0)
    (h : (10 : ℚ) ^ (Spec.Emin - 1) ≤ |(Val.fin n c e).toRat * (Val.fin n' c' e').toRat| ∨
         isUp m (n != n') = false) :
    Selected m ((Val.fin n c e).toRat * (Val.fin n' c' e').toRat)
      (Spec.mul m (.fin n c e) (.fin n' c' e')) := by
  have hne : (Val.fin n c e).toRat * (Val.fin n' c' e').toRat ≠ 0 :=
    mul_ne_zero (mt (toRat_eq_zero_iff n c e).1 hc) (mt (toRat_eq_zero_iff n' c' e').1 hc')
  rw [mul_fin_fin]
  have : Spec.flushOrRound m (n != n') |(Val.fin n c e).toRat * (Val.fin n' c' e').toRat| =
      Spec.roundTo m (n != n') |(Val.fin n c e).toRat * (Val.fin n' c' e').toRat| := by
    rcases h with h | h
    · exact flushOrRound_eq_roundTo m _ h
    · exact flushOrRound_eq_roundTo_of_not_up h (abs_pos.2 hne)
  rw [this, mul_sign n n' c c' e e' hc hc']
  exact roundTo_selected m hne

/-- … and below 1e-6177 every mode returns the zero with the xor of the signs (the property's
    "correctly signed zero when the exact magnitude is below 1e-6177") -/
theorem mul_flush (m : Mode) (n n' : Bool) (c c' : Nat) (e e' : Int)
    (h0 : 0 < |(Val.fin n c e).toRat * (Val.fin n' c' e').toRat|)
    (h : |(Val.fin n c e).toRat * (Val.fin n' c' e').toRat| < (10 : ℚ) ^ (Spec.Emin - 1)) :
    Spec.mul m (.fin n c e) (.fin n' c' e') = .fin (n != n') 0 Spec.Emin :=
  (mul_regimes m n n' c c' e e').2.1 h0 h

/-- a zero factor: the zero with the xor of the signs -/
theorem mul_zero (m : Mode) (n n' : Bool) (c c' : Nat) (e e' : Int) (h : c = 0 ∨ c' = 0) :
    Spec.mul m (.fin n c e) (.fin n' c' e') = .fin (n != n') 0 0 := by
  rcases h with rfl | rfl
  · exact mul_zero_left m n n' c' e e'
  · exact mul_zero_right m n n' c e e'

theorem quo_selected (m : Mode) (n n' : Bool) (c c' : Nat) (e e' : Int) (hc : c ≠ 0) (hc' : c' ≠ 0)
    (h : (10 : ℚ) ^ (Spec.Emin - 1) ≤ |(Val.fin n c e).toRat / (Val.fin n' c' e').toRat| ∨
         isUp m (n != n') = false) :
    Selected m ((Val.fin n c e).toRat / (Val.fin n' c' e').toRat)
      (Spec.quo m (.fin n c e) (.fin n' c' e')) := by
  have hne : (Val.fin n c e).toRat / (Val.fin n' c' e').toRat ≠ 0 :=
    div_ne_zero (mt (toRat_eq_zero_iff n c e).1 hc) (mt (toRat_eq_zero_iff n' c' e').1 hc')
  rw [quo_fin_fin m n n' c c' e e' hc']
  have : Spec.flushOrRound m (n != n') |(Val.fin n c e).toRat / (Val.fin n' c' e').toRat| =
      Spec.roundTo m (n != n') |(Val.fin n c e).toRat / (Val.fin n' c' e').toRat| := by
    rcases h with h | h
    · exact flushOrRound_eq_roundTo m _ h
    · exact flushOrRound_eq_roundTo_of_not_up h (abs_pos.2 hne)
  rw [this, quo_sign n n' c c' e e' hc hc']
  exact roundTo_selected m hne

theorem quo_flush (m : Mode) (n n' : Bool) (c c' : Nat) (e e' : Int) (hc' : c' ≠ 0)
    (h0 : 0 < |(Val.fin n c e).toRat / (Val.fin n' c' e').toRat|)
    (h : |(Val.fin n c e).toRat / (Val.fin n' c' e').toRat| < (10 : ℚ) ^ (Spec.Emin - 1)) :
    Spec.quo m (.fin n c e) (.fin n' c' e') = .fin (n != n') 0 Spec.Emin :=
  (quo_regimes m n n' c c' e e' hc').2.1 h0 h

/-- 0 / non-zero: the zero with the xor of the signs; non-zero / 0: ±Inf; 0 / 0: NaN -/
theorem quo_zero (m : Mode) (n n' : Bool) (c c' : Nat) (e e' : Int) :
    (c = 0 → c' ≠ 0 → Spec.quo m (.fin n c e) (.fin n' c' e') = .fin (n != n') 0 0) ∧
    (c ≠ 0 → c' = 0 → Spec.quo m (.fin n c e) (.fin n' c' e') = .inf (n != n')) ∧
    (c = 0 → c' = 0 → (Spec.quo m (.fin n c e) (.fin n' c' e')).isNaN = true) := by
  refine ⟨?_, ?_, ?_⟩
  · rintro rfl h; exact quo_zero_left m n n' c' e e' h
  · rintro h rfl; exact quo_fin_zero m n n' c e e' h
  · rintro rfl rfl; exact quo_zero_zero m n n' e e'

example : Selected .nearestEven ((Val.fin false 1 0).toRat / (Val.fin true 3 0).toRat)
    (Spec.quo .nearestEven (.fin false 1 0) (.fin true 3 0)) :=
  quo_selected _ _ _ _ _ _ _ (by decide) (by decide) (Or.inr rfl)

/-! ## 3. integer quotient and remainder (C03) -/

/-- **C03.** finite x, finite non-zero y (all coefficients and exponents).  With `T = trunc (X/Y)`:
    the quotient is `qv m sign |T|` (the zero of the xor sign for `T = 0`; `T` itself, exactly, in every
    mode when `|T|` is a member of the format; rounded by the mode otherwise), the remainder is
    `exactOrInf` of `|X − Y·T|` with the sign bit of x; `|X − Y·T| < |Y|`, and `X − Y·T` has the sign of `X` -/
theorem quoRem_meaning (m : Mode) (n n' : Bool) (c c' : Nat) (e e' : Int) (hc' : c' ≠ 0) :
    Spec.quoRem m (.fin n c e) (.fin n' c' e') =
      (QR.qv m (n != n') (trunc ((Val.fin n c e).toRat / (Val.fin n' c' e').toRat)).natAbs,
       Spec.exactOrInf n
        |(Val.fin n c e).toRat -
          (Val.fin n' c' e').toRat * (trunc ((Val.fin n c e).toRat / (Val.fin n' c' e').toRat) : ℚ)|) ∧
    |(Val.fin n c e).toRat -
        (Val.fin n' c' e').toRat * (trunc ((Val.fin n c e).toRat / (Val.fin n' c' e').toRat) : ℚ)| <
      |(Val.fin n' c' e').toRat| ∧
    (0 ≤ (Val.fin n c e).toRat → 0 ≤ (Val.fin n c e).toRat -
        (Val.fin n' c' e').toRat * (trunc ((Val.fin n c e).toRat / (Val.fin n' c' e').toRat) : ℚ)) ∧
    ((Val.fin n c e).toRat ≤ 0 → (Val.fin n c e).toRat -
        (Val.fin n' c' e').toRat * (trunc ((Val.fin n c e).toRat / (Val.fin n' c' e').toRat) : ℚ) ≤ 0) := by
  have hY : (Val.fin n' c' e').toRat ≠ 0 := mt (toRat_eq_zero_iff n' c' e').1 hc'
  exact ⟨quoRem_fin_fin m n n' c c' e e' hc', rem_abs_lt _ _ hY, (rem_sign _ _ hY).1, (rem_sign _ _ hY).2⟩

/-- a truncated quotient that is a member of the format (in particular `|T| ≤ Cmax`) is returned exactly -/
theorem quoRem_quotient_exact (m : Mode) (n n' : Bool) (c c' : Nat) (e e' : Int) (hc' : c' ≠ 0)
    (hm : Member (((trunc ((Val.fin n c e).toRat / (Val.fin n' c' e').toRat)).natAbs : Nat) : ℚ)) :
    ∃ cq eq, (Spec.quoRem m (.fin n c e) (.fin n' c' e')).1 = .fin (n != n') cq eq ∧
      (Val.fin (n != n') cq eq).toRat =
        ((trunc ((Val.fin n c e).toRat / (Val.fin n' c' e').toRat) : Int) : ℚ) := by
  obtain ⟨cq, eq, h1, h2, -⟩ := quoRem_quo_member m n n' c c' e e' hc' hm
  exact ⟨cq, eq, h1, h2⟩

/-- a truncated quotient with more digits than fit is rounded by the mode (±Inf on overflow) -/
theorem quoRem_quotient_rounded (m : Mode) (n n' : Bool) (c c' : Nat) (e e' : Int) (hc' : c' ≠ 0)
    (hm : ¬ Member (((trunc ((Val.fin n c e).toRat / (Val.fin n' c' e').toRat)).natAbs : Nat) : ℚ)) :
    (Spec.quoRem m (.fin n c e) (.fin n' c' e')).1 =
      Spec.roundTo m (n != n') |((trunc ((Val.fin n c e).toRat / (Val.fin n' c' e').toRat) : Int) : ℚ)| :=
  quoRem_quo_rounded m n n' c c' e e' hc' hm

/-- operands that are members of the format: the remainder is finite, with the sign bit of x, and exact -/
theorem quoRem_remainder (m : Mode) (n n' : Bool) (c c' : Nat) (e e' : Int) (hc' : c' ≠ 0)
    (hc : c ≤ Spec.Cmax) (hcm' : c' ≤ Spec.Cmax) (he1 : Spec.Emin ≤ e) (he2 : e ≤ Spec.Emax)
    (he1' : Spec.Emin ≤ e') :
    ∃ cr er, (Spec.quoRem m (.fin n c e) (.fin n' c' e')).2 = .fin n cr er ∧
      (Val.fin n cr er).toRat =
        (Val.fin n c e).toRat -
          (Val.fin n' c' e').toRat * (trunc ((Val.fin n c e).toRat / (Val.fin n' c' e').toRat) : ℚ) ∧
      |(Val.fin n cr er).toRat| < |(Val.fin n' c' e').toRat| :=
  quoRem_rem_member m n n' c c' e e' hc' hc hcm' he1 he2 he1'

example : ∃ cr er, (Spec.quoRem .toZero (.fin true 7 0) (.fin false 2 0)).2 = .fin true cr er ∧
    (Val.fin true cr er).toRat = (Val.fin true 7 0).toRat -
      (Val.fin false 2 0).toRat * (trunc ((Val.fin true 7 0).toRat / (Val.fin false 2 0).toRat) : ℚ) ∧
    |(Val.fin true cr er).toRat| < |(Val.fin false 2 0).toRat| :=
  quoRem_remainder _ _ _ _ _ _ _ (by decide) (by decide) (by decide) (by decide) (by decide) (by decide)

/-! ## 4. quantisation (C08) -/

/-- **C08, Round(dp, m)** on a non-zero finite x, with `X = x.toRat`, `Q = 10^(−dp)`: exactly one of
    (a) X is a multiple of Q and x is returned unchanged;
    (b) X is not a multiple, `|X| < Q/10`, and the result is the zero of x's sign IN EVERY MODE (the exception);
    (c) X is not a multiple, `Q/10 ≤ |X|`, and the result is `k` quanta with the sign of x, `k` the number the
        mode table selects for `|X|/Q` (`quanta_cases`: zero of x's sign if `k = 0`; the finite value `±k·Q` if
        that is a member of the format; `±Inf` otherwise) -/
theorem quantize_meaning (dp : Int) (m : Mode) (n : Bool) (c : Nat) (e : Int) (hc : c ≠ 0) :
    (IsMult (Val.fin n c e).toRat dp ∧ Spec.quantize dp m (.fin n c e) = .fin n c e) ∨
    (¬ IsMult (Val.fin n c e).toRat dp ∧ |(Val.fin n c e).toRat| < (10 : ℚ) ^ (-dp) / 10 ∧
      Spec.quantize dp m (.fin n c e) = .fin n 0 0) ∨
    (¬ IsMult (Val.fin n c e).toRat dp ∧ (10 : ℚ) ^ (-dp) / 10 ≤ |(Val.fin n c e).toRat| ∧
      ∃ k : Nat, ModeSelects m n (|(Val.fin n c e).toRat| / (10 : ℚ) ^ (-dp)) k ∧
        Spec.quantize dp m (.fin n c e) = Spec.exactOrInfS n (k : ℚ) (-dp)) :=
  quantize_cases dp m n c e hc

/-- every finite result of Round(dp, m) (any finite x, zero included) keeps the sign bit, denotes an integer
    multiple of the quantum and is less than one quantum from x; an infinite result has the sign of x -/
theorem quantize_result (dp : Int) (m : Mode) (n : Bool) (c : Nat) (e : Int) :
    (∀ n' c' e', Spec.quantize dp m (.fin n c e) = .fin n' c' e' →
      n' = n ∧ IsMult (Val.fin n' c' e').toRat dp ∧
      |(Val.fin n' c' e').toRat - (Val.fin n c e).toRat| < (10 : ℚ) ^ (-dp)) ∧
    (∀ n', Spec.quantize dp m (.fin n c e) = .inf n' → n' = n) :=
  ⟨fun _ _ _ h => quantize_fin_result dp m n c e h, fun _ h => quantize_inf_result dp m n c e h⟩

/-- **C08, Ceil(dp)**: a finite result has the sign bit of x and is the LEAST multiple of `10^(−dp)` that is
    `≥ x` (no flush exception); otherwise the result is `±Inf` with the sign of x -/
theorem ceil_meaning (dp : Int) (n : Bool) (c : Nat) (e : Int) :
    (∀ n' c' e', Spec.ceilDp dp (.fin n c e) = .fin n' c' e' →
      n' = n ∧ IsLeast {y : ℚ | IsMult y dp ∧ (Val.fin n c e).toRat ≤ y} (Val.fin n' c' e').toRat) ∧
    ((∃ c' e', Spec.ceilDp dp (.fin n c e) = .fin n c' e') ∨ Spec.ceilDp dp (.fin n c e) = .inf n) := by
  refine ⟨fun _ _ _ h => ⟨(ceilDp_value dp n c e h).1, ceilDp_isLeast dp n c e h⟩, ?_⟩
  rcases ceilDp_cases dp n c e with h | ⟨-, -, h, -⟩
  · exact Or.inl h
  · exact Or.inr h

/-- **C08, Floor(dp)**: the GREATEST multiple of `10^(−dp)` that is `≤ x` -/
theorem floor_meaning (dp : Int) (n : Bool) (c : Nat) (e : Int) :
    (∀ n' c' e', Spec.floorDp dp (.fin n c e) = .fin n' c' e' →
      n' = n ∧ IsGreatest {y : ℚ | IsMult y dp ∧ y ≤ (Val.fin n c e).toRat} (Val.fin n' c' e').toRat) ∧
    ((∃ c' e', Spec.floorDp dp (.fin n c e) = .fin n c' e') ∨ Spec.floorDp dp (.fin n c e) = .inf n) := by
  refine ⟨fun _ _ _ h => ⟨(floorDp_value dp n c e h).1, floorDp_isGreatest dp n c e h⟩, ?_⟩
  rcases floorDp_cases dp n c e with h | ⟨-, -, h, -⟩
  · exact Or.inl h
  · exact Or.inr h

/-- for x a non-zero member of the format, Ceil overflows exactly when the least multiple above exceeds the
    largest finite Decimal, Floor exactly when the greatest multiple below is under the most negative one -/
theorem ceil_overflow_iff (dp : Int) (n : Bool) (c : Nat) (e : Int) (hc : c ≠ 0)
    (hcm : c ≤ Spec.Cmax) (he : Spec.Emin ≤ e) (he2 : e ≤ Spec.Emax) :
    Spec.ceilDp dp (.fin n c e) = .inf n ↔
      (Spec.Cmax : ℚ) * (10 : ℚ) ^ Spec.Emax <
        (⌈(Val.fin n c e).toRat / (10 : ℚ) ^ (-dp)⌉ : ℚ) * (10 : ℚ) ^ (-dp) :=
  ceilDp_member_inf_iff dp n c e hc hcm he he2

theorem floor_overflow_iff (dp : Int) (n : Bool) (c : Nat) (e : Int) (hc : c ≠ 0)
    (hcm : c ≤ Spec.Cmax) (he : Spec.Emin ≤ e) (he2 : e ≤ Spec.Emax) :
    Spec.floorDp dp (.fin n c e) = .inf n ↔
      (⌊(Val.fin n c e).toRat / (10 : ℚ) ^ (-dp)⌋ : ℚ) * (10 : ℚ) ^ (-dp) <
        -((Spec.Cmax : ℚ) * (10 : ℚ) ^ Spec.Emax) :=
  floorDp_member_inf_iff dp n c e hc hcm he he2

example : IsLeast {y : ℚ | IsMult y 0 ∧ (Val.fin true 5 (-1)).toRat ≤ y} (Val.fin true 0 0).toRat :=
  ((ceil_meaning 0 true 5 (-1)).1 true 0 0 (by decide +kernel)).2

/-! ## 5. scaling by powers of ten and integer conversions (C11, C10) -/

/-- **C11, New(sig, exp)** denotes `flushOrRound` of `|sig·10^exp|` with the sign of `sig` (+0 for sig = 0) -/
theorem new_meaning (m : Mode) (sig exp : Int) :
    Spec.newVal m sig exp = Spec.flushOrRound m (decide (sig < 0)) |(sig : ℚ) * (10 : ℚ) ^ exp| :=
  newVal_eq m sig exp

/-- … i.e. from 1e-6177 on (and for every mode that does not round magnitudes up, everywhere) the member the
    mode selects for `sig·10^exp`; below 1e-6177 the zero of sig's sign (`newVal_regimes`) -/
theorem new_selected (m : Mode) (sig exp : Int) (h0 : sig ≠ 0)
    (h : (10 : ℚ) ^ (Spec.Emin - 1) ≤ |(sig : ℚ) * (10 : ℚ) ^ exp| ∨ isUp m (decide (sig < 0)) = false) :
    Selected m ((sig : ℚ) * (10 : ℚ) ^ exp) (Spec.newVal m sig exp) := by
  have hp : (0 : ℚ) < (10 : ℚ) ^ exp := zpow_pos (by norm_num) _
  have hne : (sig : ℚ) * (10 : ℚ) ^ exp ≠ 0 := mul_ne_zero (by exact_mod_cast h0) hp.ne'
  have hs : decide (sig < 0) = decide ((sig : ℚ) * (10 : ℚ) ^ exp < 0) := by
    congr 1
    rw [eq_iff_iff, mul_neg_iff]
    constructor
    · intro h1; right; exact ⟨by exact_mod_cast h1, hp⟩
    · rintro (⟨-, h2⟩ | ⟨h1, -⟩)
      · exact absurd h2 (not_lt.2 hp.le)
      · exact_mod_cast h1
  rw [newVal_eq]
  have : Spec.flushOrRound m (decide (sig < 0)) |(sig : ℚ) * (10 : ℚ) ^ exp| =
      Spec.roundTo m (decide (sig < 0)) |(sig : ℚ) * (10 : ℚ) ^ exp| := by
    rcases h with h | h
    · exact flushOrRound_eq_roundTo m _ h
    · exact flushOrRound_eq_roundTo_of_not_up h (abs_pos.2 hne)
  rw [this, hs]
  exact roundTo_selected m hne

/-- **C11, Ldexp(x, k)** on a finite x denotes `flushOrRound` of `|x|·10^k` with the sign bit of x -/
theorem ldexp_meaning (m : Mode) (n : Bool) (c : Nat) (e k : Int) :
    Spec.ldexp m (.fin n c e) k = Spec.flushOrRound m n (|(Val.fin n c e).toRat| * (10 : ℚ) ^ k) :=
  ldexp_eq m n c e k

theorem ldexp_selected (m : Mode) (n : Bool) (c : Nat) (e k : Int) (hc : c ≠ 0)
    (h : (10 : ℚ) ^ (Spec.Emin - 1) ≤ |(Val.fin n c e).toRat| * (10 : ℚ) ^ k ∨ isUp m n = false) :
    Selected m ((Val.fin n c e).toRat * (10 : ℚ) ^ k) (Spec.ldexp m (.fin n c e) k) := by
  have hp : (0 : ℚ) < (10 : ℚ) ^ k := zpow_pos (by norm_num) _
  have hX : (Val.fin n c e).toRat ≠ 0 := mt (toRat_eq_zero_iff n c e).1 hc
  have hne : (Val.fin n c e).toRat * (10 : ℚ) ^ k ≠ 0 := mul_ne_zero hX hp.ne'
  have habs : |(Val.fin n c e).toRat * (10 : ℚ) ^ k| = |(Val.fin n c e).toRat| * (10 : ℚ) ^ k := by
    rw [abs_mul, abs_of_pos hp]
  have hs : n = decide ((Val.fin n c e).toRat * (10 : ℚ) ^ k < 0) := by
    have h1 : (Val.fin n c e).toRat * (10 : ℚ) ^ k < 0 ↔ n = true := by
      rw [← toRat_neg_iff n c e hc, mul_neg_iff]
      constructor
      · rintro (⟨-, h2⟩ | ⟨h1, -⟩)
        · exact absurd h2 (not_lt.2 hp.le)
        · exact h1
      · intro h1; right; exact ⟨h1, hp⟩
    cases n <;> simp [h1]
  rw [ldexp_eq]
  have : Spec.flushOrRound m n (|(Val.fin n c e).toRat| * (10 : ℚ) ^ k) =
      Spec.roundTo m n (|(Val.fin n c e).toRat| * (10 : ℚ) ^ k) := by
    rcases h with h | h
    · exact flushOrRound_eq_roundTo m _ h
    · exact flushOrRound_eq_roundTo_of_not_up h (by rw [← habs]; exact abs_pos.2 hne)
  rw [this, ← habs]
  have key := roundTo_selected m hne
  rw [← hs] at key
  exact key

/-- **C11, Frexp** of a finite non-zero x: `(f, r)` with `f·10^r = x` exactly, `0.1 ≤ |f| < 1`, sign kept;
    zeros and specials are returned unchanged with exponent 0 -/
theorem frexp_meaning (n : Bool) (c : Nat) (e : Int) (hc : c ≠ 0) :
    (Spec.frexp (.fin n c e)).1.toRat * (10 : ℚ) ^ (Spec.frexp (.fin n c e)).2 = (Val.fin n c e).toRat ∧
    1 / 10 ≤ |(Spec.frexp (.fin n c e)).1.toRat| ∧ |(Spec.frexp (.fin n c e)).1.toRat| < 1 ∧
    (Spec.frexp (.fin n c e)).1.neg = n :=
  ⟨frexp_exact n c e hc, (frexp_range n c e hc).1, (frexp_range n c e hc).2, frexp_sign n c e⟩

theorem frexp_unchanged (x : Val) (h : x.isFin = false ∨ x.isZero = true) : Spec.frexp x = (x, 0) := by
  cases x with
  | nan n p => rfl
  | inf n => rfl
  | fin n c e =>
    rcases h with h | h
    · simp [Val.isFin] at h
    · cases c with
      | zero => rfl
      | succ k => simp [Val.isZero] at h

/-- **C10**: the Spec's integer part is truncation toward zero of the denoted rational -/
theorem truncInt_meaning (n : Bool) (c : Nat) (e : Int) :
    Spec.truncInt (.fin n c e) = trunc (Val.fin n c e).toRat := truncInt_eq_trunc n c e

/-- **C10**: `sat lo hi x = some (t, true)` exactly when x is finite and `t = trunc X` lies in `[lo, hi]`;
    NaN ↦ none (the documented panic); ±Inf ↦ the bound on that side, not ok -/
theorem sat_meaning (lo hi : Int) (x : Val) (t : Int) :
    (Spec.sat lo hi x = some (t, true) ↔ (x.isFin = true ∧ t = trunc x.toRat ∧ lo ≤ t ∧ t ≤ hi)) ∧
    (Spec.sat lo hi x = none ↔ x.isNaN = true) := by
  refine ⟨sat_ok_iff lo hi x t, ?_⟩
  cases x with
  | nan n p => simp [sat_nan, Val.isNaN]
  | inf n => simp [sat_inf, Val.isNaN]
  | fin n c e => rw [sat_fin]; simp only [Val.isNaN]; split_ifs <;> simp

example : Selected .nearestEven (((-25 : Int) : ℚ) * (10 : ℚ) ^ (-1 : Int)) (Spec.newVal .nearestEven (-25) (-1)) :=
  new_selected _ _ _ (by decide) (Or.inr rfl)

end Props.SpecMeaningThms
