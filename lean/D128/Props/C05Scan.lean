/-
  Property C05 (parsing) / C06 (round trip) — the `fmt.Scanner` entry point `(*Decimal).Scan`.

  `Gen.Decimal.Scan` (generated from /repo/scan.go into `D128/Gen/ScanFmt.lean`) over the value model
  `Go.ScanState` of `fmt.ScanState` (`D128/Go/Fmt.lean`; how `Sscan`/`Sscanln`/`Sscanf` build the state is
  runtime behaviour of package fmt, stated in `lean/Oracle/FmtModel.lean`).  Statements only; the proofs are
  in `D128/Proofs/FmtScan{State,Main,Top,Total,Trip}.lean`.

  Vocabulary (all in namespace `FmtScan`):
  * `window f`        the runes successive `ReadRune` calls deliver from `f`: the input from `pos`, at most
                      `wid − used` of them if a width is set, up to and including the first newline in
                      `Scanln` mode, nothing once `atEOF`  (`readRune_cons`, `readRune_nil`)
  * `leadSpace f`, `afterSpace f`   the maximal run of space runes at the head of the window (a newline counts
                      iff `nlIsSpace`) and what follows it; `skipped f` the state `SkipSpace` leaves
  * `panicCond f`     `SkipSpace` panics: the leading space is followed by a newline (not space in this mode:
                      `Sscanln`, `Sscanf`), or by the end of the window where the reader has an error of its own
  * `advance s l`     the state after the runes `l` were delivered; `stop s` after a read that delivered
                      nothing, `settle s` after the rune just read was put back (`canUnread` cleared);
                      `endErr s` the error of a read that delivers nothing (`io.EOF`, or `errorsNew` for a
                      `broken` reader); `eofErr` maps `io.EOF` to `io.ErrUnexpectedEOF`
  * `tokPred r`       the predicate `Scan` hands to `Token`: digits `.` `e` `E` `-` `_` `+`  (`tokFn_eq`)
  * `tokEnd s tok rest`  the state `Token` leaves after `tok`: `settle (advance s tok)` if a rune `rest` follows
                      (it was read and put back), `stop (advance s tok)` at the end of the window
  * `SignSplit w sgn body`  `w = sgn ++ body`, `sgn` is `[]`, `[+]` or `[-]`, and without a sign `body` does not
                      start with one
  * `byteOf r`, `runesOf b`   the byte of an ASCII rune / a byte string as runes

  Theorems
  * `scan_bad_verb`   any verb outside `e E f F g G v`: the "bad verb" error, state untouched, `*d` unchanged
  * `scan_panic_iff`  the only panic is the `scanError` of `SkipSpace` (which package fmt recovers), exactly
                      when the verb is accepted and `panicCond`; otherwise `Scan` returns
  * `skipSpace_spec`  `SkipSpace` in window terms
  * `scan_spec`       a number: after the leading space the input is `sgn ++ tok ++ rest` with `tok` the maximal
                      run of token runes: exactly `sgn ++ tok` is consumed and the result is what `parse` returns
                      on these bytes — same error (`nil`, syntax, range), the parsed Decimal on success; on an
                      error `*d` keeps its old value (see FINDING below)
  * `scan_read_error` a reader error right after the token is returned as it is
  * `scan_eof`        end of input before a rune or right after the sign: `io.ErrUnexpectedEOF`
  * `scan_name`, `scan_inf`, `scan_nan`  the names, by three explicit rune reads: `Inf` (any case; the sign
                      applies) and `NaN` (payload `payloadOpScan` = 7, the sign ignored); anything else after
                      `I`/`N` is a syntax error, the runes read stay consumed
  * `scan_string_fin`, `scan_string_nan`, `scan_string_inf`  scanning `String d` from ANY state
  * `sscan_roundtrip`, `sscan_roundtrip_nan`, `sscan_roundtrip_inf`  **C06, `fmt.Sscan`**: on the state `Sscan`
                      builds for `space ++ String d ++ rest`, `Scan` stores a Decimal `Equal` to `d` with the
                      same sign (a NaN / the same infinity), without error, and consumes exactly the text

  FINDING (deviation from the text of C05, "magnitudes that round above the largest finite Decimal give ±Inf
  with an error matching strconv.ErrRange … Scan for the same numerals"): on a range error `Scan` does NOT store
  ±Inf: `*d` is left unchanged (`scan_spec`: the stored value is `if e = nil then v else d`), whereas
  `Parse`/`UnmarshalText`'s `parse` returns ±Inf together with the error.  Real run:
  `x := MustParse("7"); fmt.Sscan("1e99999", &x)` gives `0, parsing "1e99999": value out of range`, `x = 7`;
  model: `Scan ⟨0⟩ 7 (st "1e99999") 'f' = (7, …, parseRangeError)`, `parse "1e99999" = (+Inf, parseRangeError)`.
  (`UnmarshalText` behaves like `Scan` here; the error class is the same in all entry points.)
  Not a deviation: `Scan` reads `Inf` by three runes, so `Infinity` is consumed only up to `Inf` (`Sscan` of
  `+infinity` yields `+Inf` and leaves `inity`); C05 claims `Infinity` only for `Parse`.
-/
import D128.Proofs.FmtScanTrip
import D128.Props.C06b
set_option autoImplicit false

namespace Props.C05Scan
open Go Gen FmtScan

local notation "𝔳[" d "]" => Spec.interp (Gen.Decimal.lo d) (Gen.Decimal.hi d)

/-! ## 1. verbs and panics -/

/-- **Other verbs**: the "bad verb" error (class `errorsNew`), nothing consumed (the state is returned as it
was), `*d` unchanged. -/
theorem scan_bad_verb (g : Globals) (d : Decimal) (f : ScanState) (verb : Int32)
    (hv : verb ≠ 101 ∧ verb ≠ 69 ∧ verb ≠ 102 ∧ verb ≠ 70 ∧ verb ≠ 103 ∧ verb ≠ 71 ∧ verb ≠ 118) :
    Gen.Decimal.Scan g d f verb = .ok (d, f, Err.errorsNew) := by
  apply Scan_badverb
  obtain ⟨h1, h2, h3, h4, h5, h6, h7⟩ := hv
  simp [okVerb, h1, h2, h3, h4, h5, h6, h7]

/-- **`SkipSpace`** consumes the maximal run of space runes; it panics with the `scanError` that package fmt
recovers exactly when `panicCond`. -/
theorem skipSpace_spec (f : ScanState) :
    f.SkipSpace = if panicCond f then .error skipPanic else .ok (skipped f) :=
  SkipSpace_spec f

/-- the window after `SkipSpace` is what follows the leading space -/
theorem window_skipped (f : ScanState) : window (skipped f) = afterSpace f :=
  FmtScan.window_skipped f

/-- **Never a panic except the `scanError` of `SkipSpace`.**  Every `d`, verb, state (input below `2^62`
runes): `Scan` panics iff the verb is accepted and `panicCond f` holds, and then with `skipPanic`; in every
other case it returns.  (So `UnreadRune` is only called where it is defined, and `parseNumber` does not panic
on the token.) -/
theorem scan_panic_iff (g : Globals) (d : Decimal) (f : ScanState) (verb : Int32)
    (hsz : f.input.size < 2 ^ 62) :
    (okVerb verb = true ∧ panicCond f → Gen.Decimal.Scan g d f verb = .error skipPanic) ∧
      (¬ (okVerb verb = true ∧ panicCond f) → ∃ x, Gen.Decimal.Scan g d f verb = .ok x) :=
  Scan_total g d f verb hsz

/-! ## 2. numbers -/

/-- **`scan_spec`.**  Verb one of `e E f F g G v`; `SkipSpace` does not panic; after the leading space the
input reads `sgn ++ tok ++ rest`: an optional sign, `tok` the MAXIMAL run of runes the `Token` predicate accepts
(`ht`, `hr`), not the empty run followed by the first letter of a name (`hnm`), not the end of the input
(`hne`); if the window ends with the token, the read that finds the end is an `io.EOF` (`hend`; true for every
reader that is not `broken`).  Then for the bytes `sgn ++ tok`
* `parse` returns some `(v, e)` with `e` one of `nil`, `parseSyntaxError`, `parseRangeError`, and
* `Scan` returns the same error `e`, has consumed exactly `sgn ++ tok` (`tokEnd`), and has stored `v` if
  `e = nil`; otherwise `*d` is unchanged. -/
theorem scan_spec (g : Globals) (d : Decimal) (f : ScanState) (verb : Int32) (op : UInt64)
    (hv : okVerb verb = true) (hnp : ¬ panicCond f) (hsz : f.input.size < 2 ^ 62)
    (sgn tok rest : List Int32) (hsp : SignSplit (afterSpace f) sgn (tok ++ rest))
    (ht : ∀ x ∈ tok, tokPred x = true) (hr : ∀ x, rest.head? = some x → tokPred x = false)
    (hne : tok ++ rest ≠ [])
    (hnm : tok = [] → ∀ x, rest.head? = some x → x ≠ 73 ∧ x ≠ 105 ∧ x ≠ 78 ∧ x ≠ 110)
    (hend : rest = [] → endErr (advance (skipped f) (sgn ++ tok)) = .ioEOF) :
    ∃ v e, Gen.parse g ((sgn ++ tok).map byteOf).toArray op = .ok (v, e) ∧
      (e = .nil ∨ e = .parseSyntaxError ∨ e = .parseRangeError) ∧
      Gen.Decimal.Scan g d f verb =
        .ok (if e = .nil then v else d, tokEnd (skipped f) (sgn ++ tok) rest, e) ∧
      window (tokEnd (skipped f) (sgn ++ tok) rest) = rest := by
  obtain ⟨v, e, h1, h2, h3⟩ := Scan_number g d f verb op hv hnp hsz sgn tok rest hsp ht hr hne hnm hend
  refine ⟨v, e, h1, h2, h3, window_tokEnd _ _ _ ?_⟩
  rw [FmtScan.window_skipped, hsp.eq, List.append_assoc]

/-- the hypothesis `hend` holds for every reader that does not fail with an error of its own -/
theorem endErr_of_not_broken (f : ScanState) (l : List Int32) (h : f.broken = false) :
    endErr (advance (skipped f) l) = .ioEOF :=
  FmtScan.endErr_of_not_broken _ (by rw [(advance_fields _ _).2.2.2.2.1, skipped_broken, h])

/-- a reader error where the window ends right after the token is returned as it is; `*d` unchanged -/
theorem scan_read_error (g : Globals) (d : Decimal) (f : ScanState) (verb : Int32)
    (hv : okVerb verb = true) (hnp : ¬ panicCond f)
    (sgn tok : List Int32) (hsp : SignSplit (afterSpace f) sgn tok)
    (ht : ∀ x ∈ tok, tokPred x = true) (hne : tok ≠ [])
    (hend : endErr (advance (skipped f) (sgn ++ tok)) = .errorsNew) :
    Gen.Decimal.Scan g d f verb = .ok (d, stop (advance (skipped f) (sgn ++ tok)), Err.errorsNew) :=
  Scan_number_broken g d f verb hv hnp sgn tok hsp ht hne hend

/-- **EOF**: the input ends after the leading space, or right after the sign: `io.ErrUnexpectedEOF`
(`eofErr`; the reader's own error if it has one), `*d` unchanged -/
theorem scan_eof (g : Globals) (d : Decimal) (f : ScanState) (verb : Int32)
    (hv : okVerb verb = true) (hnp : ¬ panicCond f) (sgn : List Int32)
    (hsp : SignSplit (afterSpace f) sgn []) :
    Gen.Decimal.Scan g d f verb =
      .ok (d, stop (advance (skipped f) sgn), eofErr (endErr (advance (skipped f) sgn))) :=
  Scan_eof g d f verb hv hnp sgn hsp

/-- for a reader that is not broken the error of `scan_eof` is `io.ErrUnexpectedEOF` -/
theorem scan_eof_unexpected (g : Globals) (d : Decimal) (f : ScanState) (verb : Int32)
    (hv : okVerb verb = true) (hnp : ¬ panicCond f) (sgn : List Int32)
    (hsp : SignSplit (afterSpace f) sgn []) (hb : f.broken = false) :
    Gen.Decimal.Scan g d f verb = .ok (d, stop (advance (skipped f) sgn), Err.ioErrUnexpectedEOF) := by
  rw [scan_eof g d f verb hv hnp sgn hsp, endErr_of_not_broken f sgn hb]
  rfl

/-! ## 3. names -/

/-- **Names**, in full: after the optional sign the first rune is `I`/`i` or `N`/`n`; `nameOutcome` lists
what the next two reads lead to. -/
theorem scan_name (g : Globals) (d : Decimal) (f : ScanState) (verb : Int32)
    (hv : okVerb verb = true) (hnp : ¬ panicCond f)
    (sgn : List Int32) (r : Int32) (b2 : List Int32) (hsp : SignSplit (afterSpace f) sgn (r :: b2))
    (hr : r = 73 ∨ r = 105 ∨ r = 78 ∨ r = 110) :
    Gen.Decimal.Scan g d f verb =
      .ok (if r = 73 ∨ r = 105 then
          nameOutcome d (skipped f) (sgn ++ [r]) b2 78 110 70 102 (inf (sgn == [45]))
        else nameOutcome d (skipped f) (sgn ++ [r]) b2 65 97 78 110 (nan 7 0 0)) :=
  Scan_name g d f verb hv hnp sgn r b2 hsp hr

/-- **`Inf`** in any case, optionally signed, whatever follows: `inf neg`, the sign and three runes consumed -/
theorem scan_inf (g : Globals) (d : Decimal) (f : ScanState) (verb : Int32)
    (hv : okVerb verb = true) (hnp : ¬ panicCond f)
    (sgn : List Int32) (r1 r2 r3 : Int32) (rest : List Int32)
    (hsp : SignSplit (afterSpace f) sgn (r1 :: r2 :: r3 :: rest))
    (h1 : r1 = 73 ∨ r1 = 105) (h2 : r2 = 78 ∨ r2 = 110) (h3 : r3 = 70 ∨ r3 = 102) :
    Gen.Decimal.Scan g d f verb =
      .ok (inf (sgn == [45]), advance (skipped f) (sgn ++ [r1, r2, r3]), Err.nil) := by
  rw [scan_name g d f verb hv hnp sgn r1 _ hsp (by rcases h1 with h | h <;> simp [h]), if_pos h1]
  have c2 : (r2 != 78 && r2 != 110) = false := by rcases h2 with h | h <;> subst h <;> rfl
  have c3 : (r3 != 70 && r3 != 102) = false := by rcases h3 with h | h <;> subst h <;> rfl
  simp [nameOutcome, c2, c3]

/-- **`NaN`** in any case, the sign ignored: a NaN with payload `payloadOpScan` -/
theorem scan_nan (g : Globals) (d : Decimal) (f : ScanState) (verb : Int32)
    (hv : okVerb verb = true) (hnp : ¬ panicCond f)
    (sgn : List Int32) (r1 r2 r3 : Int32) (rest : List Int32)
    (hsp : SignSplit (afterSpace f) sgn (r1 :: r2 :: r3 :: rest))
    (h1 : r1 = 78 ∨ r1 = 110) (h2 : r2 = 65 ∨ r2 = 97) (h3 : r3 = 78 ∨ r3 = 110) :
    Gen.Decimal.Scan g d f verb =
      .ok (nan 7 0 0, advance (skipped f) (sgn ++ [r1, r2, r3]), Err.nil) := by
  rw [scan_name g d f verb hv hnp sgn r1 _ hsp (by rcases h1 with h | h <;> simp [h]),
    if_neg (by rcases h1 with h | h <;> subst h <;> decide)]
  have c2 : (r2 != 65 && r2 != 97) = false := by rcases h2 with h | h <;> subst h <;> rfl
  have c3 : (r3 != 78 && r3 != 110) = false := by rcases h3 with h | h <;> subst h <;> rfl
  simp [nameOutcome, c2, c3]

/-- the names agree with `parse` on the runes consumed (`payloadOpScan` = 7) -/
theorem parse_names_agree (g : Globals) :
    Gen.parse g (Go.str "-Inf") 7 = .ok (inf true, Err.nil) ∧
      Gen.parse g (Go.str "+inF") 7 = .ok (inf false, Err.nil) ∧
      Gen.parse g (Go.str "nAn") 7 = .ok (nan 7 0 0, Err.nil) := by
  refine ⟨?_, ?_, ?_⟩ <;> (rw [Parse.parse_eq _ _ _ (by decide)]; rfl)

/-! ## 4. round trip (C06: "feeding that text to … fmt.Sscan yields a Decimal that is Equal to d with the same
sign (a NaN/Inf for NaN/Inf)") -/

/-- **Scanning `String d`, finite `d`, from any state.**  If the text after the leading space is `String d`
followed by `rest` that does not continue the token, and the read that finds the end (when `rest = []`) is
not a reader error, `Scan` stores a Decimal `Equal` to `d` with the same sign, returns `nil`, and consumes
exactly the text. -/
theorem scan_string_fin (g : Globals) (m : Spec.Mode)
    (hm : Spec.Mode.ofNat? g.DefaultRoundingMode.toNat = some m) (d : Decimal) (neg : Bool)
    (c : Nat) (e : Int) (hfin : 𝔳[d] = .fin neg c e)
    (dst : Decimal) (f : ScanState) (verb : Int32) (hv : okVerb verb = true) (hnp : ¬ panicCond f)
    (hsz : f.input.size < 2 ^ 62) :
    ∃ out, Gen.Decimal.String d = .ok out ∧
      ∀ rest : List Int32, afterSpace f = runesOf out ++ rest →
        (∀ x, rest.head? = some x → tokPred x = false) →
        (rest = [] → endErr (advance (skipped f) (runesOf out)) = .ioEOF) →
        ∃ v, Gen.Decimal.Scan g dst f verb =
            .ok (v, tokEnd (skipped f) (runesOf out) rest, Err.nil) ∧
          window (tokEnd (skipped f) (runesOf out) rest) = rest ∧
          Spec.equal (𝔳[v]) (𝔳[d]) = true ∧ (𝔳[v]).neg = (𝔳[d]).neg ∧ (𝔳[v]).isFin = true :=
  Scan_string_fin g m hm d neg c e hfin dst f verb hv hnp hsz

theorem scan_string_nan (g : Globals) (d : Decimal) (n : Bool) (p : UInt64) (h : 𝔳[d] = .nan n p)
    (dst : Decimal) (f : ScanState) (verb : Int32) (hv : okVerb verb = true) (hnp : ¬ panicCond f)
    (rest : List Int32) (hw : afterSpace f = runesOf (Go.str "NaN") ++ rest) :
    Gen.Decimal.String d = .ok (Go.str "NaN") ∧
      Gen.Decimal.Scan g dst f verb =
        .ok (nan 7 0 0, advance (skipped f) (runesOf (Go.str "NaN")), Err.nil) ∧
      window (advance (skipped f) (runesOf (Go.str "NaN"))) = rest ∧ (𝔳[nan 7 0 0]).isNaN = true :=
  Scan_string_nan g d n p h dst f verb hv hnp rest hw

theorem scan_string_inf (g : Globals) (d : Decimal) (n : Bool) (h : 𝔳[d] = .inf n)
    (dst : Decimal) (f : ScanState) (verb : Int32) (hv : okVerb verb = true) (hnp : ¬ panicCond f)
    (rest : List Int32)
    (hw : afterSpace f = runesOf (if n then Go.str "-Inf" else Go.str "+Inf") ++ rest) :
    Gen.Decimal.String d = .ok (if n then Go.str "-Inf" else Go.str "+Inf") ∧
      Gen.Decimal.Scan g dst f verb =
        .ok (inf n, advance (skipped f) (runesOf (if n then Go.str "-Inf" else Go.str "+Inf")),
          Err.nil) ∧
      window (advance (skipped f) (runesOf (if n then Go.str "-Inf" else Go.str "+Inf"))) = rest ∧
      𝔳[inf n] = 𝔳[d] :=
  Scan_string_inf g d n h dst f verb hv hnp rest hw

/-- **`sscan_roundtrip`** (C06 through `fmt.Sscan`).  `sscanState runes` is the state `Sscan` hands to the
operand's `Scan` (newlines are space, no width; `Oracle/FmtModel.lean`).  For every finite `d`, every valid
default rounding mode, any leading white space `sp` and any `rest` that is empty or starts with a rune
outside the token alphabet: scanning `sp ++ String d ++ rest` with any of the seven verbs stores, without
error and without panic, a Decimal that is `Equal` to `d` and has the same sign; exactly the text has been
consumed (`window s' = rest`, `s'.pos` = length of the space plus length of the text). -/
theorem sscan_roundtrip (g : Globals) (m : Spec.Mode)
    (hm : Spec.Mode.ofNat? g.DefaultRoundingMode.toNat = some m) (d : Decimal) (neg : Bool)
    (c : Nat) (e : Int) (hfin : 𝔳[d] = .fin neg c e)
    (dst : Decimal) (verb : Int32) (hv : okVerb verb = true)
    (sp rest : List Int32) (hsp : ∀ x ∈ sp, ScanState.isSpace x = true)
    (hr : ∀ x, rest.head? = some x → tokPred x = false) (hlen : sp.length + rest.length < 2 ^ 61) :
    ∃ out v s', Gen.Decimal.String d = .ok out ∧
      Gen.Decimal.Scan g dst (sscanState (sp ++ (runesOf out ++ rest))) verb = .ok (v, s', Err.nil) ∧
      window s' = rest ∧ s'.pos = sp.length + out.size ∧
      Spec.equal (𝔳[v]) (𝔳[d]) = true ∧ (𝔳[v]).neg = (𝔳[d]).neg ∧ (𝔳[v]).isFin = true :=
  sscan_fin g m hm d neg c e hfin dst verb hv sp rest hsp hr hlen

/-- … a NaN comes back as a NaN (any `rest`) -/
theorem sscan_roundtrip_nan (g : Globals) (d : Decimal) (n : Bool) (p : UInt64) (h : 𝔳[d] = .nan n p)
    (dst : Decimal) (verb : Int32) (hv : okVerb verb = true)
    (sp rest : List Int32) (hsp : ∀ x ∈ sp, ScanState.isSpace x = true) :
    ∃ v s', Gen.Decimal.String d = .ok (Go.str "NaN") ∧
      Gen.Decimal.Scan g dst (sscanState (sp ++ (runesOf (Go.str "NaN") ++ rest))) verb =
        .ok (v, s', Err.nil) ∧ window s' = rest ∧ (𝔳[v]).isNaN = true := by
  have hb : ∀ x, (runesOf (Go.str "NaN") ++ rest).head? = some x → ScanState.isSpace x = false := by
    intro x hx
    have : x = 78 := (Option.some.inj hx).symm
    subst this; decide
  obtain ⟨_, ha⟩ := sscan_split sp _ hsp hb
  obtain ⟨h1, h2, h3, h4⟩ := scan_string_nan g d n p h dst _ verb hv (sscan_noPanic sp _ hsp hb) rest ha
  exact ⟨_, _, h1, h2, h3, h4⟩

/-- … and an infinity as the same infinity -/
theorem sscan_roundtrip_inf (g : Globals) (d : Decimal) (n : Bool) (h : 𝔳[d] = .inf n)
    (dst : Decimal) (verb : Int32) (hv : okVerb verb = true)
    (sp rest : List Int32) (hsp : ∀ x ∈ sp, ScanState.isSpace x = true) :
    ∃ out v s', Gen.Decimal.String d = .ok out ∧
      Gen.Decimal.Scan g dst (sscanState (sp ++ (runesOf out ++ rest))) verb = .ok (v, s', Err.nil) ∧
      window s' = rest ∧ 𝔳[v] = 𝔳[d] := by
  have hb : ∀ x, (runesOf (if n then Go.str "-Inf" else Go.str "+Inf") ++ rest).head? = some x →
      ScanState.isSpace x = false := by
    intro x hx
    cases n
    · have : x = 43 := (Option.some.inj hx).symm
      subst this; decide
    · have : x = 45 := (Option.some.inj hx).symm
      subst this; decide
  obtain ⟨_, ha⟩ := sscan_split sp _ hsp hb
  obtain ⟨h1, h2, h3, h4⟩ := scan_string_inf g d n h dst _ verb hv (sscan_noPanic sp _ hsp hb) rest ha
  exact ⟨_, _, _, h1, h2, h3, h4⟩

/-! ## examples: the hypotheses are satisfiable -/

namespace Ex

/-- the runes of an ASCII string -/
def runes (s : String) : List Int32 := s.toList.map fun c => Int32.ofNat c.toNat

/-- `Sscan`-state, input `"  -12_5.5e+3,x"` -/
def f1 : ScanState := sscanState (runes "  -12_5.5e+3,x")

/-- `Sscanf("%5v")`-like state: width 5 on `"+1234567"` -/
def f2 : ScanState := { input := (runes "+1234567").toArray, wid := some 5 }

/-- `Sscanln`-state on `"  \n1"`: `SkipSpace` panics (unexpected newline) -/
def f3 : ScanState := { input := (runes "  \n1").toArray, nlIsEnd := true }

example : afterSpace f1 = runes "-12_5.5e+3,x" ∧ ¬ panicCond f1 := by decide

/-- `scan_spec` on `f1`: sign `-`, token `12_5.5e+3`, rest `,x`; 12 runes consumed -/
example : ∃ v e, Gen.parse ⟨0⟩ ((([45] : List Int32) ++ runes "12_5.5e+3").map byteOf).toArray 7 = .ok (v, e) ∧
      (e = .nil ∨ e = .parseSyntaxError ∨ e = .parseRangeError) ∧
      Gen.Decimal.Scan ⟨0⟩ default f1 118 =
        .ok (if e = .nil then v else default, tokEnd (skipped f1) ([45] ++ runes "12_5.5e+3") (runes ",x"), e) ∧
      window (tokEnd (skipped f1) ([45] ++ runes "12_5.5e+3") (runes ",x")) = runes ",x" :=
  scan_spec ⟨0⟩ default f1 118 7 (by decide) (by decide) (by decide) [45] (runes "12_5.5e+3") (runes ",x")
    ⟨by decide, by decide, by decide⟩ (by decide) (by decide) (by decide) (by decide) (by decide)

/-- the width cuts the window: `+1234567` with width 5 is the token `+1234` at the end of the window -/
example : window f2 = runes "+1234" := by decide

example := scan_spec ⟨0⟩ default f2 102 7 (by decide) (by decide) (by decide) [43] (runes "1234") []
    ⟨by decide, by decide, by decide⟩ (by decide) (by decide) (by decide) (by decide) (by decide)

/-- the `SkipSpace` panic, and only there -/
example : Gen.Decimal.Scan ⟨0⟩ default f3 118 = .error skipPanic :=
  (scan_panic_iff ⟨0⟩ default f3 118 (by decide)).1 ⟨by decide, by decide⟩

/-- `-iNf` then anything; `nan` cut by the end of the input -/
example : Gen.Decimal.Scan ⟨0⟩ default (sscanState (runes " -iNfinity")) 101 =
    .ok (inf true, advance (skipped (sscanState (runes " -iNfinity"))) (runes "-iNf"), Err.nil) :=
  scan_inf ⟨0⟩ default _ 101 (by decide) (by decide) [45] 105 78 102 (runes "inity")
    ⟨by decide, by decide, by decide⟩ (by decide) (by decide) (by decide)

example : Gen.Decimal.Scan ⟨0⟩ default (sscanState (runes "na")) 101 =
    .ok (default, stop (advance (sscanState (runes "na")) (runes "na")), Err.ioErrUnexpectedEOF) := by
  rw [scan_name ⟨0⟩ default _ 101 (by decide) (by decide) [] 110 [97] ⟨by decide, by decide, by decide⟩
    (by decide)]
  decide

/-- end of input after the sign -/
example : Gen.Decimal.Scan ⟨0⟩ default (sscanState (runes " +")) 101 =
    .ok (default, stop (advance (skipped (sscanState (runes " +"))) [43]), Err.ioErrUnexpectedEOF) :=
  scan_eof_unexpected ⟨0⟩ default _ 101 (by decide) (by decide) [43] ⟨by decide, by decide, by decide⟩ rfl

/-- a bad verb -/
example : Gen.Decimal.Scan ⟨0⟩ default f1 100 = .ok (default, f1, Err.errorsNew) :=
  scan_bad_verb ⟨0⟩ default f1 100 (by decide)

/-- the round trip of −5e+20 (negative, exponent form) and of 123.45, with leading blanks and a newline after -/
example := sscan_roundtrip ⟨0⟩ .nearestEven rfl ⟨5, 12711409948253224960⟩ true 5 20 (by decide) default 118
  (by decide) (runes " \t") (runes "\n") (by decide) (by decide) (by decide)
example := sscan_roundtrip ⟨4⟩ .toNegInf rfl Props.C06b.ex1 false 12345 (-2) Props.C06b.ex1_val default 103
  (by decide) [] [] (by decide) (by decide) (by decide)

end Ex

end Props.C05Scan
