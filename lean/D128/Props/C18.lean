/-
  Property C18 (exact / special cases of `x.PowWithMode(y, m)`), woodsbury/decimal128.

  Statements about the generated `Gen.Decimal.PowWithMode` / `Gen.Decimal.Pow` (translation of
  /repo/arith.go) against `Spec.powSpecial` (D128/Spec/Elem.lean) over 𝔳[d] = `Spec.interp d.lo d.hi`,
  for ALL bit patterns, every mode byte; each theorem also shows that the call does not panic.
  Proofs assemble lemmas of `D128/Proofs/Pow*.lean`.

  0. `pow_default`                       `Pow g d o = PowWithMode d o g.DefaultRoundingMode`
  (a) `pow_exp_zero`                     y = ±0 ⇒ exactly 1 (any x, NaN included)
  (b) `pow_base_one`                     x = +1 (any y, NaN included), x = −1 with y = ±Inf ⇒ exactly 1
  (c) `pow_exp_one`, `pow_exp_one_bits`  y = 1 ⇒ x itself (bit for bit)
      `pow_exp_neg_one`                  y = −1 ⇒ `QuoWithMode 1 x` (= `Spec.quo m 1 x` under `hquo`)
  (d) `pow_nan_left`, `pow_nan_right`    the first NaN operand is returned bit for bit
-/
import D128.Proofs.PowCasesA
set_option autoImplicit false

namespace Props.C18
open PowPf

/-- the value a bit pattern denotes -/
local notation "𝔳[" d "]" => Spec.interp (Gen.Decimal.lo d) (Gen.Decimal.hi d)

/-! ## 0. default-mode entry point -/

theorem pow_default (g : Globals) (d o : Gen.Decimal) :
    Gen.Decimal.Pow g d o = Gen.Decimal.PowWithMode d o g.DefaultRoundingMode := Sp.Pow_eq g d o

/-! ## (a) y = ±0 -/

/-- `x^±0 = 1` for every x (NaN, ±Inf, ±0 included); the result is the bit pattern `one false` -/
theorem pow_exp_zero (d o : Gen.Decimal) (rm : UInt8) (m : Spec.Mode) (hy : (𝔳[o]).isZero = true) :
    Gen.Decimal.PowWithMode d o rm = .ok (Gen.one false) ∧ 𝔳[Gen.one false] = Spec.posOne ∧
      Spec.powSpecial m 𝔳[d] 𝔳[o] = some Spec.posOne := by
  rw [Enc.interp_isZero] at hy
  exact ⟨(case_yzero d o rm m hy).1, Enc.interp_one false, (case_yzero d o rm m hy).2⟩

/-! ## (b) x = +1, and x = −1 with y = ±Inf -/

/-- `(+1)^y = 1` for every y (NaN included) and `(−1)^±Inf = 1`; |x| = 1 is `Spec.mag c e = 1`, i.e.
    every member of the cohort of 1 (`1`, `10e-1`, …, `10^34e-34`) -/
theorem pow_base_one (d o : Gen.Decimal) (rm : UInt8) (m : Spec.Mode) (n : Bool) (c : Nat) (e : Int)
    (hy : (𝔳[o]).isZero = false) (hx : 𝔳[d] = .fin n c e) (h1 : Spec.mag c e = 1)
    (hn : n = false ∨ (𝔳[o]).isInf = true) :
    Gen.Decimal.PowWithMode d o rm = .ok (Gen.one false) ∧ 𝔳[Gen.one false] = Spec.posOne ∧
      Spec.powSpecial m 𝔳[d] 𝔳[o] = some Spec.posOne := by
  rw [Enc.interp_isZero] at hy
  have ha : absOne 𝔳[d] = true := by rw [hx]; simp [absOne, h1]
  have hs : ((!(Gen.Decimal.Signbit d)) || (Gen.Decimal.isInf o)) = true := by
    rw [← Enc.interp_neg, ← Enc.interp_isInf, hx]
    rcases hn with h | h
    · subst h; rfl
    · rw [h]; simp
  exact ⟨(case_xone d o rm m hy ha hs).1, Enc.interp_one false, (case_xone d o rm m hy ha hs).2⟩

/-! ## (c) y = ±1 -/

/-- the hypotheses "x is not one of the cases (b)" in terms of values -/
theorem not_b_iff (d o : Gen.Decimal) :
    (absOne 𝔳[d] && ((!(Gen.Decimal.Signbit d)) || (Gen.Decimal.isInf o))) =
      (absOne 𝔳[d] && ((!(𝔳[d]).neg) || (𝔳[o]).isInf)) := by
  rw [Enc.interp_neg, Enc.interp_isInf]

/-- `x^1 = x` bit for bit (when x is not +1, which gives the canonical `one false`) -/
theorem pow_exp_one_bits (d o : Gen.Decimal) (rm : UInt8) (c : Nat) (e : Int)
    (hy : 𝔳[o] = .fin false c e) (h1 : Spec.mag c e = 1)
    (hb : (absOne 𝔳[d] && !(𝔳[d]).neg) = false) :
    Gen.Decimal.PowWithMode d o rm = .ok d := by
  have ha : absOne 𝔳[o] = true := by rw [hy]; simp [absOne, h1]
  have hz : Gen.Decimal.IsZero o = false := by
    rw [← Enc.interp_isZero, hy, Enc.isZero_fin]
    rcases Nat.eq_zero_or_pos c with h | h
    · subst h; rw [Sp.mag_zero] at h1; exact absurd h1 (by decide)
    · simp; omega
  have hs : Gen.Decimal.Signbit o = false := by rw [← Enc.interp_neg, hy]; rfl
  have hi : (𝔳[o]).isInf = false := by rw [hy]; rfl
  have hb' : (absOne 𝔳[d] && ((!(Gen.Decimal.Signbit d)) || (Gen.Decimal.isInf o))) = false := by
    rw [not_b_iff, hi, Bool.or_false]; exact hb
  rw [(case_late d o rm .nearestEven hz hb').1, (case_yone_pos d o rm .nearestEven ha hs).1]

/-- `x^1 = x` against the specification (every x, NaN included) -/
theorem pow_exp_one (d o : Gen.Decimal) (rm : UInt8) (m : Spec.Mode) (c : Nat) (e : Int)
    (hy : 𝔳[o] = .fin false c e) (h1 : Spec.mag c e = 1) :
    ∃ r, Gen.Decimal.PowWithMode d o rm = .ok r ∧ (𝔳[r]).same 𝔳[d] = true := by
  cases hb : (absOne 𝔳[d] && !(𝔳[d]).neg)
  · exact ⟨d, pow_exp_one_bits d o rm c e hy h1 hb, Sp.same_refl _⟩
  · have hy0 : (𝔳[o]).isZero = false := by
      rw [hy, Enc.isZero_fin]
      rcases Nat.eq_zero_or_pos c with h | h
      · subst h; rw [Sp.mag_zero] at h1; exact absurd h1 (by decide)
      · simp; omega
    rw [Bool.and_eq_true] at hb
    cases hv : 𝔳[d] with
    | nan n p => rw [hv] at hb; exact absurd hb.1 (by simp [absOne])
    | inf n => rw [hv] at hb; exact absurd hb.1 (by simp [absOne])
    | fin n c' e' =>
      rw [hv] at hb
      have hn : n = false := by simpa [Spec.Val.neg] using hb.2
      have hm : Spec.mag c' e' = 1 := by simpa [absOne] using hb.1
      refine ⟨_, (pow_base_one d o rm m n c' e' hy0 hv hm (Or.inl hn)).1, ?_⟩
      rw [Enc.interp_one, hn]
      simp [Spec.Val.same, hm, mag_one_zero]

/-- `x^(−1)` is `QuoWithMode 1 x` (when x is not +1, which gives `one false` directly); with the
    division theorem for this one call, `hquo` (an instance of `Props.C02.quo_correct (one false) d rm m hm`
    once property C02 is available), the result is the m-rounded reciprocal `Spec.quo m 1 x` -/
theorem pow_exp_neg_one (d o : Gen.Decimal) (rm : UInt8) (m : Spec.Mode) (c : Nat) (e : Int)
    (hquo : ∃ r, Gen.Decimal.QuoWithMode (Gen.one false) d rm = .ok r ∧
      (𝔳[r]).same (Spec.quo m 𝔳[Gen.one false] 𝔳[d]) = true)
    (hy : 𝔳[o] = .fin true c e) (h1 : Spec.mag c e = 1)
    (hb : (absOne 𝔳[d] && !(𝔳[d]).neg) = false) :
    Gen.Decimal.PowWithMode d o rm = Gen.Decimal.QuoWithMode (Gen.one false) d rm ∧
    ∃ r, Gen.Decimal.PowWithMode d o rm = .ok r ∧
      (𝔳[r]).same (Spec.quo m Spec.posOne 𝔳[d]) = true := by
  have ha : absOne 𝔳[o] = true := by rw [hy]; simp [absOne, h1]
  have hz : Gen.Decimal.IsZero o = false := by
    rw [← Enc.interp_isZero, hy, Enc.isZero_fin]
    rcases Nat.eq_zero_or_pos c with h | h
    · subst h; rw [Sp.mag_zero] at h1; exact absurd h1 (by decide)
    · simp; omega
  have hs : Gen.Decimal.Signbit o = true := by rw [← Enc.interp_neg, hy]; rfl
  have hi : (𝔳[o]).isInf = false := by rw [hy]; rfl
  have hb' : (absOne 𝔳[d] && ((!(Gen.Decimal.Signbit d)) || (Gen.Decimal.isInf o))) = false := by
    rw [not_b_iff, hi, Bool.or_false]; exact hb
  have e1 : Gen.Decimal.PowWithMode d o rm = Gen.Decimal.QuoWithMode (Gen.one false) d rm := by
    rw [(case_late d o rm m hz hb').1, (case_yone_neg d o rm m ha hs).1]
  refine ⟨e1, ?_⟩
  obtain ⟨r, hr, hsame⟩ := hquo
  rw [Enc.interp_one] at hsame
  exact ⟨r, by rw [e1, hr], hsame⟩

/-! ## (d) NaN operands -/

/-- a NaN base is returned bit for bit unless y = ±0 (result 1) or y = ±1 (x or `Quo 1 x`, a NaN again) -/
theorem pow_nan_left (d o : Gen.Decimal) (rm : UInt8) (hd : Gen.Decimal.IsNaN d = true)
    (hz : (𝔳[o]).isZero = false) (h1 : absOne 𝔳[o] = false) :
    Gen.Decimal.PowWithMode d o rm = .ok d := by
  rw [Enc.interp_isZero] at hz
  have hb : (absOne 𝔳[d] && ((!(Gen.Decimal.Signbit d)) || (Gen.Decimal.isInf o))) = false := by
    rw [Sp.view_nan d hd]; rfl
  rw [(case_late d o rm .nearestEven hz hb).1, (case_nan_left d o rm .nearestEven h1 hd).1]

/-- a NaN exponent is returned bit for bit unless x = +1 (result 1) or x is a NaN (x wins) -/
theorem pow_nan_right (d o : Gen.Decimal) (rm : UInt8) (ho : Gen.Decimal.IsNaN o = true)
    (hd : Gen.Decimal.IsNaN d = false) (hb : (absOne 𝔳[d] && !(𝔳[d]).neg) = false) :
    Gen.Decimal.PowWithMode d o rm = .ok o := by
  have hz : Gen.Decimal.IsZero o = false := by
    rcases Enc.classify_partition o with ⟨a, _, _, e⟩ | ⟨a, _, _, e⟩ | ⟨a, _, _, e⟩ | ⟨a, _, _, e⟩
    · exact e
    all_goals (rw [ho] at a; cases a)
  have hi : Gen.Decimal.isInf o = false := by
    rcases Enc.classify_partition o with ⟨a, b, _, e⟩ | ⟨a, _, _, e⟩ | ⟨a, _, _, e⟩ | ⟨a, _, _, e⟩
    · exact b
    all_goals (rw [ho] at a; cases a)
  have h1 : absOne 𝔳[o] = false := by rw [Sp.view_nan o ho]; rfl
  have hb' : (absOne 𝔳[d] && ((!(Gen.Decimal.Signbit d)) || (Gen.Decimal.isInf o))) = false := by
    rw [hi, Bool.or_false, ← Enc.interp_neg]; exact hb
  rw [(case_late d o rm .nearestEven hz hb').1, (case_nan_right d o rm .nearestEven h1 hd ho).1]

end Props.C18
