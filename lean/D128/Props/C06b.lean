/-
  Property C06 (default text output is the shortest exact representation and round-trips) — the emitted TEXT.

  `D128/Props/C06.lean` proves that `Decimal.digits` produces exactly the digit record `Spec.sliceOf c e`.
  This file is about the bytes: `Gen.digits.fmtE`, `Gen.digits.fmtF`, `Gen.Decimal.appendSpecial`,
  `Gen.Decimal.String`, `Gen.Decimal.MarshalText`, `Gen.Append`, `Gen.Format` (generated from
  /repo/format.go into `D128/Gen/FormatText.lean`), for ALL 2^128 bit patterns.  Statements only; the
  proofs are in `D128/Proofs/Emit*.lean`.

  Vocabulary: `Emit.chars b` = the bytes of `b` read as characters (`Char.ofNat`, injective:
  `Emit.chars_inj`); `Emit.signS neg plus space` = `-`, or `+` / space on request; `Dg.WF`, `Dg.slice`,
  `Dg.ExpOK` as in C06/C07; `𝔳[d]` = `Spec.interp d.lo d.hi`.

  * `fmtE_spec`, `fmtF_spec`   : the two emitters print `Spec.layoutE` / `Spec.layoutF` of the record
        (any precision, flags `#`, `+`, space, padExp; every width that needs no padding, in particular 0):
        no panic, all loops terminate, the record is returned unchanged
  * `fmtE_spec_pad`, `fmtF_spec_pad`, `appendSpecial_spec` : the same for EVERY width and the flags `-`, `0`
        (`Emit.P.padS`: the padding of `Spec.fmtSpec`, `Emit.P.fmtSpec_pad_eq`); these are the calls made by
        `Decimal.format` / `Decimal.Append` (property C07)
  * `exponent_digits`          : the exponent part has two digits, three for |x| ≥ 100, four for |x| ≥ 1000
  * `string_spec`, `string_nan`, `string_inf`, `string_total`
  * `marshalText_spec`, `marshalText_nan`, `marshalText_inf`
  * `append_e`, `append_f`, `append_g`, `append_other`, `append_nan`, `append_inf`, `format_eq`
        (`Append buf d verb prec` with `prec < 0`; `Format d verb prec = Append nil d verb prec`)
  * `text_shape`               : the shortest text spelled out: `d.ddde±XX` / `ddd000` / `dd.ddd` / `0.000ddd`,
        positional iff −4 ≤ exponent of the leading digit ≤ 5; with `slice_shape`: the digits are those of the
        coefficient without leading and trailing zeros — no superfluous digit
  * `string_denotes`           : the text read by the grammar of the specification is `±n·10^sc` with the sign
        of `d` and EXACTLY the value of `d`
  * `string_roundtrip`, `marshalText_roundtrip` : `parse` (the common end of Parse, MustParse, UnmarshalText,
        Scan) of the text is, without error, a Decimal with the sign and value of `d` (`Val.same`), for every
        valid `DefaultRoundingMode` — unconditional (`Props.C05.parse_value` instantiated; the text has at most
        12500 bytes)
  * `string_roundtrip_equal`, `marshalText_roundtrip_equal` : the same with `Spec.equal` and equal sign bit
        (also −0 and zeros with any exponent)
  * `string_roundtrip_nan`, `string_roundtrip_inf`, `marshalText_roundtrip_nan`, `marshalText_roundtrip_inf` :
        NaN / ±Inf print as `NaN` / `+Inf` / `-Inf`, which parse back to a NaN / the same infinity
-/
import D128.Proofs.EmitRound
import D128.Proofs.EmitRoundFinal
import D128.Proofs.EmitPad
set_option autoImplicit false

namespace Props.C06b
open Emit

/-- the value a bit pattern denotes -/
local notation "𝔳[" d "]" => Spec.interp (Gen.Decimal.lo d) (Gen.Decimal.hi d)

/-! ## 1. the emitters -/

/-- **`fmtE` prints `Spec.layoutE`.**  `hfit`: the digits fit the precision (`round` was applied) or no
fraction is printed; `hz`: the empty record is normalised; `hx`: the exponent has at most four digits;
`hw`: no padding is needed (true for `width = 0`). -/
theorem fmtE_spec (d : Gen.digits) (buf : Go.Bytes) (prec width : Int64)
    (forceDP printSign padSign padExp padRight padZero : Bool) (e : UInt8)
    (hwf : Dg.WF d) (hz : d.ndig.toInt = 0 → d.exp.toInt = 0)
    (hx : -9999 ≤ d.exp.toInt ∧ d.exp.toInt + d.ndig.toInt ≤ 10000)
    (hfit : d.ndig.toInt ≤ prec.toInt + 1 ∨ prec.toInt ≤ 0)
    (hw0 : 0 ≤ width.toInt)
    (hw : width.toInt ≤ (signS d.neg printSign padSign ++ Spec.layoutE (Dg.slice d) prec.toInt.toNat
      forceDP (toChar e) (if padExp then 2 else 1)).length)
    (hsz : buf.size + (signS d.neg printSign padSign ++ Spec.layoutE (Dg.slice d) prec.toInt.toNat
      forceDP (toChar e) (if padExp then 2 else 1)).length < 2 ^ 63) :
    ∃ out, Gen.digits.fmtE d buf prec width forceDP printSign padSign padExp padRight padZero e =
        .ok (d, out) ∧
      chars out = chars buf ++ signS d.neg printSign padSign ++
        Spec.layoutE (Dg.slice d) prec.toInt.toNat forceDP (toChar e) (if padExp then 2 else 1) :=
  Emit.fmtE_spec d buf prec width forceDP printSign padSign padExp padRight padZero e hwf hz hx hfit hw0 hw hsz

/-- **`fmtF` prints `Spec.layoutF`.**  `hfit`: when a fraction is printed all digits of the record fit. -/
theorem fmtF_spec (d : Gen.digits) (buf : Go.Bytes) (prec width : Int64)
    (forceDP printSign padSign padRight padZero : Bool)
    (hwf : Dg.WF d) (hexp : Dg.ExpOK d) (hz : d.ndig.toInt = 0 → d.exp.toInt = 0)
    (hp62 : prec.toInt ≤ 2 ^ 62)
    (hfit : 0 < d.ndig.toInt → 0 < prec.toInt → -d.exp.toInt ≤ prec.toInt)
    (hw0 : 0 ≤ width.toInt)
    (hw : width.toInt ≤ (signS d.neg printSign padSign ++
      Spec.layoutF (Dg.slice d) prec.toInt.toNat forceDP).length)
    (hsz : buf.size + (signS d.neg printSign padSign ++
      Spec.layoutF (Dg.slice d) prec.toInt.toNat forceDP).length < 2 ^ 63) :
    ∃ out, Gen.digits.fmtF d buf prec width forceDP printSign padSign padRight padZero = .ok (d, out) ∧
      chars out = chars buf ++ signS d.neg printSign padSign ++
        Spec.layoutF (Dg.slice d) prec.toInt.toNat forceDP :=
  Emit.fmtF_spec d buf prec width forceDP printSign padSign padRight padZero hwf hexp hz hp62 hfit hw0 hw hsz

/-- **`fmtE` for every width**: sign and layout, padded to `width` with spaces on the right (`padRight`),
zeros after the sign (`padZero`) or spaces in front. -/
theorem fmtE_spec_pad (d : Gen.digits) (buf : Go.Bytes) (prec width : Int64)
    (forceDP printSign padSign padExp padRight padZero : Bool) (e : UInt8)
    (hwf : Dg.WF d) (hz : d.ndig.toInt = 0 → d.exp.toInt = 0)
    (hx : -9999 ≤ d.exp.toInt ∧ d.exp.toInt + d.ndig.toInt ≤ 10000)
    (hfit : d.ndig.toInt ≤ prec.toInt + 1 ∨ prec.toInt ≤ 0)
    (hw0 : 0 ≤ width.toInt) (hw : width.toInt < 2 ^ 61)
    (hsz : buf.size + (signS d.neg printSign padSign ++ Spec.layoutE (Dg.slice d) prec.toInt.toNat
      forceDP (toChar e) (if padExp then 2 else 1)).length < 2 ^ 61) :
    ∃ out, Gen.digits.fmtE d buf prec width forceDP printSign padSign padExp padRight padZero e =
        .ok (d, out) ∧
      chars out = chars buf ++ Emit.P.padS (signS d.neg printSign padSign)
        (Spec.layoutE (Dg.slice d) prec.toInt.toNat forceDP (toChar e) (if padExp then 2 else 1))
        width.toInt.toNat padRight padZero :=
  Emit.P.fmtE_spec_pad d buf prec width forceDP printSign padSign padExp padRight padZero e hwf hz hx hfit
    hw0 hw hsz

/-- **`fmtF` for every width.** -/
theorem fmtF_spec_pad (d : Gen.digits) (buf : Go.Bytes) (prec width : Int64)
    (forceDP printSign padSign padRight padZero : Bool)
    (hwf : Dg.WF d) (hexp : Dg.ExpOK d) (hz : d.ndig.toInt = 0 → d.exp.toInt = 0)
    (hp62 : prec.toInt ≤ 2 ^ 62)
    (hfit : 0 < d.ndig.toInt → 0 < prec.toInt → -d.exp.toInt ≤ prec.toInt)
    (hw0 : 0 ≤ width.toInt) (hw : width.toInt < 2 ^ 61)
    (hsz : buf.size + (signS d.neg printSign padSign ++
      Spec.layoutF (Dg.slice d) prec.toInt.toNat forceDP).length < 2 ^ 61) :
    ∃ out, Gen.digits.fmtF d buf prec width forceDP printSign padSign padRight padZero = .ok (d, out) ∧
      chars out = chars buf ++ Emit.P.padS (signS d.neg printSign padSign)
        (Spec.layoutF (Dg.slice d) prec.toInt.toNat forceDP) width.toInt.toNat padRight padZero :=
  Emit.P.fmtF_spec_pad d buf prec width forceDP printSign padSign padRight padZero hwf hexp hz hp62 hfit
    hw0 hw hsz

/-- **NaN and infinities for all flags and widths**: `NaN` / `+NaN` / ` NaN` / `-Inf` / `+Inf` / ` Inf`
(`Emit.specialText`), padded with spaces. -/
theorem appendSpecial_spec (d : Gen.Decimal) (buf : Go.Bytes) (width : Int64)
    (printSign padSign padRight : Bool) (hbuf : buf.size < 2 ^ 62) (hw0 : 0 ≤ width.toInt)
    (hw : width.toInt < 2 ^ 61) :
    Gen.Decimal.appendSpecial d buf width printSign padSign padRight = .ok (buf ++
      (if width.toInt.toNat ≤ (specialText d printSign padSign).size then specialText d printSign padSign
       else if padRight then specialText d printSign padSign ++
         Array.replicate (width.toInt.toNat - (specialText d printSign padSign).size) 32
       else Array.replicate (width.toInt.toNat - (specialText d printSign padSign).size) 32 ++
         specialText d printSign padSign)) :=
  Emit.appendSpecial_spec d buf width printSign padSign padRight hbuf hw0 hw

/-- **Exponent digits**: sign, then two digits, three when |x| ≥ 100, four when |x| ≥ 1000
(`1e+1000`, not `1e+:00`). -/
theorem exponent_digits (e : Char) (x : Int) (h : x.natAbs < 10000) :
    Spec.expStr e x 2 = e :: (if x < 0 then '-' else '+') ::
      (if x.natAbs < 10 then ['0', Spec.digitChar x.natAbs]
       else if x.natAbs < 100 then [Spec.digitChar (x.natAbs / 10), Spec.digitChar (x.natAbs % 10)]
       else if x.natAbs < 1000 then
         [Spec.digitChar (x.natAbs / 100), Spec.digitChar (x.natAbs / 10 % 10), Spec.digitChar (x.natAbs % 10)]
       else [Spec.digitChar (x.natAbs / 1000), Spec.digitChar (x.natAbs / 100 % 10),
         Spec.digitChar (x.natAbs / 10 % 10), Spec.digitChar (x.natAbs % 10)]) :=
  Emit.expStr_two e x h

example : Spec.expStr 'e' 1000 2 = "e+1000".toList := by decide
example : Spec.expStr 'e' (-6176) 2 = "e-6176".toList := by decide
example : Spec.expStr 'E' 7 2 = "E+07".toList := by decide

/-! ## 2. String, MarshalText, Append, Format -/

/-- **String of a finite Decimal** `(−1)^neg · c · 10^e` is the shortest text of the specification. -/
theorem string_spec (d : Gen.Decimal) (neg : Bool) (c : Nat) (e : Int) (hfin : 𝔳[d] = .fin neg c e) :
    ∃ out, Gen.Decimal.String d = .ok out ∧
      chars out = Spec.shortestG neg (Spec.sliceOf c e) 'e' ∧ out.size ≤ 12500 :=
  Emit.string_fin d neg c e hfin

theorem string_nan (d : Gen.Decimal) (n : Bool) (p : UInt64) (h : 𝔳[d] = .nan n p) :
    Gen.Decimal.String d = .ok (Go.str "NaN") := Emit.string_nan d n p h

theorem string_inf (d : Gen.Decimal) (n : Bool) (h : 𝔳[d] = .inf n) :
    Gen.Decimal.String d = .ok (if n then Go.str "-Inf" else Go.str "+Inf") := Emit.string_inf d n h

/-- no bit pattern makes `String` panic or loop -/
theorem string_total (d : Gen.Decimal) : ∃ out, Gen.Decimal.String d = .ok out := by
  cases h : 𝔳[d] with
  | nan n p => exact ⟨_, string_nan d n p h⟩
  | inf n => exact ⟨_, string_inf d n h⟩
  | fin n c e => obtain ⟨out, ho, _⟩ := string_spec d n c e h; exact ⟨out, ho⟩

/-- 123.45, 1.234567890123456789012345678901234e-07 (34 digits), -5e+20 -/
def ex1 : Gen.Decimal := ⟨12345, 3475653012423180288⟩
def ex2 : Gen.Decimal := ⟨16033479673939144690, 3454327840252598066⟩
def ex3 : Gen.Decimal := ⟨5, 12711409948253224960⟩
theorem ex1_val : 𝔳[ex1] = .fin false 12345 (-2) := by decide
theorem ex2_val : 𝔳[ex2] = .fin false 1234567890123456789012345678901234 (-40) := by decide
theorem ex3_val : 𝔳[ex3] = .fin true 5 20 := by decide

example := string_spec ex1 false 12345 (-2) ex1_val
example : Spec.shortestG false (Spec.sliceOf 12345 (-2)) 'e' = "123.45".toList := by decide
example : Spec.shortestG true (Spec.sliceOf 5 20) 'e' = "-5e+20".toList := by decide
example := string_nan ⟨0, 8935141660703064064⟩ false 0 (by decide)
example := string_inf ⟨0, 17870283321406128128⟩ true (by decide)

theorem marshalText_spec (d : Gen.Decimal) (neg : Bool) (c : Nat) (e : Int) (hfin : 𝔳[d] = .fin neg c e) :
    ∃ out, Gen.Decimal.MarshalText d = .ok (out, Go.Err.nil) ∧
      chars out = Spec.shortestG neg (Spec.sliceOf c e) 'e' ∧ out.size ≤ 12500 :=
  Emit.marshalText_fin d neg c e hfin

theorem marshalText_nan (d : Gen.Decimal) (n : Bool) (p : UInt64) (h : 𝔳[d] = .nan n p) :
    Gen.Decimal.MarshalText d = .ok (Go.str "NaN", Go.Err.nil) := Emit.marshalText_nan d n p h

theorem marshalText_inf (d : Gen.Decimal) (n : Bool) (h : 𝔳[d] = .inf n) :
    Gen.Decimal.MarshalText d = .ok (if n then Go.str "-Inf" else Go.str "+Inf", Go.Err.nil) :=
  Emit.marshalText_inf d n h

example := marshalText_spec ex2 false 1234567890123456789012345678901234 (-40) ex2_val

/-- `Append(buf, d, 'e' | 'E', −1)`: all digits in exponent form, appended to `buf` -/
theorem append_e (buf : Go.Bytes) (d : Gen.Decimal) (fmt : UInt8) (prec : Int64) (neg : Bool) (c : Nat)
    (e : Int) (hfin : 𝔳[d] = .fin neg c e) (hp : prec.toInt < 0) (hbuf : buf.size < 2 ^ 62)
    (hv : fmt = 101 ∨ fmt = 69) :
    ∃ out, Gen.Append buf d fmt prec = .ok out ∧
      chars out = chars buf ++ Spec.shortestE neg (Spec.sliceOf c e) (toChar fmt) :=
  Emit.append_e buf d fmt prec neg c e hfin hp hbuf hv

/-- `Append(buf, d, 'f', −1)`: all digits in positional form -/
theorem append_f (buf : Go.Bytes) (d : Gen.Decimal) (prec : Int64) (neg : Bool) (c : Nat)
    (e : Int) (hfin : 𝔳[d] = .fin neg c e) (hp : prec.toInt < 0) (hbuf : buf.size < 2 ^ 62) :
    ∃ out, Gen.Append buf d 102 prec = .ok out ∧
      chars out = chars buf ++ Spec.shortestF neg (Spec.sliceOf c e) :=
  Emit.append_f buf d prec neg c e hfin hp hbuf

/-- `Append(buf, d, 'g' | 'G', −1)`: the `%v` convention with exponent letter `e` / `E` -/
theorem append_g (buf : Go.Bytes) (d : Gen.Decimal) (fmt : UInt8) (prec : Int64) (neg : Bool) (c : Nat)
    (e : Int) (hfin : 𝔳[d] = .fin neg c e) (hp : prec.toInt < 0) (hbuf : buf.size < 2 ^ 62)
    (hv : fmt = 103 ∨ fmt = 71) :
    ∃ out, Gen.Append buf d fmt prec = .ok out ∧
      chars out = chars buf ++
        Spec.shortestG neg (Spec.sliceOf c e) (if fmt = 71 then 'E' else 'e') :=
  Emit.append_g buf d fmt prec neg c e hfin hp hbuf hv

/-- every other verb (also `'F'`, as in strconv): `%` and the verb -/
theorem append_other (buf : Go.Bytes) (d : Gen.Decimal) (fmt : UInt8) (prec : Int64)
    (hs : Gen.Decimal.isSpecial d = false) (hp : prec.toInt < 0)
    (hv : fmt ≠ 101 ∧ fmt ≠ 69 ∧ fmt ≠ 102 ∧ fmt ≠ 103 ∧ fmt ≠ 71) :
    Gen.Append buf d fmt prec = .ok ((buf.push 37).push fmt) :=
  Emit.append_other buf d fmt prec hs hp hv

theorem append_nan (buf : Go.Bytes) (d : Gen.Decimal) (fmt : UInt8) (prec : Int64) (n : Bool) (p : UInt64)
    (h : 𝔳[d] = .nan n p) (hbuf : buf.size < 2 ^ 62) :
    Gen.Append buf d fmt prec = .ok (buf ++ Go.str "NaN") := by
  obtain ⟨hs, hb⟩ := Emit.special_nan d n p h
  rw [Emit.append_special buf d fmt prec hs hbuf, hb]

theorem append_inf (buf : Go.Bytes) (d : Gen.Decimal) (fmt : UInt8) (prec : Int64) (n : Bool)
    (h : 𝔳[d] = .inf n) (hbuf : buf.size < 2 ^ 62) :
    Gen.Append buf d fmt prec = .ok (buf ++ if n then Go.str "-Inf" else Go.str "+Inf") := by
  obtain ⟨hs, hb⟩ := Emit.special_inf d n h
  rw [Emit.append_special buf d fmt prec hs hbuf, hb]

/-- `Format(d, verb, prec)` is `Append(nil, d, verb, prec)` -/
theorem format_eq (d : Gen.Decimal) (fmt : UInt8) (prec : Int64) :
    Gen.Format d fmt prec = Gen.Append #[] d fmt prec := Emit.format_eq d fmt prec

example := append_g (Go.str "x=") ex3 71 (-1) true 5 20 ex3_val (by decide) (by decide) (Or.inr rfl)
example := append_e #[] ex1 101 (-1) false 12345 (-2) ex1_val (by decide) (by decide) (Or.inl rfl)
example := append_f #[] ex2 (-1) false 1234567890123456789012345678901234 (-40) ex2_val (by decide) (by decide)

/-- the hypotheses of `fmtE_spec_pad` are satisfiable: `%+012.6e` of 123.45 (digit record from `digits`) -/
example : ∃ r out, Gen.Decimal.digits_ ex1 default = .ok r ∧
    Gen.digits.fmtE r #[] 6 12 false true false true false true 101 = .ok (r, out) ∧
    chars out = "+1.234500e+02".toList := by
  obtain ⟨r, hr, hneg, hwf, hsl, hz, hx0, hx1⟩ := Emit.digits_fin ex1 default false 12345 (-2) ex1_val
  have hs : Spec.sliceOf 12345 (-2) = ⟨[1, 2, 3, 4, 5], 3⟩ := by decide
  have hn : r.ndig.toInt = 5 := by
    have h1 : (Dg.slice r).ds.length = 5 := by rw [hsl, hs]; rfl
    have h2 : (Dg.slice r).ds.length = r.ndig.toInt.toNat := Dg.msd_length _ _
    have := hwf.n0
    omega
  have h6 : (6 : Int64).toInt = 6 := by decide
  have h12 : (12 : Int64).toInt = 12 := by decide
  obtain ⟨out, ho, hco⟩ := fmtE_spec_pad r #[] 6 12 false true false true false true 101 hwf hz
    (by omega) (Or.inl (by rw [hn, h6]; omega)) (by rw [h12]; omega) (by rw [h12]; omega)
    (by rw [hsl, hs, hneg, h6]; decide)
  refine ⟨r, out, hr, ho, ?_⟩
  rw [hco, hsl, hs, hneg, h6, h12]
  decide

/-! ## 3. what the text is, and what it denotes -/

/-- **The digits** of a non-zero coefficient: `Spec.sliceOf c e = ⟨M, |M| + k + e⟩` where `M` has digits
below ten, no leading and no trailing zero, and `c = M·10^k` — the digits of `c` without its `k` trailing
zeros. -/
theorem slice_shape (c : Nat) (e : Int) (hc : c ≠ 0) :
    ∃ (M : List Nat) (k : Nat), Spec.sliceOf c e = ⟨M, (M.length : Int) + k + e⟩ ∧ M ≠ [] ∧
      (∀ x ∈ M, x < 10) ∧ M.head? ≠ some 0 ∧ M.getLast? ≠ some 0 ∧ c = Dg.ofMsd M * 10 ^ k :=
  Emit.sliceOf_props c e hc

/-- **The text spelled out** (sign apart).  With `dp` digits before the point (`dp − 1` = exponent of the
leading digit): exponent form `d[.ddd]e±XX` iff `dp − 1 < −4` or `dp − 1 ≥ 6`; otherwise positional —
all digits and `dp − |M|` zeros; or the point inside the digits; or `0.`, `−dp` zeros and all digits.
Every digit of `M` appears exactly once and nothing else but place-holding zeros: no superfluous digit. -/
theorem text_shape (M : List Nat) (dp : Int) (hne : M ≠ []) (e : Char) :
    Spec.shortestG false ⟨M, dp⟩ e =
      if dp - 1 < -4 ∨ dp - 1 ≥ 6 then
        Spec.digitsStr (M.take 1) ++ (if M.length = 1 then [] else '.' :: Spec.digitsStr (M.drop 1)) ++
          Spec.expStr e (dp - 1) 2
      else if (M.length : Int) ≤ dp then Spec.digitsStr (M ++ List.replicate (dp.toNat - M.length) 0)
      else if 0 < dp then Spec.digitsStr (M.take dp.toNat) ++ '.' :: Spec.digitsStr (M.drop dp.toNat)
      else '0' :: '.' :: Spec.digitsStr (List.replicate (-dp).toNat 0 ++ M) := by
  rw [Emit.shortestG_eq]
  exact Emit.shortest_shape (-4) 6 2 M dp hne e

/-- zero prints as `0` (`-0` when negative), whatever its exponent -/
theorem text_zero (neg : Bool) (e : Int) (ech : Char) :
    Spec.shortestG neg (Spec.sliceOf 0 e) ech = (if neg then ['-'] else []) ++ ['0'] := rfl

/-- **The emitted text denotes `d` exactly.**  Read with the grammar of the specification (with or without
separators / names) the text of a finite `d = (−1)^neg · c · 10^e` is a numeral `±n·10^sc` with the sign
of `d` and `n·10^sc = c·10^e`. -/
theorem string_denotes (d : Gen.Decimal) (neg : Bool) (c : Nat) (e : Int) (hfin : 𝔳[d] = .fin neg c e)
    (sep names : Bool) :
    ∃ out n sc, Gen.Decimal.String d = .ok out ∧
      Spec.readLiteral sep names (chars out) = some (.num neg n sc) ∧
      (n : ℚ) * (10 : ℚ) ^ sc = (c : ℚ) * (10 : ℚ) ^ e ∧ Spec.mag n sc = Spec.mag c e := by
  obtain ⟨out, ho, hco, _⟩ := string_spec d neg c e hfin
  rw [Emit.shortestG_eq] at hco
  obtain ⟨n, sc, hr, hv⟩ := Emit.shortest_readLiteral sep names (-4) 6 2 neg c e 'e' (Or.inl rfl)
  refine ⟨out, n, sc, ho, by rw [hco]; exact hr, hv, ?_⟩
  rw [Emit.mag_eq_zpow, Emit.mag_eq_zpow, hv]

example := string_denotes ex2 false 1234567890123456789012345678901234 (-40) ex2_val true true

/-! ## 4. round trip -/

/-- **Text is a lossless interchange form.**  `parse` (the common end of Parse, MustParse, UnmarshalText and
Scan) of `String d` returns, without error, a Decimal with the sign and the value of `d` (`Val.same`: equal
as numbers, same sign also on zero) — for every valid default rounding mode. -/
theorem string_roundtrip (g : Globals) (op : UInt64) (m : Spec.Mode)
    (hm : Spec.Mode.ofNat? g.DefaultRoundingMode.toNat = some m) (d : Gen.Decimal) (neg : Bool)
    (c : Nat) (e : Int) (hfin : 𝔳[d] = .fin neg c e) :
    ∃ out v, Gen.Decimal.String d = .ok out ∧ Gen.parse g out op = .ok (v, Go.Err.nil) ∧
      (𝔳[v]).same (𝔳[d]) = true :=
  Emit.string_parse_rt g op m hm d neg c e hfin

theorem marshalText_roundtrip (g : Globals) (op : UInt64) (m : Spec.Mode)
    (hm : Spec.Mode.ofNat? g.DefaultRoundingMode.toNat = some m) (d : Gen.Decimal) (neg : Bool)
    (c : Nat) (e : Int) (hfin : 𝔳[d] = .fin neg c e) :
    ∃ out v, Gen.Decimal.MarshalText d = .ok (out, Go.Err.nil) ∧
      Gen.parse g out op = .ok (v, Go.Err.nil) ∧ (𝔳[v]).same (𝔳[d]) = true :=
  Emit.marshalText_parse_rt g op m hm d neg c e hfin

/-- **C06, last sentence**: feeding the text of a finite `d` back yields a Decimal that is `Equal` to `d`
(`Spec.equal`) with the same sign — also for −0 and for zeros with any exponent. -/
theorem string_roundtrip_equal (g : Globals) (op : UInt64) (m : Spec.Mode)
    (hm : Spec.Mode.ofNat? g.DefaultRoundingMode.toNat = some m) (d : Gen.Decimal) (neg : Bool)
    (c : Nat) (e : Int) (hfin : 𝔳[d] = .fin neg c e) :
    ∃ out v, Gen.Decimal.String d = .ok out ∧ Gen.parse g out op = .ok (v, Go.Err.nil) ∧
      Spec.equal (𝔳[v]) (𝔳[d]) = true ∧ (𝔳[v]).neg = (𝔳[d]).neg ∧ (𝔳[v]).isFin = true :=
  Emit.string_parse_equal g op m hm d neg c e hfin

theorem marshalText_roundtrip_equal (g : Globals) (op : UInt64) (m : Spec.Mode)
    (hm : Spec.Mode.ofNat? g.DefaultRoundingMode.toNat = some m) (d : Gen.Decimal) (neg : Bool)
    (c : Nat) (e : Int) (hfin : 𝔳[d] = .fin neg c e) :
    ∃ out v, Gen.Decimal.MarshalText d = .ok (out, Go.Err.nil) ∧
      Gen.parse g out op = .ok (v, Go.Err.nil) ∧
      Spec.equal (𝔳[v]) (𝔳[d]) = true ∧ (𝔳[v]).neg = (𝔳[d]).neg ∧ (𝔳[v]).isFin = true :=
  Emit.marshalText_parse_equal g op m hm d neg c e hfin

/-- negative zero with exponent 20, mode toNegInf (4) -/
example := string_roundtrip_equal ⟨4⟩ 0 .toNegInf rfl ⟨0, 12711409948253224960⟩ true 0 20 (by decide)
example := string_roundtrip_equal ⟨0⟩ 0 .nearestEven rfl ex2 false 1234567890123456789012345678901234 (-40)
  ex2_val

/-- NaN prints as `NaN`, which parses back to a NaN -/
theorem string_roundtrip_nan (g : Globals) (op : UInt64) (d : Gen.Decimal) (n : Bool) (p : UInt64)
    (h : 𝔳[d] = .nan n p) :
    ∃ v, Gen.Decimal.String d = .ok (Go.str "NaN") ∧ Gen.parse g (Go.str "NaN") op = .ok (v, Go.Err.nil) ∧
      (𝔳[v]).isNaN = true :=
  Emit.string_parse_nan g op d n p h

/-- ±Inf prints as `+Inf` / `-Inf`, which parses back to the same infinity -/
theorem string_roundtrip_inf (g : Globals) (op : UInt64) (d : Gen.Decimal) (n : Bool) (h : 𝔳[d] = .inf n) :
    ∃ out v, Gen.Decimal.String d = .ok out ∧ out = (if n then Go.str "-Inf" else Go.str "+Inf") ∧
      Gen.parse g out op = .ok (v, Go.Err.nil) ∧ 𝔳[v] = 𝔳[d] :=
  Emit.string_parse_inf g op d n h

theorem marshalText_roundtrip_nan (g : Globals) (op : UInt64) (d : Gen.Decimal) (n : Bool) (p : UInt64)
    (h : 𝔳[d] = .nan n p) :
    ∃ v, Gen.Decimal.MarshalText d = .ok (Go.str "NaN", Go.Err.nil) ∧
      Gen.parse g (Go.str "NaN") op = .ok (v, Go.Err.nil) ∧ (𝔳[v]).isNaN = true :=
  Emit.marshalText_parse_nan g op d n p h

theorem marshalText_roundtrip_inf (g : Globals) (op : UInt64) (d : Gen.Decimal) (n : Bool)
    (h : 𝔳[d] = .inf n) :
    ∃ out v, Gen.Decimal.MarshalText d = .ok (out, Go.Err.nil) ∧
      out = (if n then Go.str "-Inf" else Go.str "+Inf") ∧
      Gen.parse g out op = .ok (v, Go.Err.nil) ∧ 𝔳[v] = 𝔳[d] :=
  Emit.marshalText_parse_inf g op d n h

end Props.C06b
