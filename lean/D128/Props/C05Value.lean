/-
  C05 — the parsed VALUE of every well-formed literal (scan.go: `parseNumber`, `parse`), and the headline of
  C05: for every byte string shorter than the bound, `parse` = specification.

  All theorems are about the generated definitions `Gen.parseNumber` / `Gen.parse`, for every input of at most
  `2^58 − 6216` bytes (in particular every `d.size < 2^57`) and a valid default rounding mode `m`.  No hypothesis
  about `reduce128`: that the one call `parseNumber` makes returns is `D128.Proofs.Total.reduce128_total`, and what
  it returns is `reduce128_correct`.

  * `Props.C05.parseNumber_value`   an accepted numeral with literal value `n·10^sc` (`Spec.readNumber`): `parseNumber`
                                    returns the Decimal denoting `Spec.literalValue m neg n sc` — zero for `n = 0`,
                                    otherwise `Spec.flushOrRoundS m neg n sc` — and `parseNumberRangeError`
                                    exactly when that value is infinite, `nil` otherwise
  * `Props.C05.parseNumber_value_bound_necessary`   a length bound is necessary (no real input): on
                                    `"0." ++ 2^58 zeros ++ "1e2882303761517117440"` the specification demands `±Inf`
                                    and the range error but `parseNumber` returns a finite value and `nil`
  * `Props.C05.parseNumber_spec`    `parseNumber` = specification on every input (rejected ones included)
  * `Props.C05.parse_value`         the same through `parse` (sign, separators; names are not numerals)
  * `Props.C05.parse_spec`          **headline** `parse` = `Spec.readLiteral` + `Spec.literalValue` on every input:
                                    syntax error / ±Inf / NaN / correctly rounded value + range error
  * `Props.C05.parse_spec_of_lt`    the same for `d.size < 2^57`
-/
import D128.Props.C05
import D128.Proofs.ParseLongTop
import D128.Proofs.ParseLongBound

namespace Props.C05

open Parse

local notation "𝔳[" d "]" => Spec.interp (Gen.Decimal.lo d) (Gen.Decimal.hi d)

/-- **C05.5** the value of every accepted numeral.  Let `Spec.readNumber` read the input as the literal
    `n · 10^sc` (all significand digits as one number, written exponent minus number of fraction digits;
    leading zeros, separators, any number of digits).  Then `parseNumber` terminates without panic and
    returns
    * a Decimal whose value is `Spec.literalValue m neg n sc`: the zero of sign `neg` when `n = 0`, and
      otherwise the member of the format that the default rounding mode `m` selects for the exact value
      (`Spec.flushOrRoundS`: a signed zero below `10^-6177`, `±Inf` beyond the largest finite Decimal), and
    * the error `parseNumberRangeError` exactly when that value is `±Inf`, `nil` otherwise.

    The length bound: the written exponent saturates at `2^58` ("any exponent this large is out of range
    whatever the significand is"), which is true as long as the significand has fewer than `2^58 − 6215` digits;
    see `parseNumber_value_bound_necessary`.  (Within the bound the `int` arithmetic `exp -= nfrac` cannot wrap:
    `exp ≤ 10·2^58 + 9` and `|nfrac| ≤ len d`.) -/
theorem parseNumber_value (g : Globals) (d : Go.Bytes) (neg sep : Bool) (m : Spec.Mode)
    (hm : Spec.Mode.ofNat? g.DefaultRoundingMode.toNat = some m) (hsz : d.size + 6216 ≤ 2 ^ 58)
    (n : Nat) (sc : Int) (h : Spec.readNumber sep (chars d) = some (n, sc)) :
    ∃ v e, Gen.parseNumber g d neg sep = .ok (v, e) ∧
      (𝔳[v]).same (Spec.literalValue m neg n sc).1 = true ∧
      e = (if (Spec.literalValue m neg n sc).2 then Go.Err.parseNumberRangeError else Go.Err.nil) :=
  ParseLong.parseNumber_value' g d neg sep m hm hsz n sc h

/-- a 58-digit numeral with a separator, a fraction and an exponent: a tie at the 34/35-digit boundary
    (`…345|5000…`) broken by a non-zero digit far behind, beyond the 128-bit accumulator -/
def exNumeral : Go.Bytes :=
  "1_234.567890123456789012345678901234550000000000000000000001e-3".toUTF8.data

/-- the hypotheses of `parseNumber_value` are satisfiable on `exNumeral` -/
example :=
  parseNumber_value ⟨0⟩ exNumeral false true .nearestEven rfl (by decide)
    1234567890123456789012345678901234550000000000000000000001 (-57) (by decide)

/-- `parseNumber_value` does not hold without a length bound of the order of `2^58` (no real input is that long):
    there is an accepted numeral of `2^58 + 23` bytes — `"0." ++ 2^58 zeros ++ "1e2882303761517117440"`, the literal
    `1 · 10^(10·2^58 − 2^58 − 1)` — for which the specification demands `±Inf` and the range error (every
    rounding mode), but `parseNumber` returns a finite Decimal and `nil`: the written exponent saturates at
    `2^58` and cancels against the `2^58 + 1` fraction digits.  (With the earlier saturation bound `10^9` this was
    a real defect: `Parse` of the 1 GB input `"0." ++ 10^9 zeros ++ "1e10000000000"` returned `0.1, nil`.) -/
theorem parseNumber_value_bound_necessary (g : Globals) (neg sep : Bool) (m : Spec.Mode)
    (hm : Spec.Mode.ofNat? g.DefaultRoundingMode.toNat = some m) :
    ∃ d : Go.Bytes, d.size = 2 ^ 58 + 23 ∧
      ∃ (n : Nat) (sc : Int), Spec.readNumber sep (chars d) = some (n, sc) ∧
        Spec.literalValue m neg n sc = (.inf neg, true) ∧
        ∃ v, Gen.parseNumber g d neg sep = .ok (v, Go.Err.nil) ∧ (𝔳[v]).isInf = false :=
  ParseLong.parseNumber_value_bound_necessary g neg sep m hm

/-- **C05.2 + C05.5** `parseNumber` against the specification on every input: a syntax error (with the zero
    value `Decimal{}`) exactly on the inputs `Spec.readNumber` rejects, the literal value otherwise. -/
theorem parseNumber_spec (g : Globals) (d : Go.Bytes) (neg sep : Bool) (m : Spec.Mode)
    (hm : Spec.Mode.ofNat? g.DefaultRoundingMode.toNat = some m) (hsz : d.size + 6216 ≤ 2 ^ 58) :
    match Spec.readNumber sep (chars d) with
    | none => Gen.parseNumber g d neg sep = .ok ((default : Gen.Decimal), Go.Err.parseNumberSyntaxError)
    | some (n, sc) =>
      ∃ v e, Gen.parseNumber g d neg sep = .ok (v, e) ∧
        (𝔳[v]).same (Spec.literalValue m neg n sc).1 = true ∧
        e = (if (Spec.literalValue m neg n sc).2 then Go.Err.parseNumberRangeError else Go.Err.nil) := by
  cases h : Spec.readNumber sep (chars d) with
  | none => exact ParseLong.parseNumber_reject' g d neg sep (by omega) h
  | some v =>
    obtain ⟨n, sc⟩ := v
    exact parseNumber_value g d neg sep m hm hsz n sc h

/-- **C05.5b** the value through `parse`: an optionally signed numeral (separators allowed). -/
theorem parse_value (g : Globals) (d : Go.Bytes) (op : UInt64) (m : Spec.Mode)
    (hm : Spec.Mode.ofNat? g.DefaultRoundingMode.toNat = some m) (hsz : d.size + 6216 ≤ 2 ^ 58)
    (neg : Bool) (n : Nat) (sc : Int)
    (h : Spec.readLiteral true true (chars d) = some (.num neg n sc)) :
    ∃ v e, Gen.parse g d op = .ok (v, e) ∧
      (𝔳[v]).same (Spec.literalValue m neg n sc).1 = true ∧
      e = (if (Spec.literalValue m neg n sc).2 then Go.Err.parseRangeError else Go.Err.nil) :=
  ParseLong.parse_value' g d op m hm hsz neg n sc h

/-- the hypotheses of `parse_value` are satisfiable: the negative of `exNumeral` -/
example :=
  parse_value ⟨3⟩ "-1_234.567890123456789012345678901234550000000000000000000001e-3".toUTF8.data 6
    .awayFromZero rfl (by decide) true 1234567890123456789012345678901234550000000000000000000001 (-57)
    (by decide)

/-- **C05 (headline)** `parse` = specification, on every input of at most `2^58 − 6216` bytes: what `Spec.readLiteral`
    (the documented syntax, separators and names allowed) says about the input determines the result. -/
theorem parse_spec (g : Globals) (d : Go.Bytes) (op : UInt64) (m : Spec.Mode)
    (hm : Spec.Mode.ofNat? g.DefaultRoundingMode.toNat = some m) (hsz : d.size + 6216 ≤ 2 ^ 58) :
    match Spec.readLiteral true true (chars d) with
    | none => Gen.parse g d op = .ok ((default : Gen.Decimal), Go.Err.parseSyntaxError)
    | some (.inf neg) => Gen.parse g d op = .ok (Gen.inf neg, Go.Err.nil)
    | some (.nan _) => Gen.parse g d op = .ok (Gen.nan op 0 0, Go.Err.nil)
    | some (.num neg n sc) =>
      ∃ v e, Gen.parse g d op = .ok (v, e) ∧
        (𝔳[v]).same (Spec.literalValue m neg n sc).1 = true ∧
        e = (if (Spec.literalValue m neg n sc).2 then Go.Err.parseRangeError else Go.Err.nil) := by
  have hsz' : d.size < 2 ^ 63 := by omega
  cases h : Spec.readLiteral true true (chars d) with
  | none =>
    show Gen.parse g d op = _
    rw [Parse.parse_eq g d op hsz']
    exact ParseLong.parseM_reject g op d.toList (by simpa using hsz') h
  | some l =>
    cases l with
    | inf neg => exact (parse_names g d op hsz').1 neg h
    | nan sg => exact (parse_names g d op hsz').2 sg h
    | num neg n sc => exact parse_value g d op m hm hsz neg n sc h

/-- **C05 (headline)** for every byte string shorter than `2^57`. -/
theorem parse_spec_of_lt (g : Globals) (d : Go.Bytes) (op : UInt64) (m : Spec.Mode)
    (hm : Spec.Mode.ofNat? g.DefaultRoundingMode.toNat = some m) (hsz : d.size < 2 ^ 57) :
    match Spec.readLiteral true true (chars d) with
    | none => Gen.parse g d op = .ok ((default : Gen.Decimal), Go.Err.parseSyntaxError)
    | some (.inf neg) => Gen.parse g d op = .ok (Gen.inf neg, Go.Err.nil)
    | some (.nan _) => Gen.parse g d op = .ok (Gen.nan op 0 0, Go.Err.nil)
    | some (.num neg n sc) =>
      ∃ v e, Gen.parse g d op = .ok (v, e) ∧
        (𝔳[v]).same (Spec.literalValue m neg n sc).1 = true ∧
        e = (if (Spec.literalValue m neg n sc).2 then Go.Err.parseRangeError else Go.Err.nil) :=
  parse_spec g d op m hm (by omega)

end Props.C05
