/-
  Property C04: the comparison routines agree with the exact mathematical order of the denoted
  values, for ALL bit patterns (2^128 per operand); in particular they never panic (except the
  documented panic of `Sign` on NaN).

  Statements only; the proofs assemble lemmas of `D128/Proofs/Cmp*.lean`.  Every theorem is about
  the generated definitions `Gen.*` (translation of /repo/compare.go and /repo/decimal.go) and the
  specification `Spec.*` (D128/Spec/Arith.lean) over `Spec.interp d.lo d.hi`.

  * `cmp_correct`, `cmpAbs_correct`, `equal_correct`, `compare_correct`
  * `isZero_correct`, `sign_correct`, `sign_panics_iff_nan`
  * `min_correct`, `max_correct`
  * corollaries: `cmp_encoding_independent`, `cmp_antisymm`, `cmp_greater_iff_less_swapped`,
    `cmp_equal_symm`, `cmp_less_trans`, `spec_cmp_less_trans`
-/
import D128.Proofs.Cmp
set_option autoImplicit false

namespace Props.C04

/-- the value a bit pattern denotes -/
local notation "𝔳[" d "]" => Spec.interp (Gen.Decimal.lo d) (Gen.Decimal.hi d)

/-! ## 1. `Cmp` -/

/-- `Cmp` never panics and returns the specified result for all 2^256 pairs of bit patterns. -/
theorem cmp_correct (d o : Gen.Decimal) :
    Gen.Decimal.Cmp d o = .ok (Int8.ofInt (Spec.cmp 𝔳[d] 𝔳[o])) :=
  CmpPf.Cmp_correct d o

/-! ## 2. `CmpAbs`, `Equal` -/

theorem cmpAbs_correct (d o : Gen.Decimal) :
    Gen.Decimal.CmpAbs d o = .ok (Int8.ofInt (Spec.cmpAbs 𝔳[d] 𝔳[o])) :=
  CmpPf.CmpAbs_correct d o

theorem equal_correct (d o : Gen.Decimal) :
    Gen.Decimal.Equal d o = .ok (Spec.equal 𝔳[d] 𝔳[o]) :=
  CmpPf.Equal_correct d o

/-! ## 3. `Compare`, `IsZero`, `Sign`, `Min`, `Max` -/

theorem compare_correct (d o : Gen.Decimal) :
    Gen.Compare d o = .ok (Int64.ofInt (Spec.compare 𝔳[d] 𝔳[o])) :=
  CmpPf.Compare_correct d o

theorem isZero_correct (d : Gen.Decimal) : Gen.Decimal.IsZero d = Spec.isZero 𝔳[d] :=
  CmpPf.IsZero_correct d

/-- `Sign` panics with its documented message exactly when the specification says `none` (NaN), and
    otherwise returns the specified sign. -/
theorem sign_correct (d : Gen.Decimal) :
    Gen.Decimal.Sign d =
      match Spec.sign 𝔳[d] with
      | none => .error (.explicit "Decimal(NaN).Sign()")
      | some s => .ok (Int64.ofInt s) := by
  rw [CmpPf.Sign_correct]
  cases Spec.sign 𝔳[d] <;> rfl

theorem sign_panics_iff_nan (d : Gen.Decimal) :
    (∃ msg, Gen.Decimal.Sign d = .error (.explicit msg)) ↔ 𝔳[d].isNaN = true :=
  CmpPf.Sign_error_iff d

/-- `Min` never panics; its result denotes `Spec.minVal` (same class, sign and value). -/
theorem min_correct (d o : Gen.Decimal) :
    ∃ r, Gen.Min d o = .ok r ∧ Spec.Val.same 𝔳[r] (Spec.minVal 𝔳[d] 𝔳[o]) = true :=
  CmpPf.Min_correct d o

theorem max_correct (d o : Gen.Decimal) :
    ∃ r, Gen.Max d o = .ok r ∧ Spec.Val.same 𝔳[r] (Spec.maxVal 𝔳[d] 𝔳[o]) = true :=
  CmpPf.Max_correct d o

/-! ## 4. Corollaries -/

/-- Encoding independence: members of the same cohort (and differently signed/payloaded NaNs are
    NOT identified by `Val.same`, but any NaN gives -2) compare alike. -/
theorem cmp_encoding_independent (d d' o o' : Gen.Decimal)
    (hd : Spec.Val.same 𝔳[d] 𝔳[d'] = true) (ho : Spec.Val.same 𝔳[o] 𝔳[o'] = true) :
    Gen.Decimal.Cmp d o = Gen.Decimal.Cmp d' o' :=
  CmpPf.Cmp_congr d d' o o' hd ho

/-- Antisymmetry: swapping the operands negates the result (unordered stays unordered). -/
theorem cmp_antisymm (d o : Gen.Decimal) :
    Gen.Decimal.Cmp o d =
      .ok (Int8.ofInt (if Spec.cmp 𝔳[d] 𝔳[o] = -2 then -2 else -(Spec.cmp 𝔳[d] 𝔳[o]))) :=
  CmpPf.Cmp_swap d o

theorem cmp_greater_iff_less_swapped (d o : Gen.Decimal) :
    Gen.Decimal.Cmp d o = .ok 1 ↔ Gen.Decimal.Cmp o d = .ok (-1) := by
  have e1 : (1 : Int8) = Int8.ofInt 1 := by decide
  have e2 : (-1 : Int8) = Int8.ofInt (-1) := by decide
  rw [e2, e1, CmpPf.Cmp_eq_iff _ _ _ (by decide), CmpPf.Cmp_eq_iff _ _ _ (by decide),
    CmpPf.spec_cmp_antisymm 𝔳[d] 𝔳[o]]
  rcases CmpPf.spec_cmp_range 𝔳[d] 𝔳[o] with h | h | h | h <;> rw [h] <;> decide

theorem cmp_equal_symm (d o : Gen.Decimal) :
    Gen.Decimal.Cmp d o = .ok 0 ↔ Gen.Decimal.Cmp o d = .ok 0 := by
  have e1 : (0 : Int8) = Int8.ofInt 0 := by decide
  rw [e1, CmpPf.Cmp_eq_iff _ _ _ (by decide), CmpPf.Cmp_eq_iff _ _ _ (by decide),
    CmpPf.spec_cmp_antisymm 𝔳[d] 𝔳[o]]
  rcases CmpPf.spec_cmp_range 𝔳[d] 𝔳[o] with h | h | h | h <;> rw [h] <;> decide

/-- Transitivity of "less" as reported by the generated `Cmp` (NaNs never compare less). -/
theorem cmp_less_trans (d o p : Gen.Decimal)
    (h1 : Gen.Decimal.Cmp d o = .ok (-1)) (h2 : Gen.Decimal.Cmp o p = .ok (-1)) :
    Gen.Decimal.Cmp d p = .ok (-1) :=
  CmpPf.Cmp_lt_trans d o p h1 h2

/-- Transitivity of `Spec.cmp`-less on the specification side. -/
theorem spec_cmp_less_trans (x y z : Spec.Val)
    (h1 : Spec.cmp x y = -1) (h2 : Spec.cmp y z = -1) : Spec.cmp x z = -1 :=
  CmpPf.spec_cmp_lt_trans x y z h1 h2

end Props.C04
