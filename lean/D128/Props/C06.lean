/-
  Property C06 (shortest exact text output) — the digit-string core.

  `Gen.Decimal.digits_` (Go: `func (d Decimal) digits(digs *digits)`, /repo/format.go:320) is the
  single source of digits of every text form (String, MarshalText, %v, Format/Append with any verb).
  Statements only; the proofs assemble `D128/Proofs/DigitsGen.lean` (a Hoare-triple proof over the
  generated loops, `Dg.digits_triple`) and `D128/Proofs/Digits.lean`.

  Vocabulary (defined in `D128/Proofs/Digits.lean`):
  * `Dg.at_ v t`   = `v[t]?.getD 0`, total read of a byte array;
  * `Dg.WF r`      : `0 ≤ ndig ≤ 39`, `dig[0..ndig)` are ASCII digits, `dig[0] ≠ '0'`, `dig[ndig-1] ≠ '0'`;
  * `Dg.slice r`   : the `Spec.Slice` ⟨digit values of `dig[0..ndig)`, `exp + ndig`⟩ (the record's `exp`
                     is the exponent of the LAST digit) — see `slice_plain` below for the plain reading;
  * `Dg.ofMsd L`   : the number written by the digit list `L` (most significant first).

  * `digits_spec`        : for every finite `d`: no panic, termination, sign, well-formed record,
                           and the record denotes exactly `Spec.sliceOf c e` (all digits of the
                           coefficient without trailing zeros, decimal point position)
  * `digits_spec_zero`, `digits_spec_nonzero` : the two cases spelled out
  * `digits_value`       : digits-as-number × 10^(stripped zeros) = coefficient, `exp = e + stripped`
  * `digits_total`       : totality for ALL 2^128 bit patterns (NaN/Inf included) and any `digs` (C20)
  * `slice_plain`        : `Dg.slice` in plain `Vector.toList` terms
-/
import D128.Proofs.DigitsGen
set_option autoImplicit false

namespace Props.C06

/-- the value a bit pattern denotes -/
local notation "𝔳[" d "]" => Spec.interp (Gen.Decimal.lo d) (Gen.Decimal.hi d)

private theorem fin_fields (d : Gen.Decimal) (neg : Bool) (c : Nat) (e : Int)
    (hfin : 𝔳[d] = .fin neg c e) :
    Gen.Decimal.Signbit d = neg ∧ (Gen.Decimal.decompose d).1.toNat = c ∧
      (Gen.Decimal.decompose d).2.toInt - 6176 = e := by
  have hs : Gen.Decimal.isSpecial d = false := by
    have := Enc.interp_isFin d
    rw [hfin] at this
    simpa [Spec.Val.isFin] using this.symm
  have := Enc.interp_decompose d hs
  rw [hfin] at this
  injection this with h1 h2 h3
  exact ⟨h1.symm, h2.symm, h3.symm⟩

/-- **Digit extraction is exact.**  For every finite `d = (−1)^neg · c · 10^e` and every initial
contents of `digs`, `digits` terminates without panic (in particular no index leaves `dig[0..39)`),
sets the sign, and leaves a well-formed record whose digit string and decimal point are exactly those
of the specification slice: the decimal digits of `c` with the trailing zeros removed. -/
theorem digits_spec (d : Gen.Decimal) (digs : Gen.digits) (neg : Bool) (c : Nat) (e : Int)
    (hfin : 𝔳[d] = .fin neg c e) :
    ∃ r, Gen.Decimal.digits_ d digs = .ok r ∧ r.neg = neg ∧ Dg.WF r ∧
      Dg.slice r = Spec.sliceOf c e := by
  obtain ⟨h1, h2, h3⟩ := fin_fields d neg c e hfin
  obtain ⟨r, hr, hn, hwf, hs, _⟩ := Dg.digits_ok d digs
  rw [h2, h3] at hs
  exact ⟨r, hr, hn.trans h1, hwf, hs⟩

/-- the record's slice, read off the array without auxiliary definitions -/
theorem slice_plain (r : Gen.digits) (hwf : Dg.WF r) :
    Dg.slice r = ⟨(r.dig.toList.take r.ndig.toInt.toNat).map (fun b => b.toNat - 48),
      r.exp.toInt + r.ndig.toInt⟩ :=
  Dg.slice_eq_toList r hwf.n0 hwf.n39

/-- zero coefficient: no digits, exponent field 0 -/
theorem digits_spec_zero (d : Gen.Decimal) (digs : Gen.digits) (neg : Bool) (e : Int)
    (hfin : 𝔳[d] = .fin neg 0 e) :
    ∃ r, Gen.Decimal.digits_ d digs = .ok r ∧ r.neg = neg ∧ r.ndig = 0 ∧ r.exp = 0 := by
  obtain ⟨r, hr, hn, hwf, hs⟩ := digits_spec d digs neg 0 e hfin
  refine ⟨r, hr, hn, ?_⟩
  have h0 : Spec.sliceOf 0 e = ⟨[], 0⟩ := rfl
  rw [h0] at hs
  have hds : Dg.msd r.dig r.ndig.toInt.toNat = [] := congrArg Spec.Slice.ds hs
  have hdp : r.exp.toInt + r.ndig.toInt = 0 := congrArg Spec.Slice.dp hs
  have hlen : r.ndig.toInt.toNat = 0 := by
    rw [← Dg.msd_length r.dig r.ndig.toInt.toNat, hds]; rfl
  have hn0 := hwf.n0
  have hz : r.ndig.toInt = 0 := by omega
  constructor
  · exact Int64.toInt_inj.mp (by rw [hz]; rfl)
  · exact Int64.toInt_inj.mp (by rw [show r.exp.toInt = 0 by omega]; rfl)

/-- non-zero coefficient, spelled out: `ndig ≥ 1`, every `dig[i]`, `i < ndig`, is an ASCII digit, the
digit values are exactly the specification's digit list, and `exp + ndig` is its point position -/
theorem digits_spec_nonzero (d : Gen.Decimal) (digs : Gen.digits) (neg : Bool) (c : Nat) (e : Int)
    (hfin : 𝔳[d] = .fin neg c e) (hc : c ≠ 0) :
    ∃ r, Gen.Decimal.digits_ d digs = .ok r ∧ r.neg = neg ∧
      1 ≤ r.ndig.toInt ∧ r.ndig.toInt ≤ 39 ∧
      (∀ i, i < r.ndig.toInt.toNat → 48 ≤ (Dg.at_ r.dig i).toNat ∧ (Dg.at_ r.dig i).toNat ≤ 57) ∧
      (r.dig.toList.take r.ndig.toInt.toNat).map (fun b => b.toNat - 48) = (Spec.sliceOf c e).ds ∧
      r.exp.toInt + r.ndig.toInt = (Spec.sliceOf c e).dp := by
  obtain ⟨h1, h2, h3⟩ := fin_fields d neg c e hfin
  obtain ⟨r, hr, hn, hwf, hs, hv⟩ := Dg.digits_ok d digs
  rw [h2, h3] at hs hv
  obtain ⟨k, hk, _⟩ := hv hc
  have hpl := slice_plain r hwf
  rw [hs] at hpl
  refine ⟨r, hr, hn.trans h1, ?_, hwf.n39, hwf.dig, (congrArg Spec.Slice.ds hpl).symm,
    (congrArg Spec.Slice.dp hpl).symm⟩
  -- at least one digit: otherwise the digit list is empty and c = 0
  by_cases h : 1 ≤ r.ndig.toInt
  · exact h
  · exfalso; apply hc
    have hz : r.ndig.toInt.toNat = 0 := by have := hwf.n0; omega
    have : (Dg.slice r).ds = [] := by show Dg.msd r.dig r.ndig.toInt.toNat = []; rw [hz]; rfl
    rw [hk, this]; simp

/-- **Value form** (independent of `Spec.natDigits`): the digit string read as a number, times
`10^k` for the `k` stripped trailing zeros, is the coefficient, and `exp = e + k`; together with
`Dg.WF` (no leading and no trailing zero digit) this determines the record. -/
theorem digits_value (d : Gen.Decimal) (digs : Gen.digits) (neg : Bool) (c : Nat) (e : Int)
    (hfin : 𝔳[d] = .fin neg c e) (hc : c ≠ 0) :
    ∃ r, Gen.Decimal.digits_ d digs = .ok r ∧ Dg.WF r ∧
      ∃ k : Nat, c = Dg.ofMsd (Dg.slice r).ds * 10 ^ k ∧ r.exp.toInt = e + k := by
  obtain ⟨h1, h2, h3⟩ := fin_fields d neg c e hfin
  obtain ⟨r, hr, hn, hwf, hs, hv⟩ := Dg.digits_ok d digs
  rw [h2, h3] at hv
  exact ⟨r, hr, hwf, hv hc⟩

/-- **Totality (C20).**  `digits` never panics and terminates for all 2^128 bit patterns — also for
NaN and infinities, for which it is never called by the library — and any prior contents of `digs`;
the result is always a well-formed record. -/
theorem digits_total (d : Gen.Decimal) (digs : Gen.digits) :
    ∃ r, Gen.Decimal.digits_ d digs = .ok r ∧ Dg.WF r ∧ r.neg = Gen.Decimal.Signbit d := by
  obtain ⟨r, hr, hn, hwf, _⟩ := Dg.digits_ok d digs
  exact ⟨r, hr, hwf, hn⟩

end Props.C06
