/-
  Property C19, first clause — "replacing any operand by another encoding of the same value (a different
  cohort member, e.g. 1.0 vs 1.00e0, or a zero with another exponent) never changes the numeric value, sign
  or class of the result" — for the operations that have correctness theorems, for ALL bit patterns.

  Vocabulary: 𝔳[d] = `Spec.interp d.lo d.hi`;
  `Spec.Val.same`    same class, same sign (also on zeros), same numeric value, and for NaNs the same sign bit
                     and payload word (so two NaN patterns are `same` iff they differ in ignored bits only);
  `Spec.Val.sameNum` the same with any two NaNs identified.
  Every theorem comes in up to two forms:
  * `…_encoding_independent`      operands related by `same`  ⇒ results related by `same`
                                  (in particular a propagated or freshly made NaN has the same payload);
  * `…_encoding_independent_num`  operands related by `sameNum` ⇒ results related by `sameNum`
                                  (a NaN operand may be replaced by ANY NaN: the result is a NaN again; its
                                  payload is a copy of the operand's and may differ — for NaN operands the
                                  property speaks of value, sign (none) and class only, so `same` would be false).
  Each theorem also states that both calls return (no panic, termination).

  1. arithmetic    `add_…`, `sub_…`, `mul_…`, `quo_…` (`…WithMode`, every valid mode byte), and the
                   default-mode entry points `add_default_…`, …
  2. QuoRem        `quoRem_…` (quotient and remainder), `quoRem_default_…`
  3. quantisation  `round_…`, `ceil_…`, `floor_…` (every `dp : Int64`), the package functions `pkg_round_…`,
                   `pkg_trunc_…`, `pkg_ceil_…`, `pkg_floor_…`
  4. scaling       `ldexp_…`
  5. comparison    `cmp_…_num`, `cmpAbs_…`, `equal_…`, `compare_…`, `isZero_…`, `sign_…` (identical results,
                   the documented panic of `Sign` on NaN included), `min_…`, `max_…`
  6. elementary    `elem_encoding_independent_partial`: all ten unary functions on every operand the table
                   `Spec.specialCase` covers (NaN, ±Inf, ±0, negative arguments of the logarithms and of Sqrt,
                   Log1p at and below −1).  PARTIAL: for the general finite argument the library only has
                   accuracy theorems (an error bound), from which independence of the encoding does not follow.
  6b. Pow          `pow_encoding_independent_partial`: the exact cases (a)–(c) of C18 — `y = ±0`, `y = ±1`
                   (any cohort member of 1), `x = +1`.  All exactly specified cases of `Pow` are in
                   `D128/Props/C19c.lean` (`pow_encoding_independent_exact`, `…_table`).
  7. formatting    `digits_encoding_independent`: `Decimal.digits` — the single source of digits of every text
                   form — returns the same sign, digit count, digit bytes and exponent for all cohort members
                   `digits_then_round_encoding_independent`: the `digits`;`round(prec)` pipeline of
                   `Decimal.format` (every verb with a precision) yields the same sign, digit string and point
                   position, for every `prec : Int64`
  8. conversions   `int64_encoding_independent_num`, … , `frexp_encoding_independent_num` (the `sameNum` forms of
                   the theorems of `D128/Props/C19.lean`), `payload_encoding_independent`,
                   `float64_encoding_independent_partial`, `float32_…_partial` (PARTIAL: NaN, ±Inf and ±0 only; the
                   finite non-zero path of `Float64` is only specified up to one binary ulp)
  9. sign and class `abs_…`, `neg_…`, `signbit_…`, `isNaN_…`, `isInf_…`
  (Canonical, Int64/Int32/Uint64/Uint32 and Frexp are in `D128/Props/C19.lean`; `Cmp` under `same` is
   `Props.C04.cmp_encoding_independent`.)

  Proofs: the correctness theorems `Props.C01.add_correct`, … ("the result denotes `Spec.f 𝔳[d] 𝔳[o]`") and
  the congruence lemmas of `D128/Proofs/Cohort*.lean` ("`Spec.f` respects `same` / `sameNum`").
-/
import D128.Props.C01
import D128.Props.C02
import D128.Props.C02Quo
import D128.Props.C03
import D128.Props.C04
import D128.Props.C06
import D128.Props.C07
import D128.Props.C08
import D128.Props.C11b
import D128.Props.C18
import D128.Proofs.CohortArith
import D128.Proofs.CohortQuoRem
import D128.Proofs.CohortQuantize
import D128.Proofs.CohortCmp
import D128.Proofs.CohortElem
import D128.Proofs.CohortDigits
import D128.Proofs.CohortFloat
import D128.Proofs.CohortConv
import D128.Props.C19
set_option autoImplicit false

namespace Props.C19
open Cohort

/-- the value a bit pattern denotes -/
local notation "𝔳[" d "]" => Spec.interp (Gen.Decimal.lo d) (Gen.Decimal.hi d)

/-! ## assembling: two results that denote `same` specification values are `same` -/

private theorem glue {a a' s s' : Spec.Val} (h : a.same s = true) (h' : a'.same s' = true)
    (hs : s.same s' = true) : a.same a' = true :=
  same_trans (same_trans h hs) (same_symm' h')

private theorem glue_num {a a' s s' : Spec.Val} (h : a.same s = true) (h' : a'.same s' = true)
    (hs : s.sameNum s' = true) : a.sameNum a' = true :=
  sameNum_trans (sameNum_trans (sameNum_of_same h) hs) (sameNum_symm (sameNum_of_same h'))

/-! ## 1. Add, Sub, Mul, Quo -/

/-- **C19 for `AddWithMode`.**  `d ~ d'`, `o ~ o'` (same class, sign, value): both calls return and the
    sums have the same class, sign and value (and NaN payload). -/
theorem add_encoding_independent (d d' o o' : Gen.Decimal) (rm : UInt8) (m : Spec.Mode)
    (hm : Spec.Mode.ofNat? rm.toNat = some m)
    (hd : (𝔳[d]).same 𝔳[d'] = true) (ho : (𝔳[o]).same 𝔳[o'] = true) :
    ∃ r r', Gen.Decimal.AddWithMode d o rm = .ok r ∧ Gen.Decimal.AddWithMode d' o' rm = .ok r' ∧
      (𝔳[r]).same 𝔳[r'] = true := by
  obtain ⟨r, hr, hs⟩ := Props.C01.add_correct d o rm m hm
  obtain ⟨r', hr', hs'⟩ := Props.C01.add_correct d' o' rm m hm
  exact ⟨r, r', hr, hr', glue hs hs' (add_congr m hd ho)⟩

theorem add_encoding_independent_num (d d' o o' : Gen.Decimal) (rm : UInt8) (m : Spec.Mode)
    (hm : Spec.Mode.ofNat? rm.toNat = some m)
    (hd : (𝔳[d]).sameNum 𝔳[d'] = true) (ho : (𝔳[o]).sameNum 𝔳[o'] = true) :
    ∃ r r', Gen.Decimal.AddWithMode d o rm = .ok r ∧ Gen.Decimal.AddWithMode d' o' rm = .ok r' ∧
      (𝔳[r]).sameNum 𝔳[r'] = true := by
  obtain ⟨r, hr, hs⟩ := Props.C01.add_correct d o rm m hm
  obtain ⟨r', hr', hs'⟩ := Props.C01.add_correct d' o' rm m hm
  exact ⟨r, r', hr, hr', glue_num hs hs' (add_congr_num m hd ho)⟩

/-- **C19 for `SubWithMode`.** -/
theorem sub_encoding_independent (d d' o o' : Gen.Decimal) (rm : UInt8) (m : Spec.Mode)
    (hm : Spec.Mode.ofNat? rm.toNat = some m)
    (hd : (𝔳[d]).same 𝔳[d'] = true) (ho : (𝔳[o]).same 𝔳[o'] = true) :
    ∃ r r', Gen.Decimal.SubWithMode d o rm = .ok r ∧ Gen.Decimal.SubWithMode d' o' rm = .ok r' ∧
      (𝔳[r]).same 𝔳[r'] = true := by
  obtain ⟨r, hr, hs⟩ := Props.C01.sub_correct d o rm m hm
  obtain ⟨r', hr', hs'⟩ := Props.C01.sub_correct d' o' rm m hm
  exact ⟨r, r', hr, hr', glue hs hs' (sub_congr m hd ho)⟩

theorem sub_encoding_independent_num (d d' o o' : Gen.Decimal) (rm : UInt8) (m : Spec.Mode)
    (hm : Spec.Mode.ofNat? rm.toNat = some m)
    (hd : (𝔳[d]).sameNum 𝔳[d'] = true) (ho : (𝔳[o]).sameNum 𝔳[o'] = true) :
    ∃ r r', Gen.Decimal.SubWithMode d o rm = .ok r ∧ Gen.Decimal.SubWithMode d' o' rm = .ok r' ∧
      (𝔳[r]).sameNum 𝔳[r'] = true := by
  obtain ⟨r, hr, hs⟩ := Props.C01.sub_correct d o rm m hm
  obtain ⟨r', hr', hs'⟩ := Props.C01.sub_correct d' o' rm m hm
  exact ⟨r, r', hr, hr', glue_num hs hs' (sub_congr_num m hd ho)⟩

/-- **C19 for `MulWithMode`.** -/
theorem mul_encoding_independent (d d' o o' : Gen.Decimal) (rm : UInt8) (m : Spec.Mode)
    (hm : Spec.Mode.ofNat? rm.toNat = some m)
    (hd : (𝔳[d]).same 𝔳[d'] = true) (ho : (𝔳[o]).same 𝔳[o'] = true) :
    ∃ r r', Gen.Decimal.MulWithMode d o rm = .ok r ∧ Gen.Decimal.MulWithMode d' o' rm = .ok r' ∧
      (𝔳[r]).same 𝔳[r'] = true := by
  obtain ⟨r, hr, hs⟩ := Props.C02.mul_correct d o rm m hm
  obtain ⟨r', hr', hs'⟩ := Props.C02.mul_correct d' o' rm m hm
  exact ⟨r, r', hr, hr', glue hs hs' (mul_congr m hd ho)⟩

theorem mul_encoding_independent_num (d d' o o' : Gen.Decimal) (rm : UInt8) (m : Spec.Mode)
    (hm : Spec.Mode.ofNat? rm.toNat = some m)
    (hd : (𝔳[d]).sameNum 𝔳[d'] = true) (ho : (𝔳[o]).sameNum 𝔳[o'] = true) :
    ∃ r r', Gen.Decimal.MulWithMode d o rm = .ok r ∧ Gen.Decimal.MulWithMode d' o' rm = .ok r' ∧
      (𝔳[r]).sameNum 𝔳[r'] = true := by
  obtain ⟨r, hr, hs⟩ := Props.C02.mul_correct d o rm m hm
  obtain ⟨r', hr', hs'⟩ := Props.C02.mul_correct d' o' rm m hm
  exact ⟨r, r', hr, hr', glue_num hs hs' (mul_congr_num m hd ho)⟩

/-- **C19 for `QuoWithMode`.** -/
theorem quo_encoding_independent (d d' o o' : Gen.Decimal) (rm : UInt8) (m : Spec.Mode)
    (hm : Spec.Mode.ofNat? rm.toNat = some m)
    (hd : (𝔳[d]).same 𝔳[d'] = true) (ho : (𝔳[o]).same 𝔳[o'] = true) :
    ∃ r r', Gen.Decimal.QuoWithMode d o rm = .ok r ∧ Gen.Decimal.QuoWithMode d' o' rm = .ok r' ∧
      (𝔳[r]).same 𝔳[r'] = true := by
  obtain ⟨r, hr, hs⟩ := Props.C02.quo_correct d o rm m hm
  obtain ⟨r', hr', hs'⟩ := Props.C02.quo_correct d' o' rm m hm
  exact ⟨r, r', hr, hr', glue hs hs' (quo_congr m hd ho)⟩

theorem quo_encoding_independent_num (d d' o o' : Gen.Decimal) (rm : UInt8) (m : Spec.Mode)
    (hm : Spec.Mode.ofNat? rm.toNat = some m)
    (hd : (𝔳[d]).sameNum 𝔳[d'] = true) (ho : (𝔳[o]).sameNum 𝔳[o'] = true) :
    ∃ r r', Gen.Decimal.QuoWithMode d o rm = .ok r ∧ Gen.Decimal.QuoWithMode d' o' rm = .ok r' ∧
      (𝔳[r]).sameNum 𝔳[r'] = true := by
  obtain ⟨r, hr, hs⟩ := Props.C02.quo_correct d o rm m hm
  obtain ⟨r', hr', hs'⟩ := Props.C02.quo_correct d' o' rm m hm
  exact ⟨r, r', hr, hr', glue_num hs hs' (quo_congr_num m hd ho)⟩

/-! ### the default-mode entry points `Add`, `Sub`, `Mul`, `Quo` -/

theorem add_default_encoding_independent (g : Globals) (d d' o o' : Gen.Decimal) (m : Spec.Mode)
    (hm : Spec.Mode.ofNat? g.DefaultRoundingMode.toNat = some m)
    (hd : (𝔳[d]).same 𝔳[d'] = true) (ho : (𝔳[o]).same 𝔳[o'] = true) :
    ∃ r r', Gen.Decimal.Add g d o = .ok r ∧ Gen.Decimal.Add g d' o' = .ok r' ∧
      (𝔳[r]).same 𝔳[r'] = true := by
  rw [Props.C01.add_default, Props.C01.add_default]
  exact add_encoding_independent d d' o o' _ m hm hd ho

theorem sub_default_encoding_independent (g : Globals) (d d' o o' : Gen.Decimal) (m : Spec.Mode)
    (hm : Spec.Mode.ofNat? g.DefaultRoundingMode.toNat = some m)
    (hd : (𝔳[d]).same 𝔳[d'] = true) (ho : (𝔳[o]).same 𝔳[o'] = true) :
    ∃ r r', Gen.Decimal.Sub g d o = .ok r ∧ Gen.Decimal.Sub g d' o' = .ok r' ∧
      (𝔳[r]).same 𝔳[r'] = true := by
  rw [Props.C01.sub_default, Props.C01.sub_default]
  exact sub_encoding_independent d d' o o' _ m hm hd ho

theorem mul_default_encoding_independent (g : Globals) (d d' o o' : Gen.Decimal) (m : Spec.Mode)
    (hm : Spec.Mode.ofNat? g.DefaultRoundingMode.toNat = some m)
    (hd : (𝔳[d]).same 𝔳[d'] = true) (ho : (𝔳[o]).same 𝔳[o'] = true) :
    ∃ r r', Gen.Decimal.Mul g d o = .ok r ∧ Gen.Decimal.Mul g d' o' = .ok r' ∧
      (𝔳[r]).same 𝔳[r'] = true := by
  rw [Props.C02.mul_default, Props.C02.mul_default]
  exact mul_encoding_independent d d' o o' _ m hm hd ho

theorem quo_default_encoding_independent (g : Globals) (d d' o o' : Gen.Decimal) (m : Spec.Mode)
    (hm : Spec.Mode.ofNat? g.DefaultRoundingMode.toNat = some m)
    (hd : (𝔳[d]).same 𝔳[d'] = true) (ho : (𝔳[o]).same 𝔳[o'] = true) :
    ∃ r r', Gen.Decimal.Quo g d o = .ok r ∧ Gen.Decimal.Quo g d' o' = .ok r' ∧
      (𝔳[r]).same 𝔳[r'] = true := by
  rw [Props.C02.quo_default, Props.C02.quo_default]
  exact quo_encoding_independent d d' o o' _ m hm hd ho

theorem add_default_encoding_independent_num (g : Globals) (d d' o o' : Gen.Decimal) (m : Spec.Mode)
    (hm : Spec.Mode.ofNat? g.DefaultRoundingMode.toNat = some m)
    (hd : (𝔳[d]).sameNum 𝔳[d'] = true) (ho : (𝔳[o]).sameNum 𝔳[o'] = true) :
    ∃ r r', Gen.Decimal.Add g d o = .ok r ∧ Gen.Decimal.Add g d' o' = .ok r' ∧
      (𝔳[r]).sameNum 𝔳[r'] = true := by
  rw [Props.C01.add_default, Props.C01.add_default]
  exact add_encoding_independent_num d d' o o' _ m hm hd ho

theorem sub_default_encoding_independent_num (g : Globals) (d d' o o' : Gen.Decimal) (m : Spec.Mode)
    (hm : Spec.Mode.ofNat? g.DefaultRoundingMode.toNat = some m)
    (hd : (𝔳[d]).sameNum 𝔳[d'] = true) (ho : (𝔳[o]).sameNum 𝔳[o'] = true) :
    ∃ r r', Gen.Decimal.Sub g d o = .ok r ∧ Gen.Decimal.Sub g d' o' = .ok r' ∧
      (𝔳[r]).sameNum 𝔳[r'] = true := by
  rw [Props.C01.sub_default, Props.C01.sub_default]
  exact sub_encoding_independent_num d d' o o' _ m hm hd ho

theorem mul_default_encoding_independent_num (g : Globals) (d d' o o' : Gen.Decimal) (m : Spec.Mode)
    (hm : Spec.Mode.ofNat? g.DefaultRoundingMode.toNat = some m)
    (hd : (𝔳[d]).sameNum 𝔳[d'] = true) (ho : (𝔳[o]).sameNum 𝔳[o'] = true) :
    ∃ r r', Gen.Decimal.Mul g d o = .ok r ∧ Gen.Decimal.Mul g d' o' = .ok r' ∧
      (𝔳[r]).sameNum 𝔳[r'] = true := by
  rw [Props.C02.mul_default, Props.C02.mul_default]
  exact mul_encoding_independent_num d d' o o' _ m hm hd ho

theorem quo_default_encoding_independent_num (g : Globals) (d d' o o' : Gen.Decimal) (m : Spec.Mode)
    (hm : Spec.Mode.ofNat? g.DefaultRoundingMode.toNat = some m)
    (hd : (𝔳[d]).sameNum 𝔳[d'] = true) (ho : (𝔳[o]).sameNum 𝔳[o'] = true) :
    ∃ r r', Gen.Decimal.Quo g d o = .ok r ∧ Gen.Decimal.Quo g d' o' = .ok r' ∧
      (𝔳[r]).sameNum 𝔳[r'] = true := by
  rw [Props.C02.quo_default, Props.C02.quo_default]
  exact quo_encoding_independent_num d d' o o' _ m hm hd ho

/-! ## 2. QuoRem -/

/-- **C19 for `QuoRemWithMode`**: quotients and remainders have the same class, sign and value. -/
theorem quoRem_encoding_independent (d d' o o' : Gen.Decimal) (rm : UInt8) (m : Spec.Mode)
    (hm : Spec.Mode.ofNat? rm.toNat = some m)
    (hd : (𝔳[d]).same 𝔳[d'] = true) (ho : (𝔳[o]).same 𝔳[o'] = true) :
    ∃ q r q' r', Gen.Decimal.QuoRemWithMode d o rm = .ok (q, r) ∧
      Gen.Decimal.QuoRemWithMode d' o' rm = .ok (q', r') ∧
      (𝔳[q]).same 𝔳[q'] = true ∧ (𝔳[r]).same 𝔳[r'] = true := by
  obtain ⟨q, r, h, hq, hr⟩ := Props.C03.quoRem_correct d o rm m hm
  obtain ⟨q', r', h', hq', hr'⟩ := Props.C03.quoRem_correct d' o' rm m hm
  obtain ⟨c1, c2⟩ := quoRem_congr m hd ho
  exact ⟨q, r, q', r', h, h', glue hq hq' c1, glue hr hr' c2⟩

theorem quoRem_encoding_independent_num (d d' o o' : Gen.Decimal) (rm : UInt8) (m : Spec.Mode)
    (hm : Spec.Mode.ofNat? rm.toNat = some m)
    (hd : (𝔳[d]).sameNum 𝔳[d'] = true) (ho : (𝔳[o]).sameNum 𝔳[o'] = true) :
    ∃ q r q' r', Gen.Decimal.QuoRemWithMode d o rm = .ok (q, r) ∧
      Gen.Decimal.QuoRemWithMode d' o' rm = .ok (q', r') ∧
      (𝔳[q]).sameNum 𝔳[q'] = true ∧ (𝔳[r]).sameNum 𝔳[r'] = true := by
  obtain ⟨q, r, h, hq, hr⟩ := Props.C03.quoRem_correct d o rm m hm
  obtain ⟨q', r', h', hq', hr'⟩ := Props.C03.quoRem_correct d' o' rm m hm
  obtain ⟨c1, c2⟩ := quoRem_congr_num m hd ho
  exact ⟨q, r, q', r', h, h', glue_num hq hq' c1, glue_num hr hr' c2⟩

theorem quoRem_default_encoding_independent (g : Globals) (d d' o o' : Gen.Decimal) (m : Spec.Mode)
    (hm : Spec.Mode.ofNat? g.DefaultRoundingMode.toNat = some m)
    (hd : (𝔳[d]).same 𝔳[d'] = true) (ho : (𝔳[o]).same 𝔳[o'] = true) :
    ∃ q r q' r', Gen.Decimal.QuoRem g d o = .ok (q, r) ∧ Gen.Decimal.QuoRem g d' o' = .ok (q', r') ∧
      (𝔳[q]).same 𝔳[q'] = true ∧ (𝔳[r]).same 𝔳[r'] = true := by
  rw [Props.C03.quoRem_default, Props.C03.quoRem_default]
  exact quoRem_encoding_independent d d' o o' _ m hm hd ho

theorem quoRem_default_encoding_independent_num (g : Globals) (d d' o o' : Gen.Decimal) (m : Spec.Mode)
    (hm : Spec.Mode.ofNat? g.DefaultRoundingMode.toNat = some m)
    (hd : (𝔳[d]).sameNum 𝔳[d'] = true) (ho : (𝔳[o]).sameNum 𝔳[o'] = true) :
    ∃ q r q' r', Gen.Decimal.QuoRem g d o = .ok (q, r) ∧ Gen.Decimal.QuoRem g d' o' = .ok (q', r') ∧
      (𝔳[q]).sameNum 𝔳[q'] = true ∧ (𝔳[r]).sameNum 𝔳[r'] = true := by
  rw [Props.C03.quoRem_default, Props.C03.quoRem_default]
  exact quoRem_encoding_independent_num d d' o o' _ m hm hd ho

/-! ## 3. Round, Ceil, Floor, Trunc -/

/-- **C19 for `d.Round(dp, rm)`**, every `dp : Int64`. -/
theorem round_encoding_independent (d d' : Gen.Decimal) (dp : Int64) (rm : UInt8) (m : Spec.Mode)
    (hm : Spec.Mode.ofNat? rm.toNat = some m) (hd : (𝔳[d]).same 𝔳[d'] = true) :
    ∃ r r', Gen.Decimal.Round d dp rm = .ok r ∧ Gen.Decimal.Round d' dp rm = .ok r' ∧
      (𝔳[r]).same 𝔳[r'] = true := by
  obtain ⟨r, hr, hs⟩ := Props.C08.round_dp_correct d dp rm m hm
  obtain ⟨r', hr', hs'⟩ := Props.C08.round_dp_correct d' dp rm m hm
  exact ⟨r, r', hr, hr', glue hs hs' (quantize_congr dp.toInt m hd)⟩

theorem round_encoding_independent_num (d d' : Gen.Decimal) (dp : Int64) (rm : UInt8) (m : Spec.Mode)
    (hm : Spec.Mode.ofNat? rm.toNat = some m) (hd : (𝔳[d]).sameNum 𝔳[d'] = true) :
    ∃ r r', Gen.Decimal.Round d dp rm = .ok r ∧ Gen.Decimal.Round d' dp rm = .ok r' ∧
      (𝔳[r]).sameNum 𝔳[r'] = true := by
  obtain ⟨r, hr, hs⟩ := Props.C08.round_dp_correct d dp rm m hm
  obtain ⟨r', hr', hs'⟩ := Props.C08.round_dp_correct d' dp rm m hm
  exact ⟨r, r', hr, hr', glue_num hs hs' (quantize_congr_num dp.toInt m hd)⟩

theorem ceil_encoding_independent (d d' : Gen.Decimal) (dp : Int64)
    (hd : (𝔳[d]).same 𝔳[d'] = true) :
    ∃ r r', Gen.Decimal.Ceil d dp = .ok r ∧ Gen.Decimal.Ceil d' dp = .ok r' ∧
      (𝔳[r]).same 𝔳[r'] = true := by
  obtain ⟨r, hr, hs⟩ := Props.C08.ceil_correct d dp
  obtain ⟨r', hr', hs'⟩ := Props.C08.ceil_correct d' dp
  exact ⟨r, r', hr, hr', glue hs hs' (ceilDp_congr dp.toInt hd)⟩

theorem ceil_encoding_independent_num (d d' : Gen.Decimal) (dp : Int64)
    (hd : (𝔳[d]).sameNum 𝔳[d'] = true) :
    ∃ r r', Gen.Decimal.Ceil d dp = .ok r ∧ Gen.Decimal.Ceil d' dp = .ok r' ∧
      (𝔳[r]).sameNum 𝔳[r'] = true := by
  obtain ⟨r, hr, hs⟩ := Props.C08.ceil_correct d dp
  obtain ⟨r', hr', hs'⟩ := Props.C08.ceil_correct d' dp
  exact ⟨r, r', hr, hr', glue_num hs hs' (ceilDp_congr_num dp.toInt hd)⟩

theorem floor_encoding_independent (d d' : Gen.Decimal) (dp : Int64)
    (hd : (𝔳[d]).same 𝔳[d'] = true) :
    ∃ r r', Gen.Decimal.Floor d dp = .ok r ∧ Gen.Decimal.Floor d' dp = .ok r' ∧
      (𝔳[r]).same 𝔳[r'] = true := by
  obtain ⟨r, hr, hs⟩ := Props.C08.floor_correct d dp
  obtain ⟨r', hr', hs'⟩ := Props.C08.floor_correct d' dp
  exact ⟨r, r', hr, hr', glue hs hs' (floorDp_congr dp.toInt hd)⟩

theorem floor_encoding_independent_num (d d' : Gen.Decimal) (dp : Int64)
    (hd : (𝔳[d]).sameNum 𝔳[d'] = true) :
    ∃ r r', Gen.Decimal.Floor d dp = .ok r ∧ Gen.Decimal.Floor d' dp = .ok r' ∧
      (𝔳[r]).sameNum 𝔳[r'] = true := by
  obtain ⟨r, hr, hs⟩ := Props.C08.floor_correct d dp
  obtain ⟨r', hr', hs'⟩ := Props.C08.floor_correct d' dp
  exact ⟨r, r', hr, hr', glue_num hs hs' (floorDp_congr_num dp.toInt hd)⟩

/-- the package functions `Round(d)`, `Trunc(d)`, `Ceil(d)`, `Floor(d)` -/
theorem pkg_round_encoding_independent (d d' : Gen.Decimal) (hd : (𝔳[d]).same 𝔳[d'] = true) :
    ∃ r r', Gen.Round d = .ok r ∧ Gen.Round d' = .ok r' ∧ (𝔳[r]).same 𝔳[r'] = true := by
  rw [Props.C08.pkg_round, Props.C08.pkg_round]
  exact round_encoding_independent d d' 0 1 .nearestAway rfl hd

theorem pkg_trunc_encoding_independent (d d' : Gen.Decimal) (hd : (𝔳[d]).same 𝔳[d'] = true) :
    ∃ r r', Gen.Trunc d = .ok r ∧ Gen.Trunc d' = .ok r' ∧ (𝔳[r]).same 𝔳[r'] = true := by
  rw [Props.C08.pkg_trunc, Props.C08.pkg_trunc]
  exact round_encoding_independent d d' 0 2 .toZero rfl hd

theorem pkg_ceil_encoding_independent (d d' : Gen.Decimal) (hd : (𝔳[d]).same 𝔳[d'] = true) :
    ∃ r r', Gen.Ceil d = .ok r ∧ Gen.Ceil d' = .ok r' ∧ (𝔳[r]).same 𝔳[r'] = true := by
  rw [Props.C08.pkg_ceil, Props.C08.pkg_ceil]
  exact ceil_encoding_independent d d' 0 hd

theorem pkg_floor_encoding_independent (d d' : Gen.Decimal) (hd : (𝔳[d]).same 𝔳[d'] = true) :
    ∃ r r', Gen.Floor d = .ok r ∧ Gen.Floor d' = .ok r' ∧ (𝔳[r]).same 𝔳[r'] = true := by
  rw [Props.C08.pkg_floor, Props.C08.pkg_floor]
  exact floor_encoding_independent d d' 0 hd

/-! ## 4. Ldexp -/

/-- **C19 for `Ldexp(d, exp)`**, every `exp : Int64`, under the default rounding mode. -/
theorem ldexp_encoding_independent (g : Globals) (d d' : Gen.Decimal) (exp : Int64) (m : Spec.Mode)
    (hm : Spec.Mode.ofNat? g.DefaultRoundingMode.toNat = some m) (hd : (𝔳[d]).same 𝔳[d'] = true) :
    ∃ r r', Gen.Ldexp g d exp = .ok r ∧ Gen.Ldexp g d' exp = .ok r' ∧ (𝔳[r]).same 𝔳[r'] = true := by
  obtain ⟨r, hr, hs⟩ := Props.C11b.ldexp_correct g d exp m hm
  obtain ⟨r', hr', hs'⟩ := Props.C11b.ldexp_correct g d' exp m hm
  exact ⟨r, r', hr, hr', glue hs hs' (ldexp_congr m exp.toInt hd)⟩

theorem ldexp_encoding_independent_num (g : Globals) (d d' : Gen.Decimal) (exp : Int64) (m : Spec.Mode)
    (hm : Spec.Mode.ofNat? g.DefaultRoundingMode.toNat = some m) (hd : (𝔳[d]).sameNum 𝔳[d'] = true) :
    ∃ r r', Gen.Ldexp g d exp = .ok r ∧ Gen.Ldexp g d' exp = .ok r' ∧ (𝔳[r]).sameNum 𝔳[r'] = true := by
  obtain ⟨r, hr, hs⟩ := Props.C11b.ldexp_correct g d exp m hm
  obtain ⟨r', hr', hs'⟩ := Props.C11b.ldexp_correct g d' exp m hm
  exact ⟨r, r', hr, hr', glue_num hs hs' (ldexp_congr_num m exp.toInt hd)⟩

/-! ## 5. Comparisons: identical results -/

/-- `Cmp` does not even distinguish two NaNs (both give "unordered"); `sameNum` operands suffice. -/
theorem cmp_encoding_independent_num (d d' o o' : Gen.Decimal)
    (hd : (𝔳[d]).sameNum 𝔳[d'] = true) (ho : (𝔳[o]).sameNum 𝔳[o'] = true) :
    Gen.Decimal.Cmp d o = Gen.Decimal.Cmp d' o' := by
  rw [Props.C04.cmp_correct, Props.C04.cmp_correct, cmp_congr_num hd ho]

theorem cmpAbs_encoding_independent (d d' o o' : Gen.Decimal)
    (hd : (𝔳[d]).sameNum 𝔳[d'] = true) (ho : (𝔳[o]).sameNum 𝔳[o'] = true) :
    Gen.Decimal.CmpAbs d o = Gen.Decimal.CmpAbs d' o' := by
  rw [Props.C04.cmpAbs_correct, Props.C04.cmpAbs_correct, cmpAbs_congr_num hd ho]

theorem equal_encoding_independent (d d' o o' : Gen.Decimal)
    (hd : (𝔳[d]).sameNum 𝔳[d'] = true) (ho : (𝔳[o]).sameNum 𝔳[o'] = true) :
    Gen.Decimal.Equal d o = Gen.Decimal.Equal d' o' := by
  rw [Props.C04.equal_correct, Props.C04.equal_correct, equal_congr_num hd ho]

theorem compare_encoding_independent (d d' o o' : Gen.Decimal)
    (hd : (𝔳[d]).sameNum 𝔳[d'] = true) (ho : (𝔳[o]).sameNum 𝔳[o'] = true) :
    Gen.Compare d o = Gen.Compare d' o' := by
  rw [Props.C04.compare_correct, Props.C04.compare_correct, compare_congr_num hd ho]

theorem isZero_encoding_independent (d d' : Gen.Decimal) (hd : (𝔳[d]).sameNum 𝔳[d'] = true) :
    Gen.Decimal.IsZero d = Gen.Decimal.IsZero d' := by
  rw [Props.C04.isZero_correct, Props.C04.isZero_correct, isZero_congr_num hd]

/-- `Sign`: the same sign, or the same documented panic (NaN) -/
theorem sign_encoding_independent (d d' : Gen.Decimal) (hd : (𝔳[d]).sameNum 𝔳[d'] = true) :
    Gen.Decimal.Sign d = Gen.Decimal.Sign d' := by
  rw [Props.C04.sign_correct, Props.C04.sign_correct, sign_congr_num hd]

theorem min_encoding_independent (d d' o o' : Gen.Decimal)
    (hd : (𝔳[d]).same 𝔳[d'] = true) (ho : (𝔳[o]).same 𝔳[o'] = true) :
    ∃ r r', Gen.Min d o = .ok r ∧ Gen.Min d' o' = .ok r' ∧ (𝔳[r]).same 𝔳[r'] = true := by
  obtain ⟨r, hr, hs⟩ := Props.C04.min_correct d o
  obtain ⟨r', hr', hs'⟩ := Props.C04.min_correct d' o'
  exact ⟨r, r', hr, hr', glue hs hs' (minVal_congr hd ho)⟩

theorem max_encoding_independent (d d' o o' : Gen.Decimal)
    (hd : (𝔳[d]).same 𝔳[d'] = true) (ho : (𝔳[o]).same 𝔳[o'] = true) :
    ∃ r r', Gen.Max d o = .ok r ∧ Gen.Max d' o' = .ok r' ∧ (𝔳[r]).same 𝔳[r'] = true := by
  obtain ⟨r, hr, hs⟩ := Props.C04.max_correct d o
  obtain ⟨r', hr', hs'⟩ := Props.C04.max_correct d' o'
  exact ⟨r, r', hr, hr', glue hs hs' (maxVal_congr hd ho)⟩

theorem min_encoding_independent_num (d d' o o' : Gen.Decimal)
    (hd : (𝔳[d]).sameNum 𝔳[d'] = true) (ho : (𝔳[o]).sameNum 𝔳[o'] = true) :
    ∃ r r', Gen.Min d o = .ok r ∧ Gen.Min d' o' = .ok r' ∧ (𝔳[r]).sameNum 𝔳[r'] = true := by
  obtain ⟨r, hr, hs⟩ := Props.C04.min_correct d o
  obtain ⟨r', hr', hs'⟩ := Props.C04.min_correct d' o'
  exact ⟨r, r', hr, hr', glue_num hs hs' (minVal_congr_num hd ho)⟩

theorem max_encoding_independent_num (d d' o o' : Gen.Decimal)
    (hd : (𝔳[d]).sameNum 𝔳[d'] = true) (ho : (𝔳[o]).sameNum 𝔳[o'] = true) :
    ∃ r r', Gen.Max d o = .ok r ∧ Gen.Max d' o' = .ok r' ∧ (𝔳[r]).sameNum 𝔳[r'] = true := by
  obtain ⟨r, hr, hs⟩ := Props.C04.max_correct d o
  obtain ⟨r', hr', hs'⟩ := Props.C04.max_correct d' o'
  exact ⟨r, r', hr, hr', glue_num hs hs' (maxVal_congr_num hd ho)⟩

/-! ## 6. Elementary functions on the operands of the special-case table -/

/-- **C19 for Exp, Exp2, Exp10, Expm1, Log, Log2, Log10, Log1p, Sqrt, Cbrt — PARTIAL**: on every operand
    for which the table `Spec.specialCase` fixes the result (NaN, ±Inf, ±0 with any exponent, negative
    arguments of Log/Log2/Log10/Sqrt, arguments ≤ −1 of Log1p) the result does not depend on the encoding.
    (`Expm1(−0)`, where the library deviates from the table, is covered too: every zero gives `+0`.)
    Missing: the general finite argument, for which only error bounds are specified. -/
theorem elem_encoding_independent_partial (fn : Spec.Fn) (g : Globals) (d d' : Gen.Decimal)
    (w : Spec.Val) (hd : (𝔳[d]).same 𝔳[d'] = true) (hw : Spec.specialCase fn 𝔳[d] = some w) :
    ∃ r r', Props.C15.impl fn g d = .ok r ∧ Props.C15.impl fn g d' = .ok r' ∧
      (𝔳[r]).same 𝔳[r'] = true := by
  have hz : Gen.Decimal.IsZero d' = Gen.Decimal.IsZero d :=
    (isZero_encoding_independent d d' (sameNum_of_same hd)).symm
  by_cases hx : fn = .expm1 ∧ Gen.Decimal.IsZero d = true
  · obtain ⟨rfl, h0⟩ := hx
    refine ⟨_, _, Props.C15.expm1_neg_zero g d h0, Props.C15.expm1_neg_zero g d' (hz.trans h0),
      same_refl _⟩
  · obtain ⟨w', hw', hww⟩ := specialCase_some_congr fn hd w hw
    obtain ⟨r, hr, hs⟩ := Props.C15.elem_special fn g d w
      (fun hf hzz => hx ⟨hf, hzz.1⟩) hw
    obtain ⟨r', hr', hs'⟩ := Props.C15.elem_special fn g d' w'
      (fun hf hzz => hx ⟨hf, hz ▸ hzz.1⟩) hw'
    exact ⟨r, r', hr, hr', glue hs hs' hww⟩

/-- the same for `sameNum` operands: a NaN may be replaced by any NaN (it is returned bit for bit) -/
theorem elem_encoding_independent_num_partial (fn : Spec.Fn) (g : Globals) (d d' : Gen.Decimal)
    (w : Spec.Val) (hd : (𝔳[d]).sameNum 𝔳[d'] = true) (hw : Spec.specialCase fn 𝔳[d] = some w) :
    ∃ r r', Props.C15.impl fn g d = .ok r ∧ Props.C15.impl fn g d' = .ok r' ∧
      (𝔳[r]).sameNum 𝔳[r'] = true := by
  cases hn : (𝔳[d]).isNaN
  · obtain ⟨r, r', h1, h2, h3⟩ :=
      elem_encoding_independent_partial fn g d d' w (same_of_sameNum hd hn) hw
    exact ⟨r, r', h1, h2, sameNum_of_same h3⟩
  · have hn' : (𝔳[d']).isNaN = true := by rw [← isNaN_congr hd]; exact hn
    rw [Enc.interp_isNaN] at hn hn'
    exact ⟨d, d', Props.C15.elem_nan fn g d hn, Props.C15.elem_nan fn g d' hn', hd⟩

/-! ## 6b. Pow on its exact cases -/

private theorem absOne_congr {x x' : Spec.Val} (h : x.same x' = true) :
    PowPf.absOne x = PowPf.absOne x' := by
  rcases same_cases h with ⟨n, p, rfl, rfl⟩ | ⟨n, rfl, rfl⟩ | ⟨n, c, e, c', e', rfl, rfl, hm⟩
  · rfl
  · rfl
  · simp only [PowPf.absOne, mag_congr hm]

private theorem absOne_fin {x : Spec.Val} (h : PowPf.absOne x = true) :
    ∃ n c e, x = .fin n c e ∧ Spec.mag c e = 1 := by
  cases x with
  | nan n p => simp [PowPf.absOne] at h
  | inf n => simp [PowPf.absOne] at h
  | fin n c e => exact ⟨n, c, e, rfl, by simpa [PowPf.absOne] using h⟩

private theorem absOne_not_zero {x : Spec.Val} (h : PowPf.absOne x = true) : x.isZero = false := by
  obtain ⟨n, c, e, rfl, h1⟩ := absOne_fin h
  rw [isZero_fin]
  rcases Nat.eq_zero_or_pos c with h0 | h0
  · subst h0; rw [Sp.mag_zero] at h1; exact absurd h1 (by decide)
  · simp; omega

/-- **C19 for `PowWithMode` — PARTIAL**: on the exact cases of property C18 that have theorems —
    `y = ±0` (result 1), `|y| = 1` in any encoding (result `x` resp. the rounded reciprocal `1/x`),
    `x = +1` in any encoding (result 1) — for every `x` resp. `y` (NaN, ±Inf, ±0 included).
    Missing: all other operand pairs (no correctness theorem for the general path of `Pow` yet). -/
theorem pow_encoding_independent_partial (d d' o o' : Gen.Decimal) (rm : UInt8) (m : Spec.Mode)
    (hm : Spec.Mode.ofNat? rm.toNat = some m)
    (hd : (𝔳[d]).same 𝔳[d'] = true) (ho : (𝔳[o]).same 𝔳[o'] = true)
    (hcase : (𝔳[o]).isZero = true ∨ PowPf.absOne 𝔳[o] = true ∨ (𝔳[d]).same Spec.posOne = true) :
    ∃ r r', Gen.Decimal.PowWithMode d o rm = .ok r ∧ Gen.Decimal.PowWithMode d' o' rm = .ok r' ∧
      (𝔳[r]).same 𝔳[r'] = true := by
  have hzo : (𝔳[o']).isZero = (𝔳[o]).isZero := (isZero_congr (sameNum_of_same ho)).symm
  -- (a) y = ±0
  have caseA : (𝔳[o]).isZero = true → ∃ r r', Gen.Decimal.PowWithMode d o rm = .ok r ∧
      Gen.Decimal.PowWithMode d' o' rm = .ok r' ∧ (𝔳[r]).same 𝔳[r'] = true := fun hz =>
    ⟨_, _, (Props.C18.pow_exp_zero d o rm m hz).1,
      (Props.C18.pow_exp_zero d' o' rm m (hzo.trans hz)).1, same_refl _⟩
  -- (b) x = +1, y not zero
  have caseB : (𝔳[o]).isZero = false → (𝔳[d]).same Spec.posOne = true →
      ∃ r r', Gen.Decimal.PowWithMode d o rm = .ok r ∧
      Gen.Decimal.PowWithMode d' o' rm = .ok r' ∧ (𝔳[r]).same 𝔳[r'] = true := by
    intro hz h1
    have h1' : (𝔳[d']).same Spec.posOne = true := same_trans (same_symm' hd) h1
    rcases same_cases h1 with ⟨_, _, _, h2⟩ | ⟨_, _, h2⟩ | ⟨n, c, e, c1, e1, hx, h2, hmm⟩
    · cases h2
    · cases h2
    · rcases same_cases h1' with ⟨_, _, _, h3⟩ | ⟨_, _, h3⟩ | ⟨n', c', e', c1', e1', hx', h3, hmm'⟩
      · cases h3
      · cases h3
      · cases h2; cases h3
        have e1 : Spec.mag c e = 1 := by rw [mag_congr hmm]; exact PowPf.mag_one_zero
        have e2 : Spec.mag c' e' = 1 := by rw [mag_congr hmm']; exact PowPf.mag_one_zero
        exact ⟨_, _, (Props.C18.pow_base_one d o rm m false c e hz hx e1 (Or.inl rfl)).1,
          (Props.C18.pow_base_one d' o' rm m false c' e' (hzo.trans hz) hx' e2 (Or.inl rfl)).1,
          same_refl _⟩
  rcases hcase with hz | ha | h1
  · exact caseA hz
  · have hz : (𝔳[o]).isZero = false := absOne_not_zero ha
    have ha' : PowPf.absOne 𝔳[o'] = true := by rw [← absOne_congr ho]; exact ha
    obtain ⟨n, c, e, hy, hy1⟩ := absOne_fin ha
    obtain ⟨n', c', e', hy', hy1'⟩ := absOne_fin ha'
    have hnn : n = n' := by
      have := neg_congr ho
      rw [hy, hy'] at this; exact this
    subst hnn
    cases n
    · -- y = +1
      obtain ⟨r, hr, hs⟩ := Props.C18.pow_exp_one d o rm m c e hy hy1
      obtain ⟨r', hr', hs'⟩ := Props.C18.pow_exp_one d' o' rm m c' e' hy' hy1'
      exact ⟨r, r', hr, hr', glue hs hs' hd⟩
    · -- y = −1
      cases hb : (PowPf.absOne 𝔳[d] && !(𝔳[d]).neg)
      · have hb' : (PowPf.absOne 𝔳[d'] && !(𝔳[d']).neg) = false := by
          rw [← absOne_congr hd, ← neg_congr hd]; exact hb
        obtain ⟨_, r, hr, hs⟩ := Props.C18.pow_exp_neg_one d o rm m c e
          (Props.C02.quo_correct (Gen.one false) d rm m hm) hy hy1 hb
        obtain ⟨_, r', hr', hs'⟩ := Props.C18.pow_exp_neg_one d' o' rm m c' e'
          (Props.C02.quo_correct (Gen.one false) d' rm m hm) hy' hy1' hb'
        exact ⟨r, r', hr, hr', glue hs hs' (quo_congr m (same_refl _) hd)⟩
      · refine caseB hz ?_
        rw [PowPf.same_posOne, Bool.and_comm]; exact hb
  · cases hz : (𝔳[o]).isZero
    · exact caseB hz h1
    · exact caseA hz

/-! ## 7. Formatting: the digit record -/

/-- **C19 for text output.**  `Decimal.digits` is the single source of digits of every text form (String,
    MarshalText, `%v`, Format/Append with any verb and precision).  For two finite patterns of the same
    value — whatever the prior contents of the two `digits` records — it returns the same sign, the same
    number of digits, the same digit bytes and the same exponent (hence the same decimal-point position
    `exp + ndig`): the records agree in everything the formatting code reads. -/
theorem digits_encoding_independent (d d' : Gen.Decimal) (digs digs' : Gen.digits)
    (hf : (𝔳[d]).isFin = true) (hd : (𝔳[d]).same 𝔳[d'] = true) :
    ∃ r r', Gen.Decimal.digits_ d digs = .ok r ∧ Gen.Decimal.digits_ d' digs' = .ok r' ∧
      r.neg = r'.neg ∧ r.ndig = r'.ndig ∧ r.exp = r'.exp ∧
      (∀ t, t < r.ndig.toInt.toNat → Dg.at_ r.dig t = Dg.at_ r'.dig t) ∧
      Dg.slice r = Dg.slice r' := by
  rcases same_cases hd with ⟨n, p, h1, _⟩ | ⟨n, h1, _⟩ | ⟨n, c, e, c', e', h1, h2, hm⟩
  · rw [h1] at hf; cases hf
  · rw [h1] at hf; cases hf
  · obtain ⟨r, hr, hn, hwf, hs⟩ := Props.C06.digits_spec d digs n c e h1
    obtain ⟨r', hr', hn', hwf', hs'⟩ := Props.C06.digits_spec d' digs' n c' e' h2
    have hsl : Dg.slice r = Dg.slice r' := by rw [hs, hs', sliceOf_congr hm]
    have hds : Dg.msd r.dig r.ndig.toInt.toNat = Dg.msd r'.dig r'.ndig.toInt.toNat :=
      congrArg Spec.Slice.ds hsl
    have hdp : r.exp.toInt + r.ndig.toInt = r'.exp.toInt + r'.ndig.toInt :=
      congrArg Spec.Slice.dp hsl
    have hlen : r.ndig.toInt.toNat = r'.ndig.toInt.toNat := by
      have := congrArg List.length hds
      rwa [Dg.msd_length, Dg.msd_length] at this
    have hnd : r.ndig.toInt = r'.ndig.toInt := by
      have := hwf.n0; have := hwf'.n0; omega
    refine ⟨r, r', hr, hr', hn.trans hn'.symm, Int64.toInt_inj.mp hnd,
      Int64.toInt_inj.mp (by omega), ?_, hsl⟩
    intro t ht
    have h1 : t < (Dg.msd r.dig r.ndig.toInt.toNat).length := by rw [Dg.msd_length]; exact ht
    have h2 : t < (Dg.msd r'.dig r'.ndig.toInt.toNat).length := by
      rw [Dg.msd_length, ← hlen]; exact ht
    have hget : (Dg.msd r.dig r.ndig.toInt.toNat)[t] = (Dg.msd r'.dig r'.ndig.toInt.toNat)[t] := by
      simp only [hds]
    rw [Dg.msd_getElem, Dg.msd_getElem] at hget
    have hd1 := hwf.dig t ht
    have hd2 := hwf'.dig t (by rw [← hlen]; exact ht)
    unfold Dg.isDig at hd1 hd2
    unfold Dg.dv at hget
    exact UInt8.toNat_inj.mp (by omega)

/-- **C19 for formatting with a precision.**  The pipeline `digits` ; `round(prec)` that `Decimal.format`
    runs for the verbs `e`, `f`, `g` with a precision returns, for two finite patterns of the same value,
    records with the same sign that denote the same digit string and decimal-point position
    (`Dg.slice`), for every `prec : Int64` (negative ones included). -/
theorem digits_then_round_encoding_independent (d d' : Gen.Decimal) (digs digs' : Gen.digits)
    (prec : Int64) (hf : (𝔳[d]).isFin = true) (hd : (𝔳[d]).same 𝔳[d'] = true) :
    ∃ r0 r r0' r', Gen.Decimal.digits_ d digs = .ok r0 ∧ Gen.digits.round r0 prec = .ok r ∧
      Gen.Decimal.digits_ d' digs' = .ok r0' ∧ Gen.digits.round r0' prec = .ok r' ∧
      r.neg = r'.neg ∧ Dg.slice r = Dg.slice r' := by
  obtain ⟨r0, r0', h0, h0', hneg, hnd, hex, _, hsl⟩ := digits_encoding_independent d d' digs digs' hf hd
  obtain ⟨_, h1, hwf, _⟩ := Props.C06.digits_total d digs
  obtain ⟨_, h1', hwf', _⟩ := Props.C06.digits_total d' digs'
  rw [h0] at h1; cases h1
  rw [h0'] at h1'; cases h1'
  obtain ⟨r, hr, hn, _, hlt, hge⟩ :=
    Props.C07.digits_round_spec r0 prec hwf (Props.C07.digits_expOK d digs r0 h0)
  obtain ⟨r', hr', hn', _, hlt', hge'⟩ :=
    Props.C07.digits_round_spec r0' prec hwf' (Props.C07.digits_expOK d' digs' r0' h0')
  refine ⟨r0, r, r0', r', h0, hr, h0', hr', by rw [hn, hn', hneg], ?_⟩
  by_cases hp : 0 ≤ prec.toInt
  · obtain ⟨a1, a2⟩ := hge hp
    obtain ⟨b1, b2⟩ := hge' hp
    rw [← hsl] at b1 b2
    cases hs : Dg.slice r with
    | mk ds dp =>
      cases hs' : Dg.slice r' with
      | mk ds' dp' =>
        rw [hs] at a1 a2; rw [hs'] at b1 b2
        simp only at a1 a2 b1 b2
        rw [a1, a2, b1, b2]
  · rw [hlt (by omega), hlt' (by omega)]
    simp only [Dg.slice, hnd, hex]
    congr 1

/-! ## 8. Conversions -/

theorem int64_encoding_independent_num (d d' : Gen.Decimal) (h : (𝔳[d]).sameNum 𝔳[d'] = true) :
    Gen.Decimal.Int64_ d = Gen.Decimal.Int64_ d' := by
  rw [IntConvPf.Int64_eq, IntConvPf.Int64_eq, sat_congr_num _ _ h]

theorem int32_encoding_independent_num (d d' : Gen.Decimal) (h : (𝔳[d]).sameNum 𝔳[d'] = true) :
    Gen.Decimal.Int32_ d = Gen.Decimal.Int32_ d' := by
  rw [IntConvPf.Int32_eq, IntConvPf.Int32_eq, sat_congr_num _ _ h]

theorem uint64_encoding_independent_num (d d' : Gen.Decimal) (h : (𝔳[d]).sameNum 𝔳[d'] = true) :
    Gen.Decimal.Uint64 d = Gen.Decimal.Uint64 d' := by
  rw [IntConvPf.Uint64_eq, IntConvPf.Uint64_eq, sat_congr_num _ _ h]

theorem uint32_encoding_independent_num (d d' : Gen.Decimal) (h : (𝔳[d]).sameNum 𝔳[d'] = true) :
    Gen.Decimal.Uint32 d = Gen.Decimal.Uint32 d' := by
  rw [IntConvPf.Uint32_eq, IntConvPf.Uint32_eq, sat_congr_num _ _ h]

theorem frexp_encoding_independent_num (d d' : Gen.Decimal) (h : (𝔳[d]).sameNum 𝔳[d'] = true) :
    ∃ f e f' e', Gen.Frexp d = .ok (f, e) ∧ Gen.Frexp d' = .ok (f', e') ∧
      (𝔳[f]).sameNum 𝔳[f'] = true ∧ e = e' := by
  obtain ⟨f, e, hf, hv, he⟩ := FrexpPf.Frexp_spec d
  obtain ⟨f', e', hf', hv', he'⟩ := FrexpPf.Frexp_spec d'
  obtain ⟨h1, h2⟩ := frexp_congr_num h
  refine ⟨f, e, f', e', hf, hf', by rw [hv, hv']; exact h1, ?_⟩
  apply Int64.toInt_inj.mp
  rw [he, he', h2]

/-- `Payload`: the same payload word, or the same documented panic (not a NaN) -/
theorem payload_encoding_independent (d d' : Gen.Decimal) (h : (𝔳[d]).same 𝔳[d'] = true) :
    Gen.Decimal.Payload_ d = Gen.Decimal.Payload_ d' := by
  rcases same_cases h with ⟨n, p, h1, h2⟩ | ⟨n, h1, h2⟩ | ⟨n, c, e, c', e', h1, h2, _⟩
  · rw [Props.C15.payload_of_same d n p (by rw [h1]; exact same_refl _),
      Props.C15.payload_of_same d' n p (by rw [h2]; exact same_refl _)]
  all_goals
    have a : Gen.Decimal.IsNaN d = false := by rw [← Enc.interp_isNaN, h1]; rfl
    have b : Gen.Decimal.IsNaN d' = false := by rw [← Enc.interp_isNaN, h2]; rfl
    rw [Props.C15.payload_eq, Props.C15.payload_eq, a, b]
    rfl

/-- **C19 for `Float64` — PARTIAL**: NaN (any payload: always `math.NaN()`), ±Inf, ±0 with any exponent give
    bit-identical floats.  Missing: finite non-zero operands (only a one-ulp bound is specified for them). -/
theorem float64_encoding_independent_partial (d d' : Gen.Decimal) (h : (𝔳[d]).sameNum 𝔳[d'] = true)
    (ht : Gen.Decimal.isSpecial d = true ∨ Gen.Decimal.IsZero d = true) :
    Gen.Decimal.Float64 d = Gen.Decimal.Float64 d' := Float64_congr_trivial d d' h ht

theorem float32_encoding_independent_partial (d d' : Gen.Decimal) (h : (𝔳[d]).sameNum 𝔳[d'] = true)
    (ht : Gen.Decimal.isSpecial d = true ∨ Gen.Decimal.IsZero d = true) :
    Gen.Decimal.Float32 d = Gen.Decimal.Float32 d' := Float32_congr_trivial d d' h ht

/-! ## 9. Abs, Neg, Signbit, IsNaN, IsInf -/

private theorem setNeg_congr (b : Bool) {x x' : Spec.Val} (h : x.same x' = true) :
    (Enc.setNeg b x).same (Enc.setNeg b x') = true := by
  rcases same_cases h with ⟨n, p, rfl, rfl⟩ | ⟨n, rfl, rfl⟩ | ⟨n, c, e, c', e', rfl, rfl, hm⟩
  · exact same_refl _
  · exact same_refl _
  · exact (same_fin_iff _ _ _ _ _ _).2 ⟨rfl, hm⟩

theorem abs_encoding_independent (d d' : Gen.Decimal) (h : (𝔳[d]).same 𝔳[d'] = true) :
    (𝔳[Gen.Abs d]).same 𝔳[Gen.Abs d'] = true := by
  rw [Enc.interp_Abs, Enc.interp_Abs]; exact setNeg_congr false h

theorem neg_encoding_independent (d d' : Gen.Decimal) (h : (𝔳[d]).same 𝔳[d'] = true) :
    (𝔳[Gen.Decimal.Neg d]).same 𝔳[Gen.Decimal.Neg d'] = true := by
  rw [Enc.interp_Neg, Enc.interp_Neg, neg_congr h]; exact setNeg_congr _ h

theorem signbit_encoding_independent (d d' : Gen.Decimal) (h : (𝔳[d]).same 𝔳[d'] = true) :
    Gen.Decimal.Signbit d = Gen.Decimal.Signbit d' := by
  rw [← Enc.interp_neg, ← Enc.interp_neg, neg_congr h]

theorem isNaN_encoding_independent (d d' : Gen.Decimal) (h : (𝔳[d]).sameNum 𝔳[d'] = true) :
    Gen.Decimal.IsNaN d = Gen.Decimal.IsNaN d' := by
  rw [← Enc.interp_isNaN, ← Enc.interp_isNaN, isNaN_congr h]

theorem isInf_encoding_independent (d d' : Gen.Decimal) (sign : Int64)
    (h : (𝔳[d]).sameNum 𝔳[d'] = true) :
    Gen.Decimal.IsInf d sign = Gen.Decimal.IsInf d' sign := by
  have hi : Gen.Decimal.isInf d = Gen.Decimal.isInf d' := by
    rw [← Enc.interp_isInf, ← Enc.interp_isInf]
    rcases sameNum_cases h with ⟨_, _, _, _, a, b⟩ | ⟨_, a, b⟩ | ⟨_, _, _, _, _, a, b, _⟩ <;>
      rw [a, b] <;> rfl
  unfold Gen.Decimal.IsInf
  rw [← hi]
  cases hc : Gen.Decimal.isInf d
  · rfl
  · have hn : (𝔳[d]).isNaN = false := by
      have := Enc.interp_isInf d
      rw [hc] at this
      cases hv : 𝔳[d] <;> rw [hv] at this <;> simp_all [Spec.Val.isInf, Spec.Val.isNaN]
    rw [← signbit_encoding_independent d d' (same_of_sameNum h hn)]

/-! ## the hypotheses are satisfiable on non-trivial inputs -/

/-- `1.0` (coefficient 10, exponent −1) and `1` (coefficient 1, exponent 0) denote the same value … -/
theorem ex_one : (𝔳[Gen.compose false ⟨10, 0⟩ 6175]).same 𝔳[Gen.compose false ⟨1, 0⟩ 6176] = true := by
  decide +kernel
/-- … as do the negative zeros with exponent fields 0 and 6176 (`-0e-6176`, `-0`) … -/
theorem ex_zero : (𝔳[(⟨0, 0x8000000000000000⟩ : Gen.Decimal)]).same
    𝔳[(⟨0, 0xb040000000000000⟩ : Gen.Decimal)] = true := by decide +kernel
/-- … and `7e-3` with `7000e-6` -/
theorem ex_seven : (𝔳[Gen.compose true ⟨7, 0⟩ 6173]).same 𝔳[Gen.compose true ⟨7000, 0⟩ 6170] = true := by
  decide +kernel
/-- two NaNs with different payloads are `sameNum` (not `same`) -/
theorem ex_nan : (𝔳[(⟨5, 0x7c00000000000000⟩ : Gen.Decimal)]).sameNum
    𝔳[(⟨9, 0xfc00000000000000⟩ : Gen.Decimal)] = true := by decide +kernel

example := add_encoding_independent _ _ _ _ 3 .awayFromZero rfl ex_one ex_seven
example := sub_encoding_independent _ _ _ _ 0 .nearestEven rfl ex_zero ex_zero
example := mul_encoding_independent_num _ _ _ _ 4 .toNegInf rfl (sameNum_of_same ex_seven) ex_nan
example := quo_encoding_independent _ _ _ _ 5 .toPosInf rfl ex_one ex_seven
example := quoRem_encoding_independent _ _ _ _ 1 .nearestAway rfl ex_one ex_seven
example := round_encoding_independent _ _ 2 0 .nearestEven rfl ex_seven
example := ceil_encoding_independent _ _ (-3) ex_seven
example := floor_encoding_independent_num _ _ 1 ex_nan
example := ldexp_encoding_independent ⟨0⟩ _ _ 6100 .nearestEven rfl ex_seven
example := cmpAbs_encoding_independent _ _ _ _ (sameNum_of_same ex_one) (sameNum_of_same ex_seven)
example := sign_encoding_independent _ _ ex_nan
example := max_encoding_independent _ _ _ _ ex_zero ex_one
example := fun g => elem_encoding_independent_partial .log g _ _ _ ex_seven
  (show Spec.specialCase .log 𝔳[Gen.compose true ⟨7, 0⟩ 6173] = some _ by
    rw [show 𝔳[Gen.compose true ⟨7, 0⟩ 6173] = .fin true 7 (-3) by decide +kernel]; rfl)
example := pow_encoding_independent_partial _ _ _ _ 0 .nearestEven rfl ex_seven ex_zero (Or.inl (by decide +kernel))
example := int64_encoding_independent_num _ _ ex_nan
example := frexp_encoding_independent_num _ _ (sameNum_of_same ex_seven)
example := float64_encoding_independent_partial _ _ (sameNum_of_same ex_zero) (Or.inr (by decide))
example := fun a b => digits_encoding_independent _ _ a b (by decide +kernel) ex_seven
example := fun a b => digits_then_round_encoding_independent _ _ a b 2 (by decide +kernel) ex_seven

end Props.C19
