/-
  Property C19, first clause — "replacing any operand by another encoding of the same value (a different
  cohort member, e.g. 1.0 vs 1.00e0, or a zero with another exponent) never changes the numeric value, sign
  or class of the result" — for the operations that have correctness theorems, for ALL bit patterns.

  Vocabulary: 𝔳[d] = `Spec.interp d.lo d.hi`;
  `Spec.Val.same`    same class, same sign (also on zeros), same numeric value, and for NaNs the same sign bit
                     and payload word (so two NaN patterns are `same` iff they differ in ignored bits only);
  `Spec.Val.sameNum` the same with any two NaNs identified.
  Every theorem comes in up to two forms:
  * `…_encoding_independent`      operands related by `same`  ⇒ results related by `same`
                                  (in particular a propagated or freshly made NaN has the same payload);
  * `…_encoding_independent_num`  operands related by `sameNum` ⇒ results related by `sameNum`
                                  (a NaN operand may be replaced by ANY NaN: the result is a NaN again; its
                                  payload is a copy of the operand's and may differ — for NaN operands the
                                  property speaks of value, sign (none) and class only, so `same` would be false).
  Each theorem also states that both calls return (no panic, termination).

  1. arithmetic    `add_…`, `sub_…`, `mul_…`, `quo_…` (`…WithMode`, every valid mode byte), and the
                   default-mode entry points `add_default_…`, …
  (to be continued below)

  Proofs: the correctness theorems `Props.C01.add_correct`, … ("the result denotes `Spec.f 𝔳[d] 𝔳[o]`") and
  the congruence lemmas of `D128/Proofs/Cohort*.lean` ("`Spec.f` respects `same` / `sameNum`").
-/
import D128.Props.C01
import D128.Props.C02
import D128.Props.C02Quo
import D128.Proofs.CohortArith
set_option autoImplicit false

namespace Props.C19
open Cohort

/-- the value a bit pattern denotes -/
local notation "𝔳[" d "]" => Spec.interp (Gen.Decimal.lo d) (Gen.Decimal.hi d)

/-! ## assembling: two results that denote `same` specification values are `same` -/

private theorem glue {a a' s s' : Spec.Val} (h : a.same s = true) (h' : a'.same s' = true)
    (hs : s.same s' = true) : a.same a' = true :=
  same_trans (same_trans h hs) (same_symm' h')

private theorem glue_num {a a' s s' : Spec.Val} (h : a.same s = true) (h' : a'.same s' = true)
    (hs : s.sameNum s' = true) : a.sameNum a' = true :=
  sameNum_trans (sameNum_trans (sameNum_of_same h) hs) (sameNum_symm (sameNum_of_same h'))

/-! ## 1. Add, Sub, Mul, Quo -/

/-- **C19 for `AddWithMode`.**  `d ~ d'`, `o ~ o'` (same class, sign, value): both calls return and the
    sums have the same class, sign and value (and NaN payload). -/
theorem add_encoding_independent (d d' o o' : Gen.Decimal) (rm : UInt8) (m : Spec.Mode)
    (hm : Spec.Mode.ofNat? rm.toNat = some m)
    (hd : (𝔳[d]).same 𝔳[d'] = true) (ho : (𝔳[o]).same 𝔳[o'] = true) :
    ∃ r r', Gen.Decimal.AddWithMode d o rm = .ok r ∧ Gen.Decimal.AddWithMode d' o' rm = .ok r' ∧
      (𝔳[r]).same 𝔳[r'] = true := by
  obtain ⟨r, hr, hs⟩ := Props.C01.add_correct d o rm m hm
  obtain ⟨r', hr', hs'⟩ := Props.C01.add_correct d' o' rm m hm
  exact ⟨r, r', hr, hr', glue hs hs' (add_congr m hd ho)⟩

theorem add_encoding_independent_num (d d' o o' : Gen.Decimal) (rm : UInt8) (m : Spec.Mode)
    (hm : Spec.Mode.ofNat? rm.toNat = some m)
    (hd : (𝔳[d]).sameNum 𝔳[d'] = true) (ho : (𝔳[o]).sameNum 𝔳[o'] = true) :
    ∃ r r', Gen.Decimal.AddWithMode d o rm = .ok r ∧ Gen.Decimal.AddWithMode d' o' rm = .ok r' ∧
      (𝔳[r]).sameNum 𝔳[r'] = true := by
  obtain ⟨r, hr, hs⟩ := Props.C01.add_correct d o rm m hm
  obtain ⟨r', hr', hs'⟩ := Props.C01.add_correct d' o' rm m hm
  exact ⟨r, r', hr, hr', glue_num hs hs' (add_congr_num m hd ho)⟩

/-- **C19 for `SubWithMode`.** -/
theorem sub_encoding_independent (d d' o o' : Gen.Decimal) (rm : UInt8) (m : Spec.Mode)
    (hm : Spec.Mode.ofNat? rm.toNat = some m)
    (hd : (𝔳[d]).same 𝔳[d'] = true) (ho : (𝔳[o]).same 𝔳[o'] = true) :
    ∃ r r', Gen.Decimal.SubWithMode d o rm = .ok r ∧ Gen.Decimal.SubWithMode d' o' rm = .ok r' ∧
      (𝔳[r]).same 𝔳[r'] = true := by
  obtain ⟨r, hr, hs⟩ := Props.C01.sub_correct d o rm m hm
  obtain ⟨r', hr', hs'⟩ := Props.C01.sub_correct d' o' rm m hm
  exact ⟨r, r', hr, hr', glue hs hs' (sub_congr m hd ho)⟩

theorem sub_encoding_independent_num (d d' o o' : Gen.Decimal) (rm : UInt8) (m : Spec.Mode)
    (hm : Spec.Mode.ofNat? rm.toNat = some m)
    (hd : (𝔳[d]).sameNum 𝔳[d'] = true) (ho : (𝔳[o]).sameNum 𝔳[o'] = true) :
    ∃ r r', Gen.Decimal.SubWithMode d o rm = .ok r ∧ Gen.Decimal.SubWithMode d' o' rm = .ok r' ∧
      (𝔳[r]).sameNum 𝔳[r'] = true := by
  obtain ⟨r, hr, hs⟩ := Props.C01.sub_correct d o rm m hm
  obtain ⟨r', hr', hs'⟩ := Props.C01.sub_correct d' o' rm m hm
  exact ⟨r, r', hr, hr', glue_num hs hs' (sub_congr_num m hd ho)⟩

/-- **C19 for `MulWithMode`.** -/
theorem mul_encoding_independent (d d' o o' : Gen.Decimal) (rm : UInt8) (m : Spec.Mode)
    (hm : Spec.Mode.ofNat? rm.toNat = some m)
    (hd : (𝔳[d]).same 𝔳[d'] = true) (ho : (𝔳[o]).same 𝔳[o'] = true) :
    ∃ r r', Gen.Decimal.MulWithMode d o rm = .ok r ∧ Gen.Decimal.MulWithMode d' o' rm = .ok r' ∧
      (𝔳[r]).same 𝔳[r'] = true := by
  obtain ⟨r, hr, hs⟩ := Props.C02.mul_correct d o rm m hm
  obtain ⟨r', hr', hs'⟩ := Props.C02.mul_correct d' o' rm m hm
  exact ⟨r, r', hr, hr', glue hs hs' (mul_congr m hd ho)⟩

theorem mul_encoding_independent_num (d d' o o' : Gen.Decimal) (rm : UInt8) (m : Spec.Mode)
    (hm : Spec.Mode.ofNat? rm.toNat = some m)
    (hd : (𝔳[d]).sameNum 𝔳[d'] = true) (ho : (𝔳[o]).sameNum 𝔳[o'] = true) :
    ∃ r r', Gen.Decimal.MulWithMode d o rm = .ok r ∧ Gen.Decimal.MulWithMode d' o' rm = .ok r' ∧
      (𝔳[r]).sameNum 𝔳[r'] = true := by
  obtain ⟨r, hr, hs⟩ := Props.C02.mul_correct d o rm m hm
  obtain ⟨r', hr', hs'⟩ := Props.C02.mul_correct d' o' rm m hm
  exact ⟨r, r', hr, hr', glue_num hs hs' (mul_congr_num m hd ho)⟩

/-- **C19 for `QuoWithMode`.** -/
theorem quo_encoding_independent (d d' o o' : Gen.Decimal) (rm : UInt8) (m : Spec.Mode)
    (hm : Spec.Mode.ofNat? rm.toNat = some m)
    (hd : (𝔳[d]).same 𝔳[d'] = true) (ho : (𝔳[o]).same 𝔳[o'] = true) :
    ∃ r r', Gen.Decimal.QuoWithMode d o rm = .ok r ∧ Gen.Decimal.QuoWithMode d' o' rm = .ok r' ∧
      (𝔳[r]).same 𝔳[r'] = true := by
  obtain ⟨r, hr, hs⟩ := Props.C02.quo_correct d o rm m hm
  obtain ⟨r', hr', hs'⟩ := Props.C02.quo_correct d' o' rm m hm
  exact ⟨r, r', hr, hr', glue hs hs' (quo_congr m hd ho)⟩

theorem quo_encoding_independent_num (d d' o o' : Gen.Decimal) (rm : UInt8) (m : Spec.Mode)
    (hm : Spec.Mode.ofNat? rm.toNat = some m)
    (hd : (𝔳[d]).sameNum 𝔳[d'] = true) (ho : (𝔳[o]).sameNum 𝔳[o'] = true) :
    ∃ r r', Gen.Decimal.QuoWithMode d o rm = .ok r ∧ Gen.Decimal.QuoWithMode d' o' rm = .ok r' ∧
      (𝔳[r]).sameNum 𝔳[r'] = true := by
  obtain ⟨r, hr, hs⟩ := Props.C02.quo_correct d o rm m hm
  obtain ⟨r', hr', hs'⟩ := Props.C02.quo_correct d' o' rm m hm
  exact ⟨r, r', hr, hr', glue_num hs hs' (quo_congr_num m hd ho)⟩

/-! ### the default-mode entry points `Add`, `Sub`, `Mul`, `Quo` -/

theorem add_default_encoding_independent (g : Globals) (d d' o o' : Gen.Decimal) (m : Spec.Mode)
    (hm : Spec.Mode.ofNat? g.DefaultRoundingMode.toNat = some m)
    (hd : (𝔳[d]).same 𝔳[d'] = true) (ho : (𝔳[o]).same 𝔳[o'] = true) :
    ∃ r r', Gen.Decimal.Add g d o = .ok r ∧ Gen.Decimal.Add g d' o' = .ok r' ∧
      (𝔳[r]).same 𝔳[r'] = true := by
  rw [Props.C01.add_default, Props.C01.add_default]
  exact add_encoding_independent d d' o o' _ m hm hd ho

theorem sub_default_encoding_independent (g : Globals) (d d' o o' : Gen.Decimal) (m : Spec.Mode)
    (hm : Spec.Mode.ofNat? g.DefaultRoundingMode.toNat = some m)
    (hd : (𝔳[d]).same 𝔳[d'] = true) (ho : (𝔳[o]).same 𝔳[o'] = true) :
    ∃ r r', Gen.Decimal.Sub g d o = .ok r ∧ Gen.Decimal.Sub g d' o' = .ok r' ∧
      (𝔳[r]).same 𝔳[r'] = true := by
  rw [Props.C01.sub_default, Props.C01.sub_default]
  exact sub_encoding_independent d d' o o' _ m hm hd ho

theorem mul_default_encoding_independent (g : Globals) (d d' o o' : Gen.Decimal) (m : Spec.Mode)
    (hm : Spec.Mode.ofNat? g.DefaultRoundingMode.toNat = some m)
    (hd : (𝔳[d]).same 𝔳[d'] = true) (ho : (𝔳[o]).same 𝔳[o'] = true) :
    ∃ r r', Gen.Decimal.Mul g d o = .ok r ∧ Gen.Decimal.Mul g d' o' = .ok r' ∧
      (𝔳[r]).same 𝔳[r'] = true := by
  rw [Props.C02.mul_default, Props.C02.mul_default]
  exact mul_encoding_independent d d' o o' _ m hm hd ho

theorem quo_default_encoding_independent (g : Globals) (d d' o o' : Gen.Decimal) (m : Spec.Mode)
    (hm : Spec.Mode.ofNat? g.DefaultRoundingMode.toNat = some m)
    (hd : (𝔳[d]).same 𝔳[d'] = true) (ho : (𝔳[o]).same 𝔳[o'] = true) :
    ∃ r r', Gen.Decimal.Quo g d o = .ok r ∧ Gen.Decimal.Quo g d' o' = .ok r' ∧
      (𝔳[r]).same 𝔳[r'] = true := by
  rw [Props.C02.quo_default, Props.C02.quo_default]
  exact quo_encoding_independent d d' o o' _ m hm hd ho

theorem add_default_encoding_independent_num (g : Globals) (d d' o o' : Gen.Decimal) (m : Spec.Mode)
    (hm : Spec.Mode.ofNat? g.DefaultRoundingMode.toNat = some m)
    (hd : (𝔳[d]).sameNum 𝔳[d'] = true) (ho : (𝔳[o]).sameNum 𝔳[o'] = true) :
    ∃ r r', Gen.Decimal.Add g d o = .ok r ∧ Gen.Decimal.Add g d' o' = .ok r' ∧
      (𝔳[r]).sameNum 𝔳[r'] = true := by
  rw [Props.C01.add_default, Props.C01.add_default]
  exact add_encoding_independent_num d d' o o' _ m hm hd ho

theorem sub_default_encoding_independent_num (g : Globals) (d d' o o' : Gen.Decimal) (m : Spec.Mode)
    (hm : Spec.Mode.ofNat? g.DefaultRoundingMode.toNat = some m)
    (hd : (𝔳[d]).sameNum 𝔳[d'] = true) (ho : (𝔳[o]).sameNum 𝔳[o'] = true) :
    ∃ r r', Gen.Decimal.Sub g d o = .ok r ∧ Gen.Decimal.Sub g d' o' = .ok r' ∧
      (𝔳[r]).sameNum 𝔳[r'] = true := by
  rw [Props.C01.sub_default, Props.C01.sub_default]
  exact sub_encoding_independent_num d d' o o' _ m hm hd ho

theorem mul_default_encoding_independent_num (g : Globals) (d d' o o' : Gen.Decimal) (m : Spec.Mode)
    (hm : Spec.Mode.ofNat? g.DefaultRoundingMode.toNat = some m)
    (hd : (𝔳[d]).sameNum 𝔳[d'] = true) (ho : (𝔳[o]).sameNum 𝔳[o'] = true) :
    ∃ r r', Gen.Decimal.Mul g d o = .ok r ∧ Gen.Decimal.Mul g d' o' = .ok r' ∧
      (𝔳[r]).sameNum 𝔳[r'] = true := by
  rw [Props.C02.mul_default, Props.C02.mul_default]
  exact mul_encoding_independent_num d d' o o' _ m hm hd ho

theorem quo_default_encoding_independent_num (g : Globals) (d d' o o' : Gen.Decimal) (m : Spec.Mode)
    (hm : Spec.Mode.ofNat? g.DefaultRoundingMode.toNat = some m)
    (hd : (𝔳[d]).sameNum 𝔳[d'] = true) (ho : (𝔳[o]).sameNum 𝔳[o'] = true) :
    ∃ r r', Gen.Decimal.Quo g d o = .ok r ∧ Gen.Decimal.Quo g d' o' = .ok r' ∧
      (𝔳[r]).sameNum 𝔳[r'] = true := by
  rw [Props.C02.quo_default, Props.C02.quo_default]
  exact quo_encoding_independent_num d d' o o' _ m hm hd ho

end Props.C19
