/-
  Property C10 (part: the math/big conversions) — `FromInt`, `Decimal.Int`, `Decimal.Rat`, `FromRat`.

  Statements only; proofs assemble lemmas of `D128/Proofs/BigConv{Int,FromCode,From,Rat}.lean`.  Every
  theorem is about the generated `Gen.FromInt`, `Gen.FromRat`, `Gen.Decimal.Int_`, `Gen.Decimal.Rat`
  (translation of /repo/convert.go, D128/Gen/ConvertBig.lean) over the math/big layer of the model
  (`*big.Int` is `Int`, `*big.Rat` is `Rat`, every math/big method is its documented mathematical meaning:
  D128/Go/Big.lean), against `Spec.roundTo`, `Spec.fromInt`, `Spec.truncInt`, `Spec.Val.toRat`, `Spec.quo`,
  `Spec.equal` over `Spec.interp d.lo d.hi`.  Each `∃ r, f … = .ok r ∧ …` also says that the call
  terminates and does not panic (the `QuoRem` loops of `FromInt`, `b[i]`, `Quo`, `SetFrac`).

  FromInt   `fromInt_correct`       for every mode byte valid in `DefaultRoundingMode`: +0 for 0, else the member
                                    of the format the mode selects for |i| with the sign of i, ±Inf beyond
            `fromInt_flush_form`    the same as `Spec.flushOrRoundS m (i<0) |i| 0`
            `fromInt_default`       under the package default (mode byte 0): round half to even
            `fromInt_exact`         exact (`Spec.fromInt i`) when |i| = c·10^e, c ≤ Cmax, e ≤ 6111
            `fromInt_exact_34`      in particular for at most 34 digits
            `fromInt_overflow`      ±Inf from (Cmax+1)·10^6111 on (all modes)
            `fromInt_meaning`       declaratively: `SpecMeaning.Selected m i`
  Int       `int_spec`, `int_trunc`, `int_panics_iff`
  Rat       `rat_spec`, `rat_exact`, `rat_panics_iff`
  FromRat   `fromRat_code`          `FromRat r` = +0 for a zero numerator, else `FromInt(num).Quo(FromInt(den))`
            `fromRat_spec`          … at the level of values
            `fromRat_correct`       correctly rounded when numerator and denominator convert exactly
            `fromRat_correct_34`    in particular when both have at most 34 digits
            `fromRat_zero`          zero numerator ⇒ +0
            `fromRat_rat_partial`   FromRat(Rat d) `Equal` d when the reduced denominator converts exactly
                                    (FALSE without that hypothesis — see the doc-comment)

  Hypothesis `Go.Big.bitLen |i| < 2^63` (FromInt, FromRat): `BitLen()` is a Go `int`, `Int64.ofNat` in the
  model; a `big.Int` of 2^63 bits (2^57 bytes) cannot exist, the model's `Int` can.  For such an `i` the
  model's `bl > 128` would be evaluated on a wrapped length; the hypothesis excludes exactly that.
-/
import D128.Proofs.BigConvRat
import D128.Proofs.SpecMeaningSelect
set_option autoImplicit false

namespace Props.C10b
open BigConv

/-- the value a bit pattern denotes -/
local notation "𝔳[" d "]" => Spec.interp (Gen.Decimal.lo d) (Gen.Decimal.hi d)

/-! ## 1. big.Int → Decimal -/

/-- **FromInt.**  For every `big.Int` and every valid default rounding mode: the call returns (no panic,
    the three loops terminate) `+0` for `0`, and otherwise the member of the format that mode `m` selects
    for `|i|`, with the sign of `i` (`±Inf` when that member would exceed the largest finite Decimal). -/
theorem fromInt_correct (g : Globals) (i : Int) (m : Spec.Mode)
    (hm : Spec.Mode.ofNat? g.DefaultRoundingMode.toNat = some m)
    (hbits : Go.Big.bitLen i.natAbs < 2 ^ 63) :
    ∃ r, Gen.FromInt g i = .ok r ∧
      (𝔳[r]).same (if i = 0 then .fin false 0 0
        else Spec.roundTo m (decide (i < 0)) (i.natAbs : ℚ)) = true :=
  FromInt_correct g i m hm hbits

/-- the same in the form used for the arithmetic operations: `flushOrRoundS` at scale 0 (an integer is
    never flushed to zero) -/
theorem fromInt_flush_form (g : Globals) (i : Int) (m : Spec.Mode)
    (hm : Spec.Mode.ofNat? g.DefaultRoundingMode.toNat = some m)
    (hbits : Go.Big.bitLen i.natAbs < 2 ^ 63) :
    ∃ r, Gen.FromInt g i = .ok r ∧
      (𝔳[r]).same (Spec.flushOrRoundS m (decide (i < 0)) (i.natAbs : ℚ) 0) = true := by
  obtain ⟨r, e, s⟩ := FromInt_correct g i m hm hbits
  refine ⟨r, e, ?_⟩
  unfold fromIntVal at s
  by_cases h : i = 0
  · subst h
    rw [if_pos rfl] at s
    have : Spec.flushOrRoundS m (decide ((0 : Int) < 0)) ((Int.natAbs 0 : Nat) : ℚ) 0 = .fin false 0 0 := by
      simp [Spec.flushOrRoundS]
    rw [this]; exact s
  · rw [if_neg h] at s
    have hN : 0 < i.natAbs := Int.natAbs_pos.2 h
    have := flush_scaled m (decide (i < 0)) i.natAbs 0 hN
    simp only [pow_zero, Nat.div_one, Nat.mod_one, Nat.cast_zero, zero_div, add_zero] at this
    rw [this]; exact s

/-- the mode `FromInt` uses is the package variable `DefaultRoundingMode`; with its initial value
    (`ToNearestEven`, byte 0) the conversion rounds half to even -/
theorem fromInt_default (g : Globals) (i : Int) (hg : g.DefaultRoundingMode = 0)
    (hbits : Go.Big.bitLen i.natAbs < 2 ^ 63) :
    ∃ r, Gen.FromInt g i = .ok r ∧
      (𝔳[r]).same (if i = 0 then .fin false 0 0
        else Spec.roundTo .nearestEven (decide (i < 0)) (i.natAbs : ℚ)) = true :=
  FromInt_correct g i .nearestEven (by rw [hg]; rfl) hbits

/-- exact whenever `|i|` is a member of the format (`c·10^e`, `c ≤ Cmax`, `e ≤ 6111`), in every mode -/
theorem fromInt_exact (g : Globals) (i : Int) (m : Spec.Mode)
    (hm : Spec.Mode.ofNat? g.DefaultRoundingMode.toNat = some m)
    (hbits : Go.Big.bitLen i.natAbs < 2 ^ 63) (hmem : MemberNat i.natAbs) :
    ∃ r, Gen.FromInt g i = .ok r ∧ (𝔳[r]).same (Spec.fromInt i) = true := by
  obtain ⟨r, e, s⟩ := FromInt_correct g i m hm hbits
  refine ⟨r, e, ?_⟩
  unfold Spec.fromInt
  by_cases h : i = 0
  · subst h
    simpa [fromIntVal] using s
  · have : (i == 0) = false := by simpa using h
    rw [this]
    exact Cohort.same_trans s (fromIntVal_exact m i h hmem)

/-- … in particular for integers of at most 34 digits -/
theorem fromInt_exact_34 (g : Globals) (i : Int) (m : Spec.Mode)
    (hm : Spec.Mode.ofNat? g.DefaultRoundingMode.toNat = some m) (h34 : i.natAbs < 10 ^ 34) :
    ∃ r, Gen.FromInt g i = .ok r ∧ (𝔳[r]).same (Spec.fromInt i) = true :=
  fromInt_exact g i m hm
    (bitLen_lt_of_lt (L := 128) (lt_trans h34 (by norm_num)) (by norm_num))
    (memberNat_of_digits h34)

/-- `±Inf` from `(Cmax+1)·10^6111` on, in every mode -/
theorem fromInt_overflow (g : Globals) (i : Int) (m : Spec.Mode)
    (hm : Spec.Mode.ofNat? g.DefaultRoundingMode.toNat = some m)
    (hbits : Go.Big.bitLen i.natAbs < 2 ^ 63)
    (hbig : ((Spec.Cmax : ℚ) + 1) * (10 : ℚ) ^ Spec.Emax ≤ (i.natAbs : ℚ)) :
    ∃ r, Gen.FromInt g i = .ok r ∧ 𝔳[r] = .inf (decide (i < 0)) := by
  obtain ⟨r, e, s⟩ := FromInt_correct g i m hm hbits
  refine ⟨r, e, ?_⟩
  have hi : i ≠ 0 := by
    rintro rfl
    have h1 : (0 : ℚ) < ((Spec.Cmax : ℚ) + 1) * (10 : ℚ) ^ Spec.Emax :=
      mul_pos (add_pos_of_nonneg_of_pos (Nat.cast_nonneg _) one_pos) (zpow_pos (by norm_num) _)
    simp at hbig
    linarith
  unfold fromIntVal at s
  rw [if_neg hi, roundTo_inf_of_ge m _ _ hbig] at s
  cases hv : 𝔳[r] with
  | nan n p => rw [hv] at s; simp [Spec.Val.same] at s
  | fin n c e => rw [hv] at s; simp [Spec.Val.same] at s
  | inf n => rw [hv] at s; simp only [Spec.Val.same, beq_iff_eq] at s; rw [s]

/-- declaratively (`Props.SpecMeaning`): the result denotes the member of the format that mode `m`
    selects for the exact integer `i ≠ 0` -/
theorem fromInt_meaning (g : Globals) (i : Int) (m : Spec.Mode)
    (hm : Spec.Mode.ofNat? g.DefaultRoundingMode.toNat = some m)
    (hbits : Go.Big.bitLen i.natAbs < 2 ^ 63) (hi : i ≠ 0) :
    ∃ r v, Gen.FromInt g i = .ok r ∧ (𝔳[r]).same v = true ∧ SpecMeaning.Selected m (i : ℚ) v := by
  obtain ⟨r, e, s⟩ := FromInt_correct g i m hm hbits
  unfold fromIntVal at s
  rw [if_neg hi] at s
  have hq : (i : ℚ) ≠ 0 := by exact_mod_cast hi
  have h1 : decide ((i : ℚ) < 0) = decide (i < 0) := by
    apply decide_eq_decide.2; exact_mod_cast Iff.rfl
  have h2 : |(i : ℚ)| = (i.natAbs : ℚ) := by rw [Nat.cast_natAbs, Int.cast_abs]
  have := SpecMeaning.roundTo_selected m hq
  rw [h1, h2] at this
  exact ⟨r, _, e, s, this⟩

/-! ## 2. Decimal → big.Int -/

/-- **Int**, all 2^128 patterns and any destination argument: the integer part toward zero for finite
    values, the documented panics for NaN and ±Inf. -/
theorem int_spec (d : Gen.Decimal) (i0 : Go.BigInt) :
    Gen.Decimal.Int_ d i0 =
      (match 𝔳[d] with
        | .nan _ _ => .error (.explicit "Decimal(NaN).Int()")
        | .inf true => .error (.explicit "Decimal(-Inf).Int()")
        | .inf false => .error (.explicit "Decimal(+Inf).Int()")
        | .fin n c e => .ok (Spec.truncInt (.fin n c e))) := by
  rcases interp_class d with ⟨hn, p, hv⟩ | ⟨hs, hn, hv⟩ | ⟨hs, hn, hv⟩
  · rw [hv, Int_nan d i0 hn]
  · rw [hv, Int_inf d i0 hs hn]
    cases Gen.Decimal.Signbit d <;> rfl
  · rw [Int_finite d i0 hs, hv]

theorem int_trunc (d : Gen.Decimal) (i0 : Go.BigInt) (hs : Gen.Decimal.isSpecial d = false) :
    Gen.Decimal.Int_ d i0 = .ok (Spec.truncInt 𝔳[d]) :=
  Int_finite d i0 hs

/-- `Int` panics exactly on NaN and ±Inf -/
theorem int_panics_iff (d : Gen.Decimal) (i0 : Go.BigInt) :
    (∃ p, Gen.Decimal.Int_ d i0 = .error p) ↔ Gen.Decimal.isSpecial d = true := by
  rcases interp_class d with ⟨hn, p, hv⟩ | ⟨hs, hn, hv⟩ | ⟨hs, hn, hv⟩
  · have hs : Gen.Decimal.isSpecial d = true := by rw [Enc.isSpecial_iff, hn]; rfl
    rw [Int_nan d i0 hn, hs]; simp
  · rw [Int_inf d i0 hs hn, hs]; simp
  · rw [Int_finite d i0 hs, hs]; simp

/-! ## 3. Decimal → big.Rat -/

/-- **Rat**: the exact value of a finite `d` as a rational (in lowest terms, as `big.Rat` keeps it), the
    documented panics for NaN and ±Inf; any destination argument. -/
theorem rat_spec (d : Gen.Decimal) (r0 : Go.BigRat) :
    Gen.Decimal.Rat d r0 =
      (match 𝔳[d] with
        | .nan _ _ => .error (.explicit "Decimal(NaN).Rat()")
        | .inf true => .error (.explicit "Decimal(-Inf).Rat()")
        | .inf false => .error (.explicit "Decimal(+Inf).Rat()")
        | .fin n c e => .ok (Spec.Val.fin n c e).toRat) := by
  rcases interp_class d with ⟨hn, p, hv⟩ | ⟨hs, hn, hv⟩ | ⟨hs, hn, hv⟩
  · rw [hv, Rat_nan d r0 hn]
  · rw [hv, Rat_inf d r0 hs hn]
    cases Gen.Decimal.Signbit d <;> rfl
  · rw [Rat_finite d r0 hs, hv]

theorem rat_exact (d : Gen.Decimal) (r0 : Go.BigRat) (hs : Gen.Decimal.isSpecial d = false) :
    Gen.Decimal.Rat d r0 = .ok (𝔳[d]).toRat :=
  Rat_finite d r0 hs

/-- the value returned is `±c·10^e` in ℚ -/
theorem rat_value (n : Bool) (c : Nat) (e : Int) :
    (Spec.Val.fin n c e).toRat = (if n then -1 else 1) * ((c : ℚ) * (10 : ℚ) ^ e) := by
  simp only [Spec.Val.toRat, Spec.mag, SpecRound.pow10_eq_zpow]
  cases n <;> simp

theorem rat_panics_iff (d : Gen.Decimal) (r0 : Go.BigRat) :
    (∃ p, Gen.Decimal.Rat d r0 = .error p) ↔ Gen.Decimal.isSpecial d = true := by
  rcases interp_class d with ⟨hn, p, hv⟩ | ⟨hs, hn, hv⟩ | ⟨hs, hn, hv⟩
  · have hs : Gen.Decimal.isSpecial d = true := by rw [Enc.isSpecial_iff, hn]; rfl
    rw [Rat_nan d r0 hn, hs]; simp
  · rw [Rat_inf d r0 hs hn, hs]; simp
  · rw [Rat_finite d r0 hs, hs]; simp

/-! ## 4. big.Rat → Decimal -/

/-- the code of `FromRat` -/
theorem fromRat_code (g : Globals) (r : Rat) :
    Gen.FromRat g r =
      if r.num = 0 then pure (Gen.zero false)
      else (do
        let t1 ← Gen.FromInt g r.num
        let t2 ← Gen.FromInt g (r.den : Int)
        Gen.Decimal.Quo g t1 t2) :=
  FromRat_eq g r

/-- **FromRat** = `Quo (FromInt num) (FromInt den)` at the level of values: the quotient, rounded in mode
    `m`, of the two converted (each possibly rounded, possibly ±Inf) integers. -/
theorem fromRat_spec (g : Globals) (r : Rat) (m : Spec.Mode)
    (hm : Spec.Mode.ofNat? g.DefaultRoundingMode.toNat = some m)
    (hn : Go.Big.bitLen r.num.natAbs < 2 ^ 63) (hd : Go.Big.bitLen r.den < 2 ^ 63) :
    ∃ d, Gen.FromRat g r = .ok d ∧
      (𝔳[d]).same (if r.num = 0 then .fin false 0 0
        else Spec.quo m
          (Spec.roundTo m (decide (r.num < 0)) (r.num.natAbs : ℚ))
          (Spec.roundTo m false (r.den : ℚ))) = true := by
  obtain ⟨d, e, s⟩ := FromRat_spec g r m hm hn hd
  refine ⟨d, e, ?_⟩
  by_cases h : r.num = 0
  · rw [if_pos h] at s ⊢; exact s
  · rw [if_neg h] at s ⊢
    have hdz : ((r.den : Nat) : Int) ≠ 0 := by have := r.den_pos; omega
    have hneg : decide (((r.den : Nat) : Int) < 0) = false := by
      have := r.den_pos; simp
    simpa only [fromIntVal, if_neg h, if_neg hdz, hneg, Int.natAbs_natCast] using s

theorem fromRat_zero (g : Globals) (r : Rat) (h : r = 0) :
    Gen.FromRat g r = .ok (Gen.zero false) ∧ 𝔳[Gen.zero false] = .fin false 0 (-6176) := by
  subst h
  exact ⟨by rw [FromRat_eq]; rfl, Enc.interp_zero false⟩

/-- correctly rounded whenever numerator and denominator are converted exactly (are `c·10^e` with
    `c ≤ Cmax`, `e ≤ 6111`): the result is the member of the format mode `m` selects for `r` (a signed
    zero below 1e-6177) -/
theorem fromRat_correct (g : Globals) (r : Rat) (m : Spec.Mode)
    (hm : Spec.Mode.ofNat? g.DefaultRoundingMode.toNat = some m)
    (hn : Go.Big.bitLen r.num.natAbs < 2 ^ 63) (hd : Go.Big.bitLen r.den < 2 ^ 63)
    (hnum : MemberNat r.num.natAbs) (hden : MemberNat r.den) :
    ∃ d, Gen.FromRat g r = .ok d ∧
      (𝔳[d]).same (if r = 0 then .fin false 0 0
        else Spec.flushOrRound m (decide (r < 0)) |r|) = true :=
  FromRat_correct g r m hm hn hd hnum hden

/-- … in particular when numerator and denominator have at most 34 digits each; then nothing is flushed
    and the result is `Spec.roundTo` of `|r|` -/
theorem fromRat_correct_34 (g : Globals) (r : Rat) (m : Spec.Mode)
    (hm : Spec.Mode.ofNat? g.DefaultRoundingMode.toNat = some m)
    (hnum : r.num.natAbs < 10 ^ 34) (hden : r.den < 10 ^ 34) (hr : r ≠ 0) :
    ∃ d, Gen.FromRat g r = .ok d ∧ (𝔳[d]).same (Spec.roundTo m (decide (r < 0)) |r|) = true := by
  obtain ⟨d, e, s⟩ := FromRat_correct g r m hm
    (bitLen_lt_of_lt (L := 128) (lt_trans hnum (by norm_num)) (by norm_num))
    (bitLen_lt_of_lt (L := 128) (lt_trans hden (by norm_num)) (by norm_num))
    (memberNat_of_digits hnum) (memberNat_of_digits hden)
  refine ⟨d, e, ?_⟩
  rw [if_neg hr] at s
  have hge : (10 : ℚ) ^ (Spec.Emin - 1) ≤ |r| := by
    rw [← abs_num_div_den]
    have hnz : r.num ≠ 0 := fun h => hr (Rat.num_eq_zero.1 h)
    have h1 : (1 : ℚ) ≤ (r.num.natAbs : ℚ) := by exact_mod_cast Int.natAbs_pos.2 hnz
    have h2 : (r.den : ℚ) ≤ (10 : ℚ) ^ (34 : Int) := by
      have : ((r.den : Nat) : ℚ) ≤ ((10 ^ 34 : Nat) : ℚ) := by exact_mod_cast hden.le
      rw [Nat.cast_pow] at this; exact_mod_cast this
    have h3 : (0 : ℚ) < (r.den : ℚ) := by exact_mod_cast r.den_pos
    rw [le_div_iff₀ h3]
    calc (10 : ℚ) ^ (Spec.Emin - 1) * (r.den : ℚ)
        ≤ (10 : ℚ) ^ (Spec.Emin - 1) * (10 : ℚ) ^ (34 : Int) :=
          mul_le_mul_of_nonneg_left h2 (zpow_pos (by norm_num) _).le
      _ = (10 : ℚ) ^ (Spec.Emin - 1 + 34) := (zpow_add₀ (by norm_num) _ _).symm
      _ ≤ (10 : ℚ) ^ (0 : Int) := zpow_le_zpow_right₀ (by norm_num) (by unfold Spec.Emin; omega)
      _ = 1 := zpow_zero _
      _ ≤ _ := h1
  rw [SpecRound.flushOrRound_eq_roundTo m _ hge] at s
  exact s

/-- **round trip, partial.**  For every finite `d`: `d.Rat(r0)` returns `q`, the exact value of `d`, and
    `FromRat(q)` is `Equal` to `d` (and for `d ≠ 0` denotes exactly `d`, sign included) PROVIDED the
    reduced denominator of `q` is converted exactly by `FromInt` (is `c·10^e` with `c ≤ Cmax`, `e ≤ 6111`; in
    particular: has at most 34 digits — `fromRat_rat_34`).

    What is missing for the full statement: NOTHING that could be proved — the statement without the
    hypothesis is FALSE for the current code (known findings `fromrat-roundtrip-rounded-denominator`,
    `fromrat-operand-beyond-decimal-range`; evaluated on the generated code):
    * `d = -2^110·10^-69` (reduced denominator `2^…·5^69`, 49 digits, not a member): `FromRat(d.Rat(nil))`
      is `-12980742146337069071326240823050239·10^-70 = -Cmax·10^-70`, one unit of the 35th digit off;
    * `d = 18·10^-6149` (denominator `5^6149·2^6148`, 6149 digits): the denominator becomes `+Inf`, the result `0`;
    * `d = 1·10^-6146`: the denominator `10^6146` exceeds the largest Decimal, result `0` (whereas
      `1·10^-6145`, denominator `10^34·10^6111`, satisfies the hypothesis and comes back exactly).
    The hypothesis is sufficient, not necessary (a rounded denominator may still give a quotient that
    rounds back to `d`). -/
theorem fromRat_rat_partial (g : Globals) (d : Gen.Decimal) (r0 : Go.BigRat) (m : Spec.Mode)
    (hm : Spec.Mode.ofNat? g.DefaultRoundingMode.toNat = some m)
    (hs : Gen.Decimal.isSpecial d = false)
    (hden : MemberNat (𝔳[d]).toRat.den) :
    ∃ q d', Gen.Decimal.Rat d r0 = .ok q ∧ q = (𝔳[d]).toRat ∧ Gen.FromRat g q = .ok d' ∧
      Spec.equal 𝔳[d'] 𝔳[d] = true ∧ (q ≠ 0 → (𝔳[d']).same 𝔳[d] = true) :=
  FromRat_Rat g d r0 m hm hs hden

theorem fromRat_rat_34 (g : Globals) (d : Gen.Decimal) (r0 : Go.BigRat) (m : Spec.Mode)
    (hm : Spec.Mode.ofNat? g.DefaultRoundingMode.toNat = some m)
    (hs : Gen.Decimal.isSpecial d = false)
    (hden : (𝔳[d]).toRat.den < 10 ^ 34) :
    ∃ q d', Gen.Decimal.Rat d r0 = .ok q ∧ Gen.FromRat g q = .ok d' ∧
      Spec.equal 𝔳[d'] 𝔳[d] = true := by
  obtain ⟨q, d', a, -, b, c, -⟩ := FromRat_Rat g d r0 m hm hs (memberNat_of_digits hden)
  exact ⟨q, d', a, b, c⟩

/-! ### the hypotheses are satisfiable -/

set_option exponentiation.threshold 400 in
/-- a 257-bit integer (both `QuoRem` loops run), default mode -/
example (g : Globals) (hg : g.DefaultRoundingMode = 0) :
    ∃ r, Gen.FromInt g (2 ^ 256 + 1) = .ok r ∧
      (𝔳[r]).same (if (2 ^ 256 + 1 : Int) = 0 then .fin false 0 0
        else Spec.roundTo .nearestEven (decide ((2 ^ 256 + 1 : Int) < 0))
          (((2 ^ 256 + 1 : Int).natAbs : Nat) : ℚ)) = true :=
  fromInt_default g _ hg (bitLen_lt_of_lt (L := 300) (by decide) (by norm_num))

set_option exponentiation.threshold 400 in
/-- `-10^40`: exact although it has 41 digits -/
example (g : Globals) (hg : g.DefaultRoundingMode = 3) :
    ∃ r, Gen.FromInt g (-(10 ^ 40)) = .ok r ∧ (𝔳[r]).same (Spec.fromInt (-(10 ^ 40))) = true :=
  fromInt_exact g _ .awayFromZero (by rw [hg]; rfl)
    (bitLen_lt_of_lt (L := 300) (by decide) (by norm_num))
    ⟨1, 40, by unfold Spec.Cmax; norm_num, by norm_num, by norm_num⟩

/-- `10^6146` (a 6147-digit integer, 20417 bits) overflows to `+Inf` in every mode -/
example (g : Globals) (m : Spec.Mode) (hm : Spec.Mode.ofNat? g.DefaultRoundingMode.toNat = some m) :
    ∃ r, Gen.FromInt g (((10 ^ 6146 : Nat) : Int)) = .ok r ∧
      𝔳[r] = .inf (decide ((((10 ^ 6146 : Nat) : Int)) < 0)) := by
  have hL : 4 * 6146 + 1 < 2 ^ 63 := by norm_num
  refine fromInt_overflow g _ m hm ?_ ?_
  · rw [Int.natAbs_natCast]
    refine bitLen_lt_of_lt (L := 4 * 6146 + 1) ?_ hL
    exact lt_of_le_of_lt (pow10_le_pow2 _) (Nat.pow_lt_pow_right (by decide) (by omega))
  · rw [Int.natAbs_natCast]
    have h1 : ((Spec.Cmax : ℚ) + 1) ≤ (10 : ℚ) ^ (35 : Int) := by
      have := SpecRound.Cmax_upper
      have h2 : ((Spec.Cmax + 1 : Nat) : ℚ) ≤ ((10 ^ 35 : Nat) : ℚ) := by exact_mod_cast this
      push_cast at h2
      exact_mod_cast h2
    have h2 : (10 : ℚ) ^ (35 : Int) * (10 : ℚ) ^ Spec.Emax = (10 : ℚ) ^ (6146 : Int) := by
      rw [← zpow_add₀ (by norm_num)]; rfl
    have h3 : (10 : ℚ) ^ (6146 : Int) = ((10 ^ 6146 : Nat) : ℚ) := by
      rw [Nat.cast_pow]; exact_mod_cast rfl
    calc ((Spec.Cmax : ℚ) + 1) * (10 : ℚ) ^ Spec.Emax
        ≤ (10 : ℚ) ^ (35 : Int) * (10 : ℚ) ^ Spec.Emax :=
          mul_le_mul_of_nonneg_right h1 (zpow_pos (by norm_num) _).le
      _ = ((10 ^ 6146 : Nat) : ℚ) := by rw [h2, h3]

/-- `1/3` -/
example (g : Globals) (hg : g.DefaultRoundingMode = 0) :
    ∃ d, Gen.FromRat g (1 / 3 : ℚ) = .ok d ∧
      (𝔳[d]).same (Spec.roundTo .nearestEven (decide ((1 / 3 : ℚ) < 0)) |(1 / 3 : ℚ)|) = true :=
  fromRat_correct_34 g _ .nearestEven (by rw [hg]; rfl)
    (by have h : (1 / 3 : ℚ) = ((1 : ℤ) : ℚ) / ((3 : ℤ) : ℚ) := by norm_num
        rw [h, Rat.num_div_eq_of_coprime (by norm_num) (by decide)]; norm_num)
    (by have h : (1 / 3 : ℚ) = ((1 : ℤ) : ℚ) / ((3 : ℤ) : ℚ) := by norm_num
        have h2 := Rat.den_div_eq_of_coprime (a := 1) (b := 3) (by norm_num) (by decide)
        have h3 : (((1 : ℤ) : ℚ) / ((3 : ℤ) : ℚ)).den = 3 := by exact_mod_cast h2
        rw [h, h3]; norm_num)
    (by norm_num)

/-- `-1.5` comes back from `Rat` and `FromRat` -/
example (g : Globals) (hg : g.DefaultRoundingMode = 0) :
    ∃ q d', Gen.Decimal.Rat (Gen.compose true ⟨15, 0⟩ 6175) 0 = .ok q ∧ Gen.FromRat g q = .ok d' ∧
      Spec.equal 𝔳[d'] 𝔳[Gen.compose true ⟨15, 0⟩ 6175] = true := by
  have hv : 𝔳[Gen.compose true ⟨15, 0⟩ 6175] = .fin true 15 (-1) := by
    rw [Sp.interp_compose true ⟨15, 0⟩ 6175 (by unfold Spec.Cmax; decide) (by decide) (by decide)]
    rfl
  refine fromRat_rat_34 g _ 0 .nearestEven (by rw [hg]; rfl) rfl ?_
  rw [hv]
  have h2 := (Rat_bounds true 15 (-1) (by unfold Spec.Cmax; norm_num) (by norm_num) (by norm_num)).2.1
  exact lt_of_le_of_lt h2 (by norm_num)

example : Gen.Decimal.Int_ (Gen.compose true ⟨15, 0⟩ 6175) 7 = .ok (-1) := by
  rw [int_trunc _ _ rfl,
    Sp.interp_compose true ⟨15, 0⟩ 6175 (by unfold Spec.Cmax; decide) (by decide) (by decide)]
  decide

end Props.C10b
