/-
  Property C16, sharpened bands next to the two recorded cancellation findings.

  1. `Expm1`, negative arguments (finding `expm1-small-negative-cancellation`, signature `log10|x| < −21.5`):
     `Props.C16Exp.expm1_accurate` needs `2·10^-21 ≤ |x|` for `x < 0`.  Here: `31/10^23 = 3.1·10^-22 ≤ |x|`
     (`expm1_accurate31`), which is BELOW `10^-21.5 ≈ 3.162·10^-22`: every negative argument outside the recorded
     signature is now covered by a theorem.  How: `D128/Proofs/BandRcp.lean` (only ONE divisor digit is dropped by
     `rcp` for a divisor below `4.9·10^57`; `sub1` is exact on the reciprocal), `D128/Proofs/BandExpm1.lean`
     (absolute error of the working value `≤ 10^-56 + 2·10^-45·|x|`, against `|e^x − 1|/(3·10^34)`).
     What the analysis says about the rest: the working error `10^-56` is a tenth of a unit in the last place for every
     result in `[10^-22, 10^-21)`, so the library is in fact right down to `|x| ≈ 10^-22`; the proofs' sufficient
     condition "within a third of a unit" stops at `3.0003·10^-22`.

  2. `Log`, `Log2`, `Log10` just below 1 (finding `log-just-below-one-cancellation`, signature `1 − X < 10^-20`):
     `Props.C16Log.log_accurate` … need `X ≤ 1 − 7.5·10^-22`.  Here: `X ≤ 1 − 2.1·10^-22` (`log_accurate21`,
     `log2_accurate21`, `log10_accurate21`).  How: `D128/Proofs/BandLogTail.lean` (for the decimal exponent −1 the
     product `1·ln10` is exact and the two final subtractions work on the grid `10^-57`: absolute error `2·10^-57`
     instead of the relative `lam·(4(ln10+2R)+lnM) ≈ 1.9·10^-56`), `D128/Proofs/BandLog.lean` (`log_near_one`: for every
     `X ∈ [0.99, 1)` the working value is within `6.9·10^-57` of `|ln X|`; the old budget was `2.5·10^-56`).
     Remaining budget: table constants 1.0, first reduction 2.0, quotient+series 1.8, final subtractions 2.0 units of
     `10^-57`; the observed error is about one unit, the library fails from about `1 − X < 4.2·10^-24` on.
-/
import D128.Props.C16Exp
import D128.Proofs.BandExpm1
import D128.Proofs.BandLog
set_option autoImplicit false
set_option maxRecDepth 4096
set_option exponentiation.threshold 512

namespace Props.C16Bands
open Gen Spec SpecRound EnclPf ExpAcc D192 Props.C16Exp

/-- the value a bit pattern denotes -/
local notation "𝔳[" d "]" => Spec.interp (Gen.Decimal.lo d) (Gen.Decimal.hi d)

/-! ## 1. Expm1 -/

/-- **Expm1, nearest default mode**, for every bit pattern except negative zero (finding `expm1-negative-zero`) and
negative arguments of magnitude below `3.1·10^-22` (finding `expm1-small-negative-cancellation`; the signature of the
finding is `|x| < 10^-21.5 ≈ 3.162·10^-22`). -/
theorem expm1_accurate_nearest31 (g : Globals) (m : Spec.Mode)
    (hm : Spec.Mode.ofNat? g.DefaultRoundingMode.toNat = some m) (hn : isNearest m = true)
    (d : Gen.Decimal) (ne : Bool)
    (hz : ¬ (Gen.Decimal.IsZero d = true ∧ Gen.Decimal.Signbit d = true))
    (hsmall : ∀ c e, 𝔳[d] = .fin true c e → c ≠ 0 → 31 / 10 ^ 23 ≤ mag c e) :
    ∃ r, Gen.Expm1 g d = .ok r ∧ ¬ Violation .expm1 𝔳[d] 𝔳[r] ne := by
  cases hs : specialCase .expm1 𝔳[d] with
  | some w =>
    obtain ⟨r, hr, hsame⟩ := Sp.Expm1_special g d w (fun z => by
      cases hsb : Gen.Decimal.Signbit d
      · rfl
      · exact absurd ⟨z, hsb⟩ hz) hs
    exact ⟨r, hr, special_no_violation _ _ _ _ ne hs hsame⟩
  | none =>
    obtain ⟨n, c, e, hv, hc0, h1, h2, hn', hc', he'⟩ := general_operand .expm1 d hs
    have hsm : Decimal.Signbit d = true → 31 / 10 ^ 23 ≤ val (argOf d) := by
      intro hsb
      have := hsmall c e (by rw [hv, hn', hsb]) hc0
      rw [hc', he', mag_eq_val d h1] at this; exact this
    obtain ⟨r, hr, hgv, hhuge⟩ := Expm1_ok31 g m hm hn d h1 h2 hsm
    refine ⟨r, hr, ?_⟩
    rw [hv] at hs ⊢
    have hF : realFn .expm1 (X n c e)
        = Real.exp (if Decimal.Signbit d then -absArg d else absArg d) - 1 := by
      rw [hn', hc', he', X_arg d h1]; rfl
    rintro (⟨want, hw, -⟩ | ⟨n', c', e', hx, -, hrest⟩)
    · rw [hs] at hw; cases hw
    · injection hx with e1 e2 e3
      subst e1 e2 e3
      have hbig : hugeArg .expm1 c e = true → (10 : ℝ) ^ (6 : ℕ) ≤ absArg d := by
        intro hh
        unfold hugeArg at hh
        simp only [Bool.and_eq_true, decide_eq_true_eq] at hh
        have hA : (10 : ℝ) ^ (7 : ℤ) ≤ |X n c e| :=
          le_trans (zpow_le_zpow_right₀ (by norm_num) (by omega)) (abs_X_ge n hc0 e)
        rw [hn', hc', he', X_arg d h1] at hA
        have hpos := absArg_pos d h1 h2
        have habs : |if Decimal.Signbit d then -absArg d else absArg d| = absArg d := by
          cases Decimal.Signbit d
          · simp [abs_of_pos hpos]
          · simp [abs_of_pos hpos]
        rw [habs] at hA
        have : (10 : ℝ) ^ (6 : ℕ) ≤ (10 : ℝ) ^ (7 : ℤ) := by norm_num
        linarith
      rcases hrest with ⟨want, -, hex, -, -⟩ | ⟨hh, hnf, -, hsame⟩ | ⟨-, -, hne, -⟩ | ⟨hh, hnt, -, -, -, hsame⟩ | hg
      · simp [exactCase] at hex
      · rw [hhuge (hbig hh), ← hn', hnf] at hsame
        simp [outM1, Enc.interp_inf, Val.same] at hsame
      · exact hne rfl
      · rw [hhuge (hbig hh), ← hn', hnt] at hsame
        simp [outM1, Enc.interp_one, Val.same, Spec.mag] at hsame
      · rw [hF] at hg; exact hgv hg

/-- **Expm1 is accurate to one ulp** (default mode ToNearestEven) outside the two recorded defect regions; the
excluded band of negative arguments is `|x| < 3.1·10^-22`, inside the signature `|x| < 10^-21.5` of the finding. -/
theorem expm1_accurate31 (g : Globals) (d : Gen.Decimal) (hg : g.DefaultRoundingMode = 0)
    (hz : ¬ (Gen.Decimal.IsZero d = true ∧ Gen.Decimal.Signbit d = true))
    (hsmall : ∀ c e, 𝔳[d] = .fin true c e → c ≠ 0 → 31 / 10 ^ 23 ≤ mag c e) :
    ∃ r, Gen.Expm1 g d = .ok r ∧ ¬ Violation .expm1 𝔳[d] 𝔳[r] true :=
  expm1_accurate_nearest31 g .nearestEven (nearestEven_of_zero g hg).1 rfl d true hz hsmall

/-- the hypotheses are satisfiable inside the new band: `Expm1(−3.2·10^-22)` -/
example (g : Globals) (hg : g.DefaultRoundingMode = 0) :
    ∃ r, Gen.Expm1 g (Gen.compose true ⟨32, 0⟩ 6153) = .ok r ∧
      ¬ Violation .expm1 𝔳[Gen.compose true ⟨32, 0⟩ 6153] 𝔳[r] true := by
  have hv : 𝔳[Gen.compose true ⟨32, 0⟩ 6153] = .fin true 32 (-23) := by
    rw [Sp.interp_compose true ⟨32, 0⟩ 6153 (by unfold Spec.Cmax; simp [U128.toNat]) (by decide) (by decide)]
    simp [U128.toNat]
  refine expm1_accurate31 g _ hg (fun h => ?_) (fun c e h hc => ?_)
  · have := h.1
    rw [Sp.IsZero_eq_sig, Enc.decompose_compose true ⟨32, 0⟩ 6153 (by unfold Spec.Cmax; simp [U128.toNat])
      (by decide) (by decide)] at this
    simp [U128.toNat] at this
  · rw [hv] at h
    injection h with _ h2 h3
    rw [← h2, ← h3]
    unfold Spec.mag Spec.pow10
    have : Int.toNat 23 = 23 := rfl
    norm_num [this]

/-! ## 2. Log, Log2, Log10 -/

/-- the working value of `decomposed192.log` for an argument in `[0.99, 1)`: absolute error `≤ 6.9·10^-57` -/
theorem log_near_one (a : decomposed192) (ha : a.sig.toNat ≠ 0)
    (he : -16000 ≤ a.exp.toInt ∧ a.exp.toInt ≤ 16000)
    (hX0 : 99 / 100 ≤ ((D192.val a : ℚ) : ℝ)) (hX1 : ((D192.val a : ℚ) : ℝ) < 1) :
    ∃ (x : decomposed192) (t : Int8),
      Gen.decomposed192.log a = .ok (true, x, t) ∧ (t = 0 ∨ t = 1 ∨ t = -1) ∧
      -5930 ≤ x.exp.toInt ∧ x.exp.toInt ≤ 5500 ∧
      |((D192.val x : ℚ) : ℝ) - (|Real.log ((D192.val a : ℚ) : ℝ)|)| ≤ 69 / 10 ^ 58 :=
  LogAcc.log_near_one a ha he hX0 hX1

/-- **`Log`**: for every finite positive `X ≠ 1` outside `(1 − 2.1·10^-22, 1)` the result is finite, has the sign of
`ln X` and is within one unit in the last place of it (nearest default modes). -/
theorem log_accurate21 (g : Globals) (d : Decimal)
    (hg : g.DefaultRoundingMode = 0 ∨ g.DefaultRoundingMode = 1)
    (h1 : Decimal.isSpecial d = false) (h2 : Decimal.IsZero d = false) (h3 : Decimal.Signbit d = false)
    (c : ℕ) (e : ℤ) (hv : 𝔳[d] = .fin false c e)
    (hX : 1 < (c : ℝ) * (10 : ℝ) ^ e ∨ (c : ℝ) * (10 : ℝ) ^ e ≤ 1 - 21 / 10 ^ 23) :
    ∃ r rc re, Gen.Log g d = .ok r ∧
      𝔳[r] = .fin (decide ((c : ℝ) * (10 : ℝ) ^ e < 1)) rc re ∧
      rc ≤ Spec.Cmax ∧ Spec.Emin ≤ re ∧ re ≤ Spec.Emax ∧
      |(rc : ℝ) * (10 : ℝ) ^ re - (|Real.log ((c : ℝ) * (10 : ℝ) ^ e)|)|
        ≤ (10 : ℝ) ^ (EnclPf.ulpExp (|Real.log ((c : ℝ) * (10 : ℝ) ^ e)|)) :=
  LogAcc.log_accurate21 g d hg h1 h2 h3 c e hv hX

/-- **`Log2`**, outside `(1 − 2.1·10^-22, 1)` -/
theorem log2_accurate21 (g : Globals) (d : Decimal)
    (hg : g.DefaultRoundingMode = 0 ∨ g.DefaultRoundingMode = 1)
    (h1 : Decimal.isSpecial d = false) (h2 : Decimal.IsZero d = false) (h3 : Decimal.Signbit d = false)
    (c : ℕ) (e : ℤ) (hv : 𝔳[d] = .fin false c e)
    (hX : 1 < (c : ℝ) * (10 : ℝ) ^ e ∨ (c : ℝ) * (10 : ℝ) ^ e ≤ 1 - 21 / 10 ^ 23) :
    ∃ r rc re, Gen.Log2 g d = .ok r ∧
      𝔳[r] = .fin (decide ((c : ℝ) * (10 : ℝ) ^ e < 1)) rc re ∧
      rc ≤ Spec.Cmax ∧ Spec.Emin ≤ re ∧ re ≤ Spec.Emax ∧
      |(rc : ℝ) * (10 : ℝ) ^ re - (|Real.logb 2 ((c : ℝ) * (10 : ℝ) ^ e)|)|
        ≤ (10 : ℝ) ^ (EnclPf.ulpExp (|Real.logb 2 ((c : ℝ) * (10 : ℝ) ^ e)|)) :=
  LogAcc.log2_accurate21 g d hg h1 h2 h3 c e hv hX

/-- **`Log10`**, outside `(1 − 2.1·10^-22, 1)` -/
theorem log10_accurate21 (g : Globals) (d : Decimal)
    (hg : g.DefaultRoundingMode = 0 ∨ g.DefaultRoundingMode = 1)
    (h1 : Decimal.isSpecial d = false) (h2 : Decimal.IsZero d = false) (h3 : Decimal.Signbit d = false)
    (c : ℕ) (e : ℤ) (hv : 𝔳[d] = .fin false c e)
    (hX : 1 < (c : ℝ) * (10 : ℝ) ^ e ∨ (c : ℝ) * (10 : ℝ) ^ e ≤ 1 - 21 / 10 ^ 23) :
    ∃ r rc re, Gen.Log10 g d = .ok r ∧
      𝔳[r] = .fin (decide ((c : ℝ) * (10 : ℝ) ^ e < 1)) rc re ∧
      rc ≤ Spec.Cmax ∧ Spec.Emin ≤ re ∧ re ≤ Spec.Emax ∧
      |(rc : ℝ) * (10 : ℝ) ^ re - (|Real.logb 10 ((c : ℝ) * (10 : ℝ) ^ e)|)|
        ≤ (10 : ℝ) ^ (EnclPf.ulpExp (|Real.logb 10 ((c : ℝ) * (10 : ℝ) ^ e)|)) :=
  LogAcc.log10_accurate21 g d hg h1 h2 h3 c e hv hX

/-- the hypotheses are satisfiable inside the new band: `Log(1 − 3·10^-22) = Log(0.9999999999999999999997)` -/
example (g : Globals) (hg : g.DefaultRoundingMode = 0) :
    ∃ r rc re, Gen.Log g (Gen.compose false ⟨1864712049423024125, 542⟩ 6154) = .ok r ∧
      𝔳[r] = .fin (decide (((9999999999999999999997 : ℕ) : ℝ) * (10 : ℝ) ^ (-22 : ℤ) < 1)) rc re ∧
      rc ≤ Spec.Cmax ∧ Spec.Emin ≤ re ∧ re ≤ Spec.Emax ∧
      |(rc : ℝ) * (10 : ℝ) ^ re - (|Real.log (((9999999999999999999997 : ℕ) : ℝ) * (10 : ℝ) ^ (-22 : ℤ))|)|
        ≤ (10 : ℝ) ^ (EnclPf.ulpExp (|Real.log (((9999999999999999999997 : ℕ) : ℝ) * (10 : ℝ) ^ (-22 : ℤ))|)) := by
  have hsig : (⟨1864712049423024125, 542⟩ : U128).toNat = 9999999999999999999997 := by decide
  have hC : (⟨1864712049423024125, 542⟩ : U128).toNat ≤ Spec.Cmax := by
    rw [hsig]; unfold Spec.Cmax; norm_num
  have hv : 𝔳[Gen.compose false ⟨1864712049423024125, 542⟩ 6154]
      = .fin false 9999999999999999999997 (-22) := by
    rw [Sp.interp_compose false _ 6154 hC (by decide) (by decide), hsig]
    rfl
  refine log_accurate21 g _ (Or.inl hg) (Enc.isSpecial_compose false _ 6154 hC (by decide) (by decide)) ?_
    (Enc.Signbit_compose false _ 6154 hC (by decide) (by decide)) _ _ hv (Or.inr ?_)
  · rw [Sp.IsZero_eq_sig, Enc.decompose_compose false _ 6154 hC (by decide) (by decide)]
    simp only [hsig]; decide
  · rw [zpow_neg]; norm_num

end Props.C16Bands
