/-
  Property C19 (part: `Canonical` is a normal form), for ALL 2^128 bit patterns.

  Statements only; the proofs assemble lemmas of `D128/Proofs/Canon*.lean`.  Every theorem is about
  the generated `Gen.Decimal.Canonical` (translation of /repo/decimal.go, two `while` loops) and the
  specification `Spec.canonical` (D128/Spec/Arith.lean) over `Spec.interp d.lo d.hi`.

  * `canonical_spec`        no panic, termination, exactly the specified bits
  * `canonical_eq`          the same as an equation
  * `canonical_same`        non-NaN d: same class, sign and value (`Val.same`)
  * `canonical_sameNum`     all d: same class/sign/value, NaN ↦ NaN
  * `canonical_idem`        `Canonical r = .ok r` for every result r
  * `canonical_eq_iff`      finite d, d': identical bits iff `Spec.equal` and same sign (zeros per sign)
  * `canonical_nan`, `canonical_inf`, `canonical_zero`   payload / garbage bits / zero exponent stripped
  * `canonical_normal`      non-zero finite d: the result coefficient/exponent pair is `Normal`
                            (no room to scale up when e > 0, no trailing zero when e < 0)
  * `canonical_exponent_closest`   among all pairs (c', e') with c' ≤ Cmax and the same value the
                            result has the exponent closest to zero
  * `spec_fuel_enough`      the fuel 40 of `Spec.scaleUp`/`Spec.stripZeros` is enough: the result is
                            a fixed point of both recursions
  * `canonical_eq_iff_nonNaN`  the same equivalence for all non-NaN patterns (infinities included)

  First clause of C19 ("results depend on operand values, not encodings") for the conversions
  proved in C10/C11/C19 — replacing d by any d' denoting the same value (`Val.same`: another cohort
  member, a zero with another exponent, an infinity with other garbage bits) gives
  * `canonical_encoding_independent`  identical canonical bits (any two NaNs too)
  * `int64_encoding_independent`, `int32_…`, `uint64_…`, `uint32_…`   identical results (and panics)
  * `frexp_encoding_independent`      fractions with the same value, identical exponents
-/
import D128.Proofs.CanonCohort
set_option autoImplicit false

namespace Props.C19
open CanonPf

/-- the value a bit pattern denotes -/
local notation "𝔳[" d "]" => Spec.interp (Gen.Decimal.lo d) (Gen.Decimal.hi d)

/-- `Canonical` never panics, terminates, and returns exactly the specified bits. -/
theorem canonical_spec (d : Gen.Decimal) :
    ∃ r, Gen.Decimal.Canonical d = .ok r ∧ (r.lo, r.hi) = Spec.canonical 𝔳[d] :=
  ok_of_triple (Canonical_triple d)

theorem canonical_eq (d : Gen.Decimal) :
    Gen.Decimal.Canonical d = .ok ⟨(Spec.canonical 𝔳[d]).1, (Spec.canonical 𝔳[d]).2⟩ :=
  Canonical_eq d

/-- Value, sign and class are kept (d not NaN; for finite d this is "Equal with the same sign"). -/
theorem canonical_same (d r : Gen.Decimal) (h : Gen.Decimal.Canonical d = .ok r)
    (hn : Gen.Decimal.IsNaN d = false) : Spec.Val.same 𝔳[r] 𝔳[d] = true := by
  rw [interp_canonical d r h]
  exact canonVal_same _ (interp_valid _ _) (by rw [Enc.interp_isNaN]; exact hn)

/-- For every d, NaN included: the result is in the same class with the same sign and value. -/
theorem canonical_sameNum (d r : Gen.Decimal) (h : Gen.Decimal.Canonical d = .ok r) :
    Spec.Val.sameNum 𝔳[r] 𝔳[d] = true := by
  rw [interp_canonical d r h]
  exact canonVal_sameNum _ (interp_valid _ _)

/-- `Canonical` is idempotent, bit for bit. -/
theorem canonical_idem (d r : Gen.Decimal) (h : Gen.Decimal.Canonical d = .ok r) :
    Gen.Decimal.Canonical r = .ok r := by
  have hv := interp_canonical d r h
  rw [Canonical_eq] at h ⊢
  rw [hv, canonical_canonVal _ (interp_valid _ _)]
  exact h

/-- Two finite patterns have identical canonical bits exactly when they are `Equal` and have the
    same sign (so +0 and −0 stay apart, all zeros of one sign coincide). -/
theorem canonical_eq_iff (d d' r r' : Gen.Decimal)
    (hd : Gen.Decimal.isSpecial d = false) (hd' : Gen.Decimal.isSpecial d' = false)
    (h : Gen.Decimal.Canonical d = .ok r) (h' : Gen.Decimal.Canonical d' = .ok r') :
    r = r' ↔ (Spec.equal 𝔳[d] 𝔳[d'] = true ∧ Gen.Decimal.Signbit d = Gen.Decimal.Signbit d') := by
  have hx := interp_valid d.lo d.hi
  have hy := interp_valid d'.lo d'.hi
  rw [Canonical_eq] at h h'
  cases h; cases h'
  rw [Enc.interp_decompose d hd] at hx ⊢
  rw [Enc.interp_decompose d' hd'] at hy ⊢
  rw [← canonical_eq_iff_spec _ _ _ _ _ _ hx hy]
  constructor
  · intro h; injection h with h1 h2; exact Prod.ext h1 h2
  · intro h; rw [h]

/-- NaN payload and sign are stripped. -/
theorem canonical_nan (d : Gen.Decimal) (h : Gen.Decimal.IsNaN d = true) :
    Gen.Decimal.Canonical d = .ok ⟨0, 0x7c00000000000000⟩ := by
  rw [Canonical_eq, CanonPf.canonical_nan d h]

/-- The unused bits of an infinity are stripped, the sign is kept. -/
theorem canonical_inf (d : Gen.Decimal) (h : Gen.Decimal.isInf d = true) :
    Gen.Decimal.Canonical d =
      .ok ⟨0, if Gen.Decimal.Signbit d then 0xf800000000000000 else 0x7800000000000000⟩ := by
  have hs : Gen.Decimal.isSpecial d = true := by rw [Enc.isSpecial_iff, h]; simp
  have hn : ¬ Gen.Decimal.IsNaN d = true := by
    rw [Enc.IsNaN_eq]; rw [Enc.isInf_eq] at h
    simp only [decide_eq_true_eq] at h ⊢; omega
  rw [Canonical_eq, CanonPf.canonical_inf d hs hn]

/-- Every zero becomes the zero with exponent field 0 and the same sign. -/
theorem canonical_zero (d : Gen.Decimal) (h : Gen.Decimal.IsZero d = true) :
    Gen.Decimal.Canonical d = .ok ⟨0, if Gen.Decimal.Signbit d then 0x8000000000000000 else 0⟩ := by
  have hz : (𝔳[d]).isZero = true := by rw [Enc.interp_isZero]; exact h
  have hn := Enc.interp_neg d
  rw [Canonical_eq]
  cases hv : 𝔳[d] with
  | nan n p => rw [hv] at hz; simp [Spec.Val.isZero] at hz
  | inf n => rw [hv] at hz; simp [Spec.Val.isZero] at hz
  | fin n c e =>
    rw [hv] at hz hn
    rw [Enc.isZero_fin] at hz
    simp only [decide_eq_true_eq] at hz
    subst hz
    simp only [Spec.Val.neg] at hn
    rw [CanonPf.canonical_zero, ← hn]

/-- Non-zero finite d: the result is finite with the same sign and a `Normal` coefficient/exponent
    pair — coefficient ≤ Cmax, exponent in range, no room to scale up while the exponent is
    positive, no trailing zero while it is negative. -/
theorem canonical_normal (d r : Gen.Decimal) (h : Gen.Decimal.Canonical d = .ok r)
    (hd : Gen.Decimal.isSpecial d = false) (hz : Gen.Decimal.IsZero d = false) :
    ∃ c e, 𝔳[r] = .fin (Gen.Decimal.Signbit d) c e ∧ Normal c e := by
  have hx := interp_valid d.lo d.hi
  have hz' : (𝔳[d]).isZero = false := by rw [Enc.interp_isZero]; exact hz
  rw [interp_canonical d r h]
  rw [Enc.interp_decompose d hd] at hx hz' ⊢
  rw [Enc.isZero_fin] at hz'
  simp only [decide_eq_false_iff_not] at hz'
  rw [canonVal_fin _ _ _ hz' hx.1 hx.2]
  exact ⟨_, _, rfl, (normPair_props _ _ hz' hx.1 hx.2).1⟩

/-- "Picks the exponent closest to zero that still holds all digits": any other pair (c', e') with
    c' ≤ Cmax denoting the same magnitude has an exponent at least as far from zero. -/
theorem canonical_exponent_closest (d r : Gen.Decimal) (h : Gen.Decimal.Canonical d = .ok r)
    (hd : Gen.Decimal.isSpecial d = false) (hz : Gen.Decimal.IsZero d = false)
    (n : Bool) (c : Nat) (e : Int) (hr : 𝔳[r] = .fin n c e)
    (c' : Nat) (e' : Int) (hc' : c' ≤ Spec.Cmax) (hv : Spec.mag c' e' = Spec.mag c e) :
    e.natAbs ≤ e'.natAbs := by
  obtain ⟨c0, e0, h0, hN⟩ := canonical_normal d r h hd hz
  rw [hr] at h0
  injection h0 with _ hc he
  subst hc; subst he
  exact normal_exp_closest _ _ _ _ hN hc' hv

/-- The fuel 40 in `Spec.scaleUp`/`Spec.stripZeros` is enough for every representable coefficient:
    the pair they return is a fixed point of both (unbounded-fuel) recursions. -/
theorem spec_fuel_enough (c : Nat) (e : Int) (hc : c ≠ 0) (hle : c ≤ Spec.Cmax)
    (he : -6176 ≤ e ∧ e ≤ 6111) (F : Nat) :
    Spec.scaleUp F (normPair c e).1 (normPair c e).2 = normPair c e ∧
    Spec.stripZeros F (normPair c e).1 (normPair c e).2 = normPair c e := by
  obtain ⟨hN, _⟩ := normPair_props c e hc hle he
  constructor
  · apply scaleUp_stop; intro hh; have := hN.up hh.1; omega
  · apply stripZeros_stop; intro hh; exact hN.dn hh.1 hh.2


/-- The equivalence of `canonical_eq_iff` for all non-NaN patterns: an infinity is canonically
    equal only to an infinity of the same sign. -/
theorem canonical_eq_iff_nonNaN (d d' r r' : Gen.Decimal)
    (hd : Gen.Decimal.IsNaN d = false) (hd' : Gen.Decimal.IsNaN d' = false)
    (h : Gen.Decimal.Canonical d = .ok r) (h' : Gen.Decimal.Canonical d' = .ok r') :
    r = r' ↔ (Spec.equal 𝔳[d] 𝔳[d'] = true ∧ Gen.Decimal.Signbit d = Gen.Decimal.Signbit d') := by
  rw [Canonical_eq] at h h'
  cases h; cases h'
  rw [← Enc.interp_neg d, ← Enc.interp_neg d',
    ← canonical_eq_iff_spec' _ _ (interp_valid _ _) (interp_valid _ _)
      (by rw [Enc.interp_isNaN]; exact hd) (by rw [Enc.interp_isNaN]; exact hd')]
  constructor
  · intro h; injection h with h1 h2; exact Prod.ext h1 h2
  · intro h; rw [h]

/-! ## encoding independence of the conversions -/

theorem canonical_encoding_independent (d d' : Gen.Decimal)
    (h : Spec.Val.sameNum 𝔳[d] 𝔳[d'] = true) :
    Gen.Decimal.Canonical d = Gen.Decimal.Canonical d' := by
  rw [Canonical_eq, Canonical_eq, canonical_congr _ _ (interp_valid _ _) (interp_valid _ _) h]

theorem int64_encoding_independent (d d' : Gen.Decimal) (h : Spec.Val.same 𝔳[d] 𝔳[d'] = true) :
    Gen.Decimal.Int64_ d = Gen.Decimal.Int64_ d' := by
  rw [IntConvPf.Int64_eq, IntConvPf.Int64_eq, sat_congr _ _ _ _ h]

theorem int32_encoding_independent (d d' : Gen.Decimal) (h : Spec.Val.same 𝔳[d] 𝔳[d'] = true) :
    Gen.Decimal.Int32_ d = Gen.Decimal.Int32_ d' := by
  rw [IntConvPf.Int32_eq, IntConvPf.Int32_eq, sat_congr _ _ _ _ h]

theorem uint64_encoding_independent (d d' : Gen.Decimal) (h : Spec.Val.same 𝔳[d] 𝔳[d'] = true) :
    Gen.Decimal.Uint64 d = Gen.Decimal.Uint64 d' := by
  rw [IntConvPf.Uint64_eq, IntConvPf.Uint64_eq, sat_congr _ _ _ _ h]

theorem uint32_encoding_independent (d d' : Gen.Decimal) (h : Spec.Val.same 𝔳[d] 𝔳[d'] = true) :
    Gen.Decimal.Uint32 d = Gen.Decimal.Uint32 d' := by
  rw [IntConvPf.Uint32_eq, IntConvPf.Uint32_eq, sat_congr _ _ _ _ h]

theorem frexp_encoding_independent (d d' : Gen.Decimal) (h : Spec.Val.same 𝔳[d] 𝔳[d'] = true) :
    ∃ f e f' e', Gen.Frexp d = .ok (f, e) ∧ Gen.Frexp d' = .ok (f', e') ∧
      Spec.Val.same 𝔳[f] 𝔳[f'] = true ∧ e = e' := by
  obtain ⟨f, e, hf, hv, he⟩ := FrexpPf.Frexp_spec d
  obtain ⟨f', e', hf', hv', he'⟩ := FrexpPf.Frexp_spec d'
  obtain ⟨h1, h2⟩ := frexp_congr _ _ h
  refine ⟨f, e, f', e', hf, hf', by rw [hv, hv']; exact h1, ?_⟩
  apply Int64.toInt_inj.mp
  rw [he, he', h2]

end Props.C19
