/-
  Property C20 (continued): totality — termination without panic — of further generated entry
  points, for EVERY bit pattern of the arguments and EVERY value of `DefaultRoundingMode`
  (`g : Globals`, including invalid mode bytes).  See `D128/Props/C20.lean` for the model and for
  the entry points already covered there.

  Part A.  The exported elementary functions `Sqrt`, `Cbrt`, `Exp`, `Expm1`, `Exp10`, `Exp2`
           (unconditional); `Log`, `Log2`, `Log10`, `Log1p` (all modes that never round towards zero,
           in particular the default; the directed modes under an explicit non-degeneracy hypothesis
           — see `D128/Proofs/TotalLog.lean` for what is missing); `Decimal.PowWithMode` (every mode
           byte, given that its one division `1/d` returns; hence unconditionally for valid modes).
  Part C.  Restatements of correctness results proved for other properties (they include totality):
           Add/Sub/Mul/Quo/QuoRem (`…WithMode`, valid modes), `Decimal.Round` (every mode byte),
           `Decimal.Ceil/Floor`, package `Round/Trunc/Ceil/Floor`, `FromFloat64/32`, `Float64/32`,
           `New`, `Ldexp`.
  Part B.  The working-format layer they are built from (`decomposed192.*`, `uint192.div`) and the
           rounding kernel, with the exact preconditions under which they are total:
           `U192.div` needs a non-zero divisor (else Go's integer-divide-by-zero panic),
           `quo`/`rcp`/`epow`/`epowm1`/`log` need the non-zero operand they divide by or normalise
           (a zero operand makes `for d.sig[2] <= … { d.sig = d.sig.mul64(10000) }` spin forever),
           `reduce192`/`round` need `sig ≠ 0 ∨ trunc ≠ -1` (for `sig = 0, trunc = -1` the kernel
           does not terminate in the directed modes: `D128.Proofs.Total.round_zero_stuck`).
-/
import D128.Proofs.TotalElem
import D128.Proofs.TotalExp2
import D128.Proofs.TotalLog
import D128.Proofs.TotalPow
import D128.Props.C01
import D128.Props.C02
import D128.Props.C02Quo
import D128.Props.C03
import D128.Props.C08
import D128.Props.C09
import D128.Props.C11b
import D128.Props.C18
set_option autoImplicit false

namespace Props.C20b
open D128.Proofs.Total

/-! ## Part A: exported elementary functions -/

theorem Sqrt_total (g : Globals) (d : Gen.Decimal) : ∃ r, Gen.Sqrt g d = .ok r :=
  D128.Proofs.Total.Sqrt_total g d
theorem Cbrt_total (g : Globals) (d : Gen.Decimal) : ∃ r, Gen.Cbrt g d = .ok r :=
  D128.Proofs.Total.Cbrt_total g d
theorem Exp_total (g : Globals) (d : Gen.Decimal) : ∃ r, Gen.Exp g d = .ok r :=
  D128.Proofs.Total.Exp_total g d
theorem Expm1_total (g : Globals) (d : Gen.Decimal) : ∃ r, Gen.Expm1 g d = .ok r :=
  D128.Proofs.Total.Expm1_total g d
theorem Exp10_total (g : Globals) (d : Gen.Decimal) : ∃ r, Gen.Exp10 g d = .ok r :=
  D128.Proofs.Total.Exp10_total g d

theorem Exp2_total (g : Globals) (d : Gen.Decimal) : ∃ r, Gen.Exp2 g d = .ok r :=
  D128.Proofs.Total.Exp2_total g d

/-- the logarithms under every mode byte except ToZero (2), ToNegativeInf (4), ToPositiveInf (5) —
in particular under the package default `DefaultRoundingMode = ToNearestEven` -/
theorem Log_total_modes (g : Globals) (d : Gen.Decimal)
    (hm : g.DefaultRoundingMode ≠ 2 ∧ g.DefaultRoundingMode ≠ 4 ∧ g.DefaultRoundingMode ≠ 5) :
    ∃ r, Gen.Log g d = .ok r := D128.Proofs.Total.Log_total_modes g d hm
theorem Log2_total_modes (g : Globals) (d : Gen.Decimal)
    (hm : g.DefaultRoundingMode ≠ 2 ∧ g.DefaultRoundingMode ≠ 4 ∧ g.DefaultRoundingMode ≠ 5) :
    ∃ r, Gen.Log2 g d = .ok r := D128.Proofs.Total.Log2_total_modes g d hm
theorem Log10_total_modes (g : Globals) (d : Gen.Decimal)
    (hm : g.DefaultRoundingMode ≠ 2 ∧ g.DefaultRoundingMode ≠ 4 ∧ g.DefaultRoundingMode ≠ 5) :
    ∃ r, Gen.Log10 g d = .ok r := D128.Proofs.Total.Log10_total_modes g d hm
theorem Log1p_total_modes (g : Globals) (d : Gen.Decimal)
    (hm : g.DefaultRoundingMode ≠ 2 ∧ g.DefaultRoundingMode ≠ 4 ∧ g.DefaultRoundingMode ≠ 5) :
    ∃ r, Gen.Log1p g d = .ok r := D128.Proofs.Total.Log1p_total_modes g d hm

/-- … and under EVERY mode byte when the working-format logarithm is not the degenerate pair
"zero significand, sticky flag −1" (partial: the hypothesis is not discharged, see `TotalLog`) -/
theorem Log_total_partial (g : Globals) (d : Gen.Decimal)
    (hgood : ∀ r, Gen.decomposed192.log (logArg d) = .ok r → Good r) :
    ∃ r, Gen.Log g d = .ok r := D128.Proofs.Total.Log_total_partial g d hgood
theorem Log2_total_partial (g : Globals) (d : Gen.Decimal)
    (hgood : ∀ r, Gen.decomposed192.log (logArg d) = .ok r → Good r) :
    ∃ r, Gen.Log2 g d = .ok r := D128.Proofs.Total.Log2_total_partial g d hgood
theorem Log10_total_partial (g : Globals) (d : Gen.Decimal)
    (hgood : ∀ r, Gen.decomposed192.log (logArg d) = .ok r → Good r) :
    ∃ r, Gen.Log10 g d = .ok r := D128.Proofs.Total.Log10_total_partial g d hgood

/-- `PowWithMode` for every pair of bit patterns and every VALID mode … -/
theorem PowWithMode_total (d o : Gen.Decimal) (rm : UInt8) (m : Spec.Mode)
    (hm : Spec.Mode.ofNat? rm.toNat = some m) : ∃ r, Gen.Decimal.PowWithMode d o rm = .ok r :=
  PowWithMode_total_of d o rm
    (let ⟨r, h, _⟩ := Props.C02.quo_correct (Gen.one false) d rm m hm; ⟨r, h⟩)
/-- … and for every mode byte whatsoever once the division `1/d` (used only for `o = -1`) returns -/
theorem PowWithMode_total_of_quo (d o : Gen.Decimal) (rm : UInt8)
    (hq : ∃ r, Gen.Decimal.QuoWithMode (Gen.one false) d rm = .ok r) :
    ∃ r, Gen.Decimal.PowWithMode d o rm = .ok r := PowWithMode_total_of d o rm hq
/-- the general path `log → mul → epow → rcp → reduce192` of `Pow` (every mode byte) -/
theorem Pow_general_total (mode : UInt8) (oNeg neg : Bool) (oSig : U128) (oExp : Int16) (dSig : U128)
    (dExp : Int16) (hd : dSig.toNat ≠ 0) :
    ∃ r, PowPf.general mode oNeg neg oSig oExp dSig dExp = .ok r :=
  let ⟨r, h, _⟩ := ok_of_triple_pre (general_triple mode oNeg neg oSig oExp dSig dExp) hd; ⟨r, h⟩

example : ∃ r, Gen.Log ⟨0⟩ ⟨7, 0x3040000000000000⟩ = .ok r := Log_total_modes _ _ (by decide)
example : ∃ r, Gen.Exp2 ⟨2⟩ ⟨300, 0xB040000000000000⟩ = .ok r := Exp2_total _ _

/-- non-trivial instances: a finite positive argument with a non-default (and an invalid) mode -/
example : ∃ r, Gen.Sqrt ⟨3⟩ ⟨2, 0x3040000000000000⟩ = .ok r := Sqrt_total _ _
example : ∃ r, Gen.Exp ⟨200⟩ ⟨1, 0xB040000000000000⟩ = .ok r := Exp_total _ _

/-! ## Part B: the working-format layer -/

/-- the general 192-bit division is exact for every non-zero divisor … -/
theorem U192_div_total (n o : U192) (ho : o.toNat ≠ 0) :
    ∃ q r, Gen.U192.div n o = .ok (q, r) ∧ q.toNat = n.toNat / o.toNat ∧
      r.toNat = n.toNat % o.toNat := U192_div_spec n o ho
/-- … and panics with Go's integer divide by zero otherwise. -/
theorem U192_div_panics (n o : U192) (ho : o.toNat = 0) :
    Gen.U192.div n o = .error .divZero := U192_div_zero n o ho

theorem d192_mul_total (d o : Gen.decomposed192) (t : Int8) :
    ∃ r, Gen.decomposed192.mul d o t = .ok r :=
  let ⟨r, h, _⟩ := D128.Proofs.Total.d192_mul_total d o t; ⟨r, h⟩
theorem d192_pow2_total (d : Gen.decomposed192) (t : Int8) :
    ∃ r, Gen.decomposed192.pow2 d t = .ok r :=
  let ⟨r, h, _⟩ := D128.Proofs.Total.d192_pow2_total d t; ⟨r, h⟩
theorem d192_powexp10_total (d : Gen.decomposed192) (o : Int16) (t : Int8) :
    ∃ r, Gen.decomposed192.powexp10 d o t = .ok r :=
  let ⟨r, h, _⟩ := D128.Proofs.Total.d192_powexp10_total d o t; ⟨r, h⟩
theorem d192_add_total (d o : Gen.decomposed192) (t : Int8) :
    ∃ r, Gen.decomposed192.add d o t = .ok r :=
  let ⟨r, h, _⟩ := D128.Proofs.Total.d192_add_total d o t; ⟨r, h⟩
theorem d192_sub_total (d o : Gen.decomposed192) (t : Int8) :
    ∃ r, Gen.decomposed192.sub d o t = .ok r := D128.Proofs.Total.d192_sub_total d o t
theorem d192_add1_total (d : Gen.decomposed192) (t : Int8) :
    ∃ r, Gen.decomposed192.add1 d t = .ok r :=
  let ⟨r, h, _⟩ := D128.Proofs.Total.d192_add1_total d t; ⟨r, h⟩
theorem d192_sub1_total (d : Gen.decomposed192) (t : Int8) :
    ∃ r, Gen.decomposed192.sub1 d t = .ok r :=
  let ⟨r, h, _⟩ := D128.Proofs.Total.d192_sub1_total d t; ⟨r, h⟩
theorem d192_add1neg_total (d : Gen.decomposed192) (t : Int8) :
    ∃ r, Gen.decomposed192.add1neg d t = .ok r :=
  let ⟨r, h, _⟩ := D128.Proofs.Total.d192_add1neg_total d t; ⟨r, h⟩

theorem d192_quo_total (d o : Gen.decomposed192) (t : Int8) (ho : o.sig.toNat ≠ 0) :
    ∃ r, Gen.decomposed192.quo d o t = .ok r :=
  let ⟨r, h, _⟩ := ok_of_triple_pre (d192_quo_triple divSpec d o t) ho; ⟨r, h⟩
theorem d192_rcp_total (d : Gen.decomposed192) (t : Int8) (hd : d.sig.toNat ≠ 0) :
    ∃ r, Gen.decomposed192.rcp d t = .ok r :=
  let ⟨r, h, _⟩ := ok_of_triple_pre (d192_rcp_triple divSpec d t) hd; ⟨r, h⟩
theorem d192_epow_total (d : Gen.decomposed192) (l10 : Int16) (t : Int8) (hd : d.sig.toNat ≠ 0) :
    ∃ r, Gen.decomposed192.epow d l10 t = .ok r :=
  let ⟨r, h, _⟩ := ok_of_triple_pre (d192_epow_triple divSpec d l10 t) hd; ⟨r, h⟩
theorem d192_epowm1_total (d : Gen.decomposed192) (neg : Bool) (l10 : Int16) (t : Int8)
    (hd : d.sig.toNat ≠ 0) : ∃ r, Gen.decomposed192.epowm1 d neg l10 t = .ok r :=
  let ⟨r, h, _⟩ := ok_of_triple_pre (d192_epowm1_triple divSpec d neg l10 t) hd; ⟨r, h⟩
theorem d192_log_total (d : Gen.decomposed192) (hd : d.sig.toNat ≠ 0) :
    ∃ r, Gen.decomposed192.log d = .ok r :=
  let ⟨r, h, _⟩ := ok_of_triple_pre (d192_log_triple divSpec d) hd; ⟨r, h⟩
theorem d192_log1p_total (d : Gen.decomposed192) (neg : Bool) :
    ∃ r, Gen.decomposed192.log1p d neg = .ok r :=
  let ⟨r, h, _⟩ := D128.Proofs.WordsWide.ok_of_triple (d192_log1p_triple divSpec d neg); ⟨r, h⟩

/-- the rounding kernel, for every mode byte -/
theorem reduce192_total (rm : UInt8) (neg : Bool) (sig : U192) (exp : Int16) (t : Int8)
    (h : sig.toNat ≠ 0 ∨ t ≠ -1) : ∃ r, Gen.RoundingMode.reduce192 rm neg sig exp t = .ok r :=
  D128.Proofs.Total.reduce192_total rm neg sig exp t h

/-! ## Part C: totality contained in correctness theorems of other properties -/

theorem AddWithMode_total (d o : Gen.Decimal) (rm : UInt8) (m : Spec.Mode)
    (hm : Spec.Mode.ofNat? rm.toNat = some m) : ∃ r, Gen.Decimal.AddWithMode d o rm = .ok r :=
  let ⟨r, h, _⟩ := Props.C01.add_correct d o rm m hm; ⟨r, h⟩
theorem SubWithMode_total (d o : Gen.Decimal) (rm : UInt8) (m : Spec.Mode)
    (hm : Spec.Mode.ofNat? rm.toNat = some m) : ∃ r, Gen.Decimal.SubWithMode d o rm = .ok r :=
  let ⟨r, h, _⟩ := Props.C01.sub_correct d o rm m hm; ⟨r, h⟩
theorem MulWithMode_total (d o : Gen.Decimal) (rm : UInt8) (m : Spec.Mode)
    (hm : Spec.Mode.ofNat? rm.toNat = some m) : ∃ r, Gen.Decimal.MulWithMode d o rm = .ok r :=
  let ⟨r, h, _⟩ := Props.C02.mul_correct d o rm m hm; ⟨r, h⟩
theorem QuoWithMode_total (d o : Gen.Decimal) (rm : UInt8) (m : Spec.Mode)
    (hm : Spec.Mode.ofNat? rm.toNat = some m) : ∃ r, Gen.Decimal.QuoWithMode d o rm = .ok r :=
  let ⟨r, h, _⟩ := Props.C02.quo_correct d o rm m hm; ⟨r, h⟩
theorem QuoRemWithMode_total (d o : Gen.Decimal) (rm : UInt8) (m : Spec.Mode)
    (hm : Spec.Mode.ofNat? rm.toNat = some m) : ∃ r, Gen.Decimal.QuoRemWithMode d o rm = .ok r :=
  let ⟨q, r, h, _⟩ := Props.C03.quoRem_correct d o rm m hm; ⟨(q, r), h⟩

/-- the default-mode entry points `Add`, `Sub`, `Mul`, `Quo`, `QuoRem`, `Pow` (valid default mode) -/
theorem Add_total (g : Globals) (d o : Gen.Decimal) (m : Spec.Mode)
    (hm : Spec.Mode.ofNat? g.DefaultRoundingMode.toNat = some m) : ∃ r, Gen.Decimal.Add g d o = .ok r :=
  let ⟨r, h, _⟩ := Props.C01.add_correct_default g d o m hm; ⟨r, h⟩
theorem Sub_total (g : Globals) (d o : Gen.Decimal) (m : Spec.Mode)
    (hm : Spec.Mode.ofNat? g.DefaultRoundingMode.toNat = some m) : ∃ r, Gen.Decimal.Sub g d o = .ok r :=
  let ⟨r, h, _⟩ := Props.C01.sub_correct_default g d o m hm; ⟨r, h⟩
theorem Mul_total (g : Globals) (d o : Gen.Decimal) (m : Spec.Mode)
    (hm : Spec.Mode.ofNat? g.DefaultRoundingMode.toNat = some m) : ∃ r, Gen.Decimal.Mul g d o = .ok r :=
  let ⟨r, h, _⟩ := Props.C02.mul_correct_default g d o m hm; ⟨r, h⟩
theorem Quo_total (g : Globals) (d o : Gen.Decimal) (m : Spec.Mode)
    (hm : Spec.Mode.ofNat? g.DefaultRoundingMode.toNat = some m) : ∃ r, Gen.Decimal.Quo g d o = .ok r :=
  let ⟨r, h, _⟩ := Props.C02.quo_correct_default g d o m hm; ⟨r, h⟩
theorem QuoRem_total (g : Globals) (d o : Gen.Decimal) (m : Spec.Mode)
    (hm : Spec.Mode.ofNat? g.DefaultRoundingMode.toNat = some m) :
    ∃ r, Gen.Decimal.QuoRem g d o = .ok r :=
  let ⟨q, r, h, _⟩ := Props.C03.quoRem_correct_default g d o m hm; ⟨(q, r), h⟩
theorem Pow_total (g : Globals) (d o : Gen.Decimal) (m : Spec.Mode)
    (hm : Spec.Mode.ofNat? g.DefaultRoundingMode.toNat = some m) : ∃ r, Gen.Decimal.Pow g d o = .ok r := by
  rw [Props.C18.pow_default]; exact PowWithMode_total d o _ m hm

/-- `Decimal.Round` for every `dp` and every mode byte -/
theorem Decimal_Round_total (d : Gen.Decimal) (dp : Int64) (rm : UInt8) :
    ∃ r, Gen.Decimal.Round d dp rm = .ok r := Props.C08.round_total d dp rm
theorem Decimal_Ceil_total (d : Gen.Decimal) (dp : Int64) : ∃ r, Gen.Decimal.Ceil d dp = .ok r :=
  let ⟨r, h, _⟩ := Props.C08.ceil_correct d dp; ⟨r, h⟩
theorem Decimal_Floor_total (d : Gen.Decimal) (dp : Int64) : ∃ r, Gen.Decimal.Floor d dp = .ok r :=
  let ⟨r, h, _⟩ := Props.C08.floor_correct d dp; ⟨r, h⟩
theorem Round_total (d : Gen.Decimal) : ∃ r, Gen.Round d = .ok r :=
  let ⟨r, h, _⟩ := Props.C08.pkg_round_correct d; ⟨r, h⟩
theorem Trunc_total (d : Gen.Decimal) : ∃ r, Gen.Trunc d = .ok r :=
  let ⟨r, h, _⟩ := Props.C08.pkg_trunc_correct d; ⟨r, h⟩
theorem Ceil_total (d : Gen.Decimal) : ∃ r, Gen.Ceil d = .ok r :=
  let ⟨r, h, _⟩ := Props.C08.pkg_ceil_correct d; ⟨r, h⟩
theorem Floor_total (d : Gen.Decimal) : ∃ r, Gen.Floor d = .ok r :=
  let ⟨r, h, _⟩ := Props.C08.pkg_floor_correct d; ⟨r, h⟩

theorem FromFloat64_total (g : Globals) (f : Go.F64) (m : Spec.Mode)
    (hm : Spec.Mode.ofNat? g.DefaultRoundingMode.toNat = some m) : ∃ r, Gen.FromFloat64 g f = .ok r :=
  let ⟨r, h, _⟩ := Props.C09.fromFloat64_correct g f m hm; ⟨r, h⟩
theorem FromFloat32_total (g : Globals) (f : Go.F32) (m : Spec.Mode)
    (hm : Spec.Mode.ofNat? g.DefaultRoundingMode.toNat = some m) : ∃ r, Gen.FromFloat32 g f = .ok r :=
  let ⟨r, h, _⟩ := Props.C09.fromFloat32_correct g f m hm; ⟨r, h⟩
theorem Float64_total (d : Gen.Decimal) : ∃ r, Gen.Decimal.Float64 d = .ok r :=
  Props.C09.float64_total d
theorem Float32_total (d : Gen.Decimal) : ∃ r, Gen.Decimal.Float32 d = .ok r :=
  Props.C09.float32_total d

theorem New_total (g : Globals) (sig exp : Int64) (m : Spec.Mode)
    (hm : Spec.Mode.ofNat? g.DefaultRoundingMode.toNat = some m) : ∃ r, Gen.New g sig exp = .ok r :=
  let ⟨r, h, _⟩ := Props.C11b.new_correct g sig exp m hm; ⟨r, h⟩
theorem Ldexp_total (g : Globals) (d : Gen.Decimal) (exp : Int64) (m : Spec.Mode)
    (hm : Spec.Mode.ofNat? g.DefaultRoundingMode.toNat = some m) : ∃ r, Gen.Ldexp g d exp = .ok r :=
  let ⟨r, h, _⟩ := Props.C11b.ldexp_correct g d exp m hm; ⟨r, h⟩

end Props.C20b
