/-
  Property C20 (continued): totality — termination without panic — of further generated entry
  points, for EVERY bit pattern of the arguments and EVERY value of `DefaultRoundingMode`
  (`g : Globals`, including invalid mode bytes).  See `D128/Props/C20.lean` for the model and for
  the entry points already covered there.

  Part A.  The exported elementary functions `Sqrt`, `Cbrt`, `Exp`, `Expm1`, `Exp10`, `Exp2`, `Log`,
           `Log2`, `Log10` (unconditional: every bit pattern, every mode byte; for the logarithms in
           the directed modes this uses the accuracy theorem `LogAcc.log_spec`, see
           `D128/Proofs/TotalLogAll.lean`); `Log1p` (all modes that never round towards zero, in
           particular the default; in the directed modes for arguments with exponent ≥ −3264 —
           `D128/Proofs/TotalLog1pAll.lean` says what is missing and why); `Decimal.PowWithMode`/`Pow` (every mode byte).
  Part C.  Add/Sub/Mul/Quo/QuoRem (`…WithMode` and the default-mode wrappers), `New`, `Ldexp` for
           EVERY mode byte; and restatements of results of other properties that include totality:
           `Decimal.Round` (every mode byte), `Decimal.Ceil/Floor`, package `Round/Trunc/Ceil/Floor`,
           `Float64/32`; `FromFloat64/32` for every bit pattern and every mode byte.
  Part B.  The working-format layer they are built from (`decomposed192.*`, `uint192.div`) and the
           rounding kernel, with the exact preconditions under which they are total:
           `U192.div` needs a non-zero divisor (else Go's integer-divide-by-zero panic),
           `quo`/`rcp`/`epow`/`epowm1`/`log` need the non-zero operand they divide by or normalise
           (a zero operand makes `for d.sig[2] <= … { d.sig = d.sig.mul64(10000) }` spin forever),
           `reduce192`/`round` need `sig ≠ 0 ∨ trunc ≠ -1` (for `sig = 0, trunc = -1` the kernel
           does not terminate in the directed modes: `D128.Proofs.Total.round_zero_stuck`).
-/
import D128.Proofs.TotalElem
import D128.Proofs.TotalExp2
import D128.Proofs.TotalLog
import D128.Proofs.TotalPow
import D128.Proofs.TotalMisc
import D128.Proofs.TotalFloat
import D128.Proofs.TotalLogAll
import D128.Proofs.TotalLog1pAll
import D128.Props.C05
import D128.Gen.ScanText
import D128.Props.C01
import D128.Props.C02
import D128.Props.C02Quo
import D128.Props.C03
import D128.Props.C08
import D128.Props.C09
import D128.Props.C11b
import D128.Props.C18
set_option autoImplicit false

namespace Props.C20b
open D128.Proofs.Total

/-! ## Part A: exported elementary functions -/

theorem Sqrt_total (g : Globals) (d : Gen.Decimal) : ∃ r, Gen.Sqrt g d = .ok r :=
  D128.Proofs.Total.Sqrt_total g d
theorem Cbrt_total (g : Globals) (d : Gen.Decimal) : ∃ r, Gen.Cbrt g d = .ok r :=
  D128.Proofs.Total.Cbrt_total g d
theorem Exp_total (g : Globals) (d : Gen.Decimal) : ∃ r, Gen.Exp g d = .ok r :=
  D128.Proofs.Total.Exp_total g d
theorem Expm1_total (g : Globals) (d : Gen.Decimal) : ∃ r, Gen.Expm1 g d = .ok r :=
  D128.Proofs.Total.Expm1_total g d
theorem Exp10_total (g : Globals) (d : Gen.Decimal) : ∃ r, Gen.Exp10 g d = .ok r :=
  D128.Proofs.Total.Exp10_total g d

theorem Exp2_total (g : Globals) (d : Gen.Decimal) : ∃ r, Gen.Exp2 g d = .ok r :=
  D128.Proofs.Total.Exp2_total g d

/-- the logarithms: every bit pattern, EVERY mode byte (also the directed modes) -/
theorem Log_total (g : Globals) (d : Gen.Decimal) : ∃ r, Gen.Log g d = .ok r :=
  Log_total_all g d
theorem Log2_total (g : Globals) (d : Gen.Decimal) : ∃ r, Gen.Log2 g d = .ok r :=
  Log2_total_all g d
theorem Log10_total (g : Globals) (d : Gen.Decimal) : ∃ r, Gen.Log10 g d = .ok r :=
  Log10_total_all g d
/-- the fact behind it: the working-format logarithm of a finite non-zero `Decimal` is never the pair
"zero significand, sticky flag −1" on which the rounding kernel would spin in the directed modes -/
theorem log_never_degenerate (d : Gen.Decimal) (hs : (d.decompose).1.toNat ≠ 0)
    (r : Bool × Gen.decomposed192 × Int8) (hr : Gen.decomposed192.log (logArg d) = .ok r) :
    r.2.1.sig.toNat ≠ 0 ∨ r.2.2 ≠ -1 := log_good d hs r hr

/-- **partial** — `Log1p`: every mode byte for arguments with exponent `≥ -3264` (decoded biased exponent
`≥ 2912`), and every argument in the modes that never round towards zero.  Missing: the directed modes for
finite arguments below `10^-3264`, where `int16` exponents of the series wrap and the result is wrong anyway
(`Log1p(1e-4000) = +Inf`, `Log1p(1e-3641) = 0`; see `D128/Proofs/TotalLog1pAll.lean`). -/
theorem Log1p_total_partial (g : Globals) (d : Gen.Decimal)
    (h : 2912 ≤ (d.decompose).2.toInt ∨
      (g.DefaultRoundingMode ≠ 2 ∧ g.DefaultRoundingMode ≠ 4 ∧ g.DefaultRoundingMode ≠ 5)) :
    ∃ r, Gen.Log1p g d = .ok r := D128.Proofs.Total.Log1p_total_partial g d h

/-- (earlier, weaker forms, kept for reference) the logarithms under every mode byte except ToZero (2),
ToNegativeInf (4), ToPositiveInf (5); for `Log1p` this is still the best unconditional statement -/
theorem Log_total_modes (g : Globals) (d : Gen.Decimal)
    (hm : g.DefaultRoundingMode ≠ 2 ∧ g.DefaultRoundingMode ≠ 4 ∧ g.DefaultRoundingMode ≠ 5) :
    ∃ r, Gen.Log g d = .ok r := D128.Proofs.Total.Log_total_modes g d hm
theorem Log2_total_modes (g : Globals) (d : Gen.Decimal)
    (hm : g.DefaultRoundingMode ≠ 2 ∧ g.DefaultRoundingMode ≠ 4 ∧ g.DefaultRoundingMode ≠ 5) :
    ∃ r, Gen.Log2 g d = .ok r := D128.Proofs.Total.Log2_total_modes g d hm
theorem Log10_total_modes (g : Globals) (d : Gen.Decimal)
    (hm : g.DefaultRoundingMode ≠ 2 ∧ g.DefaultRoundingMode ≠ 4 ∧ g.DefaultRoundingMode ≠ 5) :
    ∃ r, Gen.Log10 g d = .ok r := D128.Proofs.Total.Log10_total_modes g d hm
theorem Log1p_total_modes (g : Globals) (d : Gen.Decimal)
    (hm : g.DefaultRoundingMode ≠ 2 ∧ g.DefaultRoundingMode ≠ 4 ∧ g.DefaultRoundingMode ≠ 5) :
    ∃ r, Gen.Log1p g d = .ok r := D128.Proofs.Total.Log1p_total_modes g d hm

/-- … and under EVERY mode byte when the working-format logarithm is not the degenerate pair
"zero significand, sticky flag −1" (partial: the hypothesis is not discharged, see `TotalLog`) -/
theorem Log_total_partial (g : Globals) (d : Gen.Decimal)
    (hgood : ∀ r, Gen.decomposed192.log (logArg d) = .ok r → Good r) :
    ∃ r, Gen.Log g d = .ok r := D128.Proofs.Total.Log_total_partial g d hgood
theorem Log2_total_partial (g : Globals) (d : Gen.Decimal)
    (hgood : ∀ r, Gen.decomposed192.log (logArg d) = .ok r → Good r) :
    ∃ r, Gen.Log2 g d = .ok r := D128.Proofs.Total.Log2_total_partial g d hgood
theorem Log10_total_partial (g : Globals) (d : Gen.Decimal)
    (hgood : ∀ r, Gen.decomposed192.log (logArg d) = .ok r → Good r) :
    ∃ r, Gen.Log10 g d = .ok r := D128.Proofs.Total.Log10_total_partial g d hgood

/-- `PowWithMode` / `Pow` for every pair of bit patterns and EVERY mode byte -/
theorem PowWithMode_total (d o : Gen.Decimal) (rm : UInt8) :
    ∃ r, Gen.Decimal.PowWithMode d o rm = .ok r := PowWithMode_total_all d o rm
theorem Pow_total (g : Globals) (d o : Gen.Decimal) : ∃ r, Gen.Decimal.Pow g d o = .ok r :=
  Pow_total_all g d o
/-- the general path `log → mul → epow → rcp → reduce192` of `Pow` (every mode byte) -/
theorem Pow_general_total (mode : UInt8) (oNeg neg : Bool) (oSig : U128) (oExp : Int16) (dSig : U128)
    (dExp : Int16) (hd : dSig.toNat ≠ 0) :
    ∃ r, PowPf.general mode oNeg neg oSig oExp dSig dExp = .ok r :=
  let ⟨r, h, _⟩ := ok_of_triple_pre (general_triple mode oNeg neg oSig oExp dSig dExp) hd; ⟨r, h⟩

example : ∃ r, Gen.Log ⟨0⟩ ⟨7, 0x3040000000000000⟩ = .ok r := Log_total_modes _ _ (by decide)
example : ∃ r, Gen.Log10 ⟨4⟩ ⟨7, 0x3030000000000000⟩ = .ok r := Log10_total _ _
example : ∃ r, Gen.Log1p ⟨5⟩ ⟨7, 0x3030000000000000⟩ = .ok r := Log1p_total_partial _ _ (Or.inl (by decide))
example : ∃ r, Gen.Exp2 ⟨2⟩ ⟨300, 0xB040000000000000⟩ = .ok r := Exp2_total _ _

/-- non-trivial instances: a finite positive argument with a non-default (and an invalid) mode -/
example : ∃ r, Gen.Sqrt ⟨3⟩ ⟨2, 0x3040000000000000⟩ = .ok r := Sqrt_total _ _
example : ∃ r, Gen.Exp ⟨200⟩ ⟨1, 0xB040000000000000⟩ = .ok r := Exp_total _ _

/-! ## Part B: the working-format layer -/

/-- the general 192-bit division is exact for every non-zero divisor … -/
theorem U192_div_total (n o : U192) (ho : o.toNat ≠ 0) :
    ∃ q r, Gen.U192.div n o = .ok (q, r) ∧ q.toNat = n.toNat / o.toNat ∧
      r.toNat = n.toNat % o.toNat := D128.Proofs.Total.U192_div_spec n o ho
/-- … and panics with Go's integer divide by zero otherwise. -/
theorem U192_div_panics (n o : U192) (ho : o.toNat = 0) :
    Gen.U192.div n o = .error .divZero := D128.Proofs.Total.U192_div_zero n o ho

theorem d192_mul_total (d o : Gen.decomposed192) (t : Int8) :
    ∃ r, Gen.decomposed192.mul d o t = .ok r :=
  let ⟨r, h, _⟩ := D128.Proofs.Total.d192_mul_total d o t; ⟨r, h⟩
theorem d192_pow2_total (d : Gen.decomposed192) (t : Int8) :
    ∃ r, Gen.decomposed192.pow2 d t = .ok r :=
  let ⟨r, h, _⟩ := D128.Proofs.Total.d192_pow2_total d t; ⟨r, h⟩
theorem d192_powexp10_total (d : Gen.decomposed192) (o : Int16) (t : Int8) :
    ∃ r, Gen.decomposed192.powexp10 d o t = .ok r :=
  let ⟨r, h, _⟩ := D128.Proofs.Total.d192_powexp10_total d o t; ⟨r, h⟩
theorem d192_add_total (d o : Gen.decomposed192) (t : Int8) :
    ∃ r, Gen.decomposed192.add d o t = .ok r :=
  let ⟨r, h, _⟩ := D128.Proofs.Total.d192_add_total d o t; ⟨r, h⟩
theorem d192_sub_total (d o : Gen.decomposed192) (t : Int8) :
    ∃ r, Gen.decomposed192.sub d o t = .ok r := D128.Proofs.Total.d192_sub_total d o t
theorem d192_add1_total (d : Gen.decomposed192) (t : Int8) :
    ∃ r, Gen.decomposed192.add1 d t = .ok r :=
  let ⟨r, h, _⟩ := D128.Proofs.Total.d192_add1_total d t; ⟨r, h⟩
theorem d192_sub1_total (d : Gen.decomposed192) (t : Int8) :
    ∃ r, Gen.decomposed192.sub1 d t = .ok r :=
  let ⟨r, h, _⟩ := D128.Proofs.Total.d192_sub1_total d t; ⟨r, h⟩
theorem d192_add1neg_total (d : Gen.decomposed192) (t : Int8) :
    ∃ r, Gen.decomposed192.add1neg d t = .ok r :=
  let ⟨r, h, _⟩ := D128.Proofs.Total.d192_add1neg_total d t; ⟨r, h⟩

theorem d192_quo_total (d o : Gen.decomposed192) (t : Int8) (ho : o.sig.toNat ≠ 0) :
    ∃ r, Gen.decomposed192.quo d o t = .ok r :=
  let ⟨r, h, _⟩ := ok_of_triple_pre (d192_quo_triple divSpec d o t) ho; ⟨r, h⟩
theorem d192_rcp_total (d : Gen.decomposed192) (t : Int8) (hd : d.sig.toNat ≠ 0) :
    ∃ r, Gen.decomposed192.rcp d t = .ok r :=
  let ⟨r, h, _⟩ := ok_of_triple_pre (d192_rcp_triple divSpec d t) hd; ⟨r, h⟩
theorem d192_epow_total (d : Gen.decomposed192) (l10 : Int16) (t : Int8) (hd : d.sig.toNat ≠ 0) :
    ∃ r, Gen.decomposed192.epow d l10 t = .ok r :=
  let ⟨r, h, _⟩ := ok_of_triple_pre (d192_epow_triple divSpec d l10 t) hd; ⟨r, h⟩
theorem d192_epowm1_total (d : Gen.decomposed192) (neg : Bool) (l10 : Int16) (t : Int8)
    (hd : d.sig.toNat ≠ 0) : ∃ r, Gen.decomposed192.epowm1 d neg l10 t = .ok r :=
  let ⟨r, h, _⟩ := ok_of_triple_pre (d192_epowm1_triple divSpec d neg l10 t) hd; ⟨r, h⟩
theorem d192_log_total (d : Gen.decomposed192) (hd : d.sig.toNat ≠ 0) :
    ∃ r, Gen.decomposed192.log d = .ok r :=
  let ⟨r, h, _⟩ := ok_of_triple_pre (d192_log_triple divSpec d) hd; ⟨r, h⟩
theorem d192_log1p_total (d : Gen.decomposed192) (neg : Bool) :
    ∃ r, Gen.decomposed192.log1p d neg = .ok r :=
  let ⟨r, h, _⟩ := D128.Proofs.WordsWide.ok_of_triple (d192_log1p_triple divSpec d neg); ⟨r, h⟩

/-- the rounding kernel, for every mode byte -/
theorem reduce192_total (rm : UInt8) (neg : Bool) (sig : U192) (exp : Int16) (t : Int8)
    (h : sig.toNat ≠ 0 ∨ t ≠ -1) : ∃ r, Gen.RoundingMode.reduce192 rm neg sig exp t = .ok r :=
  D128.Proofs.Total.reduce192_total rm neg sig exp t h

/-! ## Part C: totality contained in correctness theorems of other properties -/

/-- the five arithmetic operations for every pair of bit patterns and EVERY mode byte (the correctness
theorems `Props.C01/C02/C03` cover the six valid modes; the invalid ones are handled in
`D128/Proofs/TotalAdd.lean`, `TotalQuo.lean`, `TotalQuoRem.lean`, `TotalMisc.lean`) -/
theorem AddWithMode_total (d o : Gen.Decimal) (rm : UInt8) : ∃ r, Gen.Decimal.AddWithMode d o rm = .ok r :=
  AddWithMode_total_all d o rm
theorem SubWithMode_total (d o : Gen.Decimal) (rm : UInt8) : ∃ r, Gen.Decimal.SubWithMode d o rm = .ok r :=
  SubWithMode_total_all d o rm
theorem MulWithMode_total (d o : Gen.Decimal) (rm : UInt8) : ∃ r, Gen.Decimal.MulWithMode d o rm = .ok r :=
  MulWithMode_total_all d o rm
theorem QuoWithMode_total (d o : Gen.Decimal) (rm : UInt8) : ∃ r, Gen.Decimal.QuoWithMode d o rm = .ok r :=
  QuoWithMode_total_all d o rm
theorem QuoRemWithMode_total (d o : Gen.Decimal) (rm : UInt8) :
    ∃ r, Gen.Decimal.QuoRemWithMode d o rm = .ok r := QuoRemWithMode_total_all d o rm
theorem Add_total (g : Globals) (d o : Gen.Decimal) : ∃ r, Gen.Decimal.Add g d o = .ok r :=
  Add_total_all g d o
theorem Sub_total (g : Globals) (d o : Gen.Decimal) : ∃ r, Gen.Decimal.Sub g d o = .ok r :=
  Sub_total_all g d o
theorem Mul_total (g : Globals) (d o : Gen.Decimal) : ∃ r, Gen.Decimal.Mul g d o = .ok r :=
  Mul_total_all g d o
theorem Quo_total (g : Globals) (d o : Gen.Decimal) : ∃ r, Gen.Decimal.Quo g d o = .ok r :=
  Quo_total_all g d o
theorem QuoRem_total (g : Globals) (d o : Gen.Decimal) : ∃ r, Gen.Decimal.QuoRem g d o = .ok r :=
  QuoRem_total_all g d o

/-- `Decimal.Round` for every `dp` and every mode byte -/
theorem Decimal_Round_total (d : Gen.Decimal) (dp : Int64) (rm : UInt8) :
    ∃ r, Gen.Decimal.Round d dp rm = .ok r := Props.C08.round_total d dp rm
theorem Decimal_Ceil_total (d : Gen.Decimal) (dp : Int64) : ∃ r, Gen.Decimal.Ceil d dp = .ok r :=
  let ⟨r, h, _⟩ := Props.C08.ceil_correct d dp; ⟨r, h⟩
theorem Decimal_Floor_total (d : Gen.Decimal) (dp : Int64) : ∃ r, Gen.Decimal.Floor d dp = .ok r :=
  let ⟨r, h, _⟩ := Props.C08.floor_correct d dp; ⟨r, h⟩
theorem Round_total (d : Gen.Decimal) : ∃ r, Gen.Round d = .ok r :=
  let ⟨r, h, _⟩ := Props.C08.pkg_round_correct d; ⟨r, h⟩
theorem Trunc_total (d : Gen.Decimal) : ∃ r, Gen.Trunc d = .ok r :=
  let ⟨r, h, _⟩ := Props.C08.pkg_trunc_correct d; ⟨r, h⟩
theorem Ceil_total (d : Gen.Decimal) : ∃ r, Gen.Ceil d = .ok r :=
  let ⟨r, h, _⟩ := Props.C08.pkg_ceil_correct d; ⟨r, h⟩
theorem Floor_total (d : Gen.Decimal) : ∃ r, Gen.Floor d = .ok r :=
  let ⟨r, h, _⟩ := Props.C08.pkg_floor_correct d; ⟨r, h⟩

/-- every float64 bit pattern, every `DefaultRoundingMode` byte (C09 covers the five valid modes) -/
theorem FromFloat64_total (g : Globals) (f : Go.F64) : ∃ r, Gen.FromFloat64 g f = .ok r :=
  FromFloat64_total_all g f
theorem FromFloat32_total (g : Globals) (f : Go.F32) : ∃ r, Gen.FromFloat32 g f = .ok r :=
  FromFloat32_total_all g f
theorem Float64_total (d : Gen.Decimal) : ∃ r, Gen.Decimal.Float64 d = .ok r :=
  Props.C09.float64_total d
theorem Float32_total (d : Gen.Decimal) : ∃ r, Gen.Decimal.Float32 d = .ok r :=
  Props.C09.float32_total d

theorem New_total (g : Globals) (sig exp : Int64) : ∃ r, Gen.New g sig exp = .ok r :=
  New_total_all g sig exp
theorem Ldexp_total (g : Globals) (d : Gen.Decimal) (exp : Int64) : ∃ r, Gen.Ldexp g d exp = .ok r :=
  Ldexp_total_all g d exp

/-! ## Part D: the text entry points built on `parse` (from C05), with the documented panic -/

theorem Parse_total (g : Globals) (s : Go.Bytes) (hsz : s.size < 2^63) :
    ∃ r, Gen.Parse g s = .ok r := by
  obtain ⟨r, e, h, _⟩ := Props.C05.parse_total g s 6 hsz
  exact ⟨(r, e), by unfold Gen.Parse; rw [h]⟩

theorem UnmarshalText_total (g : Globals) (d : Gen.Decimal) (data : Go.Bytes) (hsz : data.size < 2^63) :
    ∃ r, Gen.Decimal.UnmarshalText g d data = .ok r := by
  obtain ⟨r, e, h, _⟩ := Props.C05.parse_total g data 8 hsz
  unfold Gen.Decimal.UnmarshalText
  rw [h]
  by_cases he : e = .nil
  · subst he; exact ⟨_, rfl⟩
  · refine ⟨(d, e), ?_⟩
    simp [bind, Except.bind, he, pure, Except.pure]

/-- `MustParse` panics exactly when `parse` reports an error (the documented panic), and returns the
parsed value otherwise; it never fails in any other way -/
theorem MustParse_panics_iff (g : Globals) (s : Go.Bytes) (hsz : s.size < 2^63) :
    ∃ r e, Gen.parse g s 4 = .ok (r, e) ∧
      (e = .nil → Gen.MustParse g s = .ok r) ∧
      (e ≠ .nil → Gen.MustParse g s = .error (.explicit "panic")) := by
  obtain ⟨r, e, h, _⟩ := Props.C05.parse_total g s 4 hsz
  refine ⟨r, e, h, ?_, ?_⟩
  · intro he; subst he; unfold Gen.MustParse; rw [h]; rfl
  · intro he; unfold Gen.MustParse; rw [h]
    simp [bind, Except.bind, he, throw, throwThe, MonadExceptOf.throw]

example : ∃ r, Gen.Parse ⟨0⟩ "1.5e3".toUTF8.data = .ok r := Parse_total _ _ (by decide)

end Props.C20b
