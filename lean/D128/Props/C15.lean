/-
  Property C15: every arithmetic and elementary function handles special operands (NaN, ±Inf, ±0)
  as IEEE 754 / Go's `math` package prescribe, and a NaN created by an invalid operation carries a
  payload naming the operation and the operand classes.  Proved for the *prologues* (the loop-free
  dispatch code that runs before any real arithmetic), for ALL bit patterns (2^128 per operand),
  every rounding-mode byte `m` of the code and every mode `m'` of the specification (the special
  cases do not depend on the mode).  Each theorem also shows that the call does not panic.

  Statements only; the proofs assemble lemmas of `D128/Proofs/Specials*.lean`.  Every theorem is
  about the generated definitions `Gen.*` (translation of /repo/arith.go, exp.go, rounding.go,
  compare.go, payload.go) and the specification `Spec.*` (D128/Spec/Arith.lean, D128/Spec/Elem.lean)
  over 𝔳[d] = `Spec.interp d.lo d.hi`.

  0. wrappers      `add_eq_withMode`, `sub_eq_withMode`, `mul_eq_withMode`, `quo_eq_withMode`,
                   `quoRem_eq_withMode`, `pow_eq_withMode`
  1. special operand of a binary operation
                   `add_special`, `sub_special`, `mul_special`, `quo_special`,
                   `add_nan_left/right`, … (`NaN` operands returned bit for bit, first one wins),
                   `inf_sub_inf_payload`, `zero_mul_inf_payload`, `inf_quo_inf_payload`
  2. zero operand of the finite path
                   `add_zero`, `sub_zero`, `mul_zero`, `quo_zero`, bit-level forms `add_zero_right_bits`,
                   `add_zero_left_bits`, `add_zero_zero_bits`, `mul_zero_bits`, `quo_by_zero_bits`,
                   `zero_quo_bits`, `zero_quo_zero_bits`, `zero_quo_zero_payload`,
                   and the combined prologue theorems `add_prologue`, `sub_prologue`, `mul_prologue`,
                   `quo_prologue` (special or zero operand), with the default-mode forms `add_prologue_default`, …
  3. QuoRem        `quoRem_special`, `quoRem_zero`, `quoRem_prologue`
  4. unary         `exp_special`, `exp2_special`, `exp10_special`, `expm1_special` (negative zero excluded),
                   `expm1_neg_zero`, `expm1_neg_zero_bits` (known defect: Expm1(-0) = +0),
                   `log_special`, `log2_special`, `log10_special`, `log1p_special`, `sqrt_special`,
                   `cbrt_special`, the table-driven form `elem_special`, and `*_nan` (bit for bit)
  5. quantisation  `round_special`, `ceil_special`, `floor_special`, `round_zero`, `ceil_zero`, `floor_zero`,
                   `round_spec`, `ceil_spec`, `floor_spec`; `min_nan_left/right`, `max_nan_left/right`,
                   `min_nan_spec`, `max_nan_spec`
  6. `no_nan_from_finite`
  7. `payload_decode`, `payload_eq`, `payload_panics_iff_not_nan`, `payload_of_same`
-/
import D128.Proofs.Specials
import D128.Proofs.SpecialsUnary
import D128.Proofs.SpecialsLog1p
import D128.Proofs.SpecialsZero
import D128.Proofs.SpecialsMisc
set_option autoImplicit false

namespace Props.C15

/-- the value a bit pattern denotes -/
local notation "𝔳[" d "]" => Spec.interp (Gen.Decimal.lo d) (Gen.Decimal.hi d)

/-! ## 0. The default-mode entry points are the `WithMode` functions at `g.DefaultRoundingMode` -/

theorem add_eq_withMode (g : Globals) (d o : Gen.Decimal) :
    Gen.Decimal.Add g d o = Gen.Decimal.AddWithMode d o g.DefaultRoundingMode := Sp.Add_eq g d o
theorem sub_eq_withMode (g : Globals) (d o : Gen.Decimal) :
    Gen.Decimal.Sub g d o = Gen.Decimal.SubWithMode d o g.DefaultRoundingMode := Sp.Sub_eq g d o
theorem mul_eq_withMode (g : Globals) (d o : Gen.Decimal) :
    Gen.Decimal.Mul g d o = Gen.Decimal.MulWithMode d o g.DefaultRoundingMode := Sp.Mul_eq g d o
theorem quo_eq_withMode (g : Globals) (d o : Gen.Decimal) :
    Gen.Decimal.Quo g d o = Gen.Decimal.QuoWithMode d o g.DefaultRoundingMode := Sp.Quo_eq g d o
theorem quoRem_eq_withMode (g : Globals) (d o : Gen.Decimal) :
    Gen.Decimal.QuoRem g d o = Gen.Decimal.QuoRemWithMode d o g.DefaultRoundingMode := Sp.QuoRem_eq g d o
theorem pow_eq_withMode (g : Globals) (d o : Gen.Decimal) :
    Gen.Decimal.Pow g d o = Gen.Decimal.PowWithMode d o g.DefaultRoundingMode := Sp.Pow_eq g d o

/-! ## 1. Binary arithmetic with a special operand (NaN or ±Inf) -/

theorem add_special (d o : Gen.Decimal) (m : UInt8) (m' : Spec.Mode)
    (h : Gen.Decimal.isSpecial d = true ∨ Gen.Decimal.isSpecial o = true) :
    ∃ r, Gen.Decimal.AddWithMode d o m = .ok r ∧ (𝔳[r]).same (Spec.add m' 𝔳[d] 𝔳[o]) = true :=
  Sp.AddWithMode_special d o m m' h

theorem sub_special (d o : Gen.Decimal) (m : UInt8) (m' : Spec.Mode)
    (h : Gen.Decimal.isSpecial d = true ∨ Gen.Decimal.isSpecial o = true) :
    ∃ r, Gen.Decimal.SubWithMode d o m = .ok r ∧ (𝔳[r]).same (Spec.sub m' 𝔳[d] 𝔳[o]) = true :=
  Sp.SubWithMode_special d o m m' h

theorem mul_special (d o : Gen.Decimal) (m : UInt8) (m' : Spec.Mode)
    (h : Gen.Decimal.isSpecial d = true ∨ Gen.Decimal.isSpecial o = true) :
    ∃ r, Gen.Decimal.MulWithMode d o m = .ok r ∧ (𝔳[r]).same (Spec.mul m' 𝔳[d] 𝔳[o]) = true :=
  Sp.MulWithMode_special d o m m' h

theorem quo_special (d o : Gen.Decimal) (m : UInt8) (m' : Spec.Mode)
    (h : Gen.Decimal.isSpecial d = true ∨ Gen.Decimal.isSpecial o = true) :
    ∃ r, Gen.Decimal.QuoWithMode d o m = .ok r ∧ (𝔳[r]).same (Spec.quo m' 𝔳[d] 𝔳[o]) = true :=
  Sp.QuoWithMode_special d o m m' h

/-- NaN operands are propagated unchanged, bit for bit; the first NaN operand wins. -/
theorem add_nan_left (d o : Gen.Decimal) (m : UInt8) (h : Gen.Decimal.IsNaN d = true) :
    Gen.Decimal.AddWithMode d o m = .ok d := Sp.AddWithMode_nan_left d o m h
theorem add_nan_right (d o : Gen.Decimal) (m : UInt8) (hd : Gen.Decimal.IsNaN d = false)
    (h : Gen.Decimal.IsNaN o = true) : Gen.Decimal.AddWithMode d o m = .ok o :=
  Sp.AddWithMode_nan_right d o m hd h
theorem sub_nan_left (d o : Gen.Decimal) (m : UInt8) (h : Gen.Decimal.IsNaN d = true) :
    Gen.Decimal.SubWithMode d o m = .ok d := Sp.SubWithMode_nan_left d o m h
theorem sub_nan_right (d o : Gen.Decimal) (m : UInt8) (hd : Gen.Decimal.IsNaN d = false)
    (h : Gen.Decimal.IsNaN o = true) : Gen.Decimal.SubWithMode d o m = .ok o :=
  Sp.SubWithMode_nan_right d o m hd h
theorem mul_nan_left (d o : Gen.Decimal) (m : UInt8) (h : Gen.Decimal.IsNaN d = true) :
    Gen.Decimal.MulWithMode d o m = .ok d := Sp.MulWithMode_nan_left d o m h
theorem mul_nan_right (d o : Gen.Decimal) (m : UInt8) (hd : Gen.Decimal.IsNaN d = false)
    (h : Gen.Decimal.IsNaN o = true) : Gen.Decimal.MulWithMode d o m = .ok o :=
  Sp.MulWithMode_nan_right d o m hd h
theorem quo_nan_left (d o : Gen.Decimal) (m : UInt8) (h : Gen.Decimal.IsNaN d = true) :
    Gen.Decimal.QuoWithMode d o m = .ok d := Sp.QuoWithMode_nan_left d o m h
theorem quo_nan_right (d o : Gen.Decimal) (m : UInt8) (hd : Gen.Decimal.IsNaN d = false)
    (h : Gen.Decimal.IsNaN o = true) : Gen.Decimal.QuoWithMode d o m = .ok o :=
  Sp.QuoWithMode_nan_right d o m hd h
theorem quoRem_nan_left (d o : Gen.Decimal) (m : UInt8) (h : Gen.Decimal.IsNaN d = true) :
    Gen.Decimal.QuoRemWithMode d o m = .ok (d, d) := Sp.QuoRemWithMode_nan_left d o m h
theorem quoRem_nan_right (d o : Gen.Decimal) (m : UInt8) (hd : Gen.Decimal.IsNaN d = false)
    (h : Gen.Decimal.IsNaN o = true) : Gen.Decimal.QuoRemWithMode d o m = .ok (o, o) :=
  Sp.QuoRemWithMode_nan_right d o m hd h

/-- Inf − Inf (equal signs): the result is a NaN whose decoded payload is
    `sub | class(lhs) << 8 | class(rhs) << 16`. -/
theorem inf_sub_inf_payload (d o : Gen.Decimal) (m : UInt8)
    (hd : Gen.Decimal.isInf d = true) (ho : Gen.Decimal.isInf o = true)
    (hs : Gen.Decimal.Signbit d = Gen.Decimal.Signbit o) :
    ∃ r, Gen.Decimal.SubWithMode d o m = .ok r ∧
      Gen.Decimal.Payload_ r = .ok (Spec.Op.sub.code ||| Spec.classCode 𝔳[d] <<< 8 ||| Spec.classCode 𝔳[o] <<< 16) := by
  have hsp : Gen.Decimal.isSpecial d = true := by rw [Enc.isSpecial_iff, hd, Bool.or_true]
  obtain ⟨r, hr, hsame⟩ := sub_special d o m .nearestEven (Or.inl hsp)
  refine ⟨r, hr, Sp.payload_of_same r false _ ?_⟩
  rw [Sp.view_inf d hd, Sp.view_inf o ho, hs] at hsame ⊢
  simpa [Spec.sub, Spec.addCore, Spec.negate, Spec.invalid2, Spec.invalid] using hsame

/-- Inf + (−Inf): payload `add | class(lhs) << 8 | class(rhs) << 16`. -/
theorem inf_add_neg_inf_payload (d o : Gen.Decimal) (m : UInt8)
    (hd : Gen.Decimal.isInf d = true) (ho : Gen.Decimal.isInf o = true)
    (hs : Gen.Decimal.Signbit d ≠ Gen.Decimal.Signbit o) :
    ∃ r, Gen.Decimal.AddWithMode d o m = .ok r ∧
      Gen.Decimal.Payload_ r = .ok (Spec.Op.add.code ||| Spec.classCode 𝔳[d] <<< 8 ||| Spec.classCode 𝔳[o] <<< 16) := by
  have hsp : Gen.Decimal.isSpecial d = true := by rw [Enc.isSpecial_iff, hd, Bool.or_true]
  obtain ⟨r, hr, hsame⟩ := add_special d o m .nearestEven (Or.inl hsp)
  refine ⟨r, hr, Sp.payload_of_same r false _ ?_⟩
  rw [Sp.view_inf d hd, Sp.view_inf o ho] at hsame ⊢
  simpa [Spec.add, Spec.addCore, Spec.invalid2, Spec.invalid, hs] using hsame

/-- 0 × Inf and Inf × 0: payload `mul | class(lhs) << 8 | class(rhs) << 16`. -/
theorem zero_mul_inf_payload (d o : Gen.Decimal) (m : UInt8)
    (h : (Gen.Decimal.IsZero d = true ∧ Gen.Decimal.isInf o = true) ∨
         (Gen.Decimal.isInf d = true ∧ Gen.Decimal.IsZero o = true)) :
    ∃ r, Gen.Decimal.MulWithMode d o m = .ok r ∧
      Gen.Decimal.Payload_ r = .ok (Spec.Op.mul.code ||| Spec.classCode 𝔳[d] <<< 8 ||| Spec.classCode 𝔳[o] <<< 16) := by
  have hsp : Gen.Decimal.isSpecial d = true ∨ Gen.Decimal.isSpecial o = true := by
    rcases h with ⟨_, h⟩ | ⟨h, _⟩
    · right; rw [Enc.isSpecial_iff, h, Bool.or_true]
    · left; rw [Enc.isSpecial_iff, h, Bool.or_true]
  obtain ⟨r, hr, hsame⟩ := mul_special d o m .nearestEven hsp
  refine ⟨r, hr, Sp.payload_of_same r false _ ?_⟩
  rcases h with ⟨hz, hi⟩ | ⟨hi, hz⟩
  · rcases Sp.view d with ⟨_, _, _, a4, _⟩ | ⟨_, _, _, a4, _⟩ | ⟨_, _, _, _, _, _, av⟩ | ⟨_, _, _, a4, _, _, _, _⟩
    all_goals try (rw [hz] at a4; cases a4)
    rw [av, Sp.view_inf o hi] at hsame ⊢
    simpa [Spec.mul, Spec.invalid2, Spec.invalid] using hsame
  · rcases Sp.view o with ⟨_, _, _, a4, _⟩ | ⟨_, _, _, a4, _⟩ | ⟨_, _, _, _, _, _, av⟩ | ⟨_, _, _, a4, _, _, _, _⟩
    all_goals try (rw [hz] at a4; cases a4)
    rw [av, Sp.view_inf d hi] at hsame ⊢
    simpa [Spec.mul, Spec.invalid2, Spec.invalid] using hsame

/-- Inf ÷ Inf: payload `quo | class(lhs) << 8 | class(rhs) << 16`. -/
theorem inf_quo_inf_payload (d o : Gen.Decimal) (m : UInt8)
    (hd : Gen.Decimal.isInf d = true) (ho : Gen.Decimal.isInf o = true) :
    ∃ r, Gen.Decimal.QuoWithMode d o m = .ok r ∧
      Gen.Decimal.Payload_ r = .ok (Spec.Op.quo.code ||| Spec.classCode 𝔳[d] <<< 8 ||| Spec.classCode 𝔳[o] <<< 16) := by
  have hsp : Gen.Decimal.isSpecial d = true := by rw [Enc.isSpecial_iff, hd, Bool.or_true]
  obtain ⟨r, hr, hsame⟩ := quo_special d o m .nearestEven (Or.inl hsp)
  refine ⟨r, hr, Sp.payload_of_same r false _ ?_⟩
  rw [Sp.view_inf d hd, Sp.view_inf o ho] at hsame ⊢
  simpa [Spec.quo, Spec.invalid2, Spec.invalid] using hsame

/-! ## 2. Zero operands of the finite path -/

/-- x + 0, 0 + y, 0 + 0 (−0 only when both signs are negative) -/
theorem add_zero (d o : Gen.Decimal) (m : UInt8) (m' : Spec.Mode)
    (hd : Gen.Decimal.isSpecial d = false) (ho : Gen.Decimal.isSpecial o = false)
    (h : Gen.Decimal.IsZero d = true ∨ Gen.Decimal.IsZero o = true) :
    ∃ r, Gen.Decimal.AddWithMode d o m = .ok r ∧ (𝔳[r]).same (Spec.add m' 𝔳[d] 𝔳[o]) = true :=
  Sp.AddWithMode_zero d o m m' hd ho h

/-- x − 0, 0 − y, 0 − 0 -/
theorem sub_zero (d o : Gen.Decimal) (m : UInt8) (m' : Spec.Mode)
    (hd : Gen.Decimal.isSpecial d = false) (ho : Gen.Decimal.isSpecial o = false)
    (h : Gen.Decimal.IsZero d = true ∨ Gen.Decimal.IsZero o = true) :
    ∃ r, Gen.Decimal.SubWithMode d o m = .ok r ∧ (𝔳[r]).same (Spec.sub m' 𝔳[d] 𝔳[o]) = true :=
  Sp.SubWithMode_zero d o m m' hd ho h

/-- 0 × finite, finite × 0 -/
theorem mul_zero (d o : Gen.Decimal) (m : UInt8) (m' : Spec.Mode)
    (hd : Gen.Decimal.isSpecial d = false) (ho : Gen.Decimal.isSpecial o = false)
    (h : Gen.Decimal.IsZero d = true ∨ Gen.Decimal.IsZero o = true) :
    ∃ r, Gen.Decimal.MulWithMode d o m = .ok r ∧ (𝔳[r]).same (Spec.mul m' 𝔳[d] 𝔳[o]) = true :=
  Sp.MulWithMode_zero d o m m' hd ho h

/-- finite ÷ 0 = ±Inf, 0 ÷ 0 = NaN(payload), 0 ÷ finite = ±0 -/
theorem quo_zero (d o : Gen.Decimal) (m : UInt8) (m' : Spec.Mode)
    (hd : Gen.Decimal.isSpecial d = false) (ho : Gen.Decimal.isSpecial o = false)
    (h : Gen.Decimal.IsZero d = true ∨ Gen.Decimal.IsZero o = true) :
    ∃ r, Gen.Decimal.QuoWithMode d o m = .ok r ∧ (𝔳[r]).same (Spec.quo m' 𝔳[d] 𝔳[o]) = true :=
  Sp.QuoWithMode_zero d o m m' hd ho h

/-! ### the same branches, bit for bit -/

/-- x ± 0 = x (the operand itself, not re-encoded) for non-zero finite x -/
theorem add_zero_right_bits (d o : Gen.Decimal) (m : UInt8) (sub : Bool)
    (hd : Gen.Decimal.IsZero d = false) (ho : Gen.Decimal.IsZero o = true) :
    Gen.Decimal.add d o m sub = .ok d :=
  Sp.add_zero_right d o m sub (by rw [Sp.sigz_eq, hd]) (by rw [Sp.sigz_eq, ho])

/-- 0 + y = y (the operand itself); 0 − y = y with the sign bit flipped -/
theorem add_zero_left_bits (d o : Gen.Decimal) (m : UInt8) (sub : Bool)
    (hd : Gen.Decimal.IsZero d = true) (ho : Gen.Decimal.IsZero o = false) :
    Gen.Decimal.add d o m sub =
      .ok (if sub then Gen.compose (!Gen.Decimal.Signbit o) (Gen.Decimal.decompose o).1 (Gen.Decimal.decompose o).2
           else o) :=
  Sp.add_zero_left d o m sub (by rw [Sp.sigz_eq, hd]) (by rw [Sp.sigz_eq, ho])

/-- 0 ± 0: the canonical zero, negative only when both effective signs are negative -/
theorem add_zero_zero_bits (d o : Gen.Decimal) (m : UInt8) (sub : Bool)
    (hd : Gen.Decimal.IsZero d = true) (ho : Gen.Decimal.IsZero o = true) :
    Gen.Decimal.add d o m sub =
      .ok (Gen.zero (Gen.Decimal.Signbit d &&
        (if sub then !Gen.Decimal.Signbit o else Gen.Decimal.Signbit o))) :=
  Sp.add_zero_zero d o m sub (by rw [Sp.sigz_eq, hd]) (by rw [Sp.sigz_eq, ho])

/-- a zero coefficient gives a zero product (the zero test happens after the multiplication) -/
theorem mul_zero_bits (d o : Gen.Decimal) (m : UInt8)
    (hd : Gen.Decimal.isSpecial d = false) (ho : Gen.Decimal.isSpecial o = false)
    (h : Gen.Decimal.IsZero d = true ∨ Gen.Decimal.IsZero o = true) :
    Gen.Decimal.MulWithMode d o m = .ok (Gen.zero (Gen.Decimal.Signbit d != Gen.Decimal.Signbit o)) :=
  Sp.MulWithMode_zero_eq d o m hd ho (by rwa [Sp.sigz_eq, Sp.sigz_eq])

theorem quo_by_zero_bits (d o : Gen.Decimal) (m : UInt8)
    (hd : Gen.Decimal.isSpecial d = false) (ho : Gen.Decimal.isSpecial o = false)
    (zd : Gen.Decimal.IsZero d = false) (zo : Gen.Decimal.IsZero o = true) :
    Gen.Decimal.QuoWithMode d o m = .ok (Gen.inf (Gen.Decimal.Signbit d != Gen.Decimal.Signbit o)) :=
  Sp.QuoWithMode_div_zero_eq d o m hd ho zd zo

theorem zero_quo_bits (d o : Gen.Decimal) (m : UInt8)
    (hd : Gen.Decimal.isSpecial d = false) (ho : Gen.Decimal.isSpecial o = false)
    (zd : Gen.Decimal.IsZero d = true) (zo : Gen.Decimal.IsZero o = false) :
    Gen.Decimal.QuoWithMode d o m = .ok (Gen.zero (Gen.Decimal.Signbit d != Gen.Decimal.Signbit o)) :=
  Sp.QuoWithMode_zero_div_eq d o m hd ho zd zo

theorem zero_quo_zero_bits (d o : Gen.Decimal) (m : UInt8)
    (hd : Gen.Decimal.isSpecial d = false) (ho : Gen.Decimal.isSpecial o = false)
    (zd : Gen.Decimal.IsZero d = true) (zo : Gen.Decimal.IsZero o = true) :
    Gen.Decimal.QuoWithMode d o m = .ok (Gen.nan 16 (if Gen.Decimal.Signbit d then 2 else 1)
      (if Gen.Decimal.Signbit o then 2 else 1)) :=
  Sp.QuoWithMode_zero_zero_eq d o m hd ho zd zo

/-- 0 ÷ 0: payload `quo | class(lhs) << 8 | class(rhs) << 16` -/
theorem zero_quo_zero_payload (d o : Gen.Decimal) (m : UInt8)
    (hd : Gen.Decimal.isSpecial d = false) (ho : Gen.Decimal.isSpecial o = false)
    (zd : Gen.Decimal.IsZero d = true) (zo : Gen.Decimal.IsZero o = true) :
    ∃ r, Gen.Decimal.QuoWithMode d o m = .ok r ∧
      Gen.Decimal.Payload_ r = .ok (Spec.Op.quo.code ||| Spec.classCode 𝔳[d] <<< 8 ||| Spec.classCode 𝔳[o] <<< 16) := by
  obtain ⟨r, hr, hsame⟩ := quo_zero d o m .nearestEven hd ho (Or.inl zd)
  refine ⟨r, hr, Sp.payload_of_same r false _ ?_⟩
  rcases Sp.view d with ⟨_, _, _, a4, _⟩ | ⟨_, _, _, a4, _⟩ | ⟨_, _, _, _, _, _, av⟩ | ⟨_, _, _, a4, _, _, _, _⟩
  all_goals try (rw [zd] at a4; cases a4)
  rcases Sp.view o with ⟨_, _, _, b4, _⟩ | ⟨_, _, _, b4, _⟩ | ⟨_, _, _, _, _, _, bv⟩ | ⟨_, _, _, b4, _, _, _, _⟩
  all_goals try (rw [zo] at b4; cases b4)
  rw [av, bv] at hsame ⊢
  simpa [Spec.quo, Spec.invalid2, Spec.invalid] using hsame

/-! ### combined: every prologue branch (an operand is special or zero) -/

theorem add_prologue (d o : Gen.Decimal) (m : UInt8) (m' : Spec.Mode)
    (h : Gen.Decimal.isSpecial d = true ∨ Gen.Decimal.isSpecial o = true ∨
         Gen.Decimal.IsZero d = true ∨ Gen.Decimal.IsZero o = true) :
    ∃ r, Gen.Decimal.AddWithMode d o m = .ok r ∧ (𝔳[r]).same (Spec.add m' 𝔳[d] 𝔳[o]) = true := by
  cases hd : Gen.Decimal.isSpecial d
  · cases ho : Gen.Decimal.isSpecial o
    · refine add_zero d o m m' hd ho ?_
      rcases h with h | h | h | h
      · rw [hd] at h; cases h
      · rw [ho] at h; cases h
      · exact Or.inl h
      · exact Or.inr h
    · exact add_special d o m m' (Or.inr ho)
  · exact add_special d o m m' (Or.inl hd)

theorem sub_prologue (d o : Gen.Decimal) (m : UInt8) (m' : Spec.Mode)
    (h : Gen.Decimal.isSpecial d = true ∨ Gen.Decimal.isSpecial o = true ∨
         Gen.Decimal.IsZero d = true ∨ Gen.Decimal.IsZero o = true) :
    ∃ r, Gen.Decimal.SubWithMode d o m = .ok r ∧ (𝔳[r]).same (Spec.sub m' 𝔳[d] 𝔳[o]) = true := by
  cases hd : Gen.Decimal.isSpecial d
  · cases ho : Gen.Decimal.isSpecial o
    · refine sub_zero d o m m' hd ho ?_
      rcases h with h | h | h | h
      · rw [hd] at h; cases h
      · rw [ho] at h; cases h
      · exact Or.inl h
      · exact Or.inr h
    · exact sub_special d o m m' (Or.inr ho)
  · exact sub_special d o m m' (Or.inl hd)

theorem mul_prologue (d o : Gen.Decimal) (m : UInt8) (m' : Spec.Mode)
    (h : Gen.Decimal.isSpecial d = true ∨ Gen.Decimal.isSpecial o = true ∨
         Gen.Decimal.IsZero d = true ∨ Gen.Decimal.IsZero o = true) :
    ∃ r, Gen.Decimal.MulWithMode d o m = .ok r ∧ (𝔳[r]).same (Spec.mul m' 𝔳[d] 𝔳[o]) = true := by
  cases hd : Gen.Decimal.isSpecial d
  · cases ho : Gen.Decimal.isSpecial o
    · refine mul_zero d o m m' hd ho ?_
      rcases h with h | h | h | h
      · rw [hd] at h; cases h
      · rw [ho] at h; cases h
      · exact Or.inl h
      · exact Or.inr h
    · exact mul_special d o m m' (Or.inr ho)
  · exact mul_special d o m m' (Or.inl hd)

theorem quo_prologue (d o : Gen.Decimal) (m : UInt8) (m' : Spec.Mode)
    (h : Gen.Decimal.isSpecial d = true ∨ Gen.Decimal.isSpecial o = true ∨
         Gen.Decimal.IsZero d = true ∨ Gen.Decimal.IsZero o = true) :
    ∃ r, Gen.Decimal.QuoWithMode d o m = .ok r ∧ (𝔳[r]).same (Spec.quo m' 𝔳[d] 𝔳[o]) = true := by
  cases hd : Gen.Decimal.isSpecial d
  · cases ho : Gen.Decimal.isSpecial o
    · refine quo_zero d o m m' hd ho ?_
      rcases h with h | h | h | h
      · rw [hd] at h; cases h
      · rw [ho] at h; cases h
      · exact Or.inl h
      · exact Or.inr h
    · exact quo_special d o m m' (Or.inr ho)
  · exact quo_special d o m m' (Or.inl hd)

/-- the default-mode entry points `Add`, `Sub`, `Mul`, `Quo` on the same operands -/
theorem add_prologue_default (g : Globals) (d o : Gen.Decimal) (m' : Spec.Mode)
    (h : Gen.Decimal.isSpecial d = true ∨ Gen.Decimal.isSpecial o = true ∨
         Gen.Decimal.IsZero d = true ∨ Gen.Decimal.IsZero o = true) :
    ∃ r, Gen.Decimal.Add g d o = .ok r ∧ (𝔳[r]).same (Spec.add m' 𝔳[d] 𝔳[o]) = true := by
  rw [add_eq_withMode]; exact add_prologue d o _ m' h
theorem sub_prologue_default (g : Globals) (d o : Gen.Decimal) (m' : Spec.Mode)
    (h : Gen.Decimal.isSpecial d = true ∨ Gen.Decimal.isSpecial o = true ∨
         Gen.Decimal.IsZero d = true ∨ Gen.Decimal.IsZero o = true) :
    ∃ r, Gen.Decimal.Sub g d o = .ok r ∧ (𝔳[r]).same (Spec.sub m' 𝔳[d] 𝔳[o]) = true := by
  rw [sub_eq_withMode]; exact sub_prologue d o _ m' h
theorem mul_prologue_default (g : Globals) (d o : Gen.Decimal) (m' : Spec.Mode)
    (h : Gen.Decimal.isSpecial d = true ∨ Gen.Decimal.isSpecial o = true ∨
         Gen.Decimal.IsZero d = true ∨ Gen.Decimal.IsZero o = true) :
    ∃ r, Gen.Decimal.Mul g d o = .ok r ∧ (𝔳[r]).same (Spec.mul m' 𝔳[d] 𝔳[o]) = true := by
  rw [mul_eq_withMode]; exact mul_prologue d o _ m' h
theorem quo_prologue_default (g : Globals) (d o : Gen.Decimal) (m' : Spec.Mode)
    (h : Gen.Decimal.isSpecial d = true ∨ Gen.Decimal.isSpecial o = true ∨
         Gen.Decimal.IsZero d = true ∨ Gen.Decimal.IsZero o = true) :
    ∃ r, Gen.Decimal.Quo g d o = .ok r ∧ (𝔳[r]).same (Spec.quo m' 𝔳[d] 𝔳[o]) = true := by
  rw [quo_eq_withMode]; exact quo_prologue d o _ m' h

/-! ## 3. QuoRem -/

theorem quoRem_special (d o : Gen.Decimal) (m : UInt8) (m' : Spec.Mode)
    (h : Gen.Decimal.isSpecial d = true ∨ Gen.Decimal.isSpecial o = true) :
    ∃ q r, Gen.Decimal.QuoRemWithMode d o m = .ok (q, r) ∧
      (𝔳[q]).same (Spec.quoRem m' 𝔳[d] 𝔳[o]).1 = true ∧
      (𝔳[r]).same (Spec.quoRem m' 𝔳[d] 𝔳[o]).2 = true :=
  Sp.QuoRemWithMode_special d o m m' h

theorem quoRem_zero (d o : Gen.Decimal) (m : UInt8) (m' : Spec.Mode)
    (hd : Gen.Decimal.isSpecial d = false) (ho : Gen.Decimal.isSpecial o = false)
    (h : Gen.Decimal.IsZero d = true ∨ Gen.Decimal.IsZero o = true) :
    ∃ q r, Gen.Decimal.QuoRemWithMode d o m = .ok (q, r) ∧
      (𝔳[q]).same (Spec.quoRem m' 𝔳[d] 𝔳[o]).1 = true ∧
      (𝔳[r]).same (Spec.quoRem m' 𝔳[d] 𝔳[o]).2 = true :=
  Sp.QuoRemWithMode_zero d o m m' hd ho h

theorem quoRem_prologue (d o : Gen.Decimal) (m : UInt8) (m' : Spec.Mode)
    (h : Gen.Decimal.isSpecial d = true ∨ Gen.Decimal.isSpecial o = true ∨
         Gen.Decimal.IsZero d = true ∨ Gen.Decimal.IsZero o = true) :
    ∃ q r, Gen.Decimal.QuoRemWithMode d o m = .ok (q, r) ∧
      (𝔳[q]).same (Spec.quoRem m' 𝔳[d] 𝔳[o]).1 = true ∧
      (𝔳[r]).same (Spec.quoRem m' 𝔳[d] 𝔳[o]).2 = true := by
  cases hd : Gen.Decimal.isSpecial d
  · cases ho : Gen.Decimal.isSpecial o
    · refine quoRem_zero d o m m' hd ho ?_
      rcases h with h | h | h | h
      · rw [hd] at h; cases h
      · rw [ho] at h; cases h
      · exact Or.inl h
      · exact Or.inr h
    · exact quoRem_special d o m m' (Or.inr ho)
  · exact quoRem_special d o m m' (Or.inl hd)

theorem quoRem_prologue_default (g : Globals) (d o : Gen.Decimal) (m' : Spec.Mode)
    (h : Gen.Decimal.isSpecial d = true ∨ Gen.Decimal.isSpecial o = true ∨
         Gen.Decimal.IsZero d = true ∨ Gen.Decimal.IsZero o = true) :
    ∃ q r, Gen.Decimal.QuoRem g d o = .ok (q, r) ∧
      (𝔳[q]).same (Spec.quoRem m' 𝔳[d] 𝔳[o]).1 = true ∧
      (𝔳[r]).same (Spec.quoRem m' 𝔳[d] 𝔳[o]).2 = true := by
  rw [quoRem_eq_withMode]; exact quoRem_prologue d o _ m' h

/-! ## 4. The ten unary elementary functions against the Go-`math` table `Spec.specialCase` -/

theorem exp_special (g : Globals) (d : Gen.Decimal) (w : Spec.Val)
    (h : Spec.specialCase .exp 𝔳[d] = some w) :
    ∃ r, Gen.Exp g d = .ok r ∧ (𝔳[r]).same w = true := Sp.Exp_special g d w h
theorem exp2_special (g : Globals) (d : Gen.Decimal) (w : Spec.Val)
    (h : Spec.specialCase .exp2 𝔳[d] = some w) :
    ∃ r, Gen.Exp2 g d = .ok r ∧ (𝔳[r]).same w = true := Sp.Exp2_special g d w h
theorem exp10_special (g : Globals) (d : Gen.Decimal) (w : Spec.Val)
    (h : Spec.specialCase .exp10 𝔳[d] = some w) :
    ∃ r, Gen.Exp10 g d = .ok r ∧ (𝔳[r]).same w = true := Sp.Exp10_special g d w h
theorem log_special (g : Globals) (d : Gen.Decimal) (w : Spec.Val)
    (h : Spec.specialCase .log 𝔳[d] = some w) :
    ∃ r, Gen.Log g d = .ok r ∧ (𝔳[r]).same w = true := Sp.Log_special g d w h
theorem log2_special (g : Globals) (d : Gen.Decimal) (w : Spec.Val)
    (h : Spec.specialCase .log2 𝔳[d] = some w) :
    ∃ r, Gen.Log2 g d = .ok r ∧ (𝔳[r]).same w = true := Sp.Log2_special g d w h
theorem log10_special (g : Globals) (d : Gen.Decimal) (w : Spec.Val)
    (h : Spec.specialCase .log10 𝔳[d] = some w) :
    ∃ r, Gen.Log10 g d = .ok r ∧ (𝔳[r]).same w = true := Sp.Log10_special g d w h
/-- includes the comparison of a negative argument with −1 (−1 ↦ −Inf, below −1 ↦ NaN(payload)) -/
theorem log1p_special (g : Globals) (d : Gen.Decimal) (w : Spec.Val)
    (h : Spec.specialCase .log1p 𝔳[d] = some w) :
    ∃ r, Gen.Log1p g d = .ok r ∧ (𝔳[r]).same w = true := Sp.Log1p_special g d w h
theorem sqrt_special (g : Globals) (d : Gen.Decimal) (w : Spec.Val)
    (h : Spec.specialCase .sqrt 𝔳[d] = some w) :
    ∃ r, Gen.Sqrt g d = .ok r ∧ (𝔳[r]).same w = true := Sp.Sqrt_special g d w h
theorem cbrt_special (g : Globals) (d : Gen.Decimal) (w : Spec.Val)
    (h : Spec.specialCase .cbrt 𝔳[d] = some w) :
    ∃ r, Gen.Cbrt g d = .ok r ∧ (𝔳[r]).same w = true := Sp.Cbrt_special g d w h

/-- EXCEPTION (known, recorded defect, pinned by the repository's own test vectors): the table
    prescribes Expm1(−0) = −0 but the library returns +0, so negative zero is excluded here … -/
theorem expm1_special (g : Globals) (d : Gen.Decimal) (w : Spec.Val)
    (hz : ¬ (Gen.Decimal.IsZero d = true ∧ Gen.Decimal.Signbit d = true))
    (h : Spec.specialCase .expm1 𝔳[d] = some w) :
    ∃ r, Gen.Expm1 g d = .ok r ∧ (𝔳[r]).same w = true := by
  refine Sp.Expm1_special g d w (fun z => ?_) h
  cases hs : Gen.Decimal.Signbit d
  · rfl
  · exact absurd ⟨z, hs⟩ hz

/-- … and this is what it actually does on every negative (and positive) zero pattern: -/
theorem expm1_neg_zero (g : Globals) (d : Gen.Decimal) (hz : Gen.Decimal.IsZero d = true) :
    Gen.Expm1 g d = .ok (Gen.zero false) := Sp.Expm1_neg_zero g d hz

set_option maxRecDepth 8192 in
/-- the canonical negative zero `8000000000000000 0000000000000000` gives the all-zero pattern -/
theorem expm1_neg_zero_bits (g : Globals) :
    Gen.Expm1 g ⟨0, 0x8000000000000000⟩ = .ok ⟨0, 0⟩ := Sp.Expm1_neg_zero_bits g

set_option maxRecDepth 8192 in
/-- the value of the actual result differs from the tabulated one exactly in the sign -/
theorem expm1_neg_zero_value (g : Globals) :
    ∃ r, Gen.Expm1 g (Gen.zero true) = .ok r ∧ 𝔳[r] = .fin false 0 (-6176) ∧
      Spec.specialCase .expm1 𝔳[Gen.zero true] = some (.fin true 0 0) :=
  ⟨_, Sp.Expm1_neg_zero_bits g, Enc.interp_zero false, by rw [Enc.interp_zero]; rfl⟩

/-- the generated function that implements a tag of the specification table -/
def impl : Spec.Fn → Globals → Gen.Decimal → Go.GoM Gen.Decimal
  | .exp => Gen.Exp | .exp2 => Gen.Exp2 | .exp10 => Gen.Exp10 | .expm1 => Gen.Expm1
  | .log => Gen.Log | .log2 => Gen.Log2 | .log10 => Gen.Log10 | .log1p => Gen.Log1p
  | .sqrt => Gen.Sqrt | .cbrt => Gen.Cbrt

/-- all ten functions at once -/
theorem elem_special (fn : Spec.Fn) (g : Globals) (d : Gen.Decimal) (w : Spec.Val)
    (hz : fn = .expm1 → ¬ (Gen.Decimal.IsZero d = true ∧ Gen.Decimal.Signbit d = true))
    (h : Spec.specialCase fn 𝔳[d] = some w) :
    ∃ r, impl fn g d = .ok r ∧ (𝔳[r]).same w = true := by
  cases fn
  case expm1 => exact expm1_special g d w (hz rfl) h
  case exp => exact exp_special g d w h
  case exp2 => exact exp2_special g d w h
  case exp10 => exact exp10_special g d w h
  case log => exact log_special g d w h
  case log2 => exact log2_special g d w h
  case log10 => exact log10_special g d w h
  case log1p => exact log1p_special g d w h
  case sqrt => exact sqrt_special g d w h
  case cbrt => exact cbrt_special g d w h

/-- NaN operands are returned unchanged, bit for bit, by all ten functions -/
theorem elem_nan (fn : Spec.Fn) (g : Globals) (d : Gen.Decimal) (h : Gen.Decimal.IsNaN d = true) :
    impl fn g d = .ok d := by
  cases fn
  case exp => exact Sp.Exp_nan g d h
  case exp2 => exact Sp.Exp2_nan g d h
  case exp10 => exact Sp.Exp10_nan g d h
  case expm1 => exact Sp.Expm1_nan g d h
  case log => exact Sp.Log_nan g d h
  case log2 => exact Sp.Log2_nan g d h
  case log10 => exact Sp.Log10_nan g d h
  case log1p => exact Sp.Log1p_nan g d h
  case sqrt => exact Sp.Sqrt_nan g d h
  case cbrt => exact Sp.Cbrt_nan g d h

/-! ## 5. Quantising functions and Min/Max -/

/-- a special operand is returned unchanged (bit for bit) for every dp and mode -/
theorem round_special (d : Gen.Decimal) (dp : Int64) (mode : UInt8)
    (h : Gen.Decimal.isSpecial d = true) : Gen.Decimal.Round d dp mode = .ok d :=
  Sp.Round_special d dp mode h
theorem ceil_special (d : Gen.Decimal) (dp : Int64)
    (h : Gen.Decimal.isSpecial d = true) : Gen.Decimal.Ceil d dp = .ok d := Sp.Ceil_special d dp h
theorem floor_special (d : Gen.Decimal) (dp : Int64)
    (h : Gen.Decimal.isSpecial d = true) : Gen.Decimal.Floor d dp = .ok d := Sp.Floor_special d dp h

/-- ±0 (any exponent) gives the canonical zero of the same sign -/
theorem round_zero (d : Gen.Decimal) (dp : Int64) (mode : UInt8)
    (hz : Gen.Decimal.IsZero d = true) :
    Gen.Decimal.Round d dp mode = .ok (Gen.zero (Gen.Decimal.Signbit d)) := by
  rcases Enc.classify_partition d with ⟨_, _, _, e⟩ | ⟨_, _, _, e⟩ | ⟨_, _, c, _⟩ | ⟨_, _, _, e⟩
  all_goals try (rw [hz] at e; cases e)
  exact Sp.Round_zero d dp mode c hz
theorem ceil_zero (d : Gen.Decimal) (dp : Int64) (hz : Gen.Decimal.IsZero d = true) :
    Gen.Decimal.Ceil d dp = .ok (Gen.zero (Gen.Decimal.Signbit d)) := by
  rcases Enc.classify_partition d with ⟨_, _, _, e⟩ | ⟨_, _, _, e⟩ | ⟨_, _, c, _⟩ | ⟨_, _, _, e⟩
  all_goals try (rw [hz] at e; cases e)
  exact Sp.Ceil_zero d dp c hz
theorem floor_zero (d : Gen.Decimal) (dp : Int64) (hz : Gen.Decimal.IsZero d = true) :
    Gen.Decimal.Floor d dp = .ok (Gen.zero (Gen.Decimal.Signbit d)) := by
  rcases Enc.classify_partition d with ⟨_, _, _, e⟩ | ⟨_, _, _, e⟩ | ⟨_, _, c, _⟩ | ⟨_, _, _, e⟩
  all_goals try (rw [hz] at e; cases e)
  exact Sp.Floor_zero d dp c hz

/-- against the specification (pass-through of specials, signed zero), every dp / dp' / mode -/
theorem round_spec (d : Gen.Decimal) (dp : Int64) (mode : UInt8) (dp' : Int) (m' : Spec.Mode)
    (h : Gen.Decimal.isSpecial d = true ∨ Gen.Decimal.IsZero d = true) :
    ∃ r, Gen.Decimal.Round d dp mode = .ok r ∧ (𝔳[r]).same (Spec.quantize dp' m' 𝔳[d]) = true :=
  Sp.Round_spec d dp mode dp' m' h
theorem ceil_spec (d : Gen.Decimal) (dp : Int64) (dp' : Int)
    (h : Gen.Decimal.isSpecial d = true ∨ Gen.Decimal.IsZero d = true) :
    ∃ r, Gen.Decimal.Ceil d dp = .ok r ∧ (𝔳[r]).same (Spec.ceilDp dp' 𝔳[d]) = true :=
  Sp.Ceil_spec d dp dp' h
theorem floor_spec (d : Gen.Decimal) (dp : Int64) (dp' : Int)
    (h : Gen.Decimal.isSpecial d = true ∨ Gen.Decimal.IsZero d = true) :
    ∃ r, Gen.Decimal.Floor d dp = .ok r ∧ (𝔳[r]).same (Spec.floorDp dp' 𝔳[d]) = true :=
  Sp.Floor_spec d dp dp' h

/-- the package-level functions are the methods at dp = 0 (`Round`: nearest-away, `Trunc`: toward zero) -/
theorem round0_eq (d : Gen.Decimal) : Gen.Round d = Gen.Decimal.Round d 0 1 := Sp.Round0_eq d
theorem trunc0_eq (d : Gen.Decimal) : Gen.Trunc d = Gen.Decimal.Round d 0 2 := Sp.Trunc0_eq d
theorem ceil0_eq (d : Gen.Decimal) : Gen.Ceil d = Gen.Decimal.Ceil d 0 := Sp.Ceil0_eq d
theorem floor0_eq (d : Gen.Decimal) : Gen.Floor d = Gen.Decimal.Floor d 0 := Sp.Floor0_eq d

/-- `Min`/`Max` with a NaN operand return that operand (the first one if both are NaN) -/
theorem min_nan_left (d o : Gen.Decimal) (h : Gen.Decimal.IsNaN d = true) : Gen.Min d o = .ok d :=
  Sp.Min_nan_left d o h
theorem min_nan_right (d o : Gen.Decimal) (hd : Gen.Decimal.IsNaN d = false)
    (h : Gen.Decimal.IsNaN o = true) : Gen.Min d o = .ok o := Sp.Min_nan_right d o hd h
theorem max_nan_left (d o : Gen.Decimal) (h : Gen.Decimal.IsNaN d = true) : Gen.Max d o = .ok d :=
  Sp.Max_nan_left d o h
theorem max_nan_right (d o : Gen.Decimal) (hd : Gen.Decimal.IsNaN d = false)
    (h : Gen.Decimal.IsNaN o = true) : Gen.Max d o = .ok o := Sp.Max_nan_right d o hd h
theorem min_nan_spec (d o : Gen.Decimal)
    (h : Gen.Decimal.IsNaN d = true ∨ Gen.Decimal.IsNaN o = true) :
    ∃ r, Gen.Min d o = .ok r ∧ (𝔳[r]).same (Spec.minVal 𝔳[d] 𝔳[o]) = true := Sp.Min_nan_spec d o h
theorem max_nan_spec (d o : Gen.Decimal)
    (h : Gen.Decimal.IsNaN d = true ∨ Gen.Decimal.IsNaN o = true) :
    ∃ r, Gen.Max d o = .ok r ∧ (𝔳[r]).same (Spec.maxVal 𝔳[d] 𝔳[o]) = true := Sp.Max_nan_spec d o h

/-! ## 6. No NaN from finite operands in the prologue branches, except division by zero -/

/-- Both operands finite, one of them zero (these are exactly the finite inputs the prologues decide):
    `Add`, `Sub`, `Mul` return a finite value; `Quo` returns a NaN exactly for 0 ÷ 0; `QuoRem` returns a
    NaN quotient exactly for 0 ÷ 0 and a NaN remainder exactly when the divisor is zero (as `Spec.quoRem`
    prescribes).  The claim for the remaining finite inputs follows from the correctness theorems of the
    arithmetic core (C01–C03). -/
theorem no_nan_from_finite (d o : Gen.Decimal) (m : UInt8)
    (hd : Gen.Decimal.isSpecial d = false) (ho : Gen.Decimal.isSpecial o = false)
    (h : Gen.Decimal.IsZero d = true ∨ Gen.Decimal.IsZero o = true) :
    (∃ r, Gen.Decimal.AddWithMode d o m = .ok r ∧ Gen.Decimal.IsNaN r = false) ∧
    (∃ r, Gen.Decimal.SubWithMode d o m = .ok r ∧ Gen.Decimal.IsNaN r = false) ∧
    (∃ r, Gen.Decimal.MulWithMode d o m = .ok r ∧ Gen.Decimal.IsNaN r = false) ∧
    (∃ r, Gen.Decimal.QuoWithMode d o m = .ok r ∧
      (Gen.Decimal.IsNaN r = true ↔ Gen.Decimal.IsZero d = true ∧ Gen.Decimal.IsZero o = true)) ∧
    (∃ q r, Gen.Decimal.QuoRemWithMode d o m = .ok (q, r) ∧
      (Gen.Decimal.IsNaN q = true ↔ Gen.Decimal.IsZero d = true ∧ Gen.Decimal.IsZero o = true) ∧
      (Gen.Decimal.IsNaN r = true ↔ Gen.Decimal.IsZero o = true)) := by
  obtain ⟨r1, e1, s1⟩ := Sp.AddWithMode_zero_finite d o m hd ho h
  obtain ⟨r2, e2, s2⟩ := Sp.SubWithMode_zero_finite d o m hd ho h
  obtain ⟨r3, e3, s3⟩ := Sp.MulWithMode_zero_finite d o m hd ho h
  exact ⟨⟨r1, e1, Sp.IsNaN_of_not_special r1 s1⟩, ⟨r2, e2, Sp.IsNaN_of_not_special r2 s2⟩,
    ⟨r3, e3, Sp.IsNaN_of_not_special r3 s3⟩, Sp.QuoWithMode_zero_nan_iff d o m hd ho h,
    Sp.QuoRemWithMode_zero_nan_iff d o m hd ho h⟩

/-- stronger form for `Add`, `Sub`, `Mul`: the result is finite (neither NaN nor ±Inf) -/
theorem finite_from_finite (d o : Gen.Decimal) (m : UInt8)
    (hd : Gen.Decimal.isSpecial d = false) (ho : Gen.Decimal.isSpecial o = false)
    (h : Gen.Decimal.IsZero d = true ∨ Gen.Decimal.IsZero o = true) :
    (∃ r, Gen.Decimal.AddWithMode d o m = .ok r ∧ Gen.Decimal.isSpecial r = false) ∧
    (∃ r, Gen.Decimal.SubWithMode d o m = .ok r ∧ Gen.Decimal.isSpecial r = false) ∧
    (∃ r, Gen.Decimal.MulWithMode d o m = .ok r ∧ Gen.Decimal.isSpecial r = false) :=
  ⟨Sp.AddWithMode_zero_finite d o m hd ho h, Sp.SubWithMode_zero_finite d o m hd ho h,
    Sp.MulWithMode_zero_finite d o m hd ho h⟩

/-! ## 7. Payload -/

/-- the payload of the NaN built by an invalid operation decodes to `op | lhs<<8 | rhs<<16` -/
theorem payload_decode (op l r : UInt64) :
    Gen.Decimal.Payload_ (Gen.nan op l r) = .ok (op ||| l <<< 8 ||| r <<< 16) :=
  Sp.Payload_nan_eq op l r

/-- `Payload` returns the low word of a NaN and panics (documented message) on anything else -/
theorem payload_eq (d : Gen.Decimal) :
    Gen.Decimal.Payload_ d =
      if Gen.Decimal.IsNaN d = true then .ok d.lo
      else .error (.explicit "Decimal(!NaN).Payload()") := Sp.Payload_eq d

theorem payload_panics_iff_not_nan (d : Gen.Decimal) :
    (∃ e, Gen.Decimal.Payload_ d = .error e) ↔ Gen.Decimal.IsNaN d = false :=
  Sp.Payload_panics_iff d

theorem payload_ok_iff_nan (d : Gen.Decimal) :
    (∃ p, Gen.Decimal.Payload_ d = .ok p) ↔ Gen.Decimal.IsNaN d = true := Enc.Payload_ok_iff d

/-- bridge: whenever a result is `same` as a specified NaN (e.g. `Spec.invalid2 op x y`), `Payload`
    returns the specified payload -/
theorem payload_of_same (r : Gen.Decimal) (n : Bool) (p : UInt64)
    (h : (𝔳[r]).same (.nan n p) = true) : Gen.Decimal.Payload_ r = .ok p :=
  Sp.payload_of_same r n p h

end Props.C15
