/-
  Property C19, first clause, for `PowWithMode` / `Pow` on ALL operand pairs.

  `Props/C19c.lean` covers the operand pairs for which C18 fixes the result exactly (`PowExact`: NaN / ±Inf / ±0
  operands, y = ±1, x = +1, negative x with non-integer y, exact powers of ten).  On all OTHER pairs both operands
  are finite, non-zero and y ≠ ±1; there the code strips the trailing zeros of both coefficients and the rest of
  the computation (`log → mul → epow → rcp → reduce192`) is a function of the stripped pairs, the sign bits and
  the mode byte: the two results are bit-identical (`CohortElem.pow_general_encoding_independent`).

  * `pow_general_bits`            d ~ d', o ~ o' finite (class tests on the denoted values), `|y| ≠ 1` ⇒
                                  `PowWithMode d o rm = PowWithMode d' o' rm` in `Go.GoM Decimal`, EVERY mode byte
  * `pow_not_exact_bits`          … in particular whenever `¬ PowExact 𝔳[d] 𝔳[o]`; and then the call returns (no
                                  panic) for every mode byte: `pow_not_exact_total`
  * `pow_encoding_independent`    **C19 for `PowWithMode`, all operands**: d ~ d', o ~ o' (`Val.same`), valid mode byte
                                  ⇒ both calls return, results of the same class, sign, value (and NaN payload)
  * `pow_default_encoding_independent`  the same for `Pow g`
  * `powW_congr_num`, `pow_encoding_independent_num`, `pow_default_encoding_independent_num`
                                  the `sameNum` forms (a NaN operand replaced by ANY NaN)
  Nothing is left open for `Pow` with respect to C19 (first clause).
-/
import D128.Props.C19c
import D128.Proofs.CohortElemPow
set_option autoImplicit false

namespace Props.C19
open Cohort PowPf

/-- the value a bit pattern denotes -/
local notation "𝔳[" d "]" => Spec.interp (Gen.Decimal.lo d) (Gen.Decimal.hi d)

private theorem notSpecial (d : Gen.Decimal) (h1 : (𝔳[d]).isNaN = false) (h2 : (𝔳[d]).isInf = false) :
    Gen.Decimal.isSpecial d = false := by
  rw [Enc.isSpecial_iff, ← Enc.interp_isNaN, ← Enc.interp_isInf, h1, h2]; rfl

/-- **general finite path of `Pow`: bit-identical results**, every mode byte -/
theorem pow_general_bits (d d' o o' : Gen.Decimal) (rm : UInt8)
    (hd : (𝔳[d]).same 𝔳[d'] = true) (ho : (𝔳[o]).same 𝔳[o'] = true)
    (hdn : (𝔳[d]).isNaN = false) (hdi : (𝔳[d]).isInf = false)
    (hon : (𝔳[o]).isNaN = false) (hoi : (𝔳[o]).isInf = false) (ho1 : absOne 𝔳[o] = false) :
    Gen.Decimal.PowWithMode d o rm = Gen.Decimal.PowWithMode d' o' rm :=
  CohortElem.pow_general_encoding_independent d d' o o' rm hd ho (notSpecial d hdn hdi)
    (notSpecial o hon hoi) ho1

private theorem not_exact {x y : Spec.Val} (h : ¬ PowExact x y) :
    x.isNaN = false ∧ x.isInf = false ∧ y.isNaN = false ∧ y.isInf = false ∧ absOne y = false := by
  unfold PowExact at h
  simp only [not_or] at h
  obtain ⟨h1, h2, h3, h4, -, -, h7, -⟩ := h
  exact ⟨by simpa using h1, by simpa using h3, by simpa using h2, by simpa using h4, by simpa using h7⟩

/-- outside the exactly specified cases two cohort members give the same bits, every mode byte -/
theorem pow_not_exact_bits (d d' o o' : Gen.Decimal) (rm : UInt8)
    (hd : (𝔳[d]).same 𝔳[d'] = true) (ho : (𝔳[o]).same 𝔳[o'] = true) (h : ¬ PowExact 𝔳[d] 𝔳[o]) :
    Gen.Decimal.PowWithMode d o rm = Gen.Decimal.PowWithMode d' o' rm := by
  obtain ⟨h1, h2, h3, h4, h5⟩ := not_exact h
  exact pow_general_bits d d' o o' rm hd ho h1 h2 h3 h4 h5

/-- … and the call returns, for every mode byte -/
theorem pow_not_exact_total (d o : Gen.Decimal) (rm : UInt8) (h : ¬ PowExact 𝔳[d] 𝔳[o]) :
    ∃ r, Gen.Decimal.PowWithMode d o rm = .ok r :=
  CohortElem.pow_total_of_not_one d o rm (not_exact h).2.2.2.2

/-- **C19 for `PowWithMode`, ALL operand pairs.**  Replacing either operand by another encoding of the same
    value never changes class, sign, value (or NaN payload) of the result; both calls return. -/
theorem pow_encoding_independent (d d' o o' : Gen.Decimal) (rm : UInt8) (m : Spec.Mode)
    (hm : Spec.Mode.ofNat? rm.toNat = some m)
    (hd : (𝔳[d]).same 𝔳[d'] = true) (ho : (𝔳[o]).same 𝔳[o'] = true) :
    ∃ r r', Gen.Decimal.PowWithMode d o rm = .ok r ∧ Gen.Decimal.PowWithMode d' o' rm = .ok r' ∧
      (𝔳[r]).same 𝔳[r'] = true := by
  by_cases h : PowExact 𝔳[d] 𝔳[o]
  · exact pow_encoding_independent_exact d d' o o' rm m hm hd ho h
  · obtain ⟨r, hr⟩ := pow_not_exact_total d o rm h
    refine ⟨r, r, hr, ?_, same_refl _⟩
    rw [← pow_not_exact_bits d d' o o' rm hd ho h]; exact hr

/-- the same for the default-mode entry point `Pow` -/
theorem pow_default_encoding_independent (g : Globals) (d d' o o' : Gen.Decimal) (m : Spec.Mode)
    (hm : Spec.Mode.ofNat? g.DefaultRoundingMode.toNat = some m)
    (hd : (𝔳[d]).same 𝔳[d'] = true) (ho : (𝔳[o]).same 𝔳[o'] = true) :
    ∃ r r', Gen.Decimal.Pow g d o = .ok r ∧ Gen.Decimal.Pow g d' o' = .ok r' ∧
      (𝔳[r]).same 𝔳[r'] = true := by
  rw [Props.C18.pow_default, Props.C18.pow_default]
  exact pow_encoding_independent d d' o o' _ m hm hd ho

/-! ## the `sameNum` forms: a NaN operand may be replaced by any NaN -/

private theorem posOne_congr_num {x x' : Spec.Val} (h : x.sameNum x' = true) :
    x.same Spec.posOne = x'.same Spec.posOne := by
  rcases sameNum_cases h with ⟨n, p, n', p', rfl, rfl⟩ | ⟨n, rfl, rfl⟩ | ⟨n, c, e, c', e', rfl, rfl, hm⟩
  · rfl
  · rfl
  · have hs : (Spec.Val.fin n c e).same (Spec.Val.fin n c' e') = true :=
      (same_fin_iff _ _ _ _ _ _).2 ⟨rfl, hm⟩
    rw [same_posOne, same_posOne, neg_congr hs, CohortElem.absOne_same hs]

private theorem powW_nan (m : Spec.Mode) (x y : Spec.Val) (h : x.isNaN = true ∨ y.isNaN = true)
    (hz : y.isZero = false) (h1 : x.same Spec.posOne = false) : (powW m x y).isNaN = true := by
  unfold powW
  rw [hz, h1]
  simp only [Bool.false_eq_true, if_false]
  by_cases hx : x.isNaN = true
  · rw [if_pos hx]
    split
    · split
      · exact quo_isNaN_right m _ _ hx
      · exact hx
    · exact hx
  · have hy : y.isNaN = true := h.resolve_left hx
    have ha : absOne y = false := by
      cases y with
      | nan n p => rfl
      | inf n => cases hy
      | fin n c e => cases hy
    rw [ha, if_neg hx, if_pos hy]
    simpa using hy

/-- the exact result of `Pow` respects `sameNum` whenever an operand is a NaN -/
theorem powW_congr_num (m : Spec.Mode) {x x' y y' : Spec.Val} (hx : x.sameNum x' = true)
    (hy : y.sameNum y' = true) (h : x.isNaN = true ∨ y.isNaN = true) :
    (powW m x y).sameNum (powW m x' y') = true := by
  have h' : x'.isNaN = true ∨ y'.isNaN = true := by
    rw [← isNaN_congr hx, ← isNaN_congr hy]; exact h
  have ez := isZero_congr hy
  have e1 := posOne_congr_num hx
  cases hz : y.isZero
  · cases h1 : x.same Spec.posOne
    · exact sameNum_of_isNaN (powW_nan m x y h hz h1)
        (powW_nan m x' y' h' (by rw [← ez]; exact hz) (by rw [← e1]; exact h1))
    · have a : powW m x y = Spec.posOne := by unfold powW; rw [hz, h1]; simp
      have b : powW m x' y' = Spec.posOne := by unfold powW; rw [← ez, ← e1, hz, h1]; simp
      rw [a, b]; exact sameNum_refl _
  · have a : powW m x y = Spec.posOne := by unfold powW; rw [hz]; simp
    have b : powW m x' y' = Spec.posOne := by unfold powW; rw [← ez, hz]; simp
    rw [a, b]; exact sameNum_refl _

/-- **C19 for `PowWithMode`, all operand pairs, NaNs identified.** -/
theorem pow_encoding_independent_num (d d' o o' : Gen.Decimal) (rm : UInt8) (m : Spec.Mode)
    (hm : Spec.Mode.ofNat? rm.toNat = some m)
    (hd : (𝔳[d]).sameNum 𝔳[d'] = true) (ho : (𝔳[o]).sameNum 𝔳[o'] = true) :
    ∃ r r', Gen.Decimal.PowWithMode d o rm = .ok r ∧ Gen.Decimal.PowWithMode d' o' rm = .ok r' ∧
      (𝔳[r]).sameNum 𝔳[r'] = true := by
  by_cases h : (𝔳[d]).isNaN = true ∨ (𝔳[o]).isNaN = true
  · have h' : (𝔳[d']).isNaN = true ∨ (𝔳[o']).isNaN = true := by
      rw [← isNaN_congr hd, ← isNaN_congr ho]; exact h
    have hE : PowExact 𝔳[d] 𝔳[o] := by
      rcases h with h | h
      · exact Or.inl h
      · exact Or.inr (Or.inl h)
    have hE' : PowExact 𝔳[d'] 𝔳[o'] := by
      rcases h' with h' | h'
      · exact Or.inl h'
      · exact Or.inr (Or.inl h')
    obtain ⟨r, hr, hs⟩ := pow_exact_value d o rm m hm hE
    obtain ⟨r', hr', hs'⟩ := pow_exact_value d' o' rm m hm hE'
    exact ⟨r, r', hr, hr', sameNum_trans (sameNum_trans (sameNum_of_same hs) (powW_congr_num m hd ho h))
      (sameNum_symm (sameNum_of_same hs'))⟩
  · rw [not_or] at h
    obtain ⟨r, r', hr, hr', hs⟩ := pow_encoding_independent d d' o o' rm m hm
      (same_of_sameNum hd (by simpa using h.1)) (same_of_sameNum ho (by simpa using h.2))
    exact ⟨r, r', hr, hr', sameNum_of_same hs⟩

theorem pow_default_encoding_independent_num (g : Globals) (d d' o o' : Gen.Decimal) (m : Spec.Mode)
    (hm : Spec.Mode.ofNat? g.DefaultRoundingMode.toNat = some m)
    (hd : (𝔳[d]).sameNum 𝔳[d'] = true) (ho : (𝔳[o]).sameNum 𝔳[o'] = true) :
    ∃ r r', Gen.Decimal.Pow g d o = .ok r ∧ Gen.Decimal.Pow g d' o' = .ok r' ∧
      (𝔳[r]).sameNum 𝔳[r'] = true := by
  rw [Props.C18.pow_default, Props.C18.pow_default]
  exact pow_encoding_independent_num d d' o o' _ m hm hd ho

/-! ## the hypotheses are satisfiable -/

/-- `0.5` written `5e-1` and `50e-2` -/
theorem ex_half : (𝔳[Gen.compose false ⟨5, 0⟩ 6175]).same 𝔳[Gen.compose false ⟨50, 0⟩ 6174] = true := by
  decide +kernel

/-- `2^0.5`: a general-path pair (not `PowExact`) -/
example : Gen.Decimal.PowWithMode (Gen.compose false ⟨2, 0⟩ 6176) (Gen.compose false ⟨5, 0⟩ 6175) 5
    = Gen.Decimal.PowWithMode (Gen.compose false ⟨20, 0⟩ 6175) (Gen.compose false ⟨50, 0⟩ 6174) 5 :=
  pow_general_bits _ _ _ _ 5 ex_two ex_half (by decide +kernel) (by decide +kernel) (by decide +kernel)
    (by decide +kernel) (by decide +kernel)
example := pow_encoding_independent _ _ _ _ 2 .toZero rfl ex_two ex_half
example := pow_encoding_independent _ _ _ _ 0 .nearestEven rfl ex_ten ex_two
example := pow_encoding_independent_num _ _ _ _ 0 .nearestEven rfl (sameNum_of_same ex_two) (sameNum_of_same ex_half)

end Props.C19
