/-
  Property C11 (part: `New`, `Ldexp`, and the round trip `Ldexp ∘ Frexp`), for ALL `Int64 × Int64`
  resp. ALL 2^128 bit patterns × ALL `Int64` exponents, and all six rounding modes.

  Statements only; proofs are in `D128/Proofs/NewLdexp{Spec,New,Ldexp,Frexp,Exact}.lean` and go through
  the rounding-kernel theorems `reduce64_correct` / `reduce128_correct`.  Every theorem is about the
  generated `Gen.New` / `Gen.Ldexp` / `Gen.Frexp` (translation of /repo/decimal.go; `int` is `Int64`,
  the wrap-around of the Go arithmetic is part of the model) against `Spec.newVal`, `Spec.ldexp`
  (D128/Spec/Arith.lean) over `Spec.interp d.lo d.hi`.  `g.DefaultRoundingMode` is the package variable;
  `hm` says it holds one of the six defined modes.

  * `new_correct`      no panic; the result denotes `Spec.newVal m sig exp`: `+0` for `sig = 0`, otherwise the
                       member of the format mode `m` selects for `sig·10^exp`, a zero with the sign of `sig`
                       below `10^-6177`, `±Inf` when the selected member would exceed the largest finite value
  * `ldexp_correct`    no panic; the result denotes `Spec.ldexp m 𝔳[d] exp` (NaN, ±Inf, ±0 unchanged; otherwise
                       as above for `d·10^exp`)
  * `ldexp_unchanged`  NaN, ±Inf and zeros are returned bit for bit
  * `ldexp_frexp`      finite `d`: `Ldexp (Frexp d)` denotes the same signed value as `d`, hence is `Spec.equal` to it
  * `new_exact`, `new_exact_range`, `ldexp_exact`   exact (as rationals) whenever representable, every mode
  * `new_tiny`, `new_huge`, `ldexp_tiny`, `ldexp_huge`   signed zero below `10^-6177`, `±Inf` from
                       `(Cmax+1)·10^6111` on, every mode
-/
import D128.Proofs.NewLdexpFrexp
import D128.Proofs.NewLdexpExact
set_option autoImplicit false

namespace Props.C11b
open SpecRound (Member)

/-- the value a bit pattern denotes -/
local notation "𝔳[" d "]" => Spec.interp (Gen.Decimal.lo d) (Gen.Decimal.hi d)

/-- `New(sig, exp)` for all `int64 × int` inputs (early-outs for huge `|exp|`, `MinInt64`, wrap-around
    included) -/
theorem new_correct (g : Globals) (sig exp : Int64) (m : Spec.Mode)
    (hm : Spec.Mode.ofNat? g.DefaultRoundingMode.toNat = some m) :
    ∃ r, Gen.New g sig exp = .ok r ∧ (𝔳[r]).same (Spec.newVal m sig.toInt exp.toInt) = true :=
  NL.new_correct g sig exp m hm

/-- hypotheses satisfiable: `New(MinInt64, -6195)` under ToPositiveInf -/
example := new_correct ⟨5⟩ (-9223372036854775808) (-6195) .toPosInf rfl

/-- `Ldexp(d, exp)` for all bit patterns and all `int` exponents -/
theorem ldexp_correct (g : Globals) (d : Gen.Decimal) (exp : Int64) (m : Spec.Mode)
    (hm : Spec.Mode.ofNat? g.DefaultRoundingMode.toNat = some m) :
    ∃ r, Gen.Ldexp g d exp = .ok r ∧ (𝔳[r]).same (Spec.ldexp m 𝔳[d] exp.toInt) = true :=
  NL.ldexp_correct g d exp m hm

/-- hypotheses satisfiable: `Ldexp(-1, -6200)` under ToNearestAway -/
example := ldexp_correct ⟨1⟩ (Gen.one true) (-6200) .nearestAway rfl

/-- NaN, ±Inf and zeros are returned unchanged (bit for bit), whatever `exp` and the mode variable -/
theorem ldexp_unchanged (g : Globals) (d : Gen.Decimal) (exp : Int64)
    (h : Gen.Decimal.isSpecial d = true ∨ Gen.Decimal.IsZero d = true) :
    Gen.Ldexp g d exp = .ok d :=
  NL.Ldexp_trivial g d exp (by rcases h with h | h <;> rw [h] <;> simp)

example := ldexp_unchanged ⟨0⟩ (Gen.inf true) 7 (Or.inl (Enc.isSpecial_inf true))

/-- `Ldexp(Frexp(d))` is `d` for every finite `d` (zeros keep their sign; non-canonical encodings
    included): same sign and same rational value, in particular `Equal`. -/
theorem ldexp_frexp (g : Globals) (d : Gen.Decimal) (m : Spec.Mode)
    (hm : Spec.Mode.ofNat? g.DefaultRoundingMode.toNat = some m)
    (hd : Gen.Decimal.isSpecial d = false) :
    ∃ f e r, Gen.Frexp d = .ok (f, e) ∧ Gen.Ldexp g f e = .ok r ∧
      (𝔳[r]).same 𝔳[d] = true ∧ Spec.equal 𝔳[r] 𝔳[d] = true :=
  NL.ldexp_frexp g d m hm hd

example := ldexp_frexp ⟨0⟩ (Gen.one true) .nearestEven rfl (Enc.isSpecial_one true)

/-- exact whenever `|sig|·10^exp` is representable (subnormals included), in every mode -/
theorem new_exact (g : Globals) (sig exp : Int64) (m : Spec.Mode)
    (hm : Spec.Mode.ofNat? g.DefaultRoundingMode.toNat = some m)
    (hM : Member ((sig.toInt.natAbs : ℚ) * (10 : ℚ) ^ exp.toInt)) :
    ∃ r, Gen.New g sig exp = .ok r ∧ (𝔳[r]).isFin = true ∧
      (𝔳[r]).neg = decide (sig.toInt < 0) ∧
      (𝔳[r]).toRat = (sig.toInt : ℚ) * (10 : ℚ) ^ exp.toInt :=
  NL.new_exact g sig exp m hm hM

/-- in particular for every `sig` when `-6176 ≤ exp ≤ 6111` -/
theorem new_exact_range (g : Globals) (sig exp : Int64) (m : Spec.Mode)
    (hm : Spec.Mode.ofNat? g.DefaultRoundingMode.toNat = some m)
    (h1 : -6176 ≤ exp.toInt) (h2 : exp.toInt ≤ 6111) :
    ∃ r, Gen.New g sig exp = .ok r ∧ (𝔳[r]).isFin = true ∧
      (𝔳[r]).neg = decide (sig.toInt < 0) ∧
      (𝔳[r]).toRat = (sig.toInt : ℚ) * (10 : ℚ) ^ exp.toInt :=
  NL.new_exact_range g sig exp m hm h1 h2

/-- `New(1, -6176)`, the smallest subnormal, is exact -/
example := new_exact_range ⟨0⟩ 1 (-6176) .nearestEven rfl (by decide) (by decide)

/-- exact whenever `|d|·10^exp` is representable, in every mode -/
theorem ldexp_exact (g : Globals) (d : Gen.Decimal) (exp : Int64) (m : Spec.Mode)
    (hm : Spec.Mode.ofNat? g.DefaultRoundingMode.toNat = some m)
    (hd : Gen.Decimal.isSpecial d = false)
    (hM : Member ((𝔳[d]).abs * (10 : ℚ) ^ exp.toInt)) :
    ∃ r, Gen.Ldexp g d exp = .ok r ∧ (𝔳[r]).isFin = true ∧
      (𝔳[r]).neg = Gen.Decimal.Signbit d ∧
      (𝔳[r]).toRat = (𝔳[d]).toRat * (10 : ℚ) ^ exp.toInt :=
  NL.ldexp_exact g d exp m hm hd hM

/-- signed zero below `10^-6177`, in every mode -/
theorem new_tiny (g : Globals) (sig exp : Int64) (m : Spec.Mode)
    (hm : Spec.Mode.ofNat? g.DefaultRoundingMode.toNat = some m) (h0 : sig ≠ 0)
    (h : (sig.toInt.natAbs : ℚ) * (10 : ℚ) ^ exp.toInt < (10 : ℚ) ^ (-6177 : Int)) :
    ∃ r, Gen.New g sig exp = .ok r ∧ (𝔳[r]).same (.fin (decide (sig.toInt < 0)) 0 0) = true :=
  NL.new_tiny g sig exp m hm h0 h

/-- `±Inf` from `(Cmax+1)·10^6111` on, in every mode -/
theorem new_huge (g : Globals) (sig exp : Int64) (m : Spec.Mode)
    (hm : Spec.Mode.ofNat? g.DefaultRoundingMode.toNat = some m) (h0 : sig ≠ 0)
    (h : ((Spec.Cmax : ℚ) + 1) * (10 : ℚ) ^ Spec.Emax ≤ (sig.toInt.natAbs : ℚ) * (10 : ℚ) ^ exp.toInt) :
    ∃ r, Gen.New g sig exp = .ok r ∧ 𝔳[r] = .inf (decide (sig.toInt < 0)) :=
  NL.new_huge g sig exp m hm h0 h

theorem ldexp_tiny (g : Globals) (d : Gen.Decimal) (exp : Int64) (m : Spec.Mode)
    (hm : Spec.Mode.ofNat? g.DefaultRoundingMode.toNat = some m)
    (hd : Gen.Decimal.isSpecial d = false) (zd : Gen.Decimal.IsZero d = false)
    (h : (𝔳[d]).abs * (10 : ℚ) ^ exp.toInt < (10 : ℚ) ^ (-6177 : Int)) :
    ∃ r, Gen.Ldexp g d exp = .ok r ∧ (𝔳[r]).same (.fin (Gen.Decimal.Signbit d) 0 0) = true :=
  NL.ldexp_tiny g d exp m hm hd zd h

theorem ldexp_huge (g : Globals) (d : Gen.Decimal) (exp : Int64) (m : Spec.Mode)
    (hm : Spec.Mode.ofNat? g.DefaultRoundingMode.toNat = some m)
    (hd : Gen.Decimal.isSpecial d = false) (zd : Gen.Decimal.IsZero d = false)
    (h : ((Spec.Cmax : ℚ) + 1) * (10 : ℚ) ^ Spec.Emax ≤ (𝔳[d]).abs * (10 : ℚ) ^ exp.toInt) :
    ∃ r, Gen.Ldexp g d exp = .ok r ∧ 𝔳[r] = .inf (Gen.Decimal.Signbit d) :=
  NL.ldexp_huge g d exp m hm hd zd h

/-! ### the hypotheses of the corollaries are satisfiable -/

theorem abs_one (neg : Bool) : (𝔳[Gen.one neg]).abs = 1 := by
  rw [Enc.interp_one]; simp [Spec.Val.abs, Spec.mag, Spec.pow10]

/-- `Ldexp(1, 6111)` = 1e6111 exactly -/
example := ldexp_exact ⟨0⟩ (Gen.one false) 6111 .nearestEven rfl (Enc.isSpecial_one false)
  ⟨1, 6111, by unfold Spec.Cmax; norm_num, by decide, by decide, by
    have e : (6111 : Int64).toInt = 6111 := by decide
    rw [abs_one, e]; norm_num⟩

/-- `New(1, -7000)` is `+0`, `New(-1, 7000)` is `-Inf` -/
example := new_tiny ⟨3⟩ 1 (-7000) .awayFromZero rfl (by decide) (by
  have e1 : (1 : Int64).toInt.natAbs = 1 := by decide
  have e2 : (-7000 : Int64).toInt = -7000 := by decide
  rw [e1, e2, Nat.cast_one, one_mul]
  exact zpow_lt_zpow_right₀ (by norm_num) (by norm_num))

theorem max_lt_pow : ((Spec.Cmax : ℚ) + 1) * (10 : ℚ) ^ Spec.Emax ≤ (10 : ℚ) ^ (7000 : Int) := by
  have h1 : ((Spec.Cmax : ℚ) + 1) ≤ (10 : ℚ) ^ (35 : Int) := by
    have h2 : ((Spec.Cmax + 1 : Nat) : ℚ) ≤ ((10 ^ 35 : Nat) : ℚ) := by
      exact_mod_cast SpecRound.Cmax_upper
    push_cast at h2
    rw [zpow_ofNat]; exact h2
  calc ((Spec.Cmax : ℚ) + 1) * (10 : ℚ) ^ Spec.Emax
      ≤ (10 : ℚ) ^ (35 : Int) * (10 : ℚ) ^ Spec.Emax :=
        mul_le_mul_of_nonneg_right h1 (zpow_pos (by norm_num) _).le
    _ = (10 : ℚ) ^ (35 + Spec.Emax) := (zpow_add₀ (by norm_num) _ _).symm
    _ ≤ (10 : ℚ) ^ (7000 : Int) := zpow_le_zpow_right₀ (by norm_num) (by unfold Spec.Emax; norm_num)

example := new_huge ⟨2⟩ (-1) 7000 .toZero rfl (by decide) (by
  have e1 : (-1 : Int64).toInt.natAbs = 1 := by decide
  have e2 : (7000 : Int64).toInt = 7000 := by decide
  rw [e1, e2, Nat.cast_one, one_mul]
  exact max_lt_pow)

/-- `Ldexp(-1, -7000)` is `-0`, `Ldexp(1, 7000)` is `+Inf` -/
example := ldexp_tiny ⟨3⟩ (Gen.one true) (-7000) .awayFromZero rfl (Enc.isSpecial_one true)
  (Enc.IsZero_one true) (by
  have e2 : (-7000 : Int64).toInt = -7000 := by decide
  rw [abs_one, e2, one_mul]
  exact zpow_lt_zpow_right₀ (by norm_num) (by norm_num))

example := ldexp_huge ⟨4⟩ (Gen.one false) 7000 .toNegInf rfl (Enc.isSpecial_one false)
  (Enc.IsZero_one false) (by
  have e2 : (7000 : Int64).toInt = 7000 := by decide
  rw [abs_one, e2, one_mul]
  exact max_lt_pow)

end Props.C11b

