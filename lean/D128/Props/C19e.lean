/-
  Property C19, first clause, for the ELEMENTARY FUNCTIONS on their general (finite, non-zero) path — the part that
  `Props.C19.elem_encoding_independent_partial` (D128/Props/C19b.lean) left open.

  "Replacing an operand by another encoding of the same value never changes value, sign or class of the result."
  The accuracy theorems (C16, C17) only give "both results are within one ulp of the same true value"; equality comes
  from the STRUCTURE of the code: every function first normalises its argument (scales the significand up to the full
  working width, recomputes the decimal exponent, strips or reverses digits), after which the computation is a
  function of the normalised data only (proofs: D128/Proofs/CohortElem*.lean).

  * `exp_bits`, `exp2_bits`, `exp10_bits`, `expm1_bits`, `log_bits`, `log2_bits`, `log10_bits` :
        finite non-zero `d ~ d'` (positive for the logarithms): `Gen.f g d = Gen.f g d'` — BIT-IDENTICAL results (and
        the same panic behaviour), for EVERY `g`, i.e. every default rounding mode byte.
  * `elem_encoding_independent` : **COMPLETE for Exp, Exp2, Exp10, Expm1, Log, Log2, Log10**: ALL bit patterns
        `d ~ d'` (`Val.same`): both calls return and the results are `same` (special operands by
        `elem_encoding_independent_partial`, the general path by `elem_general_bits` + totality).
  * `elem_encoding_independent_num` : the same for `sameNum` operands (a NaN may be replaced by any NaN).
  * `log1p_encoding_independent_partial'` : Log1p, all bit patterns with `|x| ≥ 10^-9` (complete there), and for
        `|x| < 10^-9` when both encodings have a decimal exponent `≥ −1588`.  PARTIAL below that.
  * `sqrt_encoding_independent_partial'`, `sqrt_encoding_independent_of_not_seven`, `sqrt_bits_partial` : Sqrt, all
        arguments whose first Heron quotient does not terminate (`seedInt c e ∤ c·10^n`; in particular every
        coefficient not divisible by 7): bit-identical results.  PARTIAL: the rare arguments with a terminating first
        quotient (`c = 854`, `4989376`, … ) are open.
  * `cbrt_encoding_independent_partial'`, `cbrt_bits_partial` : Cbrt under the run-level hypothesis
        `CohortElem.CbrtRunCond d`.  PARTIAL.  Results are `same`, not bit-identical, in general
        (`Cbrt(1e0) = 10^34e-34`, `Cbrt(10^15e-15) = 10^33e-33`).
  * Pow: D128/Props/C19f.lean (`pow_encoding_independent`, complete).

  HELPER-LEVEL FINDINGS made on the way (evidence: `#guard`s in the cited files) — the working-format operations are NOT
  functions of the values of their operands:
  * `decomposed192.add`/`sub`: a significand in `[250·2^184, 2^192)` ("over-full", 58 digits) is aligned one digit finer
    than the same value written with 57 digits: `⟨10·LIM,5⟩ + ⟨7,5⟩` is exact, `⟨LIM,6⟩ + ⟨7,5⟩` drops the 7
    (D128/Proofs/CohortElemAddCongr.lean, OBSERVATION 1); the sticky flag of `add` depends on the trailing zeros of the
    smaller operand (`+1` vs `−1`, finding D20 again; OBSERVATION 2).
  * `decomposed192.quo`: the long division can step over its stopping point by one digit depending on the trailing zeros of
    the DIVISOR: `(⌊LIM/1000⌋·1001+500) / 1001e0` returns 58 digits, `… / (1001·10^50)e-50` 57 digits, different values
    (D128/Proofs/CohortElemQuoCongr.lean, OBSERVATION 2); an over-full numerator divided by `1000e0` vs `1e3` likewise.
  No violation of C19 at the Decimal level was found (Lean `#eval` and a Go search over millions of whole cohorts, all six
  modes): these effects need 57-digit coincidences that the arguments reachable from 34-digit operands do not seem to hit —
  which is exactly what the remaining hypotheses of the Sqrt/Cbrt/Log1p theorems express.
-/
import D128.Props.C19b
import D128.Proofs.CohortElemLog
import D128.Proofs.CohortElemExp
import D128.Proofs.CohortElemExp2
import D128.Proofs.CohortElemExp10
import D128.Proofs.CohortElemLog1p
import D128.Proofs.CohortElemSqrt
import D128.Proofs.CohortElemCbrtEx
import D128.Proofs.TotalLogAll
import D128.Proofs.TotalElem
import D128.Proofs.TotalExp2
set_option autoImplicit false

namespace Props.C19
open Cohort CohortElem

/-- the value a bit pattern denotes -/
local notation "𝔳[" d "]" => Spec.interp (Gen.Decimal.lo d) (Gen.Decimal.hi d)

/-- an operand outside the special-case table is finite and non-zero; for the functions whose table covers every
negative finite argument it is positive -/
theorem general_of_none (fn : Spec.Fn) (d : Gen.Decimal) (h : Spec.specialCase fn 𝔳[d] = none) :
    Gen.Decimal.isSpecial d = false ∧ Gen.Decimal.IsZero d = false ∧
    ((fn = .log ∨ fn = .log2 ∨ fn = .log10 ∨ fn = .sqrt) → Gen.Decimal.Signbit d = false) := by
  have hn := Enc.interp_isNaN d
  have hi := Enc.interp_isInf d
  have hz := Enc.interp_isZero d
  have hs := Enc.interp_neg d
  have hsp := Enc.isSpecial_iff d
  cases hv : 𝔳[d] with
  | nan n p => rw [hv] at h; simp [Spec.specialCase] at h
  | inf n => rw [hv] at h; cases fn <;> simp [Spec.specialCase] at h
  | fin n c e =>
    rw [hv] at h hn hi hz hs
    simp only [Spec.Val.isNaN, Spec.Val.isInf, Spec.Val.neg] at hn hi hs
    rw [← hn, ← hi] at hsp
    have hc : c ≠ 0 := by
      intro h0; subst h0
      cases fn <;> simp [Spec.specialCase] at h
    refine ⟨by simpa using hsp, ?_, ?_⟩
    · rw [← hz, Enc.isZero_fin]; simpa using hc
    · intro hf
      rw [← hs]
      cases n with
      | false => rfl
      | true =>
        have hc' : (c == 0) = false := by simpa using hc
        rcases hf with rfl | rfl | rfl | rfl <;> simp [Spec.specialCase, hc'] at h

/-! ## bit-identical results on the general path -/

theorem exp_bits (g : Globals) (d d' : Gen.Decimal) (h : (𝔳[d]).same 𝔳[d'] = true)
    (h1 : Gen.Decimal.isSpecial d = false) (h2 : Gen.Decimal.IsZero d = false) :
    Gen.Exp g d = Gen.Exp g d' := exp_encoding_independent g d d' h h1 h2

theorem expm1_bits (g : Globals) (d d' : Gen.Decimal) (h : (𝔳[d]).same 𝔳[d'] = true)
    (h1 : Gen.Decimal.isSpecial d = false) (h2 : Gen.Decimal.IsZero d = false) :
    Gen.Expm1 g d = Gen.Expm1 g d' := expm1_encoding_independent g d d' h h1 h2

theorem exp2_bits (g : Globals) (d d' : Gen.Decimal) (h : (𝔳[d]).same 𝔳[d'] = true)
    (h1 : Gen.Decimal.isSpecial d = false) (h2 : Gen.Decimal.IsZero d = false) :
    Gen.Exp2 g d = Gen.Exp2 g d' := Exp2_congr g d d' h h1 h2

theorem exp10_bits (g : Globals) (d d' : Gen.Decimal) (h : (𝔳[d]).same 𝔳[d'] = true)
    (h1 : Gen.Decimal.isSpecial d = false) (h2 : Gen.Decimal.IsZero d = false) :
    Gen.Exp10 g d = Gen.Exp10 g d' := Exp10_congr g d d' h h1 h2

theorem log_bits (g : Globals) (d d' : Gen.Decimal) (h : (𝔳[d]).same 𝔳[d'] = true)
    (h1 : Gen.Decimal.isSpecial d = false) (h2 : Gen.Decimal.IsZero d = false)
    (h3 : Gen.Decimal.Signbit d = false) :
    Gen.Log g d = Gen.Log g d' := log_encoding_independent g d d' h h1 h2 h3

theorem log2_bits (g : Globals) (d d' : Gen.Decimal) (h : (𝔳[d]).same 𝔳[d'] = true)
    (h1 : Gen.Decimal.isSpecial d = false) (h2 : Gen.Decimal.IsZero d = false)
    (h3 : Gen.Decimal.Signbit d = false) :
    Gen.Log2 g d = Gen.Log2 g d' := log2_encoding_independent g d d' h h1 h2 h3

theorem log10_bits (g : Globals) (d d' : Gen.Decimal) (h : (𝔳[d]).same 𝔳[d'] = true)
    (h1 : Gen.Decimal.isSpecial d = false) (h2 : Gen.Decimal.IsZero d = false)
    (h3 : Gen.Decimal.Signbit d = false) :
    Gen.Log10 g d = Gen.Log10 g d' := log10_encoding_independent g d d' h h1 h2 h3

/-- from bit-identity and totality to the C19 form -/
theorem c19_of_bits {f : Gen.Decimal → Go.GoM Gen.Decimal} {d d' : Gen.Decimal}
    (htot : ∃ r, f d = .ok r) (hb : f d = f d') :
    ∃ r r', f d = .ok r ∧ f d' = .ok r' ∧ (𝔳[r]).same 𝔳[r'] = true := by
  obtain ⟨r, hr⟩ := htot
  exact ⟨r, r, hr, by rw [← hb]; exact hr, same_refl _⟩

/-! ## the seven functions that are complete: ALL bit patterns -/

/-- the functions for which C19 is proved without any restriction -/
def Complete (fn : Spec.Fn) : Prop :=
  fn = .exp ∨ fn = .exp2 ∨ fn = .exp10 ∨ fn = .expm1 ∨ fn = .log ∨ fn = .log2 ∨ fn = .log10

/-- general path of the seven complete functions: bit-identical results -/
theorem elem_general_bits (fn : Spec.Fn) (hfn : Complete fn) (g : Globals) (d d' : Gen.Decimal)
    (h : (𝔳[d]).same 𝔳[d'] = true) (hn : Spec.specialCase fn 𝔳[d] = none) :
    Props.C15.impl fn g d = Props.C15.impl fn g d' := by
  obtain ⟨h1, h2, h3⟩ := general_of_none fn d hn
  rcases hfn with rfl | rfl | rfl | rfl | rfl | rfl | rfl
  · exact exp_bits g d d' h h1 h2
  · exact exp2_bits g d d' h h1 h2
  · exact exp10_bits g d d' h h1 h2
  · exact expm1_bits g d d' h h1 h2
  · exact log_bits g d d' h h1 h2 (h3 (Or.inl rfl))
  · exact log2_bits g d d' h h1 h2 (h3 (Or.inr (Or.inl rfl)))
  · exact log10_bits g d d' h h1 h2 (h3 (Or.inr (Or.inr (Or.inl rfl))))

theorem elem_total (fn : Spec.Fn) (hfn : Complete fn) (g : Globals) (d : Gen.Decimal) :
    ∃ r, Props.C15.impl fn g d = .ok r := by
  rcases hfn with rfl | rfl | rfl | rfl | rfl | rfl | rfl
  · exact D128.Proofs.Total.Exp_total g d
  · exact D128.Proofs.Total.Exp2_total g d
  · exact D128.Proofs.Total.Exp10_total g d
  · exact D128.Proofs.Total.Expm1_total g d
  · exact D128.Proofs.Total.Log_total_all g d
  · exact D128.Proofs.Total.Log2_total_all g d
  · exact D128.Proofs.Total.Log10_total_all g d

/-- **C19 for Exp, Exp2, Exp10, Expm1, Log, Log2, Log10 — COMPLETE**: for ALL bit patterns `d ~ d'` (another cohort
member, a zero with another exponent, an infinity or NaN differing in ignored bits) and every default rounding mode
both calls return and the results have the same class, sign, value (and NaN payload).  On the general path the
results are even bit-identical (`elem_general_bits`). -/
theorem elem_encoding_independent (fn : Spec.Fn) (hfn : Complete fn) (g : Globals) (d d' : Gen.Decimal)
    (h : (𝔳[d]).same 𝔳[d'] = true) :
    ∃ r r', Props.C15.impl fn g d = .ok r ∧ Props.C15.impl fn g d' = .ok r' ∧ (𝔳[r]).same 𝔳[r'] = true := by
  cases hs : Spec.specialCase fn 𝔳[d] with
  | some w => exact elem_encoding_independent_partial fn g d d' w h hs
  | none => exact c19_of_bits (elem_total fn hfn g d) (elem_general_bits fn hfn g d d' h hs)

/-- the same for `sameNum` operands: a NaN may be replaced by any NaN -/
theorem elem_encoding_independent_num (fn : Spec.Fn) (hfn : Complete fn) (g : Globals) (d d' : Gen.Decimal)
    (h : (𝔳[d]).sameNum 𝔳[d'] = true) :
    ∃ r r', Props.C15.impl fn g d = .ok r ∧ Props.C15.impl fn g d' = .ok r' ∧ (𝔳[r]).sameNum 𝔳[r'] = true := by
  cases hn : (𝔳[d]).isNaN
  · obtain ⟨r, r', a, b, c⟩ := elem_encoding_independent fn hfn g d d' (same_of_sameNum h hn)
    exact ⟨r, r', a, b, sameNum_of_same c⟩
  · have hn' : (𝔳[d']).isNaN = true := by rw [← isNaN_congr h]; exact hn
    rw [Enc.interp_isNaN] at hn hn'
    exact ⟨d, d', Props.C15.elem_nan fn g d hn, Props.C15.elem_nan fn g d' hn', h⟩

/-! ## Log1p — complete for `|x| ≥ 10^-9`, PARTIAL below -/

/-- an operand of `Log1p` outside the special-case table is on the general path `x > −1`, `x ≠ 0` -/
theorem l1pDom_of_none (d : Gen.Decimal) (h : Spec.specialCase .log1p 𝔳[d] = none) : L1pDom d := by
  obtain ⟨h1, h2, -⟩ := general_of_none .log1p d h
  refine ⟨h1, h2, fun hs => ?_⟩
  have hv := Enc.interp_decompose d h1
  rw [hv, hs] at h
  have hc : Sp.cf d ≠ 0 := cf_ne_zero d h2
  have hc' : ((Gen.Decimal.decompose d).1.toNat == 0) = false := by simpa using hc
  simp only [Spec.specialCase, hc', Bool.false_eq_true, if_false, if_true] at h
  apply (lt_one_iff (Sp.cf d) (Sp.ex d) hc).mp
  have hm : Spec.mag (Gen.Decimal.decompose d).1.toNat ((Gen.Decimal.decompose d).2.toInt - 6176)
      = (Sp.cf d : ℚ) * (10 : ℚ) ^ Sp.ex d := by
    simp only [Spec.mag, SpecRound.pow10_eq_zpow]
  rw [hm] at h
  by_contra hge
  rcases lt_or_eq_of_le (not_lt.mp hge) with hgt | heq
  · have h1' : ((Sp.cf d : ℚ) * (10 : ℚ) ^ Sp.ex d == 1) = false := by
      simpa using (ne_of_gt hgt)
    simp [h1', hgt] at h
  · simp [← heq] at h

/-- **C19 for Log1p — PARTIAL**: all bit patterns `d ~ d'` with `|x| ≥ 10^-9` (or special), and for `|x| < 10^-9` those
whose two encodings both have a decimal exponent `≥ −1588`.  Missing: `|x| < 10^-9` written with an exponent below
`−1588` (the series `x − x²/2 + …` then works with exponents beyond the ±16000 window of the operation lemmas; below
`−3264` the `int16` exponents of the Go code wrap — the accuracy theorem C16 excludes that range too). -/
theorem log1p_encoding_independent_partial' (g : Globals) (d d' : Gen.Decimal)
    (h : (𝔳[d]).same 𝔳[d'] = true)
    (hr : Spec.specialCase .log1p 𝔳[d] = none →
      (-10 < (Nat.log 10 (Sp.cf d) : ℤ) + Sp.ex d ∨ (-1588 ≤ Sp.ex d ∧ -1588 ≤ Sp.ex d'))) :
    ∃ r r', Gen.Log1p g d = .ok r ∧ Gen.Log1p g d' = .ok r' ∧ (𝔳[r]).same 𝔳[r'] = true := by
  cases hs : Spec.specialCase .log1p 𝔳[d] with
  | some w => exact elem_encoding_independent_partial .log1p g d d' w h hs
  | none => exact log1p_encoding_independent_c19 g d d' h (l1pDom_of_none d hs) (hr hs)

/-! ## Sqrt — PARTIAL: all arguments whose first Heron quotient is inexact -/

/-- **C19 for Sqrt — PARTIAL**: all bit patterns `d ~ d'`, every default rounding mode, provided that (on the general
path) the first quotient `ν/x₀` of the Heron iteration does not terminate: with `c·10^e` the operand and
`A = seedInt c e` (`819c + 259·10^⌊log c⌋` resp. `2590c + 819·10^⌊log c⌋` by the parity of `e + ⌊log c⌋`) the seed in
units of its last place, `A ∤ c·10^n` for all `n`.  Then the first quotient is inexact, hence the same full-width
register in both runs, and from the second step on the two computations coincide: the results are bit-identical.
`A` is always a multiple of 7, so the condition holds whenever `7 ∤ c` (`sqrt_encoding_independent_of_not_seven`);
below `3·10^7` the only coefficients violating it are `854` (odd parity) and `4989376` (even parity).  Missing: those
arguments — there the iterates stay exact and representation-dependent for one more step and the side conditions of
the operation lemmas (no over-full twin, `NoSkip`) are not known to hold; by evaluation the results are still equal. -/
theorem sqrt_encoding_independent_partial' (g : Globals) (d d' : Gen.Decimal)
    (h : (𝔳[d]).same 𝔳[d'] = true)
    (hq : Spec.specialCase .sqrt 𝔳[d] = none →
      ∀ n, ¬ seedInt (Sp.cf d) (Sp.ex d) ∣ Sp.cf d * 10 ^ n) :
    ∃ r r', Gen.Sqrt g d = .ok r ∧ Gen.Sqrt g d' = .ok r' ∧ (𝔳[r]).same 𝔳[r'] = true := by
  cases hs : Spec.specialCase .sqrt 𝔳[d] with
  | some w => exact elem_encoding_independent_partial .sqrt g d d' w h hs
  | none =>
    obtain ⟨h1, h2, h3⟩ := general_of_none .sqrt d hs
    exact sqrt_encoding_independent_same_of_arith g d d' h h1 h2 (h3 (Or.inr (Or.inr (Or.inr rfl)))) _ _ rfl rfl
      (hq hs)

/-- … in particular for every coefficient not divisible by 7 — no hypothesis about the run -/
theorem sqrt_encoding_independent_of_not_seven (g : Globals) (d d' : Gen.Decimal)
    (h : (𝔳[d]).same 𝔳[d'] = true) (h7 : ¬ 7 ∣ Sp.cf d) :
    ∃ r r', Gen.Sqrt g d = .ok r ∧ Gen.Sqrt g d' = .ok r' ∧ (𝔳[r]).same 𝔳[r'] = true := by
  cases hs : Spec.specialCase .sqrt 𝔳[d] with
  | some w => exact elem_encoding_independent_partial .sqrt g d d' w h hs
  | none =>
    obtain ⟨h1, h2, h3⟩ := general_of_none .sqrt d hs
    exact sqrt_encoding_independent_same_of_not_dvd_seven g d d' h h1 h2 (h3 (Or.inr (Or.inr (Or.inr rfl)))) h7

/-- on the general path the results are bit-identical -/
theorem sqrt_bits_partial (g : Globals) (d d' : Gen.Decimal) (h : (𝔳[d]).same 𝔳[d'] = true)
    (h1 : Gen.Decimal.isSpecial d = false) (h2 : Gen.Decimal.IsZero d = false)
    (h3 : Gen.Decimal.Signbit d = false) (hq : ∀ n, ¬ seedInt (Sp.cf d) (Sp.ex d) ∣ Sp.cf d * 10 ^ n) :
    Gen.Sqrt g d = Gen.Sqrt g d' :=
  sqrt_encoding_independent_of_arith g d d' h h1 h2 h3 _ _ rfl rfl hq

/-! ## Cbrt — PARTIAL: a run-level side condition on the exact Halley steps -/

/-- **C19 for Cbrt — PARTIAL**: all bit patterns `d ~ d'`, every VALID default rounding mode, under the run-level
hypothesis `CohortElem.CbrtRunCond d` about the run on `d` only: in every Halley step that starts with sticky flag 0
and computes its cube `x³` EXACTLY, the values `x³`, `2x³`, `x³ + 2d` have no "over-full" 58-digit representation
(leading digits outside `[6.1299…, 6.2771…)`) and the quotient `(x³+2d)/(2x³+d)` has leading digits outside
`[6.1299…, 7.1299…)` (`NoSkip`).  Nothing is assumed about steps whose cube is inexact (every step once the iterate has
full width) nor about the run on `d'`.  Both calls return and the results have the same class, sign and value.
The condition cannot simply be dropped: the working-format `add` and `quo` are NOT functions of the values of their
operands (`#guard`s in D128/Proofs/CohortElemAddCongr.lean, CohortElemQuoCongr.lean); it is sufficient, not necessary
(no counterexample to C19 for Cbrt was found by evaluation of millions of cohorts).  Bit-identity does NOT hold in
general: `Cbrt(1e0) = 10^34e-34`, `Cbrt(10^15e-15) = 10^33e-33`; it holds when the core returns a raised flag
(`cbrt_bits_partial`). -/
theorem cbrt_encoding_independent_partial' (g : Globals) (m : Spec.Mode)
    (hm : Spec.Mode.ofNat? g.DefaultRoundingMode.toNat = some m) (d d' : Gen.Decimal)
    (h : (𝔳[d]).same 𝔳[d'] = true)
    (hrun : Spec.specialCase .cbrt 𝔳[d] = none → CbrtRunCond d) :
    ∃ r r', Gen.Cbrt g d = .ok r ∧ Gen.Cbrt g d' = .ok r' ∧ (𝔳[r]).same 𝔳[r'] = true := by
  cases hs : Spec.specialCase .cbrt 𝔳[d] with
  | some w => exact elem_encoding_independent_partial .cbrt g d d' w h hs
  | none =>
    obtain ⟨h1, h2, -⟩ := general_of_none .cbrt d hs
    exact cbrt_encoding_independent_partial g m hm d d' h h1 h2 (hrun hs)

/-- bit-identical results when moreover the core of the run on `d` ends with a raised sticky flag (the generic
case: some last multiplication of a Halley step was inexact); every `g`, valid mode byte or not -/
theorem cbrt_bits_partial (g : Globals) (d d' : Gen.Decimal) (h : (𝔳[d]).same 𝔳[d'] = true)
    (h1 : Gen.Decimal.isSpecial d = false) (h2 : Gen.Decimal.IsZero d = false)
    (hrun : CbrtRunCond d) (hflag : ∃ x, Root.cbrtCore d = .ok (x, 1)) :
    Gen.Cbrt g d = Gen.Cbrt g d' :=
  cbrt_encoding_independent_bits_partial g d d' h h1 h2 hrun hflag

end Props.C19

namespace Props.C19
open Cohort CohortElem
local notation "𝔳[" d "]" => Spec.interp (Gen.Decimal.lo d) (Gen.Decimal.hi d)

/-- hypotheses satisfiable: `Log 7` for `7e0` and `7000e-3`, every default rounding mode -/
example (g : Globals) := elem_encoding_independent .log (Or.inr (Or.inr (Or.inr (Or.inr (Or.inl rfl))))) g
  (Gen.compose false ⟨7, 0⟩ 6176) (Gen.compose false ⟨7000, 0⟩ 6173) (by decide +kernel)
/-- `Exp2 (-1.5)` for `-15e-1` and `-1500e-3` -/
example (g : Globals) := elem_encoding_independent .exp2 (Or.inr (Or.inl rfl)) g
  (Gen.compose true ⟨15, 0⟩ 6175) (Gen.compose true ⟨1500, 0⟩ 6173) (by decide +kernel)
/-- `Log1p 0.5` for `5e-1` and `500e-3` -/
example (g : Globals) := log1p_encoding_independent_partial' g
  (Gen.compose false ⟨5, 0⟩ 6175) (Gen.compose false ⟨500, 0⟩ 6173) (by decide +kernel)
  (fun _ => Or.inr ⟨by decide, by decide⟩)
/-- `Cbrt 3` for `3e0` and `3000e-3` (the run-level hypothesis is discharged in D128/Proofs/CohortElemCbrtEx.lean) -/
example (g : Globals) (m : Spec.Mode) (hm : Spec.Mode.ofNat? g.DefaultRoundingMode.toNat = some m) :=
  cbrt_encoding_independent_partial' g m hm Ex3.d3 Ex3.d3' Ex3.hsame (fun _ => Ex3.runCond)
/-- `Sqrt 2` for `2e0` and `2000e-3` (7 ∤ 2) -/
example (g : Globals) := sqrt_encoding_independent_of_not_seven g
  (Gen.compose false ⟨2, 0⟩ 6176) (Gen.compose false ⟨2000, 0⟩ 6173) (by decide +kernel) (by decide)

end Props.C19
