/-
  Property C10, last clause: "FromRat of any rational is … within 2 parts in 10^33 of the exact value
  otherwise" — and the general relative-error lemma about `Spec.roundTo` it rests on.

  Statements only; proofs assemble `D128/Proofs/SpecRoundRel.lean` and `D128/Proofs/FromRatBound*.lean`.
  Every `fromRat_*` theorem is about the generated `Gen.FromRat` (translation of /repo/convert.go:
  `FromInt(num).Quo(FromInt(den))`, three roundings in the package's `DefaultRoundingMode`); `𝔳[d]` is the
  value a bit pattern denotes, `(𝔳[d]).toRat` its exact rational value.

  THE CLAUSE AS WRITTEN IS FALSE.  What holds (each exclusion is necessary — `fromRat_counterexample_*`):

  A. nearest modes (the default ToNearestEven, and ToNearestAway)
     `fromRat_relative_error`   |num|, den < (Cmax+½)·10^Emax ≈ 1.298e6145 and |r| ≥ 5e-6144
                                ⇒ finite, |FromRat r − r| ≤ 2·10^-33·|r|
     `fromRat_relative_error_normal`   … and |r| ≥ 1e-6143 ⇒ ≤ 1.3·10^-33·|r|
     `fromRat_abs_error`        … every r (no lower bound) ⇒ ≤ 1.2·10^-33·|r| + ½·10^-6176
     `fromRat_error`            the sharp form: 0.8e-33·|r| + max (½·10^Emin) (0.4e-33·|r|)
  B. every mode: |num|, den ≤ Cmax·10^Emax, |r| ≥ 1e-6143
     `fromRat_relative_error_any_mode`   ≤ 2.6·10^-33·|r|      (NOT 2·10^-33: see C)
     `fromRat_relative_error_same_dir`   toZero, awayFromZero, toNegInf/toPosInf with r > 0: ≤ 1.8·10^-33·|r|
  C. excluded inputs, with the counterexample evaluated on the generated code
     `fromRat_counterexample_toPosInf`, `…_toNegInf`   directed modes 5 and 4 on a negative r: 2.134·10^-33
     `fromRat_counterexample_subnormal`   |r| < 5e-6144: r = 1/(3·10^6144) has relative error 10^-32
     `fromRat_counterexample_low`         r = 23/((10^34+21)·10^6111) ≈ 2.3e-6144 has relative error 2.1·10^-33
     `fromRat_counterexample_num`, `fromRat_num_overflow`   numerator ≥ threshold: ±Inf or NaN whatever r is
     `fromRat_counterexample_den`, `fromRat_den_overflow`   denominator ≥ threshold: the result is 0
     `fromRat_counterexample_threshold`   the threshold (Cmax+½)·10^Emax is sharp
  D. the lemma about the specification
     `roundTo_rel_error`, `roundTo_rel_error_every_mode`, `roundTo_abs_error_subnormal`, `roundTo_unit_roundoff`
  E. property C09, clause "FromFloat of any big.Float is within 2 parts in 10^33 of it" (`Gen.FromFloat` is
     `FromRat(f.Rat(nil))`): `fromFloat_code`, `fromFloat_relative_error` (same hypotheses as A, on the numerator
     and denominator of the exact value), `fromFloat_counterexample_nan`: FALSE as written — the valid big.Float
     `1 + 2^-20500` converts to NaN
-/
import D128.Proofs.FromRatBoundEx
import D128.Proofs.FromRatBoundFloat
set_option autoImplicit false

namespace Props.C10c
open FromRatBound

/-- the value a bit pattern denotes -/
local notation "𝔳[" d "]" => Spec.interp (Gen.Decimal.lo d) (Gen.Decimal.hi d)

/-- the two round-to-nearest modes -/
abbrev Nearest (m : Spec.Mode) : Prop := m = .nearestEven ∨ m = .nearestAway

theorem nearest_iff (m : Spec.Mode) : Nearest m ↔ SpecRound.isNearest m = true := by
  cases m <;> simp [Nearest, SpecRound.isNearest]

/-! ## D. relative error of `Spec.roundTo` -/

/-- **roundTo, nearest modes, normal range** (`q ≥ 10^(Emin+33) = 1e-6143`): a finite result `c·10^e` is
    within half a unit of the 34th significant digit, `|c·10^e − q| ≤ ½·10^-33·q`. -/
theorem roundTo_rel_error (m : Spec.Mode) (hm : Nearest m) (neg : Bool) (q : ℚ)
    (hq : (10 : ℚ) ^ (Spec.Emin + 33) ≤ q) (n : Bool) (c : Nat) (e : Int)
    (h : Spec.roundTo m neg q = .fin n c e) :
    |(c : ℚ) * (10 : ℚ) ^ e - q| ≤ 1 / 2 * (10 : ℚ) ^ (-33 : Int) * q :=
  SpecRound.roundTo_rel_error ((nearest_iff m).1 hm) hq h

/-- **roundTo, every mode, normal range**: strictly within one unit of the 34th digit -/
theorem roundTo_rel_error_every_mode (m : Spec.Mode) (neg : Bool) (q : ℚ)
    (hq : (10 : ℚ) ^ (Spec.Emin + 33) ≤ q) (n : Bool) (c : Nat) (e : Int)
    (h : Spec.roundTo m neg q = .fin n c e) :
    |(c : ℚ) * (10 : ℚ) ^ e - q| < (10 : ℚ) ^ (-33 : Int) * q :=
  SpecRound.roundTo_rel_error_lt hq h

/-- **roundTo at the bottom of the range** (`q < (Cmax+1)·10^Emin`, which contains the subnormal range
    `q < 1e-6143`): absolute error at most half a unit of `10^Emin` in the nearest modes, below one unit
    in every mode -/
theorem roundTo_abs_error_subnormal (m : Spec.Mode) (neg : Bool) (q : ℚ) (hq : 0 < q)
    (hlow : q < ((Spec.Cmax : ℚ) + 1) * (10 : ℚ) ^ Spec.Emin) (n : Bool) (c : Nat) (e : Int)
    (h : Spec.roundTo m neg q = .fin n c e) :
    |(c : ℚ) * (10 : ℚ) ^ e - q| < (10 : ℚ) ^ Spec.Emin ∧
    (Nearest m → |(c : ℚ) * (10 : ℚ) ^ e - q| ≤ (10 : ℚ) ^ Spec.Emin / 2) :=
  ⟨SpecRound.roundTo_abs_error_low_lt hq hlow h,
   fun hm => SpecRound.roundTo_abs_error_low ((nearest_iff m).1 hm) hq hlow h⟩

/-- the unit roundoff of the format is `2^-111 ≈ 0.385·10^-33` (coefficients reach `Cmax = 10·2^110 − 1`, so
    a normalised coefficient is at least `2^110`), from `2^110·10^Emin` on; and it is attained up to the
    factor `1 + 2^-111` (a tie just above `2^110`) -/
theorem roundTo_unit_roundoff :
    (∀ (m : Spec.Mode), Nearest m → ∀ (neg : Bool) (q : ℚ),
      (2 ^ 110 : ℚ) * (10 : ℚ) ^ Spec.Emin ≤ q → ∀ (n : Bool) (c : Nat) (e : Int),
      Spec.roundTo m neg q = .fin n c e → |(c : ℚ) * (10 : ℚ) ^ e - q| ≤ q / 2 ^ 111) ∧
    (∃ (q : ℚ) (c : Nat) (e : Int), (2 ^ 110 : ℚ) * (10 : ℚ) ^ Spec.Emin ≤ q ∧
      Spec.roundTo .nearestEven false q = .fin false c e ∧
      |(c : ℚ) * (10 : ℚ) ^ e - q| = q / (2 ^ 111 + 1)) :=
  ⟨fun m hm _ _ hq _ _ _ h => SpecRound.roundTo_rel_error_sharp ((nearest_iff m).1 hm) hq h,
   SpecRound.roundTo_rel_error_tight⟩

/-! ## A. `FromRat`, nearest modes -/

/-- **FromRat, sharp form.**  Nearest mode, numerator and denominator below the overflow threshold
    `(Cmax+½)·10^Emax` of `FromInt`: the call returns (no panic, all loops terminate) a finite Decimal with
    `|FromRat r − r| ≤ 0.8·10^-33·|r| + max (½·10^Emin) (0.4·10^-33·|r|)`. -/
theorem fromRat_error (g : Globals) (r : Rat) (m : Spec.Mode)
    (hm : Spec.Mode.ofNat? g.DefaultRoundingMode.toNat = some m) (hnear : Nearest m)
    (hnum : (r.num.natAbs : ℚ) < ((Spec.Cmax : ℚ) + 1 / 2) * (10 : ℚ) ^ Spec.Emax)
    (hden : (r.den : ℚ) < ((Spec.Cmax : ℚ) + 1 / 2) * (10 : ℚ) ^ Spec.Emax) :
    ∃ d, Gen.FromRat g r = .ok d ∧ (𝔳[d]).isFin = true ∧
      |(𝔳[d]).toRat - r| ≤ 8 / 10 * (10 : ℚ) ^ (-33 : Int) * |r| +
        max ((10 : ℚ) ^ Spec.Emin / 2) (4 / 10 * (10 : ℚ) ^ (-33 : Int) * |r|) :=
  FromRat_bound_nearest g r m hm ((nearest_iff m).1 hnear) hnum hden

/-- **FromRat is within 2 parts in 10^33** (the C10 clause), under the weakest hypotheses established:
    a nearest mode; `|num|` and `den` below `(Cmax+½)·10^Emax ≈ 1.298e6145` (exactly: `FromInt` of both is
    finite); `|r| ≥ 5·10^(Emin+32) = 5e-6144`. -/
theorem fromRat_relative_error (g : Globals) (r : Rat) (m : Spec.Mode)
    (hm : Spec.Mode.ofNat? g.DefaultRoundingMode.toNat = some m) (hnear : Nearest m)
    (hnum : (r.num.natAbs : ℚ) < ((Spec.Cmax : ℚ) + 1 / 2) * (10 : ℚ) ^ Spec.Emax)
    (hden : (r.den : ℚ) < ((Spec.Cmax : ℚ) + 1 / 2) * (10 : ℚ) ^ Spec.Emax)
    (hlow : 5 * (10 : ℚ) ^ (Spec.Emin + 32) ≤ |r|) :
    ∃ d, Gen.FromRat g r = .ok d ∧ (𝔳[d]).isFin = true ∧
      |(𝔳[d]).toRat - r| ≤ 2 * (10 : ℚ) ^ (-33 : Int) * |r| :=
  FromRat_rel_nearest g r m hm ((nearest_iff m).1 hnear) hnum hden hlow

/-- … in the normal range `|r| ≥ 1e-6143`: 1.3 parts in 10^33 -/
theorem fromRat_relative_error_normal (g : Globals) (r : Rat) (m : Spec.Mode)
    (hm : Spec.Mode.ofNat? g.DefaultRoundingMode.toNat = some m) (hnear : Nearest m)
    (hnum : (r.num.natAbs : ℚ) < ((Spec.Cmax : ℚ) + 1 / 2) * (10 : ℚ) ^ Spec.Emax)
    (hden : (r.den : ℚ) < ((Spec.Cmax : ℚ) + 1 / 2) * (10 : ℚ) ^ Spec.Emax)
    (hlow : (10 : ℚ) ^ (Spec.Emin + 33) ≤ |r|) :
    ∃ d, Gen.FromRat g r = .ok d ∧ (𝔳[d]).isFin = true ∧
      |(𝔳[d]).toRat - r| ≤ 13 / 10 * (10 : ℚ) ^ (-33 : Int) * |r| :=
  FromRat_rel_nearest_normal g r m hm ((nearest_iff m).1 hnear) hnum hden hlow

/-- … and with no lower bound on `|r|` (subnormal results included; nothing is flushed to zero, because
    `den < 1.298e6145` forces `|r| > 7.7e-6146`): relative part plus half a unit of `10^Emin` -/
theorem fromRat_abs_error (g : Globals) (r : Rat) (m : Spec.Mode)
    (hm : Spec.Mode.ofNat? g.DefaultRoundingMode.toNat = some m) (hnear : Nearest m)
    (hnum : (r.num.natAbs : ℚ) < ((Spec.Cmax : ℚ) + 1 / 2) * (10 : ℚ) ^ Spec.Emax)
    (hden : (r.den : ℚ) < ((Spec.Cmax : ℚ) + 1 / 2) * (10 : ℚ) ^ Spec.Emax) :
    ∃ d, Gen.FromRat g r = .ok d ∧ (𝔳[d]).isFin = true ∧
      |(𝔳[d]).toRat - r| ≤ 12 / 10 * (10 : ℚ) ^ (-33 : Int) * |r| + (10 : ℚ) ^ Spec.Emin / 2 :=
  FromRat_abs_nearest g r m hm ((nearest_iff m).1 hnear) hnum hden

/-- under the package default (mode byte 0, ToNearestEven) -/
theorem fromRat_relative_error_default (g : Globals) (hg : g.DefaultRoundingMode = 0) (r : Rat)
    (hnum : (r.num.natAbs : ℚ) < ((Spec.Cmax : ℚ) + 1 / 2) * (10 : ℚ) ^ Spec.Emax)
    (hden : (r.den : ℚ) < ((Spec.Cmax : ℚ) + 1 / 2) * (10 : ℚ) ^ Spec.Emax)
    (hlow : 5 * (10 : ℚ) ^ (Spec.Emin + 32) ≤ |r|) :
    ∃ d, Gen.FromRat g r = .ok d ∧ (𝔳[d]).isFin = true ∧
      |(𝔳[d]).toRat - r| ≤ 2 * (10 : ℚ) ^ (-33 : Int) * |r| :=
  fromRat_relative_error g r .nearestEven (by rw [hg]; rfl) (Or.inl rfl) hnum hden hlow

/-! ## B. every mode -/

/-- **every mode** (`DefaultRoundingMode` may be a directed mode): numerator and denominator at most the
    largest finite Decimal, `|r| ≥ 1e-6143`: within 2.6 parts in 10^33.  The constant 2 of the property is
    NOT reached in modes 4 and 5 (`fromRat_counterexample_toPosInf`). -/
theorem fromRat_relative_error_any_mode (g : Globals) (r : Rat) (m : Spec.Mode)
    (hm : Spec.Mode.ofNat? g.DefaultRoundingMode.toNat = some m)
    (hnum : (r.num.natAbs : ℚ) ≤ (Spec.Cmax : ℚ) * (10 : ℚ) ^ Spec.Emax)
    (hden : (r.den : ℚ) ≤ (Spec.Cmax : ℚ) * (10 : ℚ) ^ Spec.Emax)
    (hlow : (10 : ℚ) ^ (Spec.Emin + 33) ≤ |r|) :
    ∃ d, Gen.FromRat g r = .ok d ∧ (𝔳[d]).isFin = true ∧
      |(𝔳[d]).toRat - r| ≤ 26 / 10 * (10 : ℚ) ^ (-33 : Int) * |r| :=
  FromRat_rel_any g r m hm hnum hden hlow

theorem fromRat_error_any_mode (g : Globals) (r : Rat) (m : Spec.Mode)
    (hm : Spec.Mode.ofNat? g.DefaultRoundingMode.toNat = some m)
    (hnum : (r.num.natAbs : ℚ) ≤ (Spec.Cmax : ℚ) * (10 : ℚ) ^ Spec.Emax)
    (hden : (r.den : ℚ) ≤ (Spec.Cmax : ℚ) * (10 : ℚ) ^ Spec.Emax) :
    ∃ d, Gen.FromRat g r = .ok d ∧ (𝔳[d]).isFin = true ∧
      |(𝔳[d]).toRat - r| ≤ 16 / 10 * (10 : ℚ) ^ (-33 : Int) * |r| +
        max ((10 : ℚ) ^ Spec.Emin) (8 / 10 * (10 : ℚ) ^ (-33 : Int) * |r|) :=
  FromRat_bound_any g r m hm hnum hden

/-- **toZero, awayFromZero, and toNegInf / toPosInf on positive rationals** round numerator and denominator
    in the same direction; the errors partly cancel and 2 parts in 10^33 hold (1.8) -/
theorem fromRat_relative_error_same_dir (g : Globals) (r : Rat) (m : Spec.Mode)
    (hm : Spec.Mode.ofNat? g.DefaultRoundingMode.toNat = some m)
    (hdir : m = .toZero ∨ m = .awayFromZero ∨ ((m = .toNegInf ∨ m = .toPosInf) ∧ 0 < r))
    (hnum : (r.num.natAbs : ℚ) ≤ (Spec.Cmax : ℚ) * (10 : ℚ) ^ Spec.Emax)
    (hden : (r.den : ℚ) ≤ (Spec.Cmax : ℚ) * (10 : ℚ) ^ Spec.Emax)
    (hlow : (10 : ℚ) ^ (Spec.Emin + 33) ≤ |r|) :
    ∃ d, Gen.FromRat g r = .ok d ∧ (𝔳[d]).isFin = true ∧
      |(𝔳[d]).toRat - r| ≤ 18 / 10 * (10 : ℚ) ^ (-33 : Int) * |r| :=
  FromRat_rel_same g r m hm hdir hnum hden hlow

/-! ## C. the excluded inputs -/

/-- **numerator beyond the range**: if `FromInt(num)` is `±Inf` the result is `±Inf` or NaN, whatever the
    value of `r` -/
theorem fromRat_num_overflow (g : Globals) (r : Rat) (m : Spec.Mode)
    (hm : Spec.Mode.ofNat? g.DefaultRoundingMode.toNat = some m)
    (hn : Go.Big.bitLen r.num.natAbs < 2 ^ 63) (hd : Go.Big.bitLen r.den < 2 ^ 63) (hr : r ≠ 0)
    (hinf : (Spec.roundTo m (decide (r.num < 0)) (r.num.natAbs : ℚ)).isFin = false) :
    ∃ d, Gen.FromRat g r = .ok d ∧ (𝔳[d]).isFin = false :=
  FromRat_num_overflow g r m hm hn hd hr hinf

/-- **denominator beyond the range** (numerator finite): the result is a zero, the error is `|r|` -/
theorem fromRat_den_overflow (g : Globals) (r : Rat) (m : Spec.Mode)
    (hm : Spec.Mode.ofNat? g.DefaultRoundingMode.toNat = some m)
    (hn : Go.Big.bitLen r.num.natAbs < 2 ^ 63) (hd : Go.Big.bitLen r.den < 2 ^ 63) (hr : r ≠ 0)
    (hfn : (Spec.roundTo m (decide (r.num < 0)) (r.num.natAbs : ℚ)).isFin = true)
    (hinf : (Spec.roundTo m false (r.den : ℚ)).isFin = false) :
    ∃ d, Gen.FromRat g r = .ok d ∧ (𝔳[d]).toRat = 0 ∧ |(𝔳[d]).toRat - r| = |r| :=
  FromRat_den_overflow g r m hm hn hd hr hfn hinf

/-- `FromRat(10^6146/3^200)` (`≈ 3.8e6050`) is not finite, in every mode -/
theorem fromRat_counterexample_num (g : Globals) (m : Spec.Mode)
    (hm : Spec.Mode.ofNat? g.DefaultRoundingMode.toNat = some m) :
    ∃ d, Gen.FromRat g rBig = .ok d ∧ (𝔳[d]).isFin = false := cex_num_overflow g m hm

/-- `FromRat(3^200/10^6146)` (`≈ 2.7e-6051`) is `0`, in every mode -/
theorem fromRat_counterexample_den (g : Globals) (m : Spec.Mode)
    (hm : Spec.Mode.ofNat? g.DefaultRoundingMode.toNat = some m) :
    ∃ d, Gen.FromRat g rSmall = .ok d ∧ (𝔳[d]).toRat = 0 ∧ |(𝔳[d]).toRat - rSmall| = |rSmall| :=
  cex_den_overflow g m hm

/-- the threshold is sharp: numerator exactly `(Cmax+½)·10^Emax`, denominator 3, nearest mode: not finite -/
theorem fromRat_counterexample_threshold (g : Globals) (m : Spec.Mode)
    (hm : Spec.Mode.ofNat? g.DefaultRoundingMode.toNat = some m) (hnear : Nearest m) :
    ∃ d, Gen.FromRat g rT = .ok d ∧ (𝔳[d]).isFin = false :=
  cex_threshold g m hm ((nearest_iff m).1 hnear)

/-- **below 5e-6144**: `FromRat(1/(3·10^6144))`, default mode, has relative error `10^-32` -/
theorem fromRat_counterexample_subnormal (g : Globals) (hg : g.DefaultRoundingMode = 0) :
    ∃ d, Gen.FromRat g rSub = .ok d ∧ (𝔳[d]).isFin = true ∧
      |(𝔳[d]).toRat - rSub| = (10 : ℚ) ^ (-32 : Int) * |rSub| := cex_subnormal g hg

/-- … and it still fails at `2.3e-6144`: `FromRat(23/((10^34+21)·10^6111))`, default mode, has relative error
    exactly `2.1·10^-33` (the bound holds from `5e-6144` on) -/
theorem fromRat_counterexample_low (g : Globals) (hg : g.DefaultRoundingMode = 0) :
    ∃ d, Gen.FromRat g rLow = .ok d ∧ (𝔳[d]).isFin = true ∧
      |(𝔳[d]).toRat - rLow| = 21 / 10 * (10 : ℚ) ^ (-33 : Int) * |rLow| := cex_low g hg

/-- **ToPositiveInf (mode byte 5), negative `r`**: relative error above 2 parts in 10^33 (2.134) for
    `r = −(1684996666696914987166688442940357·10^40 − 1)/(2^110·10^40 + 1)` -/
theorem fromRat_counterexample_toPosInf (g : Globals) (hg : g.DefaultRoundingMode = 5) :
    ∃ d, Gen.FromRat g rDir = .ok d ∧ (𝔳[d]).isFin = true ∧
      2 * (10 : ℚ) ^ (-33 : Int) * |rDir| < |(𝔳[d]).toRat - rDir| := cex_toPosInf g hg

/-- **ToNegativeInf (mode byte 4), negative `r`**: likewise for
    `r = −(1684996666696914987166688442940490·10^40 + 1)/(2^110·10^40 + 10^40 − 1)` -/
theorem fromRat_counterexample_toNegInf (g : Globals) (hg : g.DefaultRoundingMode = 4) :
    ∃ d, Gen.FromRat g rDir' = .ok d ∧ (𝔳[d]).isFin = true ∧
      2 * (10 : ℚ) ^ (-33 : Int) * |rDir'| < |(𝔳[d]).toRat - rDir'| := cex_toNegInf g hg

/-! ## E. C09: `FromFloat` of a `big.Float` -/

/-- the code of `FromFloat`: ±Inf ↦ ±Inf, ±0 ↦ ±0, a finite non-zero `f` ↦ `FromRat` of its exact value -/
theorem fromFloat_code (g : Globals) (f : Go.BigFloat) :
    (f.form = .inf → Gen.FromFloat g f = .ok (Gen.inf f.neg)) ∧
    (f.form = .zero → Gen.FromFloat g f = .ok (Gen.zero f.neg)) ∧
    (f.form = .finite → Gen.FromFloat g f = Gen.FromRat g (fvalue f)) :=
  ⟨FromFloat_inf g f, FromFloat_zero g f, FromFloat_eq_FromRat g f⟩

/-- **FromFloat is within 2 parts in 10^33**, nearest mode, for a finite `f = ±m·2^e` whose exact value has
    numerator and denominator (`m·2^e` and 1, or `m` and `2^-e`) below `(Cmax+½)·10^Emax` and `|f| ≥ 5e-6144` -/
theorem fromFloat_relative_error (g : Globals) (f : Go.BigFloat) (m : Spec.Mode)
    (hm : Spec.Mode.ofNat? g.DefaultRoundingMode.toNat = some m) (hnear : Nearest m)
    (hf : f.form = .finite)
    (hnum : (f.val.num.natAbs : ℚ) < ((Spec.Cmax : ℚ) + 1 / 2) * (10 : ℚ) ^ Spec.Emax)
    (hden : (f.val.den : ℚ) < ((Spec.Cmax : ℚ) + 1 / 2) * (10 : ℚ) ^ Spec.Emax)
    (hlow : 5 * (10 : ℚ) ^ (Spec.Emin + 32) ≤ |fvalue f|) :
    ∃ d, Gen.FromFloat g f = .ok d ∧ (𝔳[d]).isFin = true ∧
      |(𝔳[d]).toRat - fvalue f| ≤ 2 * (10 : ℚ) ^ (-33 : Int) * |fvalue f| :=
  FromFloat_rel_nearest g f m hm ((nearest_iff m).1 hnear) hf hnum hden hlow

/-- **FromFloat(1 + 2^-20500) = NaN** (a valid `big.Float` of precision 20501; every mode): numerator and
    denominator of the exact value both exceed the Decimal range -/
theorem fromFloat_counterexample_nan (g : Globals) (m : Spec.Mode)
    (hm : Spec.Mode.ofNat? g.DefaultRoundingMode.toNat = some m) :
    fOne.valid = true ∧
    ∃ d, Gen.FromFloat g fOne = .ok d ∧ (𝔳[d]).isNaN = true ∧ fvalue fOne = 1 + 1 / 2 ^ 20500 :=
  ⟨fOne_valid, cex_fromFloat_nan g m hm⟩

/-! ## the hypotheses are satisfiable -/

/-- `2/3` in the default mode -/
example (g : Globals) (hg : g.DefaultRoundingMode = 0) :
    ∃ d, Gen.FromRat g (2 / 3 : ℚ) = .ok d ∧ (𝔳[d]).isFin = true ∧
      |(𝔳[d]).toRat - 2 / 3| ≤ 2 * (10 : ℚ) ^ (-33 : Int) * |(2 / 3 : ℚ)| := by
  have hnum : (2 / 3 : ℚ).num = 2 := by
    have h : (2 / 3 : ℚ) = ((2 : ℤ) : ℚ) / ((3 : ℤ) : ℚ) := by norm_num
    rw [h, Rat.num_div_eq_of_coprime (by norm_num) (by decide)]
  have hden : (2 / 3 : ℚ).den = 3 := by
    have h : (2 / 3 : ℚ) = ((2 : ℤ) : ℚ) / ((3 : ℤ) : ℚ) := by norm_num
    have h2 := Rat.den_div_eq_of_coprime (a := 2) (b := 3) (by norm_num) (by decide)
    rw [h]; exact Int.natCast_inj.1 h2
  have hbig : (3 : ℚ) < ((Spec.Cmax : ℚ) + 1 / 2) * (10 : ℚ) ^ Spec.Emax := by
    have h1 : (1 : ℚ) ≤ (10 : ℚ) ^ Spec.Emax := one_le_zpow₀ (by norm_num) (by unfold Spec.Emax; norm_num)
    have h2 : (3 : ℚ) < (Spec.Cmax : ℚ) + 1 / 2 := by unfold Spec.Cmax; norm_num
    nlinarith
  refine fromRat_relative_error_default g hg _ ?_ ?_ ?_
  · rw [hnum]; norm_num; linarith
  · rw [hden]; exact_mod_cast hbig
  · have : (10 : ℚ) ^ (Spec.Emin + 32) ≤ (10 : ℚ) ^ (-2 : Int) :=
      zpow_le_zpow_right₀ (by norm_num) (by unfold Spec.Emin; norm_num)
    have h2 : (10 : ℚ) ^ (-2 : Int) = 1 / 100 := by norm_num
    rw [h2] at this
    rw [abs_of_pos (by norm_num)]
    linarith

/-- the float64 nearest to 0.1 as a `big.Float` of precision 53 -/
example (g : Globals) (hg : g.DefaultRoundingMode = 0) :
    let f : Go.BigFloat := { prec := 53, mode := 0, form := .finite, neg := false,
                             val := 3602879701896397 / 36028797018963968 }
    ∃ d, Gen.FromFloat g f = .ok d ∧ (𝔳[d]).isFin = true ∧
      |(𝔳[d]).toRat - fvalue f| ≤ 2 * (10 : ℚ) ^ (-33 : Int) * |fvalue f| := by
  intro f
  have hnum : f.val.num.natAbs = 3602879701896397 := by decide +kernel
  have hden : f.val.den = 36028797018963968 := by decide +kernel
  have hbig : (36028797018963968 : ℚ) < ((Spec.Cmax : ℚ) + 1 / 2) * (10 : ℚ) ^ Spec.Emax := by
    have h1 : (1 : ℚ) ≤ (10 : ℚ) ^ Spec.Emax := one_le_zpow₀ (by norm_num) (by unfold Spec.Emax; norm_num)
    have h2 : (36028797018963968 : ℚ) < (Spec.Cmax : ℚ) + 1 / 2 := by unfold Spec.Cmax; norm_num
    nlinarith
  refine fromFloat_relative_error g f .nearestEven (by rw [hg]; rfl) (Or.inl rfl) rfl ?_ ?_ ?_
  · rw [hnum]; refine lt_trans ?_ hbig; norm_num
  · rw [hden]; exact_mod_cast hbig
  · have hv : fvalue f = 3602879701896397 / 36028797018963968 := by simp [fvalue, f]
    have : (10 : ℚ) ^ (Spec.Emin + 32) ≤ (10 : ℚ) ^ (-3 : Int) :=
      zpow_le_zpow_right₀ (by norm_num) (by unfold Spec.Emin; norm_num)
    have h2 : (10 : ℚ) ^ (-3 : Int) = 1 / 1000 := by norm_num
    rw [h2] at this
    rw [hv, abs_of_pos (by norm_num)]
    have h3 : (5 : ℚ) * (1 / 1000) ≤ 3602879701896397 / 36028797018963968 := by norm_num
    linarith

/-- numerator one below the threshold `(Cmax+½)·10^Emax`, denominator 3 -/
example (g : Globals) (hg : g.DefaultRoundingMode = 0) :
    ∃ d, Gen.FromRat g rT1 = .ok d ∧ (𝔳[d]).isFin = true ∧
      |(𝔳[d]).toRat - rT1| ≤ 8 / 10 * (10 : ℚ) ^ (-33 : Int) * |rT1| +
        max ((10 : ℚ) ^ Spec.Emin / 2) (4 / 10 * (10 : ℚ) ^ (-33 : Int) * |rT1|) :=
  ex_below_threshold g hg

end Props.C10c
