/-
  Property C09, the `big.Float` clauses: "Float returns d with relative error at most 2^(1-prec) for the
  result's precision prec (correctly rounded when prec >= 114, as with the default 128 bits; ±Inf for
  ±Inf), and FromFloat of any big.Float is within 2 parts in 10^33 of it."

  Statements only; the proofs assemble `D128/Proofs/BigFloatSpec.lean` (what the model's one rounding function
  `Go.BigFloat.roundBits` computes), `D128/Proofs/FloatBig{,Trip,Err,Oracle,Ex}.lean` and, for `FromFloat`,
  `D128/Proofs/FromRatBoundFloat.lean`.  Every theorem is about the generated `Gen.Decimal.Float` /
  `Gen.FromFloat` (translation of /repo/convert.go, D128/Gen/ConvertBigFloat.lean) over the value model of
  `*big.Float` (D128/Go/BigFloat.lean: precision, mode, form, sign, exact rational magnitude; every math/big
  method is its documented meaning — math/big is specified, not verified).  `𝔳[d]` is the value a bit pattern
  denotes, `(𝔳[d]).toRat` its exact rational value, `fvalue F` the exact rational value of a finite `big.Float`.

  Receivers: `f : Option Go.BigFloat` — `none` is the nil pointer; a non-nil receiver may have ANY precision
  (0 included), ANY mode byte and ANY prior value (even one violating the model's invariants); the only
  hypothesis is `RecvOK f`: `prec < 2^64` (`Prec()` is a `uint`; math/big guarantees `prec ≤ MaxPrec = 2^32 − 1`).

  A. Decimal.Float — all 2^128 bit patterns
     `float_spec`               the whole function in one equation: NaN ↦ the documented panic; ±Inf ↦ ±Inf;
                                finite ↦ ONE `setVal` (one rounding) of the exact value into the receiver
     `float_total`, `float_panics_iff`   panics exactly on NaN (message "Decimal(NaN).Float()"), else returns
     `float_inf`                ±Inf ↦ ±Inf, precision as the code leaves it (`infPrec`: 0 for nil)
     `float_zero`               ±0 ↦ ±0 (sign kept)
     `float_prec_mode`          precision = receiver's if non-zero else 128 (0 for nil and ±Inf); mode kept (0 for nil)
     `float_correctly_rounded`  finite non-zero `d`: magnitude = `roundBits prec mode sign |d|` of the EXACT value,
                                = the mode's choice (`BF.pick`) among the two neighbours of `|d|` (`BF.Bracket`)
                                — for every precision ≥ 1, not only ≥ 114
     `float_rel_error`          `|F − d| < 2^(1−prec)·|d|`, every mode
     `float_nearest_error`      `|F − d| ≤ 2^(−prec)·|d|`, modes ToNearestEven / ToNearestAway
     `float_default`            `d.Float(nil)`: 128 bits, ToNearestEven, `|F − d| ≤ 2^−128·|d|`
     `float_exact`              `F = d` when `|d|` has at most `prec` significant bits
     `float_directed`           side of the result in ToZero / AwayFromZero / ToNegativeInf / ToPositiveInf
     `float_valid`              the result satisfies the invariants of the model (`Go.BigFloat.valid`)
     `float_oracle`             mode 0: magnitude = `Spec.roundBinNE |d| prec`, the oracle's function
  B. `roundBits` itself (re-exported from `BF`): `roundBits_spec`, `roundBits_rel_error`, `roundBits_exact`
  C. FromFloat
     `fromFloat_spec`           ±Inf ↦ ±Inf, ±0 ↦ ±0, finite ↦ `FromRat` of the exact value (no hypotheses)
     `fromFloat_relative_error` nearest `DefaultRoundingMode`; numerator and denominator of the exact value
                                `m·2^e` (i.e. `m·2^e` and 1, or `m` and `2^−e`) below `(Cmax+½)·10^Emax ≈ 1.298e6145`;
                                `|f| ≥ 5e-6144` ⇒ finite, within 2 parts in 10^33
     `fromFloat_relative_error_any_mode`   every mode: 2.6 parts in 10^33 (`|f| ≥ 1e-6143`)
     `fromFloat_counterexample_nan`   THE CLAUSE IS FALSE AS WRITTEN: the valid `big.Float` `1 + 2^-20500`
                                (precision 20501) converts to NaN in every mode
  D. round trip `FromFloat(d.Float(nil))`
     `trip_exact`, `trip_int`   `Equal` to `d` when `|d|` has ≤ 128 significant bits and the reduced denominator
                                converts exactly (every integer-valued `d < 2^128`; dyadic fractions to 2^-113)
     `trip_integer`             nearest mode: EVERY integer-valued `d` (any size) comes back `Equal`
     `trip_relative_error`      nearest mode, `|d| ≥ 2^-20286 ≈ 1.1e-6107`: within `2·10^-33 + 2^-127` (relative)
     `trip_underflow`           `0 < |d| < 2^-20414 ≈ 5.8e-6146`: comes back as ZERO, every mode
     `trip_counterexample`      NOT `Equal` in general: default mode, `0.7 ↦ 0.6999999999999999999999999999999999`
     `trip_counterexample_directed`   AwayFromZero: the integer `9999999999999999999999999999999999e10 ↦ 1e44`
-/
import D128.Proofs.FloatBigErr
import D128.Proofs.FloatBigEx
import D128.Proofs.FloatBigTripInt
set_option autoImplicit false

namespace Props.C09b
open Go Go.BigFloat FB BF FromRatBound BigConv

/-- the value a bit pattern denotes -/
local notation "𝔳[" d "]" => Spec.interp (Gen.Decimal.lo d) (Gen.Decimal.hi d)

/-- the only hypothesis on a receiver: its precision fits the `uint` that `Prec()` returns -/
abbrev RecvOK (f : Option BigFloat) : Prop := ∀ x, f = some x → x.prec < 2 ^ 64

theorem recvOK_nil : RecvOK none := fun _ h => by cases h

/-- a receiver that math/big could have produced (`prec ≤ MaxPrec`) is fine -/
theorem recvOK_of_le {f : Option BigFloat} (h : ∀ x, f = some x → x.prec ≤ MaxPrec) : RecvOK f :=
  fun x hx => lt_of_le_maxPrec (h x hx)

/-! ## A. Decimal.Float -/

/-- **Float, the whole function.**  For every bit pattern and every receiver: NaN panics with the documented
    message; `±Inf` gives `±Inf` (precision `infPrec f`, mode of the receiver); a finite `d = ±c·10^e` gives the
    receiver's precision (128 if it has none) and mode with the value stored by ONE
    `Go.BigFloat.setVal … sign (c·10^e)`: `±0` for `c = 0`, otherwise the magnitude
    `roundBits prec mode sign (c·10^e)` — one rounding of the exact value. -/
theorem float_spec (d : Gen.Decimal) (f : Option BigFloat) (hf : RecvOK f) :
    Gen.Decimal.Float d f =
      (match 𝔳[d] with
        | .nan _ _ => .error (.explicit "Decimal(NaN).Float()")
        | .inf n => .ok ⟨infPrec f, recvMode f, .inf, n, 0⟩
        | .fin n c e => .ok (setVal ⟨recvPrec f, recvMode f, .zero, false, 0⟩ n ((c : ℚ) * (10 : ℚ) ^ e))) := by
  rcases interp_class d with ⟨hn, p, hv⟩ | ⟨hs, hn, hv⟩ | ⟨hs, hn, hv⟩
  · rw [hv, Float_nan d f hn]
  · rw [hv, Float_inf d f hs hn hf]
  · rw [hv, Float_finite d f hs hf]

/-- `setVal`, spelled out: a zero keeps the sign, anything else is rounded once by `roundBits` -/
theorem setVal_spec (P : ℕ) (M : UInt8) (n : Bool) (q : ℚ) :
    setVal ⟨P, M, .zero, false, 0⟩ n q =
      if q = 0 then ⟨P, M, .zero, n, 0⟩ else ⟨P, M, .finite, n, roundBits P M n q⟩ :=
  setVal_eq _ n q

/-- **totality**: the documented panic exactly on NaN, a result otherwise -/
theorem float_total (d : Gen.Decimal) (f : Option BigFloat) (hf : RecvOK f) :
    (Gen.Decimal.IsNaN d = true → Gen.Decimal.Float d f = .error (.explicit "Decimal(NaN).Float()")) ∧
    (Gen.Decimal.IsNaN d = false → ∃ F, Gen.Decimal.Float d f = .ok F) := by
  refine ⟨Float_nan d f, fun hn => ?_⟩
  by_cases hs : Gen.Decimal.isSpecial d = true
  · exact ⟨_, Float_inf d f hs hn hf⟩
  · exact ⟨_, Float_finite d f (by simpa using hs) hf⟩

theorem float_panics_iff (d : Gen.Decimal) (f : Option BigFloat) (hf : RecvOK f) :
    (∃ p, Gen.Decimal.Float d f = .error p) ↔ Gen.Decimal.IsNaN d = true := by
  obtain ⟨h1, h2⟩ := float_total d f hf
  constructor
  · rintro ⟨p, hp⟩
    by_contra hn
    obtain ⟨F, hF⟩ := h2 (by simpa using hn)
    rw [hF] at hp; cases hp
  · intro hn; exact ⟨_, h1 hn⟩

/-- **±Inf ↦ ±Inf**; the precision is what the code leaves: 0 for a nil receiver (`new(big.Float)`), 128 for a
    receiver without precision, else the receiver's; the mode is the receiver's -/
theorem float_inf (d : Gen.Decimal) (f : Option BigFloat) (hf : RecvOK f)
    (hs : Gen.Decimal.isSpecial d = true) (hn : Gen.Decimal.IsNaN d = false) :
    Gen.Decimal.Float d f = .ok ⟨infPrec f, recvMode f, .inf, Gen.Decimal.Signbit d, 0⟩ :=
  Float_inf d f hs hn hf

/-- **±0 ↦ ±0** with the sign of `d` -/
theorem float_zero (d : Gen.Decimal) (f : Option BigFloat) (hf : RecvOK f)
    (hs : Gen.Decimal.isSpecial d = false) (hz : (𝔳[d]).toRat = 0) :
    Gen.Decimal.Float d f = .ok ⟨recvPrec f, recvMode f, .zero, Gen.Decimal.Signbit d, 0⟩ :=
  Float_zero d f hs hf hz

/-- **precision and mode of the result**: the receiver's precision if non-zero, else 128 (finite `d`; for `±Inf`
    and a nil receiver 0); the receiver's mode (ToNearestEven for nil) -/
theorem float_prec_mode (d : Gen.Decimal) (f : Option BigFloat) (hf : RecvOK f) (F : BigFloat)
    (h : Gen.Decimal.Float d f = .ok F) :
    F.prec = (if Gen.Decimal.isSpecial d = true then infPrec f else recvPrec f) ∧ F.mode = recvMode f := by
  have hn : Gen.Decimal.IsNaN d = false := by
    by_contra hn
    rw [Float_nan d f (by simpa using hn)] at h; cases h
  by_cases hs : Gen.Decimal.isSpecial d = true
  · rw [Float_inf d f hs hn hf] at h; cases h; rw [if_pos hs]; exact ⟨rfl, rfl⟩
  · have hs' : Gen.Decimal.isSpecial d = false := by simpa using hs
    rw [Float_value d f hs' hf, setVal_eq] at h
    rw [if_neg hs]
    split at h <;> (cases h; exact ⟨rfl, rfl⟩)

theorem recvPrec_nil : recvPrec none = 128 := rfl
theorem recvPrec_some (x : BigFloat) : recvPrec (some x) = if x.prec = 0 then 128 else x.prec := rfl
theorem recvMode_nil : recvMode none = 0 := rfl
theorem recvMode_some (x : BigFloat) : recvMode (some x) = x.mode := rfl
theorem infPrec_nil : infPrec none = 0 := rfl
theorem infPrec_some (x : BigFloat) : infPrec (some x) = if x.prec = 0 then 128 else x.prec := rfl

/-- **Float is correctly rounded, for every precision and every mode.**  Finite non-zero `d`: the magnitude of
    the result is `roundBits prec mode sign` of the EXACT magnitude `|d|` (one rounding), and that is the
    neighbour `BF.pick mode sign |d| m u` which the mode selects in THE bracket `m·2^u ≤ |d| < (m+1)·2^u`,
    `2^(prec-1) ≤ m < 2^prec` (unique: `BF.Bracket.unique`). -/
theorem float_correctly_rounded (d : Gen.Decimal) (f : Option BigFloat) (hf : RecvOK f)
    (hs : Gen.Decimal.isSpecial d = false) (hz : (𝔳[d]).toRat ≠ 0) :
    Gen.Decimal.Float d f = .ok ⟨recvPrec f, recvMode f, .finite, Gen.Decimal.Signbit d,
      roundBits (recvPrec f) (recvMode f) (Gen.Decimal.Signbit d) (|(𝔳[d]).toRat|)⟩ ∧
    ∃ (m : ℕ) (u : ℤ), Bracket (recvPrec f) |(𝔳[d]).toRat| m u ∧
      roundBits (recvPrec f) (recvMode f) (Gen.Decimal.Signbit d) (|(𝔳[d]).toRat|) =
        pick (recvMode f) (Gen.Decimal.Signbit d) (|(𝔳[d]).toRat|) m u :=
  ⟨Float_nonzero d f hs hf hz,
   roundBits_bracket _ _ _ _ (Nat.pos_of_ne_zero (recvPrec_ne f)) (abs_pos.2 hz)⟩

/-- **relative error below `2^(1-prec)`** for the result's precision, in every mode (the C09 clause) -/
theorem float_rel_error (d : Gen.Decimal) (f : Option BigFloat) (hf : RecvOK f)
    (hs : Gen.Decimal.isSpecial d = false) (hz : (𝔳[d]).toRat ≠ 0) :
    ∃ F, Gen.Decimal.Float d f = .ok F ∧ F.prec = recvPrec f ∧ F.form = .finite ∧
      |fvalue F - (𝔳[d]).toRat| < (2 : ℚ) ^ (1 - (F.prec : ℤ)) * |(𝔳[d]).toRat| :=
  Float_rel_err d f hs hf hz

/-- **half of that in the nearest modes** -/
theorem float_nearest_error (d : Gen.Decimal) (f : Option BigFloat) (hf : RecvOK f)
    (hs : Gen.Decimal.isSpecial d = false) (hz : (𝔳[d]).toRat ≠ 0)
    (hm : recvMode f = 0 ∨ recvMode f = 1) :
    ∃ F, Gen.Decimal.Float d f = .ok F ∧ F.prec = recvPrec f ∧ F.form = .finite ∧
      |fvalue F - (𝔳[d]).toRat| ≤ (2 : ℚ) ^ (-(F.prec : ℤ)) * |(𝔳[d]).toRat| :=
  Float_rel_err_nearest d f hs hf hz hm

/-- **`d.Float(nil)`**: 128 bits, ToNearestEven, correctly rounded: `|F − d| ≤ 2^-128·|d|` -/
theorem float_default (d : Gen.Decimal) (hs : Gen.Decimal.isSpecial d = false) (hz : (𝔳[d]).toRat ≠ 0) :
    ∃ F, Gen.Decimal.Float d none = .ok F ∧ F.prec = 128 ∧ F.mode = 0 ∧ F.form = .finite ∧
      F.neg = Gen.Decimal.Signbit d ∧ F.val = roundBits 128 0 (Gen.Decimal.Signbit d) |(𝔳[d]).toRat| ∧
      |fvalue F - (𝔳[d]).toRat| ≤ (2 : ℚ) ^ (-128 : ℤ) * |(𝔳[d]).toRat| := by
  refine ⟨_, Float_nil_nonzero d hs hz, rfl, rfl, rfl, rfl, rfl, ?_⟩
  rw [fvalue_dist _ _ _ _ _ (value_signed d hs)]
  exact roundBits_rel_err_nearest 128 0 _ _ (Or.inl rfl) (by norm_num) (abs_pos.2 hz)

/-- **exact** when `|d|` has at most `prec` significant bits (`BF.Rep`: `|d| = M·2^E`, `M < 2^prec`) -/
theorem float_exact (d : Gen.Decimal) (f : Option BigFloat) (hf : RecvOK f)
    (hs : Gen.Decimal.isSpecial d = false) (hz : (𝔳[d]).toRat ≠ 0)
    (hr : Rep (recvPrec f) |(𝔳[d]).toRat|) :
    ∃ F, Gen.Decimal.Float d f = .ok F ∧ F.form = .finite ∧ fvalue F = (𝔳[d]).toRat :=
  Float_exact d f hs hf hz hr

/-- **the directed modes** leave the result on the prescribed side -/
theorem float_directed (d : Gen.Decimal) (f : Option BigFloat) (hf : RecvOK f)
    (hs : Gen.Decimal.isSpecial d = false) (hz : (𝔳[d]).toRat ≠ 0) :
    ∃ F, Gen.Decimal.Float d f = .ok F ∧
      (recvMode f = 2 → |fvalue F| ≤ |(𝔳[d]).toRat|) ∧
      (recvMode f = 3 → |(𝔳[d]).toRat| ≤ |fvalue F|) ∧
      (recvMode f = 4 → fvalue F ≤ (𝔳[d]).toRat) ∧
      (recvMode f = 5 → (𝔳[d]).toRat ≤ fvalue F) :=
  Float_directed d f hs hf hz

/-- **the result is a valid `big.Float`** of the model (precision ≤ MaxPrec, a RoundingMode, a positive
    magnitude with at most `prec` significant bits), for every non-NaN `d` and every receiver math/big could
    have produced -/
theorem float_valid (d : Gen.Decimal) (f : Option BigFloat) (hn : Gen.Decimal.IsNaN d = false)
    (hP : ∀ x, f = some x → x.prec ≤ MaxPrec) (hM : ∀ x, f = some x → x.mode ≤ 5) :
    ∃ F, Gen.Decimal.Float d f = .ok F ∧ valid F = true :=
  Float_valid d f hn hP hM

/-- **agreement with the oracle**: in mode ToNearestEven the magnitude is `Spec.roundBinNE |d| prec`, the function
    the differential harness checks `Decimal.Float` against (there only for `prec ≥ 114`; here for every `prec`) -/
theorem float_oracle (d : Gen.Decimal) (f : Option BigFloat) (hf : RecvOK f)
    (hs : Gen.Decimal.isSpecial d = false) (hz : (𝔳[d]).toRat ≠ 0) (hm : recvMode f = 0) :
    ∃ F, Gen.Decimal.Float d f = .ok F ∧ F.val = Spec.roundBinNE |(𝔳[d]).toRat| (recvPrec f) :=
  Float_oracle d f hs hf hz hm

/-! ## B. the rounding function of the model -/

/-- **`roundBits`**: for `prec > 0`, `q > 0` there is exactly one bracket `m·2^u ≤ q < (m+1)·2^u` with a
    normalised `prec`-bit mantissa, and `roundBits prec mode neg q` is the neighbour the mode selects -/
theorem roundBits_spec (prec : ℕ) (mode : UInt8) (neg : Bool) (q : ℚ) (hp : 0 < prec) (hq : 0 < q) :
    (∃ m u, Bracket prec q m u ∧ roundBits prec mode neg q = pick mode neg q m u) ∧
    (∀ m u m' u', Bracket prec q m u → Bracket prec q m' u' → m = m' ∧ u = u') ∧
    Rep prec (roundBits prec mode neg q) :=
  ⟨roundBits_bracket prec mode neg q hp hq, fun _ _ _ _ h h' => Bracket.unique hp h h',
   roundBits_rep prec mode neg q hp hq⟩

theorem roundBits_rel_error (prec : ℕ) (mode : UInt8) (neg : Bool) (q : ℚ) (hp : 0 < prec) (hq : 0 < q) :
    |roundBits prec mode neg q - q| < (2 : ℚ) ^ (1 - (prec : ℤ)) * q ∧
    ((mode = 0 ∨ mode = 1) → |roundBits prec mode neg q - q| ≤ (2 : ℚ) ^ (-(prec : ℤ)) * q) :=
  ⟨BF.roundBits_rel_err prec mode neg q hp hq,
   fun hm => BF.roundBits_rel_err_nearest prec mode neg q hm hp hq⟩

theorem roundBits_exact (prec : ℕ) (mode : UInt8) (neg : Bool) (q : ℚ) (hp : 0 < prec) (hq : 0 < q)
    (hr : Rep prec q) : roundBits prec mode neg q = q :=
  BF.roundBits_exact prec mode neg q hp hq hr

/-! ## C. FromFloat -/

/-- **FromFloat, the code** (no hypotheses): `±Inf ↦ ±Inf`, `±0 ↦ ±0`, a finite non-zero `f` ↦ `FromRat` of its
    exact value (`f.Rat(nil)` is exact) -/
theorem fromFloat_spec (g : Globals) (f : BigFloat) :
    Gen.FromFloat g f =
      (match f.form with
        | .inf => .ok (Gen.inf f.neg)
        | .zero => .ok (Gen.zero f.neg)
        | .finite => Gen.FromRat g (fvalue f)) := by
  cases hf : f.form
  · exact FromFloat_zero g f hf
  · exact FromFloat_eq_FromRat g f hf
  · exact FromFloat_inf g f hf

theorem fromFloat_inf_val (neg : Bool) : 𝔳[Gen.inf neg] = .inf neg := Enc.interp_inf neg
theorem fromFloat_zero_val (neg : Bool) : 𝔳[Gen.zero neg] = .fin neg 0 (-6176) := Enc.interp_zero neg

/-- **FromFloat is within 2 parts in 10^33** — under the exact range conditions: a nearest
    `DefaultRoundingMode`; numerator and denominator of the exact value (for `f = m·2^e`, `m` odd: `m·2^e` and 1
    if `e ≥ 0`, `m` and `2^-e` otherwise) below `(Cmax+½)·10^Emax ≈ 1.298e6145`; `|f| ≥ 5e-6144`. -/
theorem fromFloat_relative_error (g : Globals) (f : BigFloat) (m : Spec.Mode)
    (hm : Spec.Mode.ofNat? g.DefaultRoundingMode.toNat = some m) (hnear : SpecRound.isNearest m = true)
    (hf : f.form = .finite)
    (hnum : (f.val.num.natAbs : ℚ) < ((Spec.Cmax : ℚ) + 1 / 2) * (10 : ℚ) ^ Spec.Emax)
    (hden : (f.val.den : ℚ) < ((Spec.Cmax : ℚ) + 1 / 2) * (10 : ℚ) ^ Spec.Emax)
    (hlow : 5 * (10 : ℚ) ^ (Spec.Emin + 32) ≤ |fvalue f|) :
    ∃ d, Gen.FromFloat g f = .ok d ∧ (𝔳[d]).isFin = true ∧
      |(𝔳[d]).toRat - fvalue f| ≤ 2 * (10 : ℚ) ^ (-33 : Int) * |fvalue f| :=
  FromFloat_rel_nearest g f m hm hnear hf hnum hden hlow

/-- every mode: 2.6 parts in 10^33 (the constant 2 is not reached by the directed modes 4 and 5, see
    `Props.C10c.fromRat_counterexample_toPosInf`) -/
theorem fromFloat_relative_error_any_mode (g : Globals) (f : BigFloat) (m : Spec.Mode)
    (hm : Spec.Mode.ofNat? g.DefaultRoundingMode.toNat = some m)
    (hf : f.form = .finite)
    (hnum : (f.val.num.natAbs : ℚ) ≤ (Spec.Cmax : ℚ) * (10 : ℚ) ^ Spec.Emax)
    (hden : (f.val.den : ℚ) ≤ (Spec.Cmax : ℚ) * (10 : ℚ) ^ Spec.Emax)
    (hlow : (10 : ℚ) ^ (Spec.Emin + 33) ≤ |fvalue f|) :
    ∃ d, Gen.FromFloat g f = .ok d ∧ (𝔳[d]).isFin = true ∧
      |(𝔳[d]).toRat - fvalue f| ≤ 26 / 10 * (10 : ℚ) ^ (-33 : Int) * |fvalue f| :=
  FromFloat_rel_any g f m hm hf hnum hden hlow

/-- **the clause "FromFloat of ANY big.Float is within 2 parts in 10^33" is false**: the valid `big.Float`
    `1 + 2^-20500` (precision 20501) converts to NaN, in every mode (numerator and denominator both exceed the
    Decimal range; `Quo(+Inf, +Inf)`) -/
theorem fromFloat_counterexample_nan (g : Globals) (m : Spec.Mode)
    (hm : Spec.Mode.ofNat? g.DefaultRoundingMode.toNat = some m) :
    valid fOne = true ∧
    ∃ d, Gen.FromFloat g fOne = .ok d ∧ (𝔳[d]).isNaN = true ∧ fvalue fOne = 1 + 1 / 2 ^ 20500 :=
  ⟨fOne_valid, cex_fromFloat_nan g m hm⟩

/-! ## D. the round trip `FromFloat(d.Float(nil))` -/

/-- **exact case**: `Equal` to `d`, in every `DefaultRoundingMode`, when `|d|` has at most 128 significant bits
    (so `Float(nil)` is exact) and the reduced denominator of `d`'s value is converted exactly by `FromInt`
    (`BigConv.MemberNat`: `c·10^e`, `c ≤ Cmax` — here 1 or a power of two up to `2^113`) -/
theorem trip_exact (g : Globals) (d : Gen.Decimal) (m : Spec.Mode)
    (hm : Spec.Mode.ofNat? g.DefaultRoundingMode.toNat = some m)
    (hs : Gen.Decimal.isSpecial d = false)
    (hrep : Rep 128 |(𝔳[d]).toRat|) (hden : MemberNat (𝔳[d]).toRat.den) :
    ∃ F d', Gen.Decimal.Float d none = .ok F ∧ Gen.FromFloat g F = .ok d' ∧
      Spec.equal 𝔳[d'] 𝔳[d] = true :=
  FB.trip_exact g d m hm hs hrep hden

/-- … in particular every integer-valued `d` below `2^128` -/
theorem trip_int (g : Globals) (d : Gen.Decimal) (m : Spec.Mode)
    (hm : Spec.Mode.ofNat? g.DefaultRoundingMode.toNat = some m)
    (hs : Gen.Decimal.isSpecial d = false) (n : ℕ) (hn : n < 2 ^ 128) (hv : |(𝔳[d]).toRat| = (n : ℚ)) :
    ∃ F d', Gen.Decimal.Float d none = .ok F ∧ Gen.FromFloat g F = .ok d' ∧
      Spec.equal 𝔳[d'] 𝔳[d] = true :=
  FB.trip_int g d m hm hs n hn hv

/-- **integers of any size, nearest modes**: every integer-valued finite `d` (all `c·10^e` with `e ≥ 0`, up to
    `Cmax·10^6111`) comes back `Equal`.  (Not so in the directed modes: `trip_counterexample_directed`.) -/
theorem trip_integer (g : Globals) (d : Gen.Decimal) (m : Spec.Mode)
    (hm : Spec.Mode.ofNat? g.DefaultRoundingMode.toNat = some m) (hnear : SpecRound.isNearest m = true)
    (hs : Gen.Decimal.isSpecial d = false) (n : ℕ) (hv : |(𝔳[d]).toRat| = (n : ℚ)) :
    ∃ F d', Gen.Decimal.Float d none = .ok F ∧ Gen.FromFloat g F = .ok d' ∧
      Spec.equal 𝔳[d'] 𝔳[d] = true :=
  FB.trip_integer g d m hm hnear hs n hv

/-- **error bound**: nearest mode, `|d| ≥ 2^-20286 ≈ 1.1e-6107`: finite and within `2·10^-33 + 2^-127` (relative) -/
theorem trip_relative_error (g : Globals) (d : Gen.Decimal) (m : Spec.Mode)
    (hm : Spec.Mode.ofNat? g.DefaultRoundingMode.toNat = some m) (hnear : SpecRound.isNearest m = true)
    (hs : Gen.Decimal.isSpecial d = false) (hlow : (2 : ℚ) ^ (-20286 : ℤ) ≤ |(𝔳[d]).toRat|) :
    ∃ F d', Gen.Decimal.Float d none = .ok F ∧ Gen.FromFloat g F = .ok d' ∧ (𝔳[d']).isFin = true ∧
      |(𝔳[d']).toRat - (𝔳[d]).toRat| ≤
        (2 * (10 : ℚ) ^ (-33 : ℤ) + (2 : ℚ) ^ (-127 : ℤ)) * |(𝔳[d]).toRat| :=
  FB.trip_rel_error g d m hm hnear hs hlow

/-- **small values are lost**: every non-zero `d` with `|d| < 2^-20414 ≈ 5.8e-6146` comes back as a zero, in
    every mode (the denominator `2^(≥20414)` of the 128-bit float exceeds the Decimal range) -/
theorem trip_underflow (g : Globals) (d : Gen.Decimal) (m : Spec.Mode)
    (hm : Spec.Mode.ofNat? g.DefaultRoundingMode.toNat = some m)
    (hs : Gen.Decimal.isSpecial d = false) (hz : (𝔳[d]).toRat ≠ 0)
    (hsmall : |(𝔳[d]).toRat| < (2 : ℚ) ^ (-20414 : ℤ)) :
    ∃ F d', Gen.Decimal.Float d none = .ok F ∧ Gen.FromFloat g F = .ok d' ∧ (𝔳[d']).toRat = 0 :=
  FB.trip_underflow g d m hm hs hz hsmall

/-- **the round trip is not the identity** (default mode): `FromFloat(0.7.Float(nil))` is
    `0.6999999999999999999999999999999999`, not `Equal` to `0.7` -/
theorem trip_counterexample (g : Globals) (hg : g.DefaultRoundingMode = 0) :
    ∃ F d', Gen.Decimal.Float d07 none = .ok F ∧ Gen.FromFloat g F = .ok d' ∧
      (𝔳[d07]).toRat = 7 / 10 ∧
      (𝔳[d']).toRat = 6999999999999999999999999999999999 / 10 ^ 34 ∧
      Spec.equal 𝔳[d'] 𝔳[d07] = false :=
  cex_trip g hg

/-- **a directed `DefaultRoundingMode` breaks the round trip even for integers**: AwayFromZero (byte 3),
    `d = 9999999999999999999999999999999999e10` (above `2^128`): `d.Float(nil) = d + 254976`, and `FromFloat` of it is
    `1e44` -/
theorem trip_counterexample_directed (g : Globals) (hg : g.DefaultRoundingMode = 3) :
    ∃ F d', Gen.Decimal.Float d9 none = .ok F ∧ Gen.FromFloat g F = .ok d' ∧
      (𝔳[d9]).toRat = 9999999999999999999999999999999999 * 10 ^ 10 ∧
      (𝔳[d']).toRat = 10 ^ 44 ∧ Spec.equal 𝔳[d'] 𝔳[d9] = false :=
  cex_trip_away g hg

/-! ## the hypotheses are satisfiable -/

/-- `0.7.Float(f)` into a 3-bit receiver in mode ToPositiveInf that holds −5: `0.75`, precision and mode kept
    (`float_correctly_rounded` on a concrete non-trivial input) -/
example : Gen.Decimal.Float d07 (some ⟨3, 5, .finite, true, 5⟩) = .ok ⟨3, 5, .finite, false, 3 / 4⟩ :=
  ex_float_3bit

/-- `0.7.Float(nil)`: relative error at most `2^-128` -/
example : ∃ F, Gen.Decimal.Float d07 none = .ok F ∧ F.prec = 128 ∧ F.mode = 0 ∧ F.form = .finite ∧
    F.neg = Gen.Decimal.Signbit d07 ∧ F.val = roundBits 128 0 (Gen.Decimal.Signbit d07) |(𝔳[d07]).toRat| ∧
    |fvalue F - (𝔳[d07]).toRat| ≤ (2 : ℚ) ^ (-128 : ℤ) * |(𝔳[d07]).toRat| :=
  float_default d07 rfl (by rw [d07_rat]; norm_num)

/-- `+Inf.Float(nil)` is `+Inf` with precision 0 -/
example : Gen.Decimal.Float (Gen.inf false) none = .ok ⟨0, 0, .inf, false, 0⟩ :=
  float_inf (Gen.inf false) none recvOK_nil rfl rfl

/-- `12345` survives the round trip, in every mode -/
example (g : Globals) (m : Spec.Mode) (hm : Spec.Mode.ofNat? g.DefaultRoundingMode.toNat = some m) :
    ∃ F d', Gen.Decimal.Float d12345 none = .ok F ∧ Gen.FromFloat g F = .ok d' ∧
      Spec.equal 𝔳[d'] 𝔳[d12345] = true :=
  trip_int g d12345 m hm rfl 12345 (by norm_num) d12345_abs

/-- `9999999999999999999999999999999999e10` (above `2^128`, rounded by `Float`) comes back in the default mode -/
example (g : Globals) (hg : g.DefaultRoundingMode = 0) :
    ∃ F d', Gen.Decimal.Float d9 none = .ok F ∧ Gen.FromFloat g F = .ok d' ∧
      Spec.equal 𝔳[d'] 𝔳[d9] = true :=
  trip_integer g d9 .nearestEven (by rw [hg]; rfl) rfl rfl 99999999999999999999999999999999990000000000
    (by rw [d9_rat]; norm_num)

/-- `0.7`: the round trip stays within `2·10^-33 + 2^-127` -/
example (g : Globals) (hg : g.DefaultRoundingMode = 0) :
    ∃ F d', Gen.Decimal.Float d07 none = .ok F ∧ Gen.FromFloat g F = .ok d' ∧ (𝔳[d']).isFin = true ∧
      |(𝔳[d']).toRat - (𝔳[d07]).toRat| ≤
        (2 * (10 : ℚ) ^ (-33 : ℤ) + (2 : ℚ) ^ (-127 : ℤ)) * |(𝔳[d07]).toRat| :=
  trip_relative_error g d07 .nearestEven (by rw [hg]; rfl) rfl rfl d07_large

/-- `1e-6150` comes back as zero -/
example (g : Globals) (m : Spec.Mode) (hm : Spec.Mode.ofNat? g.DefaultRoundingMode.toNat = some m) :
    ∃ F d', Gen.Decimal.Float dTiny none = .ok F ∧ Gen.FromFloat g F = .ok d' ∧ (𝔳[d']).toRat = 0 :=
  trip_underflow g dTiny m hm rfl dTiny_ne dTiny_small

end Props.C09b
